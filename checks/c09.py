from . import lib
from .c04 import STB


def run(res):
    n = 300 if res.tier == "quick" else 6000
    lib.standard_check(
        res, "c09", n,
        prop_files=["theories/Properties/C09.v"],
        model_files=["theories/Server/Inst.v"],
        theorem_note="Properties/C09.v: C09_status_table (+ rows), C09_regenerated_checkParams(_nil) + C09_do_params_is_checkParams + C09_consistency_scan (checkParams regenerated from server.go on this run = the decision of do_params), C09_regenerated_dispatch + C09_dispatch_is_step (the switch of the receive loop = the model's message classes), C09_regenerated_deleteClient, C09_op_without_id, C09_params_accepted_only_if, C09_other_sessions_untouched, C09_footprint_removed; C09_tree_accepts_unknown_mode_refuted",
        trusted=STB,
        assumptions=["per-message atomicity", "a session that has connected but not yet negotiated counts as a live session with default parameters (the code's behaviour; the property's 'only if identical' direction holds)",
                     "model-free oracle: protocol violations must leave RIB/held/counters/election state identical, accepted parameters must be SINGLE_PRIMARY+PRESERVE, multi-field / zero-id / wrong-mode messages end the RPC with the specified code and reason"])
