from . import lib
from .c04 import STB


def run(res):
    n = 250 if res.tier == "quick" else 4000
    nno = 150 if res.tier == "quick" else 2000
    lib.standard_check(
        res, "c08", n,
        prop_files=["theories/Properties/C08.v"],
        model_files=["theories/Server/Inst.v"],
        theorem_note="Properties/C08.v: C08_regenerated_checkFlushRequest (regenerated function = decision table, all ids), C08_decision_table, C08_rpc (rejected => no change), "
                     "C08_effect (authorised => OK, exactly the selected instances emptied, others/held/election untouched, counter invariant kept), C08_rib_flush; C08_tree_refuted (shared backup group)",
        trusted=STB,
        assumptions=["Flush runs alone (overlap with Modify: C11)", "C08_effect is stated for states satisfying INV (proved for every reachable RIB state in C03)",
                     "model-free oracle: expected status from the script and the declarative table, Get-equivalent snapshot per instance before/after, 'removed everything => OK', delete probes after the flush",
                     "vh c08nocheck (oracle only): Flush on a server built with DisableRIBCheckFn, whose RIB holds entries with missing groups, next-hops or group instances: an authorised Flush answers OK, empties exactly the selected instances and leaves the others as they were"],
        extra_runs=[("c08nocheck", nno)])
