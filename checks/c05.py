from . import lib


def run(res):
    n = 150 if res.tier == "quick" else 3000
    lib.standard_check(
        res, "c05", n,
        prop_files=["theories/Properties/C05.v"],
        model_files=["theories/Server/InstUnit.v"],
        theorem_note="Properties/C05.v: C05_regenerated_isNewMaster / C05_new_master_is_128bit_order (isNewMaster regenerated from /repo/server/server.go on this run), C05_regenerated_runElection (runElection regenerated on this run = do_elect: result, curElecID/curMaster, stored id; the embedded call runs the regenerated isNewMaster), C05_history, C05_reported_is_running_max, C05_primary_is_latest_not_lower",
        trusted=["Coq 8.16.1 kernel + vm_compute", "tools/gen_decisions (Go AST serialiser) and Base/GoLite.v semantics",
                 "correspondence harness (fake Modify streams, barrier op), sequential per-message atomicity of the server model"],
        extra_runs=[("c05conc", 40 if res.tier == "quick" else 600)],
        assumptions=["each scripted message is handled atomically in the model; concurrent announcements are exercised on the implementation (vh c05conc: 2-6 sessions announcing at the same moment on fresh servers, quiescent id = maximum, primary announced it) and proved for every entry order of an exclusive critical section in C11_election_max_any_order",
                     "election ids are pairs of 64-bit words (inrange)"])
