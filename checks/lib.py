"""Shared machinery for /verif/bin/check: Coq build + audit, harness build, cases evaluation,
violation reporting, known findings, evidence."""
import fcntl
import json
import os
import re
import shutil
import subprocess
import sys
import time
from concurrent.futures import ThreadPoolExecutor

VERIF = os.path.dirname(os.path.dirname(os.path.abspath(__file__)))
COQ = os.path.join(VERIF, "coq")
THEORIES = os.path.join(COQ, "theories")
HARNESS = os.path.join(VERIF, "harness")
TOOLS = os.path.join(VERIF, "tools")
BIN = os.path.join(VERIF, "bin")
WORK = os.path.join(VERIF, "work")          # scratch (ignored by git), removed per run
REPLAYS = os.path.join(VERIF, "replays")
EVIDENCE = os.path.join(VERIF, "evidence")
REPO = "/repo"

FORBIDDEN = re.compile(r"\b(Admitted|admit|Axiom|Axioms|Parameter|Parameters|Conjecture|Hypothesis|Variable)\b"
                       r"|Unset\s+Guard|bypass_check|type-in-type|impredicative-set|Admit\s+Obligations")


def goenv():
    e = dict(os.environ)
    e.update({"GOFLAGS": "-mod=mod", "GOPROXY": "off", "GOTOOLCHAIN": e.get("GOTOOLCHAIN", "auto")})
    e.pop("GOSUMDB", None) if e.get("GOSUMDB") == "off" else None
    return e


def sh(cmd, cwd=None, env=None, timeout=None, check=False):
    p = subprocess.run(cmd, cwd=cwd, env=env, shell=isinstance(cmd, str), stdout=subprocess.PIPE,
                       stderr=subprocess.STDOUT, text=True, timeout=timeout)
    if check and p.returncode != 0:
        raise RuntimeError("command failed: %s\n%s" % (cmd, p.stdout[-4000:]))
    return p.returncode, p.stdout


class Lock:
    """One build at a time (checks may be started concurrently)."""

    def __init__(self, name):
        os.makedirs(WORK, exist_ok=True)
        self.path = os.path.join(WORK, name + ".lock")

    def __enter__(self):
        self.f = open(self.path, "w")
        fcntl.flock(self.f, fcntl.LOCK_EX)
        return self

    def __exit__(self, *a):
        fcntl.flock(self.f, fcntl.LOCK_UN)
        self.f.close()


# ----------------------------------------------------------------------------- tools / generators

def build_tools():
    with Lock("tools"):
        for t in sorted(os.listdir(TOOLS)):
            if os.path.isdir(os.path.join(TOOLS, t)) and os.path.exists(os.path.join(TOOLS, t, "main.go")):
                rc, out = sh(["go", "build", "-o", os.path.join(BIN, t), "./" + t], cwd=TOOLS, env=goenv(), timeout=600)
                if rc != 0:
                    raise RuntimeError("cannot build tool %s:\n%s" % (t, out))


def regenerate():
    """Re-derive Generated/*.v from /repo's current source. Only rewrites a file whose content changed
    (keeps make incremental)."""
    gen = os.path.join(THEORIES, "Generated")
    os.makedirs(gen, exist_ok=True)
    jobs = [("Decisions.v", [os.path.join(BIN, "gen_decisions"), "-src", os.path.join(REPO, "server/server.go")])]
    for extra in ("gen_locktable", "gen_codectable", "gen_fluent", "gen_chk", "gen_chantable"):
        if os.path.exists(os.path.join(BIN, extra)) and os.path.exists(os.path.join(VERIF, "tools", extra, "target")):
            name = open(os.path.join(VERIF, "tools", extra, "target")).read().strip()
            jobs.append((name, [os.path.join(BIN, extra), "-repo", REPO]))
    for name, cmd in jobs:
        p = subprocess.run(cmd, stdout=subprocess.PIPE, stderr=subprocess.PIPE, text=True, env=goenv(), cwd=REPO)
        new = p.stdout if p.returncode == 0 else "(* generator failed: %s *)\nDefinition generator_failed : False := I.\n" % p.stderr[:500].replace("*)", "* )")
        path = os.path.join(gen, name)
        old = open(path).read() if os.path.exists(path) else None
        if old != new:
            open(path, "w").write(new)


# ----------------------------------------------------------------------------- Coq

def coq_files():
    out = []
    for d, _, fs in os.walk(THEORIES):
        for f in fs:
            if f.endswith(".v"):
                out.append(os.path.relpath(os.path.join(d, f), COQ))
    return sorted(out)


def build_coq(clean=False):
    """Full .vo build (make -k). Returns (ok_files, failed: {file: error text})."""
    with Lock("coq"):
        build_tools()
        regenerate()
        files = coq_files()
        proj = "-Q theories GV\n-arg -w -arg -notation-overridden,-deprecated-hint-without-locality,-ambiguous-paths,-deprecated-instance-without-locality\n" + "\n".join(files) + "\n"
        pp = os.path.join(COQ, "_CoqProject")
        if not os.path.exists(pp) or open(pp).read() != proj or not os.path.exists(os.path.join(COQ, "Makefile.coq")):
            open(pp, "w").write(proj)
            sh(["coq_makefile", "-f", "_CoqProject", "-o", "Makefile.coq"], cwd=COQ, check=True)
        if clean:
            sh("make -f Makefile.coq clean >/dev/null 2>&1; find theories -name '*.vo*' -delete; find theories -name '*.glob' -delete; find theories -name '.*.aux' -delete", cwd=COQ)
        t0 = time.time()
        rc, out = sh("timeout 1500 make -f Makefile.coq -k -j16 2>&1", cwd=COQ)
        os.makedirs(WORK, exist_ok=True)
        open(os.path.join(WORK, "coq_build.log"), "w").write(out)
        failed = {}
        for m in re.finditer(r'File "\./(theories/[^"]+\.v)", line (\d+), characters [^\n]*\n((?:.*\n){1,12})', out):
            f, line, txt = m.group(1), int(m.group(2)), m.group(3)
            if "Error" in txt and f not in failed:
                failed[f] = {"line": line, "error": txt.strip()[:1500], "theorem": enclosing_theorem(os.path.join(COQ, f), line)}
        # the parallel build interleaves the output of several coqc processes: the lines between a `File ...` header
        # and its `Error` can be many.  make's own one-line verdict per target is what decides; the message is
        # looked up afterwards (best effort), and the stale .vo of a target that failed is removed so that nothing
        # later mistakes it for a result of this run
        for m in re.finditer(r"\*\*\* \[[^\]\n]*?(theories/[^\]\s:]+)\.vo\] Error", out):
            f = m.group(1) + ".v"
            if f not in failed:
                line, txt = 0, "coqc failed (see work/coq_build.log)"
                for h in re.finditer(r'File "\./' + re.escape(f) + r'", line (\d+), characters [^\n]*\n', out):
                    line = int(h.group(1))
                    tail = out[h.end():h.end() + 6000]
                    e = re.search(r"(?m)^Error:?[^\n]*(?:\n(?!COQC|make|File |Closed under)[^\n]*){0,8}", tail)
                    if e:
                        txt = e.group(0).strip()[:1500]
                failed[f] = {"line": line, "error": txt, "theorem": enclosing_theorem(os.path.join(COQ, f), line) if line else None}
        if rc != 0 and not failed:
            failed["(build)"] = {"line": 0, "error": "make ended with status %d and no target could be named:\n%s" % (rc, out[-1500:]), "theorem": None}
        for f in failed:
            try:
                os.remove(os.path.join(COQ, f + "o"))
            except OSError:
                pass
        ok = [f for f in files if os.path.exists(os.path.join(COQ, f + "o"))]
        missing = [f for f in files if f not in ok]
        return {"ok": ok, "missing": missing, "failed": failed, "wall_s": time.time() - t0, "rc": rc}


def enclosing_theorem(path, line):
    try:
        lines = open(path).read().split("\n")
    except OSError:
        return None
    for i in range(min(line, len(lines)) - 1, -1, -1):
        m = re.match(r"\s*(Theorem|Lemma|Corollary|Example|Definition|Fixpoint|Instance)\s+([A-Za-z0-9_']+)", lines[i])
        if m:
            return m.group(2)
    return None


def strip_comments(s):
    out, depth, i = [], 0, 0
    while i < len(s):
        if s.startswith("(*", i):
            depth += 1
            i += 2
        elif s.startswith("*)", i) and depth:
            depth -= 1
            i += 2
        else:
            if depth == 0:
                out.append(s[i])
            elif s[i] == "\n":
                out.append("\n")
            i += 1
    return "".join(out)


def audit_coq():
    """No Admitted/admit/Axiom/Parameter/... anywhere in the development. Variable/Hypothesis are allowed
    only inside a Section (checked by nesting)."""
    problems = []
    for f in coq_files():
        src = strip_comments(open(os.path.join(COQ, f)).read())
        depth = 0
        for n, line in enumerate(src.split("\n"), 1):
            if re.match(r"\s*(Section|Module)\s+\w+", line) and ":=" not in line:
                depth += 1
            if re.match(r"\s*End\s+\w+\s*\.", line):
                depth = max(0, depth - 1)
            for m in FORBIDDEN.finditer(line):
                w = m.group(0)
                if w in ("Variable", "Hypothesis", "Variables") and depth > 0:
                    continue
                if w in ("Variable", "Hypothesis") and re.search(r"\bVariables?\b|\bHypothesis\b", line) and depth > 0:
                    continue
                problems.append("%s:%d: %s" % (f, n, line.strip()[:120]))
    return problems


def property_assumptions(prop_id, files=None):
    """Compile each property file on its own and parse every `Print Assumptions` block."""
    files = files or ["theories/Properties/%s.v" % prop_id]
    merged = {"theorems": [], "printed": [], "rc": 0, "raw": ""}
    for rel in files:
        r = property_assumptions_file(rel)
        merged["theorems"] += r["theorems"]
        merged["printed"] += r["printed"]
        merged["rc"] = merged["rc"] or r["rc"]
        merged["raw"] += r["raw"][-1500:]
    return merged


def property_assumptions_file(rel):
    path = os.path.join(COQ, rel)
    if not os.path.exists(path):
        return {"theorems": [], "printed": [], "rc": 1, "raw": "missing " + rel}
    src = open(path).read()
    names = re.findall(r"^\s*(?:Theorem|Corollary|Lemma)\s+([A-Za-z0-9_']+)", src, re.M)
    printed = re.findall(r"Print Assumptions\s+([A-Za-z0-9_'.]+)\s*\.", src)
    rc, out = sh(["coqc", "-Q", "theories", "GV", "-w", "-notation-overridden,-deprecated-hint-without-locality", rel], cwd=COQ, timeout=900)
    blocks = []
    # coqc prints, for each Print Assumptions, either "Closed under the global context" or "Axioms:\n name : type ..."
    chunks = re.split(r"(?=Closed under the global context|Axioms:)", out)
    chunks = [c for c in chunks if c.startswith("Closed under") or c.startswith("Axioms:")]
    for i, n in enumerate(printed):
        c = chunks[i] if i < len(chunks) else "MISSING"
        if c.startswith("Closed under"):
            ax = []
        else:
            ax = re.findall(r"^([A-Za-z0-9_'.]+)\s*:", c, re.M)
        blocks.append({"name": n, "assumptions": ax})
    return {"theorems": names, "printed": blocks, "rc": rc, "raw": out[-3000:]}


ALLOWED_AXIOMS = {
    # standard-library axioms that may appear through std++/Program/Equations; named in DESIGN.md section 6
    "functional_extensionality_dep", "FunctionalExtensionality.functional_extensionality_dep",
    "proof_irrelevance", "ProofIrrelevance.proof_irrelevance", "Eqdep.Eq_rect_eq.eq_rect_eq", "eq_rect_eq",
    "JMeq_eq", "JMeq.JMeq_eq", "classic", "Classical_Prop.classic",
}


# ----------------------------------------------------------------------------- harness

def build_harness(vh_bin="vh", build_flags=()):
    """go build -tags verif ./cmd/<vh_bin> against /repo's working tree (replace directive)."""
    with Lock("harness-" + vh_bin):
        with Lock("gosum"):
            shutil.copy(os.path.join(REPO, "go.sum"), os.path.join(HARNESS, "go.sum"))
        rc, out = sh(["go", "build"] + list(build_flags) + ["-tags", "verif", "-o", os.path.join(BIN, vh_bin), "./cmd/" + vh_bin], cwd=HARNESS, env=goenv(), timeout=1800)
        return rc, out


def run_vh(args, timeout=None, vh_bin="vh", extra_env=None):
    """One harness run.  A harness that does not come back (the code under test wedged it past its own watchdogs)
    is a failed run after 15 minutes in the quick tier, 2 hours in the thorough one."""
    if timeout is None:
        timeout = 7200 if "thorough" in [str(a) for a in args] else 900
    t0 = time.time()
    e = goenv()
    e.update(extra_env or {})
    rc, out = sh([os.path.join(BIN, vh_bin)] + [str(a) for a in args], env=e, timeout=timeout)
    return rc, out, time.time() - t0


def eval_cases(dirpath, timeout=1800):
    """Evaluate every cases*.v in dirpath with coqc (vm_compute inside the kernel's VM) and return
    {file: [mismatching indices]} or raise if a file does not evaluate."""
    files = sorted(f for f in os.listdir(dirpath) if re.match(r"cases.*\.v$", f))

    def one(f):
        rc, out = sh(["coqc", "-Q", os.path.join(COQ, "theories"), "GV", "-w", "-notation-overridden", f], cwd=dirpath, timeout=timeout)
        m = re.search(r"M\s*=\s*(\[[^\]]*\])", out)
        if rc != 0 or not m:
            return f, None, out[-2000:]
        idx = [int(x) for x in re.findall(r"\d+", m.group(1))]
        return f, idx, ""

    res = {}
    with ThreadPoolExecutor(max_workers=16) as ex:
        for f, idx, err in ex.map(one, files):
            if idx is None:
                raise RuntimeError("cases file %s did not evaluate:\n%s" % (f, err))
            res[f] = idx
    return res


# ----------------------------------------------------------------------------- findings / reporting

def load_known():
    p = os.path.join(VERIF, "known_findings.json")
    if not os.path.exists(p):
        return {"findings": [], "fixed": []}
    return json.load(open(p))


class Result:
    """Collects what a check run found and prints the protocol lines."""

    def __init__(self, prop, tier, seed):
        self.prop, self.tier, self.seed = prop, tier, seed
        self.t0 = time.time()
        self.violations = []       # (replay path, found_input)
        self.known = []
        self.notes = []
        os.makedirs(REPLAYS, exist_ok=True)
        self.known_db = load_known()

    def match_known(self, signature):
        """signature: short string describing the failing shape; a known finding lists a regex over it."""
        for k in self.known_db.get("findings", []):
            if k.get("property") == self.prop and re.search(k["match"], signature):
                return k
        return None

    def violation(self, kind, signature, payload, found_input=True):
        k = self.match_known(signature) if found_input else None
        if k is not None:
            line = "KNOWN-FINDING: property=%s %s" % (self.prop, k["what"])
            if line not in self.known:
                self.known.append(line)
                print(line, flush=True)
            return
        n = len(self.violations)
        path = os.path.join(REPLAYS, "%s-%s-%d-%d.json" % (self.prop, self.tier, self.seed, n))
        payload = dict(payload)
        payload.update({"property": self.prop, "kind": kind, "signature": signature, "seed": self.seed, "tier": self.tier})
        json.dump(payload, open(path, "w"), indent=1, default=str)
        self.violations.append((path, found_input))
        print("VIOLATION property=%s replay=%s%s" % (self.prop, path, "" if found_input else " no-failing-input-found"), flush=True)

    def evidence(self, level, coverage, assumptions):
        os.makedirs(EVIDENCE, exist_ok=True)
        ev = {"property_id": self.prop, "tier": self.tier, "seed": self.seed, "level": level,
              "coverage": coverage, "assumptions": assumptions, "wall_s": round(time.time() - self.t0, 2),
              "violations": len(self.violations)}
        json.dump(ev, open(os.path.join(EVIDENCE, self.prop + ".json"), "w"), indent=1, default=str)

    def exit(self):
        sys.exit(1 if self.violations else 0)


def proof_status(build, prop, needs):
    """Which of the files a property's theorems need did not build. needs: list of theories/... paths."""
    broken = []
    if "(build)" in build["failed"]:
        broken.append({"file": "(build)", **build["failed"]["(build)"]})
    for f in needs:
        if f in build["failed"]:
            broken.append({"file": f, **build["failed"][f]})
        elif f in build["missing"]:
            broken.append({"file": f, "line": 0, "error": "not built (a dependency failed)", "theorem": None})
    return broken


def coq_deps(relfile, seen=None):
    """Transitive GV.* dependencies of a theories/ file (by Require lines)."""
    seen = seen if seen is not None else set()
    if relfile in seen:
        return seen
    seen.add(relfile)
    try:
        src = strip_comments(open(os.path.join(COQ, relfile)).read())
    except OSError:
        return seen
    for m in re.finditer(r"From\s+GV\.([A-Za-z0-9_]+)\s+Require\s+(?:Import|Export)?\s*([^.]*)\.", src):
        for name in m.group(2).split():
            coq_deps("theories/%s/%s.v" % (m.group(1), name), seen)
    for m in re.finditer(r"Require\s+(?:Import|Export)?\s+((?:GV\.[A-Za-z0-9_.]+\s*)+)\.", src):
        for q in m.group(1).split():
            parts = q.split(".")
            if len(parts) == 3:
                coq_deps("theories/%s/%s.v" % (parts[1], parts[2]), seen)
    return seen


def shrink_list(items, still_fails, max_runs=60, budget_s=100):
    """Delta debugging over a list; still_fails(list) -> bool.  Bounded by a number of runs and by wall time
    (replays of hangs wait for their watchdogs): the result is then not minimal, only smaller."""
    runs = 0
    n = 2
    cur = list(items)
    t0 = time.time()
    while len(cur) >= 2 and runs < max_runs and time.time() - t0 < budget_s:
        chunk = max(1, len(cur) // n)
        reduced = False
        for i in range(0, len(cur), chunk):
            cand = cur[:i] + cur[i + chunk:]
            runs += 1
            if cand and still_fails(cand):
                cur = cand
                n = max(n - 1, 2)
                reduced = True
                break
            if runs >= max_runs or time.time() - t0 >= budget_s:
                break
        if not reduced:
            if chunk == 1:
                break
            n = min(n * 2, len(cur))
    return cur


# ----------------------------------------------------------------------------- the standard flow

def standard_check(res, vh_cmd, n_cases, prop_files, model_files, theorem_note, trusted, assumptions,
                   extra_vh_args=(), shrink_key="steps", level="proof", post=None, corpus=True, vh_bin="vh", build_flags=(), vh_env=None, extra_coverage=None, extra_runs=()):
    """Proof obligations + correspondence + oracle for one property.

    extra_runs : further generated runs of the same harness binary, [(sub-command, number of cases)], processed like the main one

    prop_files : theories/... files whose theorems state the property (must build, must be axiom-free)
    model_files: theories/... files the cases evaluation needs (hand-written model, no proofs)
    """
    prop = res.prop
    build = build_coq(clean=(res.tier == "thorough" and os.environ.get("VERIF_NO_CLEAN") != "1"))
    audit = audit_coq()
    needs = set()
    for f in prop_files:
        needs |= coq_deps(f)
    broken = proof_status(build, prop, sorted(needs))
    model_needs = set()
    for f in model_files:
        model_needs |= coq_deps(f)
    model_broken = proof_status(build, prop, sorted(model_needs))
    pa = property_assumptions(prop, [f for f in prop_files if "/Properties/" in f]) if not broken else {"theorems": [], "printed": [], "rc": 1, "raw": ""}
    bad_ax = []
    for b in pa["printed"]:
        for a in b["assumptions"]:
            if a.split(".")[-1] not in {x.split(".")[-1] for x in ALLOWED_AXIOMS}:
                bad_ax.append("%s depends on %s" % (b["name"], a))
    obligations = len(pa["printed"]) if not broken else sum(len(re.findall(r"Print Assumptions", open(os.path.join(COQ, f)).read())) for f in prop_files if os.path.exists(os.path.join(COQ, f)))
    discharged = 0 if broken else len([b for b in pa["printed"]])

    rc, out = build_harness(vh_bin, build_flags)
    if rc != 0:
        res.violation("harness-build", "harness does not build against /repo", {"error": out[-3000:],
                      "broken": "the correspondence harness no longer compiles against /repo's working tree"}, found_input=False)
        res.evidence(level, {"obligations": max(obligations, 1), "discharged": discharged, "checker_cmd": "make -f Makefile.coq (coqc 8.16.1)",
                             "trusted_base": trusted, "explanation": "harness build failed"}, assumptions)
        return res.exit()

    work = os.path.join(WORK, "%s-%s-%d" % (prop, res.tier, os.getpid()))
    shutil.rmtree(work, ignore_errors=True)
    os.makedirs(work)
    stats = {}
    try:
        dirs = []
        # corpus first
        cdir = os.path.join(VERIF, "corpus", prop)
        if corpus and os.path.isdir(cdir):
            for i, f in enumerate(sorted(os.listdir(cdir))):
                if f.endswith(".json"):
                    d = os.path.join(work, "corpus%d" % i)
                    rc, o, _ = run_vh([vh_cmd, "-replay", os.path.join(cdir, f), "-out", d, "-tier", res.tier] + list(extra_vh_args), vh_bin=vh_bin)
                    if rc != 0:
                        raise RuntimeError("vh failed on corpus %s:\n%s" % (f, o[-3000:]))
                    dirs.append((d, "corpus/" + f, vh_cmd))
        d = os.path.join(work, "gen")
        rc, o, wall = run_vh([vh_cmd, "-seed", res.seed, "-n", n_cases, "-out", d, "-tier", res.tier] + list(extra_vh_args), vh_bin=vh_bin,
                              extra_env=(vh_env(work) if callable(vh_env) else vh_env))
        if rc != 0:
            raise RuntimeError("vh %s failed:\n%s" % (vh_cmd, o[-3000:]))
        dirs.append((d, "generated", vh_cmd))
        for k, (xcmd, xn) in enumerate(extra_runs):
            d = os.path.join(work, "gen_x%d" % k)
            rc, o, _ = run_vh([xcmd, "-seed", res.seed, "-n", xn, "-out", d, "-tier", res.tier] + list(extra_vh_args), vh_bin=vh_bin,
                              extra_env=(vh_env(work) if callable(vh_env) else vh_env))
            if rc != 0:
                raise RuntimeError("vh %s failed:\n%s" % (xcmd, o[-3000:]))
            dirs.append((d, "generated/" + xcmd, xcmd))

        total_cases = total_nontrivial = 0
        samples = []
        n_mism = 0
        n_oracle = 0
        rules = []
        for d, origin, run_cmd in dirs:
            rep = json.load(open(os.path.join(d, "impl.json")))
            cases = json.load(open(os.path.join(d, "cases.json")))
            total_cases += rep["cases"]
            total_nontrivial += rep["distinct_nontrivial"]
            for k, v in (rep.get("stats") or {}).items():
                stats[k] = stats.get(k, 0) + v
            samples += (rep.get("samples") or [])[:2]
            rule = rep.get("rule", "")
            if rule and rule not in rules:
                rules.append(rule)
            viol = (rep.get("violations") or []) + (rep.get("hangs") or [])
            mism = []
            if not model_broken:
                ev = eval_cases(d)
                per = rep.get("shard", 0)
                for f, idx in sorted(ev.items()):
                    m = re.match(r"cases_(\d+)\.v", f)
                    base = int(m.group(1)) * per if m else 0
                    mism += [base + i for i in idx]
            # instances of a known finding are announced (once) and take no part in what follows: they neither use
            # up the report budget nor hide another violation, or a disagreement with the model, in the same case
            for v in viol:
                if res.match_known(v["problem"]) is not None:
                    res.violation("oracle", v["problem"], {})
            viol = [v for v in viol if res.match_known(v["problem"]) is None]
            oracle_cases = sorted({v["case"] for v in viol})
            n_oracle += len(oracle_cases)
            n_mism += len(mism)
            # report: oracle violations first (a concrete failing input on the implementation)
            reported = set()
            for v in viol:
                if v["case"] in reported or len(reported) >= 3:
                    continue
                reported.add(v["case"])
                case = cases[v["case"]]
                small = shrink_case(run_cmd, case, work, shrink_key, want_oracle=True, extra=extra_vh_args, vh_bin=vh_bin)
                res.violation("oracle", v["problem"], {"origin": origin, "problem": v["problem"], "case": small, "original_case": case,
                              "replay_cmd": "bin/%s %s -replay <file with [case]> -out <dir>" % (vh_bin, run_cmd), "vh_cmd": run_cmd,
                              "theorem": theorem_note})
            for i in mism:
                if i in oracle_cases or len(reported) >= 6:
                    continue
                reported.add(i)
                case = cases[i]
                small = shrink_case(run_cmd, case, work, shrink_key, want_oracle=False, extra=extra_vh_args, vh_bin=vh_bin)
                # is the shrunk case also an oracle violation? (then it is a failing input)
                res.violation("correspondence", "model and implementation disagree (%s)" % run_cmd,
                              {"origin": origin, "case": small, "original_case": case, "vh_cmd": run_cmd,
                               "broken": "correspondence between coq/theories model (%s) and /repo" % ", ".join(model_files)},
                              found_input=False)
        if model_broken:
            res.violation("model-build", "model files do not build", {"broken": model_broken}, found_input=False)
        if broken and not res.violations:
            res.violation("proof", "proof obligation no longer checks", {"broken": broken, "theorem": theorem_note,
                          "search": "oracle over %d cases found no failing input" % total_cases}, found_input=False)
        if audit:
            res.violation("audit", "forbidden construct in the Coq development", {"broken": audit}, found_input=False)
        if bad_ax:
            res.violation("axioms", "property theorem depends on an axiom outside the allow-list", {"broken": bad_ax}, found_input=False)
        extra_cov = {}
        if post:
            extra_cov = post(res, work) or {}
        cov = {"obligations": max(obligations, 1), "discharged": discharged,
               "checker_cmd": "coq_makefile -f _CoqProject -o Makefile.coq && make -f Makefile.coq -k -j16 (coqc 8.16.1, full .vo build); coqc theories/Properties/%s.v for Print Assumptions" % prop,
               "trusted_base": trusted,
               "theorems": pa["printed"], "proof_files_broken": broken,
               "evaluations": total_cases, "distinct_nontrivial": total_nontrivial, "rule": " || ".join(rules) if rules else rule,
               "traces_validated_against_impl": total_cases, "correspondence_mismatches": n_mism, "oracle_violations": n_oracle,
               "input_distribution": stats, "samples": samples[:4], "coq_build_s": round(build["wall_s"], 1),
               "known_findings_hit": res.known}
        cov.update(extra_cov)
        cov.update(extra_coverage or {})
        res.evidence(level, cov, assumptions)
    finally:
        shutil.rmtree(work, ignore_errors=True)
    res.exit()


def shrink_case(vh_cmd, case, work, key, want_oracle, extra=(), vh_bin="vh"):
    """Shrink case[key] (a list) while the failure persists on the implementation (and the model)."""
    if not isinstance(case, dict) or key not in case or len(case[key]) <= 1:
        return case
    counter = [0]

    def fails(items):
        counter[0] += 1
        d = os.path.join(work, "shrink%d" % counter[0])
        cand = dict(case)
        cand[key] = items
        os.makedirs(d, exist_ok=True)
        json.dump([cand], open(os.path.join(d, "in.json"), "w"))
        rc, o, _ = run_vh([vh_cmd, "-replay", os.path.join(d, "in.json"), "-out", d] + list(extra), timeout=120, vh_bin=vh_bin)
        if rc != 0:
            return False
        rep = json.load(open(os.path.join(d, "impl.json")))
        bad = bool(rep.get("violations") or rep.get("hangs"))
        if want_oracle:
            shutil.rmtree(d, ignore_errors=True)
            return bad
        try:
            ev = eval_cases(d, timeout=120)
        except Exception:
            return False
        finally:
            shutil.rmtree(d, ignore_errors=True)
        return any(ev.values())

    try:
        small = shrink_list(case[key], fails, max_runs=40 if want_oracle else 25)
    except Exception:
        return case
    out = dict(case)
    out[key] = small
    return out
