from . import lib


def run(res):
    n = 400 if res.tier == "quick" else 6000
    lib.standard_check(
        res, "c13", n,
        prop_files=["theories/Properties/C13.v"],
        model_files=["theories/Client/Queues.v", "theories/Client/Drain.v"],
        theorem_note="Properties/C13.v: C13_conservation, C13_result_matches_op, C13_await_sound, C13_converged_is_answered, "
                     "C13_rib_ack_not_terminal_in_fib_mode, C13_violations_surface (+ C13_unknown_id_is_violating, "
                     "C13_duplicate_terminal_is_violating) for the repaired client; without any assumption on the ids: C13_never_silently_gone, "
                     "C13_same_id_twice_is_rejected, C13_pending_id_is_rejected, C13_rejected_request_surfaces; C13_unknown_rib_ack_refuted for the tree; "
                     "the send path under every interleaving of Q / StartSending / StopSending / sender (Client/Drain.v, any channel capacity): C13_send_path_conservation, "
                     "C13_send_path_never_lost, C13_send_path_at_most_once, C13_send_path_idle, C13_send_path_progress, C13_send_path_terminates, C13_send_path_maximal_run_idle",
        trusted=["Coq 8.16.1 kernel + vm_compute",
                 "hand-written sequential model Client/Queues.v of client/gribiclient.go, validated on every run against the real client",
                 "correspondence harness vh-c13: real client over in-memory gRPC (bufconn) against a scripted stub server; "
                 "quiescence detected by counting the client's own SendMsg/RecvMsg calls (stream interceptor) and Done()"],
        extra_runs=[("c13race", 8 if res.tier == "quick" else 120),
                    ("c13ack", 20 if res.tier == "quick" else 300),
                    ("c13drain", 60 if res.tier == "quick" else 1000)],
        assumptions=["vh-c13 c13drain (oracle + correspondence with Drain.scenario: did the first StartSending have to wait, and the order in which the stream got the requests): StopSending and further Q calls while StartSending is still handing the queued requests to the sender (the stream's Send is held so that it blocks on the bounded modify channel), then StartSending again: every operation handed to the stream exactly once, pending until answered, exactly one result afterwards",
                     "one event at a time in the model: the harness lets the client absorb each call / response before the next one; "
                     "one interleaving is exercised on the implementation in addition (vh-c13 c13race: callers spinning in AwaitConverged while one response "
                     "both answers the last pending operation and records a receive error - none may return nil; vh-c13 c13ack: an application looping Results() + AckResult(what it was shown) while the server "
                     "streams one result per response - acknowledged results + final Results() must be exactly the results sent); other interleavings are C14's subject",
                     "TreatRIBACKAsCompletedInFIBACKMode = false (the default)",
                     "queued operation ids pairwise distinct is the hypothesis of the conservation theorems (exactly one terminal result); reused ids "
                     "(twice inside one request, of a pending / completed operation) are generated, compared with the model and covered by "
                     "C13_never_silently_gone / C13_rejected_request_surfaces and the per-operation oracle (pending as itself | resulted with its type and key | send error recorded by its Q)",
                     "AckResult is outside the Coq model (it only removes results: by operation id, exactly those it is given); its contract and its "
                     "interleavings with the receiver are checked on the implementation by the oracle of vh-c13 c13ack, with ONE application goroutine "
                     "(AckResult replaces the queue under the READ lock: concurrent AckResult / Results callers race - reported, not exercised)"],
        vh_bin="vh-c13", shrink_key="steps")
