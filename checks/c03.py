from . import lib
from .c01 import TB


def run(res):
    n = 200 if res.tier == "quick" else 5000
    lib.standard_check(
        res, "c03", n,
        prop_files=["theories/Properties/C03.v"],
        model_files=["theories/Rib/Run.v"],
        theorem_note="Properties/C03.v: C03_RC_invariant (counters = number of referrers in every reachable state, any cascade order), "
                     "C03_delete_group_verdict / C03_delete_nexthop_verdict (FAILED iff installed and referenced), C03_delete_top_always_succeeds, C03_history_free; "
                     "C03_referenced_group_iff_referrer_exists / C03_referenced_nexthop_iff_referrer_exists (a counter-sum is non-zero exactly when an installed referrer exists; Rib/RefExists.v), "
                     "C03_reachable_delete_group / C03_reachable_delete_nexthop (after ANY history: FAILED and unchanged iff installed and some installed entry points at it, acknowledged and gone iff not), C03_reachable_example; "
                     "C03_tree_refuted (v_tree: duplicate group member)",
        trusted=TB + ["hook /repo/rib/verif_hooks.go VerifRefCounts (read-only copy of the counters)"],
        assumptions=["sequential RIB-level calls", "model-free oracle: referrers recounted from RIBContents after every step and compared with the counters; "
                     "at the end of each history a DELETE probe of every group / next-hop id 1..3 in every instance, each on its own replay of the history"])
