from . import lib


def run(res):
    n = 25 if res.tier == "quick" else 400
    lib.standard_check(
        res, "c14", n,
        prop_files=["theories/Properties/C14.v"],
        model_files=["theories/Client/Lifecycle.v"],
        theorem_note="Properties/C14.v (repaired protocol, all n, k, sides, modes, schedules): C14_no_deadlock, C14_all_runs_terminate, "
                     "C14_run_extends_to_final, C14_terminal_is_clean (Q returns, AwaitConverged returns, Close/Reset return, sender and "
                     "receiver gone, Done signalled, fresh after Reset+Connect), C14_await_decision, C14_await_returns_error; the end of the stream as the sender sees it, FEnd = the server "
                     "ends the RPC with status OK (any variant): C14_send_failure_recorded, C14_sender_exit_reasons, C14_clean_end_noticed_by_idle_sender, "
                     "C14_clean_end_can_go_unnoticed (a sender that is not idle misses a clean end: nothing is recorded - the code as it is); "
                     "for the tree: C14_q_blocks_refuted; for the DESIGN.md patch alone: C14_select_only_refuted",
        trusted=["Coq 8.16.1 kernel + vm_compute",
                 "hand-written LTS Client/Lifecycle.v of the goroutine protocol in client/gribiclient.go (threads, modifyCh, sendExitCh, "
                 "awaiting RW-lock with writer preference, wait group), validated on every run against the real client",
                 "fault-injection harness vh-c14: real client over in-memory gRPC (bufconn), stream interceptor that fails / delays "
                 "SendMsg and RecvMsg at a chosen index, scripted server ending the RPC with a status, watchdogs, goroutine census"],
        assumptions=["the application's Done() channel is obtained once, when the client is created, and must still be the one that is signalled after Reset + Connect (checked when the reconnected client ends)",
                     "PARTIAL claim: the Go scheduler, the sync.RWMutex writer preference and gRPC's stream semantics are runtime facts "
                     "taken from their documentation; the theorems are about the model, tied to the code by the outcome comparison",
                     "clients created with options (PersistEntries / FIBACK / ElectedPrimaryClient): the session-parameters and election-id messages that "
                     "StartSending queues are requests 0 (and 1) of the exchange in the model (one response each); that Reset leaves no stale election / "
                     "session-parameters entry pending is checked on the implementation (Status / Pending right after Reset, convergence of the new stream)",
                     "stream abstraction: one response per request; a failed Send breaks Recv and vice versa; after CloseSend the server "
                     "ends the RPC once everything is answered; Send itself does not block for ever; a clean end (status OK) of the RPC is "
                     "io.EOF for Recv (not an error for the receiver) and io.EOF for every later Send (a send error)",
                     "clean-end scenarios: the harness lets the server end the RPC only once the sender is parked in its channel receive "
                     "(goroutine stacks) - with a busy sender the code as it is can miss the end (C14_clean_end_can_go_unnoticed, reproduced once on /repo) - "
                     "and asks for the recorded error only when at least one further request is queued",
                     "Close / Reset are called after the burst of Q calls and AwaitConverged have returned (the property's 'followed by')",
                     "a hang is a watchdog verdict (1.2 s without progress on operations that take microseconds)",
                     "the lock-order scenario (StartSending concurrent with AwaitConverged, no fault) is checked by the harness oracle only; "
                     "it is outside the Coq model"],
        vh_bin="vh-c14", shrink_key="burst", level="proof")
