from . import lib
from .c01 import TB


def run(res):
    n = 400 if res.tier == "quick" else 8000
    lib.standard_check(
        res, "c15", n,
        prop_files=["theories/Properties/C15.v"],
        model_files=["theories/Tools/Reconciler.v"],
        theorem_note="Properties/C15.v: C15_converges (every reference-closed intended RIB, every target RIB without held operations whose instances include the intended ones, "
                     "any base id, any cascade order: each operation of Add.NH, Add.NHG, Add.Top, Replace.NH, Replace.NHG, Replace.Top, Delete.Top, Delete.NHG, Delete.NH is acknowledged "
                     "alone by its own call and the target's five tables equal the intended ones in every instance, target-only instances ending empty), "
                     "C15_converges_reachable (the same over RIBs given by arbitrary histories, only closedness of the intended RIB, no held operation on the target and instance inclusion assumed; uses C15_stored_ok_reachable and C03's INV), "
                     "C15_ids / C15_ids_in_creation_order (ids distinct, exactly base+1..base+k, counter left at base+k), C15_idempotent, C15_equal_no_ops (same contents -> no operations); "
                     "the pinned tree's behaviour is C15_converges_tree_refuted / C15_all_programmed_tree_refuted (rv_tree: a target-only instance is never visited)",
        trusted=TB + ["hand-written model Tools/Reconciler.v of /repo/rib/reconciler/reconcile.go (diff over RIBContents, ReconcileOps, id assignment), tied to the code by the correspondence on every run: "
                      "the nine lists as sets of (instance, kind, entry), the id counter, and the real RIB's answer to each operation in the order sent plus its final tables and counters",
                      "harness vh-c15: AFTOperation -> model entry reader (checked lossless per operation by rebuilding the protobuf), closure normalisation of generated / shrunk cases"],
        assumptions=["both RIBs are rib.RIB values built through AddEntry with reference checks on; three quarters of the cases hand them to the reconciler as reconciler.LocalRIB, one quarter (every profile) put the target, "
                     "the intended side or both behind a reconciler.RemoteRIB: the side's rib.RIB is served by a real server (server.NewFake + InjectRIB) in the harness process and read through client.Get / rib.FromGetResponses, "
                     "over bufconn (NewRemoteRIBWithStub) or loopback TLS (NewRemoteRIB); the operations are sent to the target's rib.RIB directly in both modes (the Modify path is C13/C14's); oracle and correspondence are the same in both modes: "
                     "a network instance without entries is invisible through Get, which changes nothing (diff treats a missing instance and an empty one alike: no operation in either case)",
                     "Reconcile is called with explicitReplace unset (the only way the public API calls diff): replaces are implicit ADDs",
                     "Go's map iteration order makes the order inside each list and the id of each operation vary: the correspondence compares the lists as sets and the theorems hold for the canonical order; "
                     "the id clauses are checked on the implementation by the oracle (sorted ids = base+1..base+k, counter = base+k)",
                     "entry fields outside the modelled ones (pop-top-label etc., C07) are not generated",
                     "model-free oracle: every operation answered oks=[its id], nothing failed or held; RIBContents equal on both sides in every instance of the target; equal RIBs give no operations; a second Reconcile after a successful reconciliation (the target read anew, through Get in remote mode) gives no operations"],
        vh_bin="vh-c15", shrink_key="ents")
