from . import lib

STB = ["Coq 8.16.1 kernel + vm_compute",
       "hand-written sequential server model Server/Model.v (one scripted message handled atomically) instantiated with the RIB model (Server/Inst.v), tied to /repo by the correspondence on every run: per step responses / RPC end code+reason, Flush status, Get entries; final tables, counters, held ids, election id and primary",
       "tools/gen_decisions + Base/GoLite.v: checkElectionForModify / checkFlushRequest / isNewMaster regenerated from server.go on every run; theorems re-checked against them",
       "harness: fake Modify/Get streams driven without a network, barrier operation for deterministic synchronisation, hooks /repo/server/verif_hooks.go (election state, session table, RIB accessor)"]


def run(res):
    n = 250 if res.tier == "quick" else 5000
    nconc = 6 if res.tier == "quick" else 60
    lib.standard_check(
        res, "c04", n,
        prop_files=["theories/Properties/C04.v"],
        model_files=["theories/Server/Inst.v"],
        theorem_note="Properties/C04.v: C04_regenerated_checkElectionForModify (regenerated function = model gate for every input), C04_gate_ok_iff, C04_change_needs_gate, C04_rejected_untouched, C04_frame",
        trusted=STB,
        assumptions=["per-message atomicity (sub-message interleavings: C11)", "session identifiers are distinct non-empty strings (uuid)",
                     "model-free oracle: from the script and the server's own election responses decide which operations the property says must be rejected; those must be FAILED and, when a whole request must be rejected, RIB contents + held ids + counters + election state must be identical before and after",
                     "vh c04conc (oracle only, concurrent): the primary and a standby send multi-operation requests on their own sessions at the same time, the standby stamping its operations with the primary's id or with its own lower one; every operation of the standby must be answered FAILED and none of its entries may appear in the RIB, whatever the interleaving of the two handlers"],
        extra_runs=[("c04conc", nconc)])
