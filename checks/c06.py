from . import lib
from .c04 import STB


def run(res):
    n = 250 if res.tier == "quick" else 5000
    lib.standard_check(
        res, "c06", n,
        prop_files=["theories/Properties/C06.v"],
        model_files=["theories/Server/Inst.v"],
        theorem_note="Properties/C06.v: C06_answers_nodup (no id answered twice over a whole history, any map order), C06_answers_are_submitted, C06_answered_or_held + C06_held_is_legitimate "
                     "(exactly one terminal result unless legitimately held), C06_add_entry_accounting, C06_delete_entry_answers, C06_batch (k operations, k responses), C06_rib_before_fib, C06_no_fib_unless_negotiated",
        trusted=STB,
        assumptions=["operation ids are pairwise distinct within a history (client contract; id reuse silently replaces a held operation)",
                     "known finding K1: results are not routed per session - a held operation of a superseded session is acknowledged on the resolver's stream; the no-foreign-result clause therefore holds only while every held operation belongs to the current primary (C06_add_entry_accounting: answered ids are the call's own or held ones)",
                     "when a request ends the RPC, responses produced before the fatal operation race with the termination of the stream (compared as a prefix)",
                     "model-free oracle: per (stream, id) result counts over whole scripts, FIB after RIB, k responses for k operations, end-of-script answered-or-held-or-excused"])
