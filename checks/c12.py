from . import lib
from .c04 import STB


def run(res):
    n = 175 if res.tier == "quick" else 3500
    lib.standard_check(
        res, "c12", n,
        prop_files=["theories/Properties/C12.v"],
        model_files=["theories/Server/Inst.v"],
        theorem_note="Properties/C12.v: C12_malformed_is_error (every listed class is an error in every state), C12_malformed_add_rejected / C12_error_is_noop (FAILED once, RIB literally unchanged, any cascade order), "
                     "C12_malformed_delete_rejected, C12_bad_instance_failed, C12_unsupported_type_failed; C12_tree_refuted",
        trusted=STB + ["worker-process isolation: each case is announced before it runs, so a crash of the process is attributed to its input"],
        assumptions=["PARTIAL: 'cannot crash or hang' is a runtime fact - established only on the inputs the harness runs (29 malformed classes x contexts), with the model's totality as its proof-side shadow",
                     "the id of a malformed operation is not the id of a held operation (id reuse replaces the held one)",
                     "which payload values the YANG schema rejects is library behaviour (ygot): modelled by a validity bit / label range, tied by the correspondence"],
        level="proof")
