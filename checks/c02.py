from . import lib
from .c01 import TB


def run(res):
    n = 300 if res.tier == "quick" else 6000
    lib.standard_check(
        res, "c02", n,
        prop_files=["theories/Properties/C02.v"],
        model_files=["theories/Rib/Run.v"],
        theorem_note="Properties/C02.v: C02_ack_only_resolvable, C02_cascade_acks_resolvable, C02_closed_* (init/add/delete/full flush/history), C02_fuel_sufficient, C02_complete, "
                     "C02_held_invariants (no held operation is resolvable, every reachable state is quiescent, any permutation order), C02_nofwd_*, C02_results_disjoint, C02_results_ids; "
                     "C02_partial_flush_breaks_closed_refuted, C02_failed_then_acked_tree_refuted, C02_order_matters_witness",
        trusted=TB,
        assumptions=["sequential RIB-level calls; Go map iteration order = any permutation of the held-operation map",
                     "whole-RIB state changes only through AddEntry/DeleteEntry and full flushes for the closedness clause (partial flushes excluded by the property text; refutation witness carried)",
                     "model-free oracle: after every step, danglers recomputed from RIBContents, every held operation re-evaluated for resolvability directly on RIBContents, nothing held when forward references are disabled; each history is a random arrival order of a dependency DAG"])
