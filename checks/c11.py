import glob
import os
import re

from . import lib
from .c04 import STB


def run(res):
    n = 14 if res.tier == "quick" else 300

    def env(work):
        return {"GORACE": "log_path=%s halt_on_error=0 exitcode=0" % os.path.join(work, "race")}

    def post(res, work):
        # every data race the detector logged is a violation; the first report of each distinct pair of
        # source lines is kept as the replay
        seen = {}
        n_reports = 0
        for f in sorted(glob.glob(os.path.join(work, "race.*"))):
            txt = open(f, errors="replace").read()
            for rep in txt.split("==================\n"):
                if "WARNING: DATA RACE" not in rep:
                    continue
                n_reports += 1
                lines = sorted(set(re.findall(r"(%s/[^\s:]+:\d+)" % re.escape(lib.REPO), rep)))[:4]
                key = " ".join(lines)
                if key and key not in seen:
                    seen[key] = rep[:4000]
        for key, rep in list(seen.items())[:3]:
            res.violation("race", "data race between " + key, {"report": rep,
                          "replay_cmd": "GORACE=halt_on_error=1 bin/vh-c11 c11 -seed %d -n 14 -out <dir>" % res.seed,
                          "broken": "Go race detector (happens-before analysis) on the concurrent workload of vh-c11"})
        return {"race_reports": n_reports, "distinct_races": len(seen)}

    lib.standard_check(
        res, "c11", n,
        prop_files=["theories/Properties/C11.v"],
        model_files=[],
        theorem_note="Properties/C11.v: C11_election_max_any_order (exclusive critical section: every entry order gives the maximum and an announcer of it), C11_no_lock_leaked + C11_no_lock_leaked_details (regenerated per-exit may-hold analysis: every return / end of body of every locking function of rib/server, branch by branch, holds no lock it took unless a deferred unlock covers it; the one excused exit is named in LockOrder.known_leaks), C11_lock_discipline (obligations over the lock table regenerated from server.go / rib.go: "
                     "guarded writes exclusive, guarded reads locked, lock order acyclic), C11_no_close_of_sent_channel + C11_chan_discipline(_details) (obligations over the channel table regenerated from server.go / rib.go: no channel that is sent on is closed, closed once, sends have receivers, one-shot error sends return, tear-down after the RPC-ending error, consumers stay alive, no inescapable channel operation under a lock), C11_ranked_locks_no_deadlock_cycle; C11_shared_cs_lost_update_refuted",
        trusted=STB + ["tools/gen_locktable (Go AST: per function the locks held at each access to a guarded field and at each call) - a static approximation: name-based call graph inside package server and rib",
                       "the field -> guard map and the list of setup-only writers in Conc/LockOrder.v (hand-written)", "Go race detector, watchdogs, goroutine dumps"],
        assumptions=["PARTIAL: data-race freedom in the Go memory model, panics and gRPC internals are runtime facts; the Coq half covers the lock discipline written in gribigo (regenerated table) and the election compare-and-set; the runtime half is the stress workload under the race detector",
                     "AddNetworkInstance / SetPostChangeHook / SetResolvedEntryHook run during set-up only (they are the only writers of the instance map / hook fields)",
                     "a session's own clientState is written only by its receive goroutine",
                     "c11rib: the RIB's own locks under 2-6 concurrent callers of the public rib.RIB API (the callers a server with several writers has; in SINGLE_PRIMARY mode the server itself lets only the primary through, so Modify sessions alone overlap inside the RIB only during a hand-over) with held operations being resolved by other callers' installs, readers walking RIBContents meanwhile; race detector, watchdog per call, worker process per case; quiescent: installed next-hops per key space = fold of the acknowledged calls",
                     "two further runs of the race-built harness: c11elect (2-6 sessions announce two ids each at the same moment on fresh servers: every response within [own id, maximum], afterwards id = maximum and the primary announced it) and c11snap (slow Get readers against a writer and a Flush caller: every Get result is, instance by instance, a closed state)",
                     "quiescent installed = acknowledged is checked for workloads without Flush, sessions using disjoint key spaces (so that acknowledgements of different streams commute)"],
        extra_runs=[("c11elect", 30 if res.tier == "quick" else 400), ("c11snap", 2 if res.tier == "quick" else 30),
                    ("c11rib", 4 if res.tier == "quick" else 60)],
        vh_bin="vh-c11", build_flags=["-race"], vh_env=env, post=post, shrink_key="none")
