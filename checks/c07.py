from . import lib


def run(res):
    n = 160 if res.tier == "quick" else 3000
    lib.standard_check(
        res, "c07", n,
        prop_files=["theories/Properties/C07.v"],
        model_files=["theories/Codec/GetCases.v"],
        theorem_note="Properties/C07.v: C07_get_exact (errors iff bad request; exact entry set per scope, each once, tagged, stored payload; "
                     "empty scope => empty OK stream; wire payload = stored payload under the inventory obligation), "
                     "C07_all_is_disjoint_union, C07_roundtrip (from the finite obligation over the field inventory) + "
                     "C07_inventory_obligation / C07_roundtrip_fixed / C07_inventory_census on the regenerated table, C07_obligation_iff_source_copy "
                     "(obligation holds of the code as it is iff ConcreteNextHopProto assigns PopTopLabel; copies regenerated from rib.go), C07_rebuild; "
                     "for the tree: C07_inventory_obligation_tree_refuted, C07_roundtrip_refuted, C07_get_payload_refuted, C07_roundtrip_partial",
        trusted=["Coq 8.16.1 kernel + vm_compute",
                 "hand-written model of Server.Get / doGet / RIBHolder.GetRIB (Server/Inst.v do_get over the RIB model's tables) and of "
                 "rib.FromGetResponses (Codec/Wire.v rebuild), tied to /repo by the correspondence on every run",
                 "codec model Codec/Fields.v on abstract payloads: which protobuf wrapper kinds protomap.PathsFromProto/ytypes.SetNode (store) and "
                 "ygot.TogNMINotifications/protomap.ProtoFromPaths (load) handle is LIBRARY behaviour of ygot v0.34.0 read from protomap/proto.go "
                 "(makeWrapper: String/Uint/Bytes only) - modelled, validated by the correspondence, not verified",
                 "field inventory: Generated/CodecTable.v regenerated on every run from gribi_aft.proto of the gribi version /repo's go.mod selects "
                 "(tools/gen_codectable); the harness prints the same inventory by reflection over the linked protobuf descriptors and coqc "
                 "compares the two; the builder inventory (39 fields + list/container rows) is hand-written from fluent/fluent.go and checked "
                 "against the regenerated table (C07_inventory_obligation)",
                 "harness vh-c07: real fluent builders -> real server over a fake Modify stream (one operation per request + barrier operation), "
                 "real Get over a fake Get stream, real rib.FromGetResponses; hook /repo/server/verif_hooks.go (RIB accessor)"],
        extra_runs=[("c07conc", 4 if res.tier == "quick" else 40)],
        assumptions=["the model's Get runs on a quiescent RIB; on the implementation, Gets racing with a writer and a Flush caller are additionally required to return, instance by instance, a closed state (vh-c07 c07conc; an instance is read under its lock and is closed at every moment by C02) - other interleavings are C10/C11",
                     "values are abstract codes: the codec model keeps or drops whole leaves by wrapper kind; value-level rejections by the schema "
                     "(label outside 16..2^20-1 in a stack, TTL > 255, metadata not 1..8 bytes, ...) are an input flag of the model (bad entry => FAILED), "
                     "stated by the harness from the YANG ranges and validated by the correspondence",
                     "keyed lists (group members, encapsulation headers) are compared up to order; an embedded message without any leaf "
                     "(MPLSEncapHeader() without labels: `mpls:{}`) is not a leaf and is not compared; duplicate member indices in one group are not generated (C03)",
                     "a network instance without entries cannot appear in Get responses: rebuilt and source RIB are compared with a missing instance = an empty one",
                     "enum NUMBERS the enum does not define are never generated (protomap panics on them: C12)",
                     "model-free oracle: per (instance, kind, key) the protobuf last acknowledged RIB_PROGRAMMED; every Get must return exactly those of its "
                     "scope, proto.Equal after canonicalisation, errors exactly for unknown/empty instance name or unsupported table; "
                     "Get(all, ALL) = disjoint union of the five per-table Gets; rib.FromGetResponses(Get(all, ALL)).RIBContents() == RIBContents() (ygot.Diff)"],
        vh_bin="vh-c07", shrink_key="steps")
