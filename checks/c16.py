from . import lib


def run(res):
    n = 600 if res.tier == "quick" else 8000
    nconc = 60 if res.tier == "quick" else 600
    lib.standard_check(
        res, "c16", n,
        prop_files=["theories/Properties/C16.v"],
        model_files=["theories/Rib/HooksRun.v"],
        theorem_note="Properties/C16.v: C16_mirror (hook registered at any point of any history from rib0: fold of the notifications since registration over the tables at registration = installed tables, every instance/key, every walk order), "
                     "C16_mirror_any_variant (needs only repair F15), C16_mirror_from_start(_run) (only configuration before registration: fold of all notifications from empty tables), "
                     "C16_delete_carries_removed(_from_start), C16_fold_delete_noop, C16_fold_hook_reads, C16_resolved_snapshot(_history) (ADD snapshot binds the key to an acknowledged payload, DELETE snapshot lacks it); "
                     "C16_mirror_tree_refuted (v_tree: SetPostChangeHook; AddNetworkInstance 2; ADD next-hop in 2 -> no notification)",
        trusted=["Coq 8.16.1 kernel + vm_compute",
                 "hand-written model Rib/Model.v of /repo/rib/rib.go (postChangeHook calls of AddXXX / DeleteXXX / locklessDeleteXXX, callResolvedEntryHook, SetPostChangeHook, AddNetworkInstance), tied to the code by the correspondence on every run: per step the multiset of post-change callbacks (operation, instance, entry with payload; a nil entry compared by table only) and of resolved-entry callbacks (operation, instance, table, key, all tables of the snapshot), plus oks / fails / fatal / held ids and the final tables and counters",
                 "hint-ordered replay (Rib/Run.v canon): the model re-runs each AddEntry under an order reconstructed from the implementation's own oks/fails; theorems hold for every order",
                 "harness vh-c16: callback collectors (mutex; resolved-entry callbacks awaited per step with a 3 s watchdog), ygot structs -> Gallina printers, key/value code tables (drv/rib.go)"],
        assumptions=["RIB-level histories (AddEntry/DeleteEntry/Flush/AddNetworkInstance/SetPostChangeHook/SetResolvedEntryHook) called sequentially, on a rib.RIB and on the RIB of server.New(WithPostChangeRIBHook, WithRIBResolvedEntryHook, WithVRFs); one hook function per RIB (re-registering the same one is covered, replacing it by another is not)",
                     "vh-c16 c16conc (oracle only, the model is sequential): SetPostChangeHook / SetResolvedEntryHook run in one goroutine while network instances are created in another and a stalled reader (RIBHolder.GetRIB unread, server.Get with a stuck client stream) keeps an existing instance read-locked, so that the registration is in progress for as long as the harness wants; "
                     "no entry is programmed during the registration (the code promises notifications once SetPostChangeHook has returned); afterwards the history continues in the new and the old instances under the same oracle (fold of the notifications == RIBContents in every instance after every step). AddNetworkInstance may either wait for the registration or see its hook: both are accepted",
                     "the consumer is not told about instance creation: an instance without tables and one with empty tables are identified (mirror_eq)",
                     "immutability of resolved-entry snapshots is automatic in the model (values); the aliasing half is checked on the implementation only: every snapshot is rendered and deep-copied at arrival and compared again at the end of the history",
                     "a group listing one next-hop twice with different weights is excluded from the generator (the stored weight then depends on Go map order inside protomap)"],
        vh_bin="vh-c16", shrink_key="steps", extra_runs=[("c16conc", nconc)])
