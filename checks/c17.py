from . import lib


def run(res):
    n = 3000 if res.tier == "quick" else 100000
    lib.standard_check(
        res, "c17", n,
        prop_files=["theories/Properties/C17.v"],
        model_files=["theories/Tools/ChkCases.v"],
        theorem_note="Properties/C17.v: C17_has_result_iff, C17_cache_sound, C17_cache_complete_unique_keys, C17_get_entries_iff, "
                     "C17_no_kind_skipped, C17_n_send_errors_iff, C17_n_recv_errors_iff, C17_recv_status_iff (about Tools/Chk.v at v_fixed); "
                     "the pinned tree's behaviour is C17_cache_sound_refuted / C17_get_entries_iff_refuted / C17_no_kind_skipped_refuted (v_tree)",
        trusted=["Coq 8.16.1 kernel + vm_compute",
                 "hand-written model Tools/Chk.v of /repo/chk/chk.go, tied to the code by the correspondence on every run",
                 "correspondence harness vh-c17: capturing testing.TB (Fatal = runtime.Goexit in a goroutine), printers of results / AFT entries / statuses as Gallina terms",
                 "go-cmp + protocmp equality on client.OpResult is field-wise equality (validated by the correspondence, not proved)"],
        assumptions=["results, wants and the wanted status are non-nil pointers; elements of ClientErr.Recv are direct gRPC status errors or unrelated errors (no wrapped statuses, no nil)",
                     "a key is a key field that is set (non-zero id / index / label, non-empty prefix); an MPLS label given as the enum variant counts as not set",
                     "HasResultsCache(IgnoreOperationID): wants carry details (documented test-author error otherwise); agreement with HasResult is claimed under unique result keys only (last-wins indexes)"],
        vh_bin="vh-c17", shrink_key="items")
