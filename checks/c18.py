from . import lib


def run(res):
    n = 1000 if res.tier == "quick" else 50000
    lib.standard_check(
        res, "c18", n,
        prop_files=["theories/Properties/C18.v"],
        model_files=["theories/Tools/FluentObs.v"],
        theorem_note="Properties/C18.v: C18_fields_exact_builder / C18_fields_exact / C18_fields_exact_headers / C18_fields_exact_emitted / C18_fields_exact_operation / "
                     "C18_fields_exact_protos (every field = argument of the last call that sets it, appends concatenated, else absent; "
                     "messages built from the builder state at queue time), C18_queued_ops_stable, C18_ids (1,2,3,... per fluent client over its whole life), "
                     "C18_ids_increasing_across_restarts (strictly increasing, distinct, every id of an earlier client.Client below every id of a later one), "
                     "C18_other_calls_keep_counter, C18_restart_keeps / C18_restart_fresh / C18_restart_fatal / C18_stop / C18_past_incarnations_stable "
                     "(Start, operations, Stop, Start again: opCount, current election id and connection settings survive, queues are per client.Client), "
                     "C18_op_type, C18_election_stamp + C18_current_election_id + C18_current_mode",
        trusted=["Coq 8.16.1 kernel + vm_compute",
                 "hand-written model Tools/Fluent.v of fluent/fluent.go (builders, Modify calls, Start / Stop / restart) and of client.New / Q / StartSending / StopSending "
                 "(validated on every run by the correspondence)",
                 "harness vh-c18: recording spb.GRIBIClient stub, a fresh one per Start (records the *ModifyRequest pointers handed to stream.Send), capturing testing.TB, "
                 "unsent operations read from Status().PendingTransactions of the client.Client in place before it is replaced, "
                 "protobuf -> Gallina printer (guarded by a mirror -> protobuf round trip with proto.Equal)"],
        assumptions=["programs call Start before Modify()/StartSending (otherwise the Go program panics on the nil client); Start / Stop may be repeated in any order",
                     "StartSending on a stopped client.Client (after Stop, before the next Start) is not a program: Close has closed the sender's channel; skipped on both sides",
                     "one goroutine drives a client and its builders (no concurrent builder calls)",
                     "the aliasing clause (later calls never alter queued messages) is checked on the implementation only: deep copies at queue time, "
                     "re-compared after the rest of the program and after a storm of calls on every builder, sub-builder, client and argument slice"],
        vh_bin="vh-c18", shrink_key="steps")
