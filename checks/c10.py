from . import lib
from .c04 import STB


def run(res):
    n = 40 if res.tier == "quick" else 400
    lib.standard_check(
        res, "c10", n,
        prop_files=["theories/Properties/C10.v"],
        model_files=["theories/Server/Inst.v"],
        theorem_note="Properties/C10.v: C10_disconnect_preserves, C10_serviceable, C10_cut_request_state (a request cut off mid-answer: any prefix applied, then the session gone, is an ordinary history), C10_own_flush_authorised, C10_teardown_lock_discipline (regenerated: guarded fields written only under the exclusive mode of their guard), C10_no_lock_leaked (regenerated: no function returns with a lock it took still held); over the channel table regenerated from rib.go/server.go on this run: C10_getrib_sends_stoppable, C10_getrib_sends_seen, C10_get_handler_closes_stop, C10_doget_exits, C10_blocking_ops_hold_no_lock, C10_source_follows_fixed_protocol, C10_source_producer_can_stop, C10_get_of_source_terminates, C10_get_of_source_releases_lock; C10_get_terminates, C10_get_releases_lock, C10_get_invariant; C10_get_wedges_tree_refuted",
        trusted=STB + ["Conc/GetProto.v: LTS of the Get handler / producer over rendezvous channels and the instance read lock (hand-written from server.go Get/doGet and rib.go GetRIB)",
                       "hook /repo/rib/verif_hooks.go VerifTryLock (is the instance lock free?)", "tools/gen_chantable: syntactic serialiser of channel operations (source order, go/types with a stub importer, no control/data-flow analysis); the fixed names of Get's channels in Conc/ChanDefs.v"],
        assumptions=["PARTIAL: gRPC stream cancellation, the Go scheduler and sync.RWMutex are modelled (rendezvous channels, any interleaving), not verified",
                     "transport failure is simulated as a failing Send of the fake stream on a state-neutral operation, or after j of the k responses of a request of k operations (then the final state must equal the model's for some prefix of the request, Inst.scase_alt); cancellation as a failing Recv; a connection that dies while a response is being written (Recv fails first, the stuck Send afterwards: abortsend); an abandoned Get while a write of the live primary is queued on the instance lock (getcutw: the write must complete, and the model's two steps give the final state)",
                     "watchdog 5 s per wait: a bound of the search, not part of the claim"],
        level="proof")
