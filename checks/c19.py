from . import lib


def run(res):
    # -n = number of (permutation, configuration) runs of the whole suite on long-lived reference servers;
    # the fault catalogue is always run (quick: designated tests + one or two controls per fault, thorough: + every
    # transcribed test per fault and the slow FIB-ACK tests)
    n = 1 if res.tier == "quick" else 60
    lib.standard_check(
        res, "c19", n,
        prop_files=["theories/Properties/C19.v"],
        model_files=["theories/Tools/Compliance.v"],
        theorem_note="Properties/C19.v: C19_reset, C19_step_simulation, C19_verdict_from_any_reset_state, C19_suite_verdicts, "
                     "C19_order_independent, C19_configured_servers_are_init, C19_transcribed_tests_respect_contract, "
                     "C19_transcribed_tests_pass_in_any_order, C19_catalogue_reference_passes, C19_catalogue_fault_flagged "
                     "(about scripts over the server model of Server/Inst.v; the real compliance suite is covered by the harness only)",
        trusted=["Coq 8.16.1 kernel + vm_compute",
                 "hand-written models Server/Model.v, Server/Inst.v, Rib/Model.v (tied to /repo by the C01-C09 correspondences) and Tools/Compliance.v "
                 "(script DSL, suite counter, fault wrappers, sixteen hand-transcribed compliance tests: only the compared verdicts tie them to the Go tests)",
                 "harness vh-c19: the real compliance.TestSuite over bufconn against long-lived *server.Server instances (one allowing, one disallowing forward "
                 "references), own testing.TB (Fatal/Skip = runtime.Goexit in the test goroutine), per-test watchdog (servers stopped, test counted as failed), "
                 "wire-level monitor (Get ALL + VerifSessions + VerifPendingIDs after every test; election ids recorded by a wrapping GRIBIServer), "
                 "fault wrappers around *server.Server (faults.go)"],
        assumptions=["every test of the suite is also run as the FIRST test of a process of its own (child processes, eight at a time), followed by three sentinel tests on the same long-lived reference servers: all must pass - what a test leaves behind in package variables of the suite, its checkers or the client must not change later verdicts",
                     "a test that the fault leaves waiting is normally stopped after 4 s and counted as failed; one FIB-ACK test per run (chosen by the seed) is instead given 150 s against the server that never sends the FIB acknowledgement, in a child process beside the other cases: it must end by itself, with a failure (the suite bounds each of its waits by a minute; a test that waits without bound reports nothing)",
                     "two faults are judged by the harness alone (numbers 16, 17: unknown to Compliance.v, model_pass = None): wrong_reject_reason (every ModifyRPCErrorDetails reason replaced by another one; code and message kept) and leak_results_to_other_sessions (every response with results is first copied to every other open Modify stream); they guard the checkers and the client the suite is built from (chk.HasRecvClientErrorWithStatus ignoring details, a client that no longer records a result for an unknown operation as an error)",
                     "designated tests: for omit_fib every test of compliance.TestSuite that declares RequiresFIBACK (enumerated from the suite at run time), for "
                     "omit_fib_for_deletes_only those of them that delete entries, must fail - each run concurrently on its own fresh faulty server (the same batch "
                     "must pass concurrently on the reference); only the 16 transcribed tests are also judged by the model (designated_of, by computation), every "
                     "other test is judged by the harness alone",
                     "all clients of a suite run share one long-lived gRPC channel per server, handed to fluent through WithStub: a test that does not close its "
                     "Modify session leaves it registered and is reported ([test-does-not-reset], PARAMS_DIFFER failures of later tests)",
                     "PARTIAL: Coq proves reset / start-state and counter irrelevance / order independence for scripts that satisfy Contract, and a finite verdict table "
                     "for 16 transcribed tests x 15 faulty servers (7 requirements, most of them broken in more than one way: per recipient / per kind of operation / per table / per scope); that each Go compliance test is such a script is not proved - the harness samples permutations, "
                     "election bases and VRF names on the real suite and checks the contract's effects on the wire",
                     "the fault catalogue is a finite list of single-requirement wrappers (model and Go), not 'every faulty server'; for each fault the designated tests are named in harness/cmd/vh-c19/c19.go",
                     "network-instance names are opaque codes in the model (renaming them is the identity on the model); the reference server's default instance name is fixed "
                     "('DEFAULT'), so the harness varies the VRF name, and uses a VRF as the tests' 'default' instance in one configuration",
                     "Contract: ids within the window of the suite counter; the script closes its streams and ends with flush-all(override); expectations invariant under the "
                     "election-id shift and the order of Get results; no operations / election-dependent Flush before the first accepted announcement; no held operation left",
                     "sequential server model: one message handled atomically; tests run one at a time (the suite's election counter and instance names are package globals)"],
        vh_bin="vh-c19", shrink_key="order")
