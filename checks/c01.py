from . import lib

TB = ["Coq 8.16.1 kernel + vm_compute",
      "hand-written model Rib/Model.v of /repo/rib/rib.go (AddEntry cascade with the Go map order as a parameter, DeleteEntry, Flush), tied to the code by the correspondence on every run: per step oks sequence, fails set, fatal flag, held ids; final tables and counters",
      "hint-ordered replay (Rib/Run.v canon): the model re-runs each AddEntry under an order reconstructed from the implementation's own oks/fails; theorems hold for every order",
      "harness (drv/rib.go): OpSpec -> protobuf, ygot structs -> Gallina printers, key/value code tables; ygot/protomap schema validation is modelled (kvalid / label range), not verified"]


def run(res):
    n = 300 if res.tier == "quick" else 6000
    lib.standard_check(
        res, "c01", n,
        prop_files=["theories/Properties/C01.v", "theories/Properties/C01srv.v"],
        model_files=["theories/Rib/Run.v", "theories/Server/Inst.v"],
        theorem_note="Properties/C01.v: C01_state_is_fold (for every order function and history: tables = fold of spec_apply over the acknowledgement log), "
                     "C01_replace_needs_existing, C01_delete_exact(_model), C01_no_trace, C01_oks_are_acked_ids; C01_tree_delete_refuted (v_tree: DELETE label 2^32+100 removes label 100); "
                     "Properties/C01srv.v (server level, every history of connects / messages / Flush / Get on any number of sessions): C01_server_frame, C01_server_INV, C01_server_state_is_fold, "
                     "C01_server_programmed_ids_are_acked, C01_server_only_primary_in_log, C01_server_get_reads_fold",
        trusted=TB + ["server-level run (vh c01srv): Server/Inst.v model + fake streams as in C06"],
        extra_runs=[("c01srv", 60 if res.tier == "quick" else 1200)],
        assumptions=["RIB-level histories (AddEntry/DeleteEntry/Flush/AddNetworkInstance) called sequentially, and server-level scripts (sessions, elections, batches, Flush) whose acknowledgements are read from the streams; the server-level theorems are C01srv.v",
                     "a group listing one next-hop twice with different weights is excluded from the generator (the stored weight then depends on Go map order inside protomap)",
                     "model-free oracle: fold of the implementation's own acknowledgements (by op id) compared with RIBContents after every step"])
