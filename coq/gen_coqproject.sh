#!/bin/sh
# regenerate _CoqProject from the files present
cd "$(dirname "$0")"
{ echo "-Q theories GV"; echo "-arg -w -arg -notation-overridden,-deprecated-hint-without-locality,-ambiguous-paths"; find theories -name '*.v' | sort; } > _CoqProject
