(* C04 / C06 / C09 / C10(a): facts about the sequential server model, for every RIB
   (Section variables), every history and any number of sessions. *)
From Coq Require Import List NArith Bool Lia.
From GV.Base Require Import Alist U128 U128Facts Op.
From GV.Server Require Import Model.
Import ListNotations.
Open Scope N_scope.

(* ------------------------------------------------------------------ the election gate *)
Lemma u128_cmp_eq_iff a b : u128_cmp a b = Eq <-> a = b.
Proof.
  destruct a as [ah al], b as [bh bl]. unfold u128_cmp, hi, lo; cbn [fst snd]. split.
  - destruct (N.compare_spec ah bh) as [->|H|H]; try discriminate.
    destruct (N.compare_spec al bl) as [->|H|H]; try discriminate. reflexivity.
  - intros H; inversion H; subst. rewrite !N.compare_refl. reflexivity.
Qed.
Lemma u128_eqb_eq a b : u128_eqb a b = true <-> a = b.
Proof.
  destruct a as [ah al], b as [bh bl]. unfold u128_eqb, hi, lo; cbn [fst snd].
  rewrite andb_true_iff, !N.eqb_eq. split; [intros [-> ->]; reflexivity|intros H; inversion H; auto].
Qed.

(* an operation passes the gate exactly when its sender is the primary and its stamp equals both
   the id the sender last announced and the highest id the server has learnt *)
Theorem gate_ok_iff oe mst cu me last :
  check_election oe mst cu me last = GateOK
  <-> exists e, oe = Some e /\ mst = Some me /\ last = Some e /\ cu = Some e.
Proof.
  unfold check_election. split.
  - destruct oe as [e|]; [|discriminate]. destruct mst as [m|]; [|discriminate].
    destruct cu as [c|]; [|discriminate]. destruct last as [la|]; [|discriminate].
    destruct (N.eqb_spec me m) as [->|]; cbn [negb]; [|discriminate].
    destruct (u128_eqb e la) eqn:E1; cbn [negb]; [|discriminate].
    destruct (u128_cmp e c) eqn:E2; try discriminate. intros _.
    apply u128_eqb_eq in E1. apply u128_cmp_eq_iff in E2. subst. exists c. auto.
  - intros (e & -> & -> & -> & ->). rewrite N.eqb_refl. cbn [negb].
    assert (u128_eqb e e = true) as -> by (apply u128_eqb_eq; reflexivity). cbn [negb].
    assert (u128_cmp e e = Eq) as -> by (apply u128_cmp_eq_iff; reflexivity). reflexivity.
Qed.

Section Facts.
  Variables (E R : Type).
  Variable rib_has_ni : R -> N -> bool.
  Variable rib_add rib_del : R -> N -> op E -> R * (list N * list N * bool).
  Notation step := (step E R rib_has_ni rib_add rib_del sv_fixed).
  Notation do_ops := (do_ops E R rib_has_ni rib_add rib_del sv_fixed).
  Notation modify_entry := (modify_entry E R rib_add rib_del).
  Notation srv := (srv R).

  (* ---------------- modifyEntry ---------------- *)
  Lemma modify_entry_not_ok fib g o r : g <> GateOK ->
    fst (fst (modify_entry fib g o r)) = r
    /\ ((exists c rs, g = GateFatal c rs /\ modify_entry fib g o r = (r, [], Some (c, rs)))
        \/ (g = GateFailed /\ modify_entry fib g o r = (r, [RResults [(op_id o, FAILED)]], None))).
  Proof.
    intros Hg. destruct g as [| |c rs]; [congruence| |]; cbn.
    - split; [reflexivity|]. right. auto.
    - split; [reflexivity|]. left. eauto.
  Qed.

  Lemma modify_entry_len fib g o r r' rs : modify_entry fib g o r = (r', rs, None) -> length rs = 1%nat.
  Proof.
    unfold Model.modify_entry. destruct g; [|intros H; inversion H; reflexivity|discriminate].
    destruct (op_kind o).
    - destruct (rib_add r (op_ni o) o) as [r2 [[oks fails] fatal]]. destruct fatal; intros H; inversion H; reflexivity.
    - destruct (rib_add r (op_ni o) o) as [r2 [[oks fails] fatal]]. destruct fatal; intros H; inversion H; reflexivity.
    - destruct (rib_del r (op_ni o) o) as [r2 [[oks fails] fatal]]. destruct fatal; intros H; inversion H; reflexivity.
    - intros H; inversion H; reflexivity.
  Qed.

  (* ---------------- the loop of doModify ---------------- *)
  (* the RIB is changed only through operations that pass the gate *)
  Lemma do_ops_gate fib mst cu me last ops : forall r acc,
    (forall o, In o ops -> check_election (op_elec o) mst cu me last <> GateOK) ->
    fst (fst (do_ops fib mst cu me last ops r acc)) = r.
  Proof.
    induction ops as [|o tl IH]; intros r acc Hall; cbn [Model.do_ops]; [reflexivity|].
    assert (Htl : forall o', In o' tl -> check_election (op_elec o') mst cu me last <> GateOK)
      by (intros o' H; apply Hall; right; exact H).
    destruct ((op_ni o =? 0) && fixF4 sv_fixed); [apply IH; exact Htl|].
    destruct (negb (rib_has_ni r (op_ni o))); [apply IH; exact Htl|].
    pose proof (modify_entry_not_ok fib _ o r (Hall o (or_introl eq_refl))) as [Hr _].
    destruct (modify_entry fib (check_election (op_elec o) mst cu me last) o r) as [[r' rs] e].
    cbn [fst] in Hr. subst r'. destruct e; cbn [fixF9 sv_fixed fst]; [reflexivity|apply IH; exact Htl].
  Qed.

  (* one response per operation unless the RPC is ended by a fatal error *)
  Lemma do_ops_count fib mst cu me last ops : forall r acc,
    snd (do_ops fib mst cu me last ops r acc) = None ->
    length (snd (fst (do_ops fib mst cu me last ops r acc))) = (length acc + length ops)%nat.
  Proof.
    induction ops as [|o tl IH]; intros r acc; cbn [Model.do_ops]; [cbn; lia|].
    cbn [fixF4 sv_fixed]. rewrite andb_true_r.
    destruct (op_ni o =? 0) eqn:Eni.
    { intros H. rewrite IH by exact H. rewrite app_length. cbn. lia. }
    destruct (negb (rib_has_ni r (op_ni o))).
    { intros H. rewrite IH by exact H. rewrite app_length. cbn. lia. }
    destruct (modify_entry fib (check_election (op_elec o) mst cu me last) o r) as [[r' rs] e] eqn:Hm.
    destruct e as [err|]; cbn [snd]; [discriminate|].
    intros H. rewrite IH by exact H. rewrite !app_length. cbn [length].
    pose proof (modify_entry_len _ _ _ _ _ _ Hm). lia.
  Qed.

  (* ---------------- one step ---------------- *)
  Definition others_same (c : N) (s s' : srv) : Prop := forall d, d <> c -> sget R d s' = sget R d s.

  Lemma sget_upd c x (s : srv) d : sget R d (upd_sess R c x s) = if c =? d then Some x else sget R d s.
  Proof.
    unfold sget, upd_sess, set_ss; cbn [ss]. destruct (N.eqb_spec c d) as [->|Hn].
    - apply aget_aset_same; apply N.eqb_spec.
    - apply aget_aset_other; [apply N.eqb_spec|congruence].
  Qed.
  Lemma sget_drop c (s : srv) d : sget R d (drop_sess R c s) = if c =? d then None else sget R d s.
  Proof.
    unfold sget, drop_sess, set_ss; cbn [ss]. destruct (N.eqb_spec c d) as [->|Hn].
    - apply aget_adel_same; apply N.eqb_spec.
    - apply aget_adel_other; [apply N.eqb_spec|congruence].
  Qed.

  Lemma others_upd c x (s : srv) : others_same c s (upd_sess R c x s).
  Proof. intros d Hd. rewrite sget_upd. destruct (N.eqb_spec c d); [congruence|reflexivity]. Qed.
  Lemma others_drop c (s : srv) : others_same c s (drop_sess R c s).
  Proof. intros d Hd. rewrite sget_drop. destruct (N.eqb_spec c d); [congruence|reflexivity]. Qed.
  Lemma others_refl c (s : srv) : others_same c s s.
  Proof. intros d Hd. reflexivity. Qed.
  Lemma others_trans c (s1 s2 s3 : srv) : others_same c s1 s2 -> others_same c s2 s3 -> others_same c s1 s3.
  Proof. intros H1 H2 d Hd. rewrite H2, H1 by exact Hd. reflexivity. Qed.

  Lemma do_params_frame c x p (s : srv) :
    let s' := fst (do_params R sv_fixed c x p s) in
    rib s' = rib s /\ cur s' = cur s /\ master s' = master s /\ others_same c s s'.
  Proof.
    cbn zeta. unfold do_params.
    repeat match goal with |- context [if ?b then _ else _] => destruct b end; cbn [fst];
      repeat split; try reflexivity; try apply others_refl; apply others_upd.
  Qed.
  Lemma do_elect_frame c x id (s : srv) :
    let s' := fst (do_elect R sv_fixed c x id s) in rib s' = rib s /\ others_same c s s'.
  Proof.
    cbn zeta. unfold do_elect.
    repeat match goal with |- context [if ?b then _ else _] => destruct b end; cbn [fst];
      repeat split; try reflexivity; try apply others_refl; try apply others_upd.
  Qed.
  Lemma do_modify_frame c x ops (s : srv) :
    let s' := fst (do_modify E R rib_has_ni rib_add rib_del sv_fixed c x ops s) in
    cur s' = cur s /\ master s' = master s /\ others_same c s s'.
  Proof.
    cbn zeta. unfold do_modify. destruct (_ || _); cbn [fst]; [repeat split; try reflexivity; apply others_refl|].
    destruct (Model.do_ops _ _ _ _ _ _ _ _ _ _ _ _ _ _) as [[r' rs] e]. cbn [fst].
    repeat split; try reflexivity. intros d Hd. rewrite sget_upd. destruct (N.eqb_spec c d); [congruence|reflexivity].
  Qed.

  (* every input other than an operations message leaves the RIB alone; an operations message
     leaves the election state alone; nothing touches another session's record *)
  Lemma step_frame (s : srv) i :
    let s' := fst (step s i) in
    (match i with Msg _ _ (MOps _ _) => True | _ => rib s' = rib s end)
    /\ (match i with Msg _ _ (MElect _ _) => True | _ => cur s' = cur s /\ master s' = master s end)
    /\ (match i with
        | Connect _ c | HalfClose _ c | Abort _ c | Msg _ c _ => others_same c s s'
        end).
  Proof.
    cbn zeta. unfold Model.step.
    destruct i as [c|c m|c|c].
    - destruct (sget R c s); cbn [fst]; repeat split; try reflexivity; try apply others_refl; apply others_upd.
    - destruct (sget R c s) as [x|] eqn:Hx; cbn [fst].
      2:{ destruct m; repeat split; try reflexivity; apply others_refl. }
      assert (Hd : forall (s1 : srv) o, let s2 := fst (match o_end o with Some _ => (drop_sess R c s1, o) | None => (s1, o) end) in
                                        rib s2 = rib s1 /\ cur s2 = cur s1 /\ master s2 = master s1 /\ others_same c s1 s2).
      { intros s1 o. cbn zeta. destruct (o_end o); cbn [fst]; repeat split; try reflexivity; try apply others_drop; apply others_refl. }
      destruct m as [p|id|ops| |].
      + pose proof (do_params_frame c x p s) as (A1 & A2 & A3 & A4).
        destruct (do_params R sv_fixed c x p s) as [s1 o]. cbn [fst] in *.
        destruct (Hd s1 o) as (B1 & B2 & B3 & B4). repeat split; try congruence. eapply others_trans; eauto.
      + pose proof (do_elect_frame c x id s) as (A1 & A4).
        destruct (do_elect R sv_fixed c x id s) as [s1 o]. cbn [fst] in *.
        destruct (Hd s1 o) as (B1 & B2 & B3 & B4). repeat split; try congruence. eapply others_trans; eauto.
      + pose proof (do_modify_frame c x ops s) as (A2 & A3 & A4).
        destruct (do_modify E R rib_has_ni rib_add rib_del sv_fixed c x ops s) as [s1 o]. cbn [fst] in *.
        destruct (Hd s1 o) as (B1 & B2 & B3 & B4). repeat split; try congruence. eapply others_trans; eauto.
      + cbn [fst snd o_end out_end]. repeat split; try reflexivity. apply others_drop.
      + cbn [fst snd o_end out_end]. repeat split; try reflexivity. apply others_drop.
    - destruct (sget R c s); cbn [fst]; repeat split; try reflexivity; try apply others_refl; apply others_drop.
    - destruct (sget R c s); cbn [fst]; repeat split; try reflexivity; try apply others_refl; apply others_drop.
  Qed.

  (* C04: if an operations message changes the RIB, some operation of it passed the gate taken from
     the state before the message: its sender is the primary, and the stamp equals the sender's
     last announcement and the highest id learnt *)
  Theorem ops_change_needs_gate (s : srv) c ops :
    rib (fst (step s (Msg E c (MOps E ops)))) <> rib s ->
    exists x o e, sget R c s = Some x /\ In o ops /\ op_elec o = Some e
                  /\ master s = Some c /\ s_last x = Some e /\ cur s = Some e.
  Proof.
    unfold Model.step. destruct (sget R c s) as [x|] eqn:Hx; [|cbn; congruence].
    unfold do_modify. destruct (negb (cp_expect (s_params x)) || negb (cp_persist (s_params x))); [cbn; congruence|].
    intros Hne.
    destruct (existsb (fun o => match check_election (op_elec o) (master s) (cur s) c (s_last x) with GateOK => true | _ => false end) ops) eqn:Eex.
    - apply existsb_exists in Eex. destruct Eex as (o & Hin & Hg).
      destruct (check_election (op_elec o) (master s) (cur s) c (s_last x)) eqn:Eg; try discriminate.
      apply gate_ok_iff in Eg. destruct Eg as (e & H1 & H2 & H3 & H4). exists x, o, e. repeat split; auto.
    - exfalso. apply Hne.
      assert (Hall : forall o, In o ops -> check_election (op_elec o) (master s) (cur s) c (s_last x) <> GateOK).
      { intros o Hin Hg. assert (existsb (fun o => match check_election (op_elec o) (master s) (cur s) c (s_last x) with GateOK => true | _ => false end) ops = true).
        { apply existsb_exists. exists o. rewrite Hg. auto. } congruence. }
      pose proof (do_ops_gate (cp_fib (s_params x)) (master s) (cur s) c (s_last x) ops (rib s) [] Hall) as Hr.
      destruct (Model.do_ops _ _ _ _ _ _ _ _ _ _ _ _ _ _) as [[r' rs] e]. cbn [fst] in Hr. subst r'.
      cbn [fst snd o_end]. destruct e; reflexivity.
  Qed.

  (* C06: k operations, k responses (unless the request ends the RPC) *)
  Theorem ops_batch_count (s : srv) c ops :
    o_end (snd (step s (Msg E c (MOps E ops)))) = None -> sget R c s <> None ->
    length (o_resps (snd (step s (Msg E c (MOps E ops))))) = length ops.
  Proof.
    unfold Model.step. destruct (sget R c s) as [x|] eqn:Hx; [|congruence]. intros He _.
    unfold do_modify in *. destruct (negb (cp_expect (s_params x)) || negb (cp_persist (s_params x))); [cbn in He; discriminate|].
    pose proof (do_ops_count (cp_fib (s_params x)) (master s) (cur s) c (s_last x) ops (rib s) []) as Hc.
    destruct (Model.do_ops _ _ _ _ _ _ _ _ _ _ _ _ _ _) as [[r' rs] e]. cbn [fst snd o_end o_resps] in *.
    destruct e; cbn [snd o_end o_resps] in *; [discriminate|]. apply Hc. reflexivity.
  Qed.

  (* C06: FIB_PROGRAMMED only when negotiated, only right after RIB_PROGRAMMED of the same id *)
  Lemma results_of_shape fib oks fails :
    results_of fib oks fails
    = flat_map (fun i => (i, RIB_PROGRAMMED) :: (if fib then [(i, FIB_PROGRAMMED)] else [])) oks
      ++ map (fun i => (i, FAILED)) fails.
  Proof. unfold results_of. f_equal. induction oks as [|i l IH]; cbn; [reflexivity|]. rewrite IH. destruct fib; reflexivity. Qed.
  Lemma results_no_fib oks fails i : ~ In (i, FIB_PROGRAMMED) (results_of false oks fails).
  Proof.
    rewrite results_of_shape. intros H. apply in_app_or in H. destruct H as [H|H].
    - apply in_flat_map in H. destruct H as (j & _ & [H|[]]). discriminate.
    - apply in_map_iff in H. destruct H as (j & H & _). discriminate.
  Qed.

  (* ---------------- C09: the status table ---------------- *)
  (* what ends the RPC when session c (record x) sends message m, as the specification assigns it;
     None = the message is accepted (for operations: unless an operation itself is in error) *)
  Definition violation (s : srv) (c : N) (x : sess) (m : msg E) : option (code * reason) :=
    match m with
    | MMulti _ => Some (InvalidArgument, NoDetail)
    | MNone _ => Some (Unimplemented, NoDetail)
    | MParams _ p =>
      if s_gotmsg x then Some (FailedPrecondition, MODIFY_NOT_ALLOWED)
      else if (p_red p =? 0) && (p_pers p =? 1) then Some (FailedPrecondition, UNSUPPORTED_PARAMS)
      else if negb (p_red p =? 1) || negb (p_pers p =? 1) then Some (Unimplemented, UNSUPPORTED_PARAMS)
      else if negb (consistent R c (cp_of p) s) then Some (FailedPrecondition, PARAMS_DIFFER)
      else if s_set x then Some (FailedPrecondition, MODIFY_NOT_ALLOWED)
      else None
    | MElect _ id =>
      if negb (cp_expect (s_params x)) then Some (FailedPrecondition, ELECTION_ID_IN_ALL_PRIMARY)
      else if u128_is_zero id then Some (InvalidArgument, NoDetail)
      else None
    | MOps _ _ =>
      if negb (cp_expect (s_params x)) || negb (cp_persist (s_params x)) then Some (Unimplemented, UNSUPPORTED_PARAMS)
      else None
    end.

  Theorem status_table (s : srv) c x m : sget R c s = Some x ->
    match violation s c x m with
    | Some e => o_end (snd (step s (Msg E c m))) = Some e
                /\ o_resps (snd (step s (Msg E c m))) = []
                /\ rib (fst (step s (Msg E c m))) = rib s
                /\ cur (fst (step s (Msg E c m))) = cur s /\ master (fst (step s (Msg E c m))) = master s
                /\ sget R c (fst (step s (Msg E c m))) = None
    | None => match m with MOps _ _ => True | _ => o_end (snd (step s (Msg E c m))) = None end
    end.
  Proof.
    intros Hx. unfold Model.step. rewrite Hx. destruct m as [p|id|ops| |]; cbn [violation].
    - unfold do_params. destruct (s_gotmsg x); [cbn; rewrite sget_drop, N.eqb_refl; auto 10|].
      destruct ((p_red p =? 0) && (p_pers p =? 1)) eqn:E1; [cbn; rewrite sget_drop, N.eqb_refl; auto 10|].
      cbn [fixF17 sv_fixed].
      destruct (negb (p_red p =? 1)) eqn:E2; cbn [orb]; [cbn; rewrite sget_drop, N.eqb_refl; auto 10|].
      destruct (negb (p_pers p =? 1)) eqn:E3; [cbn; rewrite sget_drop, N.eqb_refl; auto 10|].
      destruct (negb (consistent R c (cp_of p) s)); [cbn; rewrite sget_drop, N.eqb_refl; auto 10|].
      destruct (s_set x); cbn; [rewrite sget_drop, N.eqb_refl; auto 10|reflexivity].
    - unfold do_elect. destruct (negb (cp_expect (s_params x))); [cbn; rewrite sget_drop, N.eqb_refl; auto 10|].
      destruct (u128_is_zero id); [cbn; rewrite sget_drop, N.eqb_refl; auto 10|]. cbn. reflexivity.
    - unfold do_modify. destruct (negb (cp_expect (s_params x)) || negb (cp_persist (s_params x))); [|exact I].
      cbn. rewrite sget_drop, N.eqb_refl; auto 10.
    - cbn. rewrite sget_drop, N.eqb_refl; auto 10.
    - cbn. rewrite sget_drop, N.eqb_refl; auto 10.
  Qed.

  (* parameters are accepted only as SINGLE_PRIMARY + PRESERVE, only as the first message, only once,
     only if equal to the current parameters of every other live session *)
  Theorem params_accepted_only_if (s : srv) c x p : sget R c s = Some x ->
    o_resps (snd (step s (Msg E c (MParams E p)))) = [RParamsOK] ->
    p_red p = 1 /\ p_pers p = 1 /\ s_gotmsg x = false /\ s_set x = false
    /\ (forall d y, d <> c -> In (d, y) (ss s) -> cparams_eqb (s_params y) (cp_of p) = true).
  Proof.
    intros Hx. unfold Model.step. rewrite Hx. unfold do_params.
    destruct (s_gotmsg x); [cbn; discriminate|].
    destruct ((p_red p =? 0) && (p_pers p =? 1)) eqn:E1; [cbn; discriminate|]. cbn [fixF17 sv_fixed].
    destruct (N.eqb_spec (p_red p) 1) as [E2|E2]; cbn [negb]; [|cbn; discriminate].
    destruct (N.eqb_spec (p_pers p) 1) as [E3|E3]; cbn [negb]; [|cbn; discriminate].
    destruct (consistent R c (cp_of p) s) eqn:Ec; cbn [negb]; [|cbn; discriminate].
    destruct (s_set x); [cbn; discriminate|]. intros _.
    repeat split; auto.
    intros d y Hd Hin. unfold consistent in Ec. rewrite forallb_forall in Ec. specialize (Ec (d, y) Hin).
    cbn [fst snd] in Ec. destruct (N.eqb_spec d c); [congruence|]. exact Ec.
  Qed.

  (* C10(a) / C09: a session that goes away (cleanly or not) leaves RIB and election state as they
     were and removes only its own record *)
  Theorem disconnect_preserves (s : srv) c :
    let s1 := fst (step s (HalfClose E c)) in let s2 := fst (step s (Abort E c)) in
    rib s1 = rib s /\ cur s1 = cur s /\ master s1 = master s /\ sget R c s1 = None /\ others_same c s s1
    /\ rib s2 = rib s /\ cur s2 = cur s /\ master s2 = master s /\ sget R c s2 = None /\ others_same c s s2.
  Proof.
    cbn zeta. unfold Model.step. destruct (sget R c s) eqn:Hx; cbn [fst];
      repeat split; try reflexivity; try (rewrite sget_drop, N.eqb_refl; reflexivity); try exact Hx;
        intros d Hd; rewrite ?sget_drop; try reflexivity; destruct (N.eqb_spec c d); congruence.
  Qed.

  (* after the RPC has ended the session no longer constrains the parameters of later sessions *)
  Theorem footprint_removed (s : srv) c d p : d <> c ->
    consistent R d p (drop_sess R c s) = forallb (fun kv => (fst kv =? d) || (fst kv =? c) || cparams_eqb (s_params (snd kv)) p) (ss s).
  Proof.
    intros Hd. unfold consistent, drop_sess, set_ss; cbn [ss]. unfold adel.
    induction (ss s) as [|[k y] l IH]; cbn [filter forallb fst snd]; [reflexivity|].
    destruct (N.eqb_spec c k) as [->|Hn]; cbn [negb].
    - rewrite N.eqb_refl, orb_true_r. cbn [orb andb]. exact IH.
    - cbn [forallb fst snd]. rewrite IH. destruct (N.eqb_spec k c); [congruence|]. rewrite orb_false_r. reflexivity.
  Qed.
End Facts.
