(* C08: the Flush RPC of the server model. *)
From Coq Require Import List NArith Bool Lia.
From GV.Base Require Import Alist U128 U128Facts Op.
From GV.Rib Require Import Model Lemmas RefDefs RefCount FlushFacts.
From GV.Server Require Import Model Inst.
Import ListNotations.
Open Scope N_scope.

(* the election part of the decision table in terms of 128-bit values *)
Lemma check_flush_id c id n : inrange c -> inrange id ->
  check_flush (Some c) {| f_elec := FId id; f_ni := NName n |}
  = if val id =? 0 then F_INVALID_ELECTION_ID else if val id <? val c then F_NOT_PRIMARY else F_OK.
Proof.
  intros Hc Hi. unfold check_flush; cbn [f_ni f_elec]. rewrite is_zero_val by exact Hi.
  rewrite ltb_is_val by assumption. reflexivity.
Qed.

(* a rejected Flush changes nothing; an accepted one applies Rib.flush to the selected instances *)
Theorem do_flush_spec (s : srv ribt) q :
  let res := do_flush v_fixed s q in
  match check_flush (cur s) q with
  | F_OK =>
    match f_ni q with
    | NName n =>
      if has_ni (srib s) n
      then fst res = set_rib ribt (fst (fst (flush v_fixed [n] (srib s)))) s
      else res = (s, F_INVALID_NETWORK_INSTANCE)
    | NAll => fst res = set_rib ribt (fst (fst (flush v_fixed (map fst (nis (srib s))) (srib s)))) s
    | NNone => False
    end
  | st => res = (s, st)
  end.
Proof.
  cbn zeta. unfold do_flush. destruct (check_flush (cur s) q) eqn:Ec; try reflexivity.
  destruct (f_ni q) as [| |n] eqn:En.
  - unfold check_flush in Ec. rewrite En in Ec. discriminate.
  - destruct (flush v_fixed (map fst (nis (srib s))) (srib s)) as [[r' h] e]. reflexivity.
  - destruct (has_ni (srib s) n); [|reflexivity].
    destruct (flush v_fixed [n] (srib s)) as [[r' h] e]. reflexivity.
Qed.

Lemma inlN_keys r m : inlN m (map fst (nis r)) = has_ni r m.
Proof.
  unfold inlN, has_ni, nmem, nget, aget. induction (nis r) as [|[k v] l IH]; cbn; [reflexivity|].
  destruct (m =? k); [reflexivity|exact IH].
Qed.

(* an authorised Flush answers OK, empties exactly the requested instances, and leaves every other
   instance's entries, the held operations and the election state as they were; the counter
   invariant (hence deletion protection) still holds afterwards *)
Theorem authorised_flush_effect (s : srv ribt) q : INV (srib s) ->
  check_flush (cur s) q = F_OK ->
  (match f_ni q with NName n => has_ni (srib s) n = true | _ => True end) ->
  let res := do_flush v_fixed s q in
  let selected m := match f_ni q with NName n => m =? n | NAll => has_ni (srib s) m | NNone => false end in
  snd res = F_OK
  /\ INV (srib (fst res))
  /\ cur (fst res) = cur s /\ master (fst res) = master s /\ ss (fst res) = ss s
  /\ pend (srib (fst res)) = pend (srib s)
  /\ (forall m, has_ni (srib (fst res)) m = has_ni (srib s) m)
  /\ (forall m, tabs_of (Lemmas.sget (srib (fst res)) m) = if selected m then tabs_empty else tabs_of (Lemmas.sget (srib s) m)).
Proof.
  intros HI Hc Hni. cbn zeta. unfold do_flush. rewrite Hc.
  destruct (f_ni q) as [| |n] eqn:En.
  - unfold check_flush in Hc. rewrite En in Hc. discriminate.
  - pose proof (flush_effect (map fst (nis (srib s))) (srib s) HI) as (E1 & E2 & E3 & E4 & E5).
    destruct (flush v_fixed (map fst (nis (srib s))) (srib s)) as [[r' h] e]. cbn [fst snd] in *. subst e.
    split; [reflexivity|]. split; [exact E2|]. split; [reflexivity|]. split; [reflexivity|]. split; [reflexivity|].
    split; [exact E4|]. split; [exact E3|]. intros m. rewrite E5, inlN_keys. reflexivity.
  - rewrite Hni. pose proof (flush_effect [n] (srib s) HI) as (E1 & E2 & E3 & E4 & E5).
    destruct (flush v_fixed [n] (srib s)) as [[r' h] e]. cbn [fst snd] in *. subst e.
    split; [reflexivity|]. split; [exact E2|]. split; [reflexivity|]. split; [reflexivity|]. split; [reflexivity|].
    split; [exact E4|]. split; [exact E3|]. intros m. rewrite E5. unfold inlN; cbn [existsb]. rewrite orb_false_r. reflexivity.
Qed.
