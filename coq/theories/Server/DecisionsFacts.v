(* The decision functions of /repo/server/server.go, regenerated on every run
   (Generated/Decisions.v), agree with the hand-written model for every input. *)
From Coq Require Import List String NArith ZArith Bool Lia.
From GV.Base Require Import Alist U128 U128Facts Op GoLite.
From GV.Rib Require Import Model.
From GV.Server Require Import Model Facts Inst.
From GV.Generated Require Import Decisions.
Import ListNotations.
Open Scope N_scope.

(* ---------------- checkElectionForModify ---------------- *)
(* session identifiers are strings in the code; "" is "no master" *)
Definition gate_s (oe : option u128) (master : string) (cu : option u128) (client : string) (last : option u128) : gate :=
  match oe with
  | None => GateFatal FailedPrecondition R_UNKNOWN
  | Some e =>
    if String.eqb master "" then GateFatal Internal NoDetail else
    match cu with
    | None => GateFatal Internal NoDetail
    | Some c =>
      match last with
      | None => GateFatal FailedPrecondition R_UNKNOWN
      | Some la =>
        if negb (String.eqb client master) then GateFailed else
        if negb (u128_eqb e la) then GateFailed else
        match u128_cmp e c with
        | Gt => GateFatal FailedPrecondition NoDetail
        | Lt => GateFailed
        | Eq => GateOK
        end
      end
    end
  end.

Definition code_name (c : code) : string :=
  match c with
  | OK => "OK" | Unknown => "Unknown" | InvalidArgument => "InvalidArgument" | FailedPrecondition => "FailedPrecondition"
  | Unimplemented => "Unimplemented" | Internal => "Internal" | OtherCode => "Other"
  end%string.
Definition encode_gate (g : gate) : list gval :=
  match g with
  | GateOK => [VNil; VBool true; VNil]
  | GateFailed => [VOpaque "resp:FAILED"; VBool false; VNil]
  | GateFatal c _ => [VNil; VBool false; VOpaque ("err:" ++ code_name c ++ ":")]
  end%string.

Definition election_ptr (master : string) (cu : option u128) (client : string) (last : option u128) : gval :=
  VPtr [("master", VStr master); ("ID", u128_ptr cu); ("client", VStr client); ("clientLatest", u128_ptr last)]%string.
Definition cefm_env (opid : N) (oe : option u128) master cu client last : env :=
  [("opID", VU64 opid); ("opElecID", u128_ptr oe); ("election", election_ptr master cu client last)]%string.

Lemma cmp_int_cases c : (cmp_int c =? 0)%Z = match c with Eq => true | _ => false end
                         /\ (0 <? cmp_int c)%Z = match c with Gt => true | _ => false end
                         /\ (cmp_int c <? 0)%Z = match c with Lt => true | _ => false end.
Proof. destruct c; repeat split. Qed.

Theorem gen_checkElectionForModify_agrees opid oe master cu client last :
  exec (cefm_env opid oe master cu client last) checkElectionForModify_body
  = Ret (encode_gate (gate_s oe master cu client last)).
Proof.
  unfold gate_s, cefm_env, election_ptr.
  destruct oe as [[eh el]|]; [|reflexivity].
  change (String.eqb master "") with (data_str_eqb master "").
  change (String.eqb client master) with (data_str_eqb client master).
  cbv -[data_str_eqb u128_cmp cmp_int u128_eqb Z.eqb Z.ltb Z.of_N encode_gate].
  destruct (data_str_eqb master "") eqn:Em; [reflexivity|].
  destruct cu as [[ch cl]|]; [|reflexivity].
  destruct last as [[lh ll]|]; [|reflexivity].
  destruct (data_str_eqb client master) eqn:Ec; [|reflexivity].
  destruct (cmp_int_cases (u128_cmp (eh, el) (lh, ll))) as (Z1 & _ & _).
  cbn [Z.of_N]. rewrite Z1.
  assert (Heq : u128_eqb (eh, el) (lh, ll) = match u128_cmp (eh, el) (lh, ll) with Eq => true | _ => false end).
  { destruct (u128_cmp (eh, el) (lh, ll)) eqn:E.
    - apply u128_eqb_eq. apply u128_cmp_eq_iff. exact E.
    - destruct (u128_eqb (eh, el) (lh, ll)) eqn:E2; [|reflexivity]. apply u128_eqb_eq in E2.
      apply u128_cmp_eq_iff in E2. congruence.
    - destruct (u128_eqb (eh, el) (lh, ll)) eqn:E2; [|reflexivity]. apply u128_eqb_eq in E2.
      apply u128_cmp_eq_iff in E2. congruence. }
  rewrite Heq. destruct (u128_cmp (eh, el) (lh, ll)); try reflexivity.
  destruct (cmp_int_cases (u128_cmp (eh, el) (ch, cl))) as (_ & Z2 & Z3).
  rewrite Z2. destruct (u128_cmp (eh, el) (ch, cl)) eqn:E3; try reflexivity; rewrite ?Z3; reflexivity.
Qed.

(* with session numbers named by any injective, never-empty naming, gate_s is the model's gate *)
Theorem gate_s_is_check_election (name : N -> string) oe (mst : option N) cu me last :
  (forall a b, name a = name b -> a = b) -> (forall a, name a <> ""%string) ->
  gate_s oe (match mst with Some m => name m | None => ""%string end) cu (name me) last
  = check_election oe mst cu me last.
Proof.
  intros Hinj Hne. unfold gate_s, check_election. destruct oe as [e|]; [|reflexivity].
  destruct mst as [m|].
  - assert (String.eqb (name m) "" = false) as -> by (apply String.eqb_neq; apply Hne).
    destruct cu as [c|]; [|reflexivity]. destruct last as [la|]; [|reflexivity].
    assert (String.eqb (name me) (name m) = (me =? m)) as ->.
    { destruct (N.eqb_spec me m) as [->|Hn]; [apply String.eqb_refl|]. apply String.eqb_neq. intros H. apply Hn, Hinj, H. }
    reflexivity.
  - cbn. destruct cu; reflexivity.
Qed.

(* ---------------- checkFlushRequest ---------------- *)
Definition fstatus_code (st : fstatus) : string :=
  match st with
  | F_OK => ""
  | F_UNSPECIFIED_NETWORK_INSTANCE => "err:InvalidArgument:UNSPECIFIED_NETWORK_INSTANCE"
  | F_UNSPECIFIED_ELECTION_BEHAVIOR => "err:FailedPrecondition:UNSPECIFIED_ELECTION_BEHAVIOR"
  | F_ELECTION_ID_IN_ALL_PRIMARY => "err:FailedPrecondition:ELECTION_ID_IN_ALL_PRIMARY"
  | F_INVALID_ELECTION_ID => "err:InvalidArgument:INVALID_ELECTION_ID"
  | F_NOT_PRIMARY => "err:FailedPrecondition:NOT_PRIMARY"
  | F_INVALID_NETWORK_INSTANCE => "err:InvalidArgument:INVALID_NETWORK_INSTANCE"
  | F_INTERNAL => "err:Internal:"
  end%string.
Definition encode_fstatus (st : fstatus) : list gval :=
  match st with F_OK => [VNil] | _ => [VOpaque (fstatus_code st)] end.

Definition some_ptr : gval := VPtr [].
Definition flushreq_ptr (q : flushreq) : gval :=
  VPtr [("NetworkInstance", match f_ni q with NNone => VNil | _ => some_ptr end);
        ("Override", match f_elec q with FOverride => some_ptr | _ => VNil end);
        ("Id", match f_elec q with FId id => u128_ptr (Some id) | _ => VNil end)]%string.
Definition cfr_env (cu : option u128) (q : flushreq) : env :=
  [("s", VPtr [("curElecID", u128_ptr cu)]); ("req", flushreq_ptr q)]%string.

Theorem gen_checkFlushRequest_agrees cu q :
  exec (cfr_env cu q) checkFlushRequest_body = Ret (encode_fstatus (check_flush cu q)).
Proof.
  unfold cfr_env, flushreq_ptr, check_flush. destruct q as [fe fn]. cbn [f_elec f_ni].
  destruct fn as [| |n]; [reflexivity| |];
    (destruct fe as [| |[ih il]]; [destruct cu as [[ch cl]|]; reflexivity|reflexivity|]);
    (destruct cu as [[ch cl]|]; [|reflexivity]);
    cbv -[u128_cmp cmp_int u128_eqb u128_is_zero u128_ltb Z.eqb Z.ltb Z.of_N encode_fstatus];
    (assert (Hz : u128_eqb (0, 0) (ih, il) = u128_is_zero (ih, il))
      by (unfold u128_eqb, u128_is_zero, hi, lo; cbn [fst snd]; rewrite (N.eqb_sym 0 ih), (N.eqb_sym 0 il); reflexivity));
    rewrite Hz; (destruct (u128_is_zero (ih, il)); [reflexivity|]);
    destruct (cmp_int_cases (u128_cmp (ih, il) (ch, cl))) as (_ & _ & Z3); cbn [Z.of_N]; rewrite Z3;
    unfold u128_ltb; destruct (u128_cmp (ih, il) (ch, cl)); reflexivity.
Qed.
