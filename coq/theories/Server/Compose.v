(* The RIB-level results (C01 refinement, reference-count invariant, Get) lifted to the server model
   of Server/Inst.v: the server touches the RIB only through AddEntry / DeleteEntry / Flush, so a
   server history induces a RIB-level history, and the RIB theorems apply to it. *)
From Coq Require Import List NArith Bool Lia.
From GV.Base Require Import Alist U128 Op.
From GV.Rib Require Import Model Lemmas Run RefDefs RefCount Closed.
From GV.Server Require Import Model Obs Inst Facts GetFacts.
From GV.Rib Require Import Spec Refine.
Import ListNotations.
Open Scope N_scope.

Notation ssrv := (srv ribt) (only parsing).
Notation ssget := (GV.Server.Model.sget ribt) (only parsing).
Notation rout := GV.Rib.Model.out (only parsing).
Notation sfinal_st s h := (snd (strace v_fixed sv_fixed s h)) (only parsing).

(* ================================================================== *)
(* Definitions: the RIB calls a server step makes, and the server log  *)
(* ================================================================== *)

(* the AddEntry / DeleteEntry calls made by the loop of doModify on operations ops from RIB state r,
   with the election snapshot (mst, cu) and the sender (me, last): one call per operation that names
   an existing instance, passes the gate and has a known kind, in request order, up to the first
   fatal error *)
Fixpoint ops_calls (mst : option N) (cu : option u128) (me : N) (last : option u128)
         (ops : list hop) (r : ribt) : list rinput :=
  match ops with
  | [] => []
  | o :: tl =>
    if op_ni o =? 0 then ops_calls mst cu me last tl r else
    if negb (has_ni r (op_ni o)) then ops_calls mst cu me last tl r else
    match check_election (op_elec o) mst cu me last with
    | GateFatal _ _ => []
    | GateFailed => ops_calls mst cu me last tl r
    | GateOK =>
      match op_kind o with
      | OTHERKIND => ops_calls mst cu me last tl r
      | DELETE =>
        let '(r', out) := delete_entry v_fixed r (op_ni o) (strip o) in
        IDel (op_ni o) (strip o) :: (if fatal out then [] else ops_calls mst cu me last tl r')
      | _ =>
        let '(r', out) := add_entry v_fixed (canon (hfails (op_entry o)) (hoks (op_entry o))) r (op_ni o) (strip o) in
        IAdd (op_ni o) (strip o) (hfails (op_entry o)) (hoks (op_entry o))
             :: (if fatal out || nofuel out then [] else ops_calls mst cu me last tl r')
      end
    end
  end.

(* the RIB-level inputs induced by one server step *)
Definition step_calls (s : ssrv) (i : sinput) : list rinput :=
  match i with
  | SIn (Msg _ c (MOps _ ops)) =>
    match ssget c s with
    | None => []
    | Some x =>
      if negb (cp_expect (s_params x)) || negb (cp_persist (s_params x)) then []
      else ops_calls (master s) (cur s) c (s_last x) ops (srib s)
    end
  | SIn _ => []
  | SFlush q =>
    match check_flush (cur s) q with
    | F_OK => match f_ni q with
              | NAll => [IFlush (map fst (nis (srib s)))]
              | NName n => if has_ni (srib s) n then [IFlush [n]] else []
              | NNone => []
              end
    | _ => []
    end
  | SGet _ => []
  end.
Fixpoint srv_hist (s : ssrv) (h : list sinput) : list rinput :=
  match h with
  | [] => []
  | i :: tl => step_calls s i ++ srv_hist (fst (sstep v_fixed sv_fixed s i)) tl
  end.

(* the acknowledgement log: per step, the [acked] lists of the RIB calls it made, in order (an
   [AckFlush] for an executed Flush); for a history from [srv_init], preceded by the creation of
   the configured instances *)
Definition step_log (s : ssrv) (i : sinput) : list ack := ack_log v_fixed (srib s) (step_calls s i).
Fixpoint hist_log (s : ssrv) (h : list sinput) : list ack :=
  match h with
  | [] => []
  | i :: tl => step_log s i ++ hist_log (fst (sstep v_fixed sv_fixed s i)) tl
  end.
Definition srv_log (nofwd : bool) (vrfs : list N) (h : list sinput) : list ack :=
  map AckNewNI vrfs ++ hist_log (srv_init nofwd vrfs) h.

(* what the wire shows: the ids answered RIB_PROGRAMMED, in order *)
Definition resp_prog (r : resp) : list N :=
  match r with
  | RResults rs => map fst (filter (fun x => match snd x with RIB_PROGRAMMED => true | _ => false end) rs)
  | _ => []
  end.
Definition prog_ids (rs : list resp) : list N := flat_map resp_prog rs.
Definition ack_opid (a : ack) : N := match a with AckOp _ o => op_id o | _ => 0 end.

(* session c is the primary and operation o' carries the id c last announced, which is the highest
   id the server has learnt: o' passes the election gate in state s *)
Definition passed (s : ssrv) (c : N) (o' : hop) : Prop :=
  exists x e, ssget c s = Some x /\ op_elec o' = Some e /\ master s = Some c /\ s_last x = Some e /\ cur s = Some e.
(* (n, o) was submitted in history h (from s0) in an operations message whose sender passed the gate
   with it at that moment *)
Definition sent_in (s0 : ssrv) (h : list sinput) (n : N) (o : rop) : Prop :=
  exists h1 c ops h2 o',
    h = h1 ++ SIn (Msg hentry c (MOps hentry ops)) :: h2 /\ In o' ops /\ o = strip o' /\ n = op_ni o'
    /\ passed (sfinal_st s0 h1) c o'.

(* the entries of a spec state as Get entries *)
Definition tabs_entries (n : N) (x : tabs) : list gentry :=
  map (fun kv => GTop n T4 (fst kv) (snd kv)) (s4 x) ++ map (fun kv => GTop n T6 (fst kv) (snd kv)) (s6 x)
  ++ map (fun kv => GTop n TL (fst kv) (snd kv)) (sl x) ++ map (fun kv => GGrp n (fst kv) (snd kv)) (sg x)
  ++ map (fun kv => GNh n (fst kv) (snd kv)) (sh x).
Definition spec_entries (sp : spec) : list gentry := flat_map (fun kv => tabs_entries (fst kv) (snd kv)) sp.
(* Get entry g is bound in spec state sp *)
Definition spec_binds (sp : spec) (g : gentry) : Prop :=
  match g with
  | GTop n t k p => slook sp n (KTop t k) = Some (STop t k p)
  | GGrp n id p => slook sp n (KGrp id) = Some (SGrp id p)
  | GNh n i p => slook sp n (KNh i) = Some (SNh i p)
  end.

(* ================================================================== *)
(* Histories: concatenation                                            *)
(* ================================================================== *)
Lemma rfinal_app v h1 : forall r h2, rfinal v r (h1 ++ h2) = rfinal v (rfinal v r h1) h2.
Proof. unfold rfinal. induction h1 as [|i h1 IH]; intros r h2; cbn [app rfinal_ord]; [reflexivity|]. apply IH. Qed.
Lemma ack_log_app v h1 : forall r h2, ack_log v r (h1 ++ h2) = ack_log v r h1 ++ ack_log v (rfinal v r h1) h2.
Proof.
  unfold ack_log, rfinal. induction h1 as [|i h1 IH]; intros r h2; cbn [app ack_log_ord rfinal_ord]; [reflexivity|].
  destruct (rstep_ord canon v r i) as [[r1 o1] b1]. cbn [fst]. rewrite IH, app_assoc. reflexivity.
Qed.
Lemma strace_app h1 : forall (s : ssrv) h2, sfinal_st s (h1 ++ h2) = sfinal_st (sfinal_st s h1) h2.
Proof.
  induction h1 as [|i h1 IH]; intros s h2; cbn [app strace snd]; [reflexivity|].
  destruct (sstep v_fixed sv_fixed s i) as [s1 o1]. specialize (IH s1 h2).
  destruct (strace v_fixed sv_fixed s1 (h1 ++ h2)) as [os sf]. destruct (strace v_fixed sv_fixed s1 h1) as [os1 sf1].
  cbn [snd] in *. exact IH.
Qed.
Lemma strace_cons (s : ssrv) i h : sfinal_st s (i :: h) = sfinal_st (fst (sstep v_fixed sv_fixed s i)) h.
Proof.
  cbn [strace]. destruct (sstep v_fixed sv_fixed s i) as [s1 o1]. cbn [fst].
  destruct (strace v_fixed sv_fixed s1 h) as [os sf]. reflexivity.
Qed.

(* ================================================================== *)
(* The frame fact: a server step changes the RIB exactly by its calls  *)
(* ================================================================== *)
Lemma do_ops_calls fib mst cu me last ops : forall r acc,
  fst (fst (do_ops hentry ribt r_has_ni (r_add v_fixed) (r_del v_fixed) sv_fixed fib mst cu me last ops r acc))
  = rfinal v_fixed r (ops_calls mst cu me last ops r).
Proof.
  induction ops as [|o tl IH]; intros r acc; cbn [do_ops ops_calls]; [reflexivity|].
  cbn [fixF4 fixF9 sv_fixed]. rewrite andb_true_r.
  destruct (op_ni o =? 0); [apply IH|]. unfold r_has_ni at 1.
  destruct (negb (has_ni r (op_ni o))); [apply IH|].
  destruct (check_election (op_elec o) mst cu me last) as [| |c rs]; cbn [modify_entry].
  - destruct (op_kind o).
    + unfold r_add at 1. destruct (add_entry v_fixed _ r (op_ni o) (strip o)) as [r1 o1] eqn:E.
      unfold rfinal. cbn [rfinal_ord rstep_ord]. rewrite E. cbn [fst].
      destruct (fatal o1 || nofuel o1); cbn [fst rfinal_ord]; [reflexivity|apply IH].
    + unfold r_add at 1. destruct (add_entry v_fixed _ r (op_ni o) (strip o)) as [r1 o1] eqn:E.
      unfold rfinal. cbn [rfinal_ord rstep_ord]. rewrite E. cbn [fst].
      destruct (fatal o1 || nofuel o1); cbn [fst rfinal_ord]; [reflexivity|apply IH].
    + unfold r_del at 1. destruct (delete_entry v_fixed r (op_ni o) (strip o)) as [r1 o1] eqn:E.
      unfold rfinal. cbn [rfinal_ord rstep_ord rstep]. rewrite E. cbn [fst].
      destruct (fatal o1); cbn [fst rfinal_ord]; [reflexivity|apply IH].
    + apply IH.
  - apply IH.
  - reflexivity.
Qed.

(* every step leaves the RIB unchanged or applies its calls: AddEntry / DeleteEntry for the operations
   that passed the gate, in request order, or one Flush *)
Theorem sstep_frame (s : ssrv) i :
  srib (fst (sstep v_fixed sv_fixed s i)) = rfinal v_fixed (srib s) (step_calls s i).
Proof.
  destruct i as [x|q|q]; cbn [sstep step_calls].
  - unfold mstep. destruct x as [c|c m|c|c]; cbn [step].
    + destruct (ssget c s); reflexivity.
    + destruct (ssget c s) as [x|]; [|destruct m; reflexivity].
      destruct m as [p|id|ops| |].
      * pose proof (do_params_frame ribt c x p s) as (A & _). destruct (do_params ribt sv_fixed c x p s) as [s1 o].
        destruct (o_end o); exact A.
      * pose proof (do_elect_frame ribt c x id s) as (A & _). destruct (do_elect ribt sv_fixed c x id s) as [s1 o].
        destruct (o_end o); exact A.
      * unfold do_modify. destruct (negb (cp_expect (s_params x)) || negb (cp_persist (s_params x))); [reflexivity|].
        pose proof (do_ops_calls (cp_fib (s_params x)) (master s) (cur s) c (s_last x) ops (srib s) []) as A.
        destruct (do_ops hentry ribt r_has_ni (r_add v_fixed) (r_del v_fixed) sv_fixed _ _ _ c _ ops (srib s) []) as [[r' rs] e].
        cbn [fst] in A. destruct e; exact A.
      * reflexivity.
      * reflexivity.
    + destruct (ssget c s); reflexivity.
    + destruct (ssget c s); reflexivity.
  - unfold do_flush. destruct (check_flush (cur s) q); try reflexivity.
    destruct (f_ni q) as [| |n]; [reflexivity| |].
    + unfold rfinal. cbn [rfinal_ord rstep_ord rstep].
      destruct (flush v_fixed (map fst (nis (srib s))) (srib s)) as [[r' hv] err]. reflexivity.
    + destruct (has_ni (srib s) n); [|reflexivity]. unfold rfinal. cbn [rfinal_ord rstep_ord rstep].
      destruct (flush v_fixed [n] (srib s)) as [[r' hv] err]. reflexivity.
  - reflexivity.
Qed.

Lemma strace_frame h : forall s : ssrv, srib (sfinal_st s h) = rfinal v_fixed (srib s) (srv_hist s h).
Proof.
  induction h as [|i h IH]; intros s; [reflexivity|]. rewrite strace_cons. cbn [srv_hist].
  rewrite rfinal_app, IH, sstep_frame. reflexivity.
Qed.
Lemma srv_init_frame nf vrfs : srib (srv_init nf vrfs) = rfinal v_fixed (rib0 1 nf) (map IAddNI vrfs).
Proof.
  unfold srv_init, srv0. cbn [GV.Server.Model.rib]. generalize (rib0 1 nf).
  induction vrfs as [|n l IH]; intros r; cbn [fold_left map]; [reflexivity|]. rewrite IH. reflexivity.
Qed.
Lemma hist_log_eq h : forall s : ssrv, hist_log s h = ack_log v_fixed (srib s) (srv_hist s h).
Proof.
  induction h as [|i h IH]; intros s; cbn [hist_log srv_hist]; [reflexivity|].
  rewrite ack_log_app, IH, sstep_frame. reflexivity.
Qed.
Lemma newni_log v vrfs : forall r, ack_log v r (map IAddNI vrfs) = map AckNewNI vrfs.
Proof.
  unfold ack_log. induction vrfs as [|n l IH]; intros r; cbn [map ack_log_ord rstep_ord rstep acks_of_step app]; [reflexivity|].
  rewrite IH. reflexivity.
Qed.
(* the server log is the RIB-level log of the induced history *)
Theorem srv_log_eq nf vrfs h :
  srv_log nf vrfs h = ack_log v_fixed (rib0 1 nf) (map IAddNI vrfs ++ srv_hist (srv_init nf vrfs) h).
Proof. unfold srv_log. rewrite ack_log_app, newni_log, hist_log_eq, srv_init_frame. reflexivity. Qed.
Theorem srv_final_eq nf vrfs h :
  srib (sfinal_st (srv_init nf vrfs) h) = rfinal v_fixed (rib0 1 nf) (map IAddNI vrfs ++ srv_hist (srv_init nf vrfs) h).
Proof. rewrite strace_frame, rfinal_app, srv_init_frame. reflexivity. Qed.

(* ================================================================== *)
(* (1) the RIB invariants hold in every reachable server state         *)
(* ================================================================== *)
Theorem srv_INV nf vrfs h : INV (srib (sfinal_st (srv_init nf vrfs) h)).
Proof. rewrite srv_final_eq, rfinal_rtrace. apply reachable_INV, INV_rib0. Qed.
Theorem srv_WF nf vrfs h : WF (srib (sfinal_st (srv_init nf vrfs) h)).
Proof. apply srv_INV. Qed.

(* ================================================================== *)
(* (2) the installed state is the fold of the server log               *)
(* ================================================================== *)
Theorem srv_state_is_fold nf vrfs h :
  sp_eq (abs (srib (sfinal_st (srv_init nf vrfs) h))) (fold_left spec_apply (srv_log nf vrfs h) (abs (rib0 1 nf))).
Proof. rewrite srv_final_eq, srv_log_eq. apply state_is_fold. Qed.
(* from any server state *)
Theorem srv_state_is_fold_from (s : ssrv) h :
  sp_eq (abs (srib (sfinal_st s h))) (fold_left spec_apply (hist_log s h) (abs (srib s))).
Proof. rewrite strace_frame, hist_log_eq. apply state_is_fold. Qed.

(* ================================================================== *)
(* (3) the log is observable from the wire                             *)
(* ================================================================== *)
Lemma resp_prog_results fib oks fails : resp_prog (RResults (results_of fib oks fails)) = oks.
Proof.
  unfold resp_prog, results_of. rewrite filter_app, map_app.
  assert (H2 : filter (fun x : N * astatus => match snd x with RIB_PROGRAMMED => true | _ => false end)
                      (map (fun i => (i, FAILED)) fails) = []).
  { induction fails as [|i l IH]; cbn; [reflexivity|exact IH]. }
  rewrite H2. cbn [map]. rewrite app_nil_r.
  induction oks as [|i l IH]; [reflexivity|]. cbn [flat_map]. rewrite filter_app, map_app, IH.
  destruct fib; reflexivity.
Qed.
Lemma prog_ids_app a b : prog_ids (a ++ b) = prog_ids a ++ prog_ids b.
Proof. unfold prog_ids. apply flat_map_app. Qed.
Lemma prog_ids_failed acc i : prog_ids (acc ++ [RResults [(i, FAILED)]]) = prog_ids acc.
Proof. rewrite prog_ids_app. cbn. apply app_nil_r. Qed.
Lemma eff_del_id o : op_id (eff_del o) = op_id o.
Proof. unfold eff_del. destruct (op_kind o); reflexivity. Qed.
Lemma ids_ack_add l : map ack_opid (map ack_add l) = map (fun x : N * rop => op_id (snd x)) l.
Proof. rewrite map_map. apply map_ext. intros x. cbn. apply eff_add_id. Qed.
Lemma ids_ack_del l : map ack_opid (map ack_del l) = map (fun x : N * rop => op_id (snd x)) l.
Proof. rewrite map_map. apply map_ext. intros x. cbn. apply eff_del_id. Qed.
Lemma ack_log_add r n o hf ho tl r1 o1 :
  add_entry v_fixed (canon hf ho) r n o = (r1, o1) ->
  ack_log v_fixed r (IAdd n o hf ho :: tl) = map ack_add (acked o1) ++ ack_log v_fixed r1 tl.
Proof. intros E. unfold ack_log. cbn [ack_log_ord rstep_ord]. rewrite E. reflexivity. Qed.
Lemma ack_log_del r n o tl r1 o1 :
  delete_entry v_fixed r n o = (r1, o1) ->
  ack_log v_fixed r (IDel n o :: tl) = map ack_del (acked o1) ++ ack_log v_fixed r1 tl.
Proof. intros E. unfold ack_log. cbn [ack_log_ord rstep_ord rstep]. rewrite E. reflexivity. Qed.

Lemma do_ops_prog fib mst cu me last ops : forall r acc r' rs e,
  do_ops hentry ribt r_has_ni (r_add v_fixed) (r_del v_fixed) sv_fixed fib mst cu me last ops r acc = (r', rs, e) ->
  exists rest,
    prog_ids acc ++ map ack_opid (ack_log v_fixed r (ops_calls mst cu me last ops r)) = prog_ids rs ++ rest
    /\ (e <> Some (Unimplemented, R_UNKNOWN) -> rest = []).
Proof.
  induction ops as [|o tl IH]; intros r acc r' rs e; cbn [do_ops ops_calls].
  { intros H; inversion H; subst. exists []. split; [reflexivity|auto]. }
  cbn [fixF4 fixF9 sv_fixed]. rewrite andb_true_r.
  destruct (op_ni o =? 0).
  { intros H. apply IH in H. rewrite prog_ids_failed in H. exact H. }
  unfold r_has_ni at 1. destruct (negb (has_ni r (op_ni o))).
  { cbn [app]. intros H. apply IH in H. rewrite prog_ids_failed in H. exact H. }
  destruct (check_election (op_elec o) mst cu me last) as [| |c rs0]; cbn [modify_entry].
  - destruct (op_kind o).
    + unfold r_add at 1. destruct (add_entry v_fixed _ r (op_ni o) (strip o)) as [r1 o1] eqn:E.
      rewrite (ack_log_add _ _ _ _ _ _ _ _ E). rewrite map_app, ids_ack_add, <- (add_entry_oks _ _ _ _ _ _ _ E).
      destruct (fatal o1 || nofuel o1); cbn [app].
      * intros H; inversion H; subst. exists (oks o1). rewrite !app_nil_r. split; [reflexivity|]. intros Hc; exfalso; apply Hc; reflexivity.
      * intros H. apply IH in H. rewrite prog_ids_app in H. cbn [prog_ids flat_map] in H.
        rewrite resp_prog_results, app_nil_r, <- app_assoc in H. exact H.
    + unfold r_add at 1. destruct (add_entry v_fixed _ r (op_ni o) (strip o)) as [r1 o1] eqn:E.
      rewrite (ack_log_add _ _ _ _ _ _ _ _ E). rewrite map_app, ids_ack_add, <- (add_entry_oks _ _ _ _ _ _ _ E).
      destruct (fatal o1 || nofuel o1); cbn [app].
      * intros H; inversion H; subst. exists (oks o1). rewrite !app_nil_r. split; [reflexivity|]. intros Hc; exfalso; apply Hc; reflexivity.
      * intros H. apply IH in H. rewrite prog_ids_app in H. cbn [prog_ids flat_map] in H.
        rewrite resp_prog_results, app_nil_r, <- app_assoc in H. exact H.
    + unfold r_del at 1. destruct (delete_entry v_fixed r (op_ni o) (strip o)) as [r1 o1] eqn:E.
      rewrite (ack_log_del _ _ _ _ _ _ E). rewrite map_app, ids_ack_del, <- (delete_entry_oks _ _ _ _ _ _ E).
      destruct (fatal o1); cbn [app].
      * intros H; inversion H; subst. exists (oks o1). rewrite !app_nil_r. split; [reflexivity|]. intros Hc; exfalso; apply Hc; reflexivity.
      * intros H. apply IH in H. rewrite prog_ids_app in H. cbn [prog_ids flat_map] in H.
        rewrite resp_prog_results, app_nil_r, <- app_assoc in H. exact H.
    + cbn [app]. intros H. apply IH in H. rewrite prog_ids_failed in H. exact H.
  - cbn [app]. intros H. apply IH in H. rewrite prog_ids_failed in H. exact H.
  - cbn [app]. intros H; inversion H; subst. exists []. rewrite !app_nil_r. split; [reflexivity|auto].
Qed.

(* In a step's responses, the ids answered RIB_PROGRAMMED are, in order, the ids of the step's log
   entries.  The only possible difference is a tail of the log that was not answered because the
   RPC was ended with the RIB's fatal error status (Unimplemented / R_UNKNOWN), which the model can
   only produce for an AddEntry call with acknowledgements by running out of cascade fuel. *)
Theorem srv_programmed_ids_are_acked (s : ssrv) x s' o :
  sstep v_fixed sv_fixed s (SIn x) = (s', OMod o) ->
  exists rest, map ack_opid (step_log s (SIn x)) = prog_ids (o_resps o) ++ rest
               /\ (o_end o <> Some (Unimplemented, R_UNKNOWN) -> rest = []).
Proof.
  unfold step_log. cbn [sstep step_calls]. unfold mstep.
  assert (Hnil : forall o0 : GV.Server.Model.out, prog_ids (o_resps o0) = [] ->
                 exists rest, map ack_opid (ack_log v_fixed (srib s) []) = prog_ids (o_resps o0) ++ rest
                              /\ (o_end o0 <> Some (Unimplemented, R_UNKNOWN) -> rest = [])).
  { intros o0 H. exists []. rewrite H. split; [reflexivity|auto]. }
  destruct x as [c|c m|c|c]; cbn [step].
  - destruct (ssget c s); intros H; inversion H; subst; apply Hnil; reflexivity.
  - destruct (ssget c s) as [x|].
    2:{ intros H; inversion H; subst. destruct m; apply Hnil; reflexivity. }
    destruct m as [p|id|ops| |].
    + assert (Hp : prog_ids (o_resps (snd (do_params ribt sv_fixed c x p s))) = []).
      { unfold do_params. repeat match goal with |- context [if ?b then _ else _] => destruct b end; reflexivity. }
      destruct (do_params ribt sv_fixed c x p s) as [s1 o1]. cbn [snd] in Hp.
      destruct (o_end o1); intros H; inversion H; subst; apply Hnil; exact Hp.
    + assert (Hp : prog_ids (o_resps (snd (do_elect ribt sv_fixed c x id s))) = []).
      { unfold do_elect. repeat match goal with |- context [if ?b then _ else _] => destruct b end; reflexivity. }
      destruct (do_elect ribt sv_fixed c x id s) as [s1 o1]. cbn [snd] in Hp.
      destruct (o_end o1); intros H; inversion H; subst; apply Hnil; exact Hp.
    + unfold do_modify. destruct (negb (cp_expect (s_params x)) || negb (cp_persist (s_params x))).
      { cbn. intros H; inversion H; subst. apply Hnil. reflexivity. }
      pose proof (do_ops_prog (cp_fib (s_params x)) (master s) (cur s) c (s_last x) ops (srib s) []) as A.
      destruct (do_ops hentry ribt r_has_ni (r_add v_fixed) (r_del v_fixed) sv_fixed _ _ _ c _ ops (srib s) []) as [[r' rs] e].
      specialize (A r' rs e eq_refl). destruct A as (rest & A1 & A2). cbn [prog_ids flat_map app] in A1.
      destruct e; cbn [o_end]; intros H; inversion H; subst; exists rest; cbn [o_resps o_end]; auto.
    + cbn. intros H; inversion H; subst. apply Hnil. reflexivity.
    + cbn. intros H; inversion H; subst. apply Hnil. reflexivity.
  - destruct (ssget c s); intros H; inversion H; subst; apply Hnil; reflexivity.
  - destruct (ssget c s); intros H; inversion H; subst; apply Hnil; reflexivity.
Qed.
(* membership form: every id answered RIB_PROGRAMMED is the id of a logged operation of that step,
   and conversely unless the RPC was ended with the RIB's fatal error status *)
Theorem srv_programmed_iff_acked (s : ssrv) x s' o i :
  sstep v_fixed sv_fixed s (SIn x) = (s', OMod o) ->
  (In i (prog_ids (o_resps o)) -> In i (map ack_opid (step_log s (SIn x))))
  /\ (o_end o <> Some (Unimplemented, R_UNKNOWN) ->
      In i (map ack_opid (step_log s (SIn x))) -> In i (prog_ids (o_resps o))).
Proof.
  intros H. destruct (srv_programmed_ids_are_acked s x s' o H) as (rest & A1 & A2). rewrite A1. split.
  - intros Hi. apply in_or_app. left. exact Hi.
  - intros He. rewrite (A2 He), app_nil_r. auto.
Qed.

(* ================================================================== *)
(* (4) only operations that passed the election gate are in the log    *)
(* ================================================================== *)
(* canon only reorders (and may repeat or drop) the held operations it is given *)
Lemma ins_by_In {A} (key : A -> N) (x a : A) l : In x (ins_by key a l) <-> x = a \/ In x l.
Proof.
  induction l as [|y l IH]; cbn; [intuition congruence|].
  destruct (key a <=? key y); cbn; [intuition congruence|]. rewrite IH. intuition congruence.
Qed.
Lemma sort_by_In {A} (key : A -> N) (x : A) l : In x (sort_by key l) <-> In x l.
Proof. induction l as [|y l IH]; cbn; [tauto|]. rewrite ins_by_In, IH. intuition congruence. Qed.
Lemma canon_incl hf ho l x : In x (canon hf ho l) -> In x l.
Proof.
  unfold canon. rewrite !in_app_iff.
  assert (Hp : forall ids, In x (flat_map (fun i => match nget i l with Some y => [(i, y)] | None => [] end) ids) -> In x l).
  { intros ids H. apply in_flat_map in H. destruct H as (i & _ & H).
    destruct (nget i l) as [y|] eqn:E; [|destruct H]. destruct H as [<-|[]]. apply nget_in. exact E. }
  intros [H|[H|H]]; [apply (Hp hf H)|apply (Hp ho H)|].
  apply sort_by_In in H. apply filter_In in H. tauto.
Qed.
Lemma in_ndel {V} k (l : amap V) x : In x (ndel k l) -> In x l.
Proof. unfold ndel, adel. intros H. apply filter_In in H. tauto. Qed.
Lemma in_nset {V} k (v : V) l x : In x (nset k v l) -> x = (k, v) \/ In x l.
Proof. unfold nset, aset. intros [<-|H]; [auto|right; eapply in_ndel; exact H]. Qed.

Lemma try_install_pend v r n o r' h rv : try_install v r n o = Installed r' h rv -> pend r' = pend r.
Proof.
  unfold try_install. destruct (nget n (nis r)) as [s|]; [|discriminate].
  destruct (op_entry o) as [t k kv p|id p|i p|]; [| | |discriminate].
  - unfold try_add_top. destruct p as [pl|]; [|discriminate].
    destruct (negb (key_ok t k kv) || t_bad pl); [discriminate|].
    destruct (_ && negb (nmem k (get_top t s))); [discriminate|].
    destruct (t_nhg pl =? 0); [discriminate|].
    destruct (target n pl) as [tn tg].
    destruct (negb (has_ni r tn)); [discriminate|].
    destruct (negb (has_grp r tn tg)); [discriminate|].
    intros H; inversion H; subst; clear H.
    destruct (nget k (get_top t s)) as [o0|]; [destruct (same_ref o0 pl)|]; rewrite ?pend_upd_ni; reflexivity.
  - unfold try_add_grp. destruct p as [pl|]; [|discriminate].
    destruct (g_bad pl); [discriminate|].
    destruct (_ && negb (nmem id (tabg s))); [discriminate|].
    destruct (id =? 0); [discriminate|].
    destruct (g_nhs pl) as [|iw l] eqn:Enhs; [discriminate|].
    destruct (existsb _ (iw :: l)); [discriminate|].
    destruct (forallb _ (iw :: l)); cbn [negb]; [|discriminate].
    intros H; inversion H; subst; clear H.
    destruct (nget id (tabg s)); rewrite ?pend_upd_ni; reflexivity.
  - unfold try_add_nh. destruct p as [pl|]; [|discriminate].
    destruct (h_bad pl); [discriminate|].
    destruct (_ && negb (nmem i (tabh s))); [discriminate|].
    destruct (i =? 0); [discriminate|].
    intros H; inversion H; subst; clear H. rewrite pend_upd_ni. reflexivity.
Qed.

(* every held operation satisfies Q *)
Definition pendQ (Q : N * rop -> Prop) (r : ribt) : Prop := forall id x, In (id, x) (pend r) -> Q x.
Lemma pendQ_impl (Q Q' : N * rop -> Prop) r : (forall x, Q x -> Q' x) -> pendQ Q r -> pendQ Q' r.
Proof. intros H HP id x Hin. apply H. eapply HP; eauto. Qed.
Lemma pendQ_eq Q r r' : pend r' = pend r -> pendQ Q r -> pendQ Q r'.
Proof. intros E H id x Hin. rewrite E in Hin. eapply H; eauto. Qed.

Section CascadeQ.
  Variable v : variant.
  Variable ord : amap (ni * rop) -> amap (ni * rop).
  Variable Q : N * rop -> Prop.
  Hypothesis Hord : forall l x, In x (ord l) -> In x l.

  Definition stQ (st : ribt * rout * list N) : Prop := pendQ Q (fst (fst st)) /\ Forall Q (acked (snd (fst st))).

  Lemma aei_Q fuel : forall st n o, Q (n, o) -> stQ st -> stQ (aei v ord fuel st n o).
  Proof.
    induction fuel as [|f IH]; intros [[r acc] stack] n o Hq [H1 H2]; cbn [aei].
    - split; [exact H1|exact H2].
    - destruct (existsb (N.eqb (op_id o)) stack); [split; assumption|].
      destruct (try_install v r n o) as [| |r1 h rv] eqn:Ei.
      + split; [|exact H2]. cbn [fst]. destruct (fixF5 v); [|exact H1].
        intros id x Hin. cbn [pend set_pend] in Hin. apply in_ndel in Hin. eapply H1; eauto.
      + destruct (nofwd r); (split; [|exact H2]); cbn [fst]; [exact H1|].
        intros id x Hin. cbn [pend set_pend] in Hin. apply in_nset in Hin. destruct Hin as [Hin|Hin].
        * inversion Hin; subst. exact Hq.
        * eapply H1; eauto.
      + pose proof (try_install_pend _ _ _ _ _ _ _ Ei) as Hp.
        assert (H3 : pendQ Q (set_pend (ndel (op_id o) (pend r1)) r1)).
        { intros id x Hin. cbn [pend set_pend] in Hin. apply in_ndel in Hin. rewrite Hp in Hin. eapply H1; eauto. }
        assert (HL : forall e, In e (ord (pend (set_pend (ndel (op_id o) (pend r1)) r1))) -> Q (snd e)).
        { intros [id x] Hin. apply Hord in Hin. cbn [snd]. eapply H3; eauto. }
        remember (ord _) as l eqn:El. clear El.
        match goal with |- stQ (fold_left _ l ?s) => remember s as st0 eqn:Es end.
        assert (H0 : stQ st0).
        { subst st0. split; [exact H3|]. cbn [fst snd acked add_rev add_hev add_ok]. apply Forall_app. split; [exact H2|].
          constructor; [exact Hq|constructor]. }
        clear Es. revert st0 H0. induction l as [|e l IHl]; intros st0 H0; cbn [fold_left]; [exact H0|].
        apply IHl; [intros e' He'; apply HL; right; exact He'|].
        apply IH; [|exact H0]. specialize (HL e (or_introl eq_refl)). destruct e as [id [n' o']]. exact HL.
  Qed.
  Lemma add_entry_Q r n o r' out :
    add_entry v ord r n o = (r', out) -> Q (n, o) -> pendQ Q r -> pendQ Q r' /\ Forall Q (acked out).
  Proof.
    unfold add_entry. intros H Hq HP. destruct ((n =? 0) || negb (has_ni r n)).
    { inversion H; subst. split; [exact HP|constructor]. }
    pose proof (aei_Q (S (length (pend r))) (r, out0, []) n o Hq (conj HP (Forall_nil _))) as [A B].
    destruct (aei v ord (S (length (pend r))) (r, out0, []) n o) as [[r1 acc1] stk]. cbn [fst snd] in A, B.
    destruct (op_entry o); inversion H; subst; first [split; [exact A|exact B]|split; [exact HP|constructor]].
  Qed.
End CascadeQ.

Definition addk (o : rop) : Prop := op_kind o = ADD \/ op_kind o = REPLACE.
(* held operations satisfy Q and were submitted as ADD / REPLACE *)
Definition QK (Q : N * rop -> Prop) (x : N * rop) : Prop := Q x /\ addk (snd x).

Lemma in_ack_add (Q : N * rop -> Prop) l n o :
  Forall (QK Q) l -> In (AckOp n o) (map ack_add l) -> Q (n, o).
Proof.
  intros HF Hin. apply in_map_iff in Hin. destruct Hin as ([n' o'] & E & Hin).
  rewrite Forall_forall in HF. destruct (HF _ Hin) as [Hq Hk]. cbn [snd] in Hk.
  unfold ack_add in E. cbn [fst snd] in E. rewrite (eff_add_same _ Hk) in E. inversion E; subst. exact Hq.
Qed.

Lemma ops_calls_Q (Q : N * rop -> Prop) mst cu me last ops :
  (forall o', In o' ops -> check_election (op_elec o') mst cu me last = GateOK -> Q (op_ni o', strip o')) ->
  forall r, pendQ (QK Q) r ->
    (forall n o, In (AckOp n o) (ack_log v_fixed r (ops_calls mst cu me last ops r)) -> Q (n, o))
    /\ pendQ (QK Q) (rfinal v_fixed r (ops_calls mst cu me last ops r)).
Proof.
  induction ops as [|o tl IH]; intros Hnew r HP; cbn [ops_calls].
  { split; [intros n o []|exact HP]. }
  assert (Htl : forall o', In o' tl -> check_election (op_elec o') mst cu me last = GateOK -> Q (op_ni o', strip o'))
    by (intros o' Hin; apply Hnew; right; exact Hin).
  destruct (op_ni o =? 0); [apply IH; assumption|].
  destruct (negb (has_ni r (op_ni o))); [apply IH; assumption|].
  destruct (check_election (op_elec o) mst cu me last) eqn:Eg; [|apply IH; assumption|split; [intros n o0 []|exact HP]].
  pose proof (Hnew o (or_introl eq_refl) Eg) as Hq.
  assert (Hadd : addk (strip o) -> forall r1 o1,
    add_entry v_fixed (canon (hfails (op_entry o)) (hoks (op_entry o))) r (op_ni o) (strip o) = (r1, o1) ->
    (forall n o0, In (AckOp n o0)
        (ack_log v_fixed r (IAdd (op_ni o) (strip o) (hfails (op_entry o)) (hoks (op_entry o))
                                 :: (if fatal o1 || nofuel o1 then [] else ops_calls mst cu me last tl r1))) -> Q (n, o0))
    /\ pendQ (QK Q) (rfinal v_fixed r (IAdd (op_ni o) (strip o) (hfails (op_entry o)) (hoks (op_entry o))
                                 :: (if fatal o1 || nofuel o1 then [] else ops_calls mst cu me last tl r1)))).
  { intros Hk r1 o1 E.
    destruct (add_entry_Q v_fixed _ (QK Q) (canon_incl _ _) r (op_ni o) (strip o) r1 o1 E) as [A B];
      [split; [exact Hq|exact Hk]|exact HP|].
    rewrite (ack_log_add _ _ _ _ _ _ _ _ E).
    assert (Hr : forall tl', rfinal v_fixed r (IAdd (op_ni o) (strip o) (hfails (op_entry o)) (hoks (op_entry o)) :: tl') = rfinal v_fixed r1 tl').
    { intros tl'. unfold rfinal. cbn [rfinal_ord rstep_ord]. rewrite E. reflexivity. }
    rewrite Hr. destruct (IH Htl r1 A) as [C D].
    destruct (fatal o1 || nofuel o1).
    - split; [|exact A]. intros n o0 Hin. rewrite app_nil_r in Hin. eapply in_ack_add; eauto.
    - split; [|exact D]. intros n o0 Hin. apply in_app_or in Hin. destruct Hin as [Hin|Hin]; [eapply in_ack_add; eauto|apply C; exact Hin]. }
  destruct (op_kind o) eqn:Ek.
  - destruct (add_entry v_fixed _ r (op_ni o) (strip o)) as [r1 o1] eqn:E. apply Hadd; [left; exact Ek|reflexivity].
  - destruct (add_entry v_fixed _ r (op_ni o) (strip o)) as [r1 o1] eqn:E. apply Hadd; [right; exact Ek|reflexivity].
  - clear Hadd. destruct (delete_entry v_fixed r (op_ni o) (strip o)) as [r1 o1] eqn:E.
    rewrite (ack_log_del _ _ _ _ _ _ E).
    assert (Hr : forall tl', rfinal v_fixed r (IDel (op_ni o) (strip o) :: tl') = rfinal v_fixed r1 tl').
    { intros tl'. unfold rfinal. cbn [rfinal_ord rstep_ord rstep]. rewrite E. reflexivity. }
    rewrite Hr.
    assert (A : pendQ (QK Q) r1).
    { eapply pendQ_eq; [|exact HP]. pose proof (delete_entry_le v_fixed r (op_ni o) (strip o)) as (_ & Hp & _).
      rewrite E in Hp. exact Hp. }
    assert (B : forall n o0, In (AckOp n o0) (map ack_del (acked o1)) -> Q (n, o0)).
    { intros n o0 Hin. destruct (delete_entry_acked _ _ _ _ _ _ E) as [Ha|Ha]; rewrite Ha in Hin; [destruct Hin|].
      destruct Hin as [Hin|[]]. unfold ack_del in Hin. cbn [fst snd] in Hin.
      rewrite eff_del_same in Hin by exact Ek. inversion Hin; subst. exact Hq. }
    destruct (IH Htl r1 A) as [C D].
    destruct (fatal o1).
    + split; [|exact A]. intros n o0 Hin. rewrite app_nil_r in Hin. apply B; exact Hin.
    + split; [|exact D]. intros n o0 Hin. apply in_app_or in Hin. destruct Hin as [Hin|Hin]; [apply B|apply C]; exact Hin.
  - apply IH; assumption.
Qed.

Lemma QK_impl (Q Q' : N * rop -> Prop) : (forall x, Q x -> Q' x) -> forall x, QK Q x -> QK Q' x.
Proof. intros H x [A B]. split; [apply H; exact A|exact B]. Qed.

(* (n, o) is submitted by step i in state s, in an operations message that passes the gate with it *)
Definition new_in (s : ssrv) (i : sinput) (x : N * rop) : Prop :=
  exists c ops o', i = SIn (Msg hentry c (MOps hentry ops)) /\ In o' ops /\ snd x = strip o' /\ fst x = op_ni o'
                   /\ passed s c o'.

Lemma calls_trivial (Q Q2 : N * rop -> Prop) r calls :
  calls = [] \/ (exists l, calls = [IFlush l]) -> (forall x, Q x -> Q2 x) -> pendQ (QK Q) r ->
  (forall n o, In (AckOp n o) (ack_log v_fixed r calls) -> Q2 (n, o)) /\ pendQ (QK Q2) (rfinal v_fixed r calls).
Proof.
  intros [->|[l ->]] Hi HP.
  - split; [intros n o []|]. eapply pendQ_impl; [apply QK_impl; exact Hi|exact HP].
  - unfold ack_log, rfinal. cbn [ack_log_ord rfinal_ord rstep_ord rstep].
    pose proof (flush_pend v_fixed l r) as [Hp _].
    destruct (flush v_fixed l r) as [[r1 hv] e]. cbn [fst acks_of_step app] in *. split.
    + intros n o [H|[]]. discriminate.
    + eapply pendQ_eq; [exact Hp|]. eapply pendQ_impl; [apply QK_impl; exact Hi|exact HP].
Qed.

Lemma step_prov (Q : N * rop -> Prop) (s : ssrv) i : pendQ (QK Q) (srib s) ->
  (forall n o, In (AckOp n o) (step_log s i) -> Q (n, o) \/ new_in s i (n, o))
  /\ pendQ (QK (fun x => Q x \/ new_in s i x)) (srib (fst (sstep v_fixed sv_fixed s i))).
Proof.
  intros HP. rewrite sstep_frame. unfold step_log.
  assert (Htriv : step_calls s i = [] \/ (exists l, step_calls s i = [IFlush l]) ->
          (forall n o, In (AckOp n o) (ack_log v_fixed (srib s) (step_calls s i)) -> Q (n, o) \/ new_in s i (n, o))
          /\ pendQ (QK (fun x => Q x \/ new_in s i x)) (rfinal v_fixed (srib s) (step_calls s i))).
  { intros H. apply (calls_trivial Q (fun x => Q x \/ new_in s i x)); auto. }
  destruct i as [x|q|q].
  - destruct x as [c|c m|c|c]; try (apply Htriv; left; reflexivity).
    destruct m as [p|id|ops| |]; try (apply Htriv; left; reflexivity).
    cbn [step_calls] in *. destruct (ssget c s) as [x|] eqn:Ex; [|apply Htriv; left; reflexivity].
    destruct (negb (cp_expect (s_params x)) || negb (cp_persist (s_params x))); [apply Htriv; left; reflexivity|].
    apply (ops_calls_Q (fun x => Q x \/ new_in s (SIn (Msg hentry c (MOps hentry ops))) x)).
    + intros o' Hin Hg. right. exists c, ops, o'. cbn [fst snd]. repeat (split; [reflexivity || exact Hin|]).
      apply gate_ok_iff in Hg. destruct Hg as (e & H1 & H2 & H3 & H4). exists x, e. auto.
    + eapply pendQ_impl; [apply QK_impl|exact HP]. intros y Hy. left. exact Hy.
  - apply Htriv. cbn [step_calls]. destruct (check_flush (cur s) q); auto.
    destruct (f_ni q) as [| |n]; [auto|right; eauto|]. destruct (has_ni (srib s) n); [right; eauto|auto].
  - apply Htriv. left. reflexivity.
Qed.

Lemma sent_in_mono s0 h h' n o : sent_in s0 h n o -> sent_in s0 (h ++ h') n o.
Proof.
  intros (h1 & c & ops & h2 & o' & -> & A). exists h1, c, ops, (h2 ++ h'), o'. split; [|exact A].
  rewrite <- app_assoc. reflexivity.
Qed.
Lemma sfinal_snoc (s0 : ssrv) h1 i : sfinal_st s0 (h1 ++ [i]) = fst (sstep v_fixed sv_fixed (sfinal_st s0 h1) i).
Proof. rewrite strace_app, strace_cons. reflexivity. Qed.

Lemma hist_prov (s0 : ssrv) : forall h2 h1,
  pendQ (QK (fun x => sent_in s0 h1 (fst x) (snd x))) (srib (sfinal_st s0 h1)) ->
  forall n o, In (AckOp n o) (hist_log (sfinal_st s0 h1) h2) -> sent_in s0 (h1 ++ h2) n o.
Proof.
  induction h2 as [|i tl IH]; intros h1 HP n o; cbn [hist_log]; [intros []|].
  destruct (step_prov _ (sfinal_st s0 h1) i HP) as [A B].
  assert (Hnew : forall x, new_in (sfinal_st s0 h1) i x -> forall h', sent_in s0 (h1 ++ i :: h') (fst x) (snd x)).
  { intros x (c & ops & o' & -> & H1 & H2 & H3 & H4) h'. exists h1, c, ops, h', o'. auto. }
  intros Hin. apply in_app_or in Hin. destruct Hin as [Hin|Hin].
  - destruct (A n o Hin) as [H|H]; [apply sent_in_mono; exact H|apply (Hnew _ H tl)].
  - rewrite <- sfinal_snoc in Hin, B.
    replace (h1 ++ i :: tl) with ((h1 ++ [i]) ++ tl) by (rewrite <- app_assoc; reflexivity).
    apply IH; [|exact Hin]. eapply pendQ_impl; [apply QK_impl|exact B].
    intros x [H|H]; [apply sent_in_mono; exact H|apply (Hnew _ H [])].
Qed.

Lemma srv_init_pend nf vrfs : pend (srib (srv_init nf vrfs)) = [].
Proof.
  unfold srv_init, srv0. cbn [GV.Server.Model.rib].
  assert (H : forall r, pend (fold_left (fun r n => add_network_instance v_fixed n r) vrfs r) = pend r).
  { induction vrfs as [|n l IH]; intros r; cbn [fold_left]; [reflexivity|]. rewrite IH.
    unfold add_network_instance. destruct (has_ni r n); reflexivity. }
  rewrite H. reflexivity.
Qed.

(* Every operation in the server log was submitted, as it stands in the log, in an operations message
   of the history whose sender was the primary at that moment and stamped it with the election id it
   had last announced, equal to the highest id the server had learnt.  Operations answered FAILED by
   the gate, or sent by any other session, are not in the log (hence leave no trace in the tables). *)
Theorem srv_only_primary_in_log nf vrfs h n o :
  In (AckOp n o) (srv_log nf vrfs h) -> sent_in (srv_init nf vrfs) h n o.
Proof.
  unfold srv_log. intros Hin. apply in_app_or in Hin. destruct Hin as [Hin|Hin].
  - apply in_map_iff in Hin. destruct Hin as (m & H & _). discriminate.
  - apply (hist_prov (srv_init nf vrfs) h []); [|exact Hin].
    intros id x Hx. cbn [strace snd] in Hx. rewrite srv_init_pend in Hx. destruct Hx.
Qed.

(* step-level reading: a step logs an operation only if its sender is the primary with matching ids *)
Lemma ops_calls_none mst cu me last ops :
  (forall o, In o ops -> check_election (op_elec o) mst cu me last <> GateOK) ->
  forall r, ops_calls mst cu me last ops r = [].
Proof.
  induction ops as [|o tl IH]; intros H r; cbn [ops_calls]; [reflexivity|].
  assert (Htl : forall o', In o' tl -> check_election (op_elec o') mst cu me last <> GateOK) by (intros o' Hi; apply H; right; exact Hi).
  destruct (op_ni o =? 0); [apply IH; exact Htl|]. destruct (negb (has_ni r (op_ni o))); [apply IH; exact Htl|].
  pose proof (H o (or_introl eq_refl)) as Ho.
  destruct (check_election (op_elec o) mst cu me last); [congruence|apply IH; exact Htl|reflexivity].
Qed.
Theorem srv_step_log_needs_gate (s : ssrv) c ops :
  step_log s (SIn (Msg hentry c (MOps hentry ops))) <> [] -> exists o', In o' ops /\ passed s c o'.
Proof.
  unfold step_log. cbn [step_calls]. destruct (ssget c s) as [x|] eqn:Ex; [|intros H; exfalso; apply H; reflexivity].
  destruct (negb (cp_expect (s_params x)) || negb (cp_persist (s_params x))); [intros H; exfalso; apply H; reflexivity|].
  intros Hne.
  destruct (existsb (fun o => match check_election (op_elec o) (master s) (cur s) c (s_last x) with GateOK => true | _ => false end) ops) eqn:Eex.
  - apply existsb_exists in Eex. destruct Eex as (o & Hin & Hg).
    destruct (check_election (op_elec o) (master s) (cur s) c (s_last x)) eqn:Eg; try discriminate.
    apply gate_ok_iff in Eg. destruct Eg as (e & H1 & H2 & H3 & H4). exists o. split; [exact Hin|]. exists x, e. auto.
  - exfalso. apply Hne. rewrite ops_calls_none; [reflexivity|].
    intros o Hin Hg. assert (Ht : existsb (fun o => match check_election (op_elec o) (master s) (cur s) c (s_last x) with GateOK => true | _ => false end) ops = true).
    { apply existsb_exists. exists o. rewrite Hg. auto. }
    congruence.
Qed.

(* ================================================================== *)
(* (5) Get reads the fold                                              *)
(* ================================================================== *)
Lemma flat_map_map' {A B C} (f : B -> list C) (g : A -> B) l : flat_map f (map g l) = flat_map (fun x => f (g x)) l.
Proof. induction l as [|a l IH]; cbn; [reflexivity|]. rewrite IH. reflexivity. Qed.
(* a Get of every table of every instance returns exactly the entries of the abstract state *)
Theorem srv_get_is_abs (s : ssrv) : do_get s (mk_getreq NAll A_ALL) = Some (spec_entries (abs (srib s))).
Proof.
  unfold do_get. cbn [g_aft g_ni mk_getreq]. f_equal. unfold spec_entries, abs. rewrite flat_map_map'.
  apply flat_map_ext. intros [n st]. reflexivity.
Qed.

Lemma option_map_some_inj {A B} (f : A -> B) (x : option A) (a : A) :
  (forall u w, f u = f w -> u = w) -> (option_map f x = Some (f a) <-> x = Some a).
Proof. intros Hf. destruct x as [u|]; cbn; split; intros H; try discriminate; inversion H; subst; [f_equal; auto|reflexivity]. Qed.

Lemma installed_binds (s : ssrv) g :
  installed s (mk_getreq NAll A_ALL) g <-> spec_binds (abs (srib s)) g.
Proof.
  unfold installed, in_scope. cbn [g_ni g_aft mk_getreq]. unfold spec_binds, slook.
  destruct g as [n t k p|n id p|n i p]; cbn [Wire.ge_ni]; rewrite nget_abs;
    destruct (nget n (nis (srib s))) as [st|]; cbn [option_map at_ni want tlook].
  - rewrite sp_top_tabs_of, option_map_some_inj by (intros u w H; inversion H; reflexivity).
    split; [intros (_ & st' & E & _ & H); inversion E; subst; exact H|intros H; split; [exact I|exists st; auto]].
  - split; [intros (_ & st' & E & _); discriminate|discriminate].
  - cbn [sg tabs_of]. rewrite option_map_some_inj by (intros u w H; inversion H; reflexivity).
    split; [intros (_ & st' & E & _ & H); inversion E; subst; exact H|intros H; split; [exact I|exists st; auto]].
  - split; [intros (_ & st' & E & _); discriminate|discriminate].
  - cbn [sh tabs_of]. rewrite option_map_some_inj by (intros u w H; inversion H; reflexivity).
    split; [intros (_ & st' & E & _ & H); inversion E; subst; exact H|intros H; split; [exact I|exists st; auto]].
  - split; [intros (_ & st' & E & _); discriminate|discriminate].
Qed.
Lemma spec_binds_sp_eq a b g : sp_eq a b -> (spec_binds a g <-> spec_binds b g).
Proof. intros H. destruct g; cbn [spec_binds]; rewrite (slook_sp_eq a b _ _ H); tauto. Qed.

(* at the end of every history the Get of everything succeeds, lists each key once, and lists exactly
   the bindings of the fold of the server log *)
Theorem srv_get_reads_fold nf vrfs h :
  let sf := sfinal_st (srv_init nf vrfs) h in
  exists l, do_get sf (mk_getreq NAll A_ALL) = Some l
            /\ l = spec_entries (abs (srib sf))
            /\ NoDup (map gkey l)
            /\ forall g, In g l <-> spec_binds (fold_left spec_apply (srv_log nf vrfs h) (abs (rib0 1 nf))) g.
Proof.
  cbn zeta. exists (spec_entries (abs (srib (sfinal_st (srv_init nf vrfs) h)))).
  pose proof (srv_get_is_abs (sfinal_st (srv_init nf vrfs) h)) as Hg.
  destruct (get_exact _ _ _ (srv_WF nf vrfs h) Hg) as [H1 H2].
  split; [exact Hg|]. split; [reflexivity|]. split; [exact H1|].
  intros g. rewrite H2, installed_binds. apply spec_binds_sp_eq. apply srv_state_is_fold.
Qed.

(* ================================================================== *)
(* The shape of the calls (completing the frame fact)                  *)
(* ================================================================== *)
(* each call of an operations message is the AddEntry (kind ADD / REPLACE) or DeleteEntry (kind
   DELETE) of one of its operations that passed the gate, with that operation's instance and hints *)
Definition call_of (mst : option N) (cu : option u128) (me : N) (last : option u128) (ops : list hop) (i : rinput) : Prop :=
  exists o', In o' ops /\ check_election (op_elec o') mst cu me last = GateOK
             /\ ((addk (strip o') /\ i = IAdd (op_ni o') (strip o') (hfails (op_entry o')) (hoks (op_entry o')))
                 \/ (op_kind o' = DELETE /\ i = IDel (op_ni o') (strip o'))).
Lemma ops_calls_shape mst cu me last ops : forall r, Forall (call_of mst cu me last ops) (ops_calls mst cu me last ops r).
Proof.
  induction ops as [|o tl IH]; intros r; cbn [ops_calls]; [constructor|].
  assert (Hw : forall r', Forall (call_of mst cu me last (o :: tl)) (ops_calls mst cu me last tl r')).
  { intros r'. eapply Forall_impl; [|apply IH]. intros i (o' & H1 & H2). exists o'. split; [right; exact H1|exact H2]. }
  destruct (op_ni o =? 0); [apply Hw|]. destruct (negb (has_ni r (op_ni o))); [apply Hw|].
  destruct (check_election (op_elec o) mst cu me last) eqn:Eg; [|apply Hw|constructor].
  destruct (op_kind o) eqn:Ek.
  - destruct (add_entry v_fixed _ r (op_ni o) (strip o)) as [r1 o1]. constructor.
    + exists o. split; [left; reflexivity|]. split; [exact Eg|]. left. split; [left; exact Ek|reflexivity].
    + destruct (fatal o1 || nofuel o1); [constructor|apply Hw].
  - destruct (add_entry v_fixed _ r (op_ni o) (strip o)) as [r1 o1]. constructor.
    + exists o. split; [left; reflexivity|]. split; [exact Eg|]. left. split; [right; exact Ek|reflexivity].
    + destruct (fatal o1 || nofuel o1); [constructor|apply Hw].
  - destruct (delete_entry v_fixed r (op_ni o) (strip o)) as [r1 o1]. constructor.
    + exists o. split; [left; reflexivity|]. split; [exact Eg|]. right. split; [exact Ek|reflexivity].
    + destruct (fatal o1); [constructor|apply Hw].
  - apply Hw.
Qed.
(* a step makes no RIB call, or AddEntry / DeleteEntry calls for gate-passing operations of its
   message, or exactly one Flush *)
Theorem step_calls_shape (s : ssrv) i :
  match i with
  | SIn (Msg _ c (MOps _ ops)) =>
    step_calls s i = [] \/ exists x, ssget c s = Some x /\ Forall (call_of (master s) (cur s) c (s_last x) ops) (step_calls s i)
  | SIn _ | SGet _ => step_calls s i = []
  | SFlush q => step_calls s i = [] \/ exists l, step_calls s i = [IFlush l]
  end.
Proof.
  destruct i as [x|q|q]; [destruct x as [c|c m|c|c]; try reflexivity; destruct m as [p|id|ops| |]; try reflexivity| |reflexivity].
  - cbn [step_calls]. destruct (ssget c s) as [x|]; [|left; reflexivity].
    destruct (negb (cp_expect (s_params x)) || negb (cp_persist (s_params x))); [left; reflexivity|].
    right. exists x. split; [reflexivity|apply ops_calls_shape].
  - cbn [step_calls]. destruct (check_flush (cur s) q); auto.
    destruct (f_ni q) as [| |n]; [auto|right; eauto|]. destruct (has_ni (srib s) n); [right; eauto|auto].
Qed.
