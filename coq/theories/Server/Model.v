(* Sequential model of server/server.go: session table, election state and the
   Modify receive loop, parametric in the RIB (Section variables, instantiated
   with Rib/Model.v in Server/Inst.v).  One scripted message is handled
   atomically.  No proofs in this file. *)
From Coq Require Import List NArith Bool.
From GV.Base Require Import Alist U128 Op.
Export Op.
Import ListNotations.
Open Scope N_scope.

Notation cid := N (only parsing).
Notation niname := N (only parsing).          (* 0 = the empty string *)

(* which repairs of the pinned tree are present in the modelled code *)
Record svariant := { fixF1 : bool  (* isNewMaster compares 128-bit values *);
                     fixF4 : bool  (* empty network instance: one FAILED, not two *);
                     fixF9 : bool  (* doModify stops after a fatal error *);
                     fixF17 : bool (* unknown redundancy / persistence enum numbers are rejected *) }.
Definition sv_fixed := {| fixF1 := true; fixF4 := true; fixF9 := true; fixF17 := true |}.
Definition sv_tree  := {| fixF1 := false; fixF4 := false; fixF9 := false; fixF17 := false |}.

(* SessionParameters as enum numbers: redundancy 0 = ALL_PRIMARY, 1 = SINGLE_PRIMARY;
   persistence 0 = DELETE, 1 = PRESERVE; ack 0 = RIB_ACK, 1 = RIB_AND_FIB_ACK *)
Record pmsg := { p_red : N; p_pers : N; p_ack : N }.
Record cparams := { cp_persist : bool; cp_expect : bool; cp_fib : bool }.
Definition cparams_eqb (a b : cparams) : bool :=
  Bool.eqb (cp_persist a) (cp_persist b) && Bool.eqb (cp_fib a) (cp_fib b) && Bool.eqb (cp_expect a) (cp_expect b).
Definition cp_default := {| cp_persist := false; cp_expect := false; cp_fib := false |}.
Definition cp_of (p : pmsg) : cparams :=
  {| cp_persist := p_pers p =? 1; cp_expect := p_red p =? 1; cp_fib := p_ack p =? 1 |}.

Record sess := { s_params : cparams; s_set : bool; s_last : option u128; s_gotmsg : bool }.
Definition sess0 := {| s_params := cp_default; s_set := false; s_last := None; s_gotmsg := false |}.

Inductive astatus := FAILED | RIB_PROGRAMMED | FIB_PROGRAMMED.

(* gRPC status codes and detail reasons that the server uses *)
Inductive code := OK | Unknown | InvalidArgument | FailedPrecondition | Unimplemented | Internal | OtherCode.
Inductive reason := NoDetail | R_UNKNOWN | MODIFY_NOT_ALLOWED | UNSUPPORTED_PARAMS | PARAMS_DIFFER | ELECTION_ID_IN_ALL_PRIMARY | OtherReason.

Inductive resp :=
| RParamsOK
| RElect (id : option u128)
| RResults (rs : list (N * astatus)).

Definition is_new_master (v : svariant) (cand : u128) (exist : option u128) : bool :=
  match exist with
  | None => true
  | Some e =>
    if fixF1 v then u128_leb e cand
    else (hi e <? hi cand) || (lo e <? lo cand) || ((hi cand =? hi e) && (lo cand =? lo e))
  end.

(* checkElectionForModify: what to do with one operation *)
Inductive gate := GateOK | GateFailed | GateFatal (c : code) (r : reason).
Definition check_election (op_elec : option u128) (master : option cid) (cur : option u128)
           (me : cid) (last : option u128) : gate :=
  match op_elec with
  | None => GateFatal FailedPrecondition R_UNKNOWN
  | Some oe =>
    match master, cur with
    | Some m, Some cu =>
      match last with
      | None => GateFatal FailedPrecondition R_UNKNOWN
      | Some la =>
        if negb (me =? m) then GateFailed else
        if negb (u128_eqb oe la) then GateFailed else
        match u128_cmp oe cu with
        | Gt => GateFatal FailedPrecondition NoDetail
        | Lt => GateFailed
        | Eq => GateOK
        end
      end
    | _, _ => GateFatal Internal NoDetail
    end
  end.

Section Server.
  Variable E : Type.                 (* AFT entry payload of an operation *)
  Variable R : Type.                 (* the RIB *)
  Notation op := (Op.op E).
  (* RIB interface: (new rib, oks, fails, fatal?) *)
  Variable rib_has_ni : R -> niname -> bool.
  Variable rib_add : R -> niname -> op -> R * (list N * list N * bool).
  Variable rib_del : R -> niname -> op -> R * (list N * list N * bool).

  Record srv := { ss : alist cid sess; cur : option u128; master : option cid; rib : R }.
  Definition srv0 (r : R) := {| ss := []; cur := None; master := None; rib := r |}.

  Inductive msg :=
  | MParams (p : pmsg)
  | MElect (id : u128)
  | MOps (ops : list op)
  | MMulti            (* more than one of params / election id / operation populated *)
  | MNone.            (* none populated *)

  Inductive input :=
  | Connect (c : cid)
  | Msg (c : cid) (m : msg)
  | HalfClose (c : cid)
  | Abort (c : cid).

  (* what one step emits on the session's stream, and whether/how the RPC ended *)
  Record out := { o_resps : list resp; o_end : option (code * reason) }.
  Definition out_none := {| o_resps := []; o_end := None |}.
  Definition out_end c r := {| o_resps := []; o_end := Some (c, r) |}.
  Definition out_resp x := {| o_resps := [x]; o_end := None |}.

  Definition sget (c : cid) (s : srv) := aget N.eqb c (ss s).
  Definition set_ss m (s : srv) := {| ss := m; cur := cur s; master := master s; rib := rib s |}.
  Definition set_rib r (s : srv) := {| ss := ss s; cur := cur s; master := master s; rib := r |}.
  Definition upd_sess (c : cid) (x : sess) (s : srv) := set_ss (aset N.eqb c x (ss s)) s.
  Definition drop_sess (c : cid) (s : srv) := set_ss (adel N.eqb c (ss s)) s.

  (* checkClientsConsistent: every *other* session's current params equal p *)
  Definition consistent (c : cid) (p : cparams) (s : srv) : bool :=
    forallb (fun kv => (fst kv =? c) || cparams_eqb (s_params (snd kv)) p) (ss s).

  Variable v : svariant.

  (* checkParams (server.go:556-621) then updateParams (519-540) *)
  Definition do_params (c : cid) (x : sess) (p : pmsg) (s : srv) : srv * out :=
    if s_gotmsg x then (s, out_end FailedPrecondition MODIFY_NOT_ALLOWED) else
    if (p_red p =? 0) && (p_pers p =? 1) then (s, out_end FailedPrecondition UNSUPPORTED_PARAMS) else
    if (if fixF17 v then negb (p_red p =? 1) else p_red p =? 0) then (s, out_end Unimplemented UNSUPPORTED_PARAMS) else
    if (if fixF17 v then negb (p_pers p =? 1) else p_pers p =? 0) then (s, out_end Unimplemented UNSUPPORTED_PARAMS) else
    let cp := cp_of p in
    if negb (consistent c cp s) then (s, out_end FailedPrecondition PARAMS_DIFFER) else
    if s_set x then (upd_sess c {| s_params := cp; s_set := true; s_last := s_last x; s_gotmsg := s_gotmsg x |} s,
                     out_end FailedPrecondition MODIFY_NOT_ALLOWED) else
    (upd_sess c {| s_params := cp; s_set := true; s_last := s_last x; s_gotmsg := true |} s, out_resp RParamsOK).

  (* runElection (server.go:724-764) *)
  Definition do_elect (c : cid) (x : sess) (id : u128) (s : srv) : srv * out :=
    if negb (cp_expect (s_params x)) then (s, out_end FailedPrecondition ELECTION_ID_IN_ALL_PRIMARY) else
    if u128_is_zero id then (s, out_end InvalidArgument NoDetail) else
    let s1 := upd_sess c {| s_params := s_params x; s_set := s_set x; s_last := Some id; s_gotmsg := true |} s in
    let s2 := if is_new_master v id (cur s1)
              then {| ss := ss s1; cur := Some id; master := Some c; rib := rib s1 |} else s1 in
    (s2, out_resp (RElect (cur s2))).

  Definition results_of (fib : bool) (oks fails : list N) : list (N * astatus) :=
    flat_map (fun i => if fib then [(i, RIB_PROGRAMMED); (i, FIB_PROGRAMMED)] else [(i, RIB_PROGRAMMED)]) oks
    ++ map (fun i => (i, FAILED)) fails.

  (* modifyEntry (server.go:866-961) for one operation whose network instance exists *)
  Definition modify_entry (fib : bool) (g : gate) (o : op) (r : R) : R * list resp * option (code * reason) :=
    match g with
    | GateFatal c rs => (r, [], Some (c, rs))
    | GateFailed => (r, [RResults [(op_id o, FAILED)]], None)
    | GateOK =>
      match op_kind o with
      | OTHERKIND => (r, [RResults [(op_id o, FAILED)]], None)
      | k =>
        let '(r', (oks, fails, fatal)) :=
            match k with DELETE => rib_del r (op_ni o) o | _ => rib_add r (op_ni o) o end in
        if fatal then (r', [], Some (Unimplemented, R_UNKNOWN))
        else (r', [RResults (results_of fib oks fails)], None)
      end
    end.

  (* pinned tree only (F9): after a fatal error doModify keeps looping although the RPC has
     ended; the next channel send blocks for ever, so at most one further operation that
     passes the gate reaches the RIB and nothing more is answered *)
  Definition after_fatal (fib : bool) (mst : option cid) (cu : option u128) (me : cid) (last : option u128)
             (ops : list op) (r : R) : R :=
    match ops with
    | [] => r
    | o :: _ =>
      if op_ni o =? 0 then r else
      if negb (rib_has_ni r (op_ni o)) then r else
      let '(r', _, _) := modify_entry fib (check_election (op_elec o) mst cu me last) o r in r'
    end.

  (* the loop of doModify (server.go:799-847); the election snapshot is taken once per request *)
  Fixpoint do_ops (fib : bool) (mst : option cid) (cu : option u128) (me : cid) (last : option u128)
           (ops : list op) (r : R) (acc : list resp)
    : R * list resp * option (code * reason) :=
    match ops with
    | [] => (r, acc, None)
    | o :: tl =>
      if (op_ni o =? 0) && fixF4 v then
        do_ops fib mst cu me last tl r (acc ++ [RResults [(op_id o, FAILED)]])
      else
      let pre := if op_ni o =? 0 then [RResults [(op_id o, FAILED)]] else [] in
      if negb (rib_has_ni r (op_ni o)) then
        do_ops fib mst cu me last tl r (acc ++ pre ++ [RResults [(op_id o, FAILED)]])
      else
        let '(r', rs, e) := modify_entry fib (check_election (op_elec o) mst cu me last) o r in
        match e with
        | Some err =>
          (if fixF9 v then r' else after_fatal fib mst cu me last tl r', acc ++ pre ++ rs, Some err)
        | None => do_ops fib mst cu me last tl r' (acc ++ pre ++ rs)
        end
    end.

  Definition do_modify (c : cid) (x : sess) (ops : list op) (s : srv) : srv * out :=
    if negb (cp_expect (s_params x)) || negb (cp_persist (s_params x))
    then (s, out_end Unimplemented UNSUPPORTED_PARAMS) else
    let '(r', rs, e) := do_ops (cp_fib (s_params x)) (master s) (cur s) c (s_last x) ops (rib s) [] in
    let s1 := set_rib r' s in
    let s2 := upd_sess c {| s_params := s_params x; s_set := s_set x; s_last := s_last x; s_gotmsg := true |} s1 in
    (s2, {| o_resps := rs; o_end := e |}).

  Definition step (s : srv) (i : input) : srv * out :=
    match i with
    | Connect c =>
      match sget c s with
      | Some _ => (s, out_end Internal NoDetail)
      | None => (upd_sess c sess0 s, out_none)
      end
    | HalfClose c =>
      match sget c s with
      | None => (s, out_none)
      | Some _ => (drop_sess c s, out_end OK NoDetail)
      end
    | Abort c =>
      match sget c s with
      | None => (s, out_none)
      | Some _ => (drop_sess c s, out_end Unknown NoDetail)
      end
    | Msg c m =>
      match sget c s with
      | None => (s, out_none)                 (* message on a stream that has ended: never read *)
      | Some x =>
        let '(s', o) :=
            match m with
            | MMulti => (s, out_end InvalidArgument NoDetail)
            | MNone => (s, out_end Unimplemented NoDetail)
            | MParams p => do_params c x p s
            | MElect id => do_elect c x id s
            | MOps ops => do_modify c x ops s
            end in
        match o_end o with
        | Some _ => (drop_sess c s', o)       (* deleteClient on RPC end *)
        | None => (s', o)
        end
      end
    end.

  Definition run (s : srv) (h : list input) : srv := fold_left (fun s i => fst (step s i)) h s.
  Fixpoint trace (s : srv) (h : list input) : list out :=
    match h with [] => [] | i :: tl => let '(s', o) := step s i in o :: trace s' tl end.
End Server.

Arguments ss {R}. Arguments cur {R}. Arguments master {R}. Arguments rib {R}.
