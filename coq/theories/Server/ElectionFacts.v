(* C05: election facts about the sequential server model and about the
   regenerated isNewMaster. *)
From Coq Require Import List NArith ZArith Bool Lia String.
From GV.Base Require Import Alist U128 U128Facts GoLite.
From GV.Server Require Import Model.
From GV.Generated Require Import Decisions.
Import ListNotations.
Open Scope N_scope.

(* ---------- the regenerated function against the hand-written one ---------- *)

Definition isNewMaster_env (c : u128) (e : option u128) : env :=
  [("cand"%string, u128_ptr (Some c)); ("exist"%string, u128_ptr e)].

Definition same_id (c : u128) (e : option u128) : bool :=
  match e with Some e' => u128_eqb c e' | None => false end.

Lemma leb_lex (eh el ch cl : N) :
  u128_leb (eh, el) (ch, cl) = (eh <? ch) || ((eh =? ch) && (el <=? cl)).
Proof.
  unfold u128_leb, u128_cmp, hi, lo; cbn [fst snd].
  destruct (N.compare_spec eh ch) as [->|H|H].
  - rewrite N.ltb_irrefl, N.eqb_refl. cbn [orb andb]. unfold N.leb.
    destruct (el ?= cl); reflexivity.
  - rewrite (proj2 (N.ltb_lt _ _) H). reflexivity.
  - assert (eh <? ch = false) as -> by (apply N.ltb_ge; lia).
    assert (eh =? ch = false) as -> by (apply N.eqb_neq; lia). reflexivity.
Qed.

(* split on every word comparison left in the goal, close each leaf by computation or lia;
   robust against harmless rewrites of the Go function (order of tests, >= for >, ...) *)
Ltac split_cmp :=
  repeat match goal with
         | |- context [N.ltb ?a ?b] => destruct (N.ltb_spec a b)
         | |- context [N.leb ?a ?b] => destruct (N.leb_spec a b)
         | |- context [N.eqb ?a ?b] => destruct (N.eqb_spec a b)
         end;
  cbn [orb andb negb]; try reflexivity; try (exfalso; lia).

(* The function in /repo, as serialised on this run, computes the 128-bit comparison
   and never dereferences nil. *)
Theorem gen_isNewMaster_agrees (c : u128) (e : option u128) :
  exec (isNewMaster_env c e) isNewMaster_body
  = Ret [VBool (is_new_master sv_fixed c e); VBool (same_id c e); VNil].
Proof.
  destruct c as [ch cl]. destruct e as [[eh el]|]; [|reflexivity].
  unfold is_new_master, same_id. cbn [fixF1 sv_fixed]. rewrite leb_lex.
  unfold u128_eqb, hi, lo; cbn [fst snd].
  cbv [isNewMaster_body isNewMaster_env exec run_l exec_s eval evals lookup u128_ptr String.eqb Ascii.eqb Bool.eqb bin coerce
       restore List.length Nat.sub skipn].
  split_cmp.
Qed.

Theorem is_new_master_val (c e : u128) : inrange c -> inrange e ->
  is_new_master sv_fixed c (Some e) = (val e <=? val c).
Proof. intros Hc He. cbn. apply leb_is_val; assumption. Qed.

(* the pinned tree's comparison is not the 128-bit order: (1,5) beats (2,1) *)
Theorem is_new_master_tree_refuted :
  exists c e, inrange c /\ inrange e /\ is_new_master sv_tree c (Some e) <> (val e <=? val c).
Proof. exists (1, 5), (2, 1). repeat split; vm_compute; congruence. Qed.
