(* C12 at the server: operations that never reach the RIB. *)
From Coq Require Import List NArith Bool.
From GV.Base Require Import Alist U128 Op.
From GV.Server Require Import Model.
Import ListNotations.
Open Scope N_scope.

Section M.
  Variables (E R : Type).
  Variable rib_has_ni : R -> N -> bool.
  Variable rib_add rib_del : R -> N -> op E -> R * (list N * list N * bool).

  (* an empty or unknown network instance name: one FAILED result, RIB untouched, whatever the
     election state and whatever the rest of the operation *)
  Lemma bad_instance_failed fib mst cu me last (o : op E) r acc :
    op_ni o = 0 \/ rib_has_ni r (op_ni o) = false ->
    do_ops E R rib_has_ni rib_add rib_del sv_fixed fib mst cu me last [o] r acc
    = (r, acc ++ [RResults [(op_id o, FAILED)]], None).
  Proof.
    intros H. cbn [do_ops fixF4 sv_fixed]. rewrite andb_true_r.
    destruct (N.eqb_spec (op_ni o) 0) as [E0|E0]; [reflexivity|].
    destruct H as [H|H]; [congruence|]. rewrite H. cbn [negb app]. reflexivity.
  Qed.

  (* an unsupported operation type: one FAILED result, RIB untouched *)
  Lemma other_kind_failed fib (o : op E) r :
    op_kind o = OTHERKIND ->
    modify_entry E R rib_add rib_del fib GateOK o r = (r, [RResults [(op_id o, FAILED)]], None).
  Proof. intros H. unfold modify_entry. rewrite H. reflexivity. Qed.
End M.
