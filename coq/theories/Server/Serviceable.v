(* C10(a): whatever state earlier sessions left behind (any RIB contents, any held operations, any
   learnt election id), once no session is live a fresh session can negotiate, win the election,
   have an operation programmed, read the RIB and flush it. *)
From Coq Require Import List NArith Bool Lia Permutation.
From GV.Base Require Import Alist U128 U128Facts Op.
From GV.Rib Require Import Model Lemmas RefDefs RefCount FlushFacts Run Closed.
From GV.Server Require Import Model Obs Facts Inst FlushRpc.
Import ListNotations.
Open Scope N_scope.

Lemma sget_upd_same (R : Type) c x (s : srv R) : Model.sget R c (upd_sess R c x s) = Some x.
Proof. unfold Model.sget, upd_sess, set_ss; cbn [ss]. apply aget_aset_same; apply N.eqb_spec. Qed.

(* ---------------- generic acceptance lemmas (any RIB) ---------------- *)
Section Accept.
  Variables (E R : Type).
  Variable rib_has_ni : R -> N -> bool.
  Variable rib_add rib_del : R -> N -> op E -> R * (list N * list N * bool).
  Notation step := (step E R rib_has_ni rib_add rib_del sv_fixed).

  Lemma connect_fresh (s : srv R) c : Model.sget R c s = None ->
    step s (Connect E c) = (upd_sess R c sess0 s, out_none).
  Proof. intros H. unfold Model.step. rewrite H. reflexivity. Qed.

  Lemma params_ok (s : srv R) c x p : Model.sget R c s = Some x ->
    s_gotmsg x = false -> s_set x = false -> p_red p = 1 -> p_pers p = 1 ->
    consistent R c (cp_of p) s = true ->
    step s (Msg E c (MParams E p))
    = (upd_sess R c {| s_params := cp_of p; s_set := true; s_last := s_last x; s_gotmsg := true |} s, out_resp RParamsOK).
  Proof.
    intros Hx Hg Hs Hr Hp Hc. unfold Model.step. rewrite Hx. unfold do_params. rewrite Hg, Hr, Hp, Hc, Hs. reflexivity.
  Qed.

  Lemma elect_ok (s : srv R) c x id : Model.sget R c s = Some x ->
    cp_expect (s_params x) = true -> u128_is_zero id = false -> is_new_master sv_fixed id (cur s) = true ->
    step s (Msg E c (MElect E id))
    = ({| ss := ss (upd_sess R c {| s_params := s_params x; s_set := s_set x; s_last := Some id; s_gotmsg := true |} s);
          cur := Some id; master := Some c; rib := rib s |}, out_resp (RElect (Some id))).
  Proof.
    intros Hx He Hz Hn. unfold Model.step. rewrite Hx. unfold do_elect. rewrite He, Hz. cbn [negb].
    cbn [cur upd_sess set_ss]. rewrite Hn. reflexivity.
  Qed.

  Lemma single_op_ok (s : srv R) c x (o : op E) id r' oks fails :
    Model.sget R c s = Some x -> cp_expect (s_params x) = true -> cp_persist (s_params x) = true ->
    master s = Some c -> cur s = Some id -> s_last x = Some id -> op_elec o = Some id ->
    op_ni o <> 0 -> rib_has_ni (rib s) (op_ni o) = true -> op_kind o = ADD ->
    rib_add (rib s) (op_ni o) o = (r', (oks, fails, false)) ->
    snd (step s (Msg E c (MOps E [o]))) = {| o_resps := [RResults (results_of (cp_fib (s_params x)) oks fails)]; o_end := None |}.
  Proof.
    intros Hx He Hp Hm Hc Hl Ho Hn Hh Hk Ha. unfold Model.step. rewrite Hx. unfold do_modify. rewrite He, Hp. cbn [negb orb].
    cbn [Model.do_ops]. assert ((op_ni o =? 0) = false) as -> by (apply N.eqb_neq; exact Hn). cbn [andb].
    rewrite Hh. cbn [negb]. rewrite Hm, Hc, Hl, Ho.
    assert (Hg : check_election (Some id) (Some c) (Some id) c (Some id) = GateOK).
    { apply gate_ok_iff. exists id. repeat split; reflexivity. }
    rewrite Hg. unfold Model.modify_entry. rewrite Hk, Ha. reflexivity.
  Qed.
End Accept.

(* ---------------- RIB side: a well-formed next-hop ADD is programmed at once ---------------- *)
Lemma aei_oks_prefix v ord fuel : forall st n o,
  exists rest, oks (snd (fst (aei v ord fuel st n o))) = oks (snd (fst st)) ++ rest
               /\ (fatal (snd (fst (aei v ord fuel st n o))) = fatal (snd (fst st))).
Proof.
  induction fuel as [|f IH]; intros [[r acc] stk] n o; cbn [aei fst snd].
  - exists []. rewrite app_nil_r. split; reflexivity.
  - destruct (existsb (N.eqb (op_id o)) stk); [exists []; rewrite app_nil_r; split; reflexivity|].
    destruct (try_install v r n o) as [| |r' h rv].
    + exists []. cbn. rewrite app_nil_r. split; reflexivity.
    + destruct (nofwd r); exists []; cbn; rewrite app_nil_r; split; reflexivity.
    + remember (set_pend (ndel (op_id o) (pend r')) r') as r''.
      generalize (ord (pend r'')). intros l.
      remember (r'', add_rev rv (add_hev h (add_ok n o acc)), op_id o :: stk) as st0.
      assert (H0 : exists rest, oks (snd (fst st0)) = oks acc ++ rest /\ fatal (snd (fst st0)) = fatal acc).
      { subst st0. cbn. exists [op_id o]. split; reflexivity. }
      clear Heqst0. revert st0 H0. induction l as [|e l IHl]; intros st0 H0; cbn [fold_left]; [exact H0|].
      apply IHl. destruct H0 as (rest & E1 & E2).
      destruct (IH st0 (fst (snd e)) (snd (snd e))) as (rest2 & E3 & E4).
      exists (rest ++ rest2). rewrite E3, E1, app_assoc. split; [reflexivity|congruence].
Qed.

Lemma add_nh_programmed ord (r : ribt) n id idx x el :
  has_ni r n = true -> n <> 0 -> idx <> 0 ->
  let o := mk_op id n ADD el (ENh idx (Some (mk_nh x))) in
  exists rest, oks (snd (add_entry v_fixed ord r n o)) = id :: rest /\ fatal (snd (add_entry v_fixed ord r n o)) = false.
Proof.
  intros Hn Hn0 Hidx. cbn zeta. unfold add_entry.
  assert ((n =? 0) = false) as -> by (apply N.eqb_neq; exact Hn0). rewrite Hn. cbn [orb negb mk_op op_entry].
  cbn [aei]. cbn [existsb]. unfold try_install. rewrite (has_ni_true r n Hn). cbn [mk_op op_kind op_entry].
  unfold try_add_nh. cbn [mk_nh h_bad andb]. assert ((idx =? 0) = false) as -> by (apply N.eqb_neq; exact Hidx).
  match goal with |- context [fold_left ?f ?l ?a] => remember (fold_left f l a) as res eqn:Hres end.
  assert (H : exists rest, oks (snd (fst res)) = [id] ++ rest /\ fatal (snd (fst res)) = false).
  { subst res.
    match goal with |- context [fold_left _ ?l ?a] => generalize l; intros l0; remember a as st0 end.
    assert (H0 : exists rest, oks (snd (fst st0)) = [id] ++ rest /\ fatal (snd (fst st0)) = false).
    { subst st0. cbn. exists []. split; reflexivity. }
    clear Heqst0. revert st0 H0. induction l0 as [|e l IHl]; intros st0 H0; cbn [fold_left]; [exact H0|].
    apply IHl. destruct H0 as (rest & E1 & E2).
    destruct (aei_oks_prefix v_fixed ord (length (pend r)) st0 (fst (snd e)) (snd (snd e))) as (rest2 & E3 & E4).
    exists (rest ++ rest2). rewrite E3, E1, <- app_assoc. split; [reflexivity|congruence]. }
  destruct res as [[r' acc] stk]. cbn [fst snd] in *. destruct H as (rest & E1 & E2).
  exists rest. cbn [app] in E1. auto.
Qed.

(* the order used when the implementation gave no hint is a permutation (insertion sort) *)
Lemma ins_by_perm {A} (key : A -> N) x l : Permutation (ins_by key x l) (x :: l).
Proof.
  induction l as [|y l IH]; cbn; [reflexivity|]. destruct (key x <=? key y); [reflexivity|].
  rewrite IH. apply perm_swap.
Qed.
Lemma sort_by_perm {A} (key : A -> N) l : Permutation (sort_by key l) l.
Proof. induction l as [|x l IH]; cbn; [reflexivity|]. rewrite ins_by_perm. constructor. exact IH. Qed.
Lemma canon_nil_perm l : Permutation (canon [] [] l) l.
Proof.
  unfold canon. cbn [flat_map app]. rewrite sort_by_perm.
  assert (H : forall kv : N * (N * rop), negb (memN (fst kv) ([] ++ [])) = true) by reflexivity.
  induction l as [|a l IH]; cbn; [reflexivity|]. constructor. exact IH.
Qed.

(* ---------------- the probe session ---------------- *)
Section Fresh.
  Variable s : srv ribt.
  Hypothesis Hno : ss s = [].                           (* every earlier session has gone away *)
  Hypothesis HI : INV (srib s).
  Hypothesis HP : PWF (srib s).                          (* holds in every reachable state: Closed.held_invariants *)
  Hypothesis Hd : has_ni (srib s) 1 = true.              (* the default instance exists *)
  Variables (c : N) (ack : N) (id : u128) (opid idx : N) (x : list (N * N)).
  Hypothesis Hid : u128_is_zero id = false.
  Hypothesis Hcur : match cur s with Some cu => u128_leb cu id = true | None => True end.
  Hypothesis Hidx : idx <> 0.

  Let st := sstep v_fixed sv_fixed.
  Let op := mk_hop opid 1 ADD (Some id) (ENh idx (Some (mk_nh x))) [] [].
  Let pm := {| p_red := 1; p_pers := 1; p_ack := ack |}.
  Let s1 := fst (st s (SIn (Connect hentry c))).
  Let s2 := fst (st s1 (SIn (Msg hentry c (MParams hentry pm)))).
  Let s3 := fst (st s2 (SIn (Msg hentry c (MElect hentry id)))).
  Let s4 := fst (st s3 (SIn (Msg hentry c (MOps hentry [op])))).

  Theorem fresh_session_serviced :
    snd (st s1 (SIn (Msg hentry c (MParams hentry pm)))) = OMod (mkout [RParamsOK] None)
    /\ snd (st s2 (SIn (Msg hentry c (MElect hentry id)))) = OMod (mkout [RElect (Some id)] None)
    /\ (exists rs, snd (st s3 (SIn (Msg hentry c (MOps hentry [op]))))
                   = OMod (mkout [RResults ((opid, RIB_PROGRAMMED) :: rs)] None))
    /\ (exists l, snd (st s4 (SGet (mk_getreq NAll A_ALL))) = OGet (Some l))
    /\ cur s4 = Some id.
  Proof.
    assert (Hget0 : Model.sget ribt c s = None) by (unfold Model.sget; rewrite Hno; reflexivity).
    assert (E1 : s1 = upd_sess ribt c sess0 s).
    { unfold s1, st, sstep, mstep. rewrite (connect_fresh hentry ribt r_has_ni (r_add v_fixed) (r_del v_fixed) s c Hget0). reflexivity. }
    assert (Hx1 : Model.sget ribt c s1 = Some sess0) by (rewrite E1; apply sget_upd_same).
    assert (Hc1 : consistent ribt c (cp_of pm) s1 = true).
    { rewrite E1. unfold consistent, upd_sess, set_ss; cbn [ss]. rewrite Hno. cbn. rewrite N.eqb_refl. reflexivity. }
    pose proof (params_ok hentry ribt r_has_ni (r_add v_fixed) (r_del v_fixed) s1 c sess0 pm Hx1 eq_refl eq_refl eq_refl eq_refl Hc1) as P2.
    set (x2 := {| s_params := cp_of pm; s_set := true; s_last := s_last sess0; s_gotmsg := true |}) in *.
    assert (E2 : s2 = upd_sess ribt c x2 s1) by (unfold s2, st, sstep, mstep; rewrite P2; reflexivity).
    split; [unfold st, sstep, mstep; rewrite P2; reflexivity|].
    assert (Hx2 : Model.sget ribt c s2 = Some x2) by (rewrite E2; apply sget_upd_same).
    assert (Hnm : is_new_master sv_fixed id (cur s2) = true).
    { rewrite E2, E1. cbn [cur upd_sess set_ss is_new_master fixF1 sv_fixed]. destruct (cur s); [exact Hcur|reflexivity]. }
    pose proof (elect_ok hentry ribt r_has_ni (r_add v_fixed) (r_del v_fixed) s2 c x2 id Hx2 eq_refl Hid Hnm) as P3.
    set (x3 := {| s_params := s_params x2; s_set := s_set x2; s_last := Some id; s_gotmsg := true |}) in *.
    assert (E3 : s3 = {| ss := ss (upd_sess ribt c x3 s2); cur := Some id; master := Some c; Model.rib := srib s2 |})
      by (unfold s3, st, sstep, mstep; rewrite P3; reflexivity).
    split; [unfold st, sstep, mstep; rewrite P3; reflexivity|].
    assert (Hx3 : Model.sget ribt c s3 = Some x3).
    { rewrite E3. unfold Model.sget; cbn [ss]. apply (sget_upd_same ribt c x3 s2). }
    assert (Hrib3 : srib s3 = srib s) by (rewrite E3, E2, E1; reflexivity).
    (* the operation *)
    destruct (add_nh_programmed (canon [] []) (srib s) 1 opid idx x (Some id) Hd ltac:(discriminate) Hidx) as (rest & Eo & Ef).
    cbn zeta in Eo, Ef.
    pose proof (fuel_sufficient (canon [] []) (srib s) 1 (mk_op opid 1 ADD (Some id) (ENh idx (Some (mk_nh x)))) canon_nil_perm HP) as Hnf.
    assert (Hadd : exists r' fails, r_add v_fixed (srib s3) (op_ni op) op = (r', (opid :: rest, fails, false))).
    { assert (Hs : strip op = mk_op opid 1 ADD (Some id) (ENh idx (Some (mk_nh x)))) by reflexivity.
      unfold r_add. rewrite Hrib3, Hs. change (op_ni op) with 1. change (hfails (op_entry op)) with (@nil N). change (hoks (op_entry op)) with (@nil N).
      destruct (add_entry v_fixed (canon [] []) (srib s) 1 (mk_op opid 1 ADD (Some id) (ENh idx (Some (mk_nh x))))) as [r' out].
      cbn [fst snd] in *. exists r', (GV.Rib.Model.fails out). rewrite Eo, Ef, Hnf. reflexivity. }
    destruct Hadd as (r' & fails & Hadd).
    assert (Hhas3 : r_has_ni (srib s3) (op_ni op) = true) by (unfold r_has_ni; rewrite Hrib3; exact Hd).
    pose proof (single_op_ok hentry ribt r_has_ni (r_add v_fixed) (r_del v_fixed) s3 c x3 op id r' (opid :: rest) fails
                             Hx3 eq_refl eq_refl ltac:(rewrite E3; reflexivity) ltac:(rewrite E3; reflexivity) eq_refl eq_refl
                             ltac:(discriminate) Hhas3 eq_refl Hadd) as P4.
    split.
    { unfold st, sstep, mstep. destruct (Model.step hentry ribt r_has_ni (r_add v_fixed) (r_del v_fixed) sv_fixed s3 (Msg hentry c (MOps hentry [op]))) as [sx ox].
      cbn [snd] in *. rewrite P4. rewrite Facts.results_of_shape. cbn [flat_map app].
      eexists. reflexivity. }
    assert (Hcur4 : cur s4 = Some id).
    { unfold s4, st, sstep, mstep.
      pose proof (Facts.step_frame hentry ribt r_has_ni (r_add v_fixed) (r_del v_fixed) s3 (Msg hentry c (MOps hentry [op]))) as (_ & (Hc & _) & _).
      destruct (Model.step hentry ribt r_has_ni (r_add v_fixed) (r_del v_fixed) sv_fixed s3 (Msg hentry c (MOps hentry [op]))) as [sx ox].
      cbn [fst] in *. rewrite Hc, E3. reflexivity. }
    split; [|exact Hcur4].
    unfold st, sstep, do_get. cbn [mk_getreq g_aft g_ni snd]. eexists. reflexivity.
  Qed.
End Fresh.

(* ... and its Flush with the id it announced is authorised *)
Lemma own_id_flush_authorised id n : u128_is_zero id = false ->
  check_flush (Some id) (mk_flushreq (FId id) NAll) = F_OK /\ check_flush (Some id) (mk_flushreq (FId id) (NName n)) = F_OK.
Proof.
  intros Hz. unfold check_flush, mk_flushreq; cbn [f_ni f_elec]. rewrite Hz.
  assert (u128_ltb id id = false) as ->; [|split; reflexivity].
  unfold u128_ltb. assert (u128_cmp id id = Eq) as -> by (apply Facts.u128_cmp_eq_iff; reflexivity). reflexivity.
Qed.
