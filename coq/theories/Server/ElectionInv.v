(* C05: for every history of the sequential server model, the reported election
   id is the running maximum and the primary is the latest "not lower" announcer. *)
From Coq Require Import List NArith Bool Lia.
From GV.Base Require Import Alist U128 U128Facts.
From GV.Server Require Import Model.
Import ListNotations.
Open Scope N_scope.

Section ElectionInv.
  Variables (E R : Type).
  Variable rib_has_ni : R -> N -> bool.
  Variable rib_add rib_del : R -> N -> op E -> R * (list N * list N * bool).
  Notation step := (step E R rib_has_ni rib_add rib_del sv_fixed).
  Notation srv := (srv R).

  (* abstract spec: (primary, highest id) after a list of announcements *)
  Definition ann_upd (acc : option (N * u128)) (a : N * u128) : option (N * u128) :=
    match acc with
    | None => Some a
    | Some (m, mx) => if u128_leb mx (snd a) then Some a else acc
    end.
  Definition spec_el (l : list (N * u128)) := fold_left ann_upd l None.

  Definition st_pair (s : srv) : option (N * u128) :=
    match master s, cur s with Some m, Some c => Some (m, c) | _, _ => None end.
  Definition el_ok (s : srv) : Prop := (master s = None <-> cur s = None).

  (* the announcement accepted by a step, with the id reported back *)
  Definition ann_of (i : input E) (o : out) : option (N * u128 * option u128) :=
    match i, o_resps o with
    | Msg _ c (MElect _ id), [RElect r] => Some (c, id, r)
    | _, _ => None
    end.

  Lemma cur_upd_sess c x (s : srv) : cur (upd_sess R c x s) = cur s. Proof. reflexivity. Qed.
  Lemma master_upd_sess c x (s : srv) : master (upd_sess R c x s) = master s. Proof. reflexivity. Qed.
  Lemma cur_drop c (s : srv) : cur (drop_sess R c s) = cur s. Proof. reflexivity. Qed.
  Lemma master_drop c (s : srv) : master (drop_sess R c s) = master s. Proof. reflexivity. Qed.

  Lemma do_params_el c x p (s : srv) :
    cur (fst (do_params R sv_fixed c x p s)) = cur s /\ master (fst (do_params R sv_fixed c x p s)) = master s
    /\ (forall r, o_resps (snd (do_params R sv_fixed c x p s)) <> [RElect r]).
  Proof.
    unfold do_params.
    repeat match goal with |- context [if ?b then _ else _] => destruct b end;
      cbn; repeat split; try congruence; intros r H; discriminate.
  Qed.

  Lemma do_modify_el c x ops (s : srv) :
    cur (fst (do_modify E R rib_has_ni rib_add rib_del sv_fixed c x ops s)) = cur s
    /\ master (fst (do_modify E R rib_has_ni rib_add rib_del sv_fixed c x ops s)) = master s.
  Proof.
    unfold do_modify. destruct (_ || _); [split; reflexivity|].
    destruct (do_ops _ _ _ _ _ _ _ _ _ _ _ _ _ _) as [[r' rs] e]. split; reflexivity.
  Qed.

  Lemma do_ops_no_elect fib mst cu me last ops :
    forall r acc, (forall x, In x acc -> forall id, x <> RElect id) ->
    forall x, In x (snd (fst (do_ops E R rib_has_ni rib_add rib_del sv_fixed fib mst cu me last ops r acc))) ->
    forall id, x <> RElect id.
  Proof.
    induction ops as [|o tl IH]; intros r acc Hacc; cbn [do_ops]; [exact Hacc|].
    assert (Hext : forall extra, (forall y, In y extra -> forall id, y <> RElect id) ->
                                  forall y, In y (acc ++ extra) -> forall id, y <> RElect id).
    { intros extra He y Hy. apply in_app_or in Hy. destruct Hy; [apply Hacc|apply He]; assumption. }
    destruct ((op_ni o =? 0) && fixF4 sv_fixed).
    { apply IH. apply Hext. intros y [<-|[]] id; discriminate. }
    destruct (negb (rib_has_ni r (op_ni o))).
    { apply IH. apply Hext. intros y Hy id. apply in_app_or in Hy.
      destruct Hy as [Hy|[<-|[]]]; [|discriminate].
      destruct (op_ni o =? 0); [destruct Hy as [<-|[]]; discriminate|destruct Hy]. }
    destruct (modify_entry _ _ _ _ _ _ _ _) as [[r' rs] e] eqn:Hm.
    assert (Hrs : forall y, In y rs -> forall id, y <> RElect id).
    { unfold modify_entry in Hm.
      destruct (check_election _ _ _ _ _).
      - destruct (op_kind o);
          try (destruct (rib_add _ _ _) as [r2 [[oks fails] fatal]]);
          try (destruct (rib_del _ _ _) as [r2 [[oks fails] fatal]]);
          try destruct fatal; inversion Hm; subst; intros y Hy id;
            try (destruct Hy as [<-|[]]; discriminate); try destruct Hy.
      - inversion Hm; subst. intros y [<-|[]] id; discriminate.
      - inversion Hm; subst. intros y []. }
    assert (Hpre : forall y, In y ((if op_ni o =? 0 then [RResults [(op_id o, FAILED)]] else []) ++ rs) ->
                             forall id, y <> RElect id).
    { intros y Hy id. apply in_app_or in Hy. destruct Hy as [Hy|Hy]; [|apply Hrs; assumption].
      destruct (op_ni o =? 0); [destruct Hy as [<-|[]]; discriminate|destruct Hy]. }
    destruct e.
    - cbn. apply Hext. exact Hpre.
    - apply IH. apply Hext. exact Hpre.
  Qed.

  Lemma do_modify_no_elect c x ops (s : srv) r :
    o_resps (snd (do_modify E R rib_has_ni rib_add rib_del sv_fixed c x ops s)) <> [RElect r].
  Proof.
    unfold do_modify. destruct (_ || _); [cbn; discriminate|].
    pose proof (do_ops_no_elect (cp_fib (s_params x)) (master s) (cur s) c (s_last x) ops (rib s) []) as H.
    destruct (do_ops _ _ _ _ _ _ _ _ _ _ _ _ _ _) as [[r' rs] e]. cbn in *.
    intros ->. apply (H (fun _ F => match F with end) (RElect r) (or_introl eq_refl) r). reflexivity.
  Qed.

  (* one step: an accepted announcement updates (primary, id) as the spec says and reports the
     new maximum; every other input leaves the election state alone *)
  Lemma step_el (s : srv) i : el_ok s ->
    let '(s', o) := step s i in
    el_ok s' /\
    match ann_of i o with
    | Some (c, id, r) => st_pair s' = ann_upd (st_pair s) (c, id) /\ r = option_map snd (st_pair s')
    | None => st_pair s' = st_pair s
    end.
  Proof.
    intros Hok. destruct (step s i) as [s' o] eqn:Hst.
    unfold Model.step in Hst.
    destruct i as [c|c m|c|c].
    - destruct (sget R c s); inversion Hst; subst; cbn; split; auto.
    - destruct (sget R c s) as [x|]; [|inversion Hst; subst; cbn; split; auto; destruct m; reflexivity].
      destruct m as [p|id|ops| |].
      + pose proof (do_params_el c x p s) as (Hc & Hm & Hn).
        destruct (do_params R sv_fixed c x p s) as [s1 o1]. cbn [fst snd] in *.
        assert (Hs' : cur s' = cur s /\ master s' = master s /\ o = o1).
        { destruct (o_end o1); inversion Hst; subst; cbn; auto. }
        destruct Hs' as (H1 & H2 & ->).
        split; [unfold el_ok; rewrite H1, H2; exact Hok|].
        unfold ann_of, st_pair. rewrite H1, H2. reflexivity.
      + (* election *)
        unfold do_elect in Hst.
        destruct (negb (cp_expect (s_params x))).
        { inversion Hst; subst; cbn. split; auto. }
        destruct (u128_is_zero id).
        { inversion Hst; subst; cbn. split; auto. }
        cbn [o_end out_resp] in Hst. inversion Hst; subst; clear Hst.
        cbn [ann_of o_resps out_resp].
        unfold st_pair, el_ok in *. cbn [cur master upd_sess set_ss].
        destruct (is_new_master sv_fixed id (cur s)) eqn:Hnm; cbn [cur master upd_sess set_ss].
        * split; [split; discriminate|].
          unfold ann_upd.
          destruct (master s) as [m|], (cur s) as [cu|]; cbn [snd]; cbn in Hnm;
            try rewrite Hnm; try (split; reflexivity).
          all: destruct Hok as [H1 H2]; try (specialize (H1 eq_refl); discriminate);
            try (specialize (H2 eq_refl); discriminate).
        * cbn in Hnm. destruct (cur s) as [cu|]; [|discriminate].
          destruct (master s) as [m|].
          -- split; [exact Hok|]. unfold ann_upd; cbn [snd]. cbn in Hnm. rewrite Hnm. split; reflexivity.
          -- destruct Hok as [H1 _]. specialize (H1 eq_refl). discriminate.
      + pose proof (do_modify_el c x ops s) as (Hc & Hm).
        pose proof (do_modify_no_elect c x ops s) as Hn.
        destruct (do_modify _ _ _ _ _ _ c x ops s) as [s1 o1]. cbn [fst snd] in *.
        assert (Hs' : cur s' = cur s /\ master s' = master s /\ o = o1).
        { destruct (o_end o1); inversion Hst; subst; cbn; auto. }
        destruct Hs' as (H1 & H2 & ->).
        split; [unfold el_ok; rewrite H1, H2; exact Hok|].
        unfold ann_of, st_pair. rewrite H1, H2. reflexivity.
      + inversion Hst; subst; cbn. split; auto.
      + inversion Hst; subst; cbn. split; auto.
    - destruct (sget R c s); inversion Hst; subst; cbn; split; auto.
    - destruct (sget R c s); inversion Hst; subst; cbn; split; auto.
  Qed.

  (* accepted announcements of a history, with the reported ids *)
  Fixpoint anns (s : srv) (h : list (input E)) : list (N * u128 * option u128) :=
    match h with
    | [] => []
    | i :: tl => let '(s', o) := step s i in
                 match ann_of i o with Some a => a :: anns s' tl | None => anns s' tl end
    end.

  (* ids reported = running maximum, as a list *)
  Fixpoint running (acc : option (N * u128)) (l : list (N * u128)) : list (option u128) :=
    match l with
    | [] => []
    | a :: tl => option_map snd (ann_upd acc a) :: running (ann_upd acc a) tl
    end.

  Lemma hist_el (h : list (input E)) : forall s, el_ok s ->
    let l := anns s h in
    el_ok (run E R rib_has_ni rib_add rib_del sv_fixed s h)
    /\ st_pair (run E R rib_has_ni rib_add rib_del sv_fixed s h) = fold_left ann_upd (map fst l) (st_pair s)
    /\ map snd l = running (st_pair s) (map fst l).
  Proof.
    induction h as [|i tl IH]; intros s Hok; cbn [anns run fold_left map running].
    - repeat split; auto; apply Hok.
    - pose proof (step_el s i Hok) as Hs. unfold run in *. cbn [fold_left].
      destruct (step s i) as [s' o] eqn:Hst. cbn [fst]. destruct Hs as [Hok' Hs].
      specialize (IH s' Hok'). destruct IH as (I1 & I2 & I3).
      destruct (ann_of i o) as [[[c id] r]|].
      + destruct Hs as [Hp Hr]. cbn [map fst snd fold_left running].
        rewrite <- Hp. repeat split; auto; try apply I1.
        rewrite Hr. f_equal. exact I3.
      + rewrite <- Hs. repeat split; auto; apply I1.
  Qed.
End ElectionInv.

(* ---- the abstract spec is the property's wording ---- *)

Lemma ann_upd_max acc a :
  (forall m mx, acc = Some (m, mx) -> inrange mx) -> inrange (snd a) ->
  match ann_upd acc a with
  | Some (_, mx') => val mx' = N.max (match acc with Some (_, mx) => val mx | None => 0 end) (val (snd a))
                     /\ inrange mx'
  | None => False
  end.
Proof.
  intros Hacc Ha. destruct a as [c id]. cbn [snd] in *. unfold ann_upd.
  destruct acc as [[m mx]|]; cbn [snd].
  - specialize (Hacc m mx eq_refl). rewrite leb_is_val by assumption.
    destruct (N.leb_spec (val mx) (val id)); split; auto; lia.
  - split; auto; lia.
Qed.

(* the primary changes exactly when the announced id is >= the running maximum *)
Lemma ann_upd_primary m mx c id : inrange mx -> inrange id ->
  ann_upd (Some (m, mx)) (c, id) = if val mx <=? val id then Some (c, id) else Some (m, mx).
Proof. intros H1 H2. unfold ann_upd; cbn [snd]. rewrite leb_is_val by assumption. reflexivity. Qed.
