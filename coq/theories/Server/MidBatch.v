(* C10: a request cut off by a transport failure while it is being answered.  The harness compares the
   implementation's final state with the model's after the request truncated to each of its prefixes and the
   session gone (Inst.scase_alt).  Each such continuation is an ordinary history, so everything proved about
   histories holds after it; what it preserves is stated here. *)
From Coq Require Import List NArith Bool.
From GV.Base Require Import Alist U128 Op.
From GV.Rib Require Import Model Lemmas Run RefDefs RefCount Closed.
From GV.Server Require Import Model Obs Inst Facts Compose.
Import ListNotations.
Open Scope N_scope.

Definition cut_alt (c : N) (ops : list hop) (j : nat) : list sinput :=
  [SIn (Msg hentry c (MOps hentry (firstn j ops))); SIn (Abort hentry c)].

Theorem cut_request_state nf vrfs h c ops j :
  let s0 := sfinal_st (srv_init nf vrfs) h in
  let s' := sfinal_st s0 (cut_alt c ops j) in
  INV (srib s') /\ WF (srib s') /\ ssget c s' = None
  /\ cur s' = cur s0 /\ master s' = master s0 /\ others_same ribt c s0 s'.
Proof.
  cbn zeta. split; [|split].
  - rewrite <- strace_app. apply srv_INV.
  - rewrite <- strace_app. apply srv_WF.
  - set (s0 := sfinal_st (srv_init nf vrfs) h). unfold cut_alt.
    rewrite strace_cons, strace_cons. cbn [strace snd sstep].
    set (i1 := Msg hentry c (MOps hentry (firstn j ops))).
    pose proof (step_frame hentry ribt r_has_ni (r_add v_fixed) (r_del v_fixed) s0 i1) as (_ & (A1 & A2) & A3).
    unfold mstep.
    destruct (GV.Server.Model.step hentry ribt r_has_ni (r_add v_fixed) (r_del v_fixed) sv_fixed s0 i1) as [s1 o1] eqn:E1.
    cbn [fst] in *.
    pose proof (disconnect_preserves hentry ribt r_has_ni (r_add v_fixed) (r_del v_fixed) s1 c) as (_ & _ & _ & _ & _ & B1 & B2 & B3 & B4 & B5).
    destruct (GV.Server.Model.step hentry ribt r_has_ni (r_add v_fixed) (r_del v_fixed) sv_fixed s1 (Abort hentry c)) as [s2 o2] eqn:E2.
    cbn [fst] in *.
    subst i1. cbn beta iota in A3. repeat split; try congruence. eapply others_trans; eauto.
Qed.
