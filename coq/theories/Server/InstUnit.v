(* The server model over a trivial RIB: only network instance 1 exists and every
   ADD/REPLACE/DELETE succeeds.  Used where only the election gate matters (C05). *)
From Coq Require Import List NArith Bool.
From GV.Base Require Import U128.
From GV.Server Require Import Model Obs.
Import ListNotations.
Open Scope N_scope.

Definition u_has_ni (_ : unit) (n : N) : bool := n =? 1.
Definition u_apply (r : unit) (_ : N) (o : op unit) : unit * (list N * list N * bool) := (r, ([op_id o], [], false)).

Notation uinput := (input unit).
Definition ustep := step unit unit u_has_ni u_apply u_apply sv_fixed.
Definition utrace := trace unit unit u_has_ni u_apply u_apply sv_fixed.
Definition usrv0 : srv unit := srv0 unit tt.

Definition uConnect c : uinput := Connect unit c.
Definition uParams c red pers ack : uinput := Msg unit c (MParams unit {| p_red := red; p_pers := pers; p_ack := ack |}).
Definition uElect c id : uinput := Msg unit c (MElect unit id).
Definition uProbe c (id : N) (stamp : option u128) : uinput :=
  Msg unit c (MOps unit [{| op_id := id; op_ni := 1; op_kind := ADD; op_elec := stamp; op_entry := tt |}]).
Definition uClose c : uinput := HalfClose unit c.
Definition uAbort c : uinput := Abort unit c.

(* a case: history and what the implementation answered at each step *)
Definition ucase := (list uinput * list out)%type.
Definition ucase_ok (c : ucase) : bool := list_eqb out_eqb (utrace usrv0 (fst c)) (snd c).
Definition umismatches (cs : list ucase) : list N := bad_indices ucase_ok cs 0.
