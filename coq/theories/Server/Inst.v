(* The sequential server model instantiated with the RIB model, plus the Flush and Get RPCs.
   Operations carry, besides their entry, the cascade-order hint reconstructed from what the
   implementation answered (see Rib/Run.v canon); the hint never reaches the RIB state.
   No proofs in this file. *)
From Coq Require Import List NArith Bool.
From GV.Base Require Import Alist U128 Op.
From GV.Rib Require Import Model Run.
From GV.Server Require Import Model Obs.
Import ListNotations.
Open Scope N_scope.

Notation ribt := GV.Rib.Model.rib (only parsing).      (* the RIB type *)
Notation srib := GV.Server.Model.rib (only parsing).   (* the server's RIB field *)

Record hentry := { he : entry; hfails : list N; hoks : list N }.
Notation hop := (op hentry).
Definition strip (o : hop) : rop :=
  {| op_id := op_id o; op_ni := op_ni o; op_kind := op_kind o; op_elec := op_elec o; op_entry := he (op_entry o) |}.
Definition mk_hop (id n : N) (k : okind) (el : option u128) (e : entry) (hf ho : list N) : hop :=
  {| op_id := id; op_ni := n; op_kind := k; op_elec := el; op_entry := {| he := e; hfails := hf; hoks := ho |} |}.

Section WithVariants.
  Variable rv : variant.       (* RIB variant *)
  Variable sv : svariant.      (* server variant *)

  Definition r_has_ni (r : ribt) (n : N) : bool := has_ni r n.
  Definition r_add (r : ribt) (n : N) (o : hop) : ribt * (list N * list N * bool) :=
    let '(r', out) := add_entry rv (canon (hfails (op_entry o)) (hoks (op_entry o))) r n (strip o) in
    (r', (oks out, fails out, fatal out || nofuel out)).
  Definition r_del (r : ribt) (n : N) (o : hop) : ribt * (list N * list N * bool) :=
    let '(r', out) := delete_entry rv r n (strip o) in (r', (oks out, fails out, fatal out)).

  Notation ssrv := (srv ribt).
  Definition mstep := step hentry ribt r_has_ni r_add r_del sv.

  (* ---- Flush (server.go:443-482, checkFlushRequest 1106-1155) ---- *)
  Inductive felec := FNone | FOverride | FId (id : u128).
  Inductive fni := NNone | NAll | NName (n : N).
  Record flushreq := { f_elec : felec; f_ni : fni }.
  Inductive fstatus :=
  | F_OK
  | F_UNSPECIFIED_NETWORK_INSTANCE | F_UNSPECIFIED_ELECTION_BEHAVIOR | F_ELECTION_ID_IN_ALL_PRIMARY
  | F_INVALID_ELECTION_ID | F_NOT_PRIMARY | F_INVALID_NETWORK_INSTANCE | F_INTERNAL.

  Definition check_flush (cu : option u128) (q : flushreq) : fstatus :=
    match f_ni q with
    | NNone => F_UNSPECIFIED_NETWORK_INSTANCE
    | _ =>
      match f_elec q, cu with
      | FOverride, _ => F_OK
      | FNone, None => F_OK
      | FNone, Some _ => F_UNSPECIFIED_ELECTION_BEHAVIOR
      | FId _, None => F_ELECTION_ID_IN_ALL_PRIMARY
      | FId id, Some c =>
        if u128_is_zero id then F_INVALID_ELECTION_ID
        else if u128_ltb id c then F_NOT_PRIMARY else F_OK
      end
    end.

  Definition do_flush (s : ssrv) (q : flushreq) : ssrv * fstatus :=
    match check_flush (cur s) q with
    | F_OK =>
      let targets := match f_ni q with
                     | NAll => Some (map fst (nis (srib s)))
                     | NName n => if has_ni (srib s) n then Some [n] else None
                     | NNone => None
                     end in
      match targets with
      | None => (s, F_INVALID_NETWORK_INSTANCE)
      | Some l => let '(r', _, err) := flush rv l (srib s) in
                  (set_rib ribt r' s, if err then F_INTERNAL else F_OK)
      end
    | st => (s, st)
    end.

  (* ---- Get (server.go:405-440, doGet 1049-1092, GetRIB rib.go:2268-2409) ---- *)
  Inductive aft := A_ALL | A_IPV4 | A_IPV6 | A_MPLS | A_NHG | A_NH | A_OTHER.
  Record getreq := { g_ni : fni; g_aft : aft }.
  Inductive gentry := GTop (n : N) (t : tkind) (k : N) (p : top) | GGrp (n : N) (id : N) (p : grp) | GNh (n : N) (idx : N) (p : nhp).

  Definition want (a : aft) (x : aft) : bool :=
    match a, x with
    | A_ALL, _ => true
    | A_IPV4, A_IPV4 | A_IPV6, A_IPV6 | A_MPLS, A_MPLS | A_NHG, A_NHG | A_NH, A_NH => true
    | _, _ => false
    end.
  Definition get_ni (a : aft) (n : N) (s : nistate) : list gentry :=
    (if want a A_IPV4 then map (fun kv => GTop n T4 (fst kv) (snd kv)) (tab4 s) else [])
    ++ (if want a A_IPV6 then map (fun kv => GTop n T6 (fst kv) (snd kv)) (tab6 s) else [])
    ++ (if want a A_MPLS then map (fun kv => GTop n TL (fst kv) (snd kv)) (tabl s) else [])
    ++ (if want a A_NHG then map (fun kv => GGrp n (fst kv) (snd kv)) (tabg s) else [])
    ++ (if want a A_NH then map (fun kv => GNh n (fst kv) (snd kv)) (tabh s) else []).
  (* None = the RPC fails (every failure surfaces as Internal) *)
  Definition do_get (s : ssrv) (q : getreq) : option (list gentry) :=
    match g_aft q with
    | A_OTHER => None
    | a =>
      match g_ni q with
      | NNone => Some []
      | NName n => if n =? 0 then None else
                   match nget n (nis (srib s)) with Some st => Some (get_ni a n st) | None => None end
      | NAll => Some (flat_map (fun kv => get_ni a (fst kv) (snd kv)) (nis (srib s)))
      end
    end.

  Inductive sinput :=
  | SIn (i : input hentry)
  | SFlush (q : flushreq)
  | SGet (q : getreq).

  Inductive sout :=
  | OMod (o : out)
  | OFlush (st : fstatus)
  | OGet (res : option (list gentry))
  | OAny.   (* an observation that is not compared (a Get that was cut off part-way) *)

  Definition sstep (s : ssrv) (i : sinput) : ssrv * sout :=
    match i with
    | SIn x => let '(s', o) := mstep s x in (s', OMod o)
    | SFlush q => let '(s', st) := do_flush s q in (s', OFlush st)
    | SGet q => (s, OGet (do_get s q))
    end.

  Fixpoint strace (s : ssrv) (h : list sinput) : list sout * ssrv :=
    match h with
    | [] => ([], s)
    | i :: tl => let '(s', o) := sstep s i in let '(os, sf) := strace s' tl in (o :: os, sf)
    end.
End WithVariants.

Definition mk_flushreq e n := {| f_elec := e; f_ni := n |}.
Definition mk_getreq n a := {| g_ni := n; g_aft := a |}.

(* ---- comparing with the implementation ---- *)
Definition fstatus_eqb (a b : fstatus) : bool :=
  match a, b with
  | F_OK, F_OK | F_UNSPECIFIED_NETWORK_INSTANCE, F_UNSPECIFIED_NETWORK_INSTANCE
  | F_UNSPECIFIED_ELECTION_BEHAVIOR, F_UNSPECIFIED_ELECTION_BEHAVIOR
  | F_ELECTION_ID_IN_ALL_PRIMARY, F_ELECTION_ID_IN_ALL_PRIMARY | F_INVALID_ELECTION_ID, F_INVALID_ELECTION_ID
  | F_NOT_PRIMARY, F_NOT_PRIMARY | F_INVALID_NETWORK_INSTANCE, F_INVALID_NETWORK_INSTANCE | F_INTERNAL, F_INTERNAL => true
  | _, _ => false
  end.
Definition tkn (t : tkind) : N := match t with T4 => 1 | T6 => 2 | TL => 3 end.
(* Get results are compared as sorted lists: (instance, kind, key) then payload *)
Definition gkey (g : gentry) : N * N * N :=
  match g with GTop n t k _ => (n, tkn t, k) | GGrp n id _ => (n, 4, id) | GNh n i _ => (n, 5, i) end.
Definition gkey_leb (a b : N * N * N) : bool :=
  let '(a1, a2, a3) := a in let '(b1, b2, b3) := b in
  (a1 <? b1) || ((a1 =? b1) && ((a2 <? b2) || ((a2 =? b2) && (a3 <=? b3)))).
Fixpoint gins (x : gentry) (l : list gentry) : list gentry :=
  match l with [] => [x] | y :: tl => if gkey_leb (gkey x) (gkey y) then x :: l else y :: gins x tl end.
Definition gsort (l : list gentry) : list gentry := fold_right gins [] l.
Definition gentry_eqb (a b : gentry) : bool :=
  match a, b with
  | GTop n t k p, GTop n' t' k' p' => (n =? n') && (tkn t =? tkn t') && (k =? k') && top_eqb p p'
  | GGrp n i p, GGrp n' i' p' => (n =? n') && (i =? i') && grp_eqb p p'
  | GNh n i p, GNh n' i' p' => (n =? n') && (i =? i') && nhp_eqb p p'
  | _, _ => false
  end.
Definition sout_eqb (a b : sout) : bool :=
  match a, b with
  | OMod x, OMod y => out_eqb x y
  | OFlush x, OFlush y => fstatus_eqb x y
  | OGet None, OGet None => true
  | OGet (Some x), OGet (Some y) => Run.list_eqb gentry_eqb (gsort x) (gsort y)
  | _, OAny => true
  | _, _ => false
  end.

(* final observation: tables + counters, held ids, highest election id, primary session *)
Record sfinal := { sf_state : amap obs_ni; sf_pend : list N; sf_cur : option u128; sf_master : option N }.
Definition mk_sfinal a b c d := {| sf_state := a; sf_pend := b; sf_cur := c; sf_master := d |}.
Definition sfinal_of (s : srv ribt) : sfinal :=
  {| sf_state := state_obs (srib s); sf_pend := pend_ids (srib s); sf_cur := cur s; sf_master := master s |}.
Definition sfinal_eqb (a b : sfinal) : bool :=
  state_eqb (sf_state a) (sf_state b) && Run.list_eqb N.eqb (sf_pend a) (sf_pend b)
  && opt_eqb u128_eqb (sf_cur a) (sf_cur b) && opt_eqb N.eqb (sf_master a) (sf_master b).

(* a case: forward references disabled?, extra instances created at start, history, per-step outputs, final *)
Record scase := { sc_nofwd : bool; sc_vrfs : list N; sc_hist : list sinput; sc_outs : list sout; sc_final : sfinal }.
Definition mk_scase a b c d e := {| sc_nofwd := a; sc_vrfs := b; sc_hist := c; sc_outs := d; sc_final := e |}.
Definition srv_init (nofwd : bool) (vrfs : list N) : srv ribt :=
  srv0 ribt (fold_left (fun r n => add_network_instance v_fixed n r) vrfs (rib0 1 nofwd)).
Definition scase_ok_v (rv : variant) (sv : svariant) (c : scase) : bool :=
  let '(os, sf) := strace rv sv (srv_init (sc_nofwd c) (sc_vrfs c)) (sc_hist c) in
  Run.list_eqb sout_eqb os (sc_outs c) && sfinal_eqb (sfinal_of sf) (sc_final c).
Definition smismatches (cs : list scase) : list N := Run.bad_indices (scase_ok_v v_fixed sv_fixed) cs 0.
Definition smismatches_tree (cs : list scase) : list N := Run.bad_indices (scase_ok_v v_tree sv_tree) cs 0.
Definition smodel (c : scase) :=
  let '(os, sf) := strace v_fixed sv_fixed (srv_init (sc_nofwd c) (sc_vrfs c)) (sc_hist c) in (os, sfinal_of sf).

(* A history whose last request was cut off by a transport failure while it was being answered.  How many of its
   operations the server applies before it notices is a matter of goroutine timing; the implementation's final state
   must be the model's after ONE of the listed continuations (the harness lists: the request truncated to each of
   its prefixes, then the session gone).  No alternatives = an ordinary case. *)
Record scase_alt := { sa_case : scase; sa_alts : list (list sinput) }.
Definition mk_scase_alt a b := {| sa_case := a; sa_alts := b |}.
Definition scase_alt_ok_v (rv : variant) (sv : svariant) (c : scase_alt) : bool :=
  let k := sa_case c in
  let '(os, sf) := strace rv sv (srv_init (sc_nofwd k) (sc_vrfs k)) (sc_hist k) in
  Run.list_eqb sout_eqb os (sc_outs k) &&
  match sa_alts c with
  | [] => sfinal_eqb (sfinal_of sf) (sc_final k)
  | alts => existsb (fun alt => sfinal_eqb (sfinal_of (snd (strace rv sv sf alt))) (sc_final k)) alts
  end.
Definition samismatches (cs : list scase_alt) : list N := Run.bad_indices (scase_alt_ok_v v_fixed sv_fixed) cs 0.
