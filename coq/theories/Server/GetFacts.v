(* Facts about the Get model (Server/Inst.v do_get / get_ni), its wire form (Codec/Wire.v) and the
   model of rib.FromGetResponses. *)
From Coq Require Import List NArith Bool Lia Permutation.
From GV.Base Require Import Alist U128 Op.
From GV.Rib Require Import Model Lemmas Run Refine.
From GV.Server Require Import Model Obs Inst.
From GV.Codec Require Import Fields Wire Roundtrip.
From GV.Generated Require Import CodecTable.
Import ListNotations.
Open Scope N_scope.

(* ---- generic list facts ---- *)
Lemma In_if_map {A B} (b : bool) (f : A -> B) (l : list A) (y : B) :
  In y (if b then map f l else []) <-> b = true /\ exists x, In x l /\ y = f x.
Proof.
  destruct b; cbn.
  - rewrite in_map_iff. split.
    + intros (x & <- & Hx). split; [reflexivity|exists x; auto].
    + intros (_ & x & Hx & ->). exists x; auto.
  - split; [tauto|intros [H _]; discriminate].
Qed.

Lemma NoDup_app_intro {A} (l1 l2 : list A) :
  NoDup l1 -> NoDup l2 -> (forall x, In x l1 -> In x l2 -> False) -> NoDup (l1 ++ l2).
Proof.
  induction l1 as [|a l1 IH]; cbn; intros H1 H2 Hd; [exact H2|].
  inversion H1 as [|? ? Hn H1']; subst. constructor.
  - rewrite in_app_iff. intros [H|H]; [tauto|]. eapply Hd; [left; reflexivity|exact H].
  - apply IH; auto. intros x Hx Hx2. eapply Hd; [right; exact Hx|exact Hx2].
Qed.

Lemma NoDup_map_inj {A B} (f : A -> B) (l : list A) :
  (forall x y, f x = f y -> x = y) -> NoDup l -> NoDup (map f l).
Proof.
  intros Hinj H. induction H as [|a l Hn H IH]; cbn; constructor; auto.
  rewrite in_map_iff. intros (x & He & Hx). apply Hinj in He. subst. tauto.
Qed.

Lemma map_flat_map {A B C} (f : B -> C) (g : A -> list B) (l : list A) :
  map f (flat_map g l) = flat_map (fun a => map f (g a)) l.
Proof. induction l as [|a l IH]; cbn; [reflexivity|]. rewrite map_app, IH. reflexivity. Qed.

Lemma NoDup_flat_map_tagged {A B} (f : A -> list B) (tag : B -> N) (key : A -> N) (l : list A) :
  NoDup (map key l) -> (forall a, In a l -> NoDup (f a)) ->
  (forall a b, In a l -> In b (f a) -> tag b = key a) -> NoDup (flat_map f l).
Proof.
  induction l as [|a l IH]; cbn; intros Hk Hf Ht; [constructor|].
  inversion Hk as [|? ? Hn Hk']; subst.
  apply NoDup_app_intro.
  - apply Hf; left; reflexivity.
  - apply IH; auto.
  - intros x Hx Hx2. apply in_flat_map in Hx2. destruct Hx2 as (a' & Ha' & Hxa').
    apply Hn. rewrite in_map_iff. exists a'. split; [|exact Ha'].
    rewrite <- (Ht a x (or_introl eq_refl) Hx). symmetry. apply Ht; auto.
Qed.

Lemma flat_map_app_perm {A B} (f g : A -> list B) (l : list A) :
  Permutation (flat_map (fun x => f x ++ g x) l) (flat_map f l ++ flat_map g l).
Proof.
  induction l as [|a l IH]; cbn; [constructor|].
  rewrite IH. rewrite <- !app_assoc. apply Permutation_app_head.
  rewrite !app_assoc. apply Permutation_app_tail. apply Permutation_app_comm.
Qed.

(* with distinct keys, membership of a binding is lookup *)
Lemma In_nget {V} (l : amap V) k v : wf l -> (In (k, v) l <-> nget k l = Some v).
Proof.
  intros Hwf. split.
  - unfold wf, keys in Hwf. unfold nget, aget. induction l as [|[k' v'] l IH]; cbn; [tauto|].
    inversion Hwf as [|? ? Hn Hwf']; subst. intros [H|H].
    + inversion H; subst. rewrite N.eqb_refl. reflexivity.
    + destruct (N.eqb_spec k k') as [->|Hne]; cbn.
      * exfalso. apply Hn. change k' with (fst (k', v)). apply in_map. exact H.
      * apply IH; auto.
  - unfold nget. apply aget_in. auto.
Qed.

(* ---- what one instance contributes ---- *)
Definition at_ni (a : aft) (st : nistate) (g : gentry) : Prop :=
  match g with
  | GTop _ t k p => want a (aft_of t) = true /\ nget k (get_top t st) = Some p
  | GGrp _ id p => want a A_NHG = true /\ nget id (tabg st) = Some p
  | GNh _ i p => want a A_NH = true /\ nget i (tabh st) = Some p
  end.
Definition in_ni (a : aft) (st : nistate) (g : gentry) : Prop :=
  match g with
  | GTop _ t k p => want a (aft_of t) = true /\ In (k, p) (get_top t st)
  | GGrp _ id p => want a A_NHG = true /\ In (id, p) (tabg st)
  | GNh _ i p => want a A_NH = true /\ In (i, p) (tabh st)
  end.

Lemma get_ni_In a n st g : In g (get_ni a n st) <-> ge_ni g = n /\ in_ni a st g.
Proof.
  unfold get_ni. rewrite !in_app_iff, !In_if_map. split.
  - intros [H|[H|[H|[H|H]]]]; destruct H as (Hw & [k p] & Hin & ->); cbn; auto.
  - destruct g as [n' t k p|n' id p|n' i p]; cbn; intros (-> & Hw & Hin).
    + destruct t; [left|right; left|right; right; left]; (split; [exact Hw|exists (k, p); auto]).
    + right; right; right; left. split; [exact Hw|exists (id, p); auto].
    + right; right; right; right. split; [exact Hw|exists (i, p); auto].
Qed.

Lemma in_ni_at_ni a st g : wf_ni st -> (in_ni a st g <-> at_ni a st g).
Proof.
  intros Hwf. pose proof Hwf as (H4 & H6 & HL & HG & HH & _).
  destruct g as [n t k p|n id p|n i p]; cbn.
  - rewrite (In_nget (get_top t st) k p (wf_get_top t st Hwf)). tauto.
  - rewrite (In_nget (tabg st) id p HG). tauto.
  - rewrite (In_nget (tabh st) i p HH). tauto.
Qed.

(* keys of what one instance contributes *)
Definition keysof (n c : N) {V} (l : amap V) : list (N * N * N) := map (fun k => (n, c, k)) (map fst l).
Lemma gkeys_get_ni a n st :
  map gkey (get_ni a n st) =
  (if want a A_IPV4 then keysof n 1 (tab4 st) else []) ++ (if want a A_IPV6 then keysof n 2 (tab6 st) else [])
  ++ (if want a A_MPLS then keysof n 3 (tabl st) else []) ++ (if want a A_NHG then keysof n 4 (tabg st) else [])
  ++ (if want a A_NH then keysof n 5 (tabh st) else []).
Proof.
  unfold get_ni, keysof. rewrite !map_app.
  destruct (want a A_IPV4), (want a A_IPV6), (want a A_MPLS), (want a A_NHG), (want a A_NH);
    cbn [map]; rewrite ?map_map; reflexivity.
Qed.
Lemma In_keysof (b : bool) n c {V} (l : amap V) x :
  In x (if b then keysof n c l else []) -> fst (fst x) = n /\ snd (fst x) = c.
Proof.
  destruct b; [|intros []]. unfold keysof. rewrite in_map_iff. intros (k & <- & _). auto.
Qed.
Lemma NoDup_keysof (b : bool) n c {V} (l : amap V) : wf l -> NoDup (if b then keysof n c l else []).
Proof.
  intros H. destruct b; [|constructor]. unfold keysof. apply NoDup_map_inj; [|exact H].
  intros x y E. inversion E. reflexivity.
Qed.

Lemma get_ni_nodup a n st : wf_ni st -> NoDup (map gkey (get_ni a n st)).
Proof.
  intros (H4 & H6 & HL & HG & HH & _). rewrite gkeys_get_ni.
  repeat (apply NoDup_app_intro; [apply NoDup_keysof; assumption| |
    let x := fresh "x" in let Hx := fresh "Hx" in let Hy := fresh "Hy" in
    intros x Hx Hy; apply In_keysof in Hx; destruct Hx as [_ Hx];
    repeat (rewrite in_app_iff in Hy; destruct Hy as [Hy|Hy]; [apply In_keysof in Hy; destruct Hy as [_ Hy]; congruence|]);
    apply In_keysof in Hy; destruct Hy as [_ Hy]; congruence]).
  apply NoDup_keysof; assumption.
Qed.
Lemma get_ni_tag a n st x : In x (map gkey (get_ni a n st)) -> fst (fst x) = n.
Proof.
  rewrite in_map_iff. intros (g & <- & Hg). apply get_ni_In in Hg. destruct Hg as [<- _].
  destruct g; reflexivity.
Qed.

(* ---- the request as a whole ---- *)
Definition in_scope (q : getreq) (n : N) : Prop :=
  match g_ni q with NNone => False | NAll => True | NName m => n = m end.
(* g is an installed entry of the request's scope, with its stored payload *)
Definition installed (s : srv ribt) (q : getreq) (g : gentry) : Prop :=
  in_scope q (ge_ni g) /\ exists st, nget (ge_ni g) (nis (srib s)) = Some st /\ at_ni (g_aft q) st g.
(* the request is one the server answers: a supported table, and a known, non-empty instance name *)
Definition req_ok (s : srv ribt) (q : getreq) : Prop :=
  g_aft q <> A_OTHER /\ match g_ni q with NName n => n <> 0 /\ has_ni (srib s) n = true | _ => True end.

Lemma do_get_eq (s : srv ribt) q : g_aft q <> A_OTHER ->
  do_get s q = match g_ni q with
               | NNone => Some []
               | NName n => if n =? 0 then None else
                            match nget n (nis (srib s)) with Some st => Some (get_ni (g_aft q) n st) | None => None end
               | NAll => Some (flat_map (fun kv => get_ni (g_aft q) (fst kv) (snd kv)) (nis (srib s)))
               end.
Proof. unfold do_get. destruct (g_aft q); try reflexivity. congruence. Qed.

Theorem get_errors (s : srv ribt) q : do_get s q = None <-> ~ req_ok s q.
Proof.
  unfold req_ok. destruct (match g_aft q with A_OTHER => true | _ => false end) eqn:Ea.
  - assert (E : g_aft q = A_OTHER) by (destruct (g_aft q); try discriminate; reflexivity).
    unfold do_get. rewrite E. split; [intros _ [H _]; congruence|reflexivity].
  - assert (E : g_aft q <> A_OTHER) by (intros E; rewrite E in Ea; discriminate).
    rewrite (do_get_eq s q E). destruct (g_ni q) as [| |n].
    + split; [discriminate|intros H; exfalso; apply H; auto].
    + split; [discriminate|intros H; exfalso; apply H; auto].
    + unfold has_ni, nmem. destruct (N.eqb_spec n 0) as [->|Hn].
      * split; [intros _ (_ & H & _); congruence|reflexivity].
      * destruct (nget n (nis (srib s))).
        -- split; [discriminate|intros H; exfalso; apply H; auto].
        -- split; [intros _ (_ & _ & H); discriminate|reflexivity].
Qed.

Theorem get_exact (s : srv ribt) q l : WF (srib s) -> do_get s q = Some l ->
  NoDup (map gkey l) /\ forall g, In g l <-> installed s q g.
Proof.
  intros (Hnis & _ & Hni) Hget.
  assert (Ea : g_aft q <> A_OTHER).
  { intros E. unfold do_get in Hget. rewrite E in Hget. discriminate. }
  rewrite (do_get_eq s q Ea) in Hget. unfold installed, in_scope.
  destruct (g_ni q) as [| |n].
  - inversion Hget; subst. split; [constructor|]. intros g. split; [intros []|tauto].
  - inversion Hget; subst; clear Hget. split.
    + rewrite map_flat_map.
      apply (NoDup_flat_map_tagged _ (fun x => fst (fst x)) fst); [exact Hnis| |].
      * intros [n st] Hin. apply get_ni_nodup. apply (Hni n st). apply In_nget; assumption.
      * intros [n st] x _ Hx. eapply get_ni_tag. exact Hx.
    + intros g. rewrite in_flat_map. split.
      * intros ([n st] & Hin & Hg). cbn [fst snd] in Hg. apply get_ni_In in Hg. destruct Hg as [<- Hg].
        apply In_nget in Hin; [|assumption]. split; [exact I|]. exists st. split; [exact Hin|].
        apply in_ni_at_ni; [eapply Hni; eauto|exact Hg].
      * intros (_ & st & Hst & Hg). exists (ge_ni g, st). split; [apply In_nget; assumption|].
        cbn [fst snd]. apply get_ni_In. split; [reflexivity|]. apply in_ni_at_ni; [eapply Hni; eauto|exact Hg].
  - destruct (n =? 0); [discriminate|]. destruct (nget n (nis (srib s))) as [st|] eqn:Est; [|discriminate].
    inversion Hget; subst; clear Hget. split; [apply get_ni_nodup; eapply Hni; eauto|].
    intros g. rewrite get_ni_In. split.
    + intros (<- & Hg). split; [reflexivity|]. exists st. split; [exact Est|]. apply in_ni_at_ni; [eapply Hni; eauto|exact Hg].
    + intros (-> & st' & Hst' & Hg). rewrite Est in Hst'. inversion Hst'; subst. split; [reflexivity|].
      apply in_ni_at_ni; [eapply Hni; eauto|exact Hg].
Qed.

(* an empty scope is answered with an empty OK stream *)
Lemma get_no_instance (s : srv ribt) a : a <> A_OTHER -> do_get s (mk_getreq NNone a) = Some [].
Proof. intros H. rewrite do_get_eq; [reflexivity|exact H]. Qed.
Lemma get_empty_tables (s : srv ribt) q l : WF (srib s) -> do_get s q = Some l ->
  (forall g, ~ installed s q g) -> l = [].
Proof.
  intros Hwf Hget Hno. destruct l as [|g l]; [reflexivity|]. exfalso. apply (Hno g).
  apply (get_exact s q (g :: l) Hwf Hget). left; reflexivity.
Qed.

(* ---- Get(ALL) and the five per-table Gets ---- *)
Definition gkind (g : gentry) : N := snd (fst (gkey g)).
Definition acode (a : aft) : N :=
  match a with A_IPV4 => 1 | A_IPV6 => 2 | A_MPLS => 3 | A_NHG => 4 | A_NH => 5 | A_ALL => 0 | A_OTHER => 6 end.
Definition five : list aft := [A_IPV4; A_IPV6; A_MPLS; A_NHG; A_NH].
Definition with_aft (q : getreq) (a : aft) : getreq := mk_getreq (g_ni q) a.

Lemma get_ni_all n st :
  get_ni A_ALL n st = get_ni A_IPV4 n st ++ get_ni A_IPV6 n st ++ get_ni A_MPLS n st ++ get_ni A_NHG n st ++ get_ni A_NH n st.
Proof. unfold get_ni. cbn [want app]. rewrite !app_nil_r. reflexivity. Qed.

Theorem all_is_union (s : srv ribt) q l : g_aft q = A_ALL -> do_get s q = Some l ->
  exists l4 l6 lm lg lh,
    do_get s (with_aft q A_IPV4) = Some l4 /\ do_get s (with_aft q A_IPV6) = Some l6 /\
    do_get s (with_aft q A_MPLS) = Some lm /\ do_get s (with_aft q A_NHG) = Some lg /\
    do_get s (with_aft q A_NH) = Some lh /\ Permutation l (l4 ++ l6 ++ lm ++ lg ++ lh).
Proof.
  intros Ea Hget. rewrite do_get_eq in Hget by (rewrite Ea; discriminate). rewrite Ea in Hget.
  unfold with_aft. rewrite !do_get_eq by (cbn; discriminate). cbn [g_ni g_aft mk_getreq].
  destruct (g_ni q) as [| |n].
  - inversion Hget; subst. exists [], [], [], [], []. repeat split; constructor.
  - inversion Hget; subst; clear Hget. do 5 eexists. repeat (split; [reflexivity|]).
    rewrite (flat_map_ext _ _ (fun kv => get_ni_all (fst kv) (snd kv))).
    etransitivity; [apply (flat_map_app_perm (fun kv => get_ni A_IPV4 (fst kv) (snd kv)))|]. apply Permutation_app_head.
    etransitivity; [apply (flat_map_app_perm (fun kv => get_ni A_IPV6 (fst kv) (snd kv)))|]. apply Permutation_app_head.
    etransitivity; [apply (flat_map_app_perm (fun kv => get_ni A_MPLS (fst kv) (snd kv)))|]. apply Permutation_app_head.
    apply (flat_map_app_perm (fun kv => get_ni A_NHG (fst kv) (snd kv))).
  - destruct (n =? 0); [discriminate|]. destruct (nget n (nis (srib s))) as [st|]; [|discriminate].
    inversion Hget; subst; clear Hget. do 5 eexists. repeat (split; [reflexivity|]).
    rewrite get_ni_all. apply Permutation_refl.
Qed.

(* what a per-table Get returns has that table's kind *)
Lemma get_kind (s : srv ribt) q l g : do_get s q = Some l -> In g l -> In (g_aft q) five -> gkind g = acode (g_aft q).
Proof.
  intros Hget Hin Hfive.
  assert (Ea : g_aft q <> A_OTHER) by (intros E; rewrite E in Hfive; cbn in Hfive; intuition discriminate).
  rewrite (do_get_eq s q Ea) in Hget.
  assert (Hni : exists n st, In g (get_ni (g_aft q) n st)).
  { destruct (g_ni q) as [| |n].
    - inversion Hget; subst. destruct Hin.
    - inversion Hget; subst. apply in_flat_map in Hin. destruct Hin as ([n st] & _ & H). eauto.
    - destruct (n =? 0); [discriminate|]. destruct (nget n (nis (srib s))) as [st|]; [|discriminate].
      inversion Hget; subst. eauto. }
  destruct Hni as (n & st & H). apply get_ni_In in H. destruct H as [_ H].
  cbn in Hfive. destruct g as [n' t k p|n' id p|n' i p]; cbn in H; destruct H as [Hw _];
    destruct (g_aft q); try destruct t; cbn in Hw; try discriminate; try reflexivity; intuition discriminate.
Qed.

Theorem tables_disjoint (s : srv ribt) q a b la lb x y :
  In a five -> In b five -> a <> b ->
  do_get s (with_aft q a) = Some la -> do_get s (with_aft q b) = Some lb ->
  In x la -> In y lb -> gkey x <> gkey y.
Proof.
  intros Ha Hb Hab Hga Hgb Hx Hy E.
  pose proof (get_kind s _ la x Hga Hx Ha) as Kx. pose proof (get_kind s _ lb y Hgb Hy Hb) as Ky.
  unfold gkind in *. rewrite E in Kx. rewrite Kx in Ky. cbn [with_aft g_aft mk_getreq] in Ky.
  cbn in Ha, Hb. destruct a, b; cbn in Ky; try discriminate; try congruence; intuition discriminate.
Qed.

(* ---- payload on the wire ---- *)
Definition builder_gentry (g : gentry) : Prop :=
  match g with
  | GTop _ _ _ p => uses_only_builder (t_x p)
  | GGrp _ _ p => uses_only_builder (g_x p)
  | GNh _ _ p => uses_only_builder (h_x p)
  end.

Lemma map_id_ext {A} (f : A -> A) (l : list A) : (forall x, In x l -> f x = x) -> map f l = l.
Proof.
  induction l as [|a l IH]; cbn; intros H; [reflexivity|]. rewrite H by (left; reflexivity).
  f_equal. apply IH. intros x Hx. apply H. right; exact Hx.
Qed.

Theorem wire_id tbl cv g : inventory_obligation tbl cv = true -> builder_gentry g -> wire_gentry tbl cv g = g.
Proof.
  intros Hob Hb.
  assert (K : forall c, is_builder c = true -> load_keeps tbl cv c = true).
  { intros c Hc. pose proof (obligation_field tbl cv c Hob Hc) as H. unfold field_roundtrips in H.
    apply andb_true_iff in H. tauto. }
  destruct g as [n t k p|n id p|n i p]; cbn [wire_gentry builder_gentry] in *.
  - destruct p as [g0 n0 x b]. unfold wire_top; cbn [t_nhg t_ni t_x t_bad] in *.
    rewrite (load_id tbl cv x Hob Hb).
    rewrite (K (nhg_fid t)) by (destruct t; reflexivity). rewrite (K (nhgni_fid t)) by (destruct t; reflexivity).
    reflexivity.
  - destruct p as [l bk x b]. unfold wire_grp; cbn [g_nhs g_bk g_x g_bad] in *.
    rewrite (load_id tbl cv x Hob Hb).
    rewrite (K mem_list_fid), (K mem_index_fid), (K mem_weight_fid), (K bk_fid) by reflexivity. cbn [andb].
    rewrite map_id_ext; [reflexivity|]. intros [a w] _. reflexivity.
  - destruct p as [x b]. unfold wire_nh; cbn [h_x h_bad] in *. rewrite (load_id tbl cv x Hob Hb). reflexivity.
Qed.

Theorem get_wire_faithful tbl cv (s : srv ribt) q l :
  inventory_obligation tbl cv = true -> do_get s q = Some l -> Forall builder_gentry l ->
  get_wire tbl cv s q = Some l.
Proof.
  intros Hob Hget Hb. unfold get_wire. rewrite Hget. cbn [option_map]. f_equal.
  apply map_id_ext. intros g Hg. apply wire_id; [exact Hob|]. rewrite Forall_forall in Hb. auto.
Qed.
Lemma get_wire_none tbl cv (s : srv ribt) q : get_wire tbl cv s q = None <-> do_get s q = None.
Proof. unfold get_wire. destruct (do_get s q); cbn; split; congruence. Qed.

(* ---- rebuilding a RIB from Get responses ---- *)
Lemma rget_rebuild1 m g n : rget (rebuild1 m g) n = if ge_ni g =? n then ni_put g (rget m n) else rget m n.
Proof.
  unfold rebuild1, rget at 1. rewrite nget_nset. destruct (N.eqb_spec (ge_ni g) n) as [->|]; reflexivity.
Qed.

Lemma dedup_nhs_id l : NoDup (map fst l) -> dedup_nhs l = l.
Proof.
  induction l as [|[i w] l IH]; cbn; intros H; [reflexivity|]. inversion H as [|? ? Hn H']; subst.
  rewrite (IH H'). destruct (nmem i l) eqn:E; [|reflexivity].
  apply nmem_in_keys in E. contradiction.
Qed.
Lemma norm_grp_id g : wf_grp g -> norm_grp g = g.
Proof. intros H. destruct g as [l b x bad]. unfold norm_grp; cbn in *. rewrite (dedup_nhs_id l H). reflexivity. Qed.

Definition tkn_eqb (a b : tkind) : bool := tkn a =? tkn b.
Lemma tkn_eqb_spec a b : reflect (a = b) (tkn_eqb a b).
Proof. destruct a, b; cbn; constructor; congruence. Qed.

Lemma get_top_ni_put t g s :
  get_top t (ni_put g s) = match g with
                           | GTop _ t' k p => if tkn_eqb t' t then nset k p (get_top t s) else get_top t s
                           | _ => get_top t s end.
Proof. destruct g as [n t' k p|n id p|n i p]; cbn; [destruct t, t'; reflexivity|destruct t; reflexivity|destruct t; reflexivity]. Qed.
Lemma tabg_ni_put g s :
  tabg (ni_put g s) = match g with GGrp _ id p => nset id (norm_grp p) (tabg s) | _ => tabg s end.
Proof. destruct g as [n t' k p|n id p|n i p]; cbn; [apply tabg_set_top|reflexivity|reflexivity]. Qed.
Lemma tabh_ni_put g s :
  tabh (ni_put g s) = match g with GNh _ i p => nset i p (tabh s) | _ => tabh s end.
Proof. destruct g as [n t' k p|n id p|n i p]; cbn; [apply tabh_set_top|reflexivity|reflexivity]. Qed.

(* top-level tables *)
Lemma rebuild_top_notin l : forall m n t k, (forall p, ~ In (GTop n t k p) l) ->
  nget k (get_top t (rget (fold_left rebuild1 l m) n)) = nget k (get_top t (rget m n)).
Proof.
  induction l as [|g l IH]; intros m n t k Hno; cbn [fold_left]; [reflexivity|].
  rewrite IH by (intros p Hp; apply (Hno p); right; exact Hp).
  rewrite rget_rebuild1. destruct (N.eqb_spec (ge_ni g) n) as [En|]; [|reflexivity].
  rewrite get_top_ni_put. destruct g as [n' t' k' p'|n' id p'|n' i p']; try reflexivity.
  destruct (tkn_eqb_spec t' t) as [->|]; [|reflexivity].
  cbn in En. subst n'. rewrite nget_nset. destruct (N.eqb_spec k' k) as [->|]; [|reflexivity].
  exfalso. apply (Hno p'). left; reflexivity.
Qed.
Lemma rebuild_top_in l : forall m n t k p, NoDup (map gkey l) -> In (GTop n t k p) l ->
  nget k (get_top t (rget (fold_left rebuild1 l m) n)) = Some p.
Proof.
  induction l as [|g l IH]; intros m n t k p Hnd Hin; [destruct Hin|]. cbn [fold_left].
  cbn [map] in Hnd. inversion Hnd as [|? ? Hn Hnd']; subst. destruct Hin as [->|Hin].
  - rewrite rebuild_top_notin.
    + rewrite rget_rebuild1. cbn [ge_ni]. rewrite N.eqb_refl, get_top_ni_put.
      destruct (tkn_eqb_spec t t); [|congruence]. apply nget_nset_same.
    + intros p' Hp'. apply Hn. change (gkey (GTop n t k p)) with (gkey (GTop n t k p')). apply in_map. exact Hp'.
  - apply IH; assumption.
Qed.
(* groups *)
Lemma rebuild_grp_notin l : forall m n id, (forall p, ~ In (GGrp n id p) l) ->
  nget id (tabg (rget (fold_left rebuild1 l m) n)) = nget id (tabg (rget m n)).
Proof.
  induction l as [|g l IH]; intros m n id Hno; cbn [fold_left]; [reflexivity|].
  rewrite IH by (intros p Hp; apply (Hno p); right; exact Hp).
  rewrite rget_rebuild1. destruct (N.eqb_spec (ge_ni g) n) as [En|]; [|reflexivity].
  rewrite tabg_ni_put. destruct g as [n' t' k' p'|n' id' p'|n' i p']; try reflexivity.
  cbn in En. subst n'. rewrite nget_nset. destruct (N.eqb_spec id' id) as [->|]; [|reflexivity].
  exfalso. apply (Hno p'). left; reflexivity.
Qed.
Lemma rebuild_grp_in l : forall m n id p, NoDup (map gkey l) -> In (GGrp n id p) l ->
  nget id (tabg (rget (fold_left rebuild1 l m) n)) = Some (norm_grp p).
Proof.
  induction l as [|g l IH]; intros m n id p Hnd Hin; [destruct Hin|]. cbn [fold_left].
  cbn [map] in Hnd. inversion Hnd as [|? ? Hn Hnd']; subst. destruct Hin as [->|Hin].
  - rewrite rebuild_grp_notin.
    + rewrite rget_rebuild1. cbn [ge_ni]. rewrite N.eqb_refl, tabg_ni_put. apply nget_nset_same.
    + intros p' Hp'. apply Hn. change (gkey (GGrp n id p)) with (gkey (GGrp n id p')). apply in_map. exact Hp'.
  - apply IH; assumption.
Qed.
(* next hops *)
Lemma rebuild_nh_notin l : forall m n i, (forall p, ~ In (GNh n i p) l) ->
  nget i (tabh (rget (fold_left rebuild1 l m) n)) = nget i (tabh (rget m n)).
Proof.
  induction l as [|g l IH]; intros m n i Hno; cbn [fold_left]; [reflexivity|].
  rewrite IH by (intros p Hp; apply (Hno p); right; exact Hp).
  rewrite rget_rebuild1. destruct (N.eqb_spec (ge_ni g) n) as [En|]; [|reflexivity].
  rewrite tabh_ni_put. destruct g as [n' t' k' p'|n' id' p'|n' i' p']; try reflexivity.
  cbn in En. subst n'. rewrite nget_nset. destruct (N.eqb_spec i' i) as [->|]; [|reflexivity].
  exfalso. apply (Hno p'). left; reflexivity.
Qed.
Lemma rebuild_nh_in l : forall m n i p, NoDup (map gkey l) -> In (GNh n i p) l ->
  nget i (tabh (rget (fold_left rebuild1 l m) n)) = Some p.
Proof.
  induction l as [|g l IH]; intros m n i p Hnd Hin; [destruct Hin|]. cbn [fold_left].
  cbn [map] in Hnd. inversion Hnd as [|? ? Hn Hnd']; subst. destruct Hin as [->|Hin].
  - rewrite rebuild_nh_notin.
    + rewrite rget_rebuild1. cbn [ge_ni]. rewrite N.eqb_refl, tabh_ni_put. apply nget_nset_same.
    + intros p' Hp'. apply Hn. change (gkey (GNh n i p)) with (gkey (GNh n i p')). apply in_map. exact Hp'.
  - apply IH; assumption.
Qed.

(* two instance states hold the same AFT tables (as finite maps) *)
Definition tables_eq (a b : nistate) : Prop :=
  (forall t k, nget k (get_top t a) = nget k (get_top t b))
  /\ (forall k, nget k (tabg a) = nget k (tabg b)) /\ (forall k, nget k (tabh a) = nget k (tabh b)).

Lemma rget_init d n : rget [(d, ni_empty false)] n = ni_empty false.
Proof. unfold rget, nget, aget. cbn. destruct (n =? d); reflexivity. Qed.

Theorem rebuild_same (s : srv ribt) d l : WF (srib s) -> do_get s (mk_getreq NAll A_ALL) = Some l ->
  forall n, tables_eq (rget (rebuild d l) n) (Lemmas.sget (srib s) n).
Proof.
  intros Hwf Hget n. pose proof (get_exact s _ l Hwf Hget) as [Hnd Hin].
  pose proof Hwf as (_ & _ & Hni).
  assert (Hinst : forall g, In g l <-> exists st, nget (ge_ni g) (nis (srib s)) = Some st /\ at_ni A_ALL st g).
  { intros g. rewrite Hin. unfold installed, in_scope. cbn. tauto. }
  unfold rebuild, Lemmas.sget. split; [|split].
  - intros t k. destruct (nget n (nis (srib s))) as [st|] eqn:Est.
    + destruct (nget k (get_top t st)) as [p|] eqn:Ek.
      * apply rebuild_top_in; [exact Hnd|]. apply Hinst. exists st. cbn. auto.
      * rewrite rebuild_top_notin; [rewrite rget_init; destruct t; reflexivity|].
        intros p Hp. apply Hinst in Hp. destruct Hp as (st' & Hst' & _ & Hk). cbn in Hst'. congruence.
    + rewrite rebuild_top_notin; [rewrite rget_init; destruct t; reflexivity|].
      intros p Hp. apply Hinst in Hp. destruct Hp as (st' & Hst' & _). cbn in Hst'. congruence.
  - intros id. destruct (nget n (nis (srib s))) as [st|] eqn:Est.
    + destruct (nget id (tabg st)) as [p|] eqn:Ek.
      * rewrite (rebuild_grp_in l _ n id p Hnd); [|apply Hinst; exists st; cbn; auto].
        f_equal. apply norm_grp_id. destruct (Hni n st Est) as (_ & _ & _ & _ & _ & _ & _ & Hg). eapply Hg; eauto.
      * rewrite rebuild_grp_notin; [rewrite rget_init; reflexivity|].
        intros p Hp. apply Hinst in Hp. destruct Hp as (st' & Hst' & _ & Hk). cbn in Hst'. congruence.
    + rewrite rebuild_grp_notin; [rewrite rget_init; reflexivity|].
      intros p Hp. apply Hinst in Hp. destruct Hp as (st' & Hst' & _). cbn in Hst'. congruence.
  - intros i. destruct (nget n (nis (srib s))) as [st|] eqn:Est.
    + destruct (nget i (tabh st)) as [p|] eqn:Ek.
      * apply rebuild_nh_in; [exact Hnd|]. apply Hinst. exists st. cbn. auto.
      * rewrite rebuild_nh_notin; [rewrite rget_init; reflexivity|].
        intros p Hp. apply Hinst in Hp. destruct Hp as (st' & Hst' & _ & Hk). cbn in Hst'. congruence.
    + rewrite rebuild_nh_notin; [rewrite rget_init; reflexivity|].
      intros p Hp. apply Hinst in Hp. destruct Hp as (st' & Hst' & _). cbn in Hst'. congruence.
Qed.

(* ---- every state reachable from the initial server state has distinct keys everywhere ---- *)
Section StepInv.
  Variables (E R : Type) (has_ni : R -> N -> bool).
  Variables (add del : R -> N -> op E -> R * (list N * list N * bool)) (v : svariant).
  Variable P : R -> Prop.
  Hypothesis Hadd : forall r n o, P r -> P (fst (add r n o)).
  Hypothesis Hdel : forall r n o, P r -> P (fst (del r n o)).

  Lemma modify_entry_P fib g o r : P r -> P (fst (fst (modify_entry E R add del fib g o r))).
  Proof.
    intros H. unfold modify_entry. destruct g; cbn [fst]; try exact H.
    destruct (op_kind o); cbn [fst]; try exact H.
    - pose proof (Hadd r (op_ni o) o H) as H'. destruct (add r (op_ni o) o) as [r' [[oks fails] fatal]].
      cbn [fst] in H'. destruct fatal; exact H'.
    - pose proof (Hadd r (op_ni o) o H) as H'. destruct (add r (op_ni o) o) as [r' [[oks fails] fatal]].
      cbn [fst] in H'. destruct fatal; exact H'.
    - pose proof (Hdel r (op_ni o) o H) as H'. destruct (del r (op_ni o) o) as [r' [[oks fails] fatal]].
      cbn [fst] in H'. destruct fatal; exact H'.
  Qed.
  Lemma after_fatal_P fib mst cu me last ops r : P r -> P (after_fatal E R has_ni add del fib mst cu me last ops r).
  Proof.
    intros H. unfold after_fatal. destruct ops as [|o tl]; [exact H|].
    destruct (op_ni o =? 0); [exact H|]. destruct (negb (has_ni r (op_ni o))); [exact H|].
    pose proof (modify_entry_P fib (check_election (op_elec o) mst cu me last) o r H) as H'.
    destruct (modify_entry E R add del fib _ o r) as [[r' rs] e]. exact H'.
  Qed.
  Lemma do_ops_P fib mst cu me last ops : forall r acc, P r ->
    P (fst (fst (do_ops E R has_ni add del v fib mst cu me last ops r acc))).
  Proof.
    induction ops as [|o tl IH]; intros r acc H; cbn [do_ops fst]; [exact H|].
    destruct ((op_ni o =? 0) && fixF4 v); [apply IH; exact H|].
    destruct (negb (has_ni r (op_ni o))); [apply IH; exact H|].
    pose proof (modify_entry_P fib (check_election (op_elec o) mst cu me last) o r H) as H'.
    destruct (modify_entry E R add del fib _ o r) as [[r' rs] e]. cbn [fst] in H'.
    destruct e as [err|]; [|apply IH; exact H']. cbn [fst].
    destruct (fixF9 v); [exact H'|apply after_fatal_P; exact H'].
  Qed.
  Lemma step_P (s : srv R) i : P (Model.rib s) -> P (Model.rib (fst (step E R has_ni add del v s i))).
  Proof.
    intros H. unfold step. destruct i as [c|c m|c|c]; destruct (Model.sget R c s) as [x|]; cbn [fst]; try exact H.
    assert (Hm : forall so : srv R * out, P (Model.rib (fst so)) ->
                 P (Model.rib (fst (let '(s', o) := so in
                                    match o_end o with Some _ => (drop_sess R c s', o) | None => (s', o) end)))).
    { intros [s' o] Hs. cbn [fst] in *. destruct (o_end o); exact Hs. }
    apply Hm. destruct m as [p|id|ops| |]; try exact H.
    - unfold do_params.
      repeat match goal with |- context [if ?b then _ else _] => destruct b end; exact H.
    - unfold do_elect.
      repeat match goal with |- context [if ?b then _ else _] => destruct b end; exact H.
    - unfold do_modify. destruct (negb (cp_expect (s_params x)) || negb (cp_persist (s_params x))); [exact H|].
      pose proof (do_ops_P (cp_fib (s_params x)) (master s) (cur s) c (s_last x) ops (Model.rib s) [] H) as H'.
      destruct (do_ops E R has_ni add del v _ _ _ c _ ops (Model.rib s) []) as [[r' rs] e]. exact H'.
  Qed.
End StepInv.

Lemma sstep_WF rv sv (s : srv ribt) i : WF (srib s) -> WF (srib (fst (sstep rv sv s i))).
Proof.
  intros H. destruct i as [x|q|q]; cbn [sstep].
  - pose proof (step_P hentry ribt r_has_ni (r_add rv) (r_del rv) sv WF) as HP.
    unfold mstep. destruct (step hentry ribt r_has_ni (r_add rv) (r_del rv) sv s x) as [s' o] eqn:Es.
    cbn [fst]. change s' with (fst (s', o)). rewrite <- Es. apply HP; [| |exact H].
    + intros r n o0 Hr. unfold r_add.
      pose proof (add_entry_WF rv (canon (hfails (op_entry o0)) (hoks (op_entry o0))) r n (strip o0) Hr) as H'.
      destruct (add_entry rv _ r n (strip o0)) as [r' out]. exact H'.
    + intros r n o0 Hr. unfold r_del. pose proof (delete_entry_WF rv r n (strip o0) Hr) as H'.
      destruct (delete_entry rv r n (strip o0)) as [r' out]. exact H'.
  - unfold do_flush. destruct (check_flush (cur s) q); cbn [fst]; try exact H.
    destruct (match f_ni q with NAll => Some (map fst (nis (srib s))) | NName n => if has_ni (srib s) n then Some [n] else None | NNone => None end) as [l|];
      cbn [fst]; [|exact H].
    pose proof (flush_WF rv l (srib s) H) as H'. destruct (flush rv l (srib s)) as [[r' hs] err]. exact H'.
  - exact H.
Qed.

Lemma strace_WF rv sv h : forall s : srv ribt, WF (srib s) -> WF (srib (snd (strace rv sv s h))).
Proof.
  induction h as [|i tl IH]; intros s H; cbn [strace snd]; [exact H|].
  pose proof (sstep_WF rv sv s i H) as H1. destruct (sstep rv sv s i) as [s' o]. cbn [fst] in H1.
  specialize (IH s' H1). destruct (strace rv sv s' tl) as [os sf]. exact IH.
Qed.

Lemma srv_init_WF nf vrfs : WF (srib (srv_init nf vrfs)).
Proof.
  unfold srv_init, srv0; cbn [Model.rib]. generalize (WF_rib0 1 nf). generalize (rib0 1 nf).
  induction vrfs as [|n l IH]; intros r H; cbn [fold_left]; [exact H|]. apply IH. apply add_ni_WF. exact H.
Qed.

(* the states reachable through connects, Modify messages, Flush and Get from a fresh server *)
Definition reachable (s : srv ribt) : Prop :=
  exists rv sv nf vrfs h, s = snd (strace rv sv (srv_init nf vrfs) h).
Theorem reachable_WF s : reachable s -> WF (srib s).
Proof. intros (rv & sv & nf & vrfs & h & ->). apply strace_WF, srv_init_WF. Qed.

(* ---- the statements of Properties/C07.v, assembled ---- *)
Theorem get_exact_reachable (s : srv ribt) q : reachable s ->
  (do_get s q = None <-> ~ req_ok s q)
  /\ (g_ni q = NNone -> g_aft q <> A_OTHER -> do_get s q = Some [])
  /\ forall l, do_get s q = Some l ->
       NoDup (map gkey l) /\ (forall g, In g l <-> installed s q g)
       /\ ((forall g, ~ installed s q g) -> l = [])
       /\ forall tbl cv, inventory_obligation tbl cv = true -> Forall builder_gentry l -> get_wire tbl cv s q = Some l.
Proof.
  intros Hr. pose proof (reachable_WF s Hr) as Hwf. split; [apply get_errors|]. split.
  - intros Hn Ha. rewrite do_get_eq by exact Ha. rewrite Hn. reflexivity.
  - intros l Hget. pose proof (get_exact s q l Hwf Hget) as [H1 H2].
    split; [exact H1|]. split; [exact H2|]. split; [intros Hno; eapply get_empty_tables; eauto|].
    intros tbl cv Hob Hb. apply get_wire_faithful; assumption.
Qed.

Theorem all_is_disjoint_union (s : srv ribt) q l : g_aft q = A_ALL -> do_get s q = Some l ->
  exists l4 l6 lm lg lh,
    do_get s (with_aft q A_IPV4) = Some l4 /\ do_get s (with_aft q A_IPV6) = Some l6 /\
    do_get s (with_aft q A_MPLS) = Some lm /\ do_get s (with_aft q A_NHG) = Some lg /\
    do_get s (with_aft q A_NH) = Some lh /\ Permutation l (l4 ++ l6 ++ lm ++ lg ++ lh)
    /\ forall a b la lb x y, In a five -> In b five -> a <> b ->
         do_get s (with_aft q a) = Some la -> do_get s (with_aft q b) = Some lb -> In x la -> In y lb -> gkey x <> gkey y.
Proof.
  intros Ea Hget. destruct (all_is_union s q l Ea Hget) as (l4 & l6 & lm & lg & lh & H4 & H6 & HM & HG & HH & HP).
  exists l4, l6, lm, lg, lh. repeat (split; [assumption|]). intros a b la lb x y. apply tables_disjoint.
Qed.

Theorem rebuild_reachable (s : srv ribt) d : reachable s ->
  exists l, do_get s (mk_getreq NAll A_ALL) = Some l
            /\ (forall n, tables_eq (rget (rebuild d l) n) (Lemmas.sget (srib s) n))
            /\ forall tbl cv, inventory_obligation tbl cv = true -> Forall builder_gentry l ->
                 get_wire tbl cv s (mk_getreq NAll A_ALL) = Some l.
Proof.
  intros Hr. pose proof (reachable_WF s Hr) as Hwf.
  exists (flat_map (fun kv => get_ni A_ALL (fst kv) (snd kv)) (nis (srib s))).
  assert (Hget : do_get s (mk_getreq NAll A_ALL) = Some (flat_map (fun kv => get_ni A_ALL (fst kv) (snd kv)) (nis (srib s)))) by reflexivity.
  split; [exact Hget|]. split.
  - apply rebuild_same; assumption.
  - intros tbl cv Hob Hb. apply get_wire_faithful; assumption.
Qed.

(* the pinned tree: a next hop programmed through Modify with pop-top-label is returned without it *)
Definition refute_hist : list sinput :=
  [SIn (Connect _ 1); SIn (Msg _ 1 (MParams _ {| p_red := 1; p_pers := 1; p_ack := 0 |}));
   SIn (Msg _ 1 (MElect _ (0, 1)));
   SIn (Msg _ 1 (MOps _ [mk_hop 1 1 ADD (Some (0, 1)) (ENh 1 (Some (mk_nh [(27, 1)]))) [] [1]]))].
Definition refute_state : srv ribt := snd (strace v_fixed sv_fixed (srv_init false []) refute_hist).

Theorem get_payload_tree_refuted :
  exists (s : srv ribt) q l, reachable s /\ do_get s q = Some l /\ Forall builder_gentry l
                             /\ get_wire (resolve codec_table) cv_tree s q <> Some l.
Proof.
  exists refute_state, (mk_getreq (NName 1) A_NH), [GNh 1 1 (mk_nh [(27, 1)])].
  split; [exists v_fixed, sv_fixed, false, [], refute_hist; reflexivity|].
  split; [vm_compute; reflexivity|]. split.
  - constructor; [|constructor]. cbn. constructor; [vm_compute; reflexivity|constructor].
  - vm_compute. discriminate.
Qed.

(* the same request on the repaired code returns the payload whole *)
Example get_payload_fixed_example :
  get_wire (resolve codec_table) cv_fixed refute_state (mk_getreq (NName 1) A_NH) = Some [GNh 1 1 (mk_nh [(27, 1)])].
Proof. vm_compute. reflexivity. Qed.
