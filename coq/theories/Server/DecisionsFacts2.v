(* More of /repo/server/server.go, regenerated on every run (Generated/Decisions.v) and
   proved equal to the hand-written model (Server/Model.v) for every input:
   runElection = do_elect, checkParams = the decision part of do_params, the dispatch
   switch of Modify's receive loop = the model's message classes, deleteClient = drop_sess.

   The server value: [srv_val cur master tbl] = the fields of *Server that these functions
   touch; [tbl] is the client table s.cs as an association list (any table: the theorems
   quantify over it and only assume the entry of the calling session). *)
From Coq Require Import List String NArith ZArith Bool Lia.
From GV.Base Require Import Alist U128 U128Facts Op GoLite.
From GV.Server Require Import Model Facts ElectionFacts DecisionsFacts.
From GV.Generated Require Import Decisions.
Import ListNotations.
Open Scope N_scope.

(* ---------------- encodings ---------------- *)
Definition enc_cp (p : cparams) : gval :=
  VPtr [("Persist", VBool (cp_persist p)); ("ExpectElecID", VBool (cp_expect p)); ("FIBAck", VBool (cp_fib p))]%string.
Definition enc_sess (x : sess) : gval :=
  VPtr [("params", enc_cp (s_params x)); ("setParams", VBool (s_set x)); ("lastElecID", u128_ptr (s_last x))]%string.
Definition srv_val (cu : option u128) (mst : string) (tbl : list (string * gval)) : gval :=
  VPtr [("cs", VPtr tbl); ("curElecID", u128_ptr cu); ("curMaster", VStr mst)]%string.
(* session numbers are named by strings in the code; "" = no master *)
Definition mname (name : N -> string) (m : option N) : string :=
  match m with Some c => name c | None => ""%string end.

Definition reason_name (r : reason) : string :=
  match r with
  | NoDetail => "" | R_UNKNOWN => "UNKNOWN" | MODIFY_NOT_ALLOWED => "MODIFY_NOT_ALLOWED"
  | UNSUPPORTED_PARAMS => "UNSUPPORTED_PARAMS" | PARAMS_DIFFER => "PARAMS_DIFFER_FROM_OTHER_CLIENTS"
  | ELECTION_ID_IN_ALL_PRIMARY => "ELECTION_ID_IN_ALL_PRIMARY" | OtherReason => "OTHER"
  end%string.
Definition enc_err (c : code) (r : reason) : gval := VOpaque ("err:" ++ code_name c ++ ":" ++ reason_name r)%string.

(* what a (response, error) pair of the Go code looks like for an output of the model *)
Definition enc_resp (x : resp) : gval :=
  match x with
  | RParamsOK => VPtr [("#type", VStr "ModifyResponse");
                       ("SessionParamsResult", VPtr [("#type", VStr "SessionParametersResult"); ("Status", VInt 0)])]
  | RElect id => VPtr [("#type", VStr "ModifyResponse"); ("ElectionId", u128_ptr id)]
  | RResults _ => VOpaque "resp"
  end%string.
Definition enc_out (o : out) : list gval :=
  match o_end o, o_resps o with
  | Some (c, r), _ => [VNil; enc_err c r]
  | None, [x] => [enc_resp x; VNil]
  | None, _ => []
  end.

(* ---------------- runElection ---------------- *)
Definition re_env (id : string) (cand : u128) (sv : gval) : env :=
  [("s", sv); ("id", VStr id); ("elecID", u128_ptr (Some cand))]%string.

(* the table after the call: the calling session's entry is replaced by its record in the model *)
Definition tbl_after (R : Type) (name : N -> string) (c : N) (st : srv R * out) (tbl : list (string * gval)) :=
  match o_end (snd st), sget R c (fst st) with
  | None, Some x' => tbl_set (name c) (enc_sess x') tbl
  | _, _ => tbl
  end.

Lemma zero_cmp (h l : N) : Z.eqb (cmp_int (u128_cmp (0, 0) (h, l))) 0%Z = u128_is_zero (h, l).
Proof.
  unfold u128_cmp, u128_is_zero, hi, lo; cbn [fst snd].
  destruct (N.eqb_spec h 0) as [->|Hh].
  - cbn [N.compare andb]. destruct (N.eqb_spec l 0) as [->|Hl]; [reflexivity|].
    destruct l; [congruence|reflexivity].
  - destruct h; [congruence|reflexivity].
Qed.

(* do_elect with the record operations spelled out *)
Lemma do_elect_shape (R : Type) (s : srv R) c x id :
  do_elect R sv_fixed c x id s =
  if negb (cp_expect (s_params x)) then (s, out_end FailedPrecondition ELECTION_ID_IN_ALL_PRIMARY) else
  if u128_is_zero id then (s, out_end InvalidArgument NoDetail) else
  let nm := is_new_master sv_fixed id (cur s) in
  ({| ss := aset N.eqb c {| s_params := s_params x; s_set := s_set x; s_last := Some id; s_gotmsg := true |} (ss s);
      cur := if nm then Some id else cur s; master := if nm then Some c else master s; rib := rib s |},
   out_resp (RElect (if nm then Some id else cur s))).
Proof.
  unfold do_elect. destruct (negb (cp_expect (s_params x))); [reflexivity|].
  destruct (u128_is_zero id); [reflexivity|].
  cbn [cur upd_sess set_ss]. destruct (is_new_master sv_fixed id (cur s)); reflexivity.
Qed.

Ltac ev_tbl := cbv -[tbl_get tbl_set tbl_del tbl_scan data_str_eqb].
Ltac ev_go := cbv -[tbl_get tbl_set tbl_del tbl_scan data_str_eqb mname u128_cmp cmp_int Z.eqb N.ltb N.eqb N.leb].

Theorem gen_runElection_agrees (R : Type) (name : N -> string) (s : srv R) (c : N) (x : sess) (id : u128)
        (tbl : list (string * gval)) :
  tbl_get (name c) tbl = Some (enc_sess x) ->
  let st := do_elect R sv_fixed c x id s in
  run_method decisions_funs "s" (re_env (name c) id (srv_val (cur s) (mname name (master s)) tbl)) runElection_body
  = Some (srv_val (cur (fst st)) (mname name (master (fst st))) (tbl_after R name c st tbl), enc_out (snd st)).
Proof.
  intros Hget. rewrite do_elect_shape.
  destruct id as [h l]. destruct x as [[pp pe pf] xs xl xg]. destruct s as [ss0 cu ms r0].
  unfold tbl_after. cbn [s_params s_set cp_expect cur master ss rib negb].
  (* evaluate; each time the evaluation stops at a look-up in the (arbitrary) table or at the zero
     test, feed it the hypothesis and go on *)
  assert (Hz := zero_cmp h l).
  destruct pe; cbn [negb].
  2:{ cbn [fst snd o_end out_end]. ev_go. repeat (progress (rewrite ?Hget, ?Hz); ev_go). reflexivity. }
  destruct (u128_is_zero (h, l)) eqn:Ez.
  - cbn [fst snd o_end out_end]. ev_go. repeat (progress (rewrite ?Hget, ?Hz); ev_go). reflexivity.
  - cbv zeta. cbn [fst snd o_end out_resp o_resps cur master].
    unfold sget. cbn [ss]. rewrite (aget_aset_same N.eqb N.eqb_spec).
    destruct cu as [[ch cl]|]; unfold is_new_master; cbn [fixF1 sv_fixed]; rewrite ?leb_lex;
      ev_go; repeat (progress (rewrite ?Hget, ?Hz); ev_go); split_cmp.
Qed.

(* ---------------- checkParams ---------------- *)
Definition pmsg_ptr (p : option pmsg) : gval :=
  match p with
  | None => VNil
  | Some p => VPtr [("Redundancy", VInt (Z.of_N (p_red p))); ("Persistence", VInt (Z.of_N (p_pers p)));
                    ("AckType", VInt (Z.of_N (p_ack p)))]%string
  end.
Definition cp_env (id : string) (p : option pmsg) (gotmsg : bool) (sv : gval) : env :=
  [("s", sv); ("id", VStr id); ("p", pmsg_ptr p); ("gotMsg", VBool gotmsg)]%string.
Definition cp_triple (p : cparams) : bool * bool * bool := (cp_persist p, cp_expect p, cp_fib p).

(* checkParams by hand; [cons] = what checkClientsConsistent answered (None = an error);
   result None = accepted *)
Definition check_params (gotmsg : bool) (p : option pmsg) (cons : option bool) : option (code * reason) :=
  match p with
  | None => Some (Internal, NoDetail)
  | Some p =>
    if gotmsg then Some (FailedPrecondition, MODIFY_NOT_ALLOWED) else
    if (p_red p =? 0) && (p_pers p =? 1) then Some (FailedPrecondition, UNSUPPORTED_PARAMS) else
    if negb (p_red p =? 1) then Some (Unimplemented, UNSUPPORTED_PARAMS) else
    if negb (p_pers p =? 1) then Some (Unimplemented, UNSUPPORTED_PARAMS) else
    match cons with
    | None => Some (Internal, NoDetail)
    | Some false => Some (FailedPrecondition, PARAMS_DIFFER)
    | Some true => None
    end
  end.

Lemma zeq0 n : Z.eqb (Z.of_N n) 0%Z = (n =? 0).
Proof. destruct n; reflexivity. Qed.
Lemma zeq1 n : Z.eqb (Z.of_N n) 1%Z = (n =? 1).
Proof. destruct (N.eqb_spec n 1) as [->|H]; [reflexivity|]. apply Z.eqb_neq. lia. Qed.

Definition with_params (x : sess) (cp : cparams) : sess :=
  {| s_params := cp; s_set := s_set x; s_last := s_last x; s_gotmsg := s_gotmsg x |}.

(* p == nil *)
Theorem gen_checkParams_nil (id : string) (gotmsg : bool) (sv : gval) :
  run_method decisions_funs "s" (cp_env id None gotmsg sv) checkParams_body
  = Some (sv, [VNil; enc_err Internal NoDetail]).
Proof. reflexivity. Qed.

(* [mal] / [mis]: some other session's record is nil / differs from the new parameters
   (checkClientsConsistent, see GoLite.tbl_scan; both at once = order-dependent, excluded) *)
Theorem gen_checkParams_agrees (id : string) (tbl : list (string * gval)) (x : sess) (p : pmsg) (gotmsg : bool)
        (cu : option u128) (mst : string) (mal mis : bool) :
  tbl_get id tbl = Some (enc_sess x) ->
  tbl_scan id (cp_triple (cp_of p)) tbl = (mal, mis) -> mal && mis = false ->
  run_method decisions_funs "s" (cp_env id (Some p) gotmsg (srv_val cu mst tbl)) checkParams_body
  = match check_params gotmsg (Some p) (if mal then None else Some (negb mis)) with
    | Some (c, r) => Some (srv_val cu mst tbl, [VNil; enc_err c r])
    | None => Some (srv_val cu mst (tbl_set id (enc_sess (with_params x (cp_of p))) tbl), [enc_resp RParamsOK; VNil])
    end.
Proof.
  intros Hget Hscan Hmm. destruct p as [r pe a]. destruct x as [[pp pex pf] xs xl xg].
  unfold check_params, with_params, cp_of, cp_triple in *.
  cbn [p_red p_pers p_ack s_set s_last s_gotmsg cp_persist cp_expect cp_fib] in *.
  (* every comparison of an enum number with 0 or 1 computes once the number is 0, 1, or has a second bit *)
  destruct gotmsg; [reflexivity|].
  destruct mal; destruct mis; try discriminate Hmm; clear Hmm;
  destruct r as [|[qr|qr|]]; destruct pe as [|[qp|qp|]]; try reflexivity;
    destruct a as [|[qa|qa|]]; cbn [N.eqb Pos.eqb] in Hscan;
    (ev_tbl; repeat (progress (rewrite ?Hscan, ?Hget); ev_tbl); reflexivity).
Qed.

(* the model's do_params = checkParams, then updateParams (setParams already set: MODIFY_NOT_ALLOWED) *)
Theorem do_params_is_check_params (R : Type) (c : N) (x : sess) (p : pmsg) (s : srv R) :
  do_params R sv_fixed c x p s =
  match check_params (s_gotmsg x) (Some p) (Some (consistent R c (cp_of p) s)) with
  | Some (cd, r) => (s, out_end cd r)
  | None =>
    if s_set x
    then (upd_sess R c {| s_params := cp_of p; s_set := true; s_last := s_last x; s_gotmsg := s_gotmsg x |} s,
          out_end FailedPrecondition MODIFY_NOT_ALLOWED)
    else (upd_sess R c {| s_params := cp_of p; s_set := true; s_last := s_last x; s_gotmsg := true |} s,
          out_resp RParamsOK)
  end.
Proof.
  unfold do_params, check_params. cbn [fixF17 sv_fixed].
  destruct (s_gotmsg x); [reflexivity|].
  destruct ((p_red p =? 0) && (p_pers p =? 1)); [reflexivity|].
  destruct (negb (p_red p =? 1)); [reflexivity|].
  destruct (negb (p_pers p =? 1)); [reflexivity|].
  destruct (consistent R c (cp_of p) s); reflexivity.
Qed.

(* ---------------- the client table of the model as a Go map ---------------- *)
Definition enc_table (name : N -> string) (l : alist N sess) : list (string * gval) :=
  map (fun kv => (name (fst kv), enc_sess (snd kv))) l.

Section Naming.
  Variable name : N -> string.
  Hypothesis name_inj : forall a b, name a = name b -> a = b.

  Lemma name_eqb a b : data_str_eqb (name a) (name b) = (a =? b).
  Proof.
    unfold data_str_eqb. destruct (N.eqb_spec a b) as [->|Hn]; [apply String.eqb_refl|].
    apply String.eqb_neq. intros H. apply Hn, name_inj, H.
  Qed.

  Lemma tbl_get_enc c l : tbl_get (name c) (enc_table name l) = option_map enc_sess (aget N.eqb c l).
  Proof.
    unfold aget. induction l as [|[k v] l IH]; [reflexivity|].
    cbn [enc_table map tbl_get fst snd find]. fold (enc_table name l). rewrite name_eqb.
    destruct (c =? k); [reflexivity|exact IH].
  Qed.

  Lemma tbl_del_enc c l : tbl_del (name c) (enc_table name l) = enc_table name (adel N.eqb c l).
  Proof.
    unfold adel. induction l as [|[k v] l IH]; [reflexivity|].
    cbn [enc_table map tbl_del fst snd filter]. fold (enc_table name l). rewrite name_eqb.
    destruct (c =? k); cbn [negb]; [exact IH|]. cbn [map fst snd]. f_equal. exact IH.
  Qed.

  (* checkClientsConsistent on the model's table is the model's [consistent] *)
  Lemma tbl_scan_enc c cp l :
    tbl_scan (name c) (cp_triple cp) (enc_table name l)
    = (false, negb (forallb (fun kv => (fst kv =? c) || cparams_eqb (s_params (snd kv)) cp) l)).
  Proof.
    induction l as [|[k v] l IH]; [reflexivity|].
    cbn [enc_table map tbl_scan fst snd forallb]. fold (enc_table name l). rewrite IH, name_eqb.
    rewrite (N.eqb_sym k c). destruct (c =? k); cbn [orb andb]; [reflexivity|].
    destruct v as [[a b d] st la g]. destruct cp as [a' b' d'].
    destruct a, b, d, a', b', d'; reflexivity.
  Qed.

  Lemma tbl_get_set k' k v t :
    tbl_get k' (tbl_set k v t) = if data_str_eqb k' k then Some v else tbl_get k' t.
  Proof.
    unfold data_str_eqb. induction t as [|[y w] t IH]; cbn [tbl_set tbl_get]; unfold data_str_eqb.
    - destruct (String.eqb k' k); reflexivity.
    - destruct (String.eqb_spec k y) as [->|Hky]; cbn [tbl_get]; unfold data_str_eqb.
      + destruct (String.eqb k' y); reflexivity.
      + destruct (String.eqb_spec k' y) as [->|Hk'y].
        * assert (String.eqb y k = false) as -> by (apply String.eqb_neq; congruence). reflexivity.
        * exact IH.
  Qed.
End Naming.

(* runElection / checkParams on the model's own table: what the code leaves in s.cs is, entry by
   entry, the session table of the model after do_elect / the accepted do_params *)
Theorem table_after_upd (R : Type) (name : N -> string) (s : srv R) (c d : N) (x' : sess) :
  (forall a b, name a = name b -> a = b) ->
  tbl_get (name d) (tbl_set (name c) (enc_sess x') (enc_table name (ss s)))
  = option_map enc_sess (sget R d (upd_sess R c x' s)).
Proof.
  intros Hinj. rewrite tbl_get_set, (name_eqb name Hinj), sget_upd, (N.eqb_sym c d).
  destruct (d =? c); [reflexivity|]. apply (tbl_get_enc name Hinj).
Qed.

(* ---------------- the dispatch switch of Modify's receive loop ---------------- *)
Inductive mclass := CMulti | CParams | CElect | COps | CNone.
(* which of params / election id / operation are populated -> the class of the message *)
Definition msg_class (bp be bo : bool) : mclass :=
  if (bp && be) || (bp && bo) || (be && bo) then CMulti
  else if bp then CParams else if be then CElect else if bo then COps else CNone.
Definition class_of (E : Type) (m : msg E) : mclass :=
  match m with MMulti _ => CMulti | MParams _ _ => CParams | MElect _ _ => CElect | MOps _ _ => COps | MNone _ => CNone end.
(* what the switch does for a class: end the RPC with a status, or hand over to a method *)
Definition enc_class (k : mclass) : gval :=
  match k with
  | CMulti => enc_err InvalidArgument NoDetail
  | CNone => enc_err Unimplemented NoDetail
  | CParams => VStr "call:checkParams+updateParams"
  | CElect => VStr "call:runElection"
  | COps => VStr "call:doModify"
  end.
Definition some_or_nil (b : bool) : gval := if b then VPtr [] else VNil.
Definition in_env (bp be bo : bool) : env :=
  [("in", VPtr [("Params", some_or_nil bp); ("ElectionId", some_or_nil be); ("Operation", some_or_nil bo)])]%string.

Theorem gen_dispatch_agrees (bp be bo : bool) :
  exec (in_env bp be bo) Modify_dispatch_body = Ret [enc_class (msg_class bp be bo)].
Proof. destruct bp, be, bo; reflexivity. Qed.

(* a nil message is skipped *)
Theorem gen_dispatch_nil : exec [("in"%string, VNil)] Modify_dispatch_body = Ret [VStr "skip"].
Proof. reflexivity. Qed.

(* the model's step dispatches on the same classes: the two classes that end the RPC at once
   end it with the status of the switch, the others are handed to do_params / do_elect / do_modify *)
Theorem step_dispatch (E R : Type) has_ni add del (s : srv R) c x (m : msg E) : sget R c s = Some x ->
  let st := step E R has_ni add del sv_fixed s (Msg E c m) in
  match class_of E m with
  | CMulti => o_end (snd st) = Some (InvalidArgument, NoDetail) /\ o_resps (snd st) = []
  | CNone => o_end (snd st) = Some (Unimplemented, NoDetail) /\ o_resps (snd st) = []
  | CParams => forall p, m = MParams E p -> snd st = snd (do_params R sv_fixed c x p s)
  | CElect => forall id, m = MElect E id -> snd st = snd (do_elect R sv_fixed c x id s)
  | COps => forall ops, m = MOps E ops -> snd st = snd (do_modify E R has_ni add del sv_fixed c x ops s)
  end.
Proof.
  intros Hx. destruct m; cbn [class_of step]; rewrite Hx.
  - intros p0 [= <-]. destruct (do_params R sv_fixed c x p s) as [s' o]. cbn [snd]. destruct (o_end o); reflexivity.
  - intros id0 [= <-]. destruct (do_elect R sv_fixed c x id s) as [s' o]. cbn [snd]. destruct (o_end o); reflexivity.
  - intros ops0 [= <-]. destruct (do_modify E R has_ni add del sv_fixed c x ops s) as [s' o]. cbn [snd]. destruct (o_end o); reflexivity.
  - split; reflexivity.
  - split; reflexivity.
Qed.

(* ---------------- deleteClient ---------------- *)
Definition dc_env (id : string) (sv : gval) : env := [("s", sv); ("id", VStr id)]%string.

Theorem gen_deleteClient_agrees (id : string) (cu : option u128) (mst : string) (tbl : list (string * gval)) :
  run_method decisions_funs "s" (dc_env id (srv_val cu mst tbl)) deleteClient_body
  = Some (srv_val cu mst (tbl_del id tbl), []).
Proof. reflexivity. Qed.

(* on the model's table it is drop_sess *)
Theorem deleteClient_is_drop_sess (R : Type) (name : N -> string) (s : srv R) (c : N) :
  (forall a b, name a = name b -> a = b) ->
  tbl_del (name c) (enc_table name (ss s)) = enc_table name (ss (drop_sess R c s)).
Proof. intros Hinj. apply (tbl_del_enc name Hinj). Qed.
