(* Decidable comparison of server-model observables, used by the generated cases files. *)
From Coq Require Import List NArith Bool.
From GV.Base Require Import U128.
From GV.Server Require Import Model.
Import ListNotations.
Open Scope N_scope.

Definition astatus_eqb (a b : astatus) : bool :=
  match a, b with FAILED, FAILED | RIB_PROGRAMMED, RIB_PROGRAMMED | FIB_PROGRAMMED, FIB_PROGRAMMED => true | _, _ => false end.
Definition code_eqb (a b : code) : bool :=
  match a, b with
  | OK, OK | Unknown, Unknown | InvalidArgument, InvalidArgument | FailedPrecondition, FailedPrecondition
  | Unimplemented, Unimplemented | Internal, Internal | OtherCode, OtherCode => true
  | _, _ => false end.
Definition reason_eqb (a b : reason) : bool :=
  match a, b with
  | NoDetail, NoDetail | R_UNKNOWN, R_UNKNOWN | MODIFY_NOT_ALLOWED, MODIFY_NOT_ALLOWED
  | UNSUPPORTED_PARAMS, UNSUPPORTED_PARAMS | PARAMS_DIFFER, PARAMS_DIFFER
  | ELECTION_ID_IN_ALL_PRIMARY, ELECTION_ID_IN_ALL_PRIMARY | OtherReason, OtherReason => true
  | _, _ => false end.

Fixpoint list_eqb {A} (eqb : A -> A -> bool) (l1 l2 : list A) : bool :=
  match l1, l2 with
  | [], [] => true
  | a :: t1, b :: t2 => eqb a b && list_eqb eqb t1 t2
  | _, _ => false
  end.
Definition opt_eqb {A} (eqb : A -> A -> bool) (a b : option A) : bool :=
  match a, b with Some x, Some y => eqb x y | None, None => true | _, _ => false end.

Definition resp_eqb (a b : resp) : bool :=
  match a, b with
  | RParamsOK, RParamsOK => true
  | RElect x, RElect y => opt_eqb u128_eqb x y
  | RResults x, RResults y => list_eqb (fun p q => (fst p =? fst q) && astatus_eqb (snd p) (snd q)) x y
  | _, _ => false
  end.
Fixpoint prefix_eqb {A} (eqb : A -> A -> bool) (short long : list A) : bool :=
  match short, long with
  | [], _ => true
  | a :: t1, b :: t2 => eqb a b && prefix_eqb eqb t1 t2
  | _, _ => false
  end.
(* a = model, b = implementation.  When the step ends the RPC, responses that were produced
   before the fatal error race with the termination of the stream (the server hands them to
   the sender goroutine, which may or may not write them before Modify returns): the
   implementation's responses must then be a prefix of the model's. *)
Definition out_eqb (a b : out) : bool :=
  opt_eqb (fun p q => code_eqb (fst p) (fst q) && reason_eqb (snd p) (snd q)) (o_end a) (o_end b)
  && match o_end a with
     | Some _ => prefix_eqb resp_eqb (o_resps b) (o_resps a)
     | None => list_eqb resp_eqb (o_resps a) (o_resps b)
     end.

(* indices of the elements for which f is false *)
Fixpoint bad_indices {A} (f : A -> bool) (l : list A) (i : N) : list N :=
  match l with [] => [] | a :: tl => if f a then bad_indices f tl (i + 1) else i :: bad_indices f tl (i + 1) end.

Definition mkout rs e : out := {| o_resps := rs; o_end := e |}.
