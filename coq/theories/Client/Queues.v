(* C13 — sequential model of the accounting done by /repo/client/gribiclient.go
   (Q, StartSending, StopSending, handleModifyRequest, handleModifyResponse, clearPendingOp,
   clearPendingElection, clearPendingSessionParams, isConverged, AwaitConverged).
   Model only, no proofs (Client/QueuesFacts.v has them).

   One event = one call of the application or one message/termination on the Modify stream,
   handled to completion (the harness waits for the client to absorb it).  The wire itself is
   not modelled: a request handed to the sender goroutine is gone; what matters for the
   accounting is the send queue, the pending queue, the result queue and the error lists.
   TreatRIBACKAsCompletedInFIBACKMode is taken at its default (false). *)
From Coq Require Import List NArith Bool.
From GV.Base Require Import Alist.
Import ListNotations.
Open Scope N_scope.

(* AFTResult.Status: 2 FAILED, 3 RIB_PROGRAMMED, 4 FIB_PROGRAMMED, 5 FIB_FAILED, anything else SOther *)
Inductive status := SOther | SFailed | SRib | SFib | SFibFailed.

(* an AFTOperation as far as the client looks at it: id, wire operation (1 ADD 2 REPLACE 3 DELETE),
   entry kind (0 none 1 ipv4 2 ipv6 3 mpls 4 nhg 5 nh) and the key of the entry *)
Record op := mkop { o_id : N; o_type : N; o_kind : N; o_key : N }.
Record msg := mkmsg { m_ops : list op; m_elec : bool; m_params : bool }.
Record rsp := mkrsp { r_results : list (N * status); r_elec : bool; r_params : bool }.

(* OpDetailsResults: (constants.OpType, entry kind, key) *)
Notation det := (N * N * N)%type (only parsing).
(* constants.OpFromAFTOp: Add = 1, Delete = 2, Replace = 3, unknown = 0 *)
Definition optype_of (t : N) : N :=
  if t =? 1 then 1 else if t =? 3 then 2 else if t =? 2 then 3 else 0.
Definition details_of (o : op) : det := (optype_of (o_type o), o_kind o, o_key o).

(* an entry of the result queue; RNil is the nil pointer appended when clearPendingOp fails
   (gribiclient.go:1011-1015) *)
Inductive result :=
| ROp (id : N) (s : status) (d : option det)
| RElec (client_err : bool)
| RParams (client_err : bool)
| RNil.

(* v_strict_unknown = true : repaired client, a RIB_PROGRAMMED for an id that is not pending is
   tolerated in FIB-ack mode only if a terminal result for that id was recorded before;
   false : the tree, any RIB_PROGRAMMED for a non-pending id is tolerated in FIB-ack mode
   (gribiclient.go:1069-1080), also for ids that were never queued. *)
Record variant := mkvar { v_strict_unknown : bool }.
Definition v_fixed := mkvar true.
Definition v_tree := mkvar false.

(* client options: FIBACK(), "some option given" (SessParams != nil), ElectedPrimaryClient *)
Record cfg := mkcfg { fib_ack : bool; c_params : bool; c_elec : bool; c_var : variant }.

Record st := mkst {
  sendq : list msg;
  pend : alist N op;
  pend_elec : bool;
  pend_params : bool;
  results : list result;
  send_errs : N;
  read_errs : N;
  sending : bool;
  sender_alive : bool;     (* the sender goroutine has not returned *)
  recv_alive : bool;       (* the receiver goroutine has not returned *)
  stream_dead : bool;      (* the RPC has ended with a status: the next Send fails *)
  send_arm : bool          (* the next Send fails (injected) *)
}.

Definition init : st := mkst [] [] false false [] 0 0 false true true false false.

Definition pget (id : N) (p : alist N op) := aget N.eqb id p.

(* handleModifyRequest: ops are added in order, the first duplicate pending id stops it with an
   error (the election id and the parameters of that message are then not noted) *)
Fixpoint add_pending (ops : list op) (p : alist N op) : alist N op * bool :=
  match ops with
  | [] => (p, false)
  | o :: tl => match pget (o_id o) p with
               | Some _ => (p, true)
               | None => add_pending tl (aset N.eqb (o_id o) o p)
               end
  end.

Definition handle_req (s : st) (m : msg) : st :=
  let '(p, err) := add_pending (m_ops m) (pend s) in
  if err then
    mkst (sendq s) p (pend_elec s) (pend_params s) (results s) (send_errs s + 1) (read_errs s)
         (sending s) (sender_alive s) (recv_alive s) (stream_dead s) (send_arm s)
  else
    mkst (sendq s) p (pend_elec s || m_elec m) (pend_params s || m_params m) (results s) (send_errs s) (read_errs s)
         (sending s) (sender_alive s) (recv_alive s) (stream_dead s) (send_arm s).

(* q(): the request goes to the sender goroutine; if that one has returned it is dropped; if the
   stream is broken the Send fails, the error is recorded and the sender returns *)
Definition hand_to_sender (s : st) : st :=
  if sender_alive s then
    if send_arm s || stream_dead s then
      mkst (sendq s) (pend s) (pend_elec s) (pend_params s) (results s) (send_errs s + 1) (read_errs s)
           (sending s) false (recv_alive s) (stream_dead s) false
    else s
  else s.

Definition set_sendq (s : st) (q : list msg) : st :=
  mkst q (pend s) (pend_elec s) (pend_params s) (results s) (send_errs s) (read_errs s)
       (sending s) (sender_alive s) (recv_alive s) (stream_dead s) (send_arm s).
Definition set_sending (s : st) (b : bool) : st :=
  mkst (sendq s) (pend s) (pend_elec s) (pend_params s) (results s) (send_errs s) (read_errs s)
       b (sender_alive s) (recv_alive s) (stream_dead s) (send_arm s).

(* Q *)
Definition do_q (s : st) (m : msg) : st :=
  let s1 := handle_req s m in
  if sending s1 then hand_to_sender s1 else set_sendq s1 (sendq s1 ++ [m]).

Fixpoint flush (s : st) (q : list msg) : st :=
  match q with [] => s | _ :: tl => flush (hand_to_sender s) tl end.

(* StartSending *)
Definition start_sending (c : cfg) (s : st) : st :=
  let s0 := set_sending s true in
  let s1 := if c_params c then do_q s0 (mkmsg [] false true) else s0 in
  let s2 := if c_elec c then do_q s1 (mkmsg [] true false) else s1 in
  set_sendq (flush s2 (sendq s2)) [].

(* does a result with this status take the operation out of the pending queue? *)
Definition removes (c : cfg) (x : status) : bool :=
  match x with
  | SFailed | SFib | SFibFailed => true
  | SRib => negb (fib_ack c)
  | SOther => false
  end.
Definition status_eqb (a b : status) : bool :=
  match a, b with
  | SOther, SOther | SFailed, SFailed | SRib, SRib | SFib, SFib | SFibFailed, SFibFailed => true
  | _, _ => false
  end.

(* a result that completes operation id *)
Definition is_terminal_for (c : cfg) (id : N) (r : result) : bool :=
  match r with ROp i x _ => (i =? id) && removes c x | _ => false end.
Definition has_terminal (c : cfg) (id : N) (rs : list result) : bool := existsb (is_terminal_for c id) rs.

(* clearPendingOp: new pending queue, entry for the result queue, error *)
Definition clear_pending_op (c : cfg) (s : st) (x : N * status) : alist N op * result * bool :=
  let '(id, x) := x in
  match pget id (pend s) with
  | None =>
      if status_eqb x SRib && fib_ack c && (negb (v_strict_unknown (c_var c)) || has_terminal c id (results s))
      then (pend s, ROp id SRib None, false)
      else (pend s, RNil, true)
  | Some o =>
      (if removes c x then adel N.eqb id (pend s) else pend s, ROp id x (Some (details_of o)), false)
  end.

Definition set_pend_res (s : st) (p : alist N op) (r : list result) : st :=
  mkst (sendq s) p (pend_elec s) (pend_params s) r (send_errs s) (read_errs s)
       (sending s) (sender_alive s) (recv_alive s) (stream_dead s) (send_arm s).

Fixpoint clear_ops (c : cfg) (s : st) (xs : list (N * status)) : st * bool :=
  match xs with
  | [] => (s, false)
  | x :: tl =>
      let '(p, r, err) := clear_pending_op c s x in
      let s' := set_pend_res s p (results s ++ [r]) in
      if err then (s', true) else clear_ops c s' tl
  end.

Definition clear_elec (s : st) : st :=
  mkst (sendq s) (pend s) false (pend_params s) (results s ++ [RElec (negb (pend_elec s))]) (send_errs s) (read_errs s)
       (sending s) (sender_alive s) (recv_alive s) (stream_dead s) (send_arm s).
Definition clear_params (s : st) : st :=
  mkst (sendq s) (pend s) (pend_elec s) false (results s ++ [RParams (negb (pend_params s))]) (send_errs s) (read_errs s)
       (sending s) (sender_alive s) (recv_alive s) (stream_dead s) (send_arm s).

Definition b2n (b : bool) : N := if b then 1 else 0.
Definition populated (r : rsp) : N :=
  b2n (negb (match r_results r with [] => true | _ => false end)) + b2n (r_elec r) + b2n (r_params r).

(* handleModifyResponse *)
Definition handle_resp (c : cfg) (s : st) (r : rsp) : st * bool :=
  if 1 <? populated r then (s, true)
  else
    let s1 := if r_elec r then clear_elec s else s in
    let s2 := if r_params r then clear_params s1 else s1 in
    clear_ops c s2 (r_results r).

Definition recv_fail (s : st) (dead : bool) : st :=
  mkst (sendq s) (pend s) (pend_elec s) (pend_params s) (results s) (send_errs s) (read_errs s + 1)
       (sending s) (sender_alive s) false (stream_dead s || dead) (send_arm s).

Inductive ev :=
| Q (m : msg) | StartSending | StopSending | Resp (r : rsp)
| RecvErr    (* the server ends the RPC with an error status *)
| SendErr    (* the next Send on the stream fails *)
| Eof        (* the server ends the RPC with status OK (nothing arrives afterwards): the receiver reads io.EOF and
                leaves; no error is recorded, nothing is completed - what is pending stays pending *)
| Await.     (* AwaitConverged; does not change the state *)

Definition step (c : cfg) (s : st) (e : ev) : st :=
  match e with
  | Q m => do_q s m
  | StartSending => start_sending c s
  | StopSending => set_sending s false
  | Resp r =>
      if recv_alive s && negb (stream_dead s) then
        let '(s', err) := handle_resp c s r in
        if err then recv_fail s' false else s'
      else s
  | RecvErr => if recv_alive s then recv_fail s true else s
  | SendErr =>
      mkst (sendq s) (pend s) (pend_elec s) (pend_params s) (results s) (send_errs s) (read_errs s)
           (sending s) (sender_alive s) (recv_alive s) (stream_dead s) true
  | Eof => s
  | Await => s
  end.

Definition run (c : cfg) (s : st) (evs : list ev) : st := fold_left (step c) evs s.

(* AwaitConverged (with a context that expires): the recorded errors, success, or not converged *)
Inductive await_out := AwOk | AwErr (nsend nrecv : N) | AwPending.
Definition no_errors (s : st) : bool := (send_errs s =? 0) && (read_errs s =? 0).
Definition converged (s : st) : bool :=
  match sendq s, pend s with [], [] => negb (pend_elec s) && negb (pend_params s) | _, _ => false end.
Definition await (s : st) : await_out :=
  if no_errors s then (if converged s then AwOk else AwPending) else AwErr (send_errs s) (read_errs s).

(* what the theorems talk about *)
Definition msg_ids (m : msg) : list N := map o_id (m_ops m).
Fixpoint queued_ops (evs : list ev) : list op :=
  match evs with [] => [] | Q m :: tl => m_ops m ++ queued_ops tl | _ :: tl => queued_ops tl end.
Definition queued_ids (evs : list ev) : list N := map o_id (queued_ops evs).
Definition count_terminal (c : cfg) (id : N) (rs : list result) : nat := length (filter (is_terminal_for c id) rs).
Definition is_nil (r : result) : bool := match r with RNil => true | _ => false end.
(* the result list without the nil entries *)
Definition proj_results (rs : list result) : list result := filter (fun r => negb (is_nil r)) rs.

(* without any assumption on the ids (the same id twice inside one request, the id of a pending or of a
   completed operation in a later request): Q rejects a message as soon as one of its operations carries
   an id that is pending - the operations before it stay registered, the rest is not, a send error is
   recorded -; accepted_ops are the operations of the messages that were not rejected when they were queued *)
Definition rejected (s : st) (m : msg) : bool := snd (add_pending (m_ops m) (pend s)).
Fixpoint accepted_ops (c : cfg) (s : st) (evs : list ev) : list op :=
  match evs with
  | [] => []
  | Q m :: tl => (if rejected s m then [] else m_ops m) ++ accepted_ops c (step c s (Q m)) tl
  | e :: tl => accepted_ops c (step c s e) tl
  end.
(* o is accounted for: the pending queue holds o itself under its id, or a result for its id carries its
   type and key *)
Definition accounted (s : st) (o : op) : Prop :=
  pget (o_id o) (pend s) = Some o \/ exists x, In (ROp (o_id o) x (Some (details_of o))) (results s).

(* ---------------------------------------------------------------- correspondence cases *)

Record obs := mkobs {
  ob_pend : list N;          (* ids of Pending(), as returned (sorted) *)
  ob_elec : bool; ob_params : bool;
  ob_results : list result;  (* Results(), nil entries included *)
  ob_se : N; ob_re : N;      (* len(Status().SendErrs), len(Status().ReadErrs) *)
  ob_await : option await_out
}.

Fixpoint list_eqb {A} (eqb : A -> A -> bool) (l1 l2 : list A) : bool :=
  match l1, l2 with
  | [], [] => true
  | a :: t1, b :: t2 => eqb a b && list_eqb eqb t1 t2
  | _, _ => false
  end.
Definition det_eqb (a b : det) : bool :=
  let '(a1, a2, a3) := a in let '(b1, b2, b3) := b in (a1 =? b1) && (a2 =? b2) && (a3 =? b3).
Definition result_eqb (a b : result) : bool :=
  match a, b with
  | ROp i x d, ROp j y e =>
      (i =? j) && status_eqb x y &&
      match d, e with Some u, Some v => det_eqb u v | None, None => true | _, _ => false end
  | RElec x, RElec y => Bool.eqb x y
  | RParams x, RParams y => Bool.eqb x y
  | RNil, RNil => true
  | _, _ => false
  end.
Definition await_eqb (a b : await_out) : bool :=
  match a, b with
  | AwOk, AwOk | AwPending, AwPending => true
  | AwErr x y, AwErr u v => (x =? u) && (y =? v)
  | _, _ => false
  end.
Definition ids_match (l : list N) (p : alist N op) : bool :=
  (N.of_nat (length l) =? N.of_nat (length p)) && forallb (fun i => amem N.eqb i p) l
  && forallb (fun kv => existsb (N.eqb (fst kv)) l) p.

Definition obs_ok (s : st) (e : ev) (o : obs) : bool :=
  ids_match (ob_pend o) (pend s) && Bool.eqb (ob_elec o) (pend_elec s) && Bool.eqb (ob_params o) (pend_params s)
  && list_eqb result_eqb (ob_results o) (results s)
  && (ob_se o =? send_errs s) && (ob_re o =? read_errs s)
  && match e, ob_await o with
     | Await, Some a => await_eqb a (await s)
     | Await, None => false
     | _, None => true
     | _, Some _ => false
     end.

Fixpoint trace_ok (c : cfg) (s : st) (l : list (ev * obs)) : bool :=
  match l with
  | [] => true
  | (e, o) :: tl => let s' := step c s e in obs_ok s' e o && trace_ok c s' tl
  end.

(* a case: (fib_ack, params, elec) and the steps with what the implementation showed after each;
   the correspondence always runs the repaired variant *)
Definition ccase := ((bool * bool * bool) * list (ev * obs))%type.
Definition ccase_ok_with (v : variant) (k : ccase) : bool :=
  let '((f, p, e), l) := k in trace_ok (mkcfg f p e v) init l.
Definition ccase_ok : ccase -> bool := ccase_ok_with v_fixed.
Fixpoint bad_indices {A} (f : A -> bool) (l : list A) (i : N) : list N :=
  match l with [] => [] | a :: tl => if f a then bad_indices f tl (i + 1) else i :: bad_indices f tl (i + 1) end.
Definition cmismatches (cs : list ccase) : list N := bad_indices ccase_ok cs 0.
(* diagnostic: the same comparison against the model of the tree as it is *)
Definition cmismatches_tree (cs : list ccase) : list N := bad_indices (ccase_ok_with v_tree) cs 0.
