(* C13 — proofs about the client accounting model Client/Queues.v *)
From Coq Require Import List NArith Bool Lia ZifyN ZifyBool.
From GV.Base Require Import Alist.
From GV.Client Require Import Queues.
Import ListNotations.
Open Scope N_scope.

Local Notation nspec := N.eqb_spec.

Lemma pget_adel_same id p : pget id (adel N.eqb id p) = None.
Proof. apply aget_adel_same. Qed.
Lemma pget_adel_other id id' p : id <> id' -> pget id (adel N.eqb id' p) = pget id p.
Proof. apply (aget_adel_other N.eqb nspec). Qed.
Lemma pget_aset_same id o p : pget id (aset N.eqb id o p) = Some o.
Proof. apply (aget_aset_same N.eqb nspec). Qed.
Lemma pget_aset_other id id' o p : id <> id' -> pget id (aset N.eqb id' o p) = pget id p.
Proof. apply (aget_aset_other N.eqb nspec). Qed.

Lemma nodup_app_r {A} (l l' : list A) : NoDup (l ++ l') -> NoDup l'.
Proof. induction l as [|a l IH]; simpl; intros H; [exact H|]. inversion H; auto. Qed.
Lemma nodup_app_l {A} (l l' : list A) : NoDup (l ++ l') -> NoDup l.
Proof.
  induction l as [|a l IH]; simpl; intros H; [constructor|]. inversion H; subst.
  constructor; auto. intros Hin. apply H2. apply in_or_app. auto.
Qed.

Lemma nodup_app_disj {A} (l l' : list A) x : NoDup (l ++ l') -> In x l -> In x l' -> False.
Proof.
  induction l as [|a l IH]; simpl; intros ND H1 H2; [tauto|].
  inversion ND; subst. destruct H1 as [->|H1]; [|auto].
  apply H3. apply in_or_app. auto.
Qed.

(* ------------------------------------------------------------------ counting terminal results *)

Lemma count_terminal_app c id rs r :
  count_terminal c id (rs ++ [r]) = (count_terminal c id rs + (if is_terminal_for c id r then 1 else 0))%nat.
Proof.
  unfold count_terminal. rewrite filter_app, app_length. simpl.
  destruct (is_terminal_for c id r); reflexivity.
Qed.

Lemma has_terminal_count c id rs : has_terminal c id rs = false <-> count_terminal c id rs = 0%nat.
Proof.
  unfold has_terminal, count_terminal. induction rs as [|r rs IH]; simpl; [tauto|].
  destruct (is_terminal_for c id r); simpl; [split; discriminate|exact IH].
Qed.

Lemma has_terminal_app c id rs r :
  has_terminal c id (rs ++ [r]) = has_terminal c id rs || is_terminal_for c id r.
Proof. unfold has_terminal. rewrite existsb_app. simpl. rewrite orb_false_r. reflexivity. Qed.

(* ------------------------------------------------------------------ the accounting invariant *)

(* qo: the operations queued so far (pairwise distinct ids) *)
Record PR (c : cfg) (qo : list op) (p : alist N op) (rs : list result) : Prop := {
  pr_pend : forall id o, pget id p = Some o -> In o qo /\ o_id o = id;
  pr_cons : forall id, In id (map o_id qo) ->
              (pget id p <> None /\ count_terminal c id rs = 0%nat) \/
              (pget id p = None /\ count_terminal c id rs = 1%nat);
  pr_unq  : forall id, ~ In id (map o_id qo) -> count_terminal c id rs = 0%nat;
  pr_det  : forall id x d, In (ROp id x (Some d)) rs -> exists o, In o qo /\ o_id o = id /\ d = details_of o;
  pr_nodet : forall id x, In (ROp id x None) rs -> x = SRib /\ fib_ack c = true
}.

Lemma PR_init c : PR c [] [] [].
Proof.
  split; simpl; intros; try tauto; try discriminate.
Qed.

Lemma is_terminal_for_id c id id' x d : is_terminal_for c id' (ROp id x d) = (id =? id') && removes c x.
Proof. reflexivity. Qed.

(* clearPendingOp keeps the invariant *)
Lemma PR_clear c qo s x p r err :
  PR c qo (pend s) (results s) ->
  clear_pending_op c s x = (p, r, err) ->
  PR c qo p (results s ++ [r]).
Proof.
  intros H. destruct x as [id x]. unfold clear_pending_op.
  destruct (pget id (pend s)) as [o|] eqn:G.
  - intros E; inversion E; subst; clear E.
    destruct (pr_pend _ _ _ _ H id o G) as [Ho Hid].
    assert (Hq : In id (map o_id qo)) by (rewrite <- Hid; apply in_map; exact Ho).
    destruct (removes c x) eqn:R.
    + split.
      * intros i o' Hg. destruct (N.eq_dec i id) as [->|Hn].
        -- rewrite pget_adel_same in Hg. discriminate.
        -- rewrite pget_adel_other in Hg by exact Hn. eapply pr_pend; eauto.
      * intros i Hi. rewrite count_terminal_app, is_terminal_for_id, R, andb_true_r.
        destruct (N.eqb_spec id i) as [<-|Hn].
        -- right. split; [apply pget_adel_same|].
           destruct (pr_cons _ _ _ _ H id Hq) as [[_ Hc]|[Hc _]]; [lia|congruence].
        -- rewrite pget_adel_other by congruence.
           destruct (pr_cons _ _ _ _ H i Hi) as [[A B]|[A B]]; [left|right]; split; auto; lia.
      * intros i Hi. rewrite count_terminal_app, is_terminal_for_id, R, andb_true_r.
        destruct (N.eqb_spec id i) as [<-|Hn]; [tauto|].
        rewrite (pr_unq _ _ _ _ H i Hi). reflexivity.
      * intros i y d Hin. apply in_app_or in Hin. destruct Hin as [Hin|[Hin|[]]].
        -- eapply pr_det; eauto.
        -- inversion Hin; subst. exists o. auto.
      * intros i y Hin. apply in_app_or in Hin. destruct Hin as [Hin|[Hin|[]]].
        -- eapply pr_nodet; eauto.
        -- discriminate.
    + split.
      * eapply pr_pend; eauto.
      * intros i Hi. rewrite count_terminal_app, is_terminal_for_id, R, andb_false_r.
        destruct (pr_cons _ _ _ _ H i Hi) as [[A B]|[A B]]; [left|right]; split; auto; lia.
      * intros i Hi. rewrite count_terminal_app, is_terminal_for_id, R, andb_false_r.
        rewrite (pr_unq _ _ _ _ H i Hi). reflexivity.
      * intros i y d Hin. apply in_app_or in Hin. destruct Hin as [Hin|[Hin|[]]].
        -- eapply pr_det; eauto.
        -- inversion Hin; subst. exists o. auto.
      * intros i y Hin. apply in_app_or in Hin. destruct Hin as [Hin|[Hin|[]]].
        -- eapply pr_nodet; eauto.
        -- discriminate.
  - destruct (status_eqb x SRib && fib_ack c && _) eqn:T; intros E; inversion E; subst; clear E.
    + apply andb_true_iff in T. destruct T as [T _]. apply andb_true_iff in T. destruct T as [T1 T2].
      assert (x = SRib) by (destruct x; simpl in T1; congruence). subst x.
      assert (R : removes c SRib = false) by (simpl; rewrite T2; reflexivity).
      split.
      * eapply pr_pend; eauto.
      * intros i Hi. rewrite count_terminal_app, is_terminal_for_id, R, andb_false_r.
        destruct (pr_cons _ _ _ _ H i Hi) as [[A B]|[A B]]; [left|right]; split; auto; lia.
      * intros i Hi. rewrite count_terminal_app, is_terminal_for_id, R, andb_false_r.
        rewrite (pr_unq _ _ _ _ H i Hi). reflexivity.
      * intros i y d Hin. apply in_app_or in Hin. destruct Hin as [Hin|[Hin|[]]].
        -- eapply pr_det; eauto.
        -- discriminate.
      * intros i y Hin. apply in_app_or in Hin. destruct Hin as [Hin|[Hin|[]]].
        -- eapply pr_nodet; eauto.
        -- inversion Hin; subst. auto.
    + split.
      * eapply pr_pend; eauto.
      * intros i Hi. rewrite count_terminal_app. simpl.
        destruct (pr_cons _ _ _ _ H i Hi) as [[A B]|[A B]]; [left|right]; split; auto; lia.
      * intros i Hi. rewrite count_terminal_app. simpl.
        rewrite (pr_unq _ _ _ _ H i Hi). reflexivity.
      * intros i y d Hin. apply in_app_or in Hin. destruct Hin as [Hin|[Hin|[]]].
        -- eapply pr_det; eauto.
        -- discriminate.
      * intros i y Hin. apply in_app_or in Hin. destruct Hin as [Hin|[Hin|[]]].
        -- eapply pr_nodet; eauto.
        -- discriminate.
Qed.

Lemma PR_clear_ops c qo xs : forall s s' err,
  PR c qo (pend s) (results s) -> clear_ops c s xs = (s', err) -> PR c qo (pend s') (results s').
Proof.
  induction xs as [|x tl IH]; simpl; intros s s' err H E.
  - inversion E; subst. exact H.
  - destruct (clear_pending_op c s x) as [[p r] e] eqn:C.
    pose proof (PR_clear _ _ _ _ _ _ _ H C) as H'.
    destruct e.
    + inversion E; subst. exact H'.
    + eapply IH; [|exact E]. exact H'.
Qed.

(* appending a result that is not about an operation *)
Lemma PR_app_other c qo p rs r :
  (forall id, is_terminal_for c id r = false) ->
  (forall id x d, r <> ROp id x d) ->
  PR c qo p rs -> PR c qo p (rs ++ [r]).
Proof.
  intros T N H. split.
  - eapply pr_pend; eauto.
  - intros i Hi. rewrite count_terminal_app, T.
    destruct (pr_cons _ _ _ _ H i Hi) as [[A B]|[A B]]; [left|right]; split; auto; lia.
  - intros i Hi. rewrite count_terminal_app, T. rewrite (pr_unq _ _ _ _ H i Hi). reflexivity.
  - intros i y d Hin. apply in_app_or in Hin. destruct Hin as [Hin|[Hin|[]]].
    + eapply pr_det; eauto.
    + exfalso. eapply N; eauto.
  - intros i y Hin. apply in_app_or in Hin. destruct Hin as [Hin|[Hin|[]]].
    + eapply pr_nodet; eauto.
    + exfalso. eapply N; eauto.
Qed.

Lemma PR_handle_resp c qo s r s' err :
  PR c qo (pend s) (results s) -> handle_resp c s r = (s', err) -> PR c qo (pend s') (results s').
Proof.
  intros H. unfold handle_resp. destruct (1 <? populated r).
  - intros E; inversion E; subst; exact H.
  - intros E. eapply PR_clear_ops; [|exact E].
    assert (H1 : PR c qo (pend (if r_elec r then clear_elec s else s)) (results (if r_elec r then clear_elec s else s))).
    { destruct (r_elec r); [|exact H]. simpl. apply PR_app_other; auto; discriminate. }
    destruct (r_params r); [|exact H1]. simpl. apply PR_app_other; auto; discriminate.
Qed.

(* functions that do not touch the pending queue and the results *)
Lemma hand_to_sender_pr s : pend (hand_to_sender s) = pend s /\ results (hand_to_sender s) = results s.
Proof. unfold hand_to_sender. destruct (sender_alive s); [destruct (send_arm s || stream_dead s)|]; auto. Qed.
Lemma flush_pr q : forall s, pend (flush s q) = pend s /\ results (flush s q) = results s.
Proof.
  induction q as [|m q IH]; simpl; intros s; [auto|].
  destruct (IH (hand_to_sender s)) as [A B]. destruct (hand_to_sender_pr s) as [C D].
  split; congruence.
Qed.

(* adding fresh operations *)
Lemma add_pending_fresh ops : forall p,
  NoDup (map o_id ops) -> (forall o, In o ops -> pget (o_id o) p = None) ->
  exists p', add_pending ops p = (p', false) /\
    (forall id, pget id p' = match find (fun o => o_id o =? id) ops with Some o => Some o | None => pget id p end).
Proof.
  induction ops as [|o tl IH]; simpl; intros p ND F.
  - exists p. auto.
  - rewrite (F o) by auto. inversion ND as [|? ? Hni ND']; subst.
    destruct (IH (aset N.eqb (o_id o) o p) ND') as (p' & E & G).
    { intros o' Ho'. rewrite pget_aset_other; [apply F; auto|].
      intros Heq. apply Hni. rewrite <- Heq. apply in_map. exact Ho'. }
    exists p'. split; [exact E|]. intros id. rewrite G.
    destruct (find (fun o0 => o_id o0 =? id) tl) as [o'|] eqn:Fd.
    + destruct (N.eqb_spec (o_id o) id) as [Heq|]; [|reflexivity].
      exfalso. apply find_some in Fd. destruct Fd as [Hin He]. apply N.eqb_eq in He.
      apply Hni. rewrite Heq, <- He. apply in_map. exact Hin.
    + destruct (N.eqb_spec (o_id o) id) as [<-|Hn].
      * apply pget_aset_same.
      * apply pget_aset_other. congruence.
Qed.

Lemma find_id_some ops id o : find (fun o => o_id o =? id) ops = Some o -> In o ops /\ o_id o = id.
Proof. intros F. apply find_some in F. destruct F as [A B]. apply N.eqb_eq in B. auto. Qed.
Lemma find_id_none ops id : find (fun o => o_id o =? id) ops = None -> ~ In id (map o_id ops).
Proof.
  intros F Hin. apply in_map_iff in Hin. destruct Hin as (o & E & Ho).
  pose proof (find_none _ _ F o Ho) as X. simpl in X. apply N.eqb_neq in X. congruence.
Qed.

Lemma PR_add c qo p rs ops p' :
  PR c qo p rs -> NoDup (map o_id qo ++ map o_id ops) ->
  add_pending ops p = (p', false) \/ True ->
  (forall id, pget id p' = match find (fun o => o_id o =? id) ops with Some o => Some o | None => pget id p end) ->
  PR c (qo ++ ops) p' rs.
Proof.
  intros H ND _ G.
  assert (Hdisj : forall id, In id (map o_id qo) -> In id (map o_id ops) -> False).
  { intros id A B. eapply nodup_app_disj; eauto. }
  split.
  - intros id o Hg. rewrite G in Hg. destruct (find _ ops) as [o'|] eqn:F.
    + inversion Hg; subst. apply find_id_some in F. destruct F. split; [apply in_or_app; right|]; auto.
    + destruct (pr_pend _ _ _ _ H id o Hg). split; [apply in_or_app; left|]; auto.
  - intros id Hi. rewrite map_app in Hi. apply in_app_or in Hi. rewrite G.
    destruct (find _ ops) as [o'|] eqn:F.
    + left. split; [discriminate|]. apply find_id_some in F. destruct F as [Fi Fe].
      apply (pr_unq _ _ _ _ H). intros Hq. apply (Hdisj id Hq). rewrite <- Fe. apply in_map. exact Fi.
    + apply find_id_none in F. destruct Hi as [Hi|Hi]; [|tauto]. apply (pr_cons _ _ _ _ H id Hi).
  - intros id Hn. apply (pr_unq _ _ _ _ H). intros Hq. apply Hn. rewrite map_app. apply in_or_app. auto.
  - intros id x d Hin. destruct (pr_det _ _ _ _ H id x d Hin) as (o & A & B & C).
    exists o. split; [apply in_or_app; left|]; auto.
  - eapply pr_nodet; eauto.
Qed.

Lemma handle_req_fresh c qo s m :
  PR c qo (pend s) (results s) -> NoDup (map o_id qo ++ msg_ids m) ->
  PR c (qo ++ m_ops m) (pend (handle_req s m)) (results (handle_req s m))
  /\ send_errs (handle_req s m) = send_errs s.
Proof.
  intros H ND. unfold handle_req.
  destruct (add_pending_fresh (m_ops m) (pend s)) as (p' & E & G).
  - apply nodup_app_r in ND. exact ND.
  - intros o Ho. destruct (pget (o_id o) (pend s)) as [o'|] eqn:Gt; [|reflexivity].
    exfalso. destruct (pr_pend _ _ _ _ H _ _ Gt) as [A B].
    apply (nodup_app_disj _ _ (o_id o) ND).
    + rewrite <- B. apply in_map. exact A.
    + unfold msg_ids. apply in_map. exact Ho.
  - rewrite E. simpl. split; [|reflexivity]. eapply PR_add; eauto.
Qed.

Lemma handle_req_noops s e p :
  pend (handle_req s (mkmsg [] e p)) = pend s /\ results (handle_req s (mkmsg [] e p)) = results s
  /\ recv_alive (handle_req s (mkmsg [] e p)) = recv_alive s /\ read_errs (handle_req s (mkmsg [] e p)) = read_errs s
  /\ stream_dead (handle_req s (mkmsg [] e p)) = stream_dead s.
Proof. unfold handle_req. simpl. auto. Qed.

Lemma do_q_pr s m : pend (do_q s m) = pend (handle_req s m) /\ results (do_q s m) = results (handle_req s m).
Proof.
  unfold do_q. destruct (sending (handle_req s m)).
  - apply hand_to_sender_pr.
  - auto.
Qed.

Lemma start_sending_pr c s : pend (start_sending c s) = pend s /\ results (start_sending c s) = results s.
Proof.
  unfold start_sending.
  set (s0 := set_sending s true).
  set (s1 := if c_params c then do_q s0 _ else s0).
  set (s2 := if c_elec c then do_q s1 _ else s1).
  assert (A1 : pend s1 = pend s /\ results s1 = results s).
  { subst s1. destruct (c_params c); [|auto].
    destruct (do_q_pr s0 (mkmsg [] false true)) as [A B]. destruct (handle_req_noops s0 false true) as (C & D & _).
    split; [rewrite A, C|rewrite B, D]; reflexivity. }
  assert (A2 : pend s2 = pend s /\ results s2 = results s).
  { subst s2. destruct (c_elec c); [|auto].
    destruct (do_q_pr s1 (mkmsg [] true false)) as [A B]. destruct (handle_req_noops s1 true false) as (C & D & _).
    destruct A1. split; [rewrite A, C|rewrite B, D]; auto. }
  simpl. destruct (flush_pr (sendq s2) s2) as [A B]. destruct A2. split; congruence.
Qed.

(* one event *)
Lemma PR_step c qo s e :
  PR c qo (pend s) (results s) ->
  NoDup (map o_id qo ++ queued_ids [e]) ->
  PR c (qo ++ queued_ops [e]) (pend (step c s e)) (results (step c s e)).
Proof.
  intros H ND. destruct e; cbn [step queued_ops]; rewrite ?app_nil_r; try exact H.
  - unfold queued_ids in ND. cbn [queued_ops] in ND. rewrite !app_nil_r in ND.
    destruct (do_q_pr s m) as [A B]. rewrite A, B. apply handle_req_fresh; auto.
  - destruct (start_sending_pr c s) as [A B]. rewrite A, B. exact H.
  - destruct (recv_alive s && negb (stream_dead s)); [|exact H].
    destruct (handle_resp c s r) as [s' err] eqn:E.
    pose proof (PR_handle_resp _ _ _ _ _ _ H E). destruct err; simpl; auto.
  - destruct (recv_alive s); simpl; auto.
Qed.

Lemma queued_ops_app e evs : queued_ops (e :: evs) = queued_ops [e] ++ queued_ops evs.
Proof. destruct e; simpl; rewrite ?app_nil_r; reflexivity. Qed.

Lemma PR_run c evs : forall qo s,
  PR c qo (pend s) (results s) ->
  NoDup (map o_id qo ++ queued_ids evs) ->
  PR c (qo ++ queued_ops evs) (pend (run c s evs)) (results (run c s evs)).
Proof.
  induction evs as [|e evs IH]; intros qo s H ND.
  - simpl. rewrite app_nil_r. exact H.
  - change (run c s (e :: evs)) with (run c (step c s e) evs).
    rewrite queued_ops_app, app_assoc. apply IH.
    + apply PR_step; auto. unfold queued_ids in *. rewrite queued_ops_app, map_app, app_assoc in ND.
      apply nodup_app_l in ND. exact ND.
    + unfold queued_ids in *. rewrite queued_ops_app in ND. rewrite map_app in *. rewrite <- app_assoc. exact ND.
Qed.

Lemma PR_reach c evs : NoDup (queued_ids evs) ->
  PR c (queued_ops evs) (pend (run c init evs)) (results (run c init evs)).
Proof. intros ND. apply (PR_run c evs [] init (PR_init c)). exact ND. Qed.

(* ------------------------------------------------------------------ C13 theorems *)

Theorem conservation c evs : NoDup (queued_ids evs) ->
  let s := run c init evs in
  forall id,
    (In id (queued_ids evs) ->
       (pget id (pend s) <> None /\ count_terminal c id (results s) = 0%nat) \/
       (pget id (pend s) = None /\ count_terminal c id (results s) = 1%nat))
    /\ (~ In id (queued_ids evs) -> pget id (pend s) = None /\ count_terminal c id (results s) = 0%nat).
Proof.
  intros ND s id. pose proof (PR_reach c evs ND) as H. fold s in H. split.
  - apply (pr_cons _ _ _ _ H).
  - intros Hn. split; [|apply (pr_unq _ _ _ _ H); exact Hn].
    destruct (pget id (pend s)) as [o|] eqn:G; [|reflexivity].
    exfalso. destruct (pr_pend _ _ _ _ H _ _ G) as [A B]. apply Hn. unfold queued_ids. rewrite <- B. apply in_map. exact A.
Qed.

Lemma in_proj r rs : In r (proj_results rs) <-> In r rs /\ r <> RNil.
Proof.
  unfold proj_results. rewrite filter_In. destruct r; simpl; intuition congruence.
Qed.

Theorem result_matches_op c evs : NoDup (queued_ids evs) ->
  let s := run c init evs in
  (forall id x d, In (ROp id x d) (proj_results (results s)) ->
     match d with
     | Some dd => exists o, In o (queued_ops evs) /\ o_id o = id /\ dd = details_of o
     | None => x = SRib /\ fib_ack c = true /\ removes c x = false
     end)
  /\ (forall id o, pget id (pend s) = Some o -> In o (queued_ops evs) /\ o_id o = id)
  /\ (forall o o', In o (queued_ops evs) -> In o' (queued_ops evs) -> o_id o = o_id o' -> o = o').
Proof.
  intros ND s. pose proof (PR_reach c evs ND) as H. fold s in H. split; [|split].
  - intros id x d Hin. apply in_proj in Hin. destruct Hin as [Hin _]. destruct d as [dd|].
    + eapply pr_det; eauto.
    + destruct (pr_nodet _ _ _ _ H id x Hin) as [-> F]. simpl. rewrite F. auto.
  - apply (pr_pend _ _ _ _ H).
  - unfold queued_ids in ND. revert ND. generalize (queued_ops evs). clear.
    induction l as [|a l IH]; simpl; intros ND o o' A B E; [tauto|].
    inversion ND; subst. destruct A as [->|A], B as [->|B]; auto.
    + exfalso. apply H1. rewrite E. apply in_map. exact B.
    + exfalso. apply H1. rewrite <- E. apply in_map. exact A.
Qed.

Theorem await_sound s :
  (await s = AwOk <->
     sendq s = [] /\ pend s = [] /\ pend_elec s = false /\ pend_params s = false /\ send_errs s = 0 /\ read_errs s = 0)
  /\ (forall a b, await s = AwErr a b <-> a = send_errs s /\ b = read_errs s /\ (a <> 0 \/ b <> 0))
  /\ (await s = AwPending <-> send_errs s = 0 /\ read_errs s = 0 /\
        ~ (sendq s = [] /\ pend s = [] /\ pend_elec s = false /\ pend_params s = false)).
Proof.
  unfold await, no_errors, converged.
  destruct (N.eqb_spec (send_errs s) 0) as [E1|E1], (N.eqb_spec (read_errs s) 0) as [E2|E2];
    destruct (sendq s), (pend s), (pend_elec s), (pend_params s); simpl;
    (split; [|split]); try (intros a b); (split; intros X);
    try discriminate X; try (inversion X; subst; clear X);
    try (destruct X as (X1 & X2 & X3); subst);
    try reflexivity; try tauto;
    try (exfalso; intuition congruence);
    try (repeat split; auto; intuition congruence).
Qed.

(* converged = answered *)
Theorem converged_is_answered c evs : NoDup (queued_ids evs) ->
  let s := run c init evs in
  await s = AwOk ->
  forall id, In id (queued_ids evs) -> pget id (pend s) = None /\ count_terminal c id (results s) = 1%nat.
Proof.
  intros ND s Aw id Hin. apply (proj1 (await_sound s)) in Aw. destruct Aw as (_ & Hp & _).
  destruct (proj1 (conservation c evs ND id) Hin) as [[A _]|B]; [|exact B].
  exfalso. apply A. fold s. rewrite Hp. reflexivity.
Qed.

(* a RIB acknowledgement never completes anything in FIB-ack mode *)
Lemma clear_ops_rib c xs : fib_ack c = true -> (forall x, In x xs -> snd x = SRib) ->
  forall s, pend (fst (clear_ops c s xs)) = pend s.
Proof.
  intros F. induction xs as [|[id x] tl IH]; simpl; intros A s; [reflexivity|].
  assert (x = SRib) by (apply (A (id, x)); auto). subst x.
  destruct (pget id (pend s)) as [o|]; simpl; rewrite F; simpl.
  - rewrite IH by (intros; apply A; auto). reflexivity.
  - destruct (negb _ || _); simpl; [|reflexivity].
    rewrite IH by (intros; apply A; auto). reflexivity.
Qed.

Theorem rib_ack_not_terminal_in_fib_mode c s r :
  fib_ack c = true -> (forall x, In x (r_results r) -> snd x = SRib) ->
  pend (step c s (Resp r)) = pend s
  /\ (pend s <> [] -> await (step c s (Resp r)) <> AwOk).
Proof.
  intros F A.
  assert (P : pend (step c s (Resp r)) = pend s).
  { simpl. destruct (recv_alive s && negb (stream_dead s)); [|reflexivity].
    destruct (handle_resp c s r) as [s' err] eqn:E.
    assert (pend s' = pend s).
    { unfold handle_resp in E. destruct (1 <? populated r); [inversion E; reflexivity|].
      pose proof (clear_ops_rib c (r_results r) F A
         (if r_params r then clear_params (if r_elec r then clear_elec s else s) else (if r_elec r then clear_elec s else s))) as X.
      rewrite E in X. simpl in X. rewrite X. destruct (r_params r), (r_elec r); reflexivity. }
    destruct err; simpl; auto. }
  split; [exact P|]. intros Hne Aw. apply (proj1 (await_sound _)) in Aw. destruct Aw as (_ & Hp & _). congruence.
Qed.

(* ------------------------------------------------------------------ protocol violations surface *)

(* the result is about an operation that is not pending, and it is not the tolerated late RIB
   acknowledgement of an operation completed before *)
Definition violating (c : cfg) (s : st) (x : N * status) : Prop :=
  pget (fst x) (pend s) = None /\
  (snd x = SRib -> fib_ack c = true -> has_terminal c (fst x) (results s) = false).

Lemma clear_pending_op_violating c s x p r err : v_strict_unknown (c_var c) = true ->
  violating c s x -> clear_pending_op c s x = (p, r, err) -> err = true.
Proof.
  intros V [A B]. destruct x as [id x]. simpl in *. unfold clear_pending_op. rewrite A, V. simpl.
  destruct (status_eqb x SRib) eqn:E1; simpl.
  - destruct (fib_ack c) eqn:E2; simpl.
    + rewrite B; auto. intros E; inversion E; reflexivity. destruct x; simpl in E1; congruence.
    + intros E; inversion E; reflexivity.
  - intros E; inversion E; reflexivity.
Qed.

Lemma clear_pending_op_keeps_violating c s x p r y :
  clear_pending_op c s x = (p, r, false) -> violating c s y ->
  violating c (set_pend_res s p (results s ++ [r])) y.
Proof.
  destruct x as [id x], y as [j y]. unfold violating, clear_pending_op. simpl. intros E [A B].
  destruct (pget id (pend s)) as [o|] eqn:G.
  - inversion E; subst; clear E.
    assert (Hn : j <> id) by (intros ->; congruence).
    split.
    + destruct (removes c x); [rewrite pget_adel_other by exact Hn|]; exact A.
    + intros Y F. rewrite has_terminal_app, (B Y F). simpl.
      destruct (N.eqb_spec id j); [congruence|reflexivity].
  - destruct (status_eqb x SRib && fib_ack c && _) eqn:T; inversion E; subst; clear E.
    split; [exact A|]. intros Y F. rewrite has_terminal_app, (B Y F). simpl. rewrite F. simpl. apply andb_false_r.
Qed.

Lemma clear_ops_violating c xs : v_strict_unknown (c_var c) = true ->
  forall s x, In x xs -> violating c s x -> snd (clear_ops c s xs) = true.
Proof.
  intros V. induction xs as [|x0 tl IH]; simpl; intros s x Hin Hv; [tauto|].
  destruct (clear_pending_op c s x0) as [[p r] err] eqn:C. destruct err; [reflexivity|].
  destruct Hin as [->|Hin].
  - pose proof (clear_pending_op_violating _ _ _ _ _ _ V Hv C). discriminate.
  - apply (IH _ x Hin). eapply clear_pending_op_keeps_violating; eauto.
Qed.

Lemma handle_resp_violating c s r x : v_strict_unknown (c_var c) = true ->
  In x (r_results r) -> violating c s x -> snd (handle_resp c s r) = true.
Proof.
  intros V Hin Hv. unfold handle_resp. destruct (1 <? populated r); [reflexivity|].
  apply (clear_ops_violating c _ V _ x Hin).
  destruct Hv as [A B]. unfold violating.
  destruct (r_params r), (r_elec r); simpl; (split; [exact A|]); intros Y F;
    rewrite ?has_terminal_app, (B Y F); reflexivity.
Qed.

(* the receive side: once it has stopped, an error is on record *)
Definition J (s : st) : Prop :=
  (recv_alive s = false -> 1 <= read_errs s) /\ (stream_dead s = true -> 1 <= read_errs s).

Lemma hand_to_sender_J s : J s -> J (hand_to_sender s).
Proof. unfold hand_to_sender. destruct (sender_alive s); [destruct (send_arm s || stream_dead s)|]; auto. Qed.
Lemma flush_J q : forall s, J s -> J (flush s q).
Proof. induction q; simpl; intros; auto using hand_to_sender_J. Qed.
Lemma handle_req_J s m : J s -> J (handle_req s m).
Proof. unfold handle_req. destruct (add_pending _ _) as [p []]; auto. Qed.
Lemma do_q_J s m : J s -> J (do_q s m).
Proof.
  intros H. unfold do_q. destruct (sending _); [apply hand_to_sender_J|]; apply (handle_req_J s m H).
Qed.

Lemma clear_ops_fields c xs : forall s,
  let s' := fst (clear_ops c s xs) in
  recv_alive s' = recv_alive s /\ stream_dead s' = stream_dead s /\ read_errs s' = read_errs s /\ send_errs s' = send_errs s
  /\ sendq s' = sendq s.
Proof.
  induction xs as [|x tl IH]; simpl; intros s; [auto 6|].
  destruct (clear_pending_op c s x) as [[p r] err]. destruct err; simpl; [auto 6|].
  apply (IH (set_pend_res s p (results s ++ [r]))).
Qed.

Lemma handle_resp_fields c s r :
  let s' := fst (handle_resp c s r) in
  recv_alive s' = recv_alive s /\ stream_dead s' = stream_dead s /\ read_errs s' = read_errs s /\ send_errs s' = send_errs s
  /\ sendq s' = sendq s.
Proof.
  unfold handle_resp. destruct (1 <? populated r); simpl; [auto 6|].
  match goal with |- context [clear_ops c ?t _] => pose proof (clear_ops_fields c (r_results r) t) as X end.
  simpl in X. destruct X as (A & B & C & D & E).
  rewrite A, B, C, D, E. destruct (r_params r), (r_elec r); simpl; auto 6.
Qed.

Lemma step_J c s e : J s -> J (step c s e).
Proof.
  intros H. destruct e; simpl.
  - apply do_q_J; exact H.
  - unfold start_sending.
    assert (J0 : J (set_sending s true)) by exact H.
    set (s0 := set_sending s true) in *.
    assert (J1 : J (if c_params c then do_q s0 (mkmsg [] false true) else s0)) by (destruct (c_params c); auto using do_q_J).
    set (s1 := if c_params c then _ else s0) in *.
    assert (J2 : J (if c_elec c then do_q s1 (mkmsg [] true false) else s1)) by (destruct (c_elec c); auto using do_q_J).
    set (s2 := if c_elec c then _ else s1) in *.
    apply (flush_J (sendq s2) s2 J2).
  - exact H.
  - destruct (recv_alive s && negb (stream_dead s)); [|exact H].
    destruct (handle_resp c s r) as [s' err] eqn:E.
    pose proof (handle_resp_fields c s r) as X. rewrite E in X. simpl in X. destruct X as (A & B & C & _).
    destruct H as [H1 H2]. destruct err; unfold J; simpl; rewrite ?A, ?B, ?C; split; intros; try lia; auto.
  - destruct (recv_alive s); [|exact H]. unfold J; simpl. split; intros; lia.
  - exact H.
  - exact H.
  - exact H.
Qed.

Lemma run_J c evs : forall s, J s -> J (run c s evs).
Proof. induction evs as [|e evs IH]; simpl; intros s H; [exact H|]. apply IH. apply step_J. exact H. Qed.

Lemma init_J : J init.
Proof. unfold J; simpl. split; discriminate. Qed.

(* recorded receive errors never disappear *)
Lemma handle_req_read_errs s m : read_errs (handle_req s m) = read_errs s.
Proof. unfold handle_req. destruct (add_pending _ _) as [p []]; reflexivity. Qed.
Lemma hand_to_sender_read_errs s : read_errs (hand_to_sender s) = read_errs s.
Proof. unfold hand_to_sender. destruct (sender_alive s); [destruct (send_arm s || stream_dead s)|]; auto. Qed.
Lemma flush_read_errs q : forall s, read_errs (flush s q) = read_errs s.
Proof. induction q; simpl; intros; auto. rewrite IHq. apply hand_to_sender_read_errs. Qed.
Lemma do_q_read_errs s m : read_errs (do_q s m) = read_errs s.
Proof.
  unfold do_q. destruct (sending _); [rewrite hand_to_sender_read_errs|simpl]; apply handle_req_read_errs.
Qed.

Lemma step_read_errs_mono c s e : read_errs s <= read_errs (step c s e).
Proof.
  destruct e; simpl; try lia.
  - rewrite do_q_read_errs. lia.
  - unfold start_sending. simpl. rewrite flush_read_errs.
    destruct (c_elec c), (c_params c); rewrite ?do_q_read_errs; simpl; lia.
  - destruct (recv_alive s && negb (stream_dead s)); [|lia].
    destruct (handle_resp c s r) as [s' err] eqn:E.
    pose proof (handle_resp_fields c s r) as X. rewrite E in X. simpl in X. destruct X as (_ & _ & C & _).
    destruct err; simpl; lia.
  - destruct (recv_alive s); simpl; lia.
Qed.

Lemma run_read_errs_mono c evs : forall s, read_errs s <= read_errs (run c s evs).
Proof.
  induction evs as [|e evs IH]; simpl; intros s; [lia|].
  pose proof (step_read_errs_mono c s e). pose proof (IH (step c s e)). unfold run in *. lia.
Qed.

Theorem violations_surface c evs r x evs' :
  v_strict_unknown (c_var c) = true ->
  In x (r_results r) -> violating c (run c init evs) x ->
  let s' := run c init (evs ++ Resp r :: evs') in
  1 <= read_errs s' /\ await s' <> AwOk /\ (exists a b, await s' = AwErr a b /\ 1 <= b).
Proof.
  intros V Hin Hv s'.
  assert (R : 1 <= read_errs s').
  { subst s'. unfold run at 1. rewrite fold_left_app. fold (run c init evs).
    set (s := run c init evs) in *.
    change (fold_left (step c) (Resp r :: evs') s) with (run c (step c s (Resp r)) evs').
    pose proof (run_read_errs_mono c evs' (step c s (Resp r))) as M.
    assert (1 <= read_errs (step c s (Resp r))); [|lia].
    pose proof (run_J c evs init init_J) as [J1 J2]. fold s in J1, J2.
    pose proof (step_read_errs_mono c s (Resp r)) as M2.
    destruct (recv_alive s) eqn:RA; [|specialize (J1 eq_refl); lia].
    destruct (stream_dead s) eqn:SD; [specialize (J2 eq_refl); lia|].
    cbn [step]. rewrite RA, SD. cbn [andb negb].
    pose proof (handle_resp_violating c s r x V Hin Hv) as E.
    destruct (handle_resp c s r) as [s1 err]. cbn [snd] in E. subst err. cbn [recv_fail read_errs]. lia. }
  split; [exact R|].
  assert (A : await s' = AwErr (send_errs s') (read_errs s')).
  { unfold await, no_errors. destruct (N.eqb_spec (read_errs s') 0); [lia|]. rewrite andb_false_r. reflexivity. }
  split; [rewrite A; discriminate|]. exists (send_errs s'), (read_errs s'). auto.
Qed.

(* what is a violation, in terms of the history: an id that was never queued, or a further
   terminal result for an operation that has one *)
Theorem unknown_id_is_violating c evs id x : NoDup (queued_ids evs) ->
  ~ In id (queued_ids evs) -> violating c (run c init evs) (id, x).
Proof.
  intros ND Hn. destruct (proj2 (conservation c evs ND id) Hn) as [A B].
  split; [exact A|]. intros _ _. apply has_terminal_count. exact B.
Qed.

Theorem duplicate_terminal_is_violating c evs id x : NoDup (queued_ids evs) ->
  removes c x = true -> count_terminal c id (results (run c init evs)) = 1%nat ->
  violating c (run c init evs) (id, x).
Proof.
  intros ND R C. split; simpl.
  - destruct (in_dec N.eq_dec id (queued_ids evs)) as [Hi|Hn].
    + destruct (proj1 (conservation c evs ND id) Hi) as [[_ Z]|[A _]]; [lia|exact A].
    + apply (proj2 (conservation c evs ND id) Hn).
  - intros -> F. simpl in R. rewrite F in R. discriminate.
Qed.

(* the tree tolerates a RIB acknowledgement for an id that was never queued (FIB-ack mode) *)
Theorem unknown_rib_ack_tolerated_tree :
  exists c evs id, c_var c = v_tree /\ NoDup (queued_ids evs) /\ ~ In id (queued_ids evs) /\
    let s' := run c init (evs ++ [Resp (mkrsp [(id, SRib)] false false)]) in
    read_errs s' = 0 /\ await s' = AwOk.
Proof.
  exists (mkcfg true true false v_tree), [], 900. simpl. repeat split; try constructor; tauto.
Qed.
