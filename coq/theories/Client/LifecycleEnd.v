(* C14 — proofs about the end of the Modify stream as the SENDER sees it (Client/Lifecycle.v): a
   failing Send is recorded whatever made it fail (an injected status, a stream broken by the other
   side, or an RPC the server ended cleanly, FEnd); the sender leaves only with a recorded error,
   on request (Close), or because the receiver saw the end of the stream; and a sender that is idle
   in its channel receive when the stream ends cannot leave silently.  All variants, all sides. *)
From Coq Require Import List Arith Bool Lia.
From GV.Client Require Import Lifecycle LifecycleFacts.
Import ListNotations.

(* ------------------------------------------------------------------ a failing Send is recorded *)
(* Send fails (S3) -> addSendErr (S4e) -> RUnlock (S5e): two steps of the sender, neither can block *)
Theorem send_failure_recorded c s : reconn s = false -> s_pc s = S3 -> send_fails c s = true ->
  exists s1 s2, step c s TSender = Some s1 /\ step c s1 TSender = Some s2
                /\ s_pc s2 = S5e /\ serr s2 = true /\ broken s2 = true.
Proof.
  intros Rc Es Ef. cbn. unfold step_sender. rewrite Rc, Es, Ef.
  eexists. eexists. split; [reflexivity|]. cbn. rewrite Rc. cbn. split; [reflexivity|]. cbn. auto.
Qed.

(* once the stream is broken / ended, every Send fails *)
Lemma broken_send_fails c s : broken s = true -> send_fails c s = true.
Proof. intros H. unfold send_fails. rewrite H. reflexivity. Qed.

(* ------------------------------------------------------------------ why the sender leaves *)
Definition s_leaving (p : spc) : bool := match p with S5e | SExit0 | SExit1 | SFin => true | _ => false end.
Definition r_eof (p : rpc) : bool := match p with R2 KEof | R3 KEof => true | _ => false end.

Record Inv2 (c : lcfg) (s : st) : Prop := {
  (* the sender leaves with a recorded error, on request, or because the receiver shut the client down *)
  j_exit : before_reset c s -> s_leaving (s_pc s) = true -> serr s = true \/ half s = true \/ shut s = true;
  (* the receiver sees EOF only after CloseSend or when the server has ended the RPC *)
  j_eof : r_eof (r_pc s) = true -> half s = true \/ broken s = true;
  j_shut : shut s = true -> half s = true \/ broken s = true
}.

Lemma inv2_init c : Inv2 c (init c).
Proof. split; unfold init; cbn; intros; discriminate. Qed.

Ltac fin2 :=
  cbn in *; rw_pcs; cbn; intros; try discriminate; try tauto; try congruence;
  try (intuition (try congruence; try discriminate)).

Lemma step_inv2 c s t s' : Inv c s -> Inv2 c s -> step c s t = Some s' -> Inv2 c s'.
Proof.
  intros I [J1 J2 J3] H. unfold before_reset in *.
  pose proof (i_modeclose c s I) as IM. pose proof (i_cmid c s I) as IC.
  destruct t; cbn [step] in H.
  - unfold step_app in H. destruct (a_pc s) eqn:Ea; unfold wlocked in *; break H; inv_some H; split; fin2.
  - unfold step_app_exit in H. destruct (a_pc s) eqn:Ea; break H; inv_some H; split; fin2.
  - unfold step_sender in H. destruct (reconn s) eqn:Er; [discriminate|].
    destruct (s_pc s) eqn:Es; unfold wlocked, send_fails in *; break H; inv_some H; rewrite ?Es in *; split; fin2.
  - unfold step_receiver in H. destruct (reconn s) eqn:Er; [discriminate|].
    destruct (r_pc s) eqn:Erp; try match goal with k : rkind |- _ => destruct k end;
      unfold wlocked, recv_fault, recv_end in *; break H; inv_some H; rewrite ?Erp in *; split; fin2.
  - unfold step_waiter in H. destruct (w_pc s) eqn:Ew; break H; inv_some H; split; fin2.
  - unfold step_closer in H. destruct (c_pc s) eqn:Ec; break H; inv_some H; split; cbn in *; rewrite ?Ec in *; fin2.
    all: try (destruct (c_mode c) eqn:Em; try discriminate; destruct (IM eq_refl); congruence).
Qed.

Lemma reach_inv2 c s : reach c s -> Inv2 c s.
Proof.
  induction 1; [apply inv2_init|]. eapply step_inv2; eauto. apply reach_inv. assumption.
Qed.

Theorem sender_exit_reasons c s : reach c s -> before_reset c s -> sender_gone s = true ->
  serr s = true \/ half s = true \/ shut s = true.
Proof.
  intros R B G. apply (j_exit c s (reach_inv2 c s R) B).
  unfold sender_gone in G. unfold s_leaving. destruct (s_pc s); try discriminate; reflexivity.
Qed.

Theorem eof_means_ended c s : reach c s -> shut s = true -> half s = true \/ broken s = true.
Proof. intros R. apply (j_shut c s (reach_inv2 c s R)). Qed.

(* ------------------------------------------------------------------ the idle sender *)
(* the stream has ended and the sender has not looked at shut since: it is in its channel receive, on
   its way into a Send that will fail, or it has left with the error on record (or on request) *)
Definition K (s : st) : Prop :=
  broken s = true /\
  match s_pc s with
  | S1 | S2 | S3 | S4e | SClose => True
  | S5e | SExit0 | SExit1 | SFin => serr s = true \/ half s = true
  | S0 | S5 => False
  end.

Lemma step_K c s t s' : Inv c s -> K s -> step c s t = Some s' -> before_reset c s' -> K s'.
Proof.
  intros I [B P] H BR. unfold before_reset in BR. unfold K.
  pose proof (i_modeclose c s I) as IM.
  destruct t; cbn [step] in H.
  - unfold step_app in H. destruct (a_pc s) eqn:Ea; unfold wlocked in *; break H; inv_some H; cbn in *; try congruence; auto.
  - unfold step_app_exit in H. destruct (a_pc s) eqn:Ea; break H; inv_some H; cbn in *; try congruence; auto.
  - unfold step_sender in H. destruct (reconn s) eqn:Er; [discriminate|].
    destruct (s_pc s) eqn:Es; unfold wlocked, send_fails in *; rewrite ?B in H; cbn in H; break H; inv_some H;
      cbn in *; rewrite ?Es in *; cbn; try congruence; try tauto; auto.
  - unfold step_receiver in H. destruct (reconn s) eqn:Er; [discriminate|].
    destruct (r_pc s) eqn:Erp; try match goal with k : rkind |- _ => destruct k end;
      unfold wlocked, recv_fault, recv_end in *; break H; inv_some H; cbn in *; try congruence; auto.
  - unfold step_waiter in H. destruct (w_pc s) eqn:Ew; break H; inv_some H; cbn in *; try congruence; auto.
  - unfold step_closer in H. destruct (c_pc s) eqn:Ec; break H; inv_some H; cbn in *; try congruence; auto; try contradiction.
    all: try (destruct (IM BR); congruence).
    (* C2 -> C3 is excluded by before_reset *)
Qed.

Lemma steps_K c s k s' : Inv c s -> K s -> steps c s k s' -> before_reset c s' -> K s'.
Proof.
  intros I Ks H. induction H as [|s t s1 k s2 Hs Hrest IH]; intros BR; [exact Ks|].
  assert (B1 : before_reset c s1).
  { (* before_reset is backwards closed along steps *)
    clear IH Ks. pose proof (step_inv _ _ _ _ I Hs) as I1.
    revert BR. clear -Hrest I1.
    induction Hrest as [|s t s1 k s2 Hs Hrest IH]; intros BR; [exact BR|].
    pose proof (step_inv _ _ _ _ I1 Hs) as I2. specialize (IH I2 BR).
    unfold before_reset in *. pose proof (i_modeclose c s I1) as IM.
    destruct t; cbn [step] in Hs.
    - unfold step_app in Hs. unfold wlocked in *. break Hs; inv_some Hs; cbn in *; auto.
    - unfold step_app_exit in Hs. break Hs; inv_some Hs; cbn in *; auto.
    - unfold step_sender in Hs. unfold wlocked in *. break Hs; inv_some Hs; cbn in *; auto.
    - unfold step_receiver in Hs. unfold wlocked in *. break Hs; inv_some Hs; cbn in *; auto.
    - unfold step_waiter in Hs. break Hs; inv_some Hs; cbn in *; auto.
    - unfold step_closer in Hs. destruct (c_pc s) eqn:Ec; break Hs; inv_some Hs; cbn in *; auto; try contradiction.
      destruct (IM IH); congruence. }
  apply IH; [eapply step_inv; eauto|eapply step_K; eauto|exact BR].
Qed.

(* the receiver has seen the end of the stream (shut) although Close was not called (half = false), and
   the sender is idle in its channel receive: from then on, whatever the schedule, the sender cannot be
   gone - short of Close - without a send error on record *)
Theorem idle_sender_notices_end c s k s' :
  reach c s -> s_pc s = S1 -> shut s = true -> half s = false ->
  steps c s k s' -> before_reset c s' -> sender_gone s' = true -> half s' = false -> serr s' = true.
Proof.
  intros R Es Sh Hf St BR G Hf'.
  assert (Br : broken s = true).
  { destruct (eof_means_ended c s R Sh) as [X|X]; [congruence|exact X]. }
  assert (Ks : K s) by (split; [exact Br|rewrite Es; exact I]).
  destruct (steps_K c s k s' (reach_inv c s R) Ks St BR) as [_ P].
  unfold sender_gone in G. destruct (s_pc s'); try discriminate; destruct P; congruence.
Qed.

(* ------------------------------------------------------------------ the scenario of the harness *)
Lemma run_end_reach c first fuel : reach c (run_end c first fuel).
Proof. unfold run_end. repeat apply run_prio_reach. constructor. Qed.

(* ... and why the harness waits for the sender to be idle: if the receiver sees the clean end while the
   sender is between a successful Send and its look at shut, the sender leaves silently; the requests
   queued afterwards are dropped, nothing is recorded, and AwaitConverged can only time out.  Same for
   every variant (the sender and the receiver do not depend on it). *)
Definition silent_end_sched : list thread :=
  repeat TApp 5 ++ [TSender; TSender; TSender; TSender]      (* Q(1); the sender is past Send number 0, at S5 *)
  ++ repeat TReceiver 8                                       (* the server ended the RPC: EOF, shut, receiver gone *)
  ++ repeat TSender 6                                         (* RUnlock, loop: shut -> leave *)
  ++ repeat TApp 5                                            (* Q(2): the sender has gone, dropped *)
  ++ repeat TWaiter 300 ++ repeat TCloser 4.
Theorem clean_end_can_go_unnoticed :
  exists c s, l_var c = lv_fixed /\ f_side c = FEnd /\ reach c s /\ final s = true
    /\ queued s = 2 /\ answered s = 0 /\ serr s = false /\ rerr s = false /\ w_res s = Some WTimeout
    /\ s_pc s = SFin /\ r_pc s = RFin.
Proof.
  exists (mklcfg 2 FEnd 0 MClose 40 lv_fixed),
         (exec (mklcfg 2 FEnd 0 MClose 40 lv_fixed) (init (mklcfg 2 FEnd 0 MClose 40 lv_fixed)) silent_end_sched).
  split; [reflexivity|]. split; [reflexivity|]. split; [apply exec_reach; constructor|].
  vm_compute. repeat split; reflexivity.
Qed.
