(* C13 — "never silently gone", without any assumption on the operation ids (Client/Queues.v): every
   operation of a message that Q accepted is, at all times, pending as itself or resulted with its own type
   and key; a message that Q rejects (an id that is pending: twice inside the request, or from an earlier
   request) leaves a send error on record, and errors stay on record. *)
From Coq Require Import List NArith Bool Lia ZifyN ZifyBool.
From GV.Base Require Import Alist.
From GV.Client Require Import Queues QueuesFacts.
Import ListNotations.
Open Scope N_scope.

Definition G (qo : list op) (s : st) : Prop := forall o, In o qo -> accounted s o.

(* entries of the pending queue survive add_pending, rejected or not *)
Lemma add_pending_keeps ops : forall p p' e, add_pending ops p = (p', e) ->
  forall id o, pget id p = Some o -> pget id p' = Some o.
Proof.
  induction ops as [|a tl IH]; simpl; intros p p' e H id o Hp.
  - inversion H; subst. exact Hp.
  - destruct (pget (o_id a) p) eqn:E.
    + inversion H; subst. exact Hp.
    + eapply IH; [exact H|]. rewrite pget_aset_other; [exact Hp|]. intros ->. congruence.
Qed.

(* an accepted message registers each of its operations as itself *)
Lemma add_pending_accepts ops : forall p p', add_pending ops p = (p', false) ->
  forall o, In o ops -> pget (o_id o) p' = Some o.
Proof.
  induction ops as [|a tl IH]; simpl; intros p p' H o Hin; [tauto|].
  destruct (pget (o_id a) p) eqn:E; [discriminate|].
  destruct Hin as [->|Hin].
  - eapply add_pending_keeps; [exact H|]. apply pget_aset_same.
  - eapply IH; eauto.
Qed.

Lemma handle_req_pend s m : pend (handle_req s m) = fst (add_pending (m_ops m) (pend s))
  /\ results (handle_req s m) = results s.
Proof. unfold handle_req. destruct (add_pending (m_ops m) (pend s)) as [p e]. destruct e; simpl; auto. Qed.

Lemma G_q qo s m : G qo s -> G (qo ++ (if rejected s m then [] else m_ops m)) (do_q s m).
Proof.
  intros H o Hin. unfold accounted. destruct (do_q_pr s m) as [A B]. rewrite A, B.
  destruct (handle_req_pend s m) as [C D]. rewrite C, D.
  unfold rejected in Hin. destruct (add_pending (m_ops m) (pend s)) as [p' e] eqn:E. simpl in *.
  apply in_app_or in Hin. destruct Hin as [Hin|Hin].
  - destruct (H o Hin) as [X|X]; [left|right; exact X]. eapply add_pending_keeps; eauto.
  - destruct e; [contradiction|]. left. eapply add_pending_accepts; eauto.
Qed.

Lemma G_same qo s s' : pend s' = pend s -> (forall r, In r (results s) -> In r (results s')) -> G qo s -> G qo s'.
Proof.
  intros P R H o Hin. destruct (H o Hin) as [X|[x X]]; [left; rewrite P; exact X|right; exists x; auto].
Qed.

Lemma G_clear_ops c qo xs : forall s, G qo s -> G qo (fst (clear_ops c s xs)).
Proof.
  induction xs as [|x tl IH]; simpl; intros s H; [exact H|].
  destruct (clear_pending_op c s x) as [[p r] err] eqn:E.
  assert (H1 : G qo (set_pend_res s p (results s ++ [r]))).
  { intros o Hin. unfold accounted. simpl. destruct x as [id x]. unfold clear_pending_op in E.
    destruct (H o Hin) as [X|[y X]].
    2: { right. exists y. apply in_or_app. auto. }
    destruct (pget id (pend s)) as [o'|] eqn:Ep.
    - inversion E; subst; clear E. destruct (N.eqb_spec (o_id o) id) as [Heq|Hne].
      + right. exists x. apply in_or_app. right. left. subst id. rewrite X in Ep. inversion Ep. reflexivity.
      + left. destruct (removes c x); [rewrite pget_adel_other; auto|exact X].
    - left. destruct (status_eqb x SRib && fib_ack c && (negb (v_strict_unknown (c_var c)) || has_terminal c id (results s)));
        inversion E; subst; exact X. }
  destruct err; simpl; [exact H1|]. apply IH. exact H1.
Qed.

Lemma G_handle_resp c qo s r : G qo s -> G qo (fst (handle_resp c s r)).
Proof.
  intros H. unfold handle_resp. destruct (1 <? populated r); simpl; [exact H|].
  apply G_clear_ops.
  assert (H1 : G qo (if r_elec r then clear_elec s else s)).
  { destruct (r_elec r); [|exact H]. eapply G_same; [| |exact H]; simpl; [reflexivity|]. intros; apply in_or_app; auto. }
  destruct (r_params r); [|exact H1]. eapply G_same; [| |exact H1]; simpl; [reflexivity|]. intros; apply in_or_app; auto.
Qed.

Lemma G_step c qo s e : G qo s -> G (qo ++ accepted_ops c s [e]) (step c s e).
Proof.
  intros H. destruct e; cbn [accepted_ops step]; rewrite ?app_nil_r; try exact H.
  - apply G_q. exact H.
  - destruct (start_sending_pr c s) as [A B]. eapply G_same; [exact A| |exact H]. rewrite B. auto.
  - destruct (recv_alive s && negb (stream_dead s)); [|exact H].
    pose proof (G_handle_resp c qo s r H) as X. destruct (handle_resp c s r) as [s' err]. simpl in X.
    destruct err; [|exact X]. eapply G_same; [| |exact X]; simpl; auto.
  - destruct (recv_alive s); [|exact H]. eapply G_same; [| |exact H]; simpl; auto.
Qed.

Lemma accepted_ops_cons c s e evs : accepted_ops c s (e :: evs) = accepted_ops c s [e] ++ accepted_ops c (step c s e) evs.
Proof. destruct e; simpl; rewrite ?app_nil_r; reflexivity. Qed.

Lemma G_run c evs : forall qo s, G qo s -> G (qo ++ accepted_ops c s evs) (run c s evs).
Proof.
  induction evs as [|e evs IH]; intros qo s H.
  - simpl. rewrite app_nil_r. exact H.
  - change (run c s (e :: evs)) with (run c (step c s e) evs).
    rewrite accepted_ops_cons, app_assoc. apply IH. apply G_step. exact H.
Qed.

Theorem never_silently_gone c evs o : In o (accepted_ops c init evs) -> accounted (run c init evs) o.
Proof.
  intros Hin. apply (G_run c evs [] init); [intros ? []|exact Hin].
Qed.

(* a rejected message leaves a send error on record ... *)
Theorem rejected_is_recorded c s m : rejected s m = true -> send_errs s + 1 <= send_errs (step c s (Q m)).
Proof.
  unfold rejected. cbn [step]. unfold do_q, handle_req. destruct (add_pending (m_ops m) (pend s)) as [p e]. simpl.
  intros ->. simpl. destruct (sending s); simpl; [|lia].
  unfold hand_to_sender. simpl. destruct (sender_alive s); [destruct (send_arm s || stream_dead s)|]; simpl; lia.
Qed.

(* ... a message is rejected exactly when one of its ids is pending by the time its turn comes: in
   particular the same id twice inside one request, and the id of a pending operation *)
Lemma rejected_twice s m o1 o2 l1 l2 l3 : m_ops m = l1 ++ o1 :: l2 ++ o2 :: l3 -> o_id o1 = o_id o2 -> rejected s m = true.
Proof.
  unfold rejected. intros -> Hid. generalize (pend s). induction l1 as [|a l1 IH]; simpl; intros p.
  - destruct (pget (o_id o1) p); [reflexivity|].
    assert (X : forall l p', pget (o_id o2) p' <> None -> snd (add_pending (l ++ o2 :: l3) p') = true).
    { induction l as [|b l IHl]; simpl; intros p' Hp.
      - destruct (pget (o_id o2) p'); [reflexivity|congruence].
      - destruct (pget (o_id b) p') eqn:E; [reflexivity|]. apply IHl.
        destruct (N.eqb_spec (o_id o2) (o_id b)) as [->|Hne]; [rewrite pget_aset_same; discriminate|].
        rewrite pget_aset_other; auto. }
    apply X. rewrite <- Hid, pget_aset_same. discriminate.
  - destruct (pget (o_id a) p); [reflexivity|]. apply IH.
Qed.

Lemma rejected_pending s m o : In o (m_ops m) -> pget (o_id o) (pend s) <> None -> rejected s m = true.
Proof.
  unfold rejected. generalize (pend s). induction (m_ops m) as [|a l IH]; simpl; intros p Hin Hp; [tauto|].
  destruct (pget (o_id a) p) eqn:E; [reflexivity|]. destruct Hin as [->|Hin]; [congruence|].
  apply IH; [exact Hin|]. destruct (N.eqb_spec (o_id o) (o_id a)) as [->|Hne]; [rewrite pget_aset_same; discriminate|].
  rewrite pget_aset_other; auto.
Qed.

(* ... and send errors stay on record: AwaitConverged never reports success again *)
Lemma hand_to_sender_send_errs s : send_errs s <= send_errs (hand_to_sender s).
Proof. unfold hand_to_sender. destruct (sender_alive s); [destruct (send_arm s || stream_dead s)|]; simpl; lia. Qed.
Lemma flush_send_errs q : forall s, send_errs s <= send_errs (flush s q).
Proof. induction q as [|m q IH]; simpl; intros s; [lia|]. pose proof (IH (hand_to_sender s)). pose proof (hand_to_sender_send_errs s). lia. Qed.
Lemma do_q_send_errs s m : send_errs s <= send_errs (do_q s m).
Proof.
  unfold do_q. assert (X : send_errs s <= send_errs (handle_req s m)).
  { unfold handle_req. destruct (add_pending (m_ops m) (pend s)) as [p e]. destruct e; simpl; lia. }
  destruct (sending (handle_req s m)); [pose proof (hand_to_sender_send_errs (handle_req s m)); lia|exact X].
Qed.
Lemma step_send_errs_mono c s e : send_errs s <= send_errs (step c s e).
Proof.
  destruct e; cbn [step]; try (simpl; lia).
  - apply do_q_send_errs.
  - unfold start_sending.
    set (s0 := set_sending s true).
    set (s1 := if c_params c then do_q s0 _ else s0).
    set (s2 := if c_elec c then do_q s1 _ else s1).
    assert (A1 : send_errs s <= send_errs s1) by (subst s1; destruct (c_params c); [apply (do_q_send_errs s0)|simpl; lia]).
    assert (A2 : send_errs s1 <= send_errs s2) by (subst s2; destruct (c_elec c); [apply do_q_send_errs|lia]).
    simpl. pose proof (flush_send_errs (sendq s2) s2). lia.
  - destruct (recv_alive s && negb (stream_dead s)); [|lia].
    pose proof (handle_resp_fields c s r) as X. destruct (handle_resp c s r) as [s' err]. simpl in X.
    destruct X as (_ & _ & _ & D & _). destruct err; simpl; lia.
  - destruct (recv_alive s); simpl; lia.
Qed.
Lemma run_send_errs_mono c evs : forall s, send_errs s <= send_errs (run c s evs).
Proof.
  induction evs as [|e evs IH]; intros s; [simpl; lia|].
  change (run c s (e :: evs)) with (run c (step c s e) evs).
  pose proof (IH (step c s e)). pose proof (step_send_errs_mono c s e). lia.
Qed.

Theorem rejected_surfaces c evs m evs' : rejected (run c init evs) m = true ->
  let s' := run c init (evs ++ Q m :: evs') in
  1 <= send_errs s' /\ await s' <> AwOk.
Proof.
  intros R s'. assert (X : 1 <= send_errs s').
  { subst s'. unfold run. rewrite fold_left_app. cbn [fold_left].
    pose proof (rejected_is_recorded c _ m R). pose proof (run_send_errs_mono c evs' (step c (run c init evs) (Q m))).
    unfold run in *. lia. }
  split; [exact X|]. unfold await, no_errors. destruct (send_errs s' =? 0) eqn:E; [lia|]. simpl. discriminate.
Qed.
