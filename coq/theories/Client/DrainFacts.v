(* Proofs about the send path of Client/Drain.v: conservation of requests under every schedule, and
   termination / progress of the in-flight part once the stream takes messages. *)
From Coq Require Import List NArith Bool Arith Lia Permutation.
From GV.Client Require Import Drain.
Import ListNotations.

Notation cnt := (count_occ N.eq_dec).

Lemma cnt_app l1 l2 x : cnt (l1 ++ l2) x = (cnt l1 x + cnt l2 x)%nat.
Proof. apply count_occ_app. Qed.

Lemma cnt_single a x : cnt [a] x = if N.eq_dec a x then 1%nat else 0%nat.
Proof. simpl. destruct (N.eq_dec a x); reflexivity. Qed.

Lemma remove1_cnt id : forall l l', remove1 id l = Some l' -> forall x, cnt l x = (cnt [id] x + cnt l' x)%nat.
Proof.
  induction l as [|a tl IH]; simpl; intros l' H x; [discriminate|].
  destruct (N.eqb a id) eqn:E.
  - apply N.eqb_eq in E. subst a. inversion H; subst. destruct (N.eq_dec id x); lia.
  - destruct (remove1 id tl) as [tl'|] eqn:R; [|discriminate]. inversion H; subst.
    specialize (IH tl' eq_refl x). simpl in *. destruct (N.eq_dec a x); destruct (N.eq_dec id x); lia.
Qed.

Lemma remove1_length id : forall l l', remove1 id l = Some l' -> length l = S (length l').
Proof.
  induction l as [|a tl IH]; simpl; intros l' H; [discriminate|].
  destruct (N.eqb a id); [inversion H; reflexivity|].
  destruct (remove1 id tl) as [tl'|]; [|discriminate]. inversion H; subst. simpl. rewrite (IH tl' eq_refl). reflexivity.
Qed.

Lemma pop_nth_cnt : forall ds k y ds', pop_nth k ds = Some (y, ds') ->
  forall x, cnt (concat ds) x = (cnt [y] x + cnt (concat ds') x)%nat.
Proof.
  induction ds as [|d tl IH]; intros k y ds' H x; [destruct k; discriminate|].
  destruct k as [|k]; simpl in H.
  - destruct d as [|a r]; [discriminate|]. inversion H; subst. simpl. rewrite !cnt_app. simpl.
    destruct (N.eq_dec y x); lia.
  - destruct (pop_nth k tl) as [[y' tl']|] eqn:P; [|discriminate]. inversion H; subst.
    cbn [concat]. rewrite !cnt_app. rewrite (IH k y tl' P x). lia.
Qed.

Lemma pop_nth_length : forall ds k y ds', pop_nth k ds = Some (y, ds') -> length (concat ds) = S (length (concat ds')).
Proof.
  induction ds as [|d tl IH]; intros k y ds' H; [destruct k; discriminate|].
  destruct k as [|k]; simpl in H.
  - destruct d as [|a r]; [discriminate|]. inversion H; subst. simpl. reflexivity.
  - destruct (pop_nth k tl) as [[y' tl']|] eqn:P; [|discriminate]. inversion H; subst.
    simpl. rewrite !app_length. rewrite (IH k y tl' P). lia.
Qed.

Definition new_of (l : lab) : list N := match l with LQ id => [id] | _ => [] end.

Lemma concat_snoc (ds : list (list N)) d : concat (ds ++ [d]) = concat ds ++ d.
Proof. rewrite concat_app. simpl. rewrite app_nil_r. reflexivity. Qed.

(* one step moves one request from a place to the next, or brings the new request of a Q call in *)
Lemma step_cnt cap s l s' : step cap s l = Some s' ->
  forall x, cnt (places s') x = (cnt (places s) x + cnt (new_of l) x)%nat.
Proof.
  intros H x. destruct l as [id|id|b| |k|id| ]; simpl in H.
  - inversion H; subst; clear H. destruct (sending s); unfold places; simpl; rewrite !cnt_app; simpl;
      destruct (N.eq_dec id x); lia.
  - destruct (remove1 id (appenders s)) as [a|] eqn:R; [|discriminate]. inversion H; subst; clear H.
    pose proof (remove1_cnt id _ _ R x) as E. unfold places; simpl. rewrite !cnt_app. rewrite E. simpl. lia.
  - inversion H; subst; clear H. unfold places; simpl. lia.
  - inversion H; subst; clear H. unfold places; simpl. rewrite concat_snoc. rewrite !cnt_app. simpl. lia.
  - destruct (room cap s); [|discriminate].
    destruct (pop_nth k (drains s)) as [[y ds]|] eqn:P; [|discriminate]. inversion H; subst; clear H.
    pose proof (pop_nth_cnt _ _ _ _ P x) as E. unfold places; simpl. rewrite !cnt_app. rewrite E. simpl. lia.
  - destruct (room cap s); [|discriminate].
    destruct (remove1 id (pushers s)) as [p|] eqn:R; [|discriminate]. inversion H; subst; clear H.
    pose proof (remove1_cnt id _ _ R x) as E. unfold places; simpl. rewrite !cnt_app. rewrite E. simpl. lia.
  - destruct (chan s) as [|y c] eqn:C; [discriminate|]. inversion H; subst; clear H.
    unfold places; simpl. rewrite C. rewrite !cnt_app. simpl. destruct (N.eq_dec y x); lia.
Qed.

Lemma step'_cnt cap s l x : cnt (places (step' cap s l)) x =
  (cnt (places s) x + (if step cap s l then cnt (new_of l) x else 0))%nat.
Proof.
  unfold step'. destruct (step cap s l) as [s'|] eqn:E; cbv iota; [apply (step_cnt _ _ _ _ E)|lia].
Qed.

Lemma LQ_enabled cap s id : step cap s (LQ id) <> None.
Proof. simpl. discriminate. Qed.

Lemma run_cnt cap : forall ls s x, cnt (places (run cap s ls)) x = (cnt (places s) x + cnt (issued ls) x)%nat.
Proof.
  induction ls as [|l tl IH]; intros s x; simpl; [lia|].
  unfold run in *. simpl. rewrite IH. rewrite step'_cnt.
  change (issued (l :: tl)) with (new_of l ++ issued tl). rewrite cnt_app.
  unfold new_of. destruct (step cap s l) eqn:E; cbv iota; [lia|].
  destruct l; cbn [count_occ]; try lia. simpl in E. discriminate.
Qed.

(* CONSERVATION, every schedule: at all times the requests handed to Q so far are exactly the requests found in
   the places of the send path (a Q call in progress, the send queue, a StartSending in progress, the channel,
   the stream), with multiplicity *)
Theorem conservation cap ls : Permutation (places (run cap init ls)) (issued ls).
Proof. apply (Permutation_count_occ N.eq_dec). intro x. rewrite run_cnt. reflexivity. Qed.

Lemma NoDup_app_l (a b : list N) : NoDup (a ++ b) -> NoDup a.
Proof. induction a as [|x a IH]; simpl; intros H; [constructor|]. inversion H; subst. constructor; [|auto]. intro; apply H2, in_or_app; auto. Qed.
Lemma NoDup_app_r (a b : list N) : NoDup (a ++ b) -> NoDup b.
Proof. induction a as [|x a IH]; simpl; intros H; [exact H|]. inversion H; auto. Qed.

(* never twice: distinct requests are handed to the stream at most once, and what has been handed over is
   nowhere else *)
Theorem handed_once cap ls : NoDup (issued ls) ->
  let s := run cap init ls in
  NoDup (handed s) /\
  forall id, In id (handed s) ->
    ~ In id (appenders s) /\ ~ In id (sendq s) /\ ~ In id (concat (drains s)) /\ ~ In id (pushers s) /\ ~ In id (chan s).
Proof.
  intros ND s.
  assert (NP : NoDup (places s)) by (eapply Permutation_NoDup; [apply Permutation_sym, conservation|exact ND]).
  split.
  - unfold places in NP. do 5 apply NoDup_app_r in NP. exact NP.
  - intros id Hin.
    assert (C : cnt (places s) id = 1%nat).
    { apply (proj1 (NoDup_count_occ' N.eq_dec _) NP). unfold places. repeat (apply in_or_app; right). exact Hin. }
    unfold places in C. rewrite !cnt_app in C.
    assert (cnt (handed s) id > 0)%nat by (apply count_occ_In; exact Hin).
    repeat split; intro X; apply (count_occ_In N.eq_dec) in X; lia.
Qed.

(* never lost: a request that Q took is in one of the places; when nothing is in flight it has reached the
   stream or still waits in the send queue for StartSending *)
Theorem never_lost cap ls id : In id (issued ls) -> In id (places (run cap init ls)).
Proof. intro H. eapply Permutation_in; [apply Permutation_sym, conservation|exact H]. Qed.

Theorem idle_all_handed cap ls : let s := run cap init ls in
  idle s -> Permutation (sendq s ++ handed s) (issued ls).
Proof.
  intros s (A & D & P & C). pose proof (conservation cap ls) as K. fold s in K. unfold places in K.
  rewrite A, D, P, C in K. simpl in K. exact K.
Qed.

(* PROGRESS: while something is in flight and the channel has a buffer or a reader, some action is possible *)
Lemma first_nonempty_pop : forall ds k0 k, first_nonempty k0 ds = Some k -> exists x ds', pop_nth (k - k0) ds = Some (x, ds') /\ (k0 <= k)%nat.
Proof.
  induction ds as [|d tl IH]; simpl; intros k0 k H; [discriminate|].
  destruct d as [|a r].
  - destruct (IH _ _ H) as (x & ds' & P & L). exists x, ([] :: ds'). split; [|lia].
    replace (k - k0)%nat with (S (k - S k0)) by lia. simpl. rewrite P. reflexivity.
  - inversion H; subst. exists a, (r :: tl). rewrite Nat.sub_diag. split; [reflexivity|lia].
Qed.

Lemma first_nonempty_none : forall ds k0, first_nonempty k0 ds = None -> concat ds = [].
Proof.
  induction ds as [|d tl IH]; simpl; intros k0 H; [reflexivity|].
  destruct d; [exact (IH _ H)|discriminate].
Qed.

Lemma remove1_head id tl : remove1 id (id :: tl) = Some tl.
Proof. simpl. rewrite N.eqb_refl. reflexivity. Qed.

Theorem progress cap s : (0 < cap)%nat -> ~ idle s -> exists l, internal l = true /\ step cap s l <> None.
Proof.
  intros Hc NI. destruct (chan s) as [|y c] eqn:C.
  - assert (R : room cap s = true) by (unfold room; rewrite C; apply Nat.ltb_lt; simpl; lia).
    destruct (appenders s) as [|a at'] eqn:A.
    + destruct (pushers s) as [|p pt] eqn:P.
      * destruct (first_nonempty 0 (drains s)) as [k|] eqn:F.
        -- destruct (first_nonempty_pop _ _ _ F) as (x & ds' & PP & _). rewrite Nat.sub_0_r in PP.
           exists (LDrainPush k). split; [reflexivity|]. simpl. rewrite R, PP. discriminate.
        -- exfalso. apply NI. unfold idle. rewrite A, P, C, (first_nonempty_none _ _ F). auto.
      * exists (LPush p). split; [reflexivity|]. simpl. rewrite R, P, remove1_head. discriminate.
    + exists (LAppend a). split; [reflexivity|]. simpl. rewrite A, remove1_head. discriminate.
  - exists LTake. split; [reflexivity|]. simpl. rewrite C. discriminate.
Qed.

(* TERMINATION: every internal action uses up the measure, whatever the schedule *)
Theorem internal_decreases cap s l s' : internal l = true -> step cap s l = Some s' -> (measure s' < measure s)%nat.
Proof.
  intros I H. destruct l as [id|id|b| |k|id| ]; simpl in I; try discriminate; simpl in H.
  - destruct (remove1 id (appenders s)) as [a|] eqn:R; [|discriminate]. inversion H; subst; clear H.
    unfold measure; simpl. rewrite (remove1_length _ _ _ R). lia.
  - destruct (room cap s); [|discriminate].
    destruct (pop_nth k (drains s)) as [[y ds]|] eqn:P; [|discriminate]. inversion H; subst; clear H.
    unfold measure; simpl. rewrite (pop_nth_length _ _ _ _ P), app_length. simpl. lia.
  - destruct (room cap s); [|discriminate].
    destruct (remove1 id (pushers s)) as [p|] eqn:R; [|discriminate]. inversion H; subst; clear H.
    unfold measure; simpl. rewrite (remove1_length _ _ _ R), app_length. simpl. lia.
  - destruct (chan s) as [|y c] eqn:C; [discriminate|]. inversion H; subst; clear H.
    unfold measure; simpl. rewrite C. simpl. lia.
Qed.

Lemma measure_zero_idle s : measure s = 0%nat -> idle s.
Proof.
  unfold measure, idle. intro H.
  destruct (appenders s); [|simpl in H; lia]. destruct (concat (drains s)); [|simpl in H; lia].
  destruct (pushers s); [|simpl in H; lia]. destruct (chan s); [|simpl in H; lia]. auto.
Qed.

(* a schedule of internal actions, each enabled when its turn comes *)
Fixpoint all_enabled (cap : nat) (s : st) (ls : list lab) : Prop :=
  match ls with
  | [] => True
  | l :: tl => internal l = true /\ match step cap s l with Some s' => all_enabled cap s' tl | None => False end
  end.

Lemma all_enabled_bound cap : forall ls s, all_enabled cap s ls -> (length ls + measure (run cap s ls) <= measure s)%nat.
Proof.
  induction ls as [|l tl IH]; intros s H; simpl; [lia|].
  destruct H as [I H]. unfold run; simpl. unfold step' at 2. destruct (step cap s l) as [s'|] eqn:E; [|contradiction].
  specialize (IH s' H). pose proof (internal_decreases _ _ _ _ I E). unfold run in IH. lia.
Qed.

(* with the stream taking messages, StartSending (and every Q in progress) completes under every schedule: no
   run of in-flight actions is longer than the measure, and one that cannot be extended ends with nothing in
   flight and everything handed over or back in the queue *)
Theorem in_flight_terminates cap s ls : all_enabled cap s ls -> (length ls <= measure s)%nat.
Proof. intro H. pose proof (all_enabled_bound cap ls s H). lia. Qed.

Theorem maximal_run_idle cap s ls : (0 < cap)%nat -> all_enabled cap s ls ->
  (forall l, internal l = true -> step cap (run cap s ls) l = None) -> idle (run cap s ls).
Proof.
  intros Hc _ Hmax. destruct (idleb (run cap s ls)) eqn:B.
  - unfold idleb in B. unfold idle.
    destruct (appenders (run cap s ls)); [|discriminate]. destruct (concat (drains (run cap s ls))); [|discriminate].
    destruct (pushers (run cap s ls)); [|discriminate]. destruct (chan (run cap s ls)); [|discriminate]. auto.
  - assert (NI : ~ idle (run cap s ls)).
    { intros (A & D & P & C). unfold idleb in B. rewrite A, D, P, C in B. discriminate. }
    destruct (progress cap _ Hc NI) as (l & I & E). exfalso. apply E, Hmax, I.
Qed.

(* the stream stuck (no LTake): a StartSending that found more requests than the channel buffers waits *)
Example blocked_when_more_than_buffered : fst (scenario 5 9 4 2 false) = true /\ fst (scenario 5 6 4 2 false) = false /\ fst (scenario 5 6 4 2 true) = true.
Proof. vm_compute. repeat split; reflexivity. Qed.

Example scenario_all_in_order : snd (scenario 5 9 4 2 true) = [0;1;2;3;4;5;6;7;8;9;0;10;11;12;13;14;15]%N.
Proof. vm_compute. reflexivity. Qed.
