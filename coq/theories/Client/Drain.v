(* The client's send path as a transition system (client/gribiclient.go: Q, q, StartSending, StopSending and
   the sender goroutine started by Connect), one label per atomic action, so that application calls made from
   different goroutines and the sender interleave in every possible way:

     Q(m):            handleModifyRequest; then reads the flag `sending`                        LQ id
                        false: takes sendMu and appends m to sendq                              LAppend id
                        true : q(m) = sends m on the bounded channel modifyCh (may block)        LPush id
     StartSending():  stores sending = true                                                     LSetSending true
                      under sendMu: takes the slice sendq and installs a fresh empty one        LSnap
                      outside sendMu: q(m) for each m of the slice taken, in order (may block)  LDrainPush k
     StopSending():   stores sending = false                                                    LSetSending false
     sender:          receives from modifyCh, hands the request to the stream                   LTake

   Requests are represented by identifiers (N); what a request contains is Client/Queues.v's business.
   Any number of StartSending calls may be in progress at the same time (`drains`, one remaining slice each).
   This file holds definitions only (it is evaluated by the correspondence check); proofs: DrainFacts.v. *)
From Coq Require Import List NArith Bool Arith.
Import ListNotations.
Open Scope N_scope.

Record st := mk {
  sending : bool;
  appenders : list N;      (* Q calls that read sending = false and have not appended yet *)
  sendq : list N;
  drains : list (list N);  (* StartSending calls in progress: what each still has to push *)
  pushers : list N;        (* Q calls that read sending = true and have not pushed yet *)
  chan : list N;           (* modifyCh, oldest first *)
  handed : list N          (* handed to the stream by the sender, oldest first *)
}.

Definition init : st := mk false [] [] [] [] [] [].

Inductive lab :=
| LQ (id : N) | LAppend (id : N) | LSetSending (b : bool) | LSnap | LDrainPush (k : nat) | LPush (id : N) | LTake.

Fixpoint remove1 (id : N) (l : list N) : option (list N) :=
  match l with
  | [] => None
  | x :: tl => if N.eqb x id then Some tl else match remove1 id tl with Some tl' => Some (x :: tl') | None => None end
  end.

(* pop the head of the k-th list *)
Fixpoint pop_nth (k : nat) (ds : list (list N)) : option (N * list (list N)) :=
  match ds, k with
  | [], _ => None
  | d :: tl, O => match d with [] => None | x :: r => Some (x, r :: tl) end
  | d :: tl, S k' => match pop_nth k' tl with Some (x, tl') => Some (x, d :: tl') | None => None end
  end.

Definition room (cap : nat) (s : st) : bool := Nat.ltb (length (chan s)) cap.

Definition step (cap : nat) (s : st) (l : lab) : option st :=
  match l with
  | LQ id => Some (if sending s
                   then mk (sending s) (appenders s) (sendq s) (drains s) (pushers s ++ [id]) (chan s) (handed s)
                   else mk (sending s) (appenders s ++ [id]) (sendq s) (drains s) (pushers s) (chan s) (handed s))
  | LAppend id => match remove1 id (appenders s) with
                  | Some a => Some (mk (sending s) a (sendq s ++ [id]) (drains s) (pushers s) (chan s) (handed s))
                  | None => None
                  end
  | LSetSending b => Some (mk b (appenders s) (sendq s) (drains s) (pushers s) (chan s) (handed s))
  | LSnap => Some (mk (sending s) (appenders s) [] (drains s ++ [sendq s]) (pushers s) (chan s) (handed s))
  | LDrainPush k => if room cap s then
                      match pop_nth k (drains s) with
                      | Some (x, ds) => Some (mk (sending s) (appenders s) (sendq s) ds (pushers s) (chan s ++ [x]) (handed s))
                      | None => None
                      end
                    else None
  | LPush id => if room cap s then
                  match remove1 id (pushers s) with
                  | Some p => Some (mk (sending s) (appenders s) (sendq s) (drains s) p (chan s ++ [id]) (handed s))
                  | None => None
                  end
                else None
  | LTake => match chan s with
             | x :: c => Some (mk (sending s) (appenders s) (sendq s) (drains s) (pushers s) c (handed s ++ [x]))
             | [] => None
             end
  end.

(* a label that is not enabled is skipped: every list of labels is a schedule *)
Definition step' (cap : nat) (s : st) (l : lab) : st := match step cap s l with Some s' => s' | None => s end.
Definition run (cap : nat) (s : st) (ls : list lab) : st := fold_left (step' cap) ls s.

Definition issued (ls : list lab) : list N := flat_map (fun l => match l with LQ id => [id] | _ => [] end) ls.

(* where a request can be *)
Definition places (s : st) : list N :=
  appenders s ++ sendq s ++ concat (drains s) ++ pushers s ++ chan s ++ handed s.

(* nothing is in flight between the application and the stream (what waits in sendq waits for StartSending) *)
Definition idle (s : st) : Prop := appenders s = [] /\ concat (drains s) = [] /\ pushers s = [] /\ chan s = [].
Definition idleb (s : st) : bool :=
  match appenders s, concat (drains s), pushers s, chan s with [], [], [], [] => true | _, _, _, _ => false end.

Definition internal (l : lab) : bool :=
  match l with LAppend _ | LDrainPush _ | LPush _ | LTake => true | _ => false end.

(* steps that remain possible before everything in flight has reached the stream *)
Definition measure (s : st) : nat :=
  (length (appenders s) + 2 * (length (concat (drains s)) + length (pushers s)) + length (chan s))%nat.

Fixpoint first_nonempty (k : nat) (ds : list (list N)) : option nat :=
  match ds with [] => None | [] :: tl => first_nonempty (S k) tl | (_ :: _) :: _ => Some k end.

(* one scheduler among all: the sender first (when the stream takes messages), then appenders, pushers, drains *)
Definition pick (open : bool) (cap : nat) (s : st) : option lab :=
  match (if open then chan s else []) with
  | _ :: _ => Some LTake
  | [] =>
    match appenders s with
    | id :: _ => Some (LAppend id)
    | [] =>
      if room cap s then
        match pushers s with
        | id :: _ => Some (LPush id)
        | [] => match first_nonempty 0 (drains s) with Some k => Some (LDrainPush k) | None => None end
        end
      else None
    end
  end.

Fixpoint settle (open : bool) (cap : nat) (fuel : nat) (s : st) : st :=
  match fuel with
  | O => s
  | S f => match pick open cap s with
           | Some l => match step cap s l with Some s' => settle open cap f s' | None => s end
           | None => s
           end
  end.

(* the scenario of `vh-c13 c13drain`: `first` requests queued, StartSending while the stream is stuck (the sender
   has handed over one request and waits), StopSending, `second` more requests, the stream freed, StartSending
   again, `third` requests sent directly.  With session parameters (`params`) every StartSending first sends the
   parameters as a request of its own, directly (request 0).  Returns (did the first StartSending have to wait?, the requests in the
   order in which the stream got them). *)
Definition qs (from n : nat) : list lab :=
  flat_map (fun i => [LQ (N.of_nat i); LAppend (N.of_nat i)]) (seq from n).

Definition start (params : bool) : list lab :=
  LSetSending true :: (if params then [LQ 0; LPush 0] else []) ++ [LSnap].

Definition scenario (cap first second third : nat) (params : bool) : bool * list N :=
  let fuel := (4 * (first + second + third) + 16)%nat in
  let s1 := run cap init (qs 1 first) in
  let s2 := run cap s1 (start params) in
  let s3 := settle false cap fuel (step' cap (settle false cap fuel s2) LTake) in
  let blocked := negb (match concat (drains s3) with [] => true | _ => false end) in
  let s4 := run cap s3 (LSetSending false :: qs (1 + first)%nat second) in
  let s5 := settle true cap fuel s4 in
  let s6 := settle true cap fuel (run cap s5 (start params)) in
  let s7 := fold_left (fun s i => settle true cap fuel (step' cap s (LQ (N.of_nat i)))) (seq (1 + first + second)%nat third) s6 in
  (blocked, handed s7).

(* a case of the correspondence: (cap, first, second, third), params, and what the implementation did *)
Definition drain_case := ((nat * nat * nat * nat) * bool * (bool * list N))%type.

Definition list_eqb (a b : list N) : bool :=
  Nat.eqb (length a) (length b) && forallb (fun p => N.eqb (fst p) (snd p)) (combine a b).

Definition drain_mismatches (cs : list drain_case) : list nat :=
  flat_map (fun ic => let '(i, ((cap, f, s, t), pr, (blk, obs))) := ic in
                      let '(mb, mh) := scenario cap f s t pr in
                      if Bool.eqb mb blk && list_eqb mh obs then [] else [i])
           (combine (seq 0 (length cs)) cs).
