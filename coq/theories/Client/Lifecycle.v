(* C14 — LTS model of the goroutine protocol of /repo/client/gribiclient.go: the application
   thread (n calls of Q with sending on), the sender and receiver goroutines started by Connect,
   a waiter (AwaitConverged with a context that allows w_budget polls) and a closer (Close, or
   Reset followed by Connect), over the shared modifyCh (capacity 5, closed flag), sendExitCh,
   shut, the awaiting RW-lock WITH Go's writer preference (an announced Lock blocks new RLocks),
   the wait group (pcs SFin/RFin), the error lists and doneCh.  The Modify stream is abstracted to:
   every request sent is answered by one response; a fault makes Send (or Recv) number f_k fail;
   after a failure on one side the stream is broken for the other side too; after CloseSend the
   server ends the RPC (EOF) once everything is answered.  FEnd: the server ends the RPC CLEANLY
   (status OK) after f_k responses, whatever is still unanswered: Recv number f_k returns io.EOF -
   which the receiver does not record as an error (it sets shut and leaves) - and every later Send
   fails (with io.EOF, recorded by the sender as a send error).
   Model only, no proofs (Client/LifecycleFacts.v has them). *)
From Coq Require Import List Arith Bool.
Import ListNotations.

Definition cap : nat := 5.   (* modifyBuffer *)

Inductive apc := A0 | A1 | A2 | A3 | A4 | AFin.
Inductive spc := S0 | S1 | S2 | S3 | S4e | S5e | S5 | SClose | SExit0 | SExit1 | SFin.
Inductive rkind := KMsg | KErr | KEof.
Inductive rpc := R0 | R1 | R2 (k : rkind) | R3 (k : rkind) | R4 | R4x | RExit | RFin.
Inductive wpc := W0 | W1 | W2 | W3 | W4 | WFin.
Inductive cpc := C0 | C1 | C2 | C3 | CFin.
Inductive wres := WOk | WErr | WTimeout.

Inductive fside := FNone | FSend | FRecv | FEnd.
Inductive cmode := MClose | MReset.

(* v_select : q() selects on sendExitCh while waiting for room in modifyCh
   v_norlock: q() does not hold awaiting.RLock while it pushes into modifyCh *)
Record lvariant := mklv { v_select : bool; v_norlock : bool }.
Definition lv_fixed := mklv true true.
Definition lv_tree := mklv false false.
Definition lv_select_only := mklv true false.   (* the patch proposed in DESIGN.md on its own *)

Record lcfg := mklcfg {
  n_q : nat;          (* calls of Q made by the application *)
  f_side : fside;     (* which side of the stream fails *)
  f_k : nat;          (* ... at this message index *)
  c_mode : cmode;     (* Close, or Reset + Connect *)
  w_budget : nat;     (* polls AwaitConverged can make before its context expires *)
  l_var : lvariant
}.

Record st := mkst {
  a_pc : apc;
  a_i : nat;
  s_pc : spc;
  r_pc : rpc;
  w_pc : wpc;
  w_b : nat;
  w_res : option wres;
  c_pc : cpc;
  cnt : nat;
  closed : bool;
  sendExit : bool;
  shut : bool;
  readers : nat;
  wheld : bool;
  wwait : bool;
  serr : bool;
  rerr : bool;
  queued : nat;
  answered : nat;
  sent : nat;
  recvd : nat;
  inflight : nat;
  broken : bool;
  half : bool;
  done : bool;
  done_ever : bool;
  fault_on : bool;
  reconn : bool
}.

Definition set_a_pc (v : apc) (s : st) : st := mkst v (a_i s) (s_pc s) (r_pc s) (w_pc s) (w_b s) (w_res s) (c_pc s) (cnt s) (closed s) (sendExit s) (shut s) (readers s) (wheld s) (wwait s) (serr s) (rerr s) (queued s) (answered s) (sent s) (recvd s) (inflight s) (broken s) (half s) (done s) (done_ever s) (fault_on s) (reconn s).
Definition set_a_i (v : nat) (s : st) : st := mkst (a_pc s) v (s_pc s) (r_pc s) (w_pc s) (w_b s) (w_res s) (c_pc s) (cnt s) (closed s) (sendExit s) (shut s) (readers s) (wheld s) (wwait s) (serr s) (rerr s) (queued s) (answered s) (sent s) (recvd s) (inflight s) (broken s) (half s) (done s) (done_ever s) (fault_on s) (reconn s).
Definition set_s_pc (v : spc) (s : st) : st := mkst (a_pc s) (a_i s) v (r_pc s) (w_pc s) (w_b s) (w_res s) (c_pc s) (cnt s) (closed s) (sendExit s) (shut s) (readers s) (wheld s) (wwait s) (serr s) (rerr s) (queued s) (answered s) (sent s) (recvd s) (inflight s) (broken s) (half s) (done s) (done_ever s) (fault_on s) (reconn s).
Definition set_r_pc (v : rpc) (s : st) : st := mkst (a_pc s) (a_i s) (s_pc s) v (w_pc s) (w_b s) (w_res s) (c_pc s) (cnt s) (closed s) (sendExit s) (shut s) (readers s) (wheld s) (wwait s) (serr s) (rerr s) (queued s) (answered s) (sent s) (recvd s) (inflight s) (broken s) (half s) (done s) (done_ever s) (fault_on s) (reconn s).
Definition set_w_pc (v : wpc) (s : st) : st := mkst (a_pc s) (a_i s) (s_pc s) (r_pc s) v (w_b s) (w_res s) (c_pc s) (cnt s) (closed s) (sendExit s) (shut s) (readers s) (wheld s) (wwait s) (serr s) (rerr s) (queued s) (answered s) (sent s) (recvd s) (inflight s) (broken s) (half s) (done s) (done_ever s) (fault_on s) (reconn s).
Definition set_w_b (v : nat) (s : st) : st := mkst (a_pc s) (a_i s) (s_pc s) (r_pc s) (w_pc s) v (w_res s) (c_pc s) (cnt s) (closed s) (sendExit s) (shut s) (readers s) (wheld s) (wwait s) (serr s) (rerr s) (queued s) (answered s) (sent s) (recvd s) (inflight s) (broken s) (half s) (done s) (done_ever s) (fault_on s) (reconn s).
Definition set_w_res (v : option wres) (s : st) : st := mkst (a_pc s) (a_i s) (s_pc s) (r_pc s) (w_pc s) (w_b s) v (c_pc s) (cnt s) (closed s) (sendExit s) (shut s) (readers s) (wheld s) (wwait s) (serr s) (rerr s) (queued s) (answered s) (sent s) (recvd s) (inflight s) (broken s) (half s) (done s) (done_ever s) (fault_on s) (reconn s).
Definition set_c_pc (v : cpc) (s : st) : st := mkst (a_pc s) (a_i s) (s_pc s) (r_pc s) (w_pc s) (w_b s) (w_res s) v (cnt s) (closed s) (sendExit s) (shut s) (readers s) (wheld s) (wwait s) (serr s) (rerr s) (queued s) (answered s) (sent s) (recvd s) (inflight s) (broken s) (half s) (done s) (done_ever s) (fault_on s) (reconn s).
Definition set_cnt (v : nat) (s : st) : st := mkst (a_pc s) (a_i s) (s_pc s) (r_pc s) (w_pc s) (w_b s) (w_res s) (c_pc s) v (closed s) (sendExit s) (shut s) (readers s) (wheld s) (wwait s) (serr s) (rerr s) (queued s) (answered s) (sent s) (recvd s) (inflight s) (broken s) (half s) (done s) (done_ever s) (fault_on s) (reconn s).
Definition set_closed (v : bool) (s : st) : st := mkst (a_pc s) (a_i s) (s_pc s) (r_pc s) (w_pc s) (w_b s) (w_res s) (c_pc s) (cnt s) v (sendExit s) (shut s) (readers s) (wheld s) (wwait s) (serr s) (rerr s) (queued s) (answered s) (sent s) (recvd s) (inflight s) (broken s) (half s) (done s) (done_ever s) (fault_on s) (reconn s).
Definition set_sendExit (v : bool) (s : st) : st := mkst (a_pc s) (a_i s) (s_pc s) (r_pc s) (w_pc s) (w_b s) (w_res s) (c_pc s) (cnt s) (closed s) v (shut s) (readers s) (wheld s) (wwait s) (serr s) (rerr s) (queued s) (answered s) (sent s) (recvd s) (inflight s) (broken s) (half s) (done s) (done_ever s) (fault_on s) (reconn s).
Definition set_shut (v : bool) (s : st) : st := mkst (a_pc s) (a_i s) (s_pc s) (r_pc s) (w_pc s) (w_b s) (w_res s) (c_pc s) (cnt s) (closed s) (sendExit s) v (readers s) (wheld s) (wwait s) (serr s) (rerr s) (queued s) (answered s) (sent s) (recvd s) (inflight s) (broken s) (half s) (done s) (done_ever s) (fault_on s) (reconn s).
Definition set_readers (v : nat) (s : st) : st := mkst (a_pc s) (a_i s) (s_pc s) (r_pc s) (w_pc s) (w_b s) (w_res s) (c_pc s) (cnt s) (closed s) (sendExit s) (shut s) v (wheld s) (wwait s) (serr s) (rerr s) (queued s) (answered s) (sent s) (recvd s) (inflight s) (broken s) (half s) (done s) (done_ever s) (fault_on s) (reconn s).
Definition set_wheld (v : bool) (s : st) : st := mkst (a_pc s) (a_i s) (s_pc s) (r_pc s) (w_pc s) (w_b s) (w_res s) (c_pc s) (cnt s) (closed s) (sendExit s) (shut s) (readers s) v (wwait s) (serr s) (rerr s) (queued s) (answered s) (sent s) (recvd s) (inflight s) (broken s) (half s) (done s) (done_ever s) (fault_on s) (reconn s).
Definition set_wwait (v : bool) (s : st) : st := mkst (a_pc s) (a_i s) (s_pc s) (r_pc s) (w_pc s) (w_b s) (w_res s) (c_pc s) (cnt s) (closed s) (sendExit s) (shut s) (readers s) (wheld s) v (serr s) (rerr s) (queued s) (answered s) (sent s) (recvd s) (inflight s) (broken s) (half s) (done s) (done_ever s) (fault_on s) (reconn s).
Definition set_serr (v : bool) (s : st) : st := mkst (a_pc s) (a_i s) (s_pc s) (r_pc s) (w_pc s) (w_b s) (w_res s) (c_pc s) (cnt s) (closed s) (sendExit s) (shut s) (readers s) (wheld s) (wwait s) v (rerr s) (queued s) (answered s) (sent s) (recvd s) (inflight s) (broken s) (half s) (done s) (done_ever s) (fault_on s) (reconn s).
Definition set_rerr (v : bool) (s : st) : st := mkst (a_pc s) (a_i s) (s_pc s) (r_pc s) (w_pc s) (w_b s) (w_res s) (c_pc s) (cnt s) (closed s) (sendExit s) (shut s) (readers s) (wheld s) (wwait s) (serr s) v (queued s) (answered s) (sent s) (recvd s) (inflight s) (broken s) (half s) (done s) (done_ever s) (fault_on s) (reconn s).
Definition set_queued (v : nat) (s : st) : st := mkst (a_pc s) (a_i s) (s_pc s) (r_pc s) (w_pc s) (w_b s) (w_res s) (c_pc s) (cnt s) (closed s) (sendExit s) (shut s) (readers s) (wheld s) (wwait s) (serr s) (rerr s) v (answered s) (sent s) (recvd s) (inflight s) (broken s) (half s) (done s) (done_ever s) (fault_on s) (reconn s).
Definition set_answered (v : nat) (s : st) : st := mkst (a_pc s) (a_i s) (s_pc s) (r_pc s) (w_pc s) (w_b s) (w_res s) (c_pc s) (cnt s) (closed s) (sendExit s) (shut s) (readers s) (wheld s) (wwait s) (serr s) (rerr s) (queued s) v (sent s) (recvd s) (inflight s) (broken s) (half s) (done s) (done_ever s) (fault_on s) (reconn s).
Definition set_sent (v : nat) (s : st) : st := mkst (a_pc s) (a_i s) (s_pc s) (r_pc s) (w_pc s) (w_b s) (w_res s) (c_pc s) (cnt s) (closed s) (sendExit s) (shut s) (readers s) (wheld s) (wwait s) (serr s) (rerr s) (queued s) (answered s) v (recvd s) (inflight s) (broken s) (half s) (done s) (done_ever s) (fault_on s) (reconn s).
Definition set_recvd (v : nat) (s : st) : st := mkst (a_pc s) (a_i s) (s_pc s) (r_pc s) (w_pc s) (w_b s) (w_res s) (c_pc s) (cnt s) (closed s) (sendExit s) (shut s) (readers s) (wheld s) (wwait s) (serr s) (rerr s) (queued s) (answered s) (sent s) v (inflight s) (broken s) (half s) (done s) (done_ever s) (fault_on s) (reconn s).
Definition set_inflight (v : nat) (s : st) : st := mkst (a_pc s) (a_i s) (s_pc s) (r_pc s) (w_pc s) (w_b s) (w_res s) (c_pc s) (cnt s) (closed s) (sendExit s) (shut s) (readers s) (wheld s) (wwait s) (serr s) (rerr s) (queued s) (answered s) (sent s) (recvd s) v (broken s) (half s) (done s) (done_ever s) (fault_on s) (reconn s).
Definition set_broken (v : bool) (s : st) : st := mkst (a_pc s) (a_i s) (s_pc s) (r_pc s) (w_pc s) (w_b s) (w_res s) (c_pc s) (cnt s) (closed s) (sendExit s) (shut s) (readers s) (wheld s) (wwait s) (serr s) (rerr s) (queued s) (answered s) (sent s) (recvd s) (inflight s) v (half s) (done s) (done_ever s) (fault_on s) (reconn s).
Definition set_half (v : bool) (s : st) : st := mkst (a_pc s) (a_i s) (s_pc s) (r_pc s) (w_pc s) (w_b s) (w_res s) (c_pc s) (cnt s) (closed s) (sendExit s) (shut s) (readers s) (wheld s) (wwait s) (serr s) (rerr s) (queued s) (answered s) (sent s) (recvd s) (inflight s) (broken s) v (done s) (done_ever s) (fault_on s) (reconn s).
Definition set_done (v : bool) (s : st) : st := mkst (a_pc s) (a_i s) (s_pc s) (r_pc s) (w_pc s) (w_b s) (w_res s) (c_pc s) (cnt s) (closed s) (sendExit s) (shut s) (readers s) (wheld s) (wwait s) (serr s) (rerr s) (queued s) (answered s) (sent s) (recvd s) (inflight s) (broken s) (half s) v (done_ever s) (fault_on s) (reconn s).
Definition set_done_ever (v : bool) (s : st) : st := mkst (a_pc s) (a_i s) (s_pc s) (r_pc s) (w_pc s) (w_b s) (w_res s) (c_pc s) (cnt s) (closed s) (sendExit s) (shut s) (readers s) (wheld s) (wwait s) (serr s) (rerr s) (queued s) (answered s) (sent s) (recvd s) (inflight s) (broken s) (half s) (done s) v (fault_on s) (reconn s).
Definition set_fault_on (v : bool) (s : st) : st := mkst (a_pc s) (a_i s) (s_pc s) (r_pc s) (w_pc s) (w_b s) (w_res s) (c_pc s) (cnt s) (closed s) (sendExit s) (shut s) (readers s) (wheld s) (wwait s) (serr s) (rerr s) (queued s) (answered s) (sent s) (recvd s) (inflight s) (broken s) (half s) (done s) (done_ever s) v (reconn s).
Definition set_reconn (v : bool) (s : st) : st := mkst (a_pc s) (a_i s) (s_pc s) (r_pc s) (w_pc s) (w_b s) (w_res s) (c_pc s) (cnt s) (closed s) (sendExit s) (shut s) (readers s) (wheld s) (wwait s) (serr s) (rerr s) (queued s) (answered s) (sent s) (recvd s) (inflight s) (broken s) (half s) (done s) (done_ever s) (fault_on s) v.

Definition init (c : lcfg) : st :=
  mkst A0 0 S0 R0 W0 (w_budget c) None C0
       0 false false false
       0 false false
       false false
       0 0
       0 0 0
       false false false
       false (match f_side c with FNone => false | _ => true end) false.

Inductive thread := TApp | TAppExit | TSender | TReceiver | TWaiter | TCloser.

Definition wlocked (s : st) : bool := wheld s || wwait s.

(* the application: for i < n: Q(m) = handleModifyRequest; q(m) *)
Definition step_app (c : lcfg) (s : st) : option st :=
  match a_pc s with
  | A0 => if a_i s =? n_q c then Some (set_a_pc AFin s)
          else Some (set_a_pc A1 (set_queued (S (queued s)) s))                            (* handleModifyRequest *)
  | A1 => if v_norlock (l_var c) then Some (set_a_pc A2 s)
          else if wlocked s then None else Some (set_a_pc A2 (set_readers (S (readers s)) s))   (* awaiting.RLock *)
  | A2 => Some (set_a_pc (if sendExit s then A4 else A3) s)                                (* chIsClosed(sendExitCh) *)
  | A3 => if cnt s <? cap then Some (set_a_pc A4 (set_cnt (S (cnt s)) s)) else None        (* modifyCh <- m *)
  | A4 => Some (set_a_pc A0 (set_a_i (S (a_i s))
                 (if v_norlock (l_var c) then s else set_readers (pred (readers s)) s)))   (* RUnlock, return *)
  | AFin => None
  end.

(* the other branch of the select in the repaired q(): <-sendExitCh *)
Definition step_app_exit (c : lcfg) (s : st) : option st :=
  match a_pc s with
  | A3 => if v_select (l_var c) && sendExit s then Some (set_a_pc A4 s) else None
  | _ => None
  end.

Definition send_fails (c : lcfg) (s : st) : bool :=
  broken s || (fault_on s && match f_side c with FSend => sent s =? f_k c | _ => false end).
Definition recv_fault (c : lcfg) (s : st) : bool :=
  fault_on s && match f_side c with FRecv => recvd s =? f_k c | _ => false end.
(* the server has ended the RPC with status OK after f_k responses *)
Definition recv_end (c : lcfg) (s : st) : bool :=
  fault_on s && match f_side c with FEnd => recvd s =? f_k c | _ => false end.

Definition step_sender (c : lcfg) (s : st) : option st :=
  if reconn s then None else
  match s_pc s with
  | S0 => Some (set_s_pc (if shut s then SExit0 else S1) s)
  | S1 => if 0 <? cnt s then Some (set_s_pc S2 (set_cnt (pred (cnt s)) s))
          else if closed s then Some (set_s_pc SClose s) else None
  | SClose => Some (set_s_pc SExit0 (set_half true s))                                  (* CloseSend *)
  | S2 => if wlocked s then None else Some (set_s_pc S3 (set_readers (S (readers s)) s))
  | S3 => if send_fails c s then Some (set_s_pc S4e (set_broken true s))
          else Some (set_s_pc S5 (set_sent (S (sent s)) (set_inflight (S (inflight s)) s)))
  | S4e => Some (set_s_pc S5e (set_serr true s))                                        (* addSendErr *)
  | S5e => Some (set_s_pc SExit0 (set_readers (pred (readers s)) s))
  | S5 => Some (set_s_pc S0 (set_readers (pred (readers s)) s))
  | SExit0 => Some (set_s_pc SExit1 (set_sendExit true s))                              (* sendExitCh <- ; close *)
  | SExit1 => Some (set_s_pc SFin (set_done true (set_done_ever true s)))               (* informDone; wg.Done *)
  | SFin => None
  end.

Definition step_receiver (c : lcfg) (s : st) : option st :=
  if reconn s then None else
  match r_pc s with
  | R0 => Some (set_r_pc (if shut s then RExit else R1) s)
  | R1 => if broken s then Some (set_r_pc (R2 KErr) s)
          else if recv_fault c s then Some (set_r_pc (R2 KErr) (set_broken true s))
          else if recv_end c s then Some (set_r_pc (R2 KEof) (set_broken true s))
          else if 0 <? inflight s then Some (set_r_pc (R2 KMsg) (set_inflight (pred (inflight s)) (set_recvd (S (recvd s)) s)))
          else if half s then Some (set_r_pc (R2 KEof) s)
          else None
  | R2 k => if wlocked s then None else Some (set_r_pc (R3 k) (set_readers (S (readers s)) s))
  | R3 KMsg => Some (set_r_pc R4 (set_answered (S (answered s)) s))                     (* handleModifyResponse *)
  | R3 KErr => Some (set_r_pc R4x (set_rerr true s))                                    (* addReadErr *)
  | R3 KEof => Some (set_r_pc R4x (set_shut true s))
  | R4 => Some (set_r_pc R0 (set_readers (pred (readers s)) s))
  | R4x => Some (set_r_pc RExit (set_readers (pred (readers s)) s))
  | RExit => Some (set_r_pc RFin (set_done true (set_done_ever true s)))                (* informDone; wg.Done *)
  | RFin => None
  end.

(* AwaitConverged *)
Definition step_waiter (c : lcfg) (s : st) : option st :=
  match w_pc s with
  | W0 => match w_b s with
          | 0 => Some (set_w_pc WFin (set_w_res (Some WTimeout) s))                      (* ctx.Done() *)
          | S _ => Some (set_w_pc W1 s)
          end
  | W1 => Some (set_w_pc W2 (set_wwait true s))                                         (* Lock announced *)
  | W2 => if readers s =? 0 then Some (set_w_pc W3 (set_wwait false (set_wheld true s))) else None
  | W3 => Some (set_w_pc W4
            (if serr s || rerr s then set_w_res (Some WErr) s
             else if queued s =? answered s then set_w_res (Some WOk) s else s))
  | W4 => Some (match w_res s with
                | Some _ => set_w_pc WFin (set_wheld false s)
                | None => set_w_pc W0 (set_w_b (pred (w_b s)) (set_wheld false s))      (* sleep(BusyLoopDelay) *)
                end)
  | WFin => None
  end.

Definition is_afin (p : apc) : bool := match p with AFin => true | _ => false end.
Definition is_wfin (p : wpc) : bool := match p with WFin => true | _ => false end.
Definition is_sfin (p : spc) : bool := match p with SFin => true | _ => false end.
Definition is_rfin (p : rpc) : bool := match p with RFin => true | _ => false end.
Definition is_cfin (p : cpc) : bool := match p with CFin => true | _ => false end.

(* Close / Reset;Connect, called once the burst and AwaitConverged have returned *)
Definition step_closer (c : lcfg) (s : st) : option st :=
  match c_pc s with
  | C0 => if is_afin (a_pc s) && is_wfin (w_pc s)
          then Some (set_c_pc C1 (if sendExit s then s else set_closed true s))         (* disconnect *)
          else None
  | C1 => if is_sfin (s_pc s) && is_rfin (r_pc s)                                       (* wg.Wait *)
          then Some (set_c_pc (match c_mode c with MClose => CFin | MReset => C2 end) s)
          else None
  | C2 => Some (set_c_pc C3 (set_serr false (set_rerr false (set_queued 0 (set_answered 0
                 (set_cnt 0 (set_closed false (set_done false s))))))))                 (* Reset *)
  | C3 => Some (set_c_pc CFin (set_shut false (set_sendExit false (set_broken false (set_half false
                 (set_inflight 0 (set_sent 0 (set_recvd 0 (set_fault_on false
                 (set_s_pc S0 (set_r_pc R0 (set_reconn true s))))))))))))               (* Connect *)
  | CFin => None
  end.

Definition step (c : lcfg) (s : st) (t : thread) : option st :=
  match t with
  | TApp => step_app c s
  | TAppExit => step_app_exit c s
  | TSender => step_sender c s
  | TReceiver => step_receiver c s
  | TWaiter => step_waiter c s
  | TCloser => step_closer c s
  end.

Definition all_threads : list thread := [TApp; TAppExit; TSender; TReceiver; TWaiter; TCloser].

(* a schedule is a list of thread ids; a thread that cannot step is skipped *)
Fixpoint exec (c : lcfg) (s : st) (sched : list thread) : st :=
  match sched with
  | [] => s
  | t :: tl => match step c s t with Some s' => exec c s' tl | None => exec c s tl end
  end.

Inductive reach (c : lcfg) : st -> Prop :=
| reach_init : reach c (init c)
| reach_step s t s' : reach c s -> step c s t = Some s' -> reach c s'.

Definition final (s : st) : bool := is_cfin (c_pc s).
Definition enabled (c : lcfg) (s : st) (t : thread) : bool := match step c s t with Some _ => true | None => false end.
(* no thread can step although the closer has not returned *)
Definition deadlocked (c : lcfg) (s : st) : bool := negb (final s) && negb (existsb (enabled c s) all_threads).

(* what a fresh connected client looks like *)
Definition fresh (s : st) : bool :=
  (cnt s =? 0) && negb (closed s) && negb (sendExit s) && negb (shut s) && (readers s =? 0) && negb (wheld s) && negb (wwait s)
  && negb (serr s) && negb (rerr s) && (queued s =? 0) && (answered s =? 0) && (sent s =? 0) && (recvd s =? 0)
  && (inflight s =? 0) && negb (broken s) && negb (half s) && negb (done s)
  && match s_pc s, r_pc s with S0, R0 => true | _, _ => false end.

(* the sender goroutine is on its way out (it no longer takes requests) *)
Definition sender_gone (s : st) : bool := match s_pc s with SExit0 | SExit1 | SFin => true | _ => false end.
(* Reset has not cleared the error lists (and Connect has not replaced the stream) yet *)
Definition before_reset (c : lcfg) (s : st) : Prop :=
  match c_pc s with C0 | C1 | C2 => True | C3 => False | CFin => c_mode c = MClose end.

(* ---------------------------------------------------------------- schedules used to run cases *)

Fixpoint first_enabled (c : lcfg) (s : st) (ts : list thread) : option st :=
  match ts with
  | [] => None
  | t :: tl => match step c s t with Some s' => Some s' | None => first_enabled c s tl end
  end.
(* priority scheduler: always the first thread of ts that can step, until stop holds, nothing can
   step, or the fuel is used up *)
Fixpoint run_prio (c : lcfg) (ts : list thread) (stop : st -> bool) (fuel : nat) (s : st) : st :=
  match fuel with
  | 0 => s
  | S f => if stop s then s else
           match first_enabled c s ts with Some s' => run_prio c ts stop f s' | None => s end
  end.

Definition parked (c : lcfg) (s : st) : bool :=
  match s_pc s with S3 => send_fails c s | _ => false end.
(* "slow Send": the sender runs until it is inside the Send that is going to fail and stays there
   while the application queues as much as it can; AwaitConverged is called (it announces its Lock
   and waits for the sender's RLock); then the Send fails and everything runs *)
Definition run_slow (c : lcfg) (fuel : nat) : st :=
  let s1 := run_prio c [TSender; TApp; TReceiver] (parked c) fuel (init c) in
  let s2 := run_prio c [TApp; TAppExit; TReceiver] (fun _ => false) fuel s1 in
  let s3 := run_prio c [TWaiter] (fun _ => false) fuel s2 in
  run_prio c [TSender; TReceiver; TApp; TAppExit; TWaiter; TCloser] (fun _ => false) fuel s3.
Definition run_fair (c : lcfg) (fuel : nat) : st :=
  run_prio c [TSender; TReceiver; TApp; TAppExit; TWaiter; TCloser] (fun _ => false) fuel (init c).

(* "clean end, idle sender": the application queues the first `first` requests and pauses; the sender
   sends them all and parks in its channel receive; the receiver takes the f_k responses and then the
   end of the RPC (FEnd); only then the application queues the rest, AwaitConverged and the closer run *)
Definition is_a0 (p : apc) : bool := match p with A0 => true | _ => false end.
Definition run_end (c : lcfg) (first fuel : nat) : st :=
  let s1 := run_prio c [TApp; TSender] (fun s => is_a0 (a_pc s) && (first <=? a_i s)) fuel (init c) in
  let s2 := run_prio c [TSender; TReceiver] (fun _ => false) fuel s1 in
  run_prio c [TApp; TAppExit; TSender; TReceiver; TWaiter; TCloser] (fun _ => false) fuel s2.

(* the observable outcome of a run *)
Record outcome := mkout {
  o_q : bool;                 (* the burst of Q calls returned *)
  o_await : option wres;      (* AwaitConverged returned this (None: it did not return) *)
  o_done : bool;              (* Done() was signalled *)
  o_closed : bool;            (* Close / Reset+Connect returned *)
  o_left : nat;               (* sender/receiver goroutines of the first connection still alive *)
  o_fresh : bool              (* Reset mode: the client is as new *)
}.
Definition b2n (b : bool) : nat := if b then 1 else 0.
Definition outcome_of (c : lcfg) (s : st) : outcome :=
  mkout (is_afin (a_pc s))
        (if is_wfin (w_pc s) then w_res s else None)
        (done_ever s)
        (final s)
        (if reconn s then 0 else b2n (negb (is_sfin (s_pc s))) + b2n (negb (is_rfin (r_pc s))))
        (match c_mode c with MClose => true | MReset => final s && fresh s end).

Definition wres_eqb (a b : wres) : bool :=
  match a, b with WOk, WOk | WErr, WErr | WTimeout, WTimeout => true | _, _ => false end.
Definition outcome_eqb (a b : outcome) : bool :=
  Bool.eqb (o_q a) (o_q b)
  && match o_await a, o_await b with Some x, Some y => wres_eqb x y | None, None => true | _, _ => false end
  && Bool.eqb (o_done a) (o_done b) && Bool.eqb (o_closed a) (o_closed b) && (o_left a =? o_left b)
  && Bool.eqb (o_fresh a) (o_fresh b).

(* a case: burst size, fault side and index, mode, slow Send?, (FEnd: requests queued before the server
   ends the RPC), and what the implementation did *)
(* lc_modelled = false: a scenario outside this model (checked by the harness' oracle only) *)
Record lcase := mklcase { lc_modelled : bool; lc_n : nat; lc_side : fside; lc_k : nat; lc_mode : cmode; lc_slow : bool; lc_first : nat; lc_obs : outcome }.
Definition lcase_cfg (v : lvariant) (k : lcase) : lcfg := mklcfg (lc_n k) (lc_side k) (lc_k k) (lc_mode k) 40 v.
Definition lcase_fuel (k : lcase) : nat := 400 + 40 * lc_n k.
Definition lcase_ok_with (v : lvariant) (k : lcase) : bool :=
  let c := lcase_cfg v k in
  negb (lc_modelled k) ||
  outcome_eqb (outcome_of c (match lc_side k with
                             | FEnd => run_end c (lc_first k) (lcase_fuel k)
                             | _ => if lc_slow k then run_slow c (lcase_fuel k) else run_fair c (lcase_fuel k)
                             end)) (lc_obs k).
Fixpoint bad_indices {A} (f : A -> bool) (l : list A) (i : nat) : list nat :=
  match l with [] => [] | a :: tl => if f a then bad_indices f tl (S i) else i :: bad_indices f tl (S i) end.
(* the correspondence runs the repaired protocol *)
Definition lmismatches (cs : list lcase) : list nat := bad_indices (lcase_ok_with lv_fixed) cs 0.
(* diagnostic: the protocol as it is in the tree (meaningful for slow cases, whose outcome is deterministic) *)
Definition lmismatches_tree (cs : list lcase) : list nat := bad_indices (lcase_ok_with lv_tree) cs 0.
