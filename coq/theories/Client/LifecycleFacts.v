(* C14 — proofs about the goroutine protocol model Client/Lifecycle.v:
   an inductive invariant, a measure that strictly decreases on every step of every thread (any
   variant), and progress for the repaired protocol; hence no deadlock and termination in a clean
   final state for all n, k, fault sides, modes, budgets and all schedules. *)
From Coq Require Import List Arith Bool Lia.
From GV.Client Require Import Lifecycle.
Import ListNotations.

(* ------------------------------------------------------------------ pc classifications *)
Definition lk_s (p : spc) : nat := match p with S3 | S4e | S5e | S5 => 1 | _ => 0 end.
Definition lk_r (p : rpc) : nat := match p with R3 _ | R4 | R4x => 1 | _ => 0 end.
Definition lk_a (v : lvariant) (p : apc) : nat :=
  if v_norlock v then 0 else match p with A2 | A3 | A4 => 1 | _ => 0 end.
Definition w34 (p : wpc) : bool := match p with W3 | W4 => true | _ => false end.
Definition w2 (p : wpc) : bool := match p with W2 => true | _ => false end.
Definition w_mid (p : wpc) : bool := match p with W1 | W2 | W3 | W4 => true | _ => false end.
Definition s_post (p : spc) : bool := match p with SExit1 | SFin => true | _ => false end.
Definition s_err (p : spc) : bool := match p with S4e | S5e => true | _ => false end.
Definition s_out (p : spc) : bool := match p with SExit0 | SExit1 | SFin => true | _ => false end.
Definition r_shut (p : rpc) : bool := match p with R4x | RExit | RFin => true | _ => false end.
Definition a_rem (p : apc) : nat := match p with A1 | A2 | A3 | A4 => 1 | _ => 0 end.

Record Inv (c : lcfg) (s : st) : Prop := {
  i_readers : readers s = lk_s (s_pc s) + lk_r (r_pc s) + lk_a (l_var c) (a_pc s);
  i_wheld : wheld s = w34 (w_pc s);
  i_wwait : wwait s = w2 (w_pc s);
  i_exit : sendExit s = s_post (s_pc s);
  i_cnt : cnt s <= cap;
  i_ai : a_i s + a_rem (a_pc s) <= n_q c;
  i_afin : a_pc s = AFin -> a_i s = n_q c;
  i_c0 : c_pc s <> C0 -> a_pc s = AFin /\ w_pc s = WFin;
  i_c1 : c_pc s = C1 -> closed s = true \/ sendExit s = true;
  i_cmid : c_pc s = C2 \/ c_pc s = C3 \/ (c_pc s = CFin /\ reconn s = false) -> s_pc s = SFin /\ r_pc s = RFin;
  i_serr : s_err (s_pc s) = true -> broken s = true;
  i_sout : s_out (s_pc s) = true -> reconn s = false -> broken s = true \/ half s = true \/ shut s = true;
  i_shut : shut s = true -> r_shut (r_pc s) = true;
  i_reconn : reconn s = true -> c_pc s = CFin /\ c_mode c = MReset;
  i_wb : w_mid (w_pc s) = true -> 1 <= w_b s;
  i_wres : w_pc s = WFin -> w_res s <> None;
  i_done : (s_pc s = SFin \/ r_pc s = RFin) -> reconn s = false -> done_ever s = true;
  i_doneclose : c_mode c = MClose -> done s = done_ever s;
  i_modeclose : c_mode c = MClose -> c_pc s <> C2 /\ c_pc s <> C3;
  i_c3 : c_pc s = C3 -> serr s = false /\ rerr s = false /\ queued s = 0 /\ answered s = 0 /\ cnt s = 0
                        /\ closed s = false /\ done s = false;
  i_fresh : c_pc s = CFin -> c_mode c = MReset -> fresh s = true
}.

Lemma inv_init c : Inv c (init c).
Proof.
  split; unfold init; cbn; intros; try reflexivity; try discriminate; try lia; try tauto; try congruence.
  - unfold lk_a. destruct (v_norlock (l_var c)); reflexivity.
  - destruct H as [H|[H|[H _]]]; discriminate.
  - destruct H; discriminate.
  - split; discriminate.
Qed.

Ltac inv_some H := inversion H; subst; clear H.

(* destruct the conditionals of a step hypothesis *)
Ltac break H :=
  repeat match type of H with
         | context [if ?b then _ else _] => let E := fresh "E" in destruct b eqn:E
         | context [match ?x with _ => _ end] => let E := fresh "E" in destruct x eqn:E
         end; try discriminate H.

Ltac natb :=
  repeat match goal with
         | H : (_ =? _) = true |- _ => apply Nat.eqb_eq in H
         | H : (_ =? _) = false |- _ => apply Nat.eqb_neq in H
         | H : (_ <? _) = true |- _ => apply Nat.ltb_lt in H
         | H : (_ <? _) = false |- _ => apply Nat.ltb_ge in H
         | H : (_ <=? _) = true |- _ => apply Nat.leb_le in H
         | H : (_ <=? _) = false |- _ => apply Nat.leb_gt in H
         end.

Ltac rw_pcs :=
  repeat match goal with
         | E : a_pc ?s = _ |- context [a_pc ?s] => rewrite E
         | E : s_pc ?s = _ |- context [s_pc ?s] => rewrite E
         | E : r_pc ?s = _ |- context [r_pc ?s] => rewrite E
         | E : w_pc ?s = _ |- context [w_pc ?s] => rewrite E
         | E : c_pc ?s = _ |- context [c_pc ?s] => rewrite E
         end.

Ltac fin :=
  cbn; rw_pcs; cbn; try assumption; try reflexivity; try lia; try congruence;
  intros; try assumption; try lia; try congruence;
  try (intuition (try congruence; try lia; try discriminate)).

(* after the step hypothesis has been inverted: simplify once, then one goal per clause *)
Ltac clauses :=
  cbn in *; natb; unfold cap in *; split; unfold cap;
  try match goal with Ev : v_norlock _ = _ |- _ => unfold lk_a; rewrite ?Ev end; fin.

Lemma step_inv c s t s' : Inv c s -> step c s t = Some s' -> Inv c s'.
Proof.
  intros [I1 I2 I3 I4 I5 I6 I7 I8 I9 I10 I11 I12 I13 I14 I15 I16 I17 I18 I19 I20 I21] H.
  assert (Hc0 : c_pc s = C0 \/ (a_pc s = AFin /\ w_pc s = WFin)).
  { destruct (c_pc s) eqn:E; [left; reflexivity| | | |]; right; apply I8; discriminate. }
  destruct t; cbn [step] in H.
  - (* application *)
    unfold step_app in H. unfold lk_a in *. destruct (v_norlock (l_var c)) eqn:Ev;
      (destruct (a_pc s) eqn:Ea; unfold wlocked in *; break H; inv_some H; rewrite ?Ea in *; clauses).
  - unfold step_app_exit in H. unfold lk_a in *. destruct (v_norlock (l_var c)) eqn:Ev;
      (destruct (a_pc s) eqn:Ea; break H; inv_some H; rewrite ?Ea in *; clauses).
  - (* sender *)
    unfold step_sender in H. destruct (reconn s) eqn:Er; [discriminate|].
    destruct (s_pc s) eqn:Es; unfold wlocked, send_fails in *; break H; inv_some H; rewrite ?Es in *; clauses.
  - (* receiver *)
    unfold step_receiver in H. destruct (reconn s) eqn:Er; [discriminate|].
    destruct (r_pc s) eqn:Erp; unfold wlocked, recv_fault, recv_end in *; break H; inv_some H; rewrite ?Erp in *; clauses.
  - (* waiter *)
    unfold step_waiter in H. destruct (w_pc s) eqn:Ew; break H; inv_some H; rewrite ?Ew in *; clauses.
  - (* closer *)
    unfold step_closer in H. unfold lk_a in *. destruct (v_norlock (l_var c)) eqn:Ev;
    (destruct (c_pc s) eqn:Ec;
    [ destruct (a_pc s) eqn:Ea; cbn in H; try discriminate H;
      destruct (w_pc s) eqn:Ew; cbn in H; try discriminate H;
      destruct (sendExit s) eqn:Ex; inv_some H; rewrite ?Ea, ?Ew, ?Ec in *; clauses
    | destruct (s_pc s) eqn:Es; cbn in H; try discriminate H;
      destruct (r_pc s) eqn:Erp; cbn in H; try discriminate H;
      destruct (I8 ltac:(discriminate)) as [Ea Ew];
      destruct (c_mode c) eqn:Em; inv_some H; rewrite ?Ea, ?Ew, ?Es, ?Erp, ?Ec in *; clauses
    | destruct (I8 ltac:(discriminate)) as [Ea Ew];
      destruct (I10 ltac:(auto)) as [Es Erp];
      inv_some H; rewrite ?Ea, ?Ew, ?Es, ?Erp, ?Ec in *; clauses
    | destruct (I8 ltac:(discriminate)) as [Ea Ew];
      destruct (I10 ltac:(auto)) as [Es Erp];
      destruct (I20 eq_refl) as (F1 & F2 & F3 & F4 & F5 & F6 & F7);
      assert (Hm : c_mode c = MReset)
        by (destruct (c_mode c) eqn:Em; [destruct (I19 eq_refl) as [_ X]; congruence|reflexivity]);
      inv_some H; rewrite ?Ea, ?Ew, ?Es, ?Erp, ?Ec in *; clauses;
      unfold fresh; cbn; rewrite F1, F2, F3, F4, F5, F6, F7, I2, I3;
      assert (Hr : readers s = 0) by lia; rewrite Hr; reflexivity
    | discriminate ]).
Qed.

Lemma reach_inv c s : reach c s -> Inv c s.
Proof. induction 1; [apply inv_init|eapply step_inv; eauto]. Qed.

(* ------------------------------------------------------------------ the measure *)
Definition rankA (p : apc) : nat := match p with A0 => 5 | A1 => 4 | A2 => 3 | A3 => 2 | A4 => 1 | AFin => 0 end.
Definition rankS (p : spc) : nat :=
  match p with S2 => 9 | S3 => 8 | S5 => 7 | S0 => 6 | S1 => 5 | SClose => 4 | S4e => 4 | S5e => 3
             | SExit0 => 2 | SExit1 => 1 | SFin => 0 end.
Definition rankR (p : rpc) : nat :=
  match p with R2 KMsg => 11 | R3 KMsg => 10 | R4 => 9 | R0 => 8 | R1 => 7 | R2 _ => 6 | R3 _ => 5
             | R4x => 4 | RExit => 3 | RFin => 0 end.
Definition rankW (p : wpc) : nat := match p with W0 => 5 | W1 => 4 | W2 => 3 | W3 => 2 | W4 => 1 | WFin => 0 end.
Definition rankC (p : cpc) : nat := match p with C0 => 4 | C1 => 3 | C2 => 2 | C3 => 1 | CFin => 0 end.

(* pushes the application can still make *)
Definition rem_push (c : lcfg) (s : st) : nat :=
  match a_pc s with AFin => 0 | A4 => n_q c - a_i s - 1 | _ => n_q c - a_i s end.
Definition taken (p : spc) : nat := match p with S2 | S3 => 1 | _ => 0 end.

Definition mA (c : lcfg) (s : st) : nat := match a_pc s with AFin => 0 | p => 6 * (n_q c - a_i s) + rankA p end.
Definition mS (c : lcfg) (s : st) : nat := if reconn s then 0 else 10 * (rem_push c s + cnt s) + rankS (s_pc s).
Definition mR (c : lcfg) (s : st) : nat :=
  if reconn s then 0 else 12 * (rem_push c s + cnt s + taken (s_pc s) + inflight s) + rankR (r_pc s).
Definition mW (s : st) : nat := match w_pc s with WFin => 0 | p => 6 * w_b s + rankW p end.
Definition measure (c : lcfg) (s : st) : nat := mA c s + mS c s + mR c s + mW s + rankC (c_pc s).

Ltac msolve := cbn -[Nat.mul Nat.sub] in *; natb; try lia.

Lemma step_measure c s t s' : Inv c s -> step c s t = Some s' -> measure c s' < measure c s.
Proof.
  intros I H. pose proof (i_ai c s I) as I6. pose proof (i_wb c s I) as I15. clear I.
  unfold measure, mA, mS, mR, mW, rem_push.
  destruct t; cbn [step] in H.
  - unfold step_app in H. destruct (a_pc s) eqn:Ea; unfold wlocked in *; break H; natb; inv_some H;
      cbn -[Nat.mul Nat.sub] in *; rewrite ?Ea in *; destruct (reconn s); msolve.
  - unfold step_app_exit in H. destruct (a_pc s) eqn:Ea; break H; natb; inv_some H;
      cbn -[Nat.mul Nat.sub] in *; rewrite ?Ea in *; destruct (reconn s); msolve.
  - unfold step_sender in H. destruct (reconn s) eqn:Er; [discriminate|].
    destruct (s_pc s) eqn:Es; unfold wlocked, send_fails in *; break H; natb; inv_some H;
      cbn -[Nat.mul Nat.sub] in *; rewrite ?Es, ?Er in *; destruct (a_pc s); msolve.
  - unfold step_receiver in H. destruct (reconn s) eqn:Er; [discriminate|].
    destruct (r_pc s) eqn:Erp; try match goal with k : rkind |- _ => destruct k end;
      unfold wlocked, recv_fault, recv_end in *; break H; natb; inv_some H;
      cbn -[Nat.mul Nat.sub] in *; rewrite ?Erp, ?Er in *; destruct (a_pc s); msolve.
  - unfold step_waiter in H. destruct (w_pc s) eqn:Ew; break H; natb; inv_some H;
      cbn -[Nat.mul Nat.sub] in *; rewrite ?Ew in *; destruct (a_pc s), (reconn s); msolve.
  - unfold step_closer in H. destruct (c_pc s) eqn:Ec; break H; natb; inv_some H;
      cbn -[Nat.mul Nat.sub] in *; destruct (a_pc s), (reconn s), (w_pc s); msolve.
Qed.

(* every sequence of steps is bounded by the measure: all schedules terminate *)
Inductive steps (c : lcfg) : st -> nat -> st -> Prop :=
| steps_nil s : steps c s 0 s
| steps_cons s t s1 k s2 : step c s t = Some s1 -> steps c s1 k s2 -> steps c s (S k) s2.

Lemma steps_bounded c s k s' : Inv c s -> steps c s k s' -> k + measure c s' <= measure c s /\ Inv c s'.
Proof.
  intros I H. induction H as [|s t s1 k s2 Hs _ IH]; [split; [lia|exact I]|].
  pose proof (step_measure _ _ _ _ I Hs). pose proof (step_inv _ _ _ _ I Hs) as I1.
  destruct (IH I1). split; [lia|assumption].
Qed.

Lemma steps_reach c s k s' : reach c s -> steps c s k s' -> reach c s'.
Proof. intros R H. induction H; [exact R|]. apply IHsteps. eapply reach_step; eauto. Qed.

(* ------------------------------------------------------------------ progress (repaired protocol) *)

Lemma progress c s : l_var c = lv_fixed -> Inv c s -> final s = false -> exists t s', step c s t = Some s'.
Proof.
  intros V [I1 I2 I3 I4 I5 I6 I7 I8 I9 I10 I11 I12 I13 I14 I15 I16 I17 I18 I19 I20 I21] F.
  unfold final in F.
  assert (Rc : reconn s = false).
  { destruct (reconn s) eqn:E; [|reflexivity]. destruct (I14 eq_refl) as [X _]. rewrite X in F. discriminate. }
  assert (LA : lk_a (l_var c) (a_pc s) = 0) by (unfold lk_a; rewrite V; reflexivity).
  (* a thread inside the lock can always step *)
  assert (Hlocked : readers s <> 0 -> exists t s', step c s t = Some s').
  { intros Hr. rewrite I1, LA in Hr.
    destruct (s_pc s) eqn:Es; cbn in Hr;
      try (exists TSender; cbn; unfold step_sender; rewrite Rc, Es; destruct (send_fails c s); eauto; fail).
    all: destruct (r_pc s) eqn:Erp; cbn in Hr; try lia;
      try (exists TReceiver; cbn; unfold step_receiver; rewrite Rc, Erp; try destruct k; eauto; fail). }
  destruct (w_pc s) eqn:Ew.
  - exists TWaiter. cbn. unfold step_waiter. rewrite Ew. destruct (w_b s); eauto.
  - exists TWaiter. cbn. unfold step_waiter. rewrite Ew. eauto.
  - destruct (readers s =? 0) eqn:Er.
    + exists TWaiter. cbn. unfold step_waiter. rewrite Ew, Er. eauto.
    + apply Hlocked. apply Nat.eqb_neq. exact Er.
  - exists TWaiter. cbn. unfold step_waiter. rewrite Ew. eauto.
  - exists TWaiter. cbn. unfold step_waiter. rewrite Ew. eauto.
  - (* the waiter has returned: nobody holds or waits for the write lock *)
    assert (WL : wlocked s = false) by (unfold wlocked; rewrite I2, I3; reflexivity).
    assert (Hsender : s_pc s <> SFin -> (s_pc s = S1 -> 0 < cnt s \/ closed s = true) -> exists t s', step c s t = Some s').
    { intros Hn H1. exists TSender. cbn. unfold step_sender. rewrite Rc.
      destruct (s_pc s) eqn:Es; try rewrite WL; try (destruct (send_fails c s)); eauto; try congruence.
      all: destruct (H1 eq_refl) as [X|X];
        [apply Nat.ltb_lt in X; rewrite X; eauto|rewrite X; destruct (0 <? cnt s); eauto]. }
    destruct (a_pc s) eqn:Ea.
    + exists TApp. cbn. unfold step_app. rewrite Ea. destruct (a_i s =? n_q c); eauto.
    + exists TApp. cbn. unfold step_app. rewrite Ea, WL. destruct (v_norlock (l_var c)); eauto.
    + exists TApp. cbn. unfold step_app. rewrite Ea. eauto.
    + destruct (cnt s <? cap) eqn:Ec.
      * exists TApp. cbn. unfold step_app. rewrite Ea, Ec. eauto.
      * destruct (sendExit s) eqn:Ex.
        -- exists TAppExit. cbn. unfold step_app_exit. rewrite Ea, V, Ex. cbn. eauto.
        -- apply Hsender.
           ++ intros X. rewrite X in I4. discriminate.
           ++ intros _. left. apply Nat.ltb_ge in Ec. unfold cap in Ec. lia.
    + exists TApp. cbn. unfold step_app. rewrite Ea. eauto.
    + (* application and waiter have returned: the closer runs *)
      destruct (c_pc s) eqn:Ecp.
      * exists TCloser. cbn. unfold step_closer. rewrite Ecp, Ea, Ew. cbn. eauto.
      * destruct (s_pc s) eqn:Es.
        11: { destruct (r_pc s) eqn:Erp.
              8: { exists TCloser. cbn. unfold step_closer. rewrite Ecp, Es, Erp. cbn. eauto. }
              all: exists TReceiver; cbn; unfold step_receiver; rewrite Rc, Erp; try rewrite WL; try (destruct k); eauto.
              (* R1: the sender has returned, so the stream is broken, half closed, or shut *)
              destruct (I12 eq_refl Rc) as [X|[X|X]].
              - rewrite X. eauto.
              - destruct (broken s); eauto. destruct (recv_fault c s); eauto. destruct (recv_end c s); eauto. destruct (0 <? inflight s); eauto. rewrite X. eauto.
              - apply I13 in X. discriminate. }
        all: apply Hsender; try discriminate; intros X; try discriminate X.
        destruct (I9 eq_refl) as [Y|Y]; [right; exact Y|]. rewrite I4 in Y. discriminate.
      * exists TCloser. cbn. unfold step_closer. rewrite Ecp. eauto.
      * exists TCloser. cbn. unfold step_closer. rewrite Ecp. eauto.
      * discriminate.
Qed.

Lemma enabled_some c s t : enabled c s t = true <-> exists s', step c s t = Some s'.
Proof. unfold enabled. destruct (step c s t); split; intros; eauto; try discriminate. destruct H; discriminate. Qed.

Theorem no_deadlock c s : l_var c = lv_fixed -> reach c s -> deadlocked c s = false.
Proof.
  intros V R. unfold deadlocked. destruct (final s) eqn:F; [reflexivity|]. cbn [negb andb].
  destruct (progress c s V (reach_inv c s R) F) as (t & s' & H).
  assert (existsb (enabled c s) all_threads = true); [|rewrite H0; reflexivity].
  apply existsb_exists. exists t. split; [destruct t; cbn; tauto|]. apply enabled_some. eauto.
Qed.

(* a state in which no thread can step is final, and final states are clean *)
Theorem terminal_is_clean c s : l_var c = lv_fixed -> reach c s ->
  (forall t, step c s t = None) ->
  final s = true /\ a_pc s = AFin /\ w_pc s = WFin /\ w_res s <> None
  /\ (c_mode c = MClose -> s_pc s = SFin /\ r_pc s = RFin /\ done s = true /\ readers s = 0)
  /\ (c_mode c = MReset -> fresh s = true).
Proof.
  intros V R Hn. pose proof (reach_inv c s R) as I.
  destruct (final s) eqn:F.
  2: { destruct (progress c s V I F) as (t & s' & H). rewrite Hn in H. discriminate. }
  destruct I as [I1 I2 I3 I4 I5 I6 I7 I8 I9 I10 I11 I12 I13 I14 I15 I16 I17 I18 I19 I20 I21].
  unfold final in F. destruct (c_pc s) eqn:Ec; try discriminate F.
  destruct (I8 ltac:(discriminate)) as [Ea Ew].
  split; [reflexivity|]. split; [exact Ea|]. split; [exact Ew|]. split; [apply I16; exact Ew|]. split.
  - intros M. assert (Rc : reconn s = false).
    { destruct (reconn s) eqn:E; [|reflexivity]. destruct (I14 eq_refl) as [_ X]. congruence. }
    destruct (I10 ltac:(auto)) as [Es Erp]. split; [exact Es|]. split; [exact Erp|]. split.
    + rewrite (I18 M). apply I17; auto.
    + rewrite I1, Es, Erp, Ea. unfold lk_a. destruct (v_norlock (l_var c)); reflexivity.
  - intros M. apply I21; auto.
Qed.

(* all schedules: exec never gets stuck before the end, for schedules that are long and fair enough
   this is the termination statement in terms of step sequences *)
Theorem all_runs_bounded c k s' : steps c (init c) k s' -> k <= measure c (init c).
Proof. intros H. destruct (steps_bounded c (init c) k s' (inv_init c) H). lia. Qed.

Theorem run_extends_to_final c s : l_var c = lv_fixed -> reach c s ->
  exists k s', steps c s k s' /\ final s' = true.
Proof.
  intros V R. remember (measure c s) as m eqn:Hm. revert s R Hm.
  induction m as [m IH] using lt_wf_ind. intros s R Hm.
  destruct (final s) eqn:F.
  - exists 0, s. split; [constructor|exact F].
  - destruct (progress c s V (reach_inv c s R) F) as (t & s1 & H).
    pose proof (step_measure _ _ _ _ (reach_inv c s R) H) as Hlt.
    destruct (IH (measure c s1) ltac:(lia) s1 (reach_step _ _ _ _ R H) eq_refl) as (k & s' & Hs & Hf).
    exists (S k), s'. split; [econstructor; eauto|exact Hf].
Qed.

(* ------------------------------------------------------------------ AwaitConverged *)

(* the waiter decides "converged" only holding the write lock, with no error on record and every
   queued request answered; with an error on record it returns the error *)
Theorem await_decision c s s' : step c s TWaiter = Some s' -> w_res s = None ->
  match w_res s' with
  | Some WOk => serr s = false /\ rerr s = false /\ queued s = answered s /\ w_pc s = W3
  | Some WErr => (serr s = true \/ rerr s = true) /\ w_pc s = W3
  | Some WTimeout => w_pc s = W0 /\ w_b s = 0
  | None => True
  end.
Proof.
  cbn. unfold step_waiter. intros H N. destruct (w_pc s) eqn:Ew.
  - destruct (w_b s) eqn:Eb; inv_some H; cbn; rewrite ?N; auto.
  - inv_some H. cbn. rewrite N. exact I.
  - destruct (readers s =? 0); inv_some H. cbn. rewrite N. exact I.
  - inv_some H. cbn. destruct (serr s) eqn:E1; cbn.
    + auto.
    + destruct (rerr s) eqn:E2; cbn; [auto|].
      destruct (queued s =? answered s) eqn:E3; cbn; [|rewrite N; exact I].
      apply Nat.eqb_eq in E3. auto.
  - rewrite N in H. inv_some H. cbn. rewrite N. exact I.
  - discriminate.
Qed.

Theorem await_error_when_recorded c s : w_pc s = W3 -> serr s || rerr s = true -> w_res s = None ->
  exists s', step c s TWaiter = Some s' /\ w_res s' = Some WErr.
Proof.
  intros Ew E N. cbn. unfold step_waiter. rewrite Ew, E. eexists. split; [reflexivity|]. reflexivity.
Qed.

(* errors on record stay on record until Reset *)
Lemma errors_stay c s t s' : step c s t = Some s' -> c_pc s' <> C3 -> c_pc s' <> CFin \/ c_mode c = MClose ->
  Inv c s -> serr s || rerr s = true -> serr s' || rerr s' = true.
Proof.
  intros H N3 NF I E. destruct t; cbn [step] in H.
  - unfold step_app in H. unfold wlocked in *. break H; inv_some H; cbn; auto.
  - unfold step_app_exit in H. break H; inv_some H; cbn; auto.
  - unfold step_sender in H. unfold wlocked in *. break H; inv_some H; cbn; auto; try (apply orb_true_iff; auto).
  - unfold step_receiver in H. unfold wlocked in *. break H; inv_some H; cbn; auto; try (apply orb_true_iff; auto).
  - unfold step_waiter in H. break H; inv_some H; cbn; auto; try discriminate.
  - unfold step_closer in H. break H; inv_some H; cbn; auto; cbn in *; try congruence.
    all: destruct NF as [X|X]; [congruence|]; destruct (i_modeclose c s I X); congruence.
Qed.

(* ------------------------------------------------------------------ the schedulers stay inside reach *)
Lemma first_enabled_reach c s ts s' : reach c s -> first_enabled c s ts = Some s' -> reach c s'.
Proof.
  intros R. induction ts as [|t tl IH]; cbn; [discriminate|].
  destruct (step c s t) eqn:E; intros H; [inv_some H; eapply reach_step; eauto|auto].
Qed.
Lemma run_prio_reach c ts stop fuel : forall s, reach c s -> reach c (run_prio c ts stop fuel s).
Proof.
  induction fuel as [|f IH]; cbn; intros s R; [exact R|].
  destruct (stop s); [exact R|]. destruct (first_enabled c s ts) eqn:E; [|exact R].
  apply IH. eapply first_enabled_reach; eauto.
Qed.
Lemma run_slow_reach c fuel : reach c (run_slow c fuel).
Proof. unfold run_slow. repeat apply run_prio_reach. constructor. Qed.
Lemma exec_reach c sched : forall s, reach c s -> reach c (exec c s sched).
Proof.
  induction sched as [|t tl IH]; cbn; intros s R; [exact R|].
  destruct (step c s t) eqn:E; [apply IH; eapply reach_step; eauto|apply IH; exact R].
Qed.

(* ------------------------------------------------------------------ the tree, and the patch of DESIGN.md alone *)

(* the protocol as it is: Send number 0 is slow and then fails while 7 requests are queued: the 7th Q
   is blocked on the full channel holding awaiting.RLock, the waiter on Lock, the receiver on RLock *)
Theorem q_blocks_tree :
  exists c s, l_var c = lv_tree /\ n_q c = 7 /\ f_side c = FSend /\ f_k c = 0 /\ reach c s /\ deadlocked c s = true
    /\ a_pc s = A3 /\ a_i s = 6 /\ cnt s = cap /\ readers s = 1 /\ w_pc s = W2 /\ r_pc s = R2 KErr /\ s_pc s = SFin
    /\ serr s = true /\ w_res s = None.
Proof.
  exists (mklcfg 7 FSend 0 MClose 40 lv_tree), (run_slow (mklcfg 7 FSend 0 MClose 40 lv_tree) 900).
  split; [reflexivity|]. split; [reflexivity|]. split; [reflexivity|]. split; [reflexivity|].
  split; [apply run_slow_reach|]. vm_compute. repeat split; reflexivity.
Qed.

(* selecting on sendExitCh in q() is not enough: without any fault, with the sender between its
   channel receive and its RLock, the 7th Q holds RLock on the full channel, AwaitConverged announces
   Lock, the sender's RLock waits for the writer: a cycle *)
Definition select_only_sched : list thread :=
  repeat TApp 5 ++ [TSender; TSender] ++ repeat TApp 25 ++ [TApp; TApp; TApp] ++ [TWaiter; TWaiter; TReceiver].
Theorem select_only_still_deadlocks :
  exists c s, l_var c = lv_select_only /\ f_side c = FNone /\ reach c s /\ deadlocked c s = true
    /\ a_pc s = A3 /\ cnt s = cap /\ s_pc s = S2 /\ w_pc s = W2 /\ sendExit s = false.
Proof.
  exists (mklcfg 7 FNone 0 MClose 40 lv_select_only),
         (exec (mklcfg 7 FNone 0 MClose 40 lv_select_only) (init (mklcfg 7 FNone 0 MClose 40 lv_select_only)) select_only_sched).
  split; [reflexivity|]. split; [reflexivity|]. split; [apply exec_reach; constructor|].
  vm_compute. repeat split; reflexivity.
Qed.
