(* Round trip of the codec on abstract payloads, from the finite obligation over the field inventory. *)
From Coq Require Import List NArith Bool String Lia.
From GV.Codec Require Import Fields.
From GV.Generated Require Import CodecTable.
Import ListNotations.
Open Scope N_scope.

Lemma find_bf_some f b : find_bf f = Some b -> In b builder_fields /\ bf_code b = f.
Proof.
  unfold find_bf. intros H. apply find_some in H. destruct H as [Hin He].
  apply N.eqb_eq in He. auto.
Qed.

Lemma is_builder_find f : is_builder f = true -> exists b, find_bf f = Some b.
Proof. unfold is_builder. destruct (find_bf f) as [b|]; [eauto|discriminate]. Qed.

(* a field whose inventory code passes the boolean test survives a store / load round trip, whatever
   list element it sits in: the test only looks at the inventory code *)
Lemma store_ok_fid tbl c : store_ok tbl c = store_ok tbl (fid c).
Proof.
  unfold store_ok, fkind. replace (fid (fid c)) with (fid c); [reflexivity|].
  unfold fid. rewrite N.mod_mod; [reflexivity|discriminate].
Qed.
Lemma load_keeps_fid tbl cv c : load_keeps tbl cv c = load_keeps tbl cv (fid c).
Proof.
  unfold load_keeps, fkind. replace (fid (fid c)) with (fid c); [reflexivity|].
  unfold fid. rewrite N.mod_mod; [reflexivity|discriminate].
Qed.

Section Obligation.
  Variable tbl : ktab.
  Variable cv : cvariant.

  Lemma obligation_field f :
    inventory_obligation tbl cv = true -> is_builder f = true -> field_roundtrips tbl cv f = true.
  Proof.
    intros Hob Hb. apply is_builder_find in Hb. destruct Hb as [b Hf].
    apply find_bf_some in Hf. destruct Hf as [Hin <-].
    unfold inventory_obligation in Hob. rewrite forallb_forall in Hob. apply Hob. exact Hin.
  Qed.

  Lemma obligation_except_field ex f :
    inventory_obligation_except tbl cv ex = true -> is_builder f = true -> ~ In f ex ->
    field_roundtrips tbl cv f = true.
  Proof.
    intros Hob Hb Hex. apply is_builder_find in Hb. destruct Hb as [b Hf].
    apply find_bf_some in Hf. destruct Hf as [Hin <-].
    unfold inventory_obligation_except in Hob. rewrite forallb_forall in Hob.
    specialize (Hob b Hin). apply orb_true_iff in Hob. destruct Hob as [Hob|Hob]; [|exact Hob].
    exfalso. apply Hex. apply existsb_exists in Hob. destruct Hob as [x [Hx He]].
    apply N.eqb_eq in He. subst. exact Hx.
  Qed.

  (* payloads all of whose fields pass the test are stored whole and loaded back whole *)
  Lemma roundtrip_fields (p : list (N * N)) :
    Forall (fun fv => field_roundtrips tbl cv (fid (fst fv)) = true) p ->
    option_map (load tbl cv) (store tbl p) = Some p.
  Proof.
    intros H. unfold store.
    assert (Hs : forallb (fun fv => store_ok tbl (fst fv)) p = true).
    { apply forallb_forall. intros x Hx. rewrite Forall_forall in H. specialize (H x Hx).
      unfold field_roundtrips in H. apply andb_true_iff in H. rewrite store_ok_fid. tauto. }
    rewrite Hs. cbn [option_map]. f_equal. unfold load.
    induction p as [|x p IH]; [reflexivity|]. cbn [filter].
    inversion H as [|? ? Hx Hp]; subst.
    unfold field_roundtrips in Hx. apply andb_true_iff in Hx. destruct Hx as [_ Hl].
    rewrite load_keeps_fid, Hl. f_equal. apply IH; [exact Hp|].
    cbn [forallb] in Hs. apply andb_true_iff in Hs. tauto.
  Qed.

  Theorem roundtrip (p : list (N * N)) :
    inventory_obligation tbl cv = true -> uses_only_builder p ->
    option_map (load tbl cv) (store tbl p) = Some p.
  Proof.
    intros Hob Hp. apply roundtrip_fields. unfold uses_only_builder in Hp.
    rewrite Forall_forall in *. intros x Hx. apply obligation_field; auto.
  Qed.

  Theorem roundtrip_except ex (p : list (N * N)) :
    inventory_obligation_except tbl cv ex = true -> uses_only_builder p ->
    Forall (fun fv => ~ In (fid (fst fv)) ex) p ->
    option_map (load tbl cv) (store tbl p) = Some p.
  Proof.
    intros Hob Hp Hex. apply roundtrip_fields. unfold uses_only_builder in Hp.
    rewrite Forall_forall in *. intros x Hx. eapply obligation_except_field; eauto.
  Qed.

  Lemma load_id (p : list (N * N)) :
    inventory_obligation tbl cv = true -> uses_only_builder p -> load tbl cv p = p.
  Proof.
    intros Hob Hp. pose proof (roundtrip p Hob Hp) as H. unfold store in H.
    destruct (forallb _ p); cbn in H; congruence.
  Qed.
  Lemma storable_builder (p : list (N * N)) :
    inventory_obligation tbl cv = true -> uses_only_builder p -> store tbl p = Some p.
  Proof.
    intros Hob Hp. pose proof (roundtrip p Hob Hp) as H. unfold store in *.
    destruct (forallb _ p); cbn in H; [reflexivity|discriminate].
  Qed.
End Obligation.

(* ---- the obligations, evaluated on the regenerated inventory ---- *)
(* repaired code (pop-top-label copied explicitly by ConcreteNextHopProto): every builder field is in
   the inventory with a kind that both directions handle *)
Lemma obligation_fixed : inventory_obligation (resolve codec_table) cv_fixed = true.
Proof. vm_compute. reflexivity. Qed.
(* pinned tree: false, and pop-top-label (27, BoolValue) is the only builder field lost *)
Lemma obligation_tree_false : inventory_obligation (resolve codec_table) cv_tree = false.
Proof. vm_compute. reflexivity. Qed.
Lemma lost_fields_tree : lost_fields (resolve codec_table) cv_tree = [27].
Proof. vm_compute. reflexivity. Qed.
Lemma obligation_tree_except : inventory_obligation_except (resolve codec_table) cv_tree [27] = true.
Proof. vm_compute. reflexivity. Qed.
(* over the whole inventory (builder-reachable or not): the only row Get silently drops is
   pop-top-label, and no row makes ProtoFromPaths fail *)
Lemma dropped_rows_all : dropped_rows codec_table = [("/afts/next-hops/next-hop/state/pop-top-label"%string, KBool)].
Proof. vm_compute. reflexivity. Qed.
Lemma failing_rows_none : failing_rows codec_table = [].
Proof. vm_compute. reflexivity. Qed.
(* the builder inventory's codes are distinct and below 100 (so 100 * key + code decodes) *)
Lemma builder_codes_ok :
  forallb (fun b => bf_code b <? 100) builder_fields = true /\ NoDup (map bf_code builder_fields).
Proof.
  split; [vm_compute; reflexivity|].
  cbv [builder_fields map bf_code mk_bf].
  repeat (constructor; [cbn; intuition discriminate|]). constructor.
Qed.

Theorem roundtrip_fixed (p : list (N * N)) :
  uses_only_builder p -> option_map (load (resolve codec_table) cv_fixed) (store (resolve codec_table) p) = Some p.
Proof. apply roundtrip. exact obligation_fixed. Qed.

Theorem roundtrip_tree_partial (p : list (N * N)) :
  uses_only_builder p -> Forall (fun fv => fid (fst fv) <> 27) p ->
  option_map (load (resolve codec_table) cv_tree) (store (resolve codec_table) p) = Some p.
Proof.
  intros Hp Hn. eapply roundtrip_except; [exact obligation_tree_except|exact Hp|].
  rewrite Forall_forall in *. intros x Hx [H|[]]. apply (Hn x Hx). auto.
Qed.

Theorem roundtrip_tree_refuted :
  exists p, uses_only_builder p /\ option_map (load (resolve codec_table) cv_tree) (store (resolve codec_table) p) <> Some p.
Proof.
  exists [(27, 1)]. split.
  - constructor; [vm_compute; reflexivity|constructor].
  - vm_compute. discriminate.
Qed.

(* ---- the code as it is: the explicit copies found in rib/rib.go's ConcreteXXXProto functions
   (Generated/CodecTable.v explicit_copies_src, regenerated on every run) ---- *)
Definition pop_top_copy : string := "ConcreteNextHopProto.PopTopLabel".
Definition cv_src : cvariant := {| fixF11 := existsb (String.eqb pop_top_copy) explicit_copies_src |}.

Lemma existsb_string_In s l : existsb (String.eqb s) l = true <-> In s l.
Proof.
  rewrite existsb_exists. split.
  - intros (x & Hx & He). apply String.eqb_eq in He. subst. exact Hx.
  - intros H. exists s. split; [exact H|apply String.eqb_refl].
Qed.
(* holds on either tree: the obligation is true exactly when the copy is in the source *)
Lemma obligation_src_flag : inventory_obligation (resolve codec_table) cv_src = fixF11 cv_src.
Proof. vm_compute. reflexivity. Qed.
Theorem obligation_src_iff :
  inventory_obligation (resolve codec_table) cv_src = true <-> In pop_top_copy explicit_copies_src.
Proof. rewrite obligation_src_flag. unfold cv_src; cbn [fixF11]. apply existsb_string_In. Qed.
