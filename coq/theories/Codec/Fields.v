(* The codec between gRIBI AFT protobufs and the ygot structs the RIB stores, on abstract payloads.

     store : protomap.PathsFromProto + value.FromScalar + ytypes.SetNode     (rib.go candidateRIB)
     load  : ygot.TogNMINotifications + protomap.ProtoFromPaths             (rib.go protoFromGoStruct,
             called by ConcreteIPv4Proto / IPv6 / MPLS / NextHopGroup / NextHop, i.e. by GetRIB)
             plus the explicit copies made by the ConcreteXXXProto functions themselves.

   Which protobuf wrapper kinds each direction handles is the behaviour of the library
   (github.com/openconfig/ygot v0.34.0, protomap/proto.go): it is MODELLED here (store_kind /
   load_kind), not verified.  The field inventory (schema path, wrapper kind) of the five entry
   messages is regenerated from the protobuf definition on every run (Generated/CodecTable.v, by
   tools/gen_codectable) and the harness prints the same inventory by reflection over the linked
   descriptors.  The builder inventory below (every field a fluent builder method can set) is
   written by hand from fluent/fluent.go; Codec/Roundtrip.v checks it against the regenerated table.
   No proofs in this file. *)
From Coq Require Import List NArith Bool String.
Import ListNotations.
Open Scope N_scope.

(* ---- wrapper kinds ---- *)
Inductive wkind :=
| KUint | KString | KBytes | KBool | KInt | KDecimal64     (* ywrapper.UintValue ... Decimal64Value *)
| KEnum                                                   (* protobuf enum with yang_name annotations *)
| KLeafListUnion                                          (* repeated XxxUnion message, (yext.leaflistunion) *)
| KLeafList                                               (* repeated wrapper, (yext.leaflist) *)
| KKeyedList                                              (* repeated XxxKey message = YANG list *)
| KContainer                                              (* embedded message = YANG container *)
| KKey                                                    (* scalar field of an XxxKey message = list key *)
| KScalarUnion                                            (* scalar member of a oneof (non-repeated union leaf) *)
| KScalar                                                 (* bare scalar outside a key message *)
| KOther.
Definition row := (string * wkind)%type.

Definition wkind_eqb (a b : wkind) : bool :=
  match a, b with
  | KUint, KUint | KString, KString | KBytes, KBytes | KBool, KBool | KInt, KInt | KDecimal64, KDecimal64
  | KEnum, KEnum | KLeafListUnion, KLeafListUnion | KLeafList, KLeafList | KKeyedList, KKeyedList
  | KContainer, KContainer | KKey, KKey | KScalarUnion, KScalarUnion | KScalar, KScalar | KOther, KOther => true
  | _, _ => false
  end.
Definition row_eqb (a b : row) : bool := String.eqb (fst a) (fst b) && wkind_eqb (snd a) (snd b).
Fixpoint table_eqb (a b : list row) : bool :=
  match a, b with
  | [], [] => true
  | x :: a', y :: b' => row_eqb x y && table_eqb a' b'
  | _, _ => false
  end.

(* store direction, protomap.parseField / parseList: every wrapper is unwrapped except Decimal64
   ("unhandled type, decimal64": the whole entry is rejected).  (An enum NUMBER that the enum does not
   define makes parseField dereference a nil descriptor and panic: a different property; the harness
   never generates one.) *)
Inductive sres := SKeep | SReject.
Definition store_kind (k : wkind) : sres :=
  match k with KDecimal64 | KOther => SReject | _ => SKeep end.

(* load direction, protomap.protoFromPathsInternal: makeWrapper builds StringValue / UintValue /
   BytesValue only ("TODO: Support wpb.IntValue and wpb.BoolValue"); for the other wrappers it reports
   "not a wrapper" and, under IgnoreExtraPaths, the value is silently dropped.  Enums, leaf-lists,
   leaf-lists of unions, containers and keyed lists (uint64 / string keys) are rebuilt.  A bare scalar
   or a scalar oneof member makes it fail ("unknown field kind"): the Get RPC then ends with Internal. *)
Inductive lres := LKeep | LDrop | LFail.
Definition load_kind (k : wkind) : lres :=
  match k with
  | KUint | KString | KBytes | KEnum | KLeafListUnion | KLeafList | KKeyedList | KContainer | KKey => LKeep
  | KBool | KInt | KDecimal64 => LDrop
  | KScalarUnion | KScalar | KOther => LFail
  end.

(* ---- the builder inventory: every field reachable through fluent/fluent.go ---- *)
Inductive emsg := M4 | M6 | ML | MG | MH.       (* Ipv4Entry Ipv6Entry LabelEntry NextHopGroup NextHop *)
Record bfield := { bf_code : N (* < 100 *); bf_msg : emsg; bf_path : string; bf_by : string (* builder method(s) *) }.
Definition mk_bf c m p b := {| bf_code := c; bf_msg := m; bf_path := p; bf_by := b |}.
Open Scope string_scope.
Definition builder_fields : list bfield := [
  mk_bf 1 M4 "/afts/ipv4-unicast/ipv4-entry/state/next-hop-group" "IPv4Entry.WithNextHopGroup";
  mk_bf 2 M4 "/afts/ipv4-unicast/ipv4-entry/state/next-hop-group-network-instance" "IPv4Entry.WithNextHopGroupNetworkInstance";
  mk_bf 3 M4 "/afts/ipv4-unicast/ipv4-entry/state/entry-metadata" "IPv4Entry.WithMetadata";
  mk_bf 4 M6 "/afts/ipv6-unicast/ipv6-entry/state/next-hop-group" "IPv6Entry.WithNextHopGroup";
  mk_bf 5 M6 "/afts/ipv6-unicast/ipv6-entry/state/next-hop-group-network-instance" "IPv6Entry.WithNextHopGroupNetworkInstance";
  mk_bf 6 M6 "/afts/ipv6-unicast/ipv6-entry/state/entry-metadata" "IPv6Entry.WithMetadata";
  mk_bf 7 ML "/afts/mpls/label-entry/state/next-hop-group" "LabelEntry.WithNextHopGroup";
  mk_bf 8 ML "/afts/mpls/label-entry/state/next-hop-group-network-instance" "LabelEntry.WithNextHopGroupNetworkInstance";
  mk_bf 9 ML "/afts/mpls/label-entry/state/popped-mpls-label-stack" "LabelEntry.WithPoppedLabelStack";
  mk_bf 10 MG "/afts/next-hop-groups/next-hop-group/state/backup-next-hop-group" "NextHopGroupEntry.WithBackupNHG";
  mk_bf 11 MG "/afts/next-hop-groups/next-hop-group/next-hops/next-hop" "NextHopGroupEntry.AddNextHop (the list)";
  mk_bf 12 MG "/afts/next-hop-groups/next-hop-group/next-hops/next-hop/state/weight" "NextHopGroupEntry.AddNextHop (weight)";
  mk_bf 13 MG "/afts/next-hop-groups/next-hop-group/next-hops/next-hop/state/index" "NextHopGroupEntry.AddNextHop (index)";
  mk_bf 20 MH "/afts/next-hops/next-hop/state/ip-address" "NextHopEntry.WithIPAddress";
  mk_bf 21 MH "/afts/next-hops/next-hop/interface-ref/state/interface" "NextHopEntry.WithInterfaceRef / WithSubinterfaceRef";
  mk_bf 22 MH "/afts/next-hops/next-hop/interface-ref/state/subinterface" "NextHopEntry.WithSubinterfaceRef";
  mk_bf 23 MH "/afts/next-hops/next-hop/state/mac-address" "NextHopEntry.WithMacAddress";
  mk_bf 24 MH "/afts/next-hops/next-hop/ip-in-ip/state/src-ip" "NextHopEntry.WithIPinIP";
  mk_bf 25 MH "/afts/next-hops/next-hop/ip-in-ip/state/dst-ip" "NextHopEntry.WithIPinIP";
  mk_bf 26 MH "/afts/next-hops/next-hop/state/network-instance" "NextHopEntry.WithNextHopNetworkInstance";
  mk_bf 27 MH "/afts/next-hops/next-hop/state/pop-top-label" "NextHopEntry.WithPopTopLabel";
  mk_bf 28 MH "/afts/next-hops/next-hop/state/pushed-mpls-label-stack" "NextHopEntry.WithPushedLabelStack";
  mk_bf 29 MH "/afts/next-hops/next-hop/state/decapsulate-header" "NextHopEntry.WithDecapsulateHeader";
  mk_bf 30 MH "/afts/next-hops/next-hop/state/encapsulate-header" "NextHopEntry.WithEncapsulateHeader";
  mk_bf 31 MH "/afts/next-hops/next-hop/encap-headers/encap-header" "NextHopEntry.AddEncapHeader (the list)";
  mk_bf 32 MH "/afts/next-hops/next-hop/encap-headers/encap-header/state/type" "MPLSEncapHeader / UDPV6EncapHeader";
  mk_bf 33 MH "/afts/next-hops/next-hop/encap-headers/encap-header/mpls/state/mpls-label-stack" "MPLSEncapHeader.WithLabels";
  mk_bf 34 MH "/afts/next-hops/next-hop/encap-headers/encap-header/udp-v6/state/dscp" "UDPV6EncapHeader.WithDSCP";
  mk_bf 35 MH "/afts/next-hops/next-hop/encap-headers/encap-header/udp-v6/state/dst-ip" "UDPV6EncapHeader.WithDstIP";
  mk_bf 36 MH "/afts/next-hops/next-hop/encap-headers/encap-header/udp-v6/state/dst-udp-port" "UDPV6EncapHeader.WithDstUDPPort";
  mk_bf 37 MH "/afts/next-hops/next-hop/encap-headers/encap-header/udp-v6/state/ip-ttl" "UDPV6EncapHeader.WithIPTTL";
  mk_bf 38 MH "/afts/next-hops/next-hop/encap-headers/encap-header/udp-v6/state/src-ip" "UDPV6EncapHeader.WithSrcIP";
  mk_bf 39 MH "/afts/next-hops/next-hop/encap-headers/encap-header/udp-v6/state/src-udp-port" "UDPV6EncapHeader.WithSrcUDPPort";
  mk_bf 40 MH "/afts/next-hops/next-hop/encap-headers/encap-header/state/index" "NextHopEntry.AddEncapHeader (index)";
  mk_bf 41 MH "/afts/next-hops/next-hop/interface-ref" "(container of 21, 22)";
  mk_bf 42 MH "/afts/next-hops/next-hop/ip-in-ip" "(container of 24, 25)";
  mk_bf 43 MH "/afts/next-hops/next-hop/encap-headers/encap-header/mpls" "(container of 33)";
  mk_bf 44 MH "/afts/next-hops/next-hop/encap-headers/encap-header/udp-v6" "(container of 34..39)"
].
Close Scope string_scope.

(* a payload item: field code = 100 * (key of the enclosing list element, 0 if none) + inventory code;
   the value is an opaque code (numbers as themselves, strings / byte strings / label stacks by an
   injective numbering chosen by the harness) *)
Notation fcode := N (only parsing).
Notation value := N (only parsing).
Notation payload := (list (N * N)) (only parsing).
Notation stored := (list (N * N)) (only parsing).      (* the ygot struct holds the same leaves *)
Definition fid (c : N) : N := c mod 100.
Definition fkey (c : N) : N := c / 100.
Definition mk_fcode (key f : N) : N := 100 * key + f.

Definition find_bf (f : N) : option bfield := find (fun b => bf_code b =? f) builder_fields.
Definition is_builder (f : N) : bool := match find_bf f with Some _ => true | None => false end.
Definition path_of (f : N) : option string := option_map bf_path (find_bf f).
Definition kind_in (tbl : list row) (p : string) : option wkind :=
  option_map snd (find (fun r => String.eqb (fst r) p) tbl).
(* the builder inventory resolved against an inventory of rows: inventory code -> wrapper kind
   (a builder field whose path the rows do not list is absent); computed once per evaluation *)
Notation ktab := (list (N * wkind)) (only parsing).
Definition resolve (tbl : list row) : ktab :=
  flat_map (fun b => match kind_in tbl (bf_path b) with Some k => [(bf_code b, k)] | None => [] end) builder_fields.
(* inventory rows (builder-reachable or not) on which Get would silently drop a value / fail *)
Definition dropped_rows (tbl : list row) : list row := filter (fun r => match load_kind (snd r) with LDrop => true | _ => false end) tbl.
Definition failing_rows (tbl : list row) : list row := filter (fun r => match load_kind (snd r) with LFail => true | _ => false end) tbl.

(* the fields a ConcreteXXXProto function copies by hand next to protoFromGoStruct *)
Record cvariant := { fixF11 : bool (* ConcreteNextHopProto copies pop-top-label explicitly *) }.
Definition cv_fixed := {| fixF11 := true |}.
Definition cv_tree  := {| fixF11 := false |}.
Definition explicit_copies (cv : cvariant) : list N := if fixF11 cv then [27] else [].

Section Codec.
  Variable tbl : ktab.                (* the regenerated inventory, resolved: resolve codec_table *)
  Variable cv : cvariant.

  Definition fkind (c : N) : option wkind := option_map snd (find (fun r => fst r =? fid c) tbl).
  Definition store_ok (c : N) : bool :=
    match fkind c with Some k => match store_kind k with SKeep => true | SReject => false end | None => false end.
  Definition load_keeps (c : N) : bool :=
    match fkind c with
    | Some k => match load_kind k with LKeep => true | _ => existsb (N.eqb (fid c)) (explicit_copies cv) end
    | None => false
    end.

  (* candidateRIB: all or nothing *)
  Definition store (p : payload) : option stored :=
    if forallb (fun fv => store_ok (fst fv)) p then Some p else None.
  (* ConcreteXXXProto: the leaves whose kind ProtoFromPaths rebuilds, and the explicit copies *)
  Definition load (s : stored) : payload := filter (fun fv => load_keeps (fst fv)) s.

  (* the finite obligation: every builder field is in the inventory with a kind both directions handle *)
  Definition field_roundtrips (f : N) : bool := store_ok f && load_keeps f.
  Definition inventory_obligation : bool := forallb (fun b => field_roundtrips (bf_code b)) builder_fields.
  (* the same, leaving out the listed codes *)
  Definition inventory_obligation_except (ex : list N) : bool :=
    forallb (fun b => existsb (N.eqb (bf_code b)) ex || field_roundtrips (bf_code b)) builder_fields.
  (* builder fields the pinned tree cannot return *)
  Definition lost_fields : list N := map bf_code (filter (fun b => negb (field_roundtrips (bf_code b))) builder_fields).
End Codec.

Definition uses_only_builder (p : list (N * N)) : Prop := Forall (fun fv => is_builder (fid (fst fv)) = true) p.
