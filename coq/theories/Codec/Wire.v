(* Get as seen on the wire: the server model's do_get (Server/Inst.v) composed with the codec
   (Codec/Fields.v), the store side applied to programmed entries, the model of
   rib.FromGetResponses, and the case type of the C07 correspondence.  No proofs in this file. *)
From Coq Require Import List NArith Bool String.
From GV.Base Require Import Alist U128 Op.
From GV.Rib Require Import Model Run.
From GV.Server Require Import Model Obs Inst.
From GV.Codec Require Import Fields.
Import ListNotations.
Open Scope N_scope.

(* inventory codes of the fields the RIB model keeps outside the opaque extras *)
Definition nhg_fid (t : tkind) : N := match t with T4 => 1 | T6 => 4 | TL => 7 end.
Definition nhgni_fid (t : tkind) : N := match t with T4 => 2 | T6 => 5 | TL => 8 end.
Definition bk_fid : N := 10.
Definition mem_list_fid : N := 11.
Definition mem_weight_fid : N := 12.
Definition mem_index_fid : N := 13.
Definition aft_of (t : tkind) : aft := match t with T4 => A_IPV4 | T6 => A_IPV6 | TL => A_MPLS end.

Section Wire.
  Variable tbl : ktab.
  Variable cv : cvariant.

  (* ---- load: what ConcreteXXXProto puts on the wire for a stored entry ---- *)
  Definition wire_top (t : tkind) (p : top) : top :=
    {| t_nhg := if load_keeps tbl cv (nhg_fid t) then t_nhg p else 0;
       t_ni := if load_keeps tbl cv (nhgni_fid t) then t_ni p else 0;
       t_x := load tbl cv (t_x p); t_bad := t_bad p |}.
  Definition wire_grp (g : grp) : grp :=
    {| g_nhs := if load_keeps tbl cv mem_list_fid && load_keeps tbl cv mem_index_fid
                then map (fun iw => (fst iw, if load_keeps tbl cv mem_weight_fid then snd iw else 0)) (g_nhs g) else [];
       g_bk := if load_keeps tbl cv bk_fid then g_bk g else 0;
       g_x := load tbl cv (g_x g); g_bad := g_bad g |}.
  Definition wire_nh (h : nhp) : nhp := {| h_x := load tbl cv (h_x h); h_bad := h_bad h |}.
  Definition wire_gentry (g : gentry) : gentry :=
    match g with
    | GTop n t k p => GTop n t k (wire_top t p)
    | GGrp n id p => GGrp n id (wire_grp p)
    | GNh n i p => GNh n i (wire_nh p)
    end.
  Definition get_wire (s : srv ribt) (q : getreq) : option (list gentry) :=
    option_map (map wire_gentry) (do_get s q).

  (* ---- store: candidateRIB on a programmed entry; a payload it cannot convert is a bad entry ---- *)
  Definition storable (l : list (N * N)) : bool := match store tbl l with Some _ => true | None => false end.
  Definition enc_top (t : tkind) (p : top) : top :=
    {| t_nhg := t_nhg p; t_ni := t_ni p; t_x := t_x p;
       t_bad := t_bad p || negb (storable (t_x p))
                || ((negb (t_nhg p =? 0)) && negb (store_ok tbl (nhg_fid t)))
                || ((negb (t_ni p =? 0)) && negb (store_ok tbl (nhgni_fid t))) |}.
  Definition enc_grp (g : grp) : grp :=
    {| g_nhs := g_nhs g; g_bk := g_bk g; g_x := g_x g;
       g_bad := g_bad g || negb (storable (g_x g))
                || (match g_nhs g with [] => false | _ => negb (store_ok tbl mem_list_fid && store_ok tbl mem_index_fid && store_ok tbl mem_weight_fid) end)
                || ((negb (g_bk g =? 0)) && negb (store_ok tbl bk_fid)) |}.
  Definition enc_nh (h : nhp) : nhp := {| h_x := h_x h; h_bad := h_bad h || negb (storable (h_x h)) |}.
  Definition enc_entry (e : entry) : entry :=
    match e with
    | ETop t k kv p => ETop t k kv (option_map (enc_top t) p)
    | EGrp id p => EGrp id (option_map enc_grp p)
    | ENh i p => ENh i (option_map enc_nh p)
    | ENone => ENone
    end.
  Definition enc_hop (o : hop) : hop :=
    {| op_id := op_id o; op_ni := op_ni o; op_kind := op_kind o; op_elec := op_elec o;
       op_entry := {| he := enc_entry (he (op_entry o)); hfails := hfails (op_entry o); hoks := hoks (op_entry o) |} |}.
  Definition enc_input (i : sinput) : sinput :=
    match i with
    | SIn (Msg _ c (MOps _ ops)) => SIn (Msg _ c (MOps _ (map enc_hop ops)))
    | x => x
    end.
End Wire.

(* ---- rib.FromGetResponses (helpers.go): a fresh RIB with the default instance; the entries of each
   instance are converted by candidateRIB (keyed lists become maps: norm_grp) and merged in ---- *)
Definition ge_ni (g : gentry) : N := match g with GTop n _ _ _ | GGrp n _ _ | GNh n _ _ => n end.
Definition ni_put (g : gentry) (s : nistate) : nistate :=
  match g with
  | GTop _ t k p => set_top t (nset k p (get_top t s)) s
  | GGrp _ id p => set_tabg (nset id (norm_grp p) (tabg s)) s
  | GNh _ i p => set_tabh (nset i p (tabh s)) s
  end.
Definition rget (m : amap nistate) (n : N) : nistate := match nget n m with Some s => s | None => ni_empty false end.
Definition rebuild1 (m : amap nistate) (g : gentry) : amap nistate := nset (ge_ni g) (ni_put g (rget m (ge_ni g))) m.
Definition rebuild (d : N) (l : list gentry) : amap nistate := fold_left rebuild1 l [(d, ni_empty false)].

(* ---- the case type of the correspondence ---- *)
(* extra instances; history (handshake, operations, Gets; the harness appends the six closing Gets);
   what the implementation answered at each step; Get(ALL) of the RIB that rib.FromGetResponses
   rebuilt from the implementation's own Get(all, ALL) responses *)
Record gcase := { gc_vrfs : list N; gc_hist : list sinput; gc_outs : list sout; gc_reget : option (list gentry) }.
Definition mk_gcase a b c d := {| gc_vrfs := a; gc_hist := b; gc_outs := c; gc_reget := d |}.

Definition wire_out (tbl : ktab) (cv : cvariant) (o : sout) : sout :=
  match o with OGet (Some l) => OGet (Some (map (wire_gentry tbl cv) l)) | x => x end.
Definition reget (tbl : ktab) (cv : cvariant) (s : srv ribt) : option (list gentry) :=
  match get_wire tbl cv s (mk_getreq NAll A_ALL) with
  | Some l => Some (map (wire_gentry tbl cv) (flat_map (fun kv => get_ni A_ALL (fst kv) (snd kv)) (rebuild 1 l)))
  | None => None
  end.
Definition gcase_ok (tbl : ktab) (cv : cvariant) (c : gcase) : bool :=
  let '(os, sf) := strace v_fixed sv_fixed (srv_init false (gc_vrfs c)) (map (enc_input tbl) (gc_hist c)) in
  Run.list_eqb sout_eqb (map (wire_out tbl cv) os) (gc_outs c)
  && sout_eqb (OGet (reget tbl cv sf)) (OGet (gc_reget c)).
Fixpoint all_indices {A} (l : list A) (i : N) : list N := match l with [] => [] | _ :: tl => i :: all_indices tl (i + 1) end.
(* harness_tbl: the inventory the harness obtained by reflection over the linked protobuf descriptors;
   if it is not the regenerated table every case counts as a mismatch *)
Definition c07_mismatches_v (cv : cvariant) (tbl harness_tbl : list row) (cs : list gcase) : list N :=
  if table_eqb harness_tbl tbl then (let kt := resolve tbl in Run.bad_indices (gcase_ok kt cv) cs 0) else all_indices cs 0.
Definition c07_model (rows : list row) (cv : cvariant) (c : gcase) :=
  let tbl := resolve rows in
  let '(os, sf) := strace v_fixed sv_fixed (srv_init false (gc_vrfs c)) (map (enc_input tbl) (gc_hist c)) in
  (map (wire_out tbl cv) os, reget tbl cv sf).
