(* Entry points of the C07 correspondence, instantiated with the regenerated inventory.  No proofs. *)
From Coq Require Import List NArith.
From GV.Codec Require Import Fields Wire.
From GV.Generated Require Import CodecTable.
Definition c07_mismatches := c07_mismatches_v cv_fixed codec_table.
(* the pinned tree's behaviour (pop-top-label not copied): validates the defect flag *)
Definition c07_mismatches_tree := c07_mismatches_v cv_tree codec_table.
Definition c07_model_fixed := c07_model codec_table cv_fixed.
