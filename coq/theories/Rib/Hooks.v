(* C16: what a consumer of the RIB's change notifications reconstructs.  Definitions only, no proofs
   (see Rib/HooksFacts.v).  The events themselves are emitted by Rib/Model.v ([hev] / [rev] of [out]). *)
From Coq Require Import List Bool NArith.
From GV.Base Require Import Alist U128 Op.
From GV.Rib Require Import Model Run Spec.
Import ListNotations.
Open Scope N_scope.

(* ---- keys ---- *)
Definition tkind_eqb (a b : tkind) : bool :=
  match a, b with T4, T4 | T6, T6 | TL, TL => true | _, _ => false end.
Definition skey_eqb (a b : skey) : bool :=
  match a, b with
  | KTop t k, KTop t' k' => tkind_eqb t t' && (k =? k')
  | KGrp i, KGrp j => i =? j
  | KNh i, KNh j => i =? j
  | _, _ => false
  end.
(* the key a stored entry is filed under: all a consumer has to go by (the callback gets the entry) *)
Definition sentry_key (e : sentry) : skey :=
  match e with STop t k _ => KTop t k | SGrp id _ => KGrp id | SNh i _ => KNh i end.

(* ---- the consumer's tables: [Spec.spec] = network instance -> the five tables ---- *)
Definition put_sentry (e : sentry) (x : tabs) : tabs :=
  match e with
  | STop t k p => sp_set_top t (nset k p (sp_top t x)) x
  | SGrp id p => sp_set_g (nset id p (sg x)) x
  | SNh i p => sp_set_h (nset i p (sh x)) x
  end.
Definition del_skey (k : skey) (x : tabs) : tabs :=
  match k with
  | KTop t k => sp_set_top t (ndel k (sp_top t x)) x
  | KGrp id => sp_set_g (ndel id (sg x)) x
  | KNh i => sp_set_h (ndel i (sh x)) x
  end.
(* the consumer is not told about the creation of network instances: it starts an instance's tables
   (empty) when the first notification tagged with that instance arrives *)
Definition tabs_or0 (sp : spec) (n : ni) : tabs := match nget n sp with Some x => x | None => tabs0 end.

(* one notification:
   ADD carries the new entry            -> file it under its key in the tables of the tagged instance;
   DELETE carries the removed entry     -> remove the key that entry is filed under;
   DELETE that carries no entry (the implementation passes a nil struct when the key was not
   installed; the key is not even known to the callback) -> nothing to do. *)
Definition fold_hook (sp : spec) (ev : hevent) : spec :=
  match ev with
  | HAdd n e => nset n (put_sentry e (tabs_or0 sp n)) sp
  | HDel n _ (Some e) => nset n (del_skey (sentry_key e) (tabs_or0 sp n)) sp
  | HDel _ _ None => sp
  end.

(* the same entries in every network instance: every key of every instance reads the same; an instance
   without tables and an instance with empty tables are not distinguished (the consumer cannot) *)
Definition mirror_eq (a b : spec) : Prop := forall n k, slook a n k = slook b n k.

(* a DELETE carries exactly what the consumer holds under that key (nothing if it holds nothing) *)
Definition ev_ok (sp : spec) (ev : hevent) : Prop :=
  match ev with HAdd _ _ => True | HDel n k e => slook sp n k = e end.
Fixpoint evs_ok (sp : spec) (l : list hevent) : Prop :=
  match l with [] => True | ev :: tl => ev_ok sp ev /\ evs_ok (fold_hook sp ev) tl end.

(* ---- the notifications of a history (for any walk order of the held operations) ---- *)
Fixpoint hev_log_ord (ordf : ordfun) (v : variant) (r : rib) (h : list rinput) : list hevent :=
  match h with
  | [] => []
  | i :: tl => let '(r', o, _) := rstep_ord ordf v r i in hev o ++ hev_log_ord ordf v r' tl
  end.
Fixpoint rev_log_ord (ordf : ordfun) (v : variant) (r : rib) (h : list rinput) : list revent :=
  match h with
  | [] => []
  | i :: tl => let '(r', o, _) := rstep_ord ordf v r i in rev o ++ rev_log_ord ordf v r' tl
  end.

(* configuration steps: what server.New does before any operation (options in any order) *)
Definition is_config (i : rinput) : bool :=
  match i with IAddNI _ | ISetHook | ISetResHook => true | _ => false end.
Definition config_only (h : list rinput) : Prop := forallb is_config h = true.

(* every instance reports its changes *)
Definition all_hooked (r : rib) : Prop :=
  rib_hooked r = true /\ forall n s, nget n (nis r) = Some s -> hooked s = true.

(* ---- resolved-entry notifications ---- *)
(* the tables of a snapshot *)
Definition abs_nis (m : amap nistate) : spec := map (fun kv => (fst kv, tabs_of (snd kv))) m.
(* [acks]: the operations acknowledged by the call that emitted the notification.
   ADD: the snapshot binds the announced key to the payload of an acknowledged operation on that key;
   DELETE: the snapshot does not bind the announced key. *)
Definition rev_ok (acks : list (ni * rop)) (ev : revent) : Prop :=
  match ev with
  | REv true n t k snap =>
    exists o kv pl, In (n, o) acks /\ op_entry o = ETop t k kv (Some pl)
                    /\ slook (abs_nis snap) n (KTop t k) = Some (STop t k pl)
  | REv false n t k snap => slook (abs_nis snap) n (KTop t k) = None
  end.
