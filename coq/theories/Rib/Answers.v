(* C06 at the RIB level: over whole histories every operation is answered at most once, only
   submitted operations are answered, and an accepted operation is answered or still held.
   Definitions first, then proofs. *)
From Coq Require Import List Bool NArith Lia Permutation.
From GV.Base Require Import Alist U128 Op.
From GV.Rib Require Import Model Lemmas RefDefs Closed.
Import ListNotations.
Open Scope N_scope.

(* ================================================================== *)
(* Definitions                                                        *)
(* ================================================================== *)
Notation ordfn := (amap (ni * rop) -> amap (ni * rop)) (only parsing).

(* one RIB-level call; an AddEntry carries the Go map order used by that call *)
Inductive hin :=
| JAdd (ord : ordfn) (n : ni) (o : rop)
| JDel (n : ni) (o : rop)
| JFlush (l : list ni)
| JAddNI (n : ni)
| JHook
| JResHook.

Definition hstep (v : variant) (r : rib) (i : hin) : rib * out :=
  match i with
  | JAdd ord n o => add_entry v ord r n o
  | JDel n o => delete_entry v r n o
  | JFlush l => (fst (fst (flush v l r)), out0)
  | JAddNI n => (add_network_instance v n r, out0)
  | JHook => (set_post_change_hook r, out0)
  | JResHook => (set_resolved_hook r, out0)
  end.

Definition good_ord (i : hin) : Prop :=
  match i with JAdd ord _ _ => forall l, Permutation (ord l) l | _ => True end.

Definition sub_of (i : hin) : list N :=
  match i with JAdd _ _ o => [op_id o] | JDel _ o => [op_id o] | _ => [] end.
Definition ans_of (o : out) : list N := oks o ++ fails o.
(* ids of the AddEntry / DeleteEntry calls that were not rejected as fatal *)
Definition inc_adds (i : hin) (o : out) : list N :=
  match i with JAdd _ _ op => if fatal o then [] else [op_id op] | _ => [] end.
Definition inc_dels (i : hin) (o : out) : list N :=
  match i with JDel _ op => if fatal o then [] else [op_id op] | _ => [] end.

Record hst := { h_rib : rib; h_ans : list N; h_adds : list N; h_dels : list N }.
Definition hnext (v : variant) (s : hst) (i : hin) : hst :=
  let x := hstep v (h_rib s) i in
  {| h_rib := fst x; h_ans := h_ans s ++ ans_of (snd x);
     h_adds := h_adds s ++ inc_adds i (snd x); h_dels := h_dels s ++ inc_dels i (snd x) |}.
Definition hrun (v : variant) (s : hst) (h : list hin) : hst := fold_left (hnext v) h s.
Definition hst0 (d : ni) (nf : bool) : hst := {| h_rib := rib0 d nf; h_ans := []; h_adds := []; h_dels := [] |}.

Definition submitted (h : list hin) : list N := flat_map sub_of h.
Definition final (v : variant) d nf h : rib := h_rib (hrun v (hst0 d nf) h).
Definition answers (v : variant) d nf h : list N := h_ans (hrun v (hst0 d nf) h).
Definition accepted_adds (v : variant) d nf h : list N := h_adds (hrun v (hst0 d nf) h).
Definition accepted_dels (v : variant) d nf h : list N := h_dels (hrun v (hst0 d nf) h).
Definition held (r : rib) : list N := map fst (pend r).

(* example history: op 1 (IPv4 100 -> group 5) and op 2 (explicit REPLACE of IPv4 10, present, -> group 5)
   are held; key 10 is deleted; next-hop 7 then group 5 arrive: op 1 resolves, op 2 fails *)
Definition ex_hist : list hin :=
  [ JAdd idord 1 (mk_op 10 1 ADD None (ENh 8 (Some (mk_nh []))));
    JAdd idord 1 (mk_op 11 1 ADD None (EGrp 6 (Some (mk_grp [(8, 1)] 0 []))));
    JAdd idord 1 (mk_op 12 1 ADD None (ETop T4 10 true (Some (mk_top 6 0 []))));
    JAdd idord 1 (mk_op 1 1 ADD None (ETop T4 100 true (Some (mk_top 5 0 []))));
    JAdd idord 1 (mk_op 2 1 REPLACE None (ETop T4 10 true (Some (mk_top 5 0 []))));
    JDel 1 (mk_op 13 1 DELETE None (ETop T4 10 true None));
    JAdd idord 1 (mk_op 3 1 ADD None (EGrp 5 (Some (mk_grp [(7, 1)] 0 []))));
    JAdd idord 1 (mk_op 4 1 ADD None (ENh 7 (Some (mk_nh []))));
    JAdd idord 0 (mk_op 5 0 ADD None (ENh 9 (Some (mk_nh [])))) ].

(* ================================================================== *)
(* Proofs                                                             *)
(* ================================================================== *)

(* ---- keys of the held map ---- *)
Lemma held_ndel k (l : amap (ni * rop)) id : In id (map fst (ndel k l)) <-> In id (map fst l) /\ id <> k.
Proof. apply (keys_adel N.eqb Neqb_spec). Qed.
Lemma held_nset k x (l : amap (ni * rop)) id :
  In id (map fst (nset k x l)) <-> id = k \/ (In id (map fst l) /\ id <> k).
Proof.
  unfold nset, aset. cbn [map fst In]. fold (@ndel (ni * rop) k l). rewrite held_ndel.
  split; intros [H|H]; auto.
Qed.

(* ---- ids leave the held map only by being answered ---- *)
Definition Bst (a b : rib * out * list N) : Prop :=
  forall id, In id (held (fst (fst a))) \/ In id (ans_of (snd (fst a))) ->
             In id (held (fst (fst b))) \/ In id (ans_of (snd (fst b))).

Lemma in_ans_fail id i acc : In id (ans_of (add_fail i acc)) <-> In id (ans_of acc) \/ id = i.
Proof.
  unfold ans_of. cbn [oks fails add_fail]. rewrite app_assoc, in_app_iff. cbn [In]. intuition.
Qed.
Lemma in_ans_ok id n o acc h rv :
  In id (ans_of (add_rev rv (add_hev h (add_ok n o acc)))) <-> In id (ans_of acc) \/ id = op_id o.
Proof.
  unfold ans_of. cbn [oks fails add_rev add_hev add_ok]. rewrite !in_app_iff. cbn [In]. intuition.
Qed.

Lemma aei_B v ord F st n o : Bst st (aei v ord F st n o).
Proof.
  apply aei_rel; unfold Bst; cbn [fst snd].
  - auto.
  - intros a b c H1 H2 id H. auto.
  - intros r acc stk id H. exact H.
  - intros r acc stk n0 o0 _ E id H. rewrite in_ans_fail.
    destruct (N.eq_dec id (op_id o0)) as [->|Hne]; [auto|].
    destruct H as [H|H]; [|auto]. left.
    destruct (fixF5 v); [|exact H]. unfold held. cbn [pend set_pend]. apply held_ndel. auto.
  - intros r acc stk n0 o0 _ E En id H. rewrite in_ans_fail. tauto.
  - intros r acc stk n0 o0 _ E En id H. destruct H as [H|H]; [|auto]. left.
    unfold held. cbn [pend set_pend]. apply held_nset.
    destruct (N.eq_dec id (op_id o0)); auto.
  - intros r acc stk n0 o0 r' h rv _ E id H. rewrite in_ans_ok.
    apply try_install_effect in E. destruct E as [Hn He]. destruct (inst_eff_le _ _ _ _ Hn He) as (_ & Hp & _).
    destruct (N.eq_dec id (op_id o0)) as [->|Hne]; [auto|].
    destruct H as [H|H]; [|auto]. left. unfold held. cbn [pend set_pend]. rewrite Hp. apply held_ndel. auto.
Qed.

(* the call's own operation is answered or held *)
Lemma aei_own v ord f r acc stk n o :
  ~ In (op_id o) stk ->
  let st' := aei v ord (S f) (r, acc, stk) n o in
  In (op_id o) (held (fst (fst st'))) \/ In (op_id o) (ans_of (snd (fst st'))).
Proof.
  intros Hns. cbn [aei].
  destruct (existsb (N.eqb (op_id o)) stk) eqn:Ex; [apply existsb_eqb_in in Ex; tauto|].
  destruct (try_install v r n o) as [| |r' h rv] eqn:E; cbn zeta.
  - right. cbn [fst snd]. apply in_ans_fail. auto.
  - destruct (nofwd r); cbn [fst snd].
    + right. apply in_ans_fail. auto.
    + left. unfold held. cbn [pend set_pend]. apply held_nset. auto.
  - match goal with |- context [fold_left ?g ?l ?s] =>
      assert (HB : Bst s (fold_left g l s)) end.
    { apply (fold_rel Bst); [unfold Bst; auto|unfold Bst; auto|]. intros st e. apply aei_B. }
    apply HB. right. cbn [fst snd]. apply in_ans_ok. auto.
Qed.

Lemma add_entry_accounted v ord r n o :
  add_entry v ord r n o = (r, set_fatal out0) \/
  forall id, id = op_id o \/ In id (held r) ->
    In id (held (fst (add_entry v ord r n o))) \/ In id (ans_of (snd (add_entry v ord r n o))).
Proof.
  destruct (add_entry_cases v ord r n o) as [E|(_ & _ & _ & stk & E)]; [auto|]. right.
  intros id [->|H].
  - pose proof (aei_own v ord (length (pend r)) r out0 [] n o (fun x => x)) as H. cbv zeta in H.
    rewrite E in H. exact H.
  - pose proof (aei_B v ord (S (length (pend r))) (r, out0, []) n o id) as HB.
    rewrite E in HB. apply HB. left. exact H.
Qed.

(* ---- the held map after AddEntry: nothing new but, possibly, the call's own operation ---- *)
Lemma add_entry_pend_keys v ord r n o :
  fixF5 v = true -> (forall l, Permutation (ord l) l) -> PWF r ->
  forall id, In id (held (fst (add_entry v ord r n o))) -> id = op_id o \/ In id (held r).
Proof.
  intros Hv Hord [HPK HNF].
  destruct (add_entry_cases v ord r n o) as [E|(_ & _ & _ & stk & E)].
  { rewrite E. auto. }
  pose (U := op_id o :: map fst (pend r)).
  assert (HS : SI U r []).
  { split; [exact HPK|]. split; [exact HNF|]. split; [constructor|]. split; [intros x []|].
    intros id x Hi. split; [|intros []]. right. change id with (fst (id, x)). apply in_map. exact Hi. }
  apply (aei_complete (fun _ _ _ => True) (fun _ _ _ _ _ _ => I) (fun _ _ _ _ => I) v ord Hv Hord U) in E; auto;
    [|left; reflexivity|lia|subst U; cbn [length]; rewrite map_length; lia].
  destruct E as ((_ & _ & _ & _ & HB) & _).
  intros id Hk. unfold held in Hk. apply in_map_iff in Hk. destruct Hk as ([id' x] & Ei & Hk). cbn [fst] in Ei. subst id'.
  apply HB in Hk. destruct Hk as [[<-|Hk] _]; auto.
Qed.

(* ---- DeleteEntry answers exactly its own id, or is fatal ---- *)
Lemma delete_entry_answers v r n o :
  (fatal (snd (delete_entry v r n o)) = true /\ ans_of (snd (delete_entry v r n o)) = [])
  \/ (fatal (snd (delete_entry v r n o)) = false /\ ans_of (snd (delete_entry v r n o)) = [op_id o]).
Proof.
  unfold delete_entry.
  destruct (nget n (nis r)) as [s|]; [|left; split; reflexivity].
  destruct (op_entry o) as [t k kv p|id p|idx p|]; [| | |left; split; reflexivity].
  - destruct (fixF6 v && negb (key_ok t k kv)); right; split; reflexivity.
  - destruct (id =? 0); [right; split; reflexivity|].
    destruct (nget id (tabg s)); [|right; split; reflexivity].
    destruct (0 <? cnt (rcg s) id); right; split; reflexivity.
  - destruct (idx =? 0); [right; split; reflexivity|].
    destruct (nget idx (tabh s)); [|right; split; reflexivity].
    destruct (0 <? cnt (rch s) idx); right; split; reflexivity.
Qed.

(* ---- summary of one step ---- *)
Record step_eff (r : rib) (i : hin) (r' : rib) (o : out) : Prop := {
  e_pwf : PWF r';
  e_keys : forall id, In id (held r') -> In id (sub_of i) \/ In id (held r);
  e_nodup : NoDup (ans_of o);
  e_ans : forall id, In id (ans_of o) -> In id (sub_of i) \/ In id (held r);
  e_gone : forall id, In id (ans_of o) -> In id (held r') -> In id (sub_of i) /\ In id (held r);
  e_kept : forall id, In id (held r) -> In id (held r') \/ In id (ans_of o);
  e_adds : forall id, In id (inc_adds i o) -> In id (held r') \/ In id (ans_of o);
  e_dels : forall id, In id (inc_dels i o) -> In id (ans_of o)
}.

Lemma quiet_step_eff r i r' : PWF r' -> pend r' = pend r -> inc_adds i out0 = [] -> inc_dels i out0 = [] ->
  step_eff r i r' out0.
Proof.
  intros HP Hp Ha Hd. split; unfold held.
  - exact HP.
  - rewrite Hp. auto.
  - constructor.
  - intros id [].
  - intros id [].
  - rewrite Hp. auto.
  - rewrite Ha. intros id [].
  - rewrite Hd. intros id [].
Qed.

Lemma hstep_eff r i : PWF r -> good_ord i ->
  step_eff r i (fst (hstep v_fixed r i)) (snd (hstep v_fixed r i)).
Proof.
  intros HP Hg. destruct i as [ord n o|n o|l|n| |]; cbn [hstep good_ord fst snd] in *.
  - destruct (add_entry_results_core v_fixed ord r n o eq_refl Hg HP) as [C1 C2].
    pose proof (add_entry_pend_keys v_fixed ord r n o eq_refl Hg HP) as C3.
    pose proof (add_entry_accounted v_fixed ord r n o) as C4.
    split.
    + apply add_entry_PWF; auto.
    + intros id H. apply C3 in H. cbn [sub_of In]. destruct H; auto.
    + exact C1.
    + intros id H. apply C2 in H. cbn [sub_of In]. destruct H as [[H|H] H']; auto.
    + intros id H H'. apply C2 in H. unfold held in H'. tauto.
    + intros id H. destruct C4 as [E|C4]; [rewrite E; auto|]. apply C4. auto.
    + intros id H. cbn [inc_adds] in H. destruct C4 as [E|C4].
      * rewrite E in H. cbn in H. destruct H.
      * destruct (fatal _); [destruct H|]. destruct H as [<-|[]]. apply C4. auto.
    + intros id [].
  - destruct (delete_entry_le v_fixed r n o) as (_ & Hp & _).
    pose proof (delete_entry_answers v_fixed r n o) as HA. split; unfold held.
    + apply delete_entry_PWF; auto.
    + rewrite Hp. auto.
    + destruct HA as [[_ ->]|[_ ->]]; repeat constructor. intros [].
    + intros id H. destruct HA as [[_ E]|[_ E]]; rewrite E in H; [destruct H|].
      destruct H as [<-|[]]. cbn [sub_of In]. auto.
    + rewrite Hp. intros id H H'. destruct HA as [[_ E]|[_ E]]; rewrite E in H; [destruct H|].
      destruct H as [<-|[]]. cbn [sub_of In]. auto.
    + rewrite Hp. auto.
    + intros id [].
    + intros id H. cbn [inc_dels] in H. destruct HA as [[E1 E2]|[E1 E2]]; rewrite E1 in H; [destruct H|].
      rewrite E2. exact H.
  - apply quiet_step_eff; auto; [apply flush_PWF; auto|apply flush_pend].
  - apply quiet_step_eff; auto; [apply add_ni_inv; auto|].
    unfold add_network_instance. destruct (has_ni r n); reflexivity.
  - apply quiet_step_eff; auto.
  - apply quiet_step_eff; auto.
Qed.

(* ---- histories ---- *)
Lemma NoDup_app_intro {A} (a b : list A) :
  NoDup a -> NoDup b -> (forall x, In x a -> ~ In x b) -> NoDup (a ++ b).
Proof.
  induction a as [|y a IH]; cbn; intros Ha Hb Hd; [exact Hb|].
  inversion Ha; subst. constructor.
  - intros Hi. apply in_app_or in Hi. destruct Hi as [Hi|Hi]; [tauto|]. apply (Hd y); auto.
  - apply IH; auto.
Qed.

Lemma hrun_snoc v s h i : hrun v s (h ++ [i]) = hnext v (hrun v s h) i.
Proof. unfold hrun. rewrite fold_left_app. reflexivity. Qed.
Lemma hrun_app v s h1 h2 : hrun v s (h1 ++ h2) = hrun v (hrun v s h1) h2.
Proof. unfold hrun. apply fold_left_app. Qed.
Lemma submitted_snoc h i : submitted (h ++ [i]) = submitted h ++ sub_of i.
Proof. unfold submitted. rewrite flat_map_app. cbn [flat_map]. rewrite app_nil_r. reflexivity. Qed.
Lemma hrun_ans_prefix v h : forall s, exists rest, h_ans (hrun v s h) = h_ans s ++ rest.
Proof.
  induction h as [|i h IH]; intros s; cbn [hrun fold_left].
  - exists []. rewrite app_nil_r. reflexivity.
  - destruct (IH (hnext v s i)) as [rest E]. unfold hrun in E. rewrite E. cbn [h_ans hnext].
    rewrite <- app_assoc. eexists. reflexivity.
Qed.

Definition I2 d nf (h : list hin) : Prop :=
  let s := hrun v_fixed (hst0 d nf) h in
  PWF (h_rib s) /\ incl (held (h_rib s)) (submitted h) /\ incl (h_ans s) (submitted h).
Definition I3 d nf (h : list hin) : Prop :=
  let s := hrun v_fixed (hst0 d nf) h in
  NoDup (h_ans s) /\ (forall id, In id (h_ans s) -> ~ In id (held (h_rib s)))
  /\ (forall id, In id (h_adds s) -> In id (h_ans s) \/ In id (held (h_rib s)))
  /\ (forall id, In id (h_dels s) -> In id (h_ans s)).

Lemma I2_all d nf h : Forall good_ord h -> I2 d nf h.
Proof.
  induction h as [|i h IH] using rev_ind; intros Hg.
  - unfold I2. cbn. split; [apply rib0_inv|]. split; intros x [].
  - apply Forall_app in Hg. destruct Hg as [Hg Hi]. inversion Hi as [|? ? Hi' _]; subst.
    specialize (IH Hg). unfold I2 in *. rewrite hrun_snoc, submitted_snoc.
    remember (hrun v_fixed (hst0 d nf) h) as s eqn:Es. cbv zeta in IH. destruct IH as (P & K & A).
    destruct (hstep_eff (h_rib s) i P Hi') as [E1 E2 E3 E4 E5 E6 E7 E8].
    cbv zeta. cbn [h_rib h_ans hnext]. split; [exact E1|]. split.
    + intros id H. apply E2 in H. apply in_or_app. destruct H as [H|H]; [right; exact H|left; apply K; exact H].
    + intros id H. apply in_app_or in H. apply in_or_app. destruct H as [H|H]; [left; apply A; exact H|].
      apply E4 in H. destruct H as [H|H]; [right; exact H|left; apply K; exact H].
Qed.

Lemma I3_all d nf h : Forall good_ord h -> NoDup (submitted h) -> I3 d nf h.
Proof.
  induction h as [|i h IH] using rev_ind; intros Hg Hnd.
  - unfold I3. cbn. split; [constructor|]. split; [intros x []|]. split; intros x [].
  - pose proof Hg as Hg0. apply Forall_app in Hg. destruct Hg as [Hg Hi]. inversion Hi as [|? ? Hi' _]; subst.
    rewrite submitted_snoc in Hnd.
    specialize (IH Hg (NoDup_app_l _ _ Hnd)).
    pose proof (I2_all d nf h Hg) as H2.
    unfold I3, I2 in *. rewrite hrun_snoc.
    remember (hrun v_fixed (hst0 d nf) h) as s eqn:Es. cbv zeta in IH, H2.
    destruct H2 as (P & K & A). destruct IH as (N1 & N2 & N3 & N4).
    destruct (hstep_eff (h_rib s) i P Hi') as [E1 E2 E3 E4 E5 E6 E7 E8].
    assert (Hnew : forall id, In id (sub_of i) -> ~ In id (submitted h)).
    { intros id H H'. apply (NoDup_app_disjoint _ _ id Hnd H' H). }
    cbv zeta. cbn [h_rib h_ans h_adds h_dels hnext]. split; [|split; [|split]].
    + apply NoDup_app_intro; auto. intros x Hx Hx'. apply E4 in Hx'. destruct Hx' as [Hx'|Hx'].
      * apply (Hnew x Hx'). apply A. exact Hx.
      * apply (N2 x Hx Hx').
    + intros id H Hh. apply in_app_or in H. destruct H as [H|H].
      * apply E2 in Hh. destruct Hh as [Hh|Hh]; [apply (Hnew id Hh); apply A; exact H|apply (N2 id H Hh)].
      * destruct (E5 id H Hh) as [H1 H2']. apply (Hnew id H1). apply K. exact H2'.
    + intros id H. apply in_app_or in H. destruct H as [H|H].
      * destruct (N3 id H) as [H'|H']; [left; apply in_or_app; auto|].
        destruct (E6 id H') as [H''|H'']; [right; exact H''|left; apply in_or_app; auto].
      * destruct (E7 id H) as [H'|H']; [right; exact H'|left; apply in_or_app; auto].
    + intros id H. apply in_app_or in H. apply in_or_app. destruct H as [H|H]; [left; apply N4; exact H|right; apply E8; exact H].
Qed.

(* ---- the theorems ---- *)
Theorem answers_nodup d nf h : Forall good_ord h -> NoDup (submitted h) -> NoDup (answers v_fixed d nf h).
Proof. intros Hg Hn. apply (I3_all d nf h Hg Hn). Qed.

Theorem answers_are_submitted d nf h1 h2 : Forall good_ord (h1 ++ h2) ->
  (exists rest, answers v_fixed d nf (h1 ++ h2) = answers v_fixed d nf h1 ++ rest)
  /\ submitted (h1 ++ h2) = submitted h1 ++ submitted h2
  /\ incl (answers v_fixed d nf h1) (submitted h1).
Proof.
  intros Hg. apply Forall_app in Hg. destruct Hg as [Hg _]. split; [|split].
  - unfold answers. rewrite hrun_app. apply hrun_ans_prefix.
  - unfold submitted. apply flat_map_app.
  - apply (I2_all d nf h1 Hg).
Qed.

Theorem answered_or_held d nf h : Forall good_ord h -> NoDup (submitted h) ->
  (forall id, In id (accepted_adds v_fixed d nf h) ->
     In id (answers v_fixed d nf h) \/ In id (held (final v_fixed d nf h)))
  /\ (forall id, In id (answers v_fixed d nf h) -> ~ In id (held (final v_fixed d nf h)))
  /\ (forall id, In id (accepted_dels v_fixed d nf h) -> In id (answers v_fixed d nf h)).
Proof.
  intros Hg Hn. destruct (I3_all d nf h Hg Hn) as (_ & N2 & N3 & N4). split; [exact N3|]. split; [exact N2|exact N4].
Qed.

(* the final state of a history is reachable in the sense of Closed.v: whatever is still held is
   not resolvable and could not be installed *)
Lemma final_reach d nf h : Forall good_ord h -> rib_reach v_fixed (rib0 d nf) (final v_fixed d nf h).
Proof.
  induction h as [|i h IH] using rev_ind; intros Hg; [apply reach_refl|].
  apply Forall_app in Hg. destruct Hg as [Hg Hi]. inversion Hi as [|? ? Hi' _]; subst.
  unfold final in *. rewrite hrun_snoc. cbn [h_rib hnext]. eapply reach_step; [apply IH; exact Hg|].
  destruct i as [ord n o|n o|l|n| |]; cbn [hstep fst good_ord] in *; constructor; auto.
Qed.
Theorem held_is_legitimate d nf h : Forall good_ord h ->
  (forall id n o, nget id (pend (final v_fixed d nf h)) = Some (n, o) -> resolvable (final v_fixed d nf h) n o = false)
  /\ quiescent v_fixed (final v_fixed d nf h).
Proof. intros Hg. destruct (held_invariants d nf _ (final_reach d nf h Hg)) as (_ & _ & U & Q). split; [exact U|exact Q]. Qed.

(* ---- example ---- *)
Lemma ex_hist_good : Forall good_ord ex_hist.
Proof. unfold ex_hist. repeat constructor; exact idord_perm. Qed.
Lemma ex_hist_values :
  submitted ex_hist = [10; 11; 12; 1; 2; 13; 3; 4; 5]
  /\ held (final v_fixed 1 false (firstn 7 ex_hist)) = [3; 2; 1]
  /\ (let o8 := snd (hstep v_fixed (final v_fixed 1 false (firstn 7 ex_hist))
                           (JAdd idord 1 (mk_op 4 1 ADD None (ENh 7 (Some (mk_nh [])))))) in
      oks o8 = [4; 3; 1] /\ fails o8 = [2])
  /\ answers v_fixed 1 false ex_hist = [10; 11; 12; 13; 4; 3; 1; 2]
  /\ held (final v_fixed 1 false ex_hist) = []
  /\ accepted_adds v_fixed 1 false ex_hist = [10; 11; 12; 1; 2; 3; 4]
  /\ accepted_dels v_fixed 1 false ex_hist = [13].
Proof. vm_compute. repeat split. Qed.
