(* Reference counting: who references what, and the counter invariant RC. Definitions and the
   elementary facts other developments need; the preservation proofs are in Rib/RefCount.v. *)
From Coq Require Import List Bool NArith Lia.
From GV.Base Require Import Alist U128 Op.
From GV.Rib Require Import Model Lemmas.
Import ListNotations.
Open Scope N_scope.

(* does top-level payload t, installed in instance own, point at group g of instance n? *)
Definition tgt_is (n : ni) (g : N) (own : ni) (t : top) : bool :=
  (fst (target own t) =? n) && (snd (target own t) =? g).
Definition top_refs (n : ni) (g : N) (own : ni) (m : amap top) : nat :=
  asum (fun kv => ind (tgt_is n g own (snd kv))) m.
Definition ni_refs (n : ni) (g : N) (x : ni * nistate) : nat :=
  top_refs n g (fst x) (tab4 (snd x)) + top_refs n g (fst x) (tab6 (snd x)) + top_refs n g (fst x) (tabl (snd x)).
(* number of installed IPv4/IPv6/MPLS entries, in any instance, that point at group g of instance n *)
Definition refs_nhg (r : rib) (n : ni) (g : N) : nat := asum (ni_refs n g) (nis r).

Definition has_member (i : N) (g : grp) : bool := existsb (fun iw => fst iw =? i) (g_nhs g).
(* number of installed groups of instance n that contain next-hop i *)
Definition refs_nh (r : rib) (n : ni) (i : N) : nat :=
  asum (fun kv => ind (has_member i (snd kv))) (tabg (sget r n)).

(* the counters are exact *)
Definition RC (r : rib) : Prop :=
  (forall n g, N.to_nat (cnt (rcg (sget r n)) g) = refs_nhg r n g)
  /\ (forall n i, N.to_nat (cnt (rch (sget r n)) i) = refs_nh r n i).

(* every installed top-level entry names an existing instance (canResolve rejects unknown ones and
   instances are never removed) *)
Definition targets_exist (r : rib) : Prop :=
  forall n t k p, nget k (get_top t (sget r n)) = Some p -> has_ni r n = true -> has_ni r (fst (target n p)) = true.

(* ---- sums that are zero ---- *)
Lemma asum_zero {K V} (f : K * V -> nat) (l : alist K V) :
  asum f l = 0%nat -> forall x, In x l -> f x = 0%nat.
Proof.
  induction l as [|y l IH]; [intros _ x []|].
  change (asum f (y :: l)) with (f y + asum f l)%nat. intros H x [->|Hx]; [lia|]. apply IH; [lia|exact Hx].
Qed.
Lemma asum_ge_in {K V} (f : K * V -> nat) (l : alist K V) x : In x l -> (f x <= asum f l)%nat.
Proof.
  induction l as [|y l IH]; [intros []|].
  change (asum f (y :: l)) with (f y + asum f l)%nat. intros [->|Hx]; [lia|]. specialize (IH Hx). lia.
Qed.
Lemma nget_in {V} k (v : V) l : nget k l = Some v -> In (k, v) l.
Proof. unfold nget. apply aget_in; auto. Qed.

(* no counter => no referrer, under RC *)
Lemma refs_nhg_zero r n g : refs_nhg r n g = 0%nat ->
  forall m s t k p, nget m (nis r) = Some s -> nget k (get_top t s) = Some p -> target m p <> (n, g).
Proof.
  intros H m s t k p Hs Hp Ht. unfold refs_nhg in H.
  pose proof (asum_zero _ _ H (m, s) (nget_in _ _ _ Hs)) as H1. unfold ni_refs in H1; cbn [fst snd] in H1.
  assert (H2 : top_refs n g m (get_top t s) = 0%nat) by (destruct t; cbn [get_top]; lia).
  pose proof (asum_zero _ _ H2 (k, p) (nget_in _ _ _ Hp)) as H3. cbn [snd] in H3.
  unfold tgt_is in H3. rewrite Ht in H3. cbn in H3. rewrite !N.eqb_refl in H3. discriminate.
Qed.
Lemma refs_nh_zero r n i : refs_nh r n i = 0%nat ->
  forall id g, nget id (tabg (sget r n)) = Some g -> has_member i g = false.
Proof.
  intros H id g Hg. pose proof (asum_zero _ _ H (id, g) (nget_in _ _ _ Hg)) as H1. cbn [snd] in H1.
  destruct (has_member i g); [discriminate|reflexivity].
Qed.
Lemma RC_unreferenced_grp r n g : RC r -> cnt (rcg (sget r n)) g = 0 ->
  forall m s t k p, nget m (nis r) = Some s -> nget k (get_top t s) = Some p -> target m p <> (n, g).
Proof. intros [H _] Hc. apply refs_nhg_zero. rewrite <- H, Hc. reflexivity. Qed.
Lemma RC_unreferenced_nh r n i : RC r -> cnt (rch (sget r n)) i = 0 ->
  forall id g, nget id (tabg (sget r n)) = Some g -> has_member i g = false.
Proof. intros [_ H] Hc. apply refs_nh_zero. rewrite <- H, Hc. reflexivity. Qed.
