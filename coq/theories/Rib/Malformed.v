(* C12: malformed operations are rejected in-band and change nothing. *)
From Coq Require Import List Bool NArith Lia.
From GV.Base Require Import Alist U128 Op.
From GV.Rib Require Import Model Lemmas Closed.
Import ListNotations.
Open Scope N_scope.

(* the classes of invalid content the property lists, for ADD / REPLACE *)
Inductive badclass :=
| B_nil_payload | B_bad_key | B_schema | B_zero_group_ref | B_unknown_group_instance
| B_zero_id | B_empty_group | B_zero_member | B_zero_index | B_unknown_instance.

Definition malformed_add (r : rib) (n : ni) (e : entry) : option badclass :=
  if negb (has_ni r n) then Some B_unknown_instance else
  match e with
  | ETop t k kv None => Some B_nil_payload
  | ETop t k kv (Some pl) =>
    if negb (key_ok t k kv) then Some B_bad_key
    else if t_bad pl then Some B_schema
    else if t_nhg pl =? 0 then Some B_zero_group_ref
    else if negb (has_ni r (fst (target n pl))) then Some B_unknown_group_instance
    else None
  | EGrp id None => Some B_nil_payload
  | EGrp id (Some pl) =>
    if g_bad pl then Some B_schema
    else if id =? 0 then Some B_zero_id
    else match g_nhs pl with
         | [] => Some B_empty_group
         | _ => if existsb (fun iw => fst iw =? 0) (g_nhs pl) then Some B_zero_member else None
         end
  | ENh idx None => Some B_nil_payload
  | ENh idx (Some pl) => if h_bad pl then Some B_schema else if idx =? 0 then Some B_zero_index else None
  | ENone => Some B_nil_payload
  end.

(* every listed class makes the operation an error for AddXXX, in every state and for either variant *)
Lemma malformed_is_err v r n o c : malformed_add r n (op_entry o) = Some c -> try_install v r n o = Err.
Proof.
  intros H. pose proof (classify_spec v r n o) as Hc.
  assert (Hcls : classify r n o = CErr).
  { unfold classify. unfold malformed_add in H. destruct (negb (has_ni r n)); [reflexivity|].
    destruct (op_entry o) as [t k kv [pl|]|id [pl|]|idx [pl|]|]; try reflexivity.
    - destruct (negb (key_ok t k kv)); cbn [orb]; [reflexivity|].
      destruct (t_bad pl); [reflexivity|]. destruct (is_replace o && _); [reflexivity|].
      destruct (t_nhg pl =? 0); [reflexivity|]. destruct (negb (has_ni r (fst (target n pl)))); [reflexivity|discriminate].
    - destruct (g_bad pl); [reflexivity|]. destruct (is_replace o && _); [reflexivity|].
      destruct (id =? 0); [reflexivity|]. destruct (g_nhs pl) as [|x l]; [reflexivity|].
      destruct (existsb _ (x :: l)); [reflexivity|discriminate].
    - destruct (h_bad pl); [reflexivity|]. destruct (is_replace o && _); [reflexivity|].
      destruct (idx =? 0); [reflexivity|discriminate]. }
  rewrite Hcls in Hc. destruct (try_install v r n o); try discriminate. reflexivity.
Qed.

Lemma ndel_absent {V} k (l : amap V) : nget k l = None -> ndel k l = l.
Proof.
  unfold nget, aget, ndel, adel. induction l as [|[k' v] l IH]; cbn [find filter fst snd]; [reflexivity|].
  destruct (k =? k') eqn:E; [discriminate|]. cbn [negb]. intros H. rewrite IH by exact H. reflexivity.
Qed.
Lemma set_pend_same r : set_pend (pend r) r = r.
Proof. destruct r; reflexivity. Qed.

(* an operation that is an error and whose id is not the id of a held operation is answered FAILED,
   once, and the RIB - tables, held operations, counters, everything - is exactly as before *)
Theorem err_is_noop ord r n o : n <> 0 -> has_ni r n = true -> op_entry o <> ENone ->
  try_install v_fixed r n o = Err -> nget (op_id o) (pend r) = None ->
  add_entry v_fixed ord r n o = (r, add_fail (op_id o) out0).
Proof.
  intros Hn Hh He Ht Hp. unfold add_entry. assert ((n =? 0) = false) as -> by (apply N.eqb_neq; exact Hn).
  rewrite Hh. cbn [orb negb]. destruct (op_entry o) eqn:Eo; try congruence;
    cbn [aei existsb]; rewrite Ht; cbn [fixF5 v_fixed]; rewrite (ndel_absent _ _ Hp), set_pend_same; reflexivity.
Qed.

Theorem malformed_add_rejected ord r n o c : n <> 0 -> has_ni r n = true -> op_entry o <> ENone ->
  malformed_add r n (op_entry o) = Some c -> nget (op_id o) (pend r) = None ->
  add_entry v_fixed ord r n o = (r, add_fail (op_id o) out0).
Proof. intros Hn Hh He Hm Hp. apply err_is_noop; auto. eapply malformed_is_err; eauto. Qed.

(* empty / unknown instance name or no entry at all: a clean fatal error, nothing changes *)
Theorem bad_instance_or_no_entry_fatal v ord r n o : n = 0 \/ has_ni r n = false \/ op_entry o = ENone ->
  add_entry v ord r n o = (r, set_fatal out0) /\ delete_entry v r n o = (r, set_fatal out0) \/
  (add_entry v ord r n o = (r, set_fatal out0) /\ n = 0 /\ has_ni r n = true).
Proof.
  intros H. unfold add_entry, delete_entry.
  destruct (N.eqb_spec n 0) as [->|Hn0]; cbn [orb].
  - destruct (has_ni r 0) eqn:Hh.
    + right. auto.
    + left. split; [reflexivity|]. unfold has_ni, nmem in Hh. destruct (nget 0 (nis r)); [discriminate|reflexivity].
  - left. destruct H as [H|[H|H]]; [congruence| |].
    + rewrite H. cbn [negb]. split; [reflexivity|]. unfold has_ni, nmem in H. destruct (nget n (nis r)); [discriminate|reflexivity].
    + rewrite H. split; [destruct (negb (has_ni r n)); reflexivity|]. destruct (nget n (nis r)); reflexivity.
Qed.

(* DELETE with an invalid key (prefix syntax, label outside 16..2^20-1 incl. labels >= 2^32), zero id or
   zero index: FAILED, nothing changes *)
Theorem malformed_delete_rejected r n o : has_ni r n = true ->
  (match op_entry o with
   | ETop t k kv _ => key_ok t k kv = false
   | EGrp id _ => id = 0
   | ENh idx _ => idx = 0
   | ENone => False
   end) ->
  delete_entry v_fixed r n o = (r, add_fail (op_id o) out0).
Proof.
  intros Hh Hm. unfold delete_entry. rewrite (has_ni_true r n Hh).
  destruct (op_entry o) as [t k kv p|id p|idx p|]; [| | |destruct Hm].
  - cbn [fixF6 v_fixed andb]. rewrite Hm. reflexivity.
  - subst id. reflexivity.
  - subst idx. reflexivity.
Qed.

(* the pinned tree acknowledged such deletes: witness DELETE of MPLS label 5 *)
Theorem malformed_delete_tree_refuted :
  oks (snd (delete_entry v_tree (rib0 1 false) 1 (mk_op 9 1 DELETE None (ETop TL 5 true None)))) = [9].
Proof. reflexivity. Qed.
