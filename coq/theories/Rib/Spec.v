(* The abstract specification of the RIB used by C01: the installed tables are a pure fold of the
   acknowledged operations.  Definitions only, no proofs (see Rib/Refine.v). *)
From Coq Require Import List Bool NArith.
From GV.Base Require Import Alist U128 Op.
From GV.Rib Require Import Model Run.
Import ListNotations.
Open Scope N_scope.

(* the five tables of one network instance *)
Record tabs := { s4 : amap top; s6 : amap top; sl : amap top; sg : amap grp; sh : amap nhp }.
Definition tabs0 : tabs := {| s4 := []; s6 := []; sl := []; sg := []; sh := [] |}.
(* network instance -> tables *)
Definition spec := amap tabs.

Definition sp_top (t : tkind) (x : tabs) : amap top := match t with T4 => s4 x | T6 => s6 x | TL => sl x end.
Definition sp_set_top (t : tkind) (m : amap top) (x : tabs) : tabs :=
  match t with
  | T4 => {| s4 := m; s6 := s6 x; sl := sl x; sg := sg x; sh := sh x |}
  | T6 => {| s4 := s4 x; s6 := m; sl := sl x; sg := sg x; sh := sh x |}
  | TL => {| s4 := s4 x; s6 := s6 x; sl := m; sg := sg x; sh := sh x |}
  end.
Definition sp_set_g (m : amap grp) (x : tabs) : tabs := {| s4 := s4 x; s6 := s6 x; sl := sl x; sg := m; sh := sh x |}.
Definition sp_set_h (m : amap nhp) (x : tabs) : tabs := {| s4 := s4 x; s6 := s6 x; sl := sl x; sg := sg x; sh := m |}.

(* ADD / REPLACE: the keyed entry becomes the whole payload of the operation *)
Definition put_entry (e : entry) (x : tabs) : tabs :=
  match e with
  | ETop t k _ (Some p) => sp_set_top t (nset k p (sp_top t x)) x
  | EGrp id (Some p) => sp_set_g (nset id (norm_grp p) (sg x)) x
  | ENh i (Some p) => sp_set_h (nset i p (sh x)) x
  | _ => x
  end.
(* DELETE: exactly the named key disappears (idempotent) *)
Definition del_entry (e : entry) (x : tabs) : tabs :=
  match e with
  | ETop t k _ _ => sp_set_top t (ndel k (sp_top t x)) x
  | EGrp id _ => sp_set_g (ndel id (sg x)) x
  | ENh i _ => sp_set_h (ndel i (sh x)) x
  | ENone => x
  end.
Definition apply_op (o : rop) (x : tabs) : tabs :=
  match op_kind o with
  | ADD | REPLACE => put_entry (op_entry o) x
  | DELETE => del_entry (op_entry o) x
  | OTHERKIND => x
  end.

(* change the tables of instance n, if it exists *)
Definition in_ni (n : ni) (f : tabs -> tabs) (sp : spec) : spec :=
  match nget n sp with Some x => nset n (f x) sp | None => sp end.

Inductive ack :=
| AckOp (n : ni) (o : rop)        (* operation o answered "programmed" in network instance n *)
| AckFlush (l : list ni)          (* Flush of the listed instances *)
| AckNewNI (n : ni).              (* configuration: network instance n created *)

Definition spec_apply (sp : spec) (a : ack) : spec :=
  match a with
  | AckOp n o => in_ni n (apply_op o) sp
  | AckFlush l => fold_left (fun s n => in_ni n (fun _ => tabs0) s) l sp
  | AckNewNI n => if nmem n sp then sp else sp ++ [(n, tabs0)]
  end.

(* ---- reading the spec ---- *)
(* [skey] / [sentry] of Model.v name a table key / a stored entry *)
Definition ekey (e : entry) : option skey :=
  match e with ETop t k _ _ => Some (KTop t k) | EGrp id _ => Some (KGrp id) | ENh i _ => Some (KNh i) | ENone => None end.
Definition tlook (x : tabs) (k : skey) : option sentry :=
  match k with
  | KTop t k => option_map (STop t k) (nget k (sp_top t x))
  | KGrp id => option_map (SGrp id) (nget id (sg x))
  | KNh i => option_map (SNh i) (nget i (sh x))
  end.
Definition slook (sp : spec) (n : ni) (k : skey) : option sentry :=
  match nget n sp with Some x => tlook x k | None => None end.
(* is the key of entry e bound in instance n? *)
Definition spec_has (sp : spec) (n : ni) (e : entry) : bool :=
  match ekey e with
  | Some k => match slook sp n k with Some _ => true | None => false end
  | None => false
  end.
(* the same tables in every instance; the order in which instances are listed is immaterial
   (the model moves an updated instance to the front of its list) *)
Definition sp_eq (a b : spec) : Prop := forall n, nget n a = nget n b.

(* ---- abstraction of a model state: the five tables of every instance, in the order of [nis r];
   counters, held operations and hooks are not part of it ---- *)
Definition tabs_of (s : nistate) : tabs :=
  {| s4 := tab4 s; s6 := tab6 s; sl := tabl s; sg := tabg s; sh := tabh s |}.
Definition abs (r : rib) : spec := map (fun kv => (fst kv, tabs_of (snd kv))) (nis r).

(* ---- the acknowledgement log of a history ---- *)
(* AddEntry looks at the kind only to tell an explicit REPLACE (rib.go:493): every other kind is
   installed like an ADD; DeleteEntry does not look at the kind at all.  The log records the
   operation with the kind it was executed as.  The server calls AddEntry only for ADD / REPLACE and
   DeleteEntry only for DELETE, for which [eff_add o] and [eff_del o] are [o] itself. *)
Definition set_kind (k : okind) (o : rop) : rop := mk_op (op_id o) (op_ni o) k (op_elec o) (op_entry o).
Definition eff_add (o : rop) : rop := match op_kind o with ADD | REPLACE => o | _ => set_kind ADD o end.
Definition eff_del (o : rop) : rop := match op_kind o with DELETE => o | _ => set_kind DELETE o end.
Definition ack_add (x : ni * rop) : ack := AckOp (fst x) (eff_add (snd x)).
Definition ack_del (x : ni * rop) : ack := AckOp (fst x) (eff_del (snd x)).

Definition acks_of_step (i : rinput) (o : out) : list ack :=
  match i with
  | IAdd _ _ _ _ => map ack_add (acked o)
  | IDel _ _ => map ack_del (acked o)
  | IFlush l => [AckFlush l]
  | IAddNI n => [AckNewNI n]
  | ISetHook | ISetResHook => []
  end.

(* one step with any choice of the iteration order of the held operations: [ordf hf ho] is the order
   used by this AddEntry call (it may depend on the call through the hints hf ho; [Run.rstep] is
   [rstep_ord canon]) *)
Notation ordfun := (list N -> list N -> amap (ni * rop) -> amap (ni * rop)) (only parsing).
Definition rstep_ord (ordf : ordfun) (v : variant) (r : rib) (i : rinput) : rib * out * bool :=
  match i with
  | IAdd n o hf ho => let '(r', o') := add_entry v (ordf hf ho) r n o in (r', o', false)
  | _ => rstep v r i
  end.
Fixpoint rfinal_ord (ordf : ordfun) (v : variant) (r : rib) (h : list rinput) : rib :=
  match h with
  | [] => r
  | i :: tl => rfinal_ord ordf v (fst (fst (rstep_ord ordf v r i))) tl
  end.
Fixpoint ack_log_ord (ordf : ordfun) (v : variant) (r : rib) (h : list rinput) : list ack :=
  match h with
  | [] => []
  | i :: tl => let '(r', o, _) := rstep_ord ordf v r i in acks_of_step i o ++ ack_log_ord ordf v r' tl
  end.
(* the executable instances used by the correspondence *)
Definition rfinal : variant -> rib -> list rinput -> rib := rfinal_ord canon.
Definition ack_log : variant -> rib -> list rinput -> list ack := ack_log_ord canon.
