(* C03: the reference counters are exact (RC) in every reachable state, for every cascade
   order; consequently a DELETE of a group / next-hop fails exactly when it is referenced. *)
From Coq Require Import List Bool NArith PeanoNat Lia Permutation.
From GV.Base Require Import Alist U128 Op.
From GV.Rib Require Import Model Lemmas RefDefs.
Import ListNotations.
Open Scope N_scope.

(* ------------------------------------------------------------------ sums over association lists *)
Lemma asum_cons {K V} (f : K * V -> nat) x l : asum f (x :: l) = (f x + asum f l)%nat.
Proof. reflexivity. Qed.
Lemma asum_nil {K V} (f : K * V -> nat) : asum f (@nil (K * V)) = 0%nat.
Proof. reflexivity. Qed.
Lemma asum_all_zero {K V} (f : K * V -> nat) l : (forall x, In x l -> f x = 0%nat) -> asum f l = 0%nat.
Proof.
  induction l as [|x l IH]; [reflexivity|]. intros H. rewrite asum_cons, (H x (or_introl eq_refl)), IH; [reflexivity|].
  intros y Hy. apply H. right. exact Hy.
Qed.
Lemma asum_nset {V} (f : N * V -> nat) k v (l : amap V) : wf l ->
  (asum f (nset k v l) + match nget k l with Some v0 => f (k, v0) | None => 0 end = asum f l + f (k, v))%nat.
Proof. intros H. unfold nset, nget. apply (asum_aset N.eqb Neqb_spec f k v l H). Qed.
Lemma asum_ndel {V} (f : N * V -> nat) k (l : amap V) : wf l ->
  (asum f l = asum f (ndel k l) + match nget k l with Some v0 => f (k, v0) | None => 0 end)%nat.
Proof. intros H. unfold ndel, nget. apply (asum_adel N.eqb Neqb_spec f k l H). Qed.

(* ------------------------------------------------------------------ group references: deltas *)
Lemma tgt_is_spec n g own t : tgt_is n g own t = true <-> target own t = (n, g).
Proof.
  unfold tgt_is. destruct (target own t) as [tn tg]; cbn [fst snd].
  rewrite andb_true_iff, !N.eqb_eq. split; [intros [-> ->]; reflexivity|intros H; inversion H; auto].
Qed.
Lemma tgt_is_ind n g own t : ind (tgt_is n g own t) = ind ((fst (target own t) =? n) && (snd (target own t) =? g)).
Proof. reflexivity. Qed.

Lemma refs_upd_ni a f r n g :
  wf (nis r) -> has_ni r a = true ->
  (refs_nhg (upd_ni a f r) n g + ni_refs n g (a, sget r a) = refs_nhg r n g + ni_refs n g (a, f (sget r a)))%nat.
Proof.
  intros Hwf Ha. apply has_ni_true in Ha. unfold refs_nhg, upd_ni. rewrite Ha. cbn [nis set_nis].
  pose proof (asum_nset (ni_refs n g) a (f (sget r a)) (nis r) Hwf) as H. rewrite Ha in H. exact H.
Qed.
Lemma refs_upd_ni_same a f r n g :
  wf (nis r) -> (forall s, ni_refs n g (a, f s) = ni_refs n g (a, s)) ->
  refs_nhg (upd_ni a f r) n g = refs_nhg r n g.
Proof.
  intros Hwf Hf. destruct (has_ni r a) eqn:E.
  - pose proof (refs_upd_ni a f r n g Hwf E) as H. rewrite Hf in H. lia.
  - unfold upd_ni. unfold has_ni, nmem in E. destruct (nget a (nis r)); [discriminate|reflexivity].
Qed.
Lemma refs_set_pend m r n g : refs_nhg (set_pend m r) n g = refs_nhg r n g.
Proof. reflexivity. Qed.

Lemma ni_refs_set_top n g a t (s : nistate) k pl :
  wf (get_top t s) ->
  (ni_refs n g (a, set_top t (nset k pl (get_top t s)) s)
   + match nget k (get_top t s) with Some o => ind (tgt_is n g a o) | None => 0 end
   = ni_refs n g (a, s) + ind (tgt_is n g a pl))%nat.
Proof.
  intros Hwf. unfold ni_refs; cbn [fst snd].
  pose proof (asum_nset (fun kv => ind (tgt_is n g a (snd kv))) k pl (get_top t s) Hwf) as H.
  cbn [snd] in H. unfold top_refs. destruct t; cbn [get_top set_top tab4 tab6 tabl] in *; lia.
Qed.
Lemma ni_refs_del_top n g a t (s : nistate) k :
  wf (get_top t s) ->
  (ni_refs n g (a, set_top t (ndel k (get_top t s)) s)
   + match nget k (get_top t s) with Some o => ind (tgt_is n g a o) | None => 0 end
   = ni_refs n g (a, s))%nat.
Proof.
  intros Hwf. unfold ni_refs; cbn [fst snd].
  pose proof (asum_ndel (fun kv => ind (tgt_is n g a (snd kv))) k (get_top t s) Hwf) as H.
  cbn [snd] in H. unfold top_refs. destruct t; cbn [get_top set_top tab4 tab6 tabl] in *; lia.
Qed.
Lemma ni_refs_clear_top n g a t (s : nistate) :
  (ni_refs n g (a, set_top t [] s) + top_refs n g a (get_top t s) = ni_refs n g (a, s))%nat.
Proof. unfold ni_refs, top_refs; cbn [fst snd]. destruct t; cbn [get_top set_top tab4 tab6 tabl]; rewrite asum_nil; lia. Qed.
Lemma ni_refs_tops_only n g a s s' :
  tab4 s' = tab4 s -> tab6 s' = tab6 s -> tabl s' = tabl s -> ni_refs n g (a, s') = ni_refs n g (a, s).
Proof. intros H4 H6 HL. unfold ni_refs; cbn [fst snd]. rewrite H4, H6, HL. reflexivity. Qed.

(* an installed entry is counted *)
Lemma refs_ge_entry r m t k o : WF r -> has_ni r m = true -> nget k (get_top t (sget r m)) = Some o ->
  (1 <= refs_nhg r (fst (target m o)) (snd (target m o)))%nat.
Proof.
  intros HWF Hm Ho. unfold refs_nhg.
  pose proof (asum_ge_in (ni_refs (fst (target m o)) (snd (target m o))) (nis r) (m, sget r m)
                         (nget_in _ _ _ (has_ni_true _ _ Hm))) as H1.
  assert (H2 : (1 <= ni_refs (fst (target m o)) (snd (target m o)) (m, sget r m))%nat); [|lia].
  unfold ni_refs; cbn [fst snd].
  pose proof (asum_ge_in (fun kv => ind (tgt_is (fst (target m o)) (snd (target m o)) m (snd kv)))
                         (get_top t (sget r m)) (k, o) (nget_in _ _ _ Ho)) as H3. cbn [snd] in H3.
  assert (E : tgt_is (fst (target m o)) (snd (target m o)) m o = true).
  { apply tgt_is_spec. destruct (target m o); reflexivity. }
  rewrite E in H3. cbn [ind] in H3. unfold top_refs. destruct t; cbn [get_top] in *; lia.
Qed.

(* ------------------------------------------------------------------ next-hop references: deltas *)
Lemma refs_nh_upd_ni a f r n i :
  refs_nh (upd_ni a f r) n i =
  if (a =? n) && has_ni r a then asum (fun kv => ind (has_member i (snd kv))) (tabg (f (sget r a))) else refs_nh r n i.
Proof. unfold refs_nh. rewrite sget_upd_ni. destruct ((a =? n) && has_ni r a); reflexivity. Qed.
Lemma refs_nh_upd_keep a f r n i : (forall s, tabg (f s) = tabg s) -> refs_nh (upd_ni a f r) n i = refs_nh r n i.
Proof.
  intros Hf. rewrite refs_nh_upd_ni. destruct (N.eqb_spec a n) as [->|]; cbn [andb]; [|reflexivity].
  destruct (has_ni r n); [|reflexivity]. rewrite Hf. reflexivity.
Qed.

(* counters under a fold of increments / decrements over a duplicate-free list *)
Definition inl (i : N) (l : list N) : bool := existsb (N.eqb i) l.
Lemma inl_In i l : inl i l = true <-> In i l.
Proof.
  unfold inl. rewrite existsb_exists. split.
  - intros (x & Hx & E). apply N.eqb_eq in E. subst. exact Hx.
  - intros H. exists i. split; [exact H|apply N.eqb_refl].
Qed.
Lemma cnt_fold_inc l : NoDup l -> forall m j,
  cnt (fold_left (fun m i => inc i m) l m) j = cnt m j + (if inl j l then 1 else 0).
Proof.
  induction l as [|i l IH]; intros Hnd m j; cbn [fold_left inl existsb].
  - lia.
  - inversion Hnd as [|? ? Hni Hnd']; subst. rewrite (IH Hnd'). rewrite cnt_inc.
    fold (inl j l). destruct (N.eqb_spec i j) as [->|Hne].
    + rewrite N.eqb_refl. cbn [orb]. destruct (inl j l) eqn:E; [apply inl_In in E; contradiction|lia].
    + assert (j =? i = false) as -> by (apply N.eqb_neq; congruence). cbn [orb]. reflexivity.
Qed.
Lemma cnt_fold_dec l : NoDup l -> forall m j,
  cnt (fold_left (fun m i => dec i m) l m) j = cnt m j - (if inl j l then 1 else 0).
Proof.
  induction l as [|i l IH]; intros Hnd m j; cbn [fold_left inl existsb].
  - lia.
  - inversion Hnd as [|? ? Hni Hnd']; subst. rewrite (IH Hnd'). rewrite cnt_dec.
    fold (inl j l). destruct (N.eqb_spec i j) as [->|Hne].
    + rewrite N.eqb_refl. cbn [orb]. destruct (inl j l) eqn:E; [apply inl_In in E; contradiction|lia].
    + assert (j =? i = false) as -> by (apply N.eqb_neq; congruence). cbn [orb]. reflexivity.
Qed.
Lemma has_member_inl i g : has_member i g = inl i (map fst (g_nhs g)).
Proof.
  unfold has_member, inl. induction (g_nhs g) as [|[j w] l IH]; cbn; [reflexivity|].
  rewrite IH. rewrite (N.eqb_sym j i). reflexivity.
Qed.
Lemma inl_dedup i l : inl i (map fst (dedup_nhs l)) = inl i (map fst l).
Proof.
  apply eq_true_iff_eq. rewrite !inl_In. apply dedup_nhs_keys.
Qed.

(* ------------------------------------------------------------------ the invariant *)
Definition INV (r : rib) : Prop := WF r /\ RC r /\ targets_exist r.

Lemma sget_missing r n : has_ni r n = false -> sget r n = ni_empty false.
Proof. unfold has_ni, nmem, sget. destruct (nget n (nis r)); [discriminate|reflexivity]. Qed.

(* reading counters through the two kinds of update *)
Lemma rcg_upd_rcg x h r n :
  rcg (sget (upd_ni x (fun s => set_rcg (h (rcg s)) s) r) n)
  = if (x =? n) && has_ni r x then h (rcg (sget r x)) else rcg (sget r n).
Proof. rewrite sget_upd_ni. destruct ((x =? n) && has_ni r x); reflexivity. Qed.
Lemma rcg_upd_keep a f r n : (forall s, rcg (f s) = rcg s) -> rcg (sget (upd_ni a f r) n) = rcg (sget r n).
Proof.
  intros Hf. rewrite sget_upd_ni. destruct (N.eqb_spec a n) as [->|]; cbn [andb]; [|reflexivity].
  destruct (has_ni r n); [apply Hf|reflexivity].
Qed.
Lemma rch_upd_keep a f r n : (forall s, rch (f s) = rch s) -> rch (sget (upd_ni a f r) n) = rch (sget r n).
Proof.
  intros Hf. rewrite sget_upd_ni. destruct (N.eqb_spec a n) as [->|]; cbn [andb]; [|reflexivity].
  destruct (has_ni r n); [apply Hf|reflexivity].
Qed.
Lemma rch_upd_rch x h r n :
  rch (sget (upd_ni x (fun s => set_rch (h (rch s)) s) r) n)
  = if (x =? n) && has_ni r x then h (rch (sget r x)) else rch (sget r n).
Proof. rewrite sget_upd_ni. destruct ((x =? n) && has_ni r x); reflexivity. Qed.
Lemma refs_upd_rcg x h r n g : wf (nis r) ->
  refs_nhg (upd_ni x (fun s => set_rcg (h (rcg s)) s) r) n g = refs_nhg r n g.
Proof. intros Hwf. apply refs_upd_ni_same; [exact Hwf|]. intros s. apply ni_refs_tops_only; reflexivity. Qed.
Lemma top_upd_keep a f r n t : (forall s, get_top t (f s) = get_top t s) ->
  get_top t (sget (upd_ni a f r) n) = get_top t (sget r n).
Proof.
  intros Hf. rewrite sget_upd_ni. destruct (N.eqb_spec a n) as [->|]; cbn [andb]; [|reflexivity].
  destruct (has_ni r n); [apply Hf|reflexivity].
Qed.

(* with distinct keys, membership is lookup *)
Lemma in_nget {V} k (v : V) l : wf l -> In (k, v) l -> nget k l = Some v.
Proof.
  unfold wf, keys, nget, aget. induction l as [|[k' v'] l IH]; cbn; [tauto|].
  intros Hnd [Hin|Hin].
  - inversion Hin; subst. rewrite N.eqb_refl. reflexivity.
  - inversion Hnd as [|? ? Hni Hnd']; subst.
    destruct (N.eqb_spec k k') as [->|Hne]; cbn.
    + exfalso. apply Hni. apply in_map_iff. exists (k', v). auto.
    + apply IH; assumption.
Qed.

(* an instance that does not exist is not referenced *)
Lemma refs_nonexistent r n g : WF r -> targets_exist r -> has_ni r n = false -> refs_nhg r n g = 0%nat.
Proof.
  intros HWF Ht Hn. unfold refs_nhg. apply asum_all_zero. intros [m s] Hin.
  assert (Hs : nget m (nis r) = Some s) by (apply in_nget; [apply HWF|exact Hin]).
  assert (Hm : has_ni r m = true) by (eapply has_ni_some; eauto).
  assert (Hws : wf_ni s) by (destruct HWF as (_ & _ & H); eapply H; eauto).
  assert (Z : forall t, asum (fun kv => ind (tgt_is n g m (snd kv))) (get_top t s) = 0%nat).
  { intros t. apply asum_all_zero. intros [k p] Hkp. cbn [snd].
    destruct (tgt_is n g m p) eqn:E; [|reflexivity]. exfalso.
    apply tgt_is_spec in E.
    assert (Hp : nget k (get_top t (sget r m)) = Some p).
    { rewrite (sget_some r m s Hs). apply in_nget; [apply wf_get_top; exact Hws|exact Hkp]. }
    specialize (Ht m t k p Hp Hm). rewrite E in Ht. cbn [fst] in Ht. congruence. }
  unfold ni_refs, top_refs; cbn [fst snd].
  pose proof (Z T4) as Z4. pose proof (Z T6) as Z6. pose proof (Z TL) as ZL. cbn [get_top] in *. lia.
Qed.

(* ------------------------------------------------------------------ top-level entries *)
Definition tk_eqb (a b : tkind) : bool := match a, b with T4, T4 | T6, T6 | TL, TL => true | _, _ => false end.
Lemma tk_eqb_eq a b : tk_eqb a b = true -> a = b.
Proof. destruct a, b; try discriminate; reflexivity. Qed.
Lemma get_set_top' t t' m s : get_top t (set_top t' m s) = if tk_eqb t t' then m else get_top t s.
Proof. destruct t, t'; reflexivity. Qed.

Section TopAdd.
  Variables (r : rib) (n : ni) (t : tkind) (k : N) (pl : top).
  Hypothesis HINV : INV r.
  Hypothesis Hn : has_ni r n = true.
  Hypothesis Htn : has_ni r (fst (target n pl)) = true.

  Let F := fun s' : nistate => set_top t (nset k pl (get_top t s')) s'.
  Let r1 := upd_ni n F r.
  Let orig := nget k (get_top t (sget r n)).

  Lemma ta_WF1 : WF r1.
  Proof.
    apply WF_upd_ni; [apply HINV|]. intros s Hs. apply wf_ni_set_top; [exact Hs|].
    apply wf_nset. apply wf_get_top. exact Hs.
  Qed.
  Lemma ta_has1 x : has_ni r1 x = has_ni r x. Proof. apply has_ni_upd. Qed.
  Lemma ta_rcg1 x : rcg (sget r1 x) = rcg (sget r x).
  Proof. apply rcg_upd_keep. intros s. apply rcg_set_top. Qed.
  Lemma ta_rch1 x : rch (sget r1 x) = rch (sget r x).
  Proof. apply rch_upd_keep. intros s. apply rch_set_top. Qed.
  Lemma ta_refsnh1 x i : refs_nh r1 x i = refs_nh r x i.
  Proof. apply refs_nh_upd_keep. intros s. apply tabg_set_top. Qed.
  Lemma ta_refs1 n' g' :
    (refs_nhg r1 n' g' + match orig with Some o => ind (tgt_is n' g' n o) | None => 0 end
     = refs_nhg r n' g' + ind (tgt_is n' g' n pl))%nat.
  Proof.
    destruct HINV as (HWF & _ & _).
    pose proof (refs_upd_ni n F r n' g' (proj1 HWF) Hn) as H1.
    pose proof (ni_refs_set_top n' g' n t (sget r n) k pl (wf_get_top t _ (WF_sget r n HWF))) as H2.
    unfold r1, orig. unfold F at 2 in H1. lia.
  Qed.
  Lemma ta_top1 m t' : get_top t' (sget r1 m) =
                       if (n =? m) && tk_eqb t' t then nset k pl (get_top t (sget r n)) else get_top t' (sget r m).
  Proof.
    unfold r1. rewrite sget_upd_ni, Hn. destruct (N.eqb_spec n m) as [->|]; cbn [andb]; [|reflexivity].
    unfold F. rewrite get_set_top'. reflexivity.
  Qed.

  (* the state after handleReferences *)
  Definition ta_r2 : rib :=
    match orig with
    | Some o =>
      if same_ref o pl then r1
      else upd_ni (fst (target n pl)) (fun s' => set_rcg (inc (snd (target n pl)) (rcg s')) s')
                  (upd_ni (fst (target n o)) (fun s' => set_rcg (dec (snd (target n o)) (rcg s')) s') r1)
    | None => upd_ni (fst (target n pl)) (fun s' => set_rcg (inc (snd (target n pl)) (rcg s')) s') r1
    end.

  Lemma ta_top2 m t' : get_top t' (sget ta_r2 m) = get_top t' (sget r1 m).
  Proof.
    unfold ta_r2. destruct orig as [o|]; [destruct (same_ref o pl); [reflexivity|]|];
      rewrite ?top_upd_keep; try reflexivity; intros s; destruct t'; reflexivity.
  Qed.
  Lemma ta_has2 x : has_ni ta_r2 x = has_ni r x.
  Proof.
    unfold ta_r2. destruct orig as [o|]; [destruct (same_ref o pl)|]; rewrite ?has_ni_upd; apply ta_has1.
  Qed.

  Lemma same_ref_target o : same_ref o pl = true -> target n o = target n pl.
  Proof.
    unfold same_ref, target. intros H. apply andb_true_iff in H. destruct H as [H1 H2].
    apply N.eqb_eq in H1, H2. rewrite H1, H2. reflexivity.
  Qed.

  Lemma ta_WF2 : WF ta_r2.
  Proof.
    pose proof ta_WF1 as H1.
    assert (Hi : forall x g rr, WF rr -> WF (upd_ni x (fun s' => set_rcg (inc g (rcg s')) s') rr)).
    { intros x g rr Hr. apply WF_upd_ni; [exact Hr|]. intros s Hs. apply wf_ni_set_rcg; [exact Hs|apply wf_inc, Hs]. }
    assert (Hd : forall x g rr, WF rr -> WF (upd_ni x (fun s' => set_rcg (dec g (rcg s')) s') rr)).
    { intros x g rr Hr. apply WF_upd_ni; [exact Hr|]. intros s Hs. apply wf_ni_set_rcg; [exact Hs|apply wf_dec, Hs]. }
    unfold ta_r2. destruct orig as [o|]; [destruct (same_ref o pl)|]; auto.
  Qed.

  Lemma ta_RC2 : RC ta_r2.
  Proof.
    destruct HINV as (HWF & (HRCg & HRCh) & HTE).
    pose proof ta_WF1 as HWF1.
    split.
    - (* group counters *)
      intros n' g'. pose proof (ta_refs1 n' g') as Hrefs. pose proof (HRCg n' g') as HRC0.
      unfold ta_r2. destruct orig as [o|] eqn:Ho.
      + destruct (same_ref o pl) eqn:Esame.
        * rewrite ta_rcg1. unfold tgt_is in Hrefs. rewrite (same_ref_target o Esame) in Hrefs. lia.
        * (* retarget: decrement the old target, increment the new one *)
          pose proof (refs_ge_entry r n t k o HWF Hn Ho) as Hge.
          assert (Hon : has_ni r (fst (target n o)) = true) by (eapply HTE; eauto).
          pose proof (HRCg (fst (target n o)) (snd (target n o))) as HRCo.
          unfold tgt_is in Hrefs.
          destruct (target n o) as [on og]. destruct (target n pl) as [tn tg]. cbn [fst snd] in *.
          remember (upd_ni on (fun s' => set_rcg (dec og (rcg s')) s') r1) as ra eqn:Hra.
          assert (HWFa : WF ra).
          { subst ra. apply WF_upd_ni; [exact HWF1|]. intros s Hs. apply wf_ni_set_rcg; [exact Hs|apply wf_dec, Hs]. }
          rewrite refs_upd_rcg by apply HWFa. rewrite rcg_upd_rcg.
          assert (Hha : has_ni ra tn = true) by (subst ra; rewrite has_ni_upd, ta_has1; exact Htn).
          rewrite Hha.
          assert (Hrefa : refs_nhg ra n' g' = refs_nhg r1 n' g') by (subst ra; apply refs_upd_rcg; apply HWF1).
          assert (Hca : forall x, rcg (sget ra x) = if (on =? x) then dec og (rcg (sget r x)) else rcg (sget r x)).
          { intros x. subst ra. rewrite rcg_upd_rcg, ta_has1, Hon, !ta_rcg1.
            destruct (N.eqb_spec on x) as [->|]; reflexivity. }
          rewrite Hrefa, !Hca.
          destruct (N.eqb_spec tn n') as [E1|E1]; destruct (N.eqb_spec on n') as [E2|E2];
            destruct (N.eqb_spec tg g') as [E3|E3]; destruct (N.eqb_spec og g') as [E4|E4];
            subst; cbn [andb ind] in *;
            rewrite ?N.eqb_refl; cbn [andb];
            repeat match goal with |- context [?a =? ?b] => destruct (N.eqb_spec a b); try congruence end;
            rewrite ?cnt_inc, ?cnt_dec, ?N.eqb_refl;
            repeat match goal with |- context [?a =? ?b] => destruct (N.eqb_spec a b); try congruence end;
            try lia.
      + (* fresh entry: increment the new target *)
        unfold tgt_is in Hrefs. destruct (target n pl) as [tn tg]. cbn [fst snd] in *.
        rewrite refs_upd_rcg by apply HWF1. rewrite rcg_upd_rcg, ta_has1, Htn, !ta_rcg1.
        destruct (N.eqb_spec tn n') as [E1|E1]; destruct (N.eqb_spec tg g') as [E3|E3];
          subst; cbn [andb ind] in *; rewrite ?cnt_inc, ?N.eqb_refl;
          repeat match goal with |- context [?a =? ?b] => destruct (N.eqb_spec a b); try congruence end;
          try lia.
    - (* next-hop counters: untouched *)
      intros n' i. specialize (HRCh n' i).
      assert (Hk : rch (sget ta_r2 n') = rch (sget r1 n') /\ refs_nh ta_r2 n' i = refs_nh r1 n' i).
      { unfold ta_r2. destruct orig as [o|]; [destruct (same_ref o pl); [split; reflexivity|]|];
          rewrite ?rch_upd_keep, ?refs_nh_upd_keep by (intros; reflexivity); split; reflexivity. }
      destruct Hk as [-> ->]. rewrite ta_rch1, ta_refsnh1. exact HRCh.
  Qed.

  Lemma ta_TE2 : targets_exist ta_r2.
  Proof.
    destruct HINV as (HWF & _ & HTE).
    intros m t' k' p Hp Hm. rewrite ta_has2 in *. rewrite ta_top2, ta_top1 in Hp.
    destruct ((n =? m) && tk_eqb t' t) eqn:E.
    - apply andb_true_iff in E. destruct E as [E1 E2]. apply N.eqb_eq in E1. subst m.
      rewrite nget_nset in Hp. destruct (N.eqb_spec k k') as [->|].
      + inversion Hp; subst. exact Htn.
      + apply tk_eqb_eq in E2. subst t'. eapply HTE; eauto.
    - eapply HTE; eauto.
  Qed.

  Lemma ta_INV2 : INV ta_r2.
  Proof. split; [apply ta_WF2|split; [apply ta_RC2|apply ta_TE2]]. Qed.
End TopAdd.

Lemma try_add_top_shape r n s explicit t k kv p r' h rv :
  nget n (nis r) = Some s ->
  try_add_top r n s explicit t k kv p = Installed r' h rv ->
  exists pl, p = Some pl /\ has_ni r (fst (target n pl)) = true
             /\ has_grp r (fst (target n pl)) (snd (target n pl)) = true
             /\ r' = ta_r2 r n t k pl.
Proof.
  intros Hs. unfold try_add_top. destruct p as [pl|]; [|discriminate].
  destruct (negb (key_ok t k kv) || t_bad pl); [discriminate|].
  destruct (explicit && negb (nmem k (get_top t s))); [discriminate|].
  destruct (t_nhg pl =? 0); [discriminate|].
  destruct (target n pl) as [tn tg] eqn:Et.
  destruct (has_ni r tn) eqn:Htn; cbn [negb]; [|discriminate].
  destruct (has_grp r tn tg) eqn:Hg; cbn [negb]; [|discriminate].
  intros H. inversion H; subst; clear H. exists pl. rewrite Et. cbn [fst snd].
  split; [reflexivity|]. split; [exact Htn|]. split; [exact Hg|].
  unfold ta_r2. rewrite (sget_some r n s Hs). rewrite Et. cbn [fst snd].
  destruct (nget k (get_top t s)) as [o|]; [|reflexivity].
  destruct (same_ref o pl); reflexivity.
Qed.

Lemma try_add_top_INV r n s explicit t k kv p r' h rv :
  INV r -> nget n (nis r) = Some s ->
  try_add_top r n s explicit t k kv p = Installed r' h rv -> INV r'.
Proof.
  intros HI Hs H. destruct (try_add_top_shape _ _ _ _ _ _ _ _ _ _ _ Hs H) as (pl & -> & Htn & _ & ->).
  apply ta_INV2; auto. eapply has_ni_some; eauto.
Qed.

(* ------------------------------------------------------------------ updates that leave the top-level tables alone *)
Lemma tops_keep_refs a f r n g : wf (nis r) ->
  (forall s, tab4 (f s) = tab4 s /\ tab6 (f s) = tab6 s /\ tabl (f s) = tabl s) ->
  refs_nhg (upd_ni a f r) n g = refs_nhg r n g.
Proof.
  intros Hwf Hf. apply refs_upd_ni_same; [exact Hwf|]. intros s. destruct (Hf s) as (H4 & H6 & HL).
  apply ni_refs_tops_only; assumption.
Qed.
Lemma targets_exist_keep a f r :
  (forall s t, get_top t (f s) = get_top t s) -> targets_exist r -> targets_exist (upd_ni a f r).
Proof.
  intros Hf HTE m t k p Hp Hm. rewrite has_ni_upd in *. rewrite top_upd_keep in Hp by (intros; apply Hf).
  eapply HTE; eauto.
Qed.

(* ------------------------------------------------------------------ next-hop groups *)
Section GrpAdd.
  Variables (r : rib) (n : ni) (id : N) (pl : grp).
  Hypothesis HINV : INV r.
  Hypothesis Hn : has_ni r n = true.
  Let orig := nget id (tabg (sget r n)).
  Let newm := map fst (dedup_nhs (g_nhs pl)).
  Definition ga_r3 : rib :=
    let r1 := upd_ni n (fun s' => set_tabg (nset id (norm_grp pl) (tabg s')) s') r in
    let r2 := upd_ni n (fun s' => set_rch (fold_left (fun m i => inc i m) newm (rch s')) s') r1 in
    match orig with
    | Some o => upd_ni n (fun s' => set_rch (fold_left (fun m i => dec i m) (map fst (g_nhs o)) (rch s')) s') r2
    | None => r2
    end.

  Lemma ga_WF : WF ga_r3.
  Proof.
    destruct HINV as (HWF & _ & _).
    assert (H1 : WF (upd_ni n (fun s' => set_tabg (nset id (norm_grp pl) (tabg s')) s') r)).
    { apply WF_upd_ni; [exact HWF|]. intros s Hs. apply wf_ni_set_tabg; [exact Hs|apply wf_nset, Hs|].
      intros id' g. rewrite nget_nset. destruct (id =? id').
      - intros E; inversion E; subst. apply wf_grp_norm.
      - destruct Hs as (_ & _ & _ & _ & _ & _ & _ & HN). apply HN. }
    assert (Hi : forall l rr, WF rr -> WF (upd_ni n (fun s' => set_rch (fold_left (fun m i => inc i m) l (rch s')) s') rr)).
    { intros l rr Hr. apply WF_upd_ni; [exact Hr|]. intros s Hs. apply wf_ni_set_rch; [exact Hs|apply wf_fold_inc, Hs]. }
    assert (Hd : forall l rr, WF rr -> WF (upd_ni n (fun s' => set_rch (fold_left (fun m i => dec i m) l (rch s')) s') rr)).
    { intros l rr Hr. apply WF_upd_ni; [exact Hr|]. intros s Hs. apply wf_ni_set_rch; [exact Hs|apply wf_fold_dec, Hs]. }
    unfold ga_r3. destruct orig; auto.
  Qed.

  Lemma ga_sget m : sget ga_r3 m =
    if n =? m then
      let s := sget r n in
      let c1 := fold_left (fun m i => inc i m) newm (rch s) in
      let c2 := match orig with Some o => fold_left (fun m i => dec i m) (map fst (g_nhs o)) c1 | None => c1 end in
      set_rch c2 (set_tabg (nset id (norm_grp pl) (tabg s)) s)
    else sget r m.
  Proof.
    unfold ga_r3. destruct orig as [o|];
      rewrite !sget_upd_ni, ?has_ni_upd, Hn; destruct (N.eqb_spec n m) as [->|]; cbn [andb];
        rewrite ?N.eqb_refl; cbn [andb]; try reflexivity.
  Qed.
  Lemma ga_has x : has_ni ga_r3 x = has_ni r x.
  Proof. unfold ga_r3. destruct orig; rewrite ?has_ni_upd; reflexivity. Qed.

  Lemma ga_RC : RC ga_r3.
  Proof.
    destruct HINV as (HWF & (HRCg & HRCh) & HTE).
    split.
    - intros n' g'.
      assert (Hk : forall a f rr, wf (nis rr) -> (forall s, tab4 (f s) = tab4 s /\ tab6 (f s) = tab6 s /\ tabl (f s) = tabl s) ->
                                  refs_nhg (upd_ni a f rr) n' g' = refs_nhg rr n' g') by (intros; apply tops_keep_refs; auto).
      assert (E : refs_nhg ga_r3 n' g' = refs_nhg r n' g').
      { unfold ga_r3. destruct orig; rewrite !Hk; try reflexivity; try (intros; repeat split; reflexivity);
          repeat apply wf_upd_ni; apply HWF. }
      rewrite E, <- (HRCg n' g'). rewrite ga_sget. destruct (n =? n') eqn:En; [|reflexivity].
      apply N.eqb_eq in En. subst n'. reflexivity.
    - intros n' i. unfold refs_nh. rewrite ga_sget. destruct (N.eqb_spec n n') as [<-|Hne]; [|apply HRCh].
      cbn [rch set_rch tabg set_tabg].
      specialize (HRCh n i). unfold refs_nh in HRCh.
      pose proof (WF_sget r n HWF) as Hws.
      assert (Hwg : wf (tabg (sget r n))) by apply Hws.
      pose proof (asum_nset (fun kv => ind (has_member i (snd kv))) id (norm_grp pl) (tabg (sget r n)) Hwg) as Hs.
      cbn [snd] in Hs. fold orig in Hs.
      assert (Hnew : has_member i (norm_grp pl) = inl i newm) by (rewrite has_member_inl; reflexivity).
      assert (Hndn : NoDup newm) by apply dedup_nhs_nodup.
      destruct orig as [o|] eqn:Ho.
      + assert (Hwo : wf_grp o) by (destruct Hws as (_ & _ & _ & _ & _ & _ & _ & HN); eapply HN; eauto).
        rewrite (cnt_fold_dec _ Hwo), (cnt_fold_inc _ Hndn).
        assert (Hold : has_member i o = inl i (map fst (g_nhs o))) by apply has_member_inl.
        (* the old group is counted, so the counter is at least its indicator *)
        assert (Hge : (ind (has_member i o) <= asum (fun kv => ind (has_member i (snd kv))) (tabg (sget r n)))%nat).
        { apply (asum_ge_in (fun kv => ind (has_member i (snd kv))) _ (id, o)). apply nget_in. exact Ho. }
        rewrite Hnew, Hold in *. destruct (inl i newm), (inl i (map fst (g_nhs o))); cbn [ind] in *; lia.
      + rewrite (cnt_fold_inc _ Hndn). rewrite Hnew in *. destruct (inl i newm); cbn [ind] in *; lia.
  Qed.

  Lemma ga_TE : targets_exist ga_r3.
  Proof.
    destruct HINV as (_ & _ & HTE). intros m t k p Hp Hm. rewrite ga_has in *. rewrite ga_sget in Hp.
    destruct (n =? m) eqn:E; [|eapply HTE; eauto].
    apply N.eqb_eq in E. subst m. cbn in Hp.
    assert (Hp' : nget k (get_top t (sget r n)) = Some p) by (destruct t; exact Hp).
    eapply HTE; eauto.
  Qed.
  Lemma ga_INV : INV ga_r3.
  Proof. split; [apply ga_WF|split; [apply ga_RC|apply ga_TE]]. Qed.
End GrpAdd.

Lemma try_add_grp_shape r n s explicit id p r' h rv :
  nget n (nis r) = Some s ->
  try_add_grp v_fixed r n s explicit id p = Installed r' h rv ->
  exists pl, p = Some pl /\ forallb (fun iw => has_nh r n (fst iw)) (g_nhs pl) = true /\ r' = ga_r3 r n id pl.
Proof.
  intros Hs. unfold try_add_grp. destruct p as [pl|]; [|discriminate].
  destruct (g_bad pl); [discriminate|].
  destruct (explicit && negb (nmem id (tabg s))); [discriminate|].
  destruct (id =? 0); [discriminate|].
  destruct (g_nhs pl) as [|x l] eqn:El; [discriminate|].
  destruct (existsb _ (x :: l)); [discriminate|].
  destruct (forallb _ (x :: l)) eqn:Ef; cbn [negb]; [|discriminate].
  intros H. inversion H; subst; clear H. exists pl. split; [reflexivity|]. rewrite El. split; [exact Ef|].
  unfold ga_r3. rewrite (sget_some r n s Hs). unfold members. cbn [fixF8 v_fixed]. rewrite El.
  destruct (nget id (tabg s)); reflexivity.
Qed.

Lemma try_add_grp_INV r n s explicit id p r' h rv :
  INV r -> nget n (nis r) = Some s ->
  try_add_grp v_fixed r n s explicit id p = Installed r' h rv -> INV r'.
Proof.
  intros HI Hs H. destruct (try_add_grp_shape _ _ _ _ _ _ _ _ _ Hs H) as (pl & -> & _ & ->).
  apply ga_INV; auto. eapply has_ni_some; eauto.
Qed.

(* ------------------------------------------------------------------ next-hops *)
Lemma upd_tabh_INV r n f : INV r -> (forall m : amap nhp, wf m -> wf (f m)) ->
  INV (upd_ni n (fun s' => set_tabh (f (tabh s')) s') r).
Proof.
  intros (HWF & (HRCg & HRCh) & HTE) Hf. split; [|split].
  - apply WF_upd_ni; [exact HWF|]. intros s Hs. apply wf_ni_set_tabh; [exact Hs|]. apply Hf. apply Hs.
  - split.
    + intros n' g'. rewrite tops_keep_refs by (try apply HWF; intros; repeat split; reflexivity).
      rewrite rcg_upd_keep by reflexivity. apply HRCg.
    + intros n' i. rewrite refs_nh_upd_keep by reflexivity. rewrite rch_upd_keep by reflexivity. apply HRCh.
  - apply targets_exist_keep; [intros s t; destruct t; reflexivity|exact HTE].
Qed.

Lemma try_add_nh_INV r n s explicit idx p r' h rv :
  INV r -> try_add_nh r n s explicit idx p = Installed r' h rv -> INV r'.
Proof.
  intros HI. unfold try_add_nh. destruct p as [pl|]; [|discriminate].
  destruct (h_bad pl); [discriminate|]. destruct (explicit && _); [discriminate|].
  destruct (idx =? 0); [discriminate|]. intros H; inversion H; subst; clear H.
  apply (upd_tabh_INV r n (fun m => nset idx pl m) HI). intros m Hm. apply wf_nset, Hm.
Qed.

Lemma try_install_INV r n o r' h rv :
  INV r -> try_install v_fixed r n o = Installed r' h rv -> INV r'.
Proof.
  intros HI. unfold try_install. destruct (nget n (nis r)) as [s|] eqn:Hs; [|discriminate].
  destruct (op_entry o) as [t k kv p|id p|idx p|]; try discriminate; intros H.
  - eapply try_add_top_INV; eauto.
  - eapply try_add_grp_INV; eauto.
  - eapply try_add_nh_INV; eauto.
Qed.

(* ------------------------------------------------------------------ the cascade *)
Lemma INV_set_pend m r : INV r -> wf m -> INV (set_pend m r).
Proof.
  intros (HWF & HRC & HTE) Hm. split; [apply WF_set_pend; assumption|]. split; [exact HRC|exact HTE].
Qed.
Lemma INV_wf_pend r : INV r -> wf (pend r).
Proof. intros ((_ & H & _) & _). exact H. Qed.

Lemma aei_INV ord fuel : forall st n o, INV (fst (fst st)) -> INV (fst (fst (aei v_fixed ord fuel st n o))).
Proof.
  induction fuel as [|f IH]; intros [[r acc] stack] n o HI; cbn [aei fst] in *; [exact HI|].
  destruct (existsb (N.eqb (op_id o)) stack); [exact HI|].
  destruct (try_install v_fixed r n o) as [| |r' h rv] eqn:Ht; cbn [fst].
  - cbn [fixF5 v_fixed]. apply INV_set_pend; [exact HI|]. apply wf_ndel, INV_wf_pend, HI.
  - destruct (nofwd r); cbn [fst]; [exact HI|]. apply INV_set_pend; [exact HI|]. apply wf_nset, INV_wf_pend, HI.
  - pose proof (try_install_INV r n o r' h rv HI Ht) as HI'.
    assert (HI'' : INV (set_pend (ndel (op_id o) (pend r')) r')) by (apply INV_set_pend; [exact HI'|apply wf_ndel, INV_wf_pend, HI']).
    remember (set_pend (ndel (op_id o) (pend r')) r') as r''.
    generalize (ord (pend r'')). intros l.
    remember (r'', add_rev rv (add_hev h (add_ok n o acc)), op_id o :: stack) as st0.
    assert (H0 : INV (fst (fst st0))) by (subst st0; exact HI'').
    clear Heqst0. revert st0 H0. induction l as [|e l IHl]; intros st0 H0; cbn [fold_left]; [exact H0|].
    apply IHl. apply IH. exact H0.
Qed.

Lemma add_entry_INV ord r n o : INV r -> INV (fst (add_entry v_fixed ord r n o)).
Proof.
  intros HI. unfold add_entry. destruct ((n =? 0) || negb (has_ni r n)); [exact HI|].
  pose proof (aei_INV ord (S (length (pend r))) (r, out0, []) n o HI) as H.
  destruct (op_entry o); try exact HI;
    destruct (aei v_fixed ord (S (length (pend r))) (r, out0, []) n o) as [[r' acc] stk]; exact H.
Qed.

(* ------------------------------------------------------------------ DeleteEntry *)
Section TopDel.
  Variables (r : rib) (n : ni) (t : tkind) (k : N).
  Hypothesis HINV : INV r.
  Hypothesis Hn : has_ni r n = true.
  Let F := fun s' : nistate => set_top t (ndel k (get_top t s')) s'.
  Let r1 := upd_ni n F r.
  Let orig := nget k (get_top t (sget r n)).
  Definition td_r2 : rib :=
    match orig with
    | Some d => upd_ni (fst (target n d)) (fun s' => set_rcg (dec (snd (target n d)) (rcg s')) s') r1
    | None => r1
    end.

  Lemma td_WF1 : WF r1.
  Proof.
    apply WF_upd_ni; [apply HINV|]. intros s Hs. apply wf_ni_set_top; [exact Hs|].
    apply wf_ndel. apply wf_get_top. exact Hs.
  Qed.
  Lemma td_refs1 n' g' :
    (refs_nhg r1 n' g' + match orig with Some o => ind (tgt_is n' g' n o) | None => 0 end = refs_nhg r n' g')%nat.
  Proof.
    destruct HINV as (HWF & _ & _).
    pose proof (refs_upd_ni n F r n' g' (proj1 HWF) Hn) as H1.
    pose proof (ni_refs_del_top n' g' n t (sget r n) k (wf_get_top t _ (WF_sget r n HWF))) as H2.
    unfold r1, orig. unfold F at 2 in H1. lia.
  Qed.
  Lemma td_top1 m t' : get_top t' (sget r1 m) =
                       if (n =? m) && tk_eqb t' t then ndel k (get_top t (sget r n)) else get_top t' (sget r m).
  Proof.
    unfold r1. rewrite sget_upd_ni, Hn. destruct (N.eqb_spec n m) as [->|]; cbn [andb]; [|reflexivity].
    unfold F. rewrite get_set_top'. reflexivity.
  Qed.

  Lemma td_INV : INV td_r2.
  Proof.
    destruct HINV as (HWF & (HRCg & HRCh) & HTE). pose proof td_WF1 as HWF1.
    assert (Hrcg1 : forall x, rcg (sget r1 x) = rcg (sget r x)) by (intros; apply rcg_upd_keep; intros; apply rcg_set_top).
    assert (Hrch1 : forall x, rch (sget r1 x) = rch (sget r x)) by (intros; apply rch_upd_keep; intros; apply rch_set_top).
    assert (Hnh1 : forall x i, refs_nh r1 x i = refs_nh r x i) by (intros; apply refs_nh_upd_keep; intros; apply tabg_set_top).
    split; [|split].
    - unfold td_r2. destruct orig; [|exact HWF1]. apply WF_upd_ni; [exact HWF1|].
      intros s Hs. apply wf_ni_set_rcg; [exact Hs|apply wf_dec, Hs].
    - split.
      + intros n' g'. pose proof (td_refs1 n' g') as Hrefs. pose proof (HRCg n' g') as HRC0.
        unfold td_r2. destruct orig as [o|] eqn:Ho.
        * pose proof (refs_ge_entry r n t k o HWF Hn Ho) as Hge.
          assert (Hon : has_ni r (fst (target n o)) = true) by (eapply HTE; eauto).
          pose proof (HRCg (fst (target n o)) (snd (target n o))) as HRCo.
          unfold tgt_is in Hrefs. destruct (target n o) as [on og]. cbn [fst snd] in *.
          rewrite refs_upd_rcg by apply HWF1. rewrite rcg_upd_rcg. unfold r1 at 1. rewrite has_ni_upd, Hon, !Hrcg1.
          destruct (N.eqb_spec on n') as [E2|E2]; destruct (N.eqb_spec og g') as [E4|E4];
            subst; cbn [andb ind] in *; rewrite ?cnt_dec, ?N.eqb_refl;
            repeat match goal with |- context [?a =? ?b] => destruct (N.eqb_spec a b); try congruence end;
            try lia.
        * rewrite Hrcg1. lia.
      + intros n' i. specialize (HRCh n' i).
        assert (Hk : rch (sget td_r2 n') = rch (sget r1 n') /\ refs_nh td_r2 n' i = refs_nh r1 n' i).
        { unfold td_r2. destruct orig; [|split; reflexivity].
          rewrite rch_upd_keep, refs_nh_upd_keep by (intros; reflexivity). split; reflexivity. }
        destruct Hk as [-> ->]. rewrite Hrch1, Hnh1. exact HRCh.
    - intros m t' k' p Hp Hm.
      assert (Hh : forall x, has_ni td_r2 x = has_ni r x).
      { intros x. unfold td_r2. destruct orig; rewrite ?has_ni_upd; unfold r1; apply has_ni_upd. }
      rewrite Hh in *.
      assert (Htop : get_top t' (sget td_r2 m) = get_top t' (sget r1 m)).
      { unfold td_r2. destruct orig; [|reflexivity]. apply top_upd_keep. intros s; destruct t'; reflexivity. }
      rewrite Htop, td_top1 in Hp.
      destruct ((n =? m) && tk_eqb t' t) eqn:E; [|eapply HTE; eauto].
      apply andb_true_iff in E. destruct E as [E1 E2]. apply N.eqb_eq in E1. subst m.
      apply tk_eqb_eq in E2. subst t'.
      rewrite nget_ndel in Hp. destruct (k =? k'); [discriminate|]. eapply HTE; eauto.
  Qed.
End TopDel.

Section GrpDel.
  Variables (r : rib) (n : ni) (id : N) (g : grp).
  Hypothesis HINV : INV r.
  Hypothesis Hn : has_ni r n = true.
  Hypothesis Hg : nget id (tabg (sget r n)) = Some g.
  Definition gd_r2 : rib :=
    upd_ni n (fun s' => set_rch (fold_left (fun m i => dec i m) (map fst (g_nhs g)) (rch s')) s')
           (upd_ni n (fun s' => set_tabg (ndel id (tabg s')) s') r).

  Lemma gd_sget m : sget gd_r2 m =
    if n =? m then
      let s := sget r n in
      set_rch (fold_left (fun m i => dec i m) (map fst (g_nhs g)) (rch s)) (set_tabg (ndel id (tabg s)) s)
    else sget r m.
  Proof.
    unfold gd_r2. rewrite !sget_upd_ni, ?has_ni_upd, Hn. destruct (N.eqb_spec n m) as [->|]; cbn [andb]; [|reflexivity].
    rewrite N.eqb_refl. reflexivity.
  Qed.

  Lemma gd_INV : INV gd_r2.
  Proof.
    destruct HINV as (HWF & (HRCg & HRCh) & HTE).
    pose proof (WF_sget r n HWF) as Hws.
    split; [|split].
    - unfold gd_r2. apply WF_upd_ni; [apply WF_upd_ni; [exact HWF|]|].
      + intros s Hs. apply wf_ni_set_tabg; [exact Hs|apply wf_ndel, Hs|].
        intros id' g'. rewrite nget_ndel. destruct (id =? id'); [discriminate|].
        destruct Hs as (_ & _ & _ & _ & _ & _ & _ & HN). apply HN.
      + intros s Hs. apply wf_ni_set_rch; [exact Hs|apply wf_fold_dec, Hs].
    - split.
      + intros n' g'. unfold gd_r2.
        rewrite !tops_keep_refs; try (intros; repeat split; reflexivity); try (repeat apply wf_upd_ni; apply HWF).
        rewrite <- (HRCg n' g'). fold gd_r2. rewrite gd_sget. destruct (N.eqb_spec n n') as [<-|]; reflexivity.
      + intros n' i. unfold refs_nh. rewrite gd_sget. destruct (N.eqb_spec n n') as [<-|Hne]; [|apply HRCh].
        cbn [rch set_rch tabg set_tabg]. specialize (HRCh n i). unfold refs_nh in HRCh.
        assert (Hwg : wf (tabg (sget r n))) by apply Hws.
        pose proof (asum_ndel (fun kv => ind (has_member i (snd kv))) id (tabg (sget r n)) Hwg) as Hs.
        rewrite Hg in Hs. cbn [snd] in Hs.
        assert (Hwo : wf_grp g) by (destruct Hws as (_ & _ & _ & _ & _ & _ & _ & HN); eapply HN; eauto).
        rewrite (cnt_fold_dec _ Hwo). rewrite has_member_inl in Hs.
        destruct (inl i (map fst (g_nhs g))); cbn [ind] in *; lia.
    - intros m t k p Hp Hm.
      assert (Hh : has_ni gd_r2 m = has_ni r m) by (unfold gd_r2; rewrite !has_ni_upd; reflexivity).
      rewrite Hh in Hm. unfold gd_r2 in *. rewrite !has_ni_upd.
      rewrite !top_upd_keep in Hp by (intros s; destruct t; reflexivity). eapply HTE; eauto.
  Qed.
End GrpDel.

Lemma delete_entry_INV r n o : INV r -> INV (fst (delete_entry v_fixed r n o)).
Proof.
  intros HI. unfold delete_entry. destruct (nget n (nis r)) as [s|] eqn:Hs; [|exact HI].
  pose proof (has_ni_some r n s Hs) as Hn. pose proof (sget_some r n s Hs) as Hsg.
  destruct (op_entry o) as [t k kv p|id p|idx p|]; cbn [fst]; try exact HI.
  - cbn [fixF6 v_fixed andb]. destruct (negb (key_ok t k kv)); cbn [fst]; [exact HI|].
    assert (Hk : match t with TL => k | _ => k end = k) by (destruct t; reflexivity). rewrite Hk.
    pose proof (td_INV r n t k HI Hn) as H. unfold td_r2 in H. rewrite Hsg in H.
    destruct (nget k (get_top t s)) as [d|]; [|exact H].
    unfold target in *. cbn [fst snd] in H. exact H.
  - destruct (id =? 0); cbn [fst]; [exact HI|].
    destruct (nget id (tabg s)) as [g|] eqn:Hg; cbn [fst]; [|exact HI].
    destruct (0 <? cnt (rcg s) id); cbn [fst]; [exact HI|].
    apply (gd_INV r n id g HI Hn). rewrite Hsg. exact Hg.
  - destruct (idx =? 0); cbn [fst]; [exact HI|].
    destruct (nget idx (tabh s)) as [h|]; cbn [fst]; [|exact HI].
    destruct (0 <? cnt (rch s) idx); cbn [fst]; [exact HI|].
    apply (upd_tabh_INV r n (fun m => ndel idx m) HI). intros m Hm. apply wf_ndel, Hm.
Qed.

(* ------------------------------------------------------------------ Flush *)
(* decrementing the target of every entry of a list *)
Definition dec_targets (n : ni) (l : amap top) (r : rib) : rib :=
  fold_left (fun r' kv => upd_ni (fst (target n (snd kv)))
                                 (fun s' => set_rcg (dec (snd (target n (snd kv))) (rcg s')) s') r') l r.

Lemma dec_targets_spec n l : forall r, WF r ->
  let rf := dec_targets n l r in
  WF rf
  /\ (forall n' g', cnt (rcg (sget rf n')) g'
                    = cnt (rcg (sget r n')) g' - N.of_nat (asum (fun kv => ind (tgt_is n' g' n (snd kv))) l))
  /\ (forall n' g', refs_nhg rf n' g' = refs_nhg r n' g')
  /\ (forall m, sget rf m = set_rcg (rcg (sget rf m)) (sget r m))
  /\ (forall m, has_ni rf m = has_ni r m)
  /\ pend rf = pend r.
Proof.
  induction l as [|[k p] l IH]; intros r HWF; cbn [dec_targets fold_left].
  - split; [exact HWF|]. split; [|split; [|split; [|split]]]; try reflexivity.
    + intros n' g'. rewrite asum_nil. cbn [N.of_nat]. rewrite N.sub_0_r. reflexivity.
    + intros m. destruct (sget r m); reflexivity.
  - cbn [snd]. remember (fst (target n p)) as tn eqn:Etn. remember (snd (target n p)) as tg eqn:Etg.
    change (fold_left _ l ?x) with (dec_targets n l x).
    set (ra := upd_ni tn (fun s' => set_rcg (dec tg (rcg s')) s') r).
    assert (HWFa : WF ra).
    { apply WF_upd_ni; [exact HWF|]. intros s Hs. apply wf_ni_set_rcg; [exact Hs|apply wf_dec, Hs]. }
    destruct (IH ra HWFa) as (I1 & I2 & I3 & I4 & I5 & I6). split; [exact I1|]. split; [|split; [|split; [|split]]].
    + intros n' g'. rewrite I2, asum_cons. cbn [snd]. unfold ra. rewrite rcg_upd_rcg.
      unfold tgt_is at 2. rewrite <- Etn, <- Etg.
      destruct (N.eqb_spec tn n') as [->|Hne]; cbn [andb].
      * destruct (has_ni r n') eqn:Hh.
        -- rewrite cnt_dec. destruct (N.eqb_spec tg g') as [->|]; cbn [ind]; lia.
        -- rewrite (sget_missing r n' Hh). cbn. lia.
      * cbn [ind]. lia.
    + intros n' g'. rewrite I3. apply refs_upd_rcg. apply HWF.
    + intros m. rewrite I4 at 1. unfold ra. rewrite sget_upd_ni.
      destruct ((tn =? m) && has_ni r tn) eqn:E; [|reflexivity].
      apply andb_true_iff in E. destruct E as [E _]. apply N.eqb_eq in E. subst m.
      destruct (sget r tn); reflexivity.
    + intros m. rewrite I5. apply has_ni_upd.
    + rewrite I6. apply pend_upd_ni.
Qed.

Lemma flush_top_dec t n r : fst (flush_top t n r) =
  match nget n (nis r) with
  | None => r
  | Some s => upd_ni n (fun s' => set_top t [] s') (dec_targets n (get_top t s) r)
  end.
Proof. unfold flush_top. destruct (nget n (nis r)); reflexivity. Qed.

Lemma flush_top_INV t n r : INV r -> INV (fst (flush_top t n r)).
Proof.
  intros HI. rewrite flush_top_dec. destruct (nget n (nis r)) as [s|] eqn:Hs; [|exact HI].
  destruct HI as (HWF & (HRCg & HRCh) & HTE).
  pose proof (has_ni_some r n s Hs) as Hn. pose proof (sget_some r n s Hs) as Hsg.
  destruct (dec_targets_spec n (get_top t s) r HWF) as (D1 & D2 & D3 & D4 & D5 & D6).
  set (rd := dec_targets n (get_top t s) r) in *.
  assert (Htops : forall m t', get_top t' (sget rd m) = get_top t' (sget r m)).
  { intros m t'. rewrite D4. destruct t'; reflexivity. }
  split; [|split].
  - apply WF_upd_ni; [exact D1|]. intros s' Hs'. apply wf_ni_set_top; [exact Hs'|apply wf_nil].
  - split.
    + intros n' g'.
      assert (Hnd : has_ni rd n = true) by (rewrite D5; exact Hn).
      pose proof (refs_upd_ni n (fun s' => set_top t [] s') rd n' g' (proj1 D1) Hnd) as H1.
      pose proof (ni_refs_clear_top n' g' n t (sget rd n)) as H2.
      rewrite rcg_upd_keep by (intros; apply rcg_set_top). rewrite D2.
      rewrite D3 in H1. rewrite Htops, Hsg in H2. unfold top_refs in H2.
      specialize (HRCg n' g').
      (* the table's entries are among the referrers *)
      assert (Hle : (asum (fun kv => ind (tgt_is n' g' n (snd kv))) (get_top t s) <= refs_nhg r n' g')%nat).
      { unfold refs_nhg. pose proof (asum_ge_in (ni_refs n' g') (nis r) (n, s) (nget_in _ _ _ Hs)) as Hg.
        remember (asum (ni_refs n' g') (nis r)) as R.
        unfold ni_refs, top_refs in Hg; cbn [fst snd] in Hg. destruct t; cbn [get_top]; lia. }
      lia.
    + intros n' i. rewrite rch_upd_keep by (intros; apply rch_set_top).
      rewrite refs_nh_upd_keep by (intros; apply tabg_set_top).
      assert (E1 : rch (sget rd n') = rch (sget r n')) by (rewrite D4; destruct (sget r n'); reflexivity).
      assert (E2 : refs_nh rd n' i = refs_nh r n' i) by (unfold refs_nh; rewrite D4; destruct (sget r n'); reflexivity).
      rewrite E1, E2. apply HRCh.
  - intros m t' k p Hp Hm. rewrite has_ni_upd, D5 in *.
    rewrite sget_upd_ni in Hp. destruct ((n =? m) && has_ni rd n) eqn:E.
    + apply andb_true_iff in E. destruct E as [E _]. apply N.eqb_eq in E. subst m.
      rewrite get_set_top' in Hp. destruct (tk_eqb t' t); [discriminate|].
      rewrite Htops in Hp. eapply HTE; eauto.
    + rewrite Htops in Hp. eapply HTE; eauto.
Qed.

(* decrementing the members of every group of a list *)
Lemma cnt_fold_groups (l : amap grp) : (forall id g, In (id, g) l -> wf_grp g) -> forall m i,
  cnt (fold_left (fun m kv => fold_left (fun m' j => dec j m') (map fst (g_nhs (snd kv))) m) l m) i
  = cnt m i - N.of_nat (asum (fun kv => ind (has_member i (snd kv))) l).
Proof.
  induction l as [|[id g] l IH]; intros Hw m i; cbn [fold_left].
  - rewrite asum_nil. cbn. lia.
  - rewrite IH by (intros id' g' H; eapply Hw; right; exact H). cbn [snd].
    rewrite (cnt_fold_dec _ (Hw id g (or_introl eq_refl))). rewrite asum_cons. cbn [snd].
    rewrite has_member_inl. destruct (inl i (map fst (g_nhs g))); cbn [ind]; lia.
Qed.
Lemma wf_fold_groups (l : amap grp) m : wf m ->
  wf (fold_left (fun m kv => fold_left (fun m' j => dec j m') (map fst (g_nhs (snd kv))) m) l m).
Proof. revert m. induction l as [|x l IH]; intros m H; cbn [fold_left]; [exact H|]. apply IH, wf_fold_dec, H. Qed.


Lemma flush_top_frame t n r : WF r ->
  let r' := fst (flush_top t n r) in
  (forall m, has_ni r' m = has_ni r m)
  /\ (forall m, tabg (sget r' m) = tabg (sget r m) /\ tabh (sget r' m) = tabh (sget r m)
                /\ rch (sget r' m) = rch (sget r m) /\ hooked (sget r' m) = hooked (sget r m))
  /\ pend r' = pend r.
Proof.
  intros HWF. cbn zeta. rewrite flush_top_dec. destruct (nget n (nis r)) as [s|] eqn:Hs.
  - destruct (dec_targets_spec n (get_top t s) r HWF) as (_ & _ & _ & D4 & D5 & D6).
    split; [|split].
    + intros m. rewrite has_ni_upd. apply D5.
    + intros m. rewrite sget_upd_ni.
      destruct ((n =? m) && has_ni (dec_targets n (get_top t s) r) n) eqn:E.
      * apply andb_true_iff in E. destruct E as [E _]. apply N.eqb_eq in E. subst m.
        rewrite tabg_set_top, tabh_set_top, rch_set_top, hooked_set_top, D4.
        destruct (sget r n); repeat split; reflexivity.
      * rewrite D4. destruct (sget r m); repeat split; reflexivity.
    + rewrite pend_upd_ni. exact D6.
  - repeat split; reflexivity.
Qed.

Lemma flush_ni_INV n r : INV r -> INV (fst (fst (flush_ni v_fixed n r))).
Proof.
  intros HI. unfold flush_ni. destruct (nget n (nis r)) as [s0|] eqn:Hs; [|exact HI].
  pose proof (has_ni_some r n s0 Hs) as Hn. pose proof (sget_some r n s0 Hs) as Hsg.
  pose proof (flush_top_INV T4 n r HI) as H1. pose proof (flush_top_frame T4 n r (proj1 HI)) as (F1a & F1b & _).
  destruct (flush_top T4 n r) as [r1 h4]. cbn [fst] in *.
  pose proof (flush_top_INV T6 n r1 H1) as H2. pose proof (flush_top_frame T6 n r1 (proj1 H1)) as (F2a & F2b & _).
  destruct (flush_top T6 n r1) as [r2 h6]. cbn [fst] in *.
  pose proof (flush_top_INV TL n r2 H2) as H3. pose proof (flush_top_frame TL n r2 (proj1 H2)) as (F3a & F3b & _).
  destruct (flush_top TL n r2) as [r3 hl]. cbn [fst] in *.
  assert (Hn3 : has_ni r3 n = true) by (rewrite F3a, F2a, F1a; exact Hn).
  assert (Hg3 : tabg (sget r3 n) = tabg s0).
  { destruct (F3b n) as (-> & _). destruct (F2b n) as (-> & _). destruct (F1b n) as (-> & _). rewrite Hsg. reflexivity. }
  clear H1 H2 F1a F1b F2a F2b F3a F3b.
  destruct H3 as (HWF & (HRCg & HRCh) & HTE).
  pose proof (WF_sget r3 n HWF) as Hws.
  set (X := fun m : amap N => fold_left (fun m kv => fold_left (fun m' i => dec i m') (map fst (g_nhs (snd kv))) m) (tabg s0) m).
  set (r4 := upd_ni n (fun s' => set_rch (X (rch s')) s') r3).
  set (r5 := upd_ni n (fun s' => set_tabh [] (set_tabg [] s')) r4).
  change (INV r5).
  assert (HWF4 : WF r4).
  { apply WF_upd_ni; [exact HWF|]. intros s Hs'. apply wf_ni_set_rch; [exact Hs'|]. apply wf_fold_groups, Hs'. }
  split; [|split].
  - apply WF_upd_ni; [exact HWF4|]. intros s Hs'. apply wf_ni_set_tabh; [|apply wf_nil].
    apply wf_ni_set_tabg; [exact Hs'|apply wf_nil|]. intros id g H; discriminate.
  - split.
    + intros n' g'. unfold r5, r4.
      rewrite !tops_keep_refs; try (intros; repeat split; reflexivity); try (repeat apply wf_upd_ni; apply HWF).
      rewrite !rcg_upd_keep by reflexivity. apply HRCg.
    + intros n' i. unfold refs_nh, r5, r4. rewrite !sget_upd_ni, has_ni_upd, Hn3.
      destruct (N.eqb_spec n n') as [<-|Hne]; cbn [andb]; [|apply HRCh].
      rewrite N.eqb_refl. cbn [andb tabg set_tabh set_tabg rch set_rch]. rewrite asum_nil.
      unfold X. rewrite cnt_fold_groups.
      * specialize (HRCh n i). unfold refs_nh in HRCh. rewrite Hg3 in HRCh. lia.
      * intros id g Hin. destruct Hws as (_ & _ & _ & Hwg & _ & _ & _ & HN).
        apply (HN id g). rewrite Hg3. apply in_nget; [rewrite <- Hg3; exact Hwg|exact Hin].
  - intros m t k p Hp Hm. unfold r5, r4 in *. rewrite !has_ni_upd in *.
    rewrite !top_upd_keep in Hp by (intros s; destruct t; reflexivity). eapply HTE; eauto.
Qed.

Lemma flush_INV l : forall r, INV r -> INV (fst (fst (flush v_fixed l r))).
Proof.
  unfold flush.
  assert (G : forall l acc, INV (fst (fst acc)) ->
                            INV (fst (fst (fold_left (fun acc n => let '(r', h, e) := acc in
                                                                  let '(r'', h', e') := flush_ni v_fixed n r' in (r'', h ++ h', e || e'))
                                                     l acc)))).
  { clear l. induction l as [|n l IH]; intros [[r h] e] HI; cbn [fold_left]; [exact HI|].
    apply IH. pose proof (flush_ni_INV n r HI) as H. destruct (flush_ni v_fixed n r) as [[r'' h'] e']. exact H. }
  intros r HI. apply G. exact HI.
Qed.

(* ------------------------------------------------------------------ configuration *)
Lemma nget_app_last {V} k n (v : V) l :
  nget k (l ++ [(n, v)]) = match nget k l with Some x => Some x | None => if k =? n then Some v else None end.
Proof.
  unfold nget, aget. induction l as [|[k' v'] l IH]; cbn [app find fst snd].
  - destruct (k =? n); reflexivity.
  - destruct (k =? k'); [reflexivity|exact IH].
Qed.
Lemma wf_app_last {V} n (v : V) l : wf l -> nget n l = None -> wf (l ++ [(n, v)]).
Proof.
  unfold wf, keys, nget. intros Hnd Hn. apply (aget_none_notin N.eqb Neqb_spec) in Hn. unfold keys in Hn.
  induction l as [|[k x] l IH]; cbn [app map fst] in *.
  - constructor; [intros []|constructor].
  - inversion Hnd as [|? ? Hni Hnd']; subst. constructor.
    + rewrite map_app, in_app_iff. cbn [map fst In]. intros [H|[H|[]]]; [contradiction|]. apply Hn. left. symmetry. exact H.
    + apply IH; [exact Hnd'|]. intros H. apply Hn. right. exact H.
Qed.

Lemma add_network_instance_INV n r : INV r -> INV (add_network_instance v_fixed n r).
Proof.
  intros HI. unfold add_network_instance. destruct (has_ni r n) eqn:Hn; [exact HI|].
  destruct HI as (HWF & (HRCg & HRCh) & HTE).
  assert (Hnone : nget n (nis r) = None) by (unfold has_ni, nmem in Hn; destruct (nget n (nis r)); [discriminate|reflexivity]).
  set (e := ni_empty (fixF15 v_fixed && rib_hooked r)).
  set (r' := set_nis (nis r ++ [(n, e)]) r).
  assert (Hget : forall m, nget m (nis r') = match nget m (nis r) with Some x => Some x | None => if m =? n then Some e else None end)
    by (intros m; apply nget_app_last).
  assert (Hsg : forall m, sget r' m = if m =? n then e else sget r m).
  { intros m. unfold sget. rewrite Hget. destruct (N.eqb_spec m n) as [->|].
    - rewrite Hnone. reflexivity.
    - destruct (nget m (nis r)); reflexivity. }
  assert (Hhas : forall m, has_ni r' m = (m =? n) || has_ni r m).
  { intros m. unfold has_ni, nmem. rewrite Hget. destruct (nget m (nis r)); [rewrite orb_true_r; reflexivity|].
    destruct (m =? n); reflexivity. }
  split; [|split].
  - split; [|split].
    + apply wf_app_last; [apply HWF|exact Hnone].
    + apply HWF.
    + intros m s. rewrite Hget. destruct (nget m (nis r)) as [x|] eqn:E.
      * intros H; inversion H; subst. destruct HWF as (_ & _ & H3). eapply H3; eauto.
      * destruct (m =? n); [|discriminate]. intros H; inversion H; subst. apply wf_ni_empty.
  - split.
    + intros n' g'. rewrite Hsg.
      assert (Er : refs_nhg r' n' g' = refs_nhg r n' g').
      { unfold refs_nhg, r'. cbn [nis set_nis]. clear. induction (nis r) as [|x l IH]; cbn [app].
        - rewrite asum_cons, asum_nil. unfold ni_refs, top_refs, e; cbn. reflexivity.
        - rewrite !asum_cons, IH. reflexivity. }
      rewrite Er. destruct (N.eqb_spec n' n) as [->|]; [|apply HRCg].
      rewrite <- HRCg. rewrite (sget_missing r n Hn). reflexivity.
    + intros n' i. unfold refs_nh. rewrite Hsg. destruct (N.eqb_spec n' n) as [->|]; [|apply HRCh].
      reflexivity.
  - intros m t k p Hp Hm. rewrite Hsg in Hp. rewrite Hhas in *.
    destruct (N.eqb_spec m n) as [->|Hne].
    + unfold e in Hp. destruct t; discriminate.
    + cbn [orb] in Hm. rewrite (HTE m t k p Hp Hm). apply orb_true_r.
Qed.

Lemma set_post_change_hook_INV r : INV r -> INV (set_post_change_hook r).
Proof.
  intros (HWF & (HRCg & HRCh) & HTE).
  assert (Hget : forall m, nget m (nis (set_post_change_hook r)) = option_map (set_hooked true) (nget m (nis r))).
  { intros m. unfold set_post_change_hook, nget, aget; cbn [nis]. induction (nis r) as [|[k v] l IH]; cbn; [reflexivity|].
    destruct (m =? k); [reflexivity|exact IH]. }
  assert (Hsg : forall m, sget (set_post_change_hook r) m = set_hooked (hooked (sget (set_post_change_hook r) m)) (sget r m)).
  { intros m. unfold sget. rewrite Hget. destruct (nget m (nis r)) as [s|]; cbn; [destruct s; reflexivity|reflexivity]. }
  assert (Hhas : forall m, has_ni (set_post_change_hook r) m = has_ni r m).
  { intros m. unfold has_ni, nmem. rewrite Hget. destruct (nget m (nis r)); reflexivity. }
  split; [|split].
  - split; [|split].
    + destruct HWF as (H & _). unfold wf, keys, set_post_change_hook in *; cbn [nis]. rewrite map_map. cbn [fst]. exact H.
    + apply HWF.
    + intros m s. rewrite Hget. destruct (nget m (nis r)) as [s0|] eqn:E; [|discriminate].
      intros H; inversion H; subst. destruct HWF as (_ & _ & H3). specialize (H3 m s0 E).
      destruct s0; exact H3.
  - split.
    + intros n' g'. rewrite Hsg.
      assert (Er : refs_nhg (set_post_change_hook r) n' g' = refs_nhg r n' g').
      { clear. unfold refs_nhg, set_post_change_hook; cbn [nis]. generalize (nis r). intros l0. induction l0 as [|[k v] l IH]; [reflexivity|].
        cbn [map fst snd]. rewrite !asum_cons, IH. f_equal. }
      rewrite Er, <- HRCg. destruct (sget r n'); reflexivity.
    + intros n' i. specialize (HRCh n' i). unfold refs_nh in *. rewrite Hsg. destruct (sget r n'); exact HRCh.
  - intros m t k p Hp Hm. rewrite Hhas in *. rewrite Hsg in Hp.
    assert (Hp' : nget k (get_top t (sget r m)) = Some p) by (destruct (sget r m), t; exact Hp).
    eapply HTE; eauto.
Qed.

Lemma set_resolved_hook_INV r : INV r -> INV (set_resolved_hook r).
Proof. intros H. exact H. Qed.

(* ------------------------------------------------------------------ every reachable state *)
From GV.Rib Require Import Run.

Lemma INV_rib0 d nf : INV (rib0 d nf).
Proof.
  split; [apply WF_rib0|]. split; [split|].
  - intros n g. unfold refs_nhg, rib0; cbn [nis]. rewrite asum_cons, asum_nil.
    unfold sget, nget, aget; cbn. destruct (n =? d); reflexivity.
  - intros n i. unfold refs_nh, sget, nget, aget, rib0; cbn. destruct (n =? d); reflexivity.
  - intros n t k p Hp. unfold sget, nget, aget, rib0 in Hp; cbn in Hp. destruct (n =? d); destruct t; discriminate.
Qed.

Lemma rstep_INV r i : INV r -> INV (fst (fst (rstep v_fixed r i))).
Proof.
  intros HI. destruct i as [n o hf ho|n o|l|n| |]; cbn [rstep].
  - pose proof (add_entry_INV (canon hf ho) r n o HI) as H.
    destruct (add_entry v_fixed (canon hf ho) r n o) as [r' o']. exact H.
  - pose proof (delete_entry_INV r n o HI) as H. destruct (delete_entry v_fixed r n o) as [r' o']. exact H.
  - pose proof (flush_INV l r HI) as H. destruct (flush v_fixed l r) as [[r' h] e]. exact H.
  - apply add_network_instance_INV, HI.
  - apply set_post_change_hook_INV, HI.
  - exact HI.
Qed.

Theorem reachable_INV h : forall r, INV r -> INV (snd (rtrace v_fixed r h)).
Proof.
  induction h as [|i h IH]; intros r HI; cbn [rtrace snd]; [exact HI|].
  pose proof (rstep_INV r i HI) as H. destruct (rstep v_fixed r i) as [[r' o] fe]. cbn [fst] in H.
  specialize (IH r' H). destruct (rtrace v_fixed r' h) as [os rf]. exact IH.
Qed.

(* ------------------------------------------------------------------ the DELETE verdict *)
Definition grp_installed r n id := nmem id (tabg (sget r n)).
Definition nh_installed r n idx := nmem idx (tabh (sget r n)).

Theorem delete_grp_verdict r n o id p : INV r -> has_ni r n = true -> op_entry o = EGrp id p -> id <> 0 ->
  let res := delete_entry v_fixed r n o in
  if grp_installed r n id && negb (Nat.eqb (refs_nhg r n id) 0)
  then fst res = r /\ oks (snd res) = [] /\ fails (snd res) = [op_id o]
  else oks (snd res) = [op_id o] /\ fails (snd res) = [] /\ grp_installed (fst res) n id = false.
Proof.
  intros HI Hn He Hid. cbn zeta. unfold delete_entry, grp_installed.
  rewrite (has_ni_true r n Hn), He. apply N.eqb_neq in Hid. rewrite Hid.
  destruct HI as (HWF & (HRCg & _) & _). specialize (HRCg n id).
  unfold nmem. destruct (nget id (tabg (sget r n))) as [g|] eqn:Hg; cbn [andb].
  - destruct (N.ltb_spec 0 (cnt (rcg (sget r n)) id)) as [Hc|Hc].
    + assert (Nat.eqb (refs_nhg r n id) 0 = false) as -> by (apply Nat.eqb_neq; lia). cbn [negb fst snd].
      repeat split; reflexivity.
    + assert (Nat.eqb (refs_nhg r n id) 0 = true) as -> by (apply Nat.eqb_eq; lia). cbn [negb fst snd].
      repeat split; try reflexivity.
      rewrite !sget_upd_ni, has_ni_upd, Hn, ?N.eqb_refl. cbn [andb]. rewrite ?N.eqb_refl. cbn [andb tabg set_rch set_tabg].
      rewrite nget_ndel_same. reflexivity.
  - cbn [fst snd]. repeat split; try reflexivity. rewrite Hg. reflexivity.
Qed.

Theorem delete_nh_verdict r n o idx p : INV r -> has_ni r n = true -> op_entry o = ENh idx p -> idx <> 0 ->
  let res := delete_entry v_fixed r n o in
  if nh_installed r n idx && negb (Nat.eqb (refs_nh r n idx) 0)
  then fst res = r /\ oks (snd res) = [] /\ fails (snd res) = [op_id o]
  else oks (snd res) = [op_id o] /\ fails (snd res) = [] /\ nh_installed (fst res) n idx = false.
Proof.
  intros HI Hn He Hid. cbn zeta. unfold delete_entry, nh_installed.
  rewrite (has_ni_true r n Hn), He. apply N.eqb_neq in Hid. rewrite Hid.
  destruct HI as (HWF & (_ & HRCh) & _). specialize (HRCh n idx).
  unfold nmem. destruct (nget idx (tabh (sget r n))) as [g|] eqn:Hg; cbn [andb].
  - destruct (N.ltb_spec 0 (cnt (rch (sget r n)) idx)) as [Hc|Hc].
    + assert (Nat.eqb (refs_nh r n idx) 0 = false) as -> by (apply Nat.eqb_neq; lia). cbn [negb fst snd].
      repeat split; reflexivity.
    + assert (Nat.eqb (refs_nh r n idx) 0 = true) as -> by (apply Nat.eqb_eq; lia). cbn [negb fst snd].
      repeat split; try reflexivity.
      rewrite !sget_upd_ni, Hn, N.eqb_refl. cbn [andb tabh set_tabh]. rewrite nget_ndel_same. reflexivity.
  - cbn [fst snd]. repeat split; try reflexivity. rewrite Hg. reflexivity.
Qed.

(* a DELETE of a top-level entry with a well-formed key always succeeds, installed or not *)
Theorem delete_top_verdict r n o t k kv p : has_ni r n = true -> op_entry o = ETop t k kv p -> key_ok t k kv = true ->
  let res := delete_entry v_fixed r n o in
  oks (snd res) = [op_id o] /\ fails (snd res) = [] /\ nmem k (get_top t (sget (fst res) n)) = false.
Proof.
  intros Hn He Hk. cbn zeta. unfold delete_entry. rewrite (has_ni_true r n Hn), He. cbn [fixF6 v_fixed andb]. rewrite Hk. cbn [negb].
  assert (Hkk : match t with TL => k | _ => k end = k) by (destruct t; reflexivity). rewrite Hkk.
  cbn [fst snd]. split; [reflexivity|]. split; [reflexivity|].
  set (r1 := upd_ni n (fun s' => set_top t (ndel k (get_top t s')) s') r).
  assert (H1 : nmem k (get_top t (sget r1 n)) = false).
  { unfold r1. rewrite sget_upd_ni, Hn, N.eqb_refl. cbn [andb]. rewrite get_set_top_same. unfold nmem. rewrite nget_ndel_same. reflexivity. }
  destruct (nget k (get_top t (sget r n))) as [d|]; [|exact H1].
  destruct (target n d) as [tn tg]. rewrite top_upd_keep; [exact H1|]. intros s; destruct t; reflexivity.
Qed.

(* the verdict is a function of the installed entries only: two states with the same tables (whatever
   their histories, held operations and hook settings) give the same verdicts *)
Definition tables_of (r : rib) : list (N * (amap top * amap top * amap top * amap grp * amap nhp)) :=
  map (fun kv => (fst kv, (tab4 (snd kv), tab6 (snd kv), tabl (snd kv), tabg (snd kv), tabh (snd kv)))) (nis r).
Lemma refs_nhg_tables r1 r2 n g : tables_of r1 = tables_of r2 -> refs_nhg r1 n g = refs_nhg r2 n g.
Proof.
  unfold refs_nhg, tables_of. generalize (nis r1) (nis r2). intros l. induction l as [|[k s] l IH]; intros [|[k' s'] l'] H; try discriminate; [reflexivity|].
  cbn [map fst snd] in H. inversion H; subst. rewrite !asum_cons. rewrite (IH l') by assumption.
  unfold ni_refs; cbn [fst snd]. congruence.
Qed.
Lemma sget_tables r1 r2 n : tables_of r1 = tables_of r2 ->
  tabg (sget r1 n) = tabg (sget r2 n) /\ tabh (sget r1 n) = tabh (sget r2 n).
Proof.
  unfold sget, nget, aget, tables_of. generalize (nis r1) (nis r2). intros l.
  induction l as [|[k s] l IH]; intros [|[k' s'] l'] H; try discriminate; [split; reflexivity|].
  cbn [map fst snd] in H. inversion H; subst. cbn [find fst]. destruct (n =? k'); cbn [snd]; [split; assumption|].
  apply IH. assumption.
Qed.
Lemma refs_nh_tables r1 r2 n i : tables_of r1 = tables_of r2 -> refs_nh r1 n i = refs_nh r2 n i.
Proof. intros H. unfold refs_nh. destruct (sget_tables r1 r2 n H) as [-> _]. reflexivity. Qed.

Definition grp_delete_refused r n id := grp_installed r n id && negb (Nat.eqb (refs_nhg r n id) 0).
Definition nh_delete_refused r n idx := nh_installed r n idx && negb (Nat.eqb (refs_nh r n idx) 0).
Theorem verdict_history_free r1 r2 n x : tables_of r1 = tables_of r2 ->
  grp_delete_refused r1 n x = grp_delete_refused r2 n x /\ nh_delete_refused r1 n x = nh_delete_refused r2 n x.
Proof.
  intros H. unfold grp_delete_refused, nh_delete_refused, grp_installed, nh_installed.
  destruct (sget_tables r1 r2 n H) as [-> ->]. rewrite (refs_nhg_tables r1 r2 n x H), (refs_nh_tables r1 r2 n x H).
  split; reflexivity.
Qed.
