(* Executable model of rib/rib.go: per network-instance AFT tables, reference counters, the
   RIB-wide map of held operations and the AddEntry cascade, DeleteEntry, Flush, hooks.
   Faithful to the control flow of the Go code, abstract in the payloads.  No proofs here. *)
From Coq Require Import List Bool NArith.
From GV.Base Require Import Alist U128 Op.
Import ListNotations.
Open Scope N_scope.

Notation ni := N (only parsing).                 (* network instance name code; 0 = "" *)
Notation amap V := (alist N V).
Definition nget {V} := @aget N V N.eqb.
Definition nset {V} := @aset N V N.eqb.
Definition ndel {V} := @adel N V N.eqb.
Definition nmem {V} (k : N) (m : amap V) : bool := match nget k m with Some _ => true | None => false end.

(* ---- which repairs of the pinned tree are present in the modelled code ---- *)
Record variant := { fixF5 : bool  (* a held operation that fails is removed from the held set and not retried in the same call *);
                    fixF6 : bool  (* DELETE validates the key; MPLS label not truncated to 32 bits *);
                    fixF7 : bool  (* Flush tolerates shared / missing backup groups *);
                    fixF8 : bool  (* a group's duplicate member is counted once *);
                    fixF15 : bool (* network instances created later inherit the post-change hook *) }.
Definition v_fixed := {| fixF5 := true; fixF6 := true; fixF7 := true; fixF8 := true; fixF15 := true |}.
Definition v_tree  := {| fixF5 := false; fixF6 := false; fixF7 := false; fixF8 := false; fixF15 := false |}.

(* ---- payloads: what the RIB looks at, plus opaque extra fields ---- *)
Notation extras := (list (N * N)) (only parsing).    (* (field code, value code), sorted by field *)
Record top := { t_nhg : N (* 0 = unset *); t_ni : ni (* 0 = unset / "": the entry's own instance *);
                t_x : extras; t_bad : bool (* a value the schema rejects *) }.
Record grp := { g_nhs : list (N * N) (* (index, weight), proto order, duplicates possible *);
                g_bk : N (* backup group, 0 = none *); g_x : extras; g_bad : bool }.
Record nhp := { h_x : extras; h_bad : bool }.
Definition mk_top g n x := {| t_nhg := g; t_ni := n; t_x := x; t_bad := false |}.
Definition mk_grp l b x := {| g_nhs := l; g_bk := b; g_x := x; g_bad := false |}.
Definition mk_nh x := {| h_x := x; h_bad := false |}.

Inductive tkind := T4 | T6 | TL.
Inductive entry :=
| ETop (t : tkind) (k : N) (kvalid : bool) (p : option top)   (* kvalid: prefix syntax (T4/T6); ignored for TL *)
| EGrp (id : N) (p : option grp)
| ENh (idx : N) (p : option nhp)
| ENone.
Notation rop := (op entry).
Definition mk_op (id n : N) (k : okind) (el : option u128) (e : entry) : rop :=
  {| op_id := id; op_ni := n; op_kind := k; op_elec := el; op_entry := e |}.

Definition label_ok (l : N) : bool := (16 <=? l) && (l <=? 1048575).
Definition key_ok (t : tkind) (k : N) (kvalid : bool) : bool :=
  match t with TL => label_ok k | _ => kvalid end.

(* ---- state ---- *)
Record nistate := { tab4 : amap top; tab6 : amap top; tabl : amap top;
                    tabg : amap grp; tabh : amap nhp;
                    rcg : amap N; rch : amap N; hooked : bool }.
Definition ni_empty (h : bool) :=
  {| tab4 := []; tab6 := []; tabl := []; tabg := []; tabh := []; rcg := []; rch := []; hooked := h |}.

Record rib := { nis : amap nistate; dflt : ni; pend : amap (ni * rop); nofwd : bool;
                rib_hooked : bool; res_hooked : bool }.
Definition rib0 (d : ni) (nf : bool) : rib :=
  {| nis := [(d, ni_empty false)]; dflt := d; pend := []; nofwd := nf; rib_hooked := false; res_hooked := false |}.

Definition get_top (t : tkind) (s : nistate) : amap top :=
  match t with T4 => tab4 s | T6 => tab6 s | TL => tabl s end.
Definition set_top (t : tkind) (m : amap top) (s : nistate) : nistate :=
  match t with
  | T4 => {| tab4 := m; tab6 := tab6 s; tabl := tabl s; tabg := tabg s; tabh := tabh s; rcg := rcg s; rch := rch s; hooked := hooked s |}
  | T6 => {| tab4 := tab4 s; tab6 := m; tabl := tabl s; tabg := tabg s; tabh := tabh s; rcg := rcg s; rch := rch s; hooked := hooked s |}
  | TL => {| tab4 := tab4 s; tab6 := tab6 s; tabl := m; tabg := tabg s; tabh := tabh s; rcg := rcg s; rch := rch s; hooked := hooked s |}
  end.
Definition set_tabg m s := {| tab4 := tab4 s; tab6 := tab6 s; tabl := tabl s; tabg := m; tabh := tabh s; rcg := rcg s; rch := rch s; hooked := hooked s |}.
Definition set_tabh m s := {| tab4 := tab4 s; tab6 := tab6 s; tabl := tabl s; tabg := tabg s; tabh := m; rcg := rcg s; rch := rch s; hooked := hooked s |}.
Definition set_rcg m s := {| tab4 := tab4 s; tab6 := tab6 s; tabl := tabl s; tabg := tabg s; tabh := tabh s; rcg := m; rch := rch s; hooked := hooked s |}.
Definition set_rch m s := {| tab4 := tab4 s; tab6 := tab6 s; tabl := tabl s; tabg := tabg s; tabh := tabh s; rcg := rcg s; rch := m; hooked := hooked s |}.
Definition set_hooked h s := {| tab4 := tab4 s; tab6 := tab6 s; tabl := tabl s; tabg := tabg s; tabh := tabh s; rcg := rcg s; rch := rch s; hooked := h |}.

Definition set_nis m r := {| nis := m; dflt := dflt r; pend := pend r; nofwd := nofwd r; rib_hooked := rib_hooked r; res_hooked := res_hooked r |}.
Definition set_pend m r := {| nis := nis r; dflt := dflt r; pend := m; nofwd := nofwd r; rib_hooked := rib_hooked r; res_hooked := res_hooked r |}.
Definition upd_ni (n : ni) (f : nistate -> nistate) (r : rib) : rib :=
  match nget n (nis r) with
  | Some s => set_nis (nset n (f s) (nis r)) r
  | None => r
  end.
Definition has_ni (r : rib) (n : ni) : bool := nmem n (nis r).

(* counters: absent = 0; decrement saturates at 0 (rib.go decNHGRefCount / decNHRefCount) *)
Definition cnt (m : amap N) (i : N) : N := match nget i m with Some c => c | None => 0 end.
Definition inc (i : N) (m : amap N) : amap N := nset i (cnt m i + 1) m.
Definition dec (i : N) (m : amap N) : amap N := if cnt m i =? 0 then m else nset i (cnt m i - 1) m.

(* refdRIB: "" = the entry's own instance *)
Definition target (own : ni) (t : top) : ni * N := (if t_ni t =? 0 then own else t_ni t, t_nhg t).

(* stored group members: a map keyed by index, the last weight wins (ygot list -> map);
   kept sorted by first occurrence from the right for determinism; observables sort by key *)
Fixpoint dedup_nhs (l : list (N * N)) : amap N :=
  match l with
  | [] => []
  | (i, w) :: tl => let r := dedup_nhs tl in if nmem i r then r else (i, w) :: r
  end.
Definition norm_grp (g : grp) : grp :=
  {| g_nhs := dedup_nhs g.(g_nhs); g_bk := g_bk g; g_x := g_x g; g_bad := g_bad g |}.

(* ---- hook events ---- *)
Inductive sentry := STop (t : tkind) (k : N) (p : top) | SGrp (id : N) (p : grp) | SNh (idx : N) (p : nhp).
Inductive skey := KTop (t : tkind) (k : N) | KGrp (id : N) | KNh (idx : N).
Inductive hevent :=
| HAdd (n : ni) (e : sentry)                         (* post-change hook, ADD with the new entry *)
| HDel (n : ni) (k : skey) (e : option sentry).      (* DELETE with the removed entry (nil if it was absent) *)
Inductive revent := REv (add : bool) (n : ni) (t : tkind) (k : N) (snap : amap nistate).

Record out := { oks : list N; fails : list N; fatal : bool; hev : list hevent; rev : list revent; nofuel : bool;
                acked : list (ni * rop) (* the operations behind oks, in the same order *) }.
Definition out0 := {| oks := []; fails := []; fatal := false; hev := []; rev := []; nofuel := false; acked := [] |}.
Definition add_ok (n : ni) (op : rop) o :=
  {| oks := oks o ++ [op_id op]; fails := fails o; fatal := fatal o; hev := hev o; rev := rev o; nofuel := nofuel o;
     acked := acked o ++ [(n, op)] |}.
Definition add_fail i o := {| oks := oks o; fails := fails o ++ [i]; fatal := fatal o; hev := hev o; rev := rev o; nofuel := nofuel o; acked := acked o |}.
Definition add_hev (l : list hevent) o := {| oks := oks o; fails := fails o; fatal := fatal o; hev := hev o ++ l; rev := rev o; nofuel := nofuel o; acked := acked o |}.
Definition add_rev (l : list revent) o := {| oks := oks o; fails := fails o; fatal := fatal o; hev := hev o; rev := rev o ++ l; nofuel := nofuel o; acked := acked o |}.
Definition set_fatal o := {| oks := oks o; fails := fails o; fatal := true; hev := hev o; rev := rev o; nofuel := nofuel o; acked := acked o |}.
Definition set_nofuel o := {| oks := oks o; fails := fails o; fatal := fatal o; hev := hev o; rev := rev o; nofuel := true; acked := acked o |}.

Definition is_hooked (r : rib) (n : ni) : bool := match nget n (nis r) with Some s => hooked s | None => false end.
Definition hk (r : rib) (n : ni) (e : hevent) : list hevent := if is_hooked r n then [e] else [].

(* ---- AddXXX for one entry in network instance n ---- *)
Inductive tryres := Err | NotYet | Installed (r : rib) (h : list hevent) (rv : list revent).

Definition has_nh (r : rib) (n : ni) (i : N) : bool :=
  match nget n (nis r) with Some s => nmem i (tabh s) | None => false end.
Definition has_grp (r : rib) (n : ni) (g : N) : bool :=
  match nget n (nis r) with Some s => nmem g (tabg s) | None => false end.

Definition same_ref (a b : top) : bool := (t_ni a =? t_ni b) && (t_nhg a =? t_nhg b).

Definition try_add_top (r : rib) (n : ni) (s : nistate) (explicit : bool)
           (t : tkind) (k : N) (kvalid : bool) (p : option top) : tryres :=
  match p with
  | None => Err                                              (* nil inner message *)
  | Some pl =>
    if negb (key_ok t k kvalid) || t_bad pl then Err else     (* schema validation (candidateRIB) *)
    let orig := nget k (get_top t s) in
    if explicit && negb (nmem k (get_top t s)) then Err else  (* explicit REPLACE of a missing entry *)
    if t_nhg pl =? 0 then Err else                            (* canResolve: zero / unset group *)
    let '(tn, tg) := target n pl in
    if negb (has_ni r tn) then Err else                       (* unknown group network instance *)
    if negb (has_grp r tn tg) then NotYet else
    let r1 := upd_ni n (fun s' => set_top t (nset k pl (get_top t s')) s') r in
    (* handleReferences *)
    let r2 := match orig with
              | Some o =>
                if same_ref o pl then r1
                else let '(on, og) := target n o in
                     let r1' := upd_ni on (fun s' => set_rcg (dec og (rcg s')) s') r1 in
                     upd_ni tn (fun s' => set_rcg (inc tg (rcg s')) s') r1'
              | None => upd_ni tn (fun s' => set_rcg (inc tg (rcg s')) s') r1
              end in
    Installed r2 (hk r n (HAdd n (STop t k pl)))
              (if res_hooked r then [REv true n t k (nis r2)] else [])
  end.

Definition members (v : variant) (g : grp) : list N :=
  if fixF8 v then map fst (dedup_nhs (g_nhs g)) else map fst (g_nhs g).

Definition try_add_grp (v : variant) (r : rib) (n : ni) (s : nistate) (explicit : bool)
           (id : N) (p : option grp) : tryres :=
  match p with
  | None => Err
  | Some pl =>
    if g_bad pl then Err else
    let orig := nget id (tabg s) in
    if explicit && negb (nmem id (tabg s)) then Err else
    if id =? 0 then Err else
    match g_nhs pl with
    | [] => Err                                              (* empty group *)
    | _ =>
      if existsb (fun iw => fst iw =? 0) (g_nhs pl) then Err else
      if negb (forallb (fun iw => has_nh r n (fst iw)) (g_nhs pl)) then NotYet else
      let r1 := upd_ni n (fun s' => set_tabg (nset id (norm_grp pl) (tabg s')) s') r in
      (* handleNHGReferences: increment the new members, then decrement the old ones *)
      let r2 := upd_ni n (fun s' => set_rch (fold_left (fun m i => inc i m) (members v pl) (rch s')) s') r1 in
      let r3 := match orig with
                | Some o => upd_ni n (fun s' => set_rch (fold_left (fun m i => dec i m) (map fst (g_nhs o)) (rch s')) s') r2
                | None => r2
                end in
      Installed r3 (hk r n (HAdd n (SGrp id (norm_grp pl)))) []
    end
  end.

Definition try_add_nh (r : rib) (n : ni) (s : nistate) (explicit : bool) (idx : N) (p : option nhp) : tryres :=
  match p with
  | None => Err
  | Some pl =>
    if h_bad pl then Err else
    if explicit && negb (nmem idx (tabh s)) then Err else
    if idx =? 0 then Err else
    Installed (upd_ni n (fun s' => set_tabh (nset idx pl (tabh s')) s') r) (hk r n (HAdd n (SNh idx pl))) []
  end.

Definition try_install (v : variant) (r : rib) (n : ni) (o : rop) : tryres :=
  match nget n (nis r) with
  | None => Err
  | Some s =>
    let explicit := match op_kind o with REPLACE => true | _ => false end in
    match op_entry o with
    | ETop t k kv p => try_add_top r n s explicit t k kv p
    | EGrp id p => try_add_grp v r n s explicit id p
    | ENh idx p => try_add_nh r n s explicit idx p
    | ENone => Err
    end
  end.

Section Cascade.
  Variable v : variant.
  (* Go map iteration order of the held-operation map: any permutation *)
  Variable ord : amap (ni * rop) -> amap (ni * rop).

  (* addEntryInternal (rib.go:470-620); state = (rib, results so far, install stack) *)
  Fixpoint aei (fuel : nat) (st : rib * out * list N) (n : ni) (o : rop) : rib * out * list N :=
    let '(r, acc, stack) := st in
    match fuel with
    | O => (r, set_nofuel acc, stack)
    | S f =>
      if existsb (N.eqb (op_id o)) stack then st else
      match try_install v r n o with
      | Err => ((if fixF5 v then set_pend (ndel (op_id o) (pend r)) r else r), add_fail (op_id o) acc,
                if fixF5 v then op_id o :: stack else stack)
      | NotYet =>
        if nofwd r then (r, add_fail (op_id o) acc, stack)
        else (set_pend (nset (op_id o) (n, o) (pend r)) r, acc, stack)
      | Installed r' h rv =>
        let r'' := set_pend (ndel (op_id o) (pend r')) r' in
        fold_left (fun st' e => aei f st' (fst (snd e)) (snd (snd e)))
                  (ord (pend r''))
                  (r'', add_rev rv (add_hev h (add_ok n o acc)), op_id o :: stack)
      end
    end.

  (* AddEntry (rib.go:450-462) *)
  Definition add_entry (r : rib) (n : ni) (o : rop) : rib * out :=
    if (n =? 0) || negb (has_ni r n) then (r, set_fatal out0) else
    match op_entry o with
    | ENone => (r, set_fatal out0)
    | _ => let '(r', acc, _) := aei (S (length (pend r))) (r, out0, []) n o in (r', acc)
    end.
End Cascade.

(* ---- DeleteEntry (rib.go:767-873) ---- *)
Definition W32 : N := 4294967296.
Definition delete_entry (v : variant) (r : rib) (n : ni) (o : rop) : rib * out :=
  match nget n (nis r) with
  | None => (r, set_fatal out0)
  | Some s =>
    match op_entry o with
    | ETop t k kv _ =>
      if fixF6 v && negb (key_ok t k kv) then (r, add_fail (op_id o) out0) else
      let k := match t with TL => if fixF6 v then k else k mod W32 | _ => k end in
      let de := nget k (get_top t s) in
      let r1 := upd_ni n (fun s' => set_top t (ndel k (get_top t s')) s') r in
      let r2 := match de with
                | Some d => let '(tn, tg) := target n d in
                            upd_ni tn (fun s' => set_rcg (dec tg (rcg s')) s') r1
                | None => r1
                end in
      let h := hk r n (HDel n (KTop t k) (option_map (STop t k) de)) in
      let rv := match de with
                | Some _ => if res_hooked r then [REv false n t k (nis r2)] else []
                | None => []
                end in
      (r2, add_rev rv (add_hev h (add_ok n o out0)))
    | EGrp id _ =>
      if id =? 0 then (r, add_fail (op_id o) out0) else
      match nget id (tabg s) with
      | None => (r, add_hev (hk r n (HDel n (KGrp id) None)) (add_ok n o out0))
      | Some g =>
        if 0 <? cnt (rcg s) id then (r, add_fail (op_id o) out0) else
        let r1 := upd_ni n (fun s' => set_tabg (ndel id (tabg s')) s') r in
        let r2 := upd_ni n (fun s' => set_rch (fold_left (fun m i => dec i m) (map fst (g_nhs g)) (rch s')) s') r1 in
        (r2, add_hev (hk r n (HDel n (KGrp id) (Some (SGrp id g)))) (add_ok n o out0))
      end
    | ENh idx _ =>
      if idx =? 0 then (r, add_fail (op_id o) out0) else
      match nget idx (tabh s) with
      | None => (r, add_hev (hk r n (HDel n (KNh idx) None)) (add_ok n o out0))
      | Some h =>
        if 0 <? cnt (rch s) idx then (r, add_fail (op_id o) out0) else
        (upd_ni n (fun s' => set_tabh (ndel idx (tabh s')) s') r,
         add_hev (hk r n (HDel n (KNh idx) (Some (SNh idx h)))) (add_ok n o out0))
      end
    | ENone => (r, set_fatal out0)
    end
  end.

(* ---- Flush (rib.go:2437-2525) ---- *)
Fixpoint has_dup (l : list N) : bool :=
  match l with [] => false | x :: tl => existsb (N.eqb x) tl || has_dup tl end.

Definition flush_top (t : tkind) (n : ni) (r : rib) : rib * list hevent :=
  match nget n (nis r) with
  | None => (r, [])
  | Some s =>
    let r1 := fold_left (fun r' kv => let '(tn, tg) := target n (snd kv) in
                                      upd_ni tn (fun s' => set_rcg (dec tg (rcg s')) s') r')
                        (get_top t s) r in
    (upd_ni n (fun s' => set_top t [] s') r1,
     if hooked s then map (fun kv => HDel n (KTop t (fst kv)) (Some (STop t (fst kv) (snd kv)))) (get_top t s) else [])
  end.

Definition flush_ni (v : variant) (n : ni) (r : rib) : rib * list hevent * bool :=
  match nget n (nis r) with
  | None => (r, [], false)
  | Some s0 =>
    let '(r1, h4) := flush_top T4 n r in
    let '(r2, h6) := flush_top T6 n r1 in
    let '(r3, hl) := flush_top TL n r2 in
    let backups := flat_map (fun kv => if g_bk (snd kv) =? 0 then [] else [g_bk (snd kv)]) (tabg s0) in
    let errs := if fixF7 v then false
                else has_dup backups || existsb (fun b => negb (nmem b (tabg s0))) backups in
    (* every group is removed (backup groups first), each decrementing its members' counters *)
    let r4 := upd_ni n (fun s' => set_rch (fold_left (fun m kv => fold_left (fun m' i => dec i m') (map fst (g_nhs (snd kv))) m)
                                                     (tabg s0) (rch s')) s') r3 in
    let r5 := upd_ni n (fun s' => set_tabh [] (set_tabg [] s')) r4 in
    let hg := if hooked s0 then map (fun kv => HDel n (KGrp (fst kv)) (Some (SGrp (fst kv) (snd kv)))) (tabg s0) else [] in
    let hh := if hooked s0 then map (fun kv => HDel n (KNh (fst kv)) (Some (SNh (fst kv) (snd kv)))) (tabh s0) else [] in
    (r5, h4 ++ h6 ++ hl ++ hg ++ hh, errs)
  end.

Definition flush (v : variant) (l : list ni) (r : rib) : rib * list hevent * bool :=
  fold_left (fun acc n => let '(r', h, e) := acc in
                          let '(r'', h', e') := flush_ni v n r' in (r'', h ++ h', e || e'))
            l (r, [], false).

(* ---- configuration ---- *)
Definition add_network_instance (v : variant) (n : ni) (r : rib) : rib :=
  if has_ni r n then r else set_nis (nis r ++ [(n, ni_empty (fixF15 v && rib_hooked r))]) r.
Definition set_post_change_hook (r : rib) : rib :=
  {| nis := map (fun kv => (fst kv, set_hooked true (snd kv))) (nis r); dflt := dflt r; pend := pend r;
     nofwd := nofwd r; rib_hooked := true; res_hooked := res_hooked r |}.
Definition set_resolved_hook (r : rib) : rib :=
  {| nis := nis r; dflt := dflt r; pend := pend r; nofwd := nofwd r; rib_hooked := rib_hooked r; res_hooked := true |}.
