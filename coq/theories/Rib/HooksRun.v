(* C16 correspondence: running the RIB model on recorded histories and comparing the notifications it
   emits with the callbacks the implementation made (used by the generated cases files).  No proofs. *)
From Coq Require Import List Bool NArith.
From GV.Base Require Import Alist U128 Op.
From GV.Rib Require Import Model Run Spec Hooks.
Import ListNotations.
Open Scope N_scope.

(* ---- equality of notifications ---- *)
Definition sentry_eqb (a b : sentry) : bool :=
  match a, b with
  | STop t k p, STop t' k' p' => tkind_eqb t t' && (k =? k') && top_eqb p p'
  | SGrp i p, SGrp i' p' => (i =? i') && grp_eqb p p'
  | SNh i p, SNh i' p' => (i =? i') && nhp_eqb p p'
  | _, _ => false
  end.
Definition hevent_eqb (a b : hevent) : bool :=
  match a, b with
  | HAdd n e, HAdd n' e' => (n =? n') && sentry_eqb e e'
  | HDel n k (Some e), HDel n' k' (Some e') => (n =? n') && skey_eqb k k' && sentry_eqb e e'
  | HDel n k None, HDel n' k' None => (n =? n') && skey_eqb k k'
  | _, _ => false
  end.
(* a DELETE callback for a key that was not installed gets a typed nil struct: the table is known, the
   key is not *)
Definition key_kind0 (k : skey) : skey :=
  match k with KTop t _ => KTop t 0 | KGrp _ => KGrp 0 | KNh _ => KNh 0 end.
Definition canon_hev (e : hevent) : hevent :=
  match e with HDel n k None => HDel n (key_kind0 k) None | _ => e end.

(* multiset equality *)
Fixpoint remove1 {A} (eqb : A -> A -> bool) (x : A) (l : list A) : option (list A) :=
  match l with
  | [] => None
  | y :: tl => if eqb x y then Some tl else match remove1 eqb x tl with Some r => Some (y :: r) | None => None end
  end.
Fixpoint mset_eqb {A} (eqb : A -> A -> bool) (l1 l2 : list A) : bool :=
  match l1 with
  | [] => match l2 with [] => true | _ => false end
  | x :: tl => match remove1 eqb x l2 with Some l2' => mset_eqb eqb tl l2' | None => false end
  end.

(* ---- resolved-entry notifications as observed: (add?, instance, table, key, tables of the snapshot) ---- *)
Record rvobs := { rv_add : bool; rv_ni : ni; rv_t : tkind; rv_k : N; rv_snap : amap obs_ni }.
Definition mk_rv a n t k s := {| rv_add := a; rv_ni := n; rv_t := t; rv_k := k; rv_snap := s |}.
Definition snap_obs (m : amap nistate) : amap obs_ni :=
  sort_by fst (map (fun kv => (fst kv, obs_of_ni (set_rch [] (set_rcg [] (snd kv))))) m).
Definition rvobs_of (e : revent) : rvobs :=
  match e with REv a n t k snap => mk_rv a n t k (snap_obs snap) end.
Definition rvobs_eqb (a b : rvobs) : bool :=
  Bool.eqb (rv_add a) (rv_add b) && (rv_ni a =? rv_ni b) && tkind_eqb (rv_t a) (rv_t b) && (rv_k a =? rv_k b)
  && state_eqb (rv_snap a) (rv_snap b).

(* ---- running a history ---- *)
Fixpoint htrace (v : variant) (r : rib) (h : list rinput) : list (robs * list hevent * list revent) * rib :=
  match h with
  | [] => ([], r)
  | i :: tl => let '(r', o, fe) := rstep v r i in
               let '(os, rf) := htrace v r' tl in ((obs_of r' o fe, hev o, rev o) :: os, rf)
  end.

(* what the implementation did at one step: answers, post-change callbacks, resolved-entry callbacks *)
Definition hstep_eqb (m : robs * list hevent * list revent) (i : robs * list hevent * list rvobs) : bool :=
  let '(mo, mh, mr) := m in
  let '(io, ih, ir) := i in
  robs_eqb mo io && mset_eqb hevent_eqb (map canon_hev mh) ih && mset_eqb rvobs_eqb (map rvobs_of mr) ir.

Record hcase := { hc_nofwd : bool; hc_hist : list rinput; hc_obs : list (robs * list hevent * list rvobs);
                  hc_final : amap obs_ni }.
Definition mk_hcase nf h o f := {| hc_nofwd := nf; hc_hist := h; hc_obs := o; hc_final := f |}.
Fixpoint list_eqb2 {A B} (eqb : A -> B -> bool) (l1 : list A) (l2 : list B) : bool :=
  match l1, l2 with
  | [], [] => true
  | a :: t1, b :: t2 => eqb a b && list_eqb2 eqb t1 t2
  | _, _ => false
  end.
Definition hcase_ok_v (v : variant) (c : hcase) : bool :=
  let '(os, rf) := htrace v (rib0 1 (hc_nofwd c)) (hc_hist c) in
  list_eqb2 hstep_eqb os (hc_obs c) && state_eqb (state_obs rf) (hc_final c).
Definition hmismatches (cs : list hcase) : list N := bad_indices (hcase_ok_v v_fixed) cs 0.
(* the pinned tree's behaviour (used to validate the defect flags against a tree without the repairs) *)
Definition hmismatches_tree (cs : list hcase) : list N := bad_indices (hcase_ok_v v_tree) cs 0.
(* only the hook-inheritance repair missing *)
Definition v_noF15 := {| fixF5 := true; fixF6 := true; fixF7 := true; fixF8 := true; fixF15 := false |}.
Definition hmismatches_noF15 (cs : list hcase) : list N := bad_indices (hcase_ok_v v_noF15) cs 0.

(* diagnostic *)
Definition hmodel (c : hcase) :=
  let '(os, rf) := htrace v_fixed (rib0 1 (hc_nofwd c)) (hc_hist c) in
  (map (fun x => let '(o, h, r) := x in (o, map canon_hev h, map rvobs_of r)) os, state_obs rf).
