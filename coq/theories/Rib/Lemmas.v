(* Basic facts about the RIB model: reading through updates, counter algebra,
   well-formedness (distinct keys everywhere) and its preservation. *)
From Coq Require Import List Bool NArith Lia.
From GV.Base Require Import Alist U128 Op.
From GV.Rib Require Import Model.
Import ListNotations.
Open Scope N_scope.

Lemma Neqb_spec : forall a b : N, reflect (a = b) (a =? b).
Proof. intros; apply N.eqb_spec. Qed.
#[export] Hint Resolve Neqb_spec : core.

(* ---- alist over N ---- *)
Lemma nget_nset_same {V} k (v : V) l : nget k (nset k v l) = Some v.
Proof. unfold nget, nset. apply aget_aset_same; auto. Qed.
Lemma nget_nset_other {V} k k' (v : V) l : k <> k' -> nget k (nset k' v l) = nget k l.
Proof. unfold nget, nset. apply aget_aset_other; auto. Qed.
Lemma nget_nset {V} k k' (v : V) l : nget k (nset k' v l) = if k' =? k then Some v else nget k l.
Proof.
  destruct (N.eqb_spec k' k) as [->|H]; [apply nget_nset_same|apply nget_nset_other; congruence].
Qed.
Lemma nget_ndel_same {V} k (l : amap V) : nget k (ndel k l) = None.
Proof. unfold nget, ndel. apply aget_adel_same; auto. Qed.
Lemma nget_ndel_other {V} k k' (l : amap V) : k <> k' -> nget k (ndel k' l) = nget k l.
Proof. unfold nget, ndel. apply aget_adel_other; auto. Qed.
Lemma nget_ndel {V} k k' (l : amap V) : nget k (ndel k' l) = if k' =? k then None else nget k l.
Proof.
  destruct (N.eqb_spec k' k) as [->|H]; [apply nget_ndel_same|apply nget_ndel_other; congruence].
Qed.
Lemma nmem_nset {V} k k' (v : V) l : nmem k (nset k' v l) = (k' =? k) || nmem k l.
Proof. unfold nmem. rewrite nget_nset. destruct (k' =? k); reflexivity. Qed.
Lemma nmem_ndel {V} k k' (l : amap V) : nmem k (ndel k' l) = negb (k' =? k) && nmem k l.
Proof. unfold nmem. rewrite nget_ndel. destruct (k' =? k); reflexivity. Qed.
Lemma wf_nset {V} k (v : V) l : wf l -> wf (nset k v l).
Proof. apply wf_aset; auto. Qed.
Lemma wf_ndel {V} k (l : amap V) : wf l -> wf (ndel k l).
Proof. intros H. unfold ndel. apply wf_adel; auto. Qed.
Lemma nget_nil {V} k : @nget V k [] = None.
Proof. reflexivity. Qed.

(* ---- counter algebra (N subtraction truncates at 0, like the saturating decrement) ---- *)
Lemma cnt_inc i j m : cnt (inc i m) j = if i =? j then cnt m i + 1 else cnt m j.
Proof. unfold inc, cnt at 1. rewrite nget_nset. destruct (i =? j); reflexivity. Qed.
Lemma cnt_dec i j m : cnt (dec i m) j = if i =? j then cnt m i - 1 else cnt m j.
Proof.
  unfold dec. destruct (cnt m i =? 0) eqn:E.
  - apply N.eqb_eq in E. destruct (N.eqb_spec i j) as [->|]; auto. rewrite E. reflexivity.
  - unfold cnt at 1. rewrite nget_nset. destruct (i =? j); reflexivity.
Qed.
Lemma wf_inc i m : wf m -> wf (inc i m).
Proof. apply wf_nset. Qed.
Lemma wf_dec i m : wf m -> wf (dec i m).
Proof. unfold dec. destruct (_ =? 0); auto. apply wf_nset. Qed.
Lemma wf_fold_inc l m : wf m -> wf (fold_left (fun m i => inc i m) l m).
Proof. revert m; induction l as [|i l IH]; cbn; auto. intros m H. apply IH, wf_inc, H. Qed.
Lemma wf_fold_dec l m : wf m -> wf (fold_left (fun m i => dec i m) l m).
Proof. revert m; induction l as [|i l IH]; cbn; auto. intros m H. apply IH, wf_dec, H. Qed.

(* ---- setters: projections ---- *)
Lemma get_set_top t t' m s : get_top t (set_top t' m s) = if match t, t' with T4, T4 | T6, T6 | TL, TL => true | _, _ => false end then m else get_top t s.
Proof. destruct t, t'; reflexivity. Qed.
Lemma get_set_top_same t m s : get_top t (set_top t m s) = m.
Proof. destruct t; reflexivity. Qed.
Lemma tabg_set_top t m s : tabg (set_top t m s) = tabg s. Proof. destruct t; reflexivity. Qed.
Lemma tabh_set_top t m s : tabh (set_top t m s) = tabh s. Proof. destruct t; reflexivity. Qed.
Lemma rcg_set_top t m s : rcg (set_top t m s) = rcg s. Proof. destruct t; reflexivity. Qed.
Lemma rch_set_top t m s : rch (set_top t m s) = rch s. Proof. destruct t; reflexivity. Qed.
Lemma hooked_set_top t m s : hooked (set_top t m s) = hooked s. Proof. destruct t; reflexivity. Qed.

(* ---- reading through upd_ni ---- *)
Lemma nis_upd_ni a f r n :
  nget n (nis (upd_ni a f r)) =
  if a =? n then match nget a (nis r) with Some s => Some (f s) | None => None end else nget n (nis r).
Proof.
  unfold upd_ni. destruct (nget a (nis r)) as [s|] eqn:E; cbn [nis set_nis].
  - rewrite nget_nset. reflexivity.
  - destruct (N.eqb_spec a n) as [->|]; auto.
Qed.
Lemma pend_upd_ni a f r : pend (upd_ni a f r) = pend r.
Proof. unfold upd_ni. destruct (nget a (nis r)); reflexivity. Qed.
Lemma nofwd_upd_ni a f r : nofwd (upd_ni a f r) = nofwd r.
Proof. unfold upd_ni. destruct (nget a (nis r)); reflexivity. Qed.
Lemma res_hooked_upd_ni a f r : res_hooked (upd_ni a f r) = res_hooked r.
Proof. unfold upd_ni. destruct (nget a (nis r)); reflexivity. Qed.
Lemma rib_hooked_upd_ni a f r : rib_hooked (upd_ni a f r) = rib_hooked r.
Proof. unfold upd_ni. destruct (nget a (nis r)); reflexivity. Qed.
Lemma has_ni_upd a f r n : has_ni (upd_ni a f r) n = has_ni r n.
Proof.
  unfold has_ni, nmem. rewrite nis_upd_ni. destruct (N.eqb_spec a n) as [->|]; auto.
  destruct (nget n (nis r)); auto.
Qed.
Lemma wf_upd_ni a f r : wf (nis r) -> wf (nis (upd_ni a f r)).
Proof. intros H. unfold upd_ni. destruct (nget a (nis r)); cbn; auto. apply wf_nset; auto. Qed.
Lemma nis_set_pend m r : nis (set_pend m r) = nis r. Proof. reflexivity. Qed.
Lemma has_ni_set_pend m r n : has_ni (set_pend m r) n = has_ni r n. Proof. reflexivity. Qed.
Lemma keys_upd_ni a f r : map fst (nis (upd_ni a f r)) = map fst (nis (upd_ni a (fun s => s) r)).
Proof. unfold upd_ni. destruct (nget a (nis r)); reflexivity. Qed.

(* total accessor: the state of an instance, empty if it does not exist *)
Definition sget (r : rib) (n : ni) : nistate :=
  match nget n (nis r) with Some s => s | None => ni_empty false end.
Lemma sget_upd_ni a f r n :
  sget (upd_ni a f r) n = if (a =? n) && has_ni r a then f (sget r a) else sget r n.
Proof.
  unfold sget, has_ni, nmem. rewrite nis_upd_ni.
  destruct (N.eqb_spec a n) as [->|]; cbn [andb]; auto.
  destruct (nget n (nis r)); reflexivity.
Qed.
Lemma sget_set_pend m r n : sget (set_pend m r) n = sget r n. Proof. reflexivity. Qed.
Lemma sget_some r n s : nget n (nis r) = Some s -> sget r n = s.
Proof. unfold sget. intros ->. reflexivity. Qed.
Lemma has_ni_some r n s : nget n (nis r) = Some s -> has_ni r n = true.
Proof. unfold has_ni, nmem. intros ->. reflexivity. Qed.
Lemma has_ni_true r n : has_ni r n = true -> nget n (nis r) = Some (sget r n).
Proof. unfold has_ni, nmem, sget. destruct (nget n (nis r)); [reflexivity|discriminate]. Qed.
Lemma has_grp_sget r n g : has_grp r n g = nmem g (tabg (sget r n)).
Proof. unfold has_grp, sget. destruct (nget n (nis r)); reflexivity. Qed.
Lemma has_nh_sget r n i : has_nh r n i = nmem i (tabh (sget r n)).
Proof. unfold has_nh, sget. destruct (nget n (nis r)); reflexivity. Qed.

(* ---- well-formedness: distinct keys in every association list; stored groups have distinct members ---- *)
Definition wf_grp (g : grp) : Prop := NoDup (map fst (g_nhs g)).
Definition wf_ni (s : nistate) : Prop :=
  wf (tab4 s) /\ wf (tab6 s) /\ wf (tabl s) /\ wf (tabg s) /\ wf (tabh s) /\ wf (rcg s) /\ wf (rch s)
  /\ (forall id g, nget id (tabg s) = Some g -> wf_grp g).
Definition WF (r : rib) : Prop :=
  wf (nis r) /\ wf (pend r) /\ forall n s, nget n (nis r) = Some s -> wf_ni s.

Lemma wf_ni_empty h : wf_ni (ni_empty h).
Proof. unfold wf_ni; cbn. repeat split; try apply wf_nil. intros id g H; discriminate. Qed.
Lemma WF_sget r n : WF r -> wf_ni (sget r n).
Proof.
  intros (_ & _ & H). unfold sget. destruct (nget n (nis r)) eqn:E; [eapply H; eauto|apply wf_ni_empty].
Qed.
Lemma wf_get_top t s : wf_ni s -> wf (get_top t s).
Proof. intros (H4 & H6 & HL & _). destruct t; assumption. Qed.

Lemma WF_rib0 d nf : WF (rib0 d nf).
Proof.
  unfold rib0, WF; cbn. split; [|split].
  - constructor; [intros []|constructor].
  - apply wf_nil.
  - intros m s H. unfold nget, aget in H; cbn in H. destruct (m =? d); inversion H; subst. apply wf_ni_empty.
Qed.

Lemma WF_upd_ni a f r : WF r -> (forall s, wf_ni s -> wf_ni (f s)) -> WF (upd_ni a f r).
Proof.
  intros (H1 & H2 & H3) Hf. split; [|split].
  - apply wf_upd_ni; assumption.
  - rewrite pend_upd_ni; assumption.
  - intros n s. rewrite nis_upd_ni. destruct (a =? n).
    + destruct (nget a (nis r)) as [s0|] eqn:E; [|discriminate]. intros H; inversion H; subst.
      apply Hf. eapply H3; eauto.
    + apply H3.
Qed.
Lemma WF_set_pend m r : WF r -> wf m -> WF (set_pend m r).
Proof. intros (H1 & H2 & H3) Hm. split; [|split]; assumption. Qed.

Lemma wf_ni_set_top t m s : wf_ni s -> wf m -> wf_ni (set_top t m s).
Proof.
  intros (H4 & H6 & HL & HG & HH & HCG & HCH & HN) Hm.
  destruct t; unfold wf_ni; cbn; repeat split; auto.
Qed.
Lemma wf_ni_set_rcg m s : wf_ni s -> wf m -> wf_ni (set_rcg m s).
Proof. intros (H4 & H6 & HL & HG & HH & HCG & HCH & HN) Hm. unfold wf_ni; cbn; repeat split; auto. Qed.
Lemma wf_ni_set_rch m s : wf_ni s -> wf m -> wf_ni (set_rch m s).
Proof. intros (H4 & H6 & HL & HG & HH & HCG & HCH & HN) Hm. unfold wf_ni; cbn; repeat split; auto. Qed.
Lemma wf_ni_set_tabh m s : wf_ni s -> wf m -> wf_ni (set_tabh m s).
Proof. intros (H4 & H6 & HL & HG & HH & HCG & HCH & HN) Hm. unfold wf_ni; cbn; repeat split; auto. Qed.
Lemma wf_ni_set_tabg m s : wf_ni s -> wf m -> (forall id g, nget id m = Some g -> wf_grp g) -> wf_ni (set_tabg m s).
Proof. intros (H4 & H6 & HL & HG & HH & HCG & HCH & HN) Hm Hg. unfold wf_ni; cbn; repeat split; auto. Qed.

(* dedup_nhs yields distinct member indices *)
Lemma nmem_in_keys {V} k (l : amap V) : nmem k l = true <-> In k (map fst l).
Proof.
  unfold nmem, nget, aget. induction l as [|[k' v] l IH]; cbn; [split; [discriminate|tauto]|].
  destruct (N.eqb_spec k k') as [->|Hn]; cbn.
  - split; auto.
  - rewrite <- IH. destruct (find _ l); split; intros; auto; try discriminate; destruct H; auto; congruence.
Qed.
Lemma dedup_nhs_nodup l : NoDup (map fst (dedup_nhs l)).
Proof.
  induction l as [|[i w] l IH]; cbn; [constructor|].
  destruct (nmem i (dedup_nhs l)) eqn:E; auto. cbn. constructor; auto.
  intros Hin. apply nmem_in_keys in Hin. congruence.
Qed.
Lemma dedup_nhs_keys l i : In i (map fst (dedup_nhs l)) <-> In i (map fst l).
Proof.
  induction l as [|[j w] l IH]; cbn; [tauto|].
  destruct (nmem j (dedup_nhs l)) eqn:E; cbn.
  - apply nmem_in_keys in E. rewrite IH. split; auto. intros [<-|H]; auto. apply IH; assumption.
  - rewrite IH. tauto.
Qed.
Lemma wf_grp_norm g : wf_grp (norm_grp g).
Proof. unfold wf_grp, norm_grp; cbn. apply dedup_nhs_nodup. Qed.
