(* C08: the effect of Flush on the RIB model. *)
From Coq Require Import List Bool NArith Lia.
From GV.Base Require Import Alist U128 Op.
From GV.Rib Require Import Model Lemmas RefDefs RefCount.
Import ListNotations.
Open Scope N_scope.

(* the installed tables of one instance *)
Definition tabs_of (s : nistate) := (tab4 s, tab6 s, tabl s, tabg s, tabh s).
Definition tabs_empty : amap top * amap top * amap top * amap grp * amap nhp := ([], [], [], [], []).

Lemma flush_top_tables t n r : WF r ->
  let r' := fst (flush_top t n r) in
  forall m t', get_top t' (sget r' m) = if (n =? m) && tk_eqb t' t then [] else get_top t' (sget r m).
Proof.
  intros HWF. cbn zeta. intros m t'. rewrite flush_top_dec. destruct (nget n (nis r)) as [s|] eqn:Hs.
  - destruct (dec_targets_spec n (get_top t s) r HWF) as (_ & _ & _ & D4 & D5 & _).
    rewrite sget_upd_ni, D5, (has_ni_some r n s Hs).
    destruct (N.eqb_spec n m) as [->|]; cbn [andb].
    + rewrite get_set_top'. destruct (tk_eqb t' t); [reflexivity|]. rewrite D4. destruct t'; reflexivity.
    + rewrite D4. destruct t'; reflexivity.
  - destruct (N.eqb_spec n m) as [->|]; cbn [andb]; [|reflexivity].
    destruct (tk_eqb t' t); [|reflexivity].
    unfold sget. rewrite Hs. destruct t'; reflexivity.
Qed.

Lemma flush_ni_effect n r : INV r ->
  let res := flush_ni v_fixed n r in
  let r' := fst (fst res) in
  snd res = false
  /\ (forall m, has_ni r' m = has_ni r m)
  /\ pend r' = pend r
  /\ (forall m, tabs_of (sget r' m) = if n =? m then tabs_empty else tabs_of (sget r m)).
Proof.
  intros HI. cbn zeta. unfold flush_ni. destruct (nget n (nis r)) as [s0|] eqn:Hs.
  2:{ cbn [fst snd]. repeat split; try reflexivity. intros m. destruct (N.eqb_spec n m) as [<-|]; [|reflexivity].
      unfold sget. rewrite Hs. reflexivity. }
  pose proof (has_ni_some r n s0 Hs) as Hn.
  pose proof (flush_top_INV T4 n r HI) as H1. pose proof (flush_top_frame T4 n r (proj1 HI)) as (F1a & F1b & F1c).
  pose proof (flush_top_tables T4 n r (proj1 HI)) as T1.
  destruct (flush_top T4 n r) as [r1 h4]. cbn [fst] in *.
  pose proof (flush_top_INV T6 n r1 H1) as H2. pose proof (flush_top_frame T6 n r1 (proj1 H1)) as (F2a & F2b & F2c).
  pose proof (flush_top_tables T6 n r1 (proj1 H1)) as T2.
  destruct (flush_top T6 n r1) as [r2 h6]. cbn [fst] in *.
  pose proof (flush_top_frame TL n r2 (proj1 H2)) as (F3a & F3b & F3c).
  pose proof (flush_top_tables TL n r2 (proj1 H2)) as T3.
  destruct (flush_top TL n r2) as [r3 hl]. cbn [fst snd fixF7 v_fixed] in *.
  split; [reflexivity|]. split; [|split].
  - intros m. rewrite !has_ni_upd, F3a, F2a, F1a. reflexivity.
  - rewrite !pend_upd_ni. congruence.
  - intros m. unfold tabs_of. rewrite !sget_upd_ni, has_ni_upd.
    assert (Hn3 : has_ni r3 n = true) by (rewrite F3a, F2a, F1a; exact Hn). rewrite Hn3.
    destruct (N.eqb_spec n m) as [<-|Hne]; cbn [andb].
    + rewrite N.eqb_refl. cbn [andb tab4 tab6 tabl tabg tabh set_tabh set_tabg set_rch].
      pose proof (T3 n T4) as A4. pose proof (T3 n T6) as A6. pose proof (T3 n TL) as AL.
      rewrite N.eqb_refl in *. cbn [andb tk_eqb get_top] in *.
      pose proof (T2 n T4) as B4. pose proof (T2 n T6) as B6. rewrite N.eqb_refl in *. cbn [andb tk_eqb get_top] in *.
      pose proof (T1 n T4) as C4. rewrite N.eqb_refl in *. cbn [andb tk_eqb get_top] in *.
      rewrite A4, B4, C4, A6, B6, AL. reflexivity.
    + pose proof (T3 m T4) as A4. pose proof (T3 m T6) as A6. pose proof (T3 m TL) as AL.
      pose proof (T2 m T4) as B4. pose proof (T2 m T6) as B6. pose proof (T2 m TL) as BL.
      pose proof (T1 m T4) as C4. pose proof (T1 m T6) as C6. pose proof (T1 m TL) as CL.
      destruct (N.eqb_spec n m); [congruence|]. cbn [andb get_top] in *.
      destruct (F3b m) as (G3 & H3 & _). destruct (F2b m) as (G2 & H2' & _). destruct (F1b m) as (G1 & H1' & _).
      rewrite A4, B4, C4, A6, B6, C6, AL, BL, CL, G3, G2, G1, H3, H2', H1'. reflexivity.
Qed.

Definition inlN (x : N) (l : list N) : bool := existsb (N.eqb x) l.

(* an authorised flush of the instances l: reports success, empties exactly those instances, leaves the
   tables of every other instance and the held operations as they were, and keeps the invariant *)
Theorem flush_effect l : forall r, INV r ->
  let res := flush v_fixed l r in
  let r' := fst (fst res) in
  snd res = false
  /\ INV r'
  /\ (forall m, has_ni r' m = has_ni r m)
  /\ pend r' = pend r
  /\ (forall m, tabs_of (sget r' m) = if inlN m l then tabs_empty else tabs_of (sget r m)).
Proof.
  unfold flush.
  assert (G : forall l (acc : rib * list hevent * bool), INV (fst (fst acc)) ->
             let res := fold_left (fun acc n => let '(r', h, e) := acc in
                                               let '(r'', h', e') := flush_ni v_fixed n r' in (r'', h ++ h', e || e')) l acc in
             snd res = snd acc /\ INV (fst (fst res))
             /\ (forall m, has_ni (fst (fst res)) m = has_ni (fst (fst acc)) m)
             /\ pend (fst (fst res)) = pend (fst (fst acc))
             /\ (forall m, tabs_of (sget (fst (fst res)) m) = if inlN m l then tabs_empty else tabs_of (sget (fst (fst acc)) m))).
  { clear l. induction l as [|n l IH]; intros [[r h] e] HI; cbn [fold_left fst snd] in *.
    - split; [reflexivity|]. split; [exact HI|]. split; [reflexivity|]. split; reflexivity.
    - pose proof (flush_ni_effect n r HI) as (E1 & E2 & E3 & E4). pose proof (flush_ni_INV n r HI) as HI'.
      destruct (flush_ni v_fixed n r) as [[r'' h'] e']. cbn [fst snd] in *. subst e'.
      specialize (IH (r'', h ++ h', e || false)). cbn [fst snd] in IH. destruct (IH HI') as (I1 & I2 & I3 & I4 & I5).
      split; [rewrite I1; apply orb_false_r|]. split; [exact I2|]. split; [intros m; rewrite I3; apply E2|].
      split; [congruence|]. intros m. rewrite I5. unfold inlN; cbn [existsb]. fold (inlN m l).
      destruct (inlN m l); [rewrite orb_true_r; reflexivity|]. rewrite orb_false_r, E4.
      rewrite (N.eqb_sym m n). reflexivity. }
  intros r HI. apply (G l (r, [], false)). exact HI.
Qed.
