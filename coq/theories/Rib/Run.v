(* Running the RIB model on recorded histories and comparing with what the implementation
   did (used by the generated cases files).  No proofs. *)
From Coq Require Import List Bool NArith.
From GV.Base Require Import Alist U128 Op.
From GV.Rib Require Import Model.
Import ListNotations.
Open Scope N_scope.

(* ---- sorting by key (insertion sort) ---- *)
Fixpoint ins_by {A} (key : A -> N) (x : A) (l : list A) : list A :=
  match l with
  | [] => [x]
  | y :: tl => if key x <=? key y then x :: l else y :: ins_by key x tl
  end.
Definition sort_by {A} (key : A -> N) (l : list A) : list A := fold_right (ins_by key) [] l.
Definition sortN (l : list N) : list N := sort_by (fun x => x) l.

(* ---- the order the implementation could have used, reconstructed from what it returned ---- *)
Definition memN (x : N) (l : list N) : bool := existsb (N.eqb x) l.
Definition canon (hfails hoks : list N) (l : amap (ni * rop)) : amap (ni * rop) :=
  let pick ids := flat_map (fun i => match nget i l with Some x => [(i, x)] | None => [] end) ids in
  pick hfails ++ pick hoks
  ++ sort_by fst (filter (fun kv => negb (memN (fst kv) (hfails ++ hoks))) l).

(* ---- inputs ---- *)
Inductive rinput :=
| IAdd (n : ni) (o : rop) (hint_fails hint_oks : list N)
| IDel (n : ni) (o : rop)
| IFlush (l : list ni)
| IAddNI (n : ni)
| ISetHook
| ISetResHook.

Record robs := { b_oks : list N; b_fails : list N; b_fatal : bool; b_pend : list N; b_ferr : bool }.
Definition mk_robs o f ft p fe := {| b_oks := o; b_fails := f; b_fatal := ft; b_pend := p; b_ferr := fe |}.

Definition pend_ids (r : rib) : list N := sortN (map fst (pend r)).

Definition rstep (v : variant) (r : rib) (i : rinput) : rib * out * bool :=
  match i with
  | IAdd n o hf ho => let '(r', o') := add_entry v (canon hf ho) r n o in (r', o', false)
  | IDel n o => let '(r', o') := delete_entry v r n o in (r', o', false)
  | IFlush l => let '(r', h, e) := flush v l r in (r', add_hev h out0, e)
  | IAddNI n => (add_network_instance v n r, out0, false)
  | ISetHook => (set_post_change_hook r, out0, false)
  | ISetResHook => (set_resolved_hook r, out0, false)
  end.

Definition obs_of (r : rib) (o : out) (fe : bool) : robs :=
  {| b_oks := oks o; b_fails := sortN (fails o); b_fatal := fatal o || nofuel o; b_pend := pend_ids r; b_ferr := fe |}.

Fixpoint rtrace (v : variant) (r : rib) (h : list rinput) : list robs * rib :=
  match h with
  | [] => ([], r)
  | i :: tl => let '(r', o, fe) := rstep v r i in
               let '(os, rf) := rtrace v r' tl in (obs_of r' o fe :: os, rf)
  end.

(* ---- comparing observables ---- *)
Fixpoint list_eqb {A} (eqb : A -> A -> bool) (l1 l2 : list A) : bool :=
  match l1, l2 with
  | [], [] => true
  | a :: t1, b :: t2 => eqb a b && list_eqb eqb t1 t2
  | _, _ => false
  end.
Definition pairN_eqb (a b : N * N) : bool := (fst a =? fst b) && (snd a =? snd b).
Definition top_eqb (a b : top) : bool :=
  (t_nhg a =? t_nhg b) && (t_ni a =? t_ni b) && list_eqb pairN_eqb (t_x a) (t_x b).
Definition grp_eqb (a b : grp) : bool :=
  list_eqb pairN_eqb (sort_by fst (g_nhs a)) (sort_by fst (g_nhs b)) && (g_bk a =? g_bk b) && list_eqb pairN_eqb (g_x a) (g_x b).
Definition nhp_eqb (a b : nhp) : bool := list_eqb pairN_eqb (h_x a) (h_x b).
Definition robs_eqb (a b : robs) : bool :=
  list_eqb N.eqb (b_oks a) (b_oks b) && list_eqb N.eqb (b_fails a) (b_fails b)
  && Bool.eqb (b_fatal a) (b_fatal b) && list_eqb N.eqb (b_pend a) (b_pend b) && Bool.eqb (b_ferr a) (b_ferr b).

(* observable content of one network instance: tables sorted by key, non-zero counters sorted *)
Record obs_ni := { ob4 : amap top; ob6 : amap top; obl : amap top; obg : amap grp; obh : amap nhp;
                   obrcg : amap N; obrch : amap N }.
Definition mk_obs_ni a b c d e f g := {| ob4 := a; ob6 := b; obl := c; obg := d; obh := e; obrcg := f; obrch := g |}.
Definition nz (m : amap N) : amap N := sort_by fst (filter (fun kv => negb (snd kv =? 0)) m).
Definition obs_of_ni (s : nistate) : obs_ni :=
  {| ob4 := sort_by fst (tab4 s); ob6 := sort_by fst (tab6 s); obl := sort_by fst (tabl s);
     obg := sort_by fst (tabg s); obh := sort_by fst (tabh s); obrcg := nz (rcg s); obrch := nz (rch s) |}.
Definition kv_eqb {V} (eqb : V -> V -> bool) (a b : N * V) : bool := (fst a =? fst b) && eqb (snd a) (snd b).
Definition obs_ni_eqb (a b : obs_ni) : bool :=
  list_eqb (kv_eqb top_eqb) (ob4 a) (ob4 b) && list_eqb (kv_eqb top_eqb) (ob6 a) (ob6 b)
  && list_eqb (kv_eqb top_eqb) (obl a) (obl b) && list_eqb (kv_eqb grp_eqb) (obg a) (obg b)
  && list_eqb (kv_eqb nhp_eqb) (obh a) (obh b)
  && list_eqb pairN_eqb (obrcg a) (obrcg b) && list_eqb pairN_eqb (obrch a) (obrch b).
Definition state_obs (r : rib) : amap obs_ni := sort_by fst (map (fun kv => (fst kv, obs_of_ni (snd kv))) (nis r)).
Definition state_eqb (a b : amap obs_ni) : bool := list_eqb (kv_eqb obs_ni_eqb) a b.

(* ---- cases ---- *)
(* forward references disabled?, history, per-step observations of the implementation, final state *)
Record rcase := { c_nofwd : bool; c_hist : list rinput; c_obs : list robs; c_final : amap obs_ni }.
Definition mk_rcase nf h o f := {| c_nofwd := nf; c_hist := h; c_obs := o; c_final := f |}.
Definition rcase_ok_v (v : variant) (c : rcase) : bool :=
  let '(os, rf) := rtrace v (rib0 1 (c_nofwd c)) (c_hist c) in
  list_eqb robs_eqb os (c_obs c) && state_eqb (state_obs rf) (c_final c).
Definition rcase_ok := rcase_ok_v v_fixed.
Fixpoint bad_indices {A} (f : A -> bool) (l : list A) (i : N) : list N :=
  match l with [] => [] | a :: tl => if f a then bad_indices f tl (i + 1) else i :: bad_indices f tl (i + 1) end.
Definition rmismatches (cs : list rcase) : list N := bad_indices rcase_ok cs 0.
(* the pinned tree's behaviour (all defects present): used to validate the model's defect flags *)
Definition rmismatches_tree (cs : list rcase) : list N := bad_indices (rcase_ok_v v_tree) cs 0.

(* diagnostic: what the model produced (printed into replay files on a mismatch) *)
Definition rmodel (c : rcase) := let '(os, rf) := rtrace v_fixed (rib0 1 (c_nofwd c)) (c_hist c) in (os, state_obs rf).
