(* Referrers as witnesses: the sums refs_nhg / refs_nh of RefDefs.v are non-zero exactly when an
   installed entry that points at the group / contains the next-hop EXISTS.  With the counter
   invariant of RefCount.v this turns the DELETE verdicts into the wording of property C03:
   "FAILED exactly when some installed IPv4, IPv6 or MPLS entry in any network instance currently
   points at it" -- for every state reached by any history. *)
From Coq Require Import List Bool NArith Lia PeanoNat.
From GV.Base Require Import Alist U128 Op.
From GV.Rib Require Import Model Lemmas RefDefs RefCount Run.
Import ListNotations.
Open Scope N_scope.

Lemma asum_pos_iff {K V} (f : K * V -> nat) (l : alist K V) :
  asum f l <> 0%nat <-> exists x, In x l /\ f x <> 0%nat.
Proof.
  split.
  - induction l as [|y l IH]; [intros H; exfalso; apply H; reflexivity|].
    rewrite asum_cons. intros H. destruct (Nat.eq_dec (f y) 0) as [E|E].
    + destruct IH as [x [Hx Hf]]; [lia|]. exists x. split; [right; exact Hx|exact Hf].
    + exists y. split; [left; reflexivity|exact E].
  - intros [x [Hx Hf]] Hz. apply Hf. exact (asum_zero f l Hz x Hx).
Qed.

Lemma ind_ne0 b : ind b <> 0%nat <-> b = true.
Proof. destruct b; cbn; split; intros H; try reflexivity; try discriminate; try lia; exfalso; apply H; reflexivity. Qed.

(* an installed top-level entry (table t, key k, payload p) of instance own points at group g of n *)
Definition referrer_of_group (r : rib) (n : ni) (g : N) (own : ni) (t : tkind) (k : N) (p : top) : Prop :=
  has_ni r own = true /\ nget k (get_top t (sget r own)) = Some p /\ target own p = (n, g).
(* an installed group id of instance n lists next-hop i *)
Definition referrer_of_nh (r : rib) (n : ni) (i : N) (id : N) (gp : grp) : Prop :=
  nget id (tabg (sget r n)) = Some gp /\ has_member i gp = true.

Lemma top_refs_pos n g own s t : wf_ni s ->
  top_refs n g own (get_top t s) <> 0%nat <->
  exists k p, nget k (get_top t s) = Some p /\ target own p = (n, g).
Proof.
  intros Hw. unfold top_refs. rewrite asum_pos_iff. split.
  - intros [[k p] [Hin Hf]]. cbn [snd] in Hf. apply ind_ne0 in Hf. apply tgt_is_spec in Hf.
    exists k, p. split; [apply in_nget; [apply wf_get_top; exact Hw|exact Hin]|exact Hf].
  - intros [k [p [Hg Ht]]]. exists (k, p). split; [apply nget_in; exact Hg|].
    cbn [snd]. apply ind_ne0. unfold tgt_is. rewrite Ht. cbn [fst snd]. rewrite !N.eqb_refl. reflexivity.
Qed.

Theorem refs_nhg_pos_iff r n g : WF r ->
  refs_nhg r n g <> 0%nat <-> exists own t k p, referrer_of_group r n g own t k p.
Proof.
  intros HWF. unfold refs_nhg. rewrite asum_pos_iff. split.
  - intros [[own s] [Hin Hf]].
    assert (Hs : nget own (nis r) = Some s) by (apply in_nget; [apply HWF|exact Hin]).
    assert (Hws : wf_ni s) by (destruct HWF as (_ & _ & H); eapply H; eauto).
    unfold ni_refs in Hf; cbn [fst snd] in Hf.
    assert (Hone : exists t, top_refs n g own (get_top t s) <> 0%nat).
    { destruct (Nat.eq_dec (top_refs n g own (tab4 s)) 0) as [E4|E4]; [|exists T4; exact E4].
      destruct (Nat.eq_dec (top_refs n g own (tab6 s)) 0) as [E6|E6]; [|exists T6; exact E6].
      exists TL. cbn [get_top]. lia. }
    destruct Hone as [t Ht]. apply (top_refs_pos n g own s t Hws) in Ht. destruct Ht as [k [p [Hg Hp]]].
    exists own, t, k, p. unfold referrer_of_group. rewrite (sget_some r own s Hs).
    split; [eapply has_ni_some; eauto|]. split; assumption.
  - intros [own [t [k [p (Hn & Hg & Hp)]]]].
    unfold has_ni, nmem in Hn. destruct (nget own (nis r)) as [s|] eqn:Hs; [|discriminate].
    rewrite (sget_some r own s Hs) in Hg.
    assert (Hws : wf_ni s) by (destruct HWF as (_ & _ & H); eapply H; eauto).
    exists (own, s). split; [apply nget_in; exact Hs|].
    unfold ni_refs; cbn [fst snd].
    assert (Ht : top_refs n g own (get_top t s) <> 0%nat)
      by (apply (top_refs_pos n g own s t Hws); exists k, p; split; assumption).
    destruct t; cbn [get_top] in Ht; lia.
Qed.

Theorem refs_nh_pos_iff r n i : WF r ->
  refs_nh r n i <> 0%nat <-> exists id gp, referrer_of_nh r n i id gp.
Proof.
  intros HWF. unfold refs_nh. rewrite asum_pos_iff.
  pose proof (WF_sget r n HWF) as (_ & _ & _ & Hg & _).
  split.
  - intros [[id gp] [Hin Hf]]. cbn [snd] in Hf. apply ind_ne0 in Hf.
    exists id, gp. split; [apply in_nget; assumption|exact Hf].
  - intros [id [gp [Hg' Hm]]]. exists (id, gp). split; [apply nget_in; exact Hg'|].
    cbn [snd]. apply ind_ne0. exact Hm.
Qed.

(* ---- C03 in the property's own words, over every reachable state ---- *)
Section Reachable.
  Variables (h : list rinput) (d : N) (nofwd : bool).
  Let r := snd (rtrace v_fixed (rib0 d nofwd) h).

  Lemma reach_INV : INV r.
  Proof. exact (reachable_INV h (rib0 d nofwd) (INV_rib0 d nofwd)). Qed.

  Theorem reachable_delete_group_failed_iff n o id p :
    has_ni r n = true -> op_entry o = EGrp id p -> id <> 0 ->
    let res := delete_entry v_fixed r n o in
    (fails (snd res) = [op_id o] /\ oks (snd res) = [] /\ fst res = r
       <-> grp_installed r n id = true /\ exists own t k pl, referrer_of_group r n id own t k pl)
    /\ (oks (snd res) = [op_id o] /\ fails (snd res) = [] /\ grp_installed (fst res) n id = false
       <-> ~ (grp_installed r n id = true /\ exists own t k pl, referrer_of_group r n id own t k pl)).
  Proof.
    intros Hn Ho Hid res. pose proof reach_INV as HI.
    pose proof (delete_grp_verdict r n o id p HI Hn Ho Hid) as V. cbv zeta in V. fold res in V.
    pose proof (refs_nhg_pos_iff r n id (proj1 HI)) as P.
    destruct (grp_installed r n id) eqn:Eg; cbn [andb] in V.
    - destruct (Nat.eqb (refs_nhg r n id) 0) eqn:Ez; cbn [negb] in V.
      + apply Nat.eqb_eq in Ez. destruct V as (V1 & V2 & V3).
        assert (NP : ~ exists own t k pl, referrer_of_group r n id own t k pl) by (intros X; apply P in X; lia).
        split; split.
        * intros (F & _). rewrite V2 in F. discriminate.
        * intros (_ & X). contradiction.
        * intros _ (_ & X). contradiction.
        * intros _. auto.
      + apply Nat.eqb_neq in Ez. destruct V as (V1 & V2 & V3). apply P in Ez.
        split; split.
        * intros _. split; [reflexivity|exact Ez].
        * intros _. auto.
        * intros (O & _). rewrite V2 in O. discriminate.
        * intros X. exfalso. apply X. split; [reflexivity|exact Ez].
    - destruct V as (V1 & V2 & V3). split; split.
      + intros (F & _). rewrite V2 in F. discriminate.
      + intros (X & _). discriminate.
      + intros _ (X & _). discriminate.
      + intros _. auto.
  Qed.

  Theorem reachable_delete_nexthop_failed_iff n o idx p :
    has_ni r n = true -> op_entry o = ENh idx p -> idx <> 0 ->
    let res := delete_entry v_fixed r n o in
    (fails (snd res) = [op_id o] /\ oks (snd res) = [] /\ fst res = r
       <-> nh_installed r n idx = true /\ exists id gp, referrer_of_nh r n idx id gp)
    /\ (oks (snd res) = [op_id o] /\ fails (snd res) = [] /\ nh_installed (fst res) n idx = false
       <-> ~ (nh_installed r n idx = true /\ exists id gp, referrer_of_nh r n idx id gp)).
  Proof.
    intros Hn Ho Hid res. pose proof reach_INV as HI.
    pose proof (delete_nh_verdict r n o idx p HI Hn Ho Hid) as V. cbv zeta in V. fold res in V.
    pose proof (refs_nh_pos_iff r n idx (proj1 HI)) as P.
    destruct (nh_installed r n idx) eqn:Eg; cbn [andb] in V.
    - destruct (Nat.eqb (refs_nh r n idx) 0) eqn:Ez; cbn [negb] in V.
      + apply Nat.eqb_eq in Ez. destruct V as (V1 & V2 & V3).
        assert (NP : ~ exists id gp, referrer_of_nh r n idx id gp) by (intros X; apply P in X; lia).
        split; split.
        * intros (F & _). rewrite V2 in F. discriminate.
        * intros (_ & X). contradiction.
        * intros _ (_ & X). contradiction.
        * intros _. auto.
      + apply Nat.eqb_neq in Ez. destruct V as (V1 & V2 & V3). apply P in Ez.
        split; split.
        * intros _. split; [reflexivity|exact Ez].
        * intros _. auto.
        * intros (O & _). rewrite V2 in O. discriminate.
        * intros X. exfalso. apply X. split; [reflexivity|exact Ez].
    - destruct V as (V1 & V2 & V3). split; split.
      + intros (F & _). rewrite V2 in F. discriminate.
      + intros (X & _). discriminate.
      + intros _ (X & _). discriminate.
      + intros _. auto.
  Qed.
End Reachable.
