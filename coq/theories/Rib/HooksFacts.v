(* C16: the fold of the post-change notifications mirrors the installed tables; resolved-entry
   snapshots contain / lack the announced key.  Proofs about Rib/Model.v + Rib/Hooks.v. *)
From Coq Require Import List Bool NArith Lia Setoid Morphisms.
From GV.Base Require Import Alist U128 Op.
From GV.Rib Require Import Model Lemmas Run Spec Refine Hooks.
Import ListNotations.
Open Scope N_scope.

(* ---- keys ---- *)
Lemma tkind_eqb_spec a b : reflect (a = b) (tkind_eqb a b).
Proof. destruct a, b; cbn; constructor; congruence. Qed.
Lemma skey_eqb_spec a b : reflect (a = b) (skey_eqb a b).
Proof.
  destruct a as [t k|i|i], b as [t' k'|j|j]; cbn; try (constructor; congruence).
  - destruct (tkind_eqb_spec t t') as [->|]; cbn; [|constructor; congruence].
    destruct (N.eqb_spec k k') as [->|]; constructor; congruence.
  - destruct (N.eqb_spec i j) as [->|]; constructor; congruence.
  - destruct (N.eqb_spec i j) as [->|]; constructor; congruence.
Qed.
Lemma skey_eqb_refl k : skey_eqb k k = true.
Proof. destruct (skey_eqb_spec k k); congruence. Qed.

(* ---- reading the consumer's tables ---- *)
Lemma tlook_put e x k' : tlook (put_sentry e x) k' = if skey_eqb (sentry_key e) k' then Some e else tlook x k'.
Proof.
  destruct e as [t k p|id p|i p], k' as [t' k'|id'|i']; cbn [put_sentry sentry_key skey_eqb tlook sg sh sp_set_g sp_set_h];
    try reflexivity; try (destruct t; reflexivity).
  - destruct t, t'; cbn [tkind_eqb andb sp_top sp_set_top s4 s6 sl]; try reflexivity;
      rewrite nget_nset; destruct (N.eqb_spec k k') as [->|]; reflexivity.
  - rewrite nget_nset. destruct (N.eqb_spec id id') as [->|]; reflexivity.
  - rewrite nget_nset. destruct (N.eqb_spec i i') as [->|]; reflexivity.
Qed.
Lemma tlook_del k x k' : tlook (del_skey k x) k' = if skey_eqb k k' then None else tlook x k'.
Proof.
  destruct k as [t k|id|i], k' as [t' k'|id'|i']; cbn [del_skey skey_eqb tlook sg sh sp_set_g sp_set_h];
    try reflexivity; try (destruct t; reflexivity).
  - destruct t, t'; cbn [tkind_eqb andb sp_top sp_set_top s4 s6 sl]; try reflexivity;
      rewrite nget_ndel; destruct (k =? k'); reflexivity.
  - rewrite nget_ndel. destruct (id =? id'); reflexivity.
  - rewrite nget_ndel. destruct (i =? i'); reflexivity.
Qed.
Lemma tlook_key x k e : tlook x k = Some e -> sentry_key e = k.
Proof.
  destruct k as [t k|id|i]; cbn [tlook];
    match goal with |- context [nget ?a ?m] => destruct (nget a m) end; cbn; intros H; inversion H; reflexivity.
Qed.
Lemma tlook_tabs0 k : tlook tabs0 k = None.
Proof. destruct k as [t k|id|i]; [destruct t|..]; reflexivity. Qed.
Lemma tlook_tabs_or0 sp n k : tlook (tabs_or0 sp n) k = slook sp n k.
Proof. unfold tabs_or0, slook. destruct (nget n sp); [reflexivity|apply tlook_tabs0]. Qed.
Lemma slook_nset n y (sp : spec) n' k' : slook (nset n y sp) n' k' = if n =? n' then tlook y k' else slook sp n' k'.
Proof. unfold slook. rewrite nget_nset. destruct (n =? n'); reflexivity. Qed.
Lemma slook_in_ni n f sp n' k' :
  slook (in_ni n f sp) n' k' =
  if n =? n' then match nget n sp with Some x => tlook (f x) k' | None => None end else slook sp n' k'.
Proof. unfold slook. rewrite nget_in_ni. destruct (n =? n'); [destruct (nget n sp)|]; reflexivity. Qed.
Lemma slook_abs r n s k : nget n (nis r) = Some s -> slook (abs r) n k = tlook (tabs_of s) k.
Proof. intros H. unfold slook. rewrite nget_abs, H. reflexivity. Qed.
Lemma slook_abs_none r n k : nget n (nis r) = None -> slook (abs r) n k = None.
Proof. intros H. unfold slook. rewrite nget_abs, H. reflexivity. Qed.

Lemma slook_fold_hook sp ev n' k' :
  slook (fold_hook sp ev) n' k' =
  match ev with
  | HAdd n e => if (n =? n') && skey_eqb (sentry_key e) k' then Some e else slook sp n' k'
  | HDel n _ (Some e) => if (n =? n') && skey_eqb (sentry_key e) k' then None else slook sp n' k'
  | HDel _ _ None => slook sp n' k'
  end.
Proof.
  destruct ev as [n e|n k [e|]]; cbn [fold_hook]; [| |reflexivity]; rewrite slook_nset;
    (destruct (N.eqb_spec n n') as [<-|]; cbn [andb]; [|reflexivity]).
  - rewrite tlook_put, tlook_tabs_or0. reflexivity.
  - rewrite tlook_del, tlook_tabs_or0. reflexivity.
Qed.

(* ---- mirror_eq ---- *)
#[export] Instance mirror_eq_equiv : Equivalence mirror_eq.
Proof.
  split.
  - intros a n k; reflexivity.
  - intros a b H n k; symmetry; apply H.
  - intros a b c H1 H2 n k; rewrite H1; apply H2.
Qed.
Lemma sp_eq_mirror_eq a b : sp_eq a b -> mirror_eq a b.
Proof. intros H n k. apply slook_sp_eq. exact H. Qed.
Lemma fold_hook_proper a b ev : mirror_eq a b -> mirror_eq (fold_hook a ev) (fold_hook b ev).
Proof. intros H n k. rewrite !slook_fold_hook, !H. reflexivity. Qed.
Lemma fold_hooks_proper l : forall a b, mirror_eq a b -> mirror_eq (fold_left fold_hook l a) (fold_left fold_hook l b).
Proof. induction l as [|ev l IH]; intros a b H; cbn [fold_left]; [exact H|]. apply IH, fold_hook_proper, H. Qed.
Lemma ev_ok_proper a b ev : mirror_eq a b -> ev_ok a ev -> ev_ok b ev.
Proof. intros H. destruct ev as [n e|n k e]; cbn; [auto|]. rewrite H. auto. Qed.
Lemma evs_ok_proper l : forall a b, mirror_eq a b -> evs_ok a l -> evs_ok b l.
Proof.
  induction l as [|ev l IH]; intros a b H; cbn [evs_ok]; [auto|]. intros [H1 H2]. split.
  - eapply ev_ok_proper; eauto.
  - eapply IH; [|exact H2]. apply fold_hook_proper, H.
Qed.
Lemma evs_ok_app l1 : forall sp l2, evs_ok sp (l1 ++ l2) <-> evs_ok sp l1 /\ evs_ok (fold_left fold_hook l1 sp) l2.
Proof. induction l1 as [|ev l1 IH]; intros sp l2; cbn; [tauto|]. rewrite IH. tauto. Qed.

(* a DELETE that carries nothing, for a key the consumer does not hold, changes nothing; neither does
   removing a key that is not held *)
Lemma fold_hook_del_none sp n k : fold_hook sp (HDel n k None) = sp.
Proof. reflexivity. Qed.
Lemma fold_hook_del_absent sp n k e : slook sp n (sentry_key e) = None -> mirror_eq (fold_hook sp (HDel n k (Some e))) sp.
Proof.
  intros H n' k'. rewrite slook_fold_hook. destruct (N.eqb_spec n n') as [<-|]; cbn [andb]; [|reflexivity].
  destruct (skey_eqb_spec (sentry_key e) k') as [<-|]; [symmetry; exact H|reflexivity].
Qed.

(* ---- r' is r after the notifications l, each DELETE carrying what was held ---- *)
Definition mirrors (r : rib) (l : list hevent) (r' : rib) : Prop :=
  mirror_eq (abs r') (fold_left fold_hook l (abs r)) /\ evs_ok (abs r) l.
Lemma mirrors_nil r r' : mirror_eq (abs r') (abs r) -> mirrors r [] r'.
Proof. intros H. split; [exact H|exact I]. Qed.
Lemma mirrors_app r l1 r1 l2 r2 : mirrors r l1 r1 -> mirrors r1 l2 r2 -> mirrors r (l1 ++ l2) r2.
Proof.
  intros [A1 A2] [B1 B2]. split.
  - rewrite fold_left_app, B1. apply fold_hooks_proper. exact A1.
  - apply evs_ok_app. split; [exact A2|]. eapply evs_ok_proper; [exact A1|exact B2].
Qed.

(* ---- all_hooked ---- *)
Lemma AH_upd_ni a f r : all_hooked r -> (forall s, hooked (f s) = hooked s) -> all_hooked (upd_ni a f r).
Proof.
  intros [H1 H2] Hf. split; [rewrite rib_hooked_upd_ni; exact H1|].
  intros n s. rewrite nis_upd_ni. destruct (a =? n); [|apply H2].
  destruct (nget a (nis r)) as [s0|] eqn:E; [|discriminate]. intros H; inversion H; subst.
  rewrite Hf. eapply H2; eauto.
Qed.
Lemma AH_set_pend m r : all_hooked r -> all_hooked (set_pend m r).
Proof. intros H; exact H. Qed.
Ltac ah_upd := repeat (apply AH_upd_ni; [|intros ?; try apply hooked_set_top; reflexivity]).
Lemma hk_hooked r n s ev : all_hooked r -> nget n (nis r) = Some s -> hk r n ev = [ev].
Proof. intros [_ H] En. unfold hk, is_hooked. rewrite En, (H n s En). reflexivity. Qed.
Lemma AH_hooked r n s : all_hooked r -> nget n (nis r) = Some s -> hooked s = true.
Proof. intros [_ H] En. eapply H; eauto. Qed.

(* ---- one installation ---- *)
Lemma try_install_hev v r n o r' h rv :
  try_install v r n o = Installed r' h rv ->
  exists s e, nget n (nis r) = Some s /\ h = hk r n (HAdd n e) /\ forall x, put_entry (op_entry o) x = put_sentry e x.
Proof.
  unfold try_install. destruct (nget n (nis r)) as [s|] eqn:En; [|discriminate].
  destruct (op_entry o) as [t k kv p|id p|i p|]; [| | |discriminate].
  - unfold try_add_top. destruct p as [pl|]; [|discriminate].
    destruct (negb (key_ok t k kv) || t_bad pl); [discriminate|].
    destruct (_ && negb (nmem k (get_top t s))); [discriminate|].
    destruct (t_nhg pl =? 0); [discriminate|].
    destruct (target n pl) as [tn tg].
    destruct (negb (has_ni r tn)); [discriminate|].
    destruct (negb (has_grp r tn tg)); [discriminate|].
    intros H; inversion H; subst; clear H. exists s, (STop t k pl). repeat split.
  - unfold try_add_grp. destruct p as [pl|]; [|discriminate].
    destruct (g_bad pl); [discriminate|].
    destruct (_ && negb (nmem id (tabg s))); [discriminate|].
    destruct (id =? 0); [discriminate|].
    destruct (g_nhs pl) as [|iw l] eqn:Enhs; [discriminate|].
    destruct (existsb _ (iw :: l)); [discriminate|].
    destruct (forallb _ (iw :: l)); cbn [negb]; [|discriminate].
    intros H; inversion H; subst; clear H. exists s, (SGrp id (norm_grp pl)). repeat split.
  - unfold try_add_nh. destruct p as [pl|]; [|discriminate].
    destruct (h_bad pl); [discriminate|].
    destruct (_ && negb (nmem i (tabh s))); [discriminate|].
    destruct (i =? 0); [discriminate|].
    intros H; inversion H; subst; clear H. exists s, (SNh i pl). repeat split.
Qed.

Lemma try_install_AH v r n o r' h rv : all_hooked r -> try_install v r n o = Installed r' h rv -> all_hooked r'.
Proof.
  intros A. unfold try_install. destruct (nget n (nis r)) as [s|] eqn:En; [|discriminate].
  destruct (op_entry o) as [t k kv p|id p|i p|]; [| | |discriminate].
  - unfold try_add_top. destruct p as [pl|]; [|discriminate].
    destruct (negb (key_ok t k kv) || t_bad pl); [discriminate|].
    destruct (_ && negb (nmem k (get_top t s))); [discriminate|].
    destruct (t_nhg pl =? 0); [discriminate|].
    destruct (target n pl) as [tn tg].
    destruct (negb (has_ni r tn)); [discriminate|].
    destruct (negb (has_grp r tn tg)); [discriminate|].
    intros H; inversion H; subst; clear H.
    destruct (nget k (get_top t s)) as [o0|]; [destruct (same_ref o0 pl); [|destruct (target n o0) as [on og]]|];
      ah_upd; exact A.
  - unfold try_add_grp. destruct p as [pl|]; [|discriminate].
    destruct (g_bad pl); [discriminate|].
    destruct (_ && negb (nmem id (tabg s))); [discriminate|].
    destruct (id =? 0); [discriminate|].
    destruct (g_nhs pl) as [|iw l] eqn:Enhs; [discriminate|].
    destruct (existsb _ (iw :: l)); [discriminate|].
    destruct (forallb _ (iw :: l)); cbn [negb]; [|discriminate].
    intros H; inversion H; subst; clear H.
    destruct (nget id (tabg s)) as [o0|]; ah_upd; exact A.
  - unfold try_add_nh. destruct p as [pl|]; [|discriminate].
    destruct (h_bad pl); [discriminate|].
    destruct (_ && negb (nmem i (tabh s))); [discriminate|].
    destruct (i =? 0); [discriminate|].
    intros H; inversion H; subst; clear H. ah_upd; exact A.
Qed.

Lemma try_install_mirrors v r n o r' h rv :
  all_hooked r -> try_install v r n o = Installed r' h rv -> mirrors r h r'.
Proof.
  intros A H. destruct (try_install_hev _ _ _ _ _ _ _ H) as (s & e & En & -> & Hput).
  apply try_install_abs in H. destruct H as [H1 _].
  rewrite (hk_hooked r n s _ A En). split; [|cbn; auto].
  intros n' k'. cbn [fold_left]. rewrite (slook_sp_eq _ _ n' k' H1), slook_in_ni, slook_fold_hook, nget_abs, En.
  cbn [option_map]. destruct (N.eqb_spec n n') as [<-|]; cbn [andb]; [|reflexivity].
  rewrite Hput, tlook_put, (slook_abs r n s _ En). reflexivity.
Qed.

(* ---- the AddEntry cascade: a generic induction over what it does to (state, results) ---- *)
Section CascadeInd.
  Variable v : variant.
  Variable ord : amap (ni * rop) -> amap (ni * rop).
  Variable P : rib -> out -> Prop.
  Hypothesis P_pend : forall r acc m, P r acc -> P (set_pend m r) acc.
  Hypothesis P_fail : forall r acc i, P r acc -> P r (add_fail i acc).
  Hypothesis P_nofuel : forall r acc, P r acc -> P r (set_nofuel acc).
  Hypothesis P_inst : forall r acc n o r' h rv,
    P r acc -> try_install v r n o = Installed r' h rv -> P r' (add_rev rv (add_hev h (add_ok n o acc))).

  Lemma aei_P fuel : forall st n o,
    P (fst (fst st)) (snd (fst st)) ->
    P (fst (fst (aei v ord fuel st n o))) (snd (fst (aei v ord fuel st n o))).
  Proof.
    induction fuel as [|f IH]; intros [[r acc] stack] n o H; cbn [aei fst snd] in *.
    - apply P_nofuel, H.
    - destruct (existsb (N.eqb (op_id o)) stack); [exact H|].
      destruct (try_install v r n o) as [| |r1 h rv] eqn:Ei; cbn [fst snd].
      + destruct (fixF5 v); [apply P_pend|]; apply P_fail, H.
      + destruct (nofwd r); cbn [fst snd]; [apply P_fail, H|apply P_pend, H].
      + remember (ord _) as l eqn:El. clear El.
        match goal with |- context [fold_left _ l ?s] => remember s as st0 eqn:Es end.
        assert (H0 : P (fst (fst st0)) (snd (fst st0))).
        { subst st0. cbn [fst snd]. apply P_pend. eapply P_inst; eauto. }
        clear Es. revert st0 H0. induction l as [|e l IHl]; intros st0 H0; cbn [fold_left]; [exact H0|].
        apply IHl. apply IH. exact H0.
  Qed.

  Hypothesis P_fatal : forall r, P r out0 -> P r (set_fatal out0).
  Lemma add_entry_P r n o : P r out0 -> P (fst (add_entry v ord r n o)) (snd (add_entry v ord r n o)).
  Proof.
    intros H. unfold add_entry. destruct ((n =? 0) || negb (has_ni r n)); [apply P_fatal, H|].
    pose proof (aei_P (S (length (pend r))) (r, out0, []) n o H) as H1.
    destruct (aei v ord (S (length (pend r))) (r, out0, []) n o) as [[r1 acc1] stk]. cbn [fst snd] in H1.
    destruct (op_entry o); first [exact H1|apply P_fatal, H].
  Qed.
End CascadeInd.

Lemma add_entry_mirrors v ord r n o :
  all_hooked r ->
  mirrors r (hev (snd (add_entry v ord r n o))) (fst (add_entry v ord r n o)) /\ all_hooked (fst (add_entry v ord r n o)).
Proof.
  intros A.
  apply (add_entry_P v ord (fun r' acc => mirrors r (hev acc) r' /\ all_hooked r')).
  - intros r1 acc m H; exact H.
  - intros r1 acc i H; exact H.
  - intros r1 acc H; exact H.
  - intros r1 acc n1 o1 r2 h rv [H1 H2] Hi. split; [|eapply try_install_AH; eauto].
    cbn [hev add_rev add_hev add_ok]. eapply mirrors_app; [exact H1|]. eapply try_install_mirrors; eauto.
  - intros r1 H; exact H.
  - split; [apply mirrors_nil; reflexivity|exact A].
Qed.

(* ---- DeleteEntry ---- *)
Lemma mirrors_del r n s k e r' :
  nget n (nis r) = Some s -> e = tlook (tabs_of s) k ->
  mirror_eq (abs r') (in_ni n (del_skey k) (abs r)) -> mirrors r [HDel n k e] r'.
Proof.
  intros En -> H1. split; [|cbn; split; [apply slook_abs; exact En|exact I]].
  intros n' k'. cbn [fold_left]. rewrite (H1 n' k'), slook_in_ni, slook_fold_hook, nget_abs, En.
  cbn [option_map]. destruct (tlook (tabs_of s) k) as [e|] eqn:Et.
  - rewrite (tlook_key _ _ _ Et). destruct (N.eqb_spec n n') as [<-|]; cbn [andb]; [|reflexivity].
    rewrite tlook_del, (slook_abs r n s _ En). reflexivity.
  - destruct (N.eqb_spec n n') as [<-|]; [|reflexivity].
    rewrite tlook_del, (slook_abs r n s _ En). destruct (skey_eqb_spec k k') as [<-|]; [symmetry; exact Et|reflexivity].
Qed.
Lemma in_ni_del_absent r n s k :
  nget n (nis r) = Some s -> tlook (tabs_of s) k = None -> mirror_eq (abs r) (in_ni n (del_skey k) (abs r)).
Proof.
  intros En Et n' k'. rewrite slook_in_ni, nget_abs, En. cbn [option_map].
  destruct (N.eqb_spec n n') as [<-|]; [|reflexivity].
  rewrite tlook_del, (slook_abs r n s _ En). destruct (skey_eqb_spec k k') as [<-|]; [exact Et|reflexivity].
Qed.
Lemma delete_entry_mirrors v r n o :
  all_hooked r ->
  mirrors r (hev (snd (delete_entry v r n o))) (fst (delete_entry v r n o)) /\ all_hooked (fst (delete_entry v r n o)).
Proof.
  intros A. unfold delete_entry.
  destruct (nget n (nis r)) as [s|] eqn:En; cbn [fst snd]; [|split; [apply mirrors_nil; reflexivity|exact A]].
  destruct (op_entry o) as [t k kv p|id p|i p|]; cbn [fst snd].
  - destruct (fixF6 v && negb (key_ok t k kv)); cbn [fst snd]; [split; [apply mirrors_nil; reflexivity|exact A]|].
    cbv zeta.
    remember (match t with TL => if fixF6 v then k else k mod W32 | _ => k end) as k1 eqn:Ek. clear Ek.
    cbn [fst snd hev add_rev add_hev add_ok out0 app]. rewrite (hk_hooked r n s _ A En). split.
    + apply (mirrors_del r n s (KTop t k1)); [exact En|cbn [tlook]; rewrite sp_top_tabs_of; reflexivity|].
      apply sp_eq_mirror_eq.
      pose proof (abs_upd_top n t (ndel k1) r) as H1. cbv beta in H1.
      destruct (nget k1 (get_top t s)) as [d|]; [destruct (target n d) as [tn tg]|]; rewrite ?abs_upd_rcg; exact H1.
    + destruct (nget k1 (get_top t s)) as [d|]; [destruct (target n d) as [tn tg]|]; ah_upd; exact A.
  - destruct (id =? 0); cbn [fst snd]; [split; [apply mirrors_nil; reflexivity|exact A]|].
    destruct (nget id (tabg s)) as [g|] eqn:Eg.
    + destruct (0 <? cnt (rcg s) id); cbn [fst snd]; [split; [apply mirrors_nil; reflexivity|exact A]|].
      cbn [hev add_rev add_hev add_ok out0 app]. rewrite (hk_hooked r n s _ A En). split; [|ah_upd; exact A].
      apply (mirrors_del r n s (KGrp id)); [exact En|cbn [tlook tabs_of sg]; rewrite Eg; reflexivity|].
      apply sp_eq_mirror_eq. rewrite abs_upd_rch. exact (abs_upd_tabg n (ndel id) r).
    + cbn [fst snd hev add_rev add_hev add_ok out0 app]. rewrite (hk_hooked r n s _ A En). split; [|exact A].
      apply (mirrors_del r n s (KGrp id)); [exact En|cbn [tlook tabs_of sg]; rewrite Eg; reflexivity|].
      apply (in_ni_del_absent r n s); [exact En|cbn [tlook tabs_of sg]; rewrite Eg; reflexivity].
  - destruct (i =? 0); cbn [fst snd]; [split; [apply mirrors_nil; reflexivity|exact A]|].
    destruct (nget i (tabh s)) as [g|] eqn:Eg.
    + destruct (0 <? cnt (rch s) i); cbn [fst snd]; [split; [apply mirrors_nil; reflexivity|exact A]|].
      cbn [hev add_rev add_hev add_ok out0 app]. rewrite (hk_hooked r n s _ A En). split; [|ah_upd; exact A].
      apply (mirrors_del r n s (KNh i)); [exact En|cbn [tlook tabs_of sh]; rewrite Eg; reflexivity|].
      apply sp_eq_mirror_eq. exact (abs_upd_tabh n (ndel i) r).
    + cbn [fst snd hev add_rev add_hev add_ok out0 app]. rewrite (hk_hooked r n s _ A En). split; [|exact A].
      apply (mirrors_del r n s (KNh i)); [exact En|cbn [tlook tabs_of sh]; rewrite Eg; reflexivity|].
      apply (in_ni_del_absent r n s); [exact En|cbn [tlook tabs_of sh]; rewrite Eg; reflexivity].
  - split; [apply mirrors_nil; reflexivity|exact A].
Qed.

(* ---- Flush: one DELETE per installed entry, each carrying the entry ---- *)
Definition dels (n : ni) (l : list sentry) : list hevent := map (fun e => HDel n (sentry_key e) (Some e)) l.
Definition entries_of (x : tabs) : list sentry :=
  map (fun kv => STop T4 (fst kv) (snd kv)) (s4 x) ++ map (fun kv => STop T6 (fst kv) (snd kv)) (s6 x)
  ++ map (fun kv => STop TL (fst kv) (snd kv)) (sl x)
  ++ map (fun kv => SGrp (fst kv) (snd kv)) (sg x) ++ map (fun kv => SNh (fst kv) (snd kv)) (sh x).

Lemma slook_fold_dels n l : forall sp n' k',
  slook (fold_left fold_hook (dels n l) sp) n' k' =
  if (n =? n') && existsb (fun e => skey_eqb (sentry_key e) k') l then None else slook sp n' k'.
Proof.
  induction l as [|e l IH]; intros sp n' k'; cbn [dels map fold_left existsb].
  - rewrite andb_false_r. reflexivity.
  - fold (dels n l). rewrite IH, slook_fold_hook.
    destruct (n =? n'), (skey_eqb (sentry_key e) k'), (existsb _ l); reflexivity.
Qed.
Lemma evs_ok_dels n l : forall sp,
  (forall e, In e l -> slook sp n (sentry_key e) = Some e) -> NoDup (map sentry_key l) -> evs_ok sp (dels n l).
Proof.
  induction l as [|e l IH]; intros sp H ND; cbn [dels map evs_ok]; [exact I|]. fold (dels n l).
  inversion ND as [|? ? Hni ND']; subst. split.
  - cbn [ev_ok]. apply H. left; reflexivity.
  - apply IH; [|exact ND']. intros e' Hin. rewrite slook_fold_hook, N.eqb_refl. cbn [andb].
    destruct (skey_eqb_spec (sentry_key e) (sentry_key e')) as [Heq|].
    + exfalso. apply Hni. rewrite Heq. apply in_map. exact Hin.
    + apply H. right. exact Hin.
Qed.

Lemma in_wf_nget {V} k (x : V) (m : amap V) : wf m -> In (k, x) m -> nget k m = Some x.
Proof.
  unfold wf, keys, nget, aget. induction m as [|[k' y] m IH]; cbn; [tauto|]. intros ND [Heq|Hin].
  - inversion Heq; subst. rewrite N.eqb_refl. reflexivity.
  - inversion ND as [|? ? Hni ND']; subst. destruct (N.eqb_spec k k') as [->|].
    + exfalso. apply Hni. change k' with (fst (k', x)). apply in_map. exact Hin.
    + apply IH; assumption.
Qed.
Definition wf_tabs (x : tabs) : Prop := wf (s4 x) /\ wf (s6 x) /\ wf (sl x) /\ wf (sg x) /\ wf (sh x).
Lemma wf_tabs_of s : wf_ni s -> wf_tabs (tabs_of s).
Proof. intros (H4 & H6 & HL & HG & HH & _). repeat split; assumption. Qed.

Lemma entries_complete x k e : tlook x k = Some e -> In e (entries_of x).
Proof.
  unfold entries_of. rewrite !in_app_iff.
  destruct k as [t k|id|i]; cbn [tlook].
  - destruct (nget k (sp_top t x)) as [p|] eqn:E; cbn; [|discriminate]. intros H; inversion H; subst.
    apply (aget_in N.eqb Neqb_spec) in E.
    destruct t; cbn [sp_top] in E; [left|right; left|right; right; left];
      apply in_map_iff; exists (k, p); split; auto.
  - destruct (nget id (sg x)) as [p|] eqn:E; cbn; [|discriminate]. intros H; inversion H; subst.
    apply (aget_in N.eqb Neqb_spec) in E. right; right; right; left. apply in_map_iff; exists (id, p); split; auto.
  - destruct (nget i (sh x)) as [p|] eqn:E; cbn; [|discriminate]. intros H; inversion H; subst.
    apply (aget_in N.eqb Neqb_spec) in E. right; right; right; right. apply in_map_iff; exists (i, p); split; auto.
Qed.
Lemma entries_sound x e : wf_tabs x -> In e (entries_of x) -> tlook x (sentry_key e) = Some e.
Proof.
  intros (H4 & H6 & HL & HG & HH). unfold entries_of. rewrite !in_app_iff, !in_map_iff.
  intros [H|[H|[H|[H|H]]]]; destruct H as [[k p] [<- Hin]]; cbn [fst snd sentry_key tlook sp_top];
    erewrite in_wf_nget; eauto; reflexivity.
Qed.
Lemma NoDup_app_disj {A} (a b : list A) : NoDup a -> NoDup b -> (forall x, In x a -> ~ In x b) -> NoDup (a ++ b).
Proof.
  induction a as [|x a IH]; cbn; intros Ha Hb Hd; [exact Hb|].
  inversion Ha as [|? ? Hni Ha']; subst. constructor.
  - rewrite in_app_iff. intros [H|H]; [exact (Hni H)|exact (Hd x (or_introl eq_refl) H)].
  - apply IH; auto.
Qed.
Lemma NoDup_map_keys {V} (f : N -> skey) (m : amap V) :
  (forall a b, f a = f b -> a = b) -> wf m -> NoDup (map (fun kv => f (fst kv)) m).
Proof.
  intros Hinj. unfold wf, keys. induction m as [|[k x] m IH]; cbn; intros ND; [constructor|].
  inversion ND as [|? ? Hni ND']; subst. constructor; [|apply IH; exact ND'].
  intros Hin. apply in_map_iff in Hin. destruct Hin as [[k' y] [Heq Hin]]. cbn in Heq. apply Hinj in Heq. subst.
  apply Hni. change k with (fst (k, y)). apply in_map. exact Hin.
Qed.
Lemma entries_nodup x : wf_tabs x -> NoDup (map sentry_key (entries_of x)).
Proof.
  intros (H4 & H6 & HL & HG & HH). unfold entries_of. rewrite !map_app, !map_map. cbn [sentry_key fst snd].
  repeat apply NoDup_app_disj;
    try (apply NoDup_map_keys; [intros a b Hab; inversion Hab; reflexivity|assumption]);
    intros y Ha Hb; apply in_map_iff in Ha; destruct Ha as [[k p] [<- _]];
    rewrite ?in_app_iff, ?in_map_iff in Hb;
    repeat (destruct Hb as [Hb|Hb]); destruct Hb as [[k2 p2] [Hb _]]; discriminate.
Qed.

Lemma mirrors_flush r n s0 r' :
  nget n (nis r) = Some s0 -> wf_ni s0 ->
  sp_eq (abs r') (in_ni n (fun _ => tabs0) (abs r)) -> mirrors r (dels n (entries_of (tabs_of s0))) r'.
Proof.
  intros En W H1. split.
  - intros n' k'. rewrite (slook_sp_eq _ _ n' k' H1), slook_in_ni, slook_fold_dels, nget_abs, En. cbn [option_map].
    destruct (N.eqb_spec n n') as [<-|]; cbn [andb]; [|reflexivity]. rewrite tlook_tabs0.
    destruct (existsb _ _) eqn:Ex; [reflexivity|]. rewrite (slook_abs r n s0 _ En).
    destruct (tlook (tabs_of s0) k') as [e|] eqn:Et; [|reflexivity]. exfalso.
    assert (Hex : existsb (fun e0 => skey_eqb (sentry_key e0) k') (entries_of (tabs_of s0)) = true).
    { apply existsb_exists. exists e. split; [eapply entries_complete; eauto|].
      rewrite (tlook_key _ _ _ Et). apply skey_eqb_refl. }
    congruence.
  - apply evs_ok_dels; [|apply entries_nodup, wf_tabs_of, W].
    intros e Hin. rewrite (slook_abs r n s0 _ En). apply entries_sound; [apply wf_tabs_of, W|exact Hin].
Qed.

Lemma tabs_sget_in_ni r r' n f s :
  sp_eq (abs r') (in_ni n f (abs r)) -> nget n (nis r) = Some s ->
  nget n (nis r') = Some (sget r' n) /\ tabs_of (sget r' n) = f (tabs_of s).
Proof.
  intros H En. specialize (H n). rewrite nget_in_ni, N.eqb_refl, !nget_abs, En in H. cbn [option_map] in H.
  unfold sget. destruct (nget n (nis r')) as [s'|]; cbn in H; [|discriminate]. inversion H. auto.
Qed.

Lemma fold_rcg_AH n (l : amap top) : forall r, all_hooked r ->
  all_hooked (fold_left (fun r' kv => let '(tn, tg) := target n (snd kv) in
                                      upd_ni tn (fun s' => set_rcg (dec tg (rcg s')) s') r') l r).
Proof.
  induction l as [|kv l IH]; intros r A; cbn [fold_left]; [exact A|].
  apply IH. destruct (target n (snd kv)) as [tn tg]. ah_upd; exact A.
Qed.
Lemma flush_top_AH t n r : all_hooked r -> all_hooked (fst (flush_top t n r)).
Proof.
  intros A. unfold flush_top. destruct (nget n (nis r)) as [s|]; cbn [fst]; [|exact A].
  apply AH_upd_ni; [apply fold_rcg_AH; exact A|intros ?; apply hooked_set_top].
Qed.
Lemma flush_top_evs t n r s :
  all_hooked r -> nget n (nis r) = Some s ->
  snd (flush_top t n r) = dels n (map (fun kv => STop t (fst kv) (snd kv)) (get_top t s)).
Proof.
  intros A En. unfold flush_top. rewrite En. cbn [snd]. rewrite (AH_hooked r n s A En).
  unfold dels. rewrite map_map. reflexivity.
Qed.

Lemma flush_ni_mirrors v n r :
  WF r -> all_hooked r ->
  mirrors r (snd (fst (flush_ni v n r))) (fst (fst (flush_ni v n r))) /\ all_hooked (fst (fst (flush_ni v n r))).
Proof.
  intros W A. pose proof (flush_ni_abs v n r) as HA. unfold flush_ni in *.
  destruct (nget n (nis r)) as [s0|] eqn:En; cbn [fst snd] in *; [|split; [apply mirrors_nil; reflexivity|exact A]].
  pose proof (flush_top_abs T4 n r) as A1. pose proof (flush_top_evs T4 n r s0 A En) as E1.
  pose proof (flush_top_AH T4 n r A) as H1.
  destruct (flush_top T4 n r) as [r1 h4]. cbn [fst snd] in *.
  destruct (tabs_sget_in_ni _ _ _ _ _ A1 En) as [En1 T1].
  pose proof (flush_top_abs T6 n r1) as A2. pose proof (flush_top_evs T6 n r1 _ H1 En1) as E2.
  pose proof (flush_top_AH T6 n r1 H1) as H2.
  destruct (flush_top T6 n r1) as [r2 h6]. cbn [fst snd] in *.
  destruct (tabs_sget_in_ni _ _ _ _ _ A2 En1) as [En2 T2].
  pose proof (flush_top_abs TL n r2) as A3. pose proof (flush_top_evs TL n r2 _ H2 En2) as E3.
  pose proof (flush_top_AH TL n r2 H2) as H3.
  destruct (flush_top TL n r2) as [r3 hl]. cbn [fst snd] in *.
  split; [|ah_upd; exact H3].
  rewrite (AH_hooked r n s0 A En).
  assert (Ev : h4 ++ h6 ++ hl
               ++ map (fun kv => HDel n (KGrp (fst kv)) (Some (SGrp (fst kv) (snd kv)))) (tabg s0)
               ++ map (fun kv => HDel n (KNh (fst kv)) (Some (SNh (fst kv) (snd kv)))) (tabh s0)
               = dels n (entries_of (tabs_of s0))).
  { subst h4 h6 hl. rewrite <- !sp_top_tabs_of, T2, T1. cbn [sp_top sp_set_top tabs_of s4 s6 sl].
    unfold entries_of, dels. rewrite !map_app, !map_map. reflexivity. }
  rewrite Ev. apply mirrors_flush; [exact En|apply (WF_sget r n) in W; rewrite (sget_some _ _ _ En) in W; exact W|exact HA].
Qed.

Lemma flush_mirrors v l : forall r h0 e0, WF r -> all_hooked r ->
  let res := fold_left (fun acc n => let '(r', h, e) := acc in
                                     let '(r'', h', e') := flush_ni v n r' in (r'', h ++ h', e || e'))
                       l (r, h0, e0) in
  exists new, snd (fst res) = h0 ++ new /\ mirrors r new (fst (fst res)) /\ all_hooked (fst (fst res)).
Proof.
  induction l as [|n l IH]; intros r h0 e0 W A; cbn [fold_left].
  - exists []. rewrite app_nil_r. cbn [fst snd]. split; [reflexivity|]. split; [apply mirrors_nil; reflexivity|exact A].
  - pose proof (flush_ni_mirrors v n r W A) as [M1 A1]. pose proof (flush_ni_WF v n r W) as W1.
    destruct (flush_ni v n r) as [[r2 h2] e2]. cbn [fst snd] in *.
    destruct (IH r2 (h0 ++ h2) (e0 || e2) W1 A1) as (new & E & M & A2). cbv zeta in *.
    exists (h2 ++ new). rewrite E, app_assoc. split; [reflexivity|]. split; [|exact A2].
    eapply mirrors_app; eauto.
Qed.

(* ---- configuration ---- *)
Lemma AH_set_hook r : all_hooked (set_post_change_hook r).
Proof.
  split; [reflexivity|]. intros n s. cbn [nis set_post_change_hook]. rewrite (nget_map (set_hooked true)).
  destruct (nget n (nis r)); cbn; [|discriminate]. intros H; inversion H. reflexivity.
Qed.
Lemma AH_add_ni v n r : fixF15 v = true -> all_hooked r -> all_hooked (add_network_instance v n r).
Proof.
  intros F [A1 A2]. unfold add_network_instance. destruct (has_ni r n); [split; assumption|].
  split; [exact A1|]. intros m s. cbn [nis set_nis]. rewrite nget_app. destruct (nget m (nis r)) as [s'|] eqn:Em.
  - intros H; inversion H; subst. eapply A2; eauto.
  - unfold nget, aget; cbn. destruct (m =? n); cbn; [|discriminate]. intros H; inversion H.
    cbn. rewrite F, A1. reflexivity.
Qed.
Lemma add_ni_mirror_eq v n r : mirror_eq (abs (add_network_instance v n r)) (abs r).
Proof.
  intros n' k'. rewrite add_ni_abs. cbn [spec_apply]. destruct (nmem n (abs r)); [reflexivity|].
  unfold slook. rewrite nget_app. destruct (nget n' (abs r)); [reflexivity|].
  unfold nget, aget; cbn. destruct (n' =? n); cbn; [apply tlook_tabs0|reflexivity].
Qed.

(* ---- one step, then histories: any walk order, any variant that has the repair F15 ---- *)
Lemma rstep_mirrors ordf v r i :
  fixF15 v = true -> WF r -> all_hooked r ->
  mirrors r (hev (snd (fst (rstep_ord ordf v r i)))) (fst (fst (rstep_ord ordf v r i)))
  /\ all_hooked (fst (fst (rstep_ord ordf v r i))).
Proof.
  intros F W A. destruct i as [n o hf ho|n o|l|n| |]; cbn [rstep_ord rstep].
  - pose proof (add_entry_mirrors v (ordf hf ho) r n o A) as H. destruct (add_entry _ _ r n o) as [r1 o1]. exact H.
  - pose proof (delete_entry_mirrors v r n o A) as H. destruct (delete_entry v r n o) as [r1 o1]. exact H.
  - pose proof (flush_mirrors v l r [] false W A) as (new & E & M & A1). cbv zeta in *. fold (flush v l r) in *.
    destruct (flush v l r) as [[r1 h1] e1]. cbn [fst snd app] in *. subst h1. split; [exact M|exact A1].
  - cbn [fst snd hev out0]. split; [apply mirrors_nil, add_ni_mirror_eq|apply AH_add_ni; assumption].
  - cbn [fst snd hev out0]. split; [apply mirrors_nil; rewrite set_hook_abs; reflexivity|apply AH_set_hook].
  - cbn [fst snd hev out0]. split; [apply mirrors_nil; reflexivity|exact A].
Qed.

Lemma history_mirrors ordf v : fixF15 v = true -> forall h r, WF r -> all_hooked r ->
  mirrors r (hev_log_ord ordf v r h) (rfinal_ord ordf v r h).
Proof.
  intros F. induction h as [|i h IH]; intros r W A; cbn [hev_log_ord rfinal_ord]; [apply mirrors_nil; reflexivity|].
  pose proof (rstep_mirrors ordf v r i F W A) as [M A1]. pose proof (rstep_WF ordf v r i W) as W1.
  destruct (rstep_ord ordf v r i) as [[r1 o1] b1]. cbn [fst snd] in *.
  eapply mirrors_app; [exact M|apply IH; assumption].
Qed.

Lemma rfinal_ord_app ordf v h1 : forall r h2, rfinal_ord ordf v r (h1 ++ h2) = rfinal_ord ordf v (rfinal_ord ordf v r h1) h2.
Proof. induction h1 as [|i h1 IH]; intros r h2; cbn [app rfinal_ord]; [reflexivity|apply IH]. Qed.
Lemma hev_log_ord_app ordf v h1 : forall r h2,
  hev_log_ord ordf v r (h1 ++ h2) = hev_log_ord ordf v r h1 ++ hev_log_ord ordf v (rfinal_ord ordf v r h1) h2.
Proof.
  induction h1 as [|i h1 IH]; intros r h2; cbn [app hev_log_ord rfinal_ord]; [reflexivity|].
  destruct (rstep_ord ordf v r i) as [[r1 o1] b1]. cbn [fst]. rewrite IH, app_assoc. reflexivity.
Qed.

(* ==== C16, post-change hook ==== *)
(* the hook is registered at any point of a history that started with the RIB [r0] (well-formed, e.g.
   empty): from then on the fold of the notifications over the tables as they were at registration is
   the installed tables, and every DELETE carries the entry the consumer holds *)
Theorem mirror_v ordf v r0 h1 h2 :
  fixF15 v = true -> WF r0 ->
  let r_reg := rfinal_ord ordf v r0 (h1 ++ [ISetHook]) in
  mirrors r_reg (hev_log_ord ordf v r_reg h2) (rfinal_ord ordf v r0 (h1 ++ ISetHook :: h2)).
Proof.
  intros F W r_reg.
  assert (E : rfinal_ord ordf v r0 (h1 ++ ISetHook :: h2) = rfinal_ord ordf v r_reg h2).
  { change (ISetHook :: h2) with ([ISetHook] ++ h2). rewrite app_assoc, rfinal_ord_app. reflexivity. }
  rewrite E. apply history_mirrors; [exact F| |].
  - apply rfinal_WF, W.
  - unfold r_reg. rewrite rfinal_ord_app. cbn [rfinal_ord rstep_ord rstep fst]. apply AH_set_hook.
Qed.

(* registration while nothing is installed (server.New: options in any order; rib.New + SetPostChangeHook
   before or after AddNetworkInstance): the fold from empty tables *)
Definition empty_tabs (r : rib) : Prop := forall n k, slook (abs r) n k = None.
Lemma empty_rib0 d nf : empty_tabs (rib0 d nf).
Proof.
  intros n k. unfold slook, rib0, abs; cbn. unfold nget, aget; cbn. destruct (n =? d); cbn; [apply tlook_tabs0|reflexivity].
Qed.
Lemma config_step ordf v r i :
  is_config i = true -> empty_tabs r ->
  hev (snd (fst (rstep_ord ordf v r i))) = [] /\ empty_tabs (fst (fst (rstep_ord ordf v r i))).
Proof.
  intros C E. destruct i as [n o hf ho|n o|l|n| |]; try discriminate; cbn [rstep_ord rstep fst snd hev out0]; (split; [reflexivity|]).
  - intros n' k'. rewrite (add_ni_mirror_eq v n r n' k'). apply E.
  - intros n' k'. rewrite set_hook_abs. apply E.
  - exact E.
Qed.
Lemma config_history ordf v h : forall r, config_only h -> empty_tabs r ->
  hev_log_ord ordf v r h = [] /\ empty_tabs (rfinal_ord ordf v r h).
Proof.
  unfold config_only. induction h as [|i h IH]; intros r C E; cbn [hev_log_ord rfinal_ord]; [split; [reflexivity|exact E]|].
  cbn [forallb] in C. apply andb_prop in C. destruct C as [C1 C2].
  destruct (config_step ordf v r i C1 E) as [H1 H2].
  destruct (rstep_ord ordf v r i) as [[r1 o1] b1]. cbn [fst snd] in *.
  destruct (IH r1 C2 H2) as [H3 H4]. rewrite H1, H3. split; [reflexivity|exact H4].
Qed.

Theorem mirror_from_start_v ordf v r0 h1 h2 :
  fixF15 v = true -> WF r0 -> empty_tabs r0 -> config_only h1 ->
  mirror_eq (abs (rfinal_ord ordf v r0 (h1 ++ ISetHook :: h2)))
            (fold_left fold_hook (hev_log_ord ordf v r0 (h1 ++ ISetHook :: h2)) [])
  /\ evs_ok [] (hev_log_ord ordf v r0 (h1 ++ ISetHook :: h2)).
Proof.
  intros F W E C.
  pose proof (mirror_v ordf v r0 h1 h2 F W) as [M1 M2]. cbv zeta in *.
  assert (C' : config_only (h1 ++ [ISetHook])).
  { unfold config_only in *. rewrite forallb_app, C. reflexivity. }
  destruct (config_history ordf v (h1 ++ [ISetHook]) r0 C' E) as [L0 E0].
  assert (EL : hev_log_ord ordf v r0 (h1 ++ ISetHook :: h2)
               = hev_log_ord ordf v (rfinal_ord ordf v r0 (h1 ++ [ISetHook])) h2).
  { change (ISetHook :: h2) with ([ISetHook] ++ h2). rewrite app_assoc, hev_log_ord_app, L0. reflexivity. }
  rewrite EL.
  assert (Q : mirror_eq (abs (rfinal_ord ordf v r0 (h1 ++ [ISetHook]))) []).
  { intros n k. rewrite E0. reflexivity. }
  split.
  - rewrite M1. apply fold_hooks_proper. exact Q.
  - eapply evs_ok_proper; [exact Q|exact M2].
Qed.

(* ==== C16, resolved-entry hook ==== *)
Lemma rev_ok_mono a b ev : (forall x, In x a -> In x b) -> rev_ok a ev -> rev_ok b ev.
Proof.
  intros H. destruct ev as [[|] n t k snap]; cbn [rev_ok]; [|auto].
  intros (o & kv & pl & H1 & H2 & H3). exists o, kv, pl. auto.
Qed.
Lemma try_install_rev v r n o r' h rv :
  try_install v r n o = Installed r' h rv -> forall ev, In ev rv -> rev_ok [(n, o)] ev.
Proof.
  intros H. pose proof (try_install_abs _ _ _ _ _ _ _ H) as [HA _]. revert H.
  unfold try_install. destruct (nget n (nis r)) as [s|] eqn:En; [|discriminate].
  destruct (op_entry o) as [t k kv p|id p|i p|] eqn:Eo; [| | |discriminate].
  - unfold try_add_top. destruct p as [pl|]; [|discriminate].
    destruct (negb (key_ok t k kv) || t_bad pl); [discriminate|].
    destruct (_ && negb (nmem k (get_top t s))); [discriminate|].
    destruct (t_nhg pl =? 0); [discriminate|].
    destruct (target n pl) as [tn tg].
    destruct (negb (has_ni r tn)); [discriminate|].
    destruct (negb (has_grp r tn tg)); [discriminate|].
    intros H; inversion H as [[Hr Hh Hrv]]; clear H.
    destruct (res_hooked r); intros ev Hin; [|destruct Hin]. destruct Hin as [<-|[]].
    cbn [rev_ok]. exists o, kv, pl. split; [left; reflexivity|]. split; [exact Eo|].
    rewrite Hr. change (abs_nis (nis r')) with (abs r').
    rewrite (slook_sp_eq _ _ n (KTop t k) HA), slook_in_ni, N.eqb_refl, nget_abs, En. cbn [option_map].
    change (put_entry (ETop t k kv (Some pl)) (tabs_of s)) with (put_sentry (STop t k pl) (tabs_of s)).
    rewrite tlook_put. cbn [sentry_key]. rewrite skey_eqb_refl. reflexivity.
  - unfold try_add_grp. destruct p as [pl|]; [|discriminate].
    destruct (g_bad pl); [discriminate|].
    destruct (_ && negb (nmem id (tabg s))); [discriminate|].
    destruct (id =? 0); [discriminate|].
    destruct (g_nhs pl) as [|iw l] eqn:Enhs; [discriminate|].
    destruct (existsb _ (iw :: l)); [discriminate|].
    destruct (forallb _ (iw :: l)); cbn [negb]; [|discriminate].
    intros H; inversion H; subst. intros ev [].
  - unfold try_add_nh. destruct p as [pl|]; [|discriminate].
    destruct (h_bad pl); [discriminate|].
    destruct (_ && negb (nmem i (tabh s))); [discriminate|].
    destruct (i =? 0); [discriminate|].
    intros H; inversion H; subst. intros ev [].
Qed.

Definition revs_ok (o : out) : Prop := forall ev, In ev (rev o) -> rev_ok (acked o) ev.
Lemma add_entry_revs_ok v ord r n o : revs_ok (snd (add_entry v ord r n o)).
Proof.
  apply (add_entry_P v ord (fun _ acc => revs_ok acc)).
  - intros r1 acc m H; exact H.
  - intros r1 acc i H; exact H.
  - intros r1 acc H; exact H.
  - intros r1 acc n1 o1 r2 h rv H Hi ev. cbn [rev acked add_rev add_hev add_ok]. rewrite in_app_iff. intros [Hin|Hin].
    + eapply rev_ok_mono; [|apply H; exact Hin]. intros x Hx. apply in_or_app. left. exact Hx.
    + eapply rev_ok_mono; [|eapply try_install_rev; eauto]. intros x Hx. apply in_or_app. right. exact Hx.
  - intros r1 H; exact H.
  - intros ev [].
Qed.
Lemma delete_entry_revs_ok v r n o : revs_ok (snd (delete_entry v r n o)).
Proof.
  unfold delete_entry. destruct (nget n (nis r)) as [s|] eqn:En; cbn [snd]; [|intros ev []].
  destruct (op_entry o) as [t k kv p|id p|i p|]; cbn [snd].
  - destruct (fixF6 v && negb (key_ok t k kv)); cbn [snd]; [intros ev []|].
    cbv zeta. remember (match t with TL => if fixF6 v then k else k mod W32 | _ => k end) as k1 eqn:Ek. clear Ek.
    cbn [snd]. intros ev. cbn [rev add_rev add_hev add_ok out0 app].
    pose proof (abs_upd_top n t (ndel k1) r) as H1. cbv beta in H1.
    destruct (nget k1 (get_top t s)) as [d|]; [|intros []].
    destruct (res_hooked r); [|intros []]. intros [<-|[]]. cbn [rev_ok].
    destruct (target n d) as [tn tg].
    match goal with |- slook (abs_nis (nis ?r2)) _ _ = _ => change (abs_nis (nis r2)) with (abs r2) end.
    rewrite (slook_sp_eq _ _ n (KTop t k1) (abs_upd_rcg _ _ _)).
    rewrite (slook_sp_eq _ _ n (KTop t k1) H1), slook_in_ni, N.eqb_refl, nget_abs, En. cbn [option_map].
    change (sp_set_top t (ndel k1 (sp_top t (tabs_of s))) (tabs_of s)) with (del_skey (KTop t k1) (tabs_of s)).
    rewrite tlook_del, skey_eqb_refl. reflexivity.
  - destruct (id =? 0); cbn [snd]; [intros ev []|].
    destruct (nget id (tabg s)); [destruct (0 <? cnt (rcg s) id)|]; intros ev [].
  - destruct (i =? 0); cbn [snd]; [intros ev []|].
    destruct (nget i (tabh s)); [destruct (0 <? cnt (rch s) i)|]; intros ev [].
  - intros ev [].
Qed.

(* every resolved-entry notification of every step from every state, any variant, any walk order *)
Theorem resolved_snapshot ordf v r i : revs_ok (snd (fst (rstep_ord ordf v r i))).
Proof.
  destruct i as [n o hf ho|n o|l|n| |]; cbn [rstep_ord rstep].
  - pose proof (add_entry_revs_ok v (ordf hf ho) r n o) as H. destruct (add_entry _ _ r n o) as [r1 o1]. exact H.
  - pose proof (delete_entry_revs_ok v r n o) as H. destruct (delete_entry v r n o) as [r1 o1]. exact H.
  - destruct (flush v l r) as [[r1 h1] e1]. intros ev [].
  - intros ev [].
  - intros ev [].
  - intros ev [].
Qed.
(* ... hence of every history *)
Definition rev_good (ev : revent) : Prop := exists acks, rev_ok acks ev.
Theorem resolved_snapshot_history ordf v : forall h r ev, In ev (rev_log_ord ordf v r h) -> rev_good ev.
Proof.
  induction h as [|i h IH]; intros r ev; cbn [rev_log_ord]; [intros []|].
  pose proof (resolved_snapshot ordf v r i) as H.
  destruct (rstep_ord ordf v r i) as [[r1 o1] b1]. cbn [fst snd] in H.
  rewrite in_app_iff. intros [Hin|Hin]; [exists (acked o1); apply H; exact Hin|eapply IH; eauto].
Qed.

(* ==== the statements of Properties/C16.v ==== *)
Theorem mirror_rib0 ordf d nf h1 h2 :
  let r0 := rib0 d nf in
  let r_reg := rfinal_ord ordf v_fixed r0 (h1 ++ [ISetHook]) in
  mirror_eq (abs (rfinal_ord ordf v_fixed r0 (h1 ++ ISetHook :: h2)))
            (fold_left fold_hook (hev_log_ord ordf v_fixed r_reg h2) (abs r_reg)).
Proof. exact (proj1 (mirror_v ordf v_fixed (rib0 d nf) h1 h2 eq_refl (WF_rib0 d nf))). Qed.
Theorem delete_carries_rib0 ordf d nf h1 h2 :
  let r_reg := rfinal_ord ordf v_fixed (rib0 d nf) (h1 ++ [ISetHook]) in
  evs_ok (abs r_reg) (hev_log_ord ordf v_fixed r_reg h2).
Proof. exact (proj2 (mirror_v ordf v_fixed (rib0 d nf) h1 h2 eq_refl (WF_rib0 d nf))). Qed.
Theorem mirror_any_variant ordf v r0 h1 h2 :
  fixF15 v = true -> WF r0 ->
  let r_reg := rfinal_ord ordf v r0 (h1 ++ [ISetHook]) in
  mirror_eq (abs (rfinal_ord ordf v r0 (h1 ++ ISetHook :: h2)))
            (fold_left fold_hook (hev_log_ord ordf v r_reg h2) (abs r_reg)).
Proof. intros F W. exact (proj1 (mirror_v ordf v r0 h1 h2 F W)). Qed.
Theorem mirror_from_start_rib0 ordf d nf h1 h2 :
  config_only h1 ->
  mirror_eq (abs (rfinal_ord ordf v_fixed (rib0 d nf) (h1 ++ ISetHook :: h2)))
            (fold_left fold_hook (hev_log_ord ordf v_fixed (rib0 d nf) (h1 ++ ISetHook :: h2)) []).
Proof. intros C. exact (proj1 (mirror_from_start_v ordf v_fixed (rib0 d nf) h1 h2 eq_refl (WF_rib0 d nf) (empty_rib0 d nf) C)). Qed.
Theorem delete_carries_from_start_rib0 ordf d nf h1 h2 :
  config_only h1 -> evs_ok [] (hev_log_ord ordf v_fixed (rib0 d nf) (h1 ++ ISetHook :: h2)).
Proof. intros C. exact (proj2 (mirror_from_start_v ordf v_fixed (rib0 d nf) h1 h2 eq_refl (WF_rib0 d nf) (empty_rib0 d nf) C)). Qed.
(* the executable runner of Run.v (walk order [canon]) *)
Theorem mirror_from_start_run d nf h1 h2 :
  config_only h1 ->
  mirror_eq (abs (snd (rtrace v_fixed (rib0 d nf) (h1 ++ ISetHook :: h2))))
            (fold_left fold_hook (hev_log_ord canon v_fixed (rib0 d nf) (h1 ++ ISetHook :: h2)) []).
Proof. intros C. rewrite <- rfinal_rtrace. exact (mirror_from_start_rib0 canon d nf h1 h2 C). Qed.

(* the pinned tree: a network instance created after registration is never reported *)
Definition tree_h2 : list rinput := [IAddNI 2; IAdd 2 (mk_op 1 2 ADD None (ENh 1 (Some (mk_nh [])))) [] []].
Theorem mirror_tree_refuted :
  exists d nf h1 h2,
    config_only h1
    /\ hev_log_ord canon v_tree (rib0 d nf) (h1 ++ ISetHook :: h2) = []
    /\ ~ mirror_eq (abs (rfinal_ord canon v_tree (rib0 d nf) (h1 ++ ISetHook :: h2)))
                   (fold_left fold_hook (hev_log_ord canon v_tree (rib0 d nf) (h1 ++ ISetHook :: h2)) []).
Proof.
  exists 1, false, [], tree_h2. split; [reflexivity|]. split; [vm_compute; reflexivity|].
  intros H. specialize (H 2 (KNh 1)). vm_compute in H. discriminate.
Qed.
