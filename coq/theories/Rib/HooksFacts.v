(* C16: the fold of the post-change notifications mirrors the installed tables; resolved-entry
   snapshots contain / lack the announced key.  Proofs about Rib/Model.v + Rib/Hooks.v. *)
From Coq Require Import List Bool NArith Lia Setoid Morphisms.
From GV.Base Require Import Alist U128 Op.
From GV.Rib Require Import Model Lemmas Run Spec Refine Hooks.
Import ListNotations.
Open Scope N_scope.

(* ---- keys ---- *)
Lemma tkind_eqb_spec a b : reflect (a = b) (tkind_eqb a b).
Proof. destruct a, b; cbn; constructor; congruence. Qed.
Lemma skey_eqb_spec a b : reflect (a = b) (skey_eqb a b).
Proof.
  destruct a as [t k|i|i], b as [t' k'|j|j]; cbn; try (constructor; congruence).
  - destruct (tkind_eqb_spec t t') as [->|]; cbn; [|constructor; congruence].
    destruct (N.eqb_spec k k') as [->|]; constructor; congruence.
  - destruct (N.eqb_spec i j) as [->|]; constructor; congruence.
  - destruct (N.eqb_spec i j) as [->|]; constructor; congruence.
Qed.
Lemma skey_eqb_refl k : skey_eqb k k = true.
Proof. destruct (skey_eqb_spec k k); congruence. Qed.

(* ---- reading the consumer's tables ---- *)
Lemma tlook_put e x k' : tlook (put_sentry e x) k' = if skey_eqb (sentry_key e) k' then Some e else tlook x k'.
Proof.
  destruct e as [t k p|id p|i p], k' as [t' k'|id'|i']; cbn [put_sentry sentry_key skey_eqb tlook sg sh sp_set_g sp_set_h];
    try reflexivity; try (destruct t; reflexivity).
  - destruct t, t'; cbn [tkind_eqb andb sp_top sp_set_top s4 s6 sl]; try reflexivity;
      rewrite nget_nset; destruct (N.eqb_spec k k') as [->|]; reflexivity.
  - rewrite nget_nset. destruct (N.eqb_spec id id') as [->|]; reflexivity.
  - rewrite nget_nset. destruct (N.eqb_spec i i') as [->|]; reflexivity.
Qed.
Lemma tlook_del k x k' : tlook (del_skey k x) k' = if skey_eqb k k' then None else tlook x k'.
Proof.
  destruct k as [t k|id|i], k' as [t' k'|id'|i']; cbn [del_skey skey_eqb tlook sg sh sp_set_g sp_set_h];
    try reflexivity; try (destruct t; reflexivity).
  - destruct t, t'; cbn [tkind_eqb andb sp_top sp_set_top s4 s6 sl]; try reflexivity;
      rewrite nget_ndel; destruct (k =? k'); reflexivity.
  - rewrite nget_ndel. destruct (id =? id'); reflexivity.
  - rewrite nget_ndel. destruct (i =? i'); reflexivity.
Qed.
Lemma tlook_key x k e : tlook x k = Some e -> sentry_key e = k.
Proof.
  destruct k as [t k|id|i]; cbn [tlook];
    match goal with |- context [nget ?a ?m] => destruct (nget a m) end; cbn; intros H; inversion H; reflexivity.
Qed.
Lemma tlook_tabs0 k : tlook tabs0 k = None.
Proof. destruct k as [t k|id|i]; [destruct t|..]; reflexivity. Qed.
Lemma tlook_tabs_or0 sp n k : tlook (tabs_or0 sp n) k = slook sp n k.
Proof. unfold tabs_or0, slook. destruct (nget n sp); [reflexivity|apply tlook_tabs0]. Qed.
Lemma slook_nset n y (sp : spec) n' k' : slook (nset n y sp) n' k' = if n =? n' then tlook y k' else slook sp n' k'.
Proof. unfold slook. rewrite nget_nset. destruct (n =? n'); reflexivity. Qed.
Lemma slook_in_ni n f sp n' k' :
  slook (in_ni n f sp) n' k' =
  if n =? n' then match nget n sp with Some x => tlook (f x) k' | None => None end else slook sp n' k'.
Proof. unfold slook. rewrite nget_in_ni. destruct (n =? n'); [destruct (nget n sp)|]; reflexivity. Qed.
Lemma slook_abs r n s k : nget n (nis r) = Some s -> slook (abs r) n k = tlook (tabs_of s) k.
Proof. intros H. unfold slook. rewrite nget_abs, H. reflexivity. Qed.
Lemma slook_abs_none r n k : nget n (nis r) = None -> slook (abs r) n k = None.
Proof. intros H. unfold slook. rewrite nget_abs, H. reflexivity. Qed.

Lemma slook_fold_hook sp ev n' k' :
  slook (fold_hook sp ev) n' k' =
  match ev with
  | HAdd n e => if (n =? n') && skey_eqb (sentry_key e) k' then Some e else slook sp n' k'
  | HDel n _ (Some e) => if (n =? n') && skey_eqb (sentry_key e) k' then None else slook sp n' k'
  | HDel _ _ None => slook sp n' k'
  end.
Proof.
  destruct ev as [n e|n k [e|]]; cbn [fold_hook]; [| |reflexivity]; rewrite slook_nset;
    (destruct (N.eqb_spec n n') as [<-|]; cbn [andb]; [|reflexivity]).
  - rewrite tlook_put, tlook_tabs_or0. reflexivity.
  - rewrite tlook_del, tlook_tabs_or0. reflexivity.
Qed.

(* ---- mirror_eq ---- *)
#[export] Instance mirror_eq_equiv : Equivalence mirror_eq.
Proof.
  split.
  - intros a n k; reflexivity.
  - intros a b H n k; symmetry; apply H.
  - intros a b c H1 H2 n k; rewrite H1; apply H2.
Qed.
Lemma sp_eq_mirror_eq a b : sp_eq a b -> mirror_eq a b.
Proof. intros H n k. apply slook_sp_eq. exact H. Qed.
Lemma fold_hook_proper a b ev : mirror_eq a b -> mirror_eq (fold_hook a ev) (fold_hook b ev).
Proof. intros H n k. rewrite !slook_fold_hook, !H. reflexivity. Qed.
Lemma fold_hooks_proper l : forall a b, mirror_eq a b -> mirror_eq (fold_left fold_hook l a) (fold_left fold_hook l b).
Proof. induction l as [|ev l IH]; intros a b H; cbn [fold_left]; [exact H|]. apply IH, fold_hook_proper, H. Qed.
Lemma ev_ok_proper a b ev : mirror_eq a b -> ev_ok a ev -> ev_ok b ev.
Proof. intros H. destruct ev as [n e|n k e]; cbn; [auto|]. rewrite H. auto. Qed.
Lemma evs_ok_proper l : forall a b, mirror_eq a b -> evs_ok a l -> evs_ok b l.
Proof.
  induction l as [|ev l IH]; intros a b H; cbn [evs_ok]; [auto|]. intros [H1 H2]. split.
  - eapply ev_ok_proper; eauto.
  - eapply IH; [|exact H2]. apply fold_hook_proper, H.
Qed.
Lemma evs_ok_app l1 : forall sp l2, evs_ok sp (l1 ++ l2) <-> evs_ok sp l1 /\ evs_ok (fold_left fold_hook l1 sp) l2.
Proof. induction l1 as [|ev l1 IH]; intros sp l2; cbn; [tauto|]. rewrite IH. tauto. Qed.

(* a DELETE that carries nothing, for a key the consumer does not hold, changes nothing; neither does
   removing a key that is not held *)
Lemma fold_hook_del_none sp n k : fold_hook sp (HDel n k None) = sp.
Proof. reflexivity. Qed.
Lemma fold_hook_del_absent sp n k e : slook sp n (sentry_key e) = None -> mirror_eq (fold_hook sp (HDel n k (Some e))) sp.
Proof.
  intros H n' k'. rewrite slook_fold_hook. destruct (N.eqb_spec n n') as [<-|]; cbn [andb]; [|reflexivity].
  destruct (skey_eqb_spec (sentry_key e) k') as [<-|]; [symmetry; exact H|reflexivity].
Qed.

(* ---- r' is r after the notifications l, each DELETE carrying what was held ---- *)
Definition mirrors (r : rib) (l : list hevent) (r' : rib) : Prop :=
  mirror_eq (abs r') (fold_left fold_hook l (abs r)) /\ evs_ok (abs r) l.
Lemma mirrors_nil r r' : mirror_eq (abs r') (abs r) -> mirrors r [] r'.
Proof. intros H. split; [exact H|exact I]. Qed.
Lemma mirrors_app r l1 r1 l2 r2 : mirrors r l1 r1 -> mirrors r1 l2 r2 -> mirrors r (l1 ++ l2) r2.
Proof.
  intros [A1 A2] [B1 B2]. split.
  - rewrite fold_left_app, B1. apply fold_hooks_proper. exact A1.
  - apply evs_ok_app. split; [exact A2|]. eapply evs_ok_proper; [exact A1|exact B2].
Qed.

(* ---- all_hooked ---- *)
Lemma AH_upd_ni a f r : all_hooked r -> (forall s, hooked (f s) = hooked s) -> all_hooked (upd_ni a f r).
Proof.
  intros [H1 H2] Hf. split; [rewrite rib_hooked_upd_ni; exact H1|].
  intros n s. rewrite nis_upd_ni. destruct (a =? n); [|apply H2].
  destruct (nget a (nis r)) as [s0|] eqn:E; [|discriminate]. intros H; inversion H; subst.
  rewrite Hf. eapply H2; eauto.
Qed.
Lemma AH_set_pend m r : all_hooked r -> all_hooked (set_pend m r).
Proof. intros H; exact H. Qed.
Ltac ah_upd := repeat (apply AH_upd_ni; [|intros ?; try apply hooked_set_top; reflexivity]).
Lemma hk_hooked r n s ev : all_hooked r -> nget n (nis r) = Some s -> hk r n ev = [ev].
Proof. intros [_ H] En. unfold hk, is_hooked. rewrite En, (H n s En). reflexivity. Qed.
Lemma AH_hooked r n s : all_hooked r -> nget n (nis r) = Some s -> hooked s = true.
Proof. intros [_ H] En. eapply H; eauto. Qed.

(* ---- one installation ---- *)
Lemma try_install_hev v r n o r' h rv :
  try_install v r n o = Installed r' h rv ->
  exists s e, nget n (nis r) = Some s /\ h = hk r n (HAdd n e) /\ forall x, put_entry (op_entry o) x = put_sentry e x.
Proof.
  unfold try_install. destruct (nget n (nis r)) as [s|] eqn:En; [|discriminate].
  destruct (op_entry o) as [t k kv p|id p|i p|]; [| | |discriminate].
  - unfold try_add_top. destruct p as [pl|]; [|discriminate].
    destruct (negb (key_ok t k kv) || t_bad pl); [discriminate|].
    destruct (_ && negb (nmem k (get_top t s))); [discriminate|].
    destruct (t_nhg pl =? 0); [discriminate|].
    destruct (target n pl) as [tn tg].
    destruct (negb (has_ni r tn)); [discriminate|].
    destruct (negb (has_grp r tn tg)); [discriminate|].
    intros H; inversion H; subst; clear H. exists s, (STop t k pl). repeat split.
  - unfold try_add_grp. destruct p as [pl|]; [|discriminate].
    destruct (g_bad pl); [discriminate|].
    destruct (_ && negb (nmem id (tabg s))); [discriminate|].
    destruct (id =? 0); [discriminate|].
    destruct (g_nhs pl) as [|iw l] eqn:Enhs; [discriminate|].
    destruct (existsb _ (iw :: l)); [discriminate|].
    destruct (forallb _ (iw :: l)); cbn [negb]; [|discriminate].
    intros H; inversion H; subst; clear H. exists s, (SGrp id (norm_grp pl)). repeat split.
  - unfold try_add_nh. destruct p as [pl|]; [|discriminate].
    destruct (h_bad pl); [discriminate|].
    destruct (_ && negb (nmem i (tabh s))); [discriminate|].
    destruct (i =? 0); [discriminate|].
    intros H; inversion H; subst; clear H. exists s, (SNh i pl). repeat split.
Qed.

Lemma try_install_AH v r n o r' h rv : all_hooked r -> try_install v r n o = Installed r' h rv -> all_hooked r'.
Proof.
  intros A. unfold try_install. destruct (nget n (nis r)) as [s|] eqn:En; [|discriminate].
  destruct (op_entry o) as [t k kv p|id p|i p|]; [| | |discriminate].
  - unfold try_add_top. destruct p as [pl|]; [|discriminate].
    destruct (negb (key_ok t k kv) || t_bad pl); [discriminate|].
    destruct (_ && negb (nmem k (get_top t s))); [discriminate|].
    destruct (t_nhg pl =? 0); [discriminate|].
    destruct (target n pl) as [tn tg].
    destruct (negb (has_ni r tn)); [discriminate|].
    destruct (negb (has_grp r tn tg)); [discriminate|].
    intros H; inversion H; subst; clear H.
    destruct (nget k (get_top t s)) as [o0|]; [destruct (same_ref o0 pl); [|destruct (target n o0) as [on og]]|];
      ah_upd; exact A.
  - unfold try_add_grp. destruct p as [pl|]; [|discriminate].
    destruct (g_bad pl); [discriminate|].
    destruct (_ && negb (nmem id (tabg s))); [discriminate|].
    destruct (id =? 0); [discriminate|].
    destruct (g_nhs pl) as [|iw l] eqn:Enhs; [discriminate|].
    destruct (existsb _ (iw :: l)); [discriminate|].
    destruct (forallb _ (iw :: l)); cbn [negb]; [|discriminate].
    intros H; inversion H; subst; clear H.
    destruct (nget id (tabg s)) as [o0|]; ah_upd; exact A.
  - unfold try_add_nh. destruct p as [pl|]; [|discriminate].
    destruct (h_bad pl); [discriminate|].
    destruct (_ && negb (nmem i (tabh s))); [discriminate|].
    destruct (i =? 0); [discriminate|].
    intros H; inversion H; subst; clear H. ah_upd; exact A.
Qed.

Lemma try_install_mirrors v r n o r' h rv :
  all_hooked r -> try_install v r n o = Installed r' h rv -> mirrors r h r'.
Proof.
  intros A H. destruct (try_install_hev _ _ _ _ _ _ _ H) as (s & e & En & -> & Hput).
  apply try_install_abs in H. destruct H as [H1 _].
  rewrite (hk_hooked r n s _ A En). split; [|cbn; auto].
  intros n' k'. cbn [fold_left]. rewrite (slook_sp_eq _ _ n' k' H1), slook_in_ni, slook_fold_hook, nget_abs, En.
  cbn [option_map]. destruct (N.eqb_spec n n') as [<-|]; cbn [andb]; [|reflexivity].
  rewrite Hput, tlook_put, (slook_abs r n s _ En). reflexivity.
Qed.

(* ---- the AddEntry cascade: a generic induction over what it does to (state, results) ---- *)
Section CascadeInd.
  Variable v : variant.
  Variable ord : amap (ni * rop) -> amap (ni * rop).
  Variable P : rib -> out -> Prop.
  Hypothesis P_pend : forall r acc m, P r acc -> P (set_pend m r) acc.
  Hypothesis P_fail : forall r acc i, P r acc -> P r (add_fail i acc).
  Hypothesis P_nofuel : forall r acc, P r acc -> P r (set_nofuel acc).
  Hypothesis P_inst : forall r acc n o r' h rv,
    P r acc -> try_install v r n o = Installed r' h rv -> P r' (add_rev rv (add_hev h (add_ok n o acc))).

  Lemma aei_P fuel : forall st n o,
    P (fst (fst st)) (snd (fst st)) ->
    P (fst (fst (aei v ord fuel st n o))) (snd (fst (aei v ord fuel st n o))).
  Proof.
    induction fuel as [|f IH]; intros [[r acc] stack] n o H; cbn [aei fst snd] in *.
    - apply P_nofuel, H.
    - destruct (existsb (N.eqb (op_id o)) stack); [exact H|].
      destruct (try_install v r n o) as [| |r1 h rv] eqn:Ei; cbn [fst snd].
      + destruct (fixF5 v); [apply P_pend|]; apply P_fail, H.
      + destruct (nofwd r); cbn [fst snd]; [apply P_fail, H|apply P_pend, H].
      + remember (ord _) as l eqn:El. clear El.
        match goal with |- context [fold_left _ l ?s] => remember s as st0 eqn:Es end.
        assert (H0 : P (fst (fst st0)) (snd (fst st0))).
        { subst st0. cbn [fst snd]. apply P_pend. eapply P_inst; eauto. }
        clear Es. revert st0 H0. induction l as [|e l IHl]; intros st0 H0; cbn [fold_left]; [exact H0|].
        apply IHl. apply IH. exact H0.
  Qed.

  Hypothesis P_fatal : forall r, P r out0 -> P r (set_fatal out0).
  Lemma add_entry_P r n o : P r out0 -> P (fst (add_entry v ord r n o)) (snd (add_entry v ord r n o)).
  Proof.
    intros H. unfold add_entry. destruct ((n =? 0) || negb (has_ni r n)); [apply P_fatal, H|].
    pose proof (aei_P (S (length (pend r))) (r, out0, []) n o H) as H1.
    destruct (aei v ord (S (length (pend r))) (r, out0, []) n o) as [[r1 acc1] stk]. cbn [fst snd] in H1.
    destruct (op_entry o); first [exact H1|apply P_fatal, H].
  Qed.
End CascadeInd.

Lemma add_entry_mirrors v ord r n o :
  all_hooked r ->
  mirrors r (hev (snd (add_entry v ord r n o))) (fst (add_entry v ord r n o)) /\ all_hooked (fst (add_entry v ord r n o)).
Proof.
  intros A.
  apply (add_entry_P v ord (fun r' acc => mirrors r (hev acc) r' /\ all_hooked r')).
  - intros r1 acc m H; exact H.
  - intros r1 acc i H; exact H.
  - intros r1 acc H; exact H.
  - intros r1 acc n1 o1 r2 h rv [H1 H2] Hi. split; [|eapply try_install_AH; eauto].
    cbn [hev add_rev add_hev add_ok]. eapply mirrors_app; [exact H1|]. eapply try_install_mirrors; eauto.
  - intros r1 H; exact H.
  - split; [apply mirrors_nil; reflexivity|exact A].
Qed.

(* ---- DeleteEntry ---- *)
Lemma mirrors_del r n s k e r' :
  nget n (nis r) = Some s -> e = tlook (tabs_of s) k ->
  mirror_eq (abs r') (in_ni n (del_skey k) (abs r)) -> mirrors r [HDel n k e] r'.
Proof.
  intros En -> H1. split; [|cbn; split; [apply slook_abs; exact En|exact I]].
  intros n' k'. cbn [fold_left]. rewrite (H1 n' k'), slook_in_ni, slook_fold_hook, nget_abs, En.
  cbn [option_map]. destruct (tlook (tabs_of s) k) as [e|] eqn:Et.
  - rewrite (tlook_key _ _ _ Et). destruct (N.eqb_spec n n') as [<-|]; cbn [andb]; [|reflexivity].
    rewrite tlook_del, (slook_abs r n s _ En). reflexivity.
  - destruct (N.eqb_spec n n') as [<-|]; [|reflexivity].
    rewrite tlook_del, (slook_abs r n s _ En). destruct (skey_eqb_spec k k') as [<-|]; [symmetry; exact Et|reflexivity].
Qed.
Lemma in_ni_del_absent r n s k :
  nget n (nis r) = Some s -> tlook (tabs_of s) k = None -> mirror_eq (abs r) (in_ni n (del_skey k) (abs r)).
Proof.
  intros En Et n' k'. rewrite slook_in_ni, nget_abs, En. cbn [option_map].
  destruct (N.eqb_spec n n') as [<-|]; [|reflexivity].
  rewrite tlook_del, (slook_abs r n s _ En). destruct (skey_eqb_spec k k') as [<-|]; [exact Et|reflexivity].
Qed.
Lemma delete_entry_mirrors v r n o :
  all_hooked r ->
  mirrors r (hev (snd (delete_entry v r n o))) (fst (delete_entry v r n o)) /\ all_hooked (fst (delete_entry v r n o)).
Proof.
  intros A. unfold delete_entry.
  destruct (nget n (nis r)) as [s|] eqn:En; cbn [fst snd]; [|split; [apply mirrors_nil; reflexivity|exact A]].
  destruct (op_entry o) as [t k kv p|id p|i p|]; cbn [fst snd].
  - destruct (fixF6 v && negb (key_ok t k kv)); cbn [fst snd]; [split; [apply mirrors_nil; reflexivity|exact A]|].
    cbv zeta.
    remember (match t with TL => if fixF6 v then k else k mod W32 | _ => k end) as k1 eqn:Ek. clear Ek.
    cbn [fst snd hev add_rev add_hev add_ok out0 app]. rewrite (hk_hooked r n s _ A En). split.
    + apply (mirrors_del r n s (KTop t k1)); [exact En|cbn [tlook]; rewrite sp_top_tabs_of; reflexivity|].
      apply sp_eq_mirror_eq.
      pose proof (abs_upd_top n t (ndel k1) r) as H1. cbv beta in H1.
      destruct (nget k1 (get_top t s)) as [d|]; [destruct (target n d) as [tn tg]|]; rewrite ?abs_upd_rcg; exact H1.
    + destruct (nget k1 (get_top t s)) as [d|]; [destruct (target n d) as [tn tg]|]; ah_upd; exact A.
  - destruct (id =? 0); cbn [fst snd]; [split; [apply mirrors_nil; reflexivity|exact A]|].
    destruct (nget id (tabg s)) as [g|] eqn:Eg.
    + destruct (0 <? cnt (rcg s) id); cbn [fst snd]; [split; [apply mirrors_nil; reflexivity|exact A]|].
      cbn [hev add_rev add_hev add_ok out0 app]. rewrite (hk_hooked r n s _ A En). split; [|ah_upd; exact A].
      apply (mirrors_del r n s (KGrp id)); [exact En|cbn [tlook tabs_of sg]; rewrite Eg; reflexivity|].
      apply sp_eq_mirror_eq. rewrite abs_upd_rch. exact (abs_upd_tabg n (ndel id) r).
    + cbn [fst snd hev add_rev add_hev add_ok out0 app]. rewrite (hk_hooked r n s _ A En). split; [|exact A].
      apply (mirrors_del r n s (KGrp id)); [exact En|cbn [tlook tabs_of sg]; rewrite Eg; reflexivity|].
      apply (in_ni_del_absent r n s); [exact En|cbn [tlook tabs_of sg]; rewrite Eg; reflexivity].
  - destruct (i =? 0); cbn [fst snd]; [split; [apply mirrors_nil; reflexivity|exact A]|].
    destruct (nget i (tabh s)) as [g|] eqn:Eg.
    + destruct (0 <? cnt (rch s) i); cbn [fst snd]; [split; [apply mirrors_nil; reflexivity|exact A]|].
      cbn [hev add_rev add_hev add_ok out0 app]. rewrite (hk_hooked r n s _ A En). split; [|ah_upd; exact A].
      apply (mirrors_del r n s (KNh i)); [exact En|cbn [tlook tabs_of sh]; rewrite Eg; reflexivity|].
      apply sp_eq_mirror_eq. exact (abs_upd_tabh n (ndel i) r).
    + cbn [fst snd hev add_rev add_hev add_ok out0 app]. rewrite (hk_hooked r n s _ A En). split; [|exact A].
      apply (mirrors_del r n s (KNh i)); [exact En|cbn [tlook tabs_of sh]; rewrite Eg; reflexivity|].
      apply (in_ni_del_absent r n s); [exact En|cbn [tlook tabs_of sh]; rewrite Eg; reflexivity].
  - split; [apply mirrors_nil; reflexivity|exact A].
Qed.
