(* C01: the RIB model refines the abstract spec of Rib/Spec.v -- after every step the installed
   tables are the fold of the acknowledgements of that step over the tables before it. *)
From Coq Require Import List Bool NArith Lia Setoid Morphisms.
From GV.Base Require Import Alist U128 Op.
From GV.Rib Require Import Model Lemmas Run Spec.
Import ListNotations.
Open Scope N_scope.

(* ---- association lists ---- *)
Lemma nget_map {A B} (f : A -> B) k (l : amap A) :
  nget k (map (fun kv => (fst kv, f (snd kv))) l) = option_map f (nget k l).
Proof.
  unfold nget, aget. induction l as [|[k' a] l IH]; cbn; [reflexivity|].
  destruct (k =? k'); cbn; [reflexivity|exact IH].
Qed.
Lemma nget_app {V} k (a b : amap V) :
  nget k (a ++ b) = match nget k a with Some x => Some x | None => nget k b end.
Proof.
  unfold nget, aget. induction a as [|[k' x] a IH]; cbn; [reflexivity|].
  destruct (k =? k'); cbn; [reflexivity|exact IH].
Qed.
Lemma ndel_absent {V} k (l : amap V) : nget k l = None -> ndel k l = l.
Proof.
  unfold nget, aget, ndel, adel. induction l as [|[k' x] l IH]; cbn; [reflexivity|].
  destruct (k =? k'); cbn; [discriminate|]. intros H. rewrite IH; auto.
Qed.

(* ---- sp_eq ---- *)
#[export] Instance sp_eq_equiv : Equivalence sp_eq.
Proof.
  split.
  - intros a n; reflexivity.
  - intros a b H n; symmetry; apply H.
  - intros a b c H1 H2 n; rewrite H1; apply H2.
Qed.
Lemma eq_sp_eq a b : a = b -> sp_eq a b.
Proof. intros ->; reflexivity. Qed.

Lemma nget_in_ni n f sp n' :
  nget n' (in_ni n f sp) = if n =? n' then option_map f (nget n sp) else nget n' sp.
Proof.
  unfold in_ni. destruct (nget n sp) as [x|] eqn:E.
  - rewrite nget_nset. reflexivity.
  - destruct (N.eqb_spec n n') as [<-|]; [rewrite E|]; reflexivity.
Qed.
#[export] Instance in_ni_proper n f : Proper (sp_eq ==> sp_eq) (in_ni n f).
Proof. intros a b H n'. rewrite !nget_in_ni, !H. reflexivity. Qed.
Lemma in_ni_ext n f g sp : (forall x, nget n sp = Some x -> f x = g x) -> sp_eq (in_ni n f sp) (in_ni n g sp).
Proof.
  intros H n'. rewrite !nget_in_ni. destruct (n =? n'); [|reflexivity].
  destruct (nget n sp) as [x|] eqn:E; cbn; [rewrite (H x eq_refl)|]; reflexivity.
Qed.
Lemma in_ni_id n f sp : (forall x, nget n sp = Some x -> f x = x) -> sp_eq (in_ni n f sp) sp.
Proof.
  intros H n'. rewrite nget_in_ni. destruct (N.eqb_spec n n') as [<-|]; [|reflexivity].
  destruct (nget n sp) as [x|] eqn:E; cbn; [rewrite (H x eq_refl)|]; reflexivity.
Qed.
Lemma in_ni_comp n f g sp : sp_eq (in_ni n g (in_ni n f sp)) (in_ni n (fun x => g (f x)) sp).
Proof.
  intros n'. rewrite !nget_in_ni. destruct (N.eqb_spec n n') as [<-|]; [|reflexivity].
  rewrite N.eqb_refl. destruct (nget n sp); reflexivity.
Qed.

Lemma nget_flush_spec l sp n' :
  nget n' (fold_left (fun s n => in_ni n (fun _ => tabs0) s) l sp) =
  if existsb (N.eqb n') l then option_map (fun _ => tabs0) (nget n' sp) else nget n' sp.
Proof.
  revert sp; induction l as [|n l IH]; intros sp; cbn [fold_left existsb]; [reflexivity|].
  rewrite IH, nget_in_ni. rewrite (N.eqb_sym n' n).
  destruct (N.eqb_spec n n') as [<-|]; cbn [orb]; [|reflexivity].
  destruct (existsb _ l), (nget n sp); reflexivity.
Qed.
Lemma nmem_sp_eq (a b : spec) n : sp_eq a b -> nmem n a = nmem n b.
Proof. intros H. unfold nmem. rewrite H. reflexivity. Qed.

#[export] Instance spec_apply_proper : Proper (sp_eq ==> eq ==> sp_eq) spec_apply.
Proof.
  intros a b H k k' <-. destruct k as [n o|l|n]; cbn [spec_apply].
  - rewrite H. reflexivity.
  - intros n'. rewrite !nget_flush_spec, H. reflexivity.
  - rewrite (nmem_sp_eq a b n H). destruct (nmem n b); [exact H|].
    intros n'. rewrite !nget_app, H. reflexivity.
Qed.
Lemma fold_spec_proper l : Proper (sp_eq ==> sp_eq) (fold_left spec_apply l).
Proof.
  induction l as [|k l IH]; intros a b H; cbn; [exact H|]. apply IH. rewrite H. reflexivity.
Qed.
#[export] Existing Instance fold_spec_proper.

Lemma slook_sp_eq a b n k : sp_eq a b -> slook a n k = slook b n k.
Proof. intros H. unfold slook. rewrite H. reflexivity. Qed.
Lemma spec_has_sp_eq a b n e : sp_eq a b -> spec_has a n e = spec_has b n e.
Proof. intros H. unfold spec_has. destruct (ekey e); [|reflexivity]. rewrite (slook_sp_eq a b n s H). reflexivity. Qed.

(* ---- abs: reading through the model's updates ---- *)
Lemma nget_abs n r : nget n (abs r) = option_map tabs_of (nget n (nis r)).
Proof. unfold abs. apply nget_map. Qed.
Lemma abs_set_pend m r : abs (set_pend m r) = abs r.
Proof. reflexivity. Qed.
Lemma nget_abs_upd_ni a f r n :
  nget n (abs (upd_ni a f r)) =
  if a =? n then option_map (fun s => tabs_of (f s)) (nget a (nis r)) else nget n (abs r).
Proof.
  rewrite !nget_abs, nis_upd_ni. destruct (a =? n); [|reflexivity]. destruct (nget a (nis r)); reflexivity.
Qed.
(* an update that the tables see as g *)
Lemma abs_upd_ni_sim a f g r :
  (forall s, tabs_of (f s) = g (tabs_of s)) -> sp_eq (abs (upd_ni a f r)) (in_ni a g (abs r)).
Proof.
  intros H n. rewrite nget_abs_upd_ni, nget_in_ni, !nget_abs. destruct (a =? n); [|reflexivity].
  destruct (nget a (nis r)); cbn; [rewrite H|]; reflexivity.
Qed.
(* an update of counters / hooks only *)
Lemma abs_upd_ni_id a f r : (forall s, tabs_of (f s) = tabs_of s) -> sp_eq (abs (upd_ni a f r)) (abs r).
Proof.
  intros H n. rewrite nget_abs_upd_ni. destruct (N.eqb_spec a n) as [<-|]; [|reflexivity].
  rewrite nget_abs. destruct (nget a (nis r)); cbn; [rewrite H|]; reflexivity.
Qed.
Lemma abs_upd_rcg a f r : sp_eq (abs (upd_ni a (fun s => set_rcg (f s) s) r)) (abs r).
Proof. apply abs_upd_ni_id. reflexivity. Qed.
Lemma abs_upd_rch a f r : sp_eq (abs (upd_ni a (fun s => set_rch (f s) s) r)) (abs r).
Proof. apply abs_upd_ni_id. reflexivity. Qed.

Lemma tabs_of_set_top t m s : tabs_of (set_top t m s) = sp_set_top t m (tabs_of s).
Proof. destruct t; reflexivity. Qed.
Lemma sp_top_tabs_of t s : sp_top t (tabs_of s) = get_top t s.
Proof. destruct t; reflexivity. Qed.
Lemma abs_upd_top a t (f : amap top -> amap top) r :
  sp_eq (abs (upd_ni a (fun s => set_top t (f (get_top t s)) s) r))
        (in_ni a (fun x => sp_set_top t (f (sp_top t x)) x) (abs r)).
Proof. apply abs_upd_ni_sim. intros s. rewrite tabs_of_set_top, sp_top_tabs_of. reflexivity. Qed.
Lemma abs_upd_tabg a (f : amap grp -> amap grp) r :
  sp_eq (abs (upd_ni a (fun s => set_tabg (f (tabg s)) s) r)) (in_ni a (fun x => sp_set_g (f (sg x)) x) (abs r)).
Proof. apply abs_upd_ni_sim. reflexivity. Qed.
Lemma abs_upd_tabh a (f : amap nhp -> amap nhp) r :
  sp_eq (abs (upd_ni a (fun s => set_tabh (f (tabh s)) s) r)) (in_ni a (fun x => sp_set_h (f (sh x)) x) (abs r)).
Proof. apply abs_upd_ni_sim. reflexivity. Qed.

(* ---- one installation ---- *)
Definition model_has (s : nistate) (e : entry) : bool :=
  match e with
  | ETop t k _ _ => nmem k (get_top t s)
  | EGrp id _ => nmem id (tabg s)
  | ENh i _ => nmem i (tabh s)
  | ENone => false
  end.
Lemma spec_has_abs r n s e : nget n (nis r) = Some s -> spec_has (abs r) n e = model_has s e.
Proof.
  intros H. unfold spec_has, slook. rewrite nget_abs, H.
  destruct e as [t k kv p|id p|i p|]; cbn; [rewrite sp_top_tabs_of|..]; unfold nmem;
    try match goal with |- context [nget ?k ?m] => destruct (nget k m) end; reflexivity.
Qed.
Lemma explicit_has (ex b : bool) : ex && negb b = false -> ex = true -> b = true.
Proof. destruct ex, b; cbn; congruence. Qed.

Lemma try_add_top_abs r n s ex t k kv p r' h rv :
  try_add_top r n s ex t k kv p = Installed r' h rv ->
  sp_eq (abs r') (in_ni n (put_entry (ETop t k kv p)) (abs r)) /\ (ex = true -> nmem k (get_top t s) = true).
Proof.
  unfold try_add_top. destruct p as [pl|]; [|discriminate].
  destruct (negb (key_ok t k kv) || t_bad pl); [discriminate|].
  destruct (ex && negb (nmem k (get_top t s))) eqn:Eex; [discriminate|].
  destruct (t_nhg pl =? 0); [discriminate|].
  destruct (target n pl) as [tn tg].
  destruct (negb (has_ni r tn)); [discriminate|].
  destruct (negb (has_grp r tn tg)); [discriminate|].
  intros H; inversion H; subst; clear H. split; [|apply explicit_has; exact Eex].
  cbn [put_entry].
  pose proof (abs_upd_top n t (nset k pl) r) as H1. cbv beta in H1.
  destruct (nget k (get_top t s)) as [o|]; [destruct (same_ref o pl); [exact H1|destruct (target n o) as [on og]]|];
    rewrite ?abs_upd_rcg; exact H1.
Qed.

Lemma try_add_grp_abs v r n s ex id p r' h rv :
  try_add_grp v r n s ex id p = Installed r' h rv ->
  sp_eq (abs r') (in_ni n (put_entry (EGrp id p)) (abs r)) /\ (ex = true -> nmem id (tabg s) = true).
Proof.
  unfold try_add_grp. destruct p as [pl|]; [|discriminate].
  destruct (g_bad pl); [discriminate|].
  destruct (ex && negb (nmem id (tabg s))) eqn:Eex; [discriminate|].
  destruct (id =? 0); [discriminate|].
  destruct (g_nhs pl) as [|iw l] eqn:Enhs; [discriminate|].
  destruct (existsb _ (iw :: l)); [discriminate|].
  destruct (forallb _ (iw :: l)); cbn [negb]; [|discriminate].
  intros H; inversion H; subst; clear H. split; [|apply explicit_has; exact Eex].
  cbn [put_entry].
  pose proof (abs_upd_tabg n (nset id (norm_grp pl)) r) as H1. cbv beta in H1.
  destruct (nget id (tabg s)) as [o|]; rewrite ?abs_upd_rch; exact H1.
Qed.

Lemma try_add_nh_abs r n s ex i p r' h rv :
  try_add_nh r n s ex i p = Installed r' h rv ->
  sp_eq (abs r') (in_ni n (put_entry (ENh i p)) (abs r)) /\ (ex = true -> nmem i (tabh s) = true).
Proof.
  unfold try_add_nh. destruct p as [pl|]; [|discriminate].
  destruct (h_bad pl); [discriminate|].
  destruct (ex && negb (nmem i (tabh s))) eqn:Eex; [discriminate|].
  destruct (i =? 0); [discriminate|].
  intros H; inversion H; subst; clear H. split; [|apply explicit_has; exact Eex].
  cbn [put_entry]. exact (abs_upd_tabh n (nset i pl) r).
Qed.

(* the tables after an installation are the tables before with the operation's key set to its payload;
   an explicit REPLACE is only installed over an existing entry; for every variant *)
Lemma try_install_abs v r n o r' h rv :
  try_install v r n o = Installed r' h rv ->
  sp_eq (abs r') (in_ni n (put_entry (op_entry o)) (abs r))
  /\ (op_kind o = REPLACE -> spec_has (abs r) n (op_entry o) = true).
Proof.
  unfold try_install. destruct (nget n (nis r)) as [s|] eqn:En; [|discriminate].
  rewrite (spec_has_abs r n s _ En).
  destruct (op_entry o) as [t k kv p|id p|i p|]; [| | |discriminate]; intros H;
    [apply try_add_top_abs in H|apply try_add_grp_abs in H|apply try_add_nh_abs in H];
    destruct H as [H1 H2]; (split; [exact H1|]); intros Hk; apply H2; rewrite Hk; reflexivity.
Qed.
(* the same, read on the model state *)
Lemma try_install_replace_model v r n o r' h rv :
  try_install v r n o = Installed r' h rv -> op_kind o = REPLACE ->
  has_ni r n = true /\ model_has (sget r n) (op_entry o) = true.
Proof.
  intros H Hk. pose proof (try_install_abs _ _ _ _ _ _ _ H) as [_ H2]. specialize (H2 Hk).
  unfold try_install in H. destruct (nget n (nis r)) as [s|] eqn:En; [|discriminate].
  rewrite (spec_has_abs r n s _ En) in H2. rewrite (sget_some _ _ _ En), (has_ni_some _ _ _ En). auto.
Qed.

(* ---- logs ---- *)
(* an acknowledged explicit REPLACE finds its key bound *)
Definition ack_ok (sp : spec) (a : ack) : Prop :=
  match a with AckOp n o => op_kind o = REPLACE -> spec_has sp n (op_entry o) = true | _ => True end.
Fixpoint log_ok (sp : spec) (l : list ack) : Prop :=
  match l with [] => True | a :: tl => ack_ok sp a /\ log_ok (spec_apply sp a) tl end.
Lemma ack_ok_sp_eq a b k : sp_eq a b -> ack_ok a k -> ack_ok b k.
Proof. intros H. destruct k as [n o|l|n]; cbn; auto. rewrite (spec_has_sp_eq a b n _ H). auto. Qed.
Lemma log_ok_sp_eq l : forall a b, sp_eq a b -> log_ok a l -> log_ok b l.
Proof.
  induction l as [|k l IH]; cbn; auto. intros a b H [H1 H2]. split.
  - eapply ack_ok_sp_eq; eauto.
  - eapply IH; [|exact H2]. rewrite H. reflexivity.
Qed.
Lemma log_ok_app l1 : forall sp l2, log_ok sp (l1 ++ l2) <-> log_ok sp l1 /\ log_ok (fold_left spec_apply l1 sp) l2.
Proof.
  induction l1 as [|k l1 IH]; intros sp l2; cbn; [tauto|]. rewrite IH. tauto.
Qed.
Lemma log_ok_split sp pre a post : log_ok sp (pre ++ a :: post) -> ack_ok (fold_left spec_apply pre sp) a.
Proof. rewrite log_ok_app. cbn. tauto. Qed.

(* r' is r after the acknowledgements l *)
Definition refines (r : rib) (l : list ack) (r' : rib) : Prop :=
  sp_eq (abs r') (fold_left spec_apply l (abs r)) /\ log_ok (abs r) l.
Lemma refines_nil r r' : sp_eq (abs r') (abs r) -> refines r [] r'.
Proof. intros H. split; [exact H|exact I]. Qed.
Lemma refines_app r l1 r1 l2 r2 : refines r l1 r1 -> refines r1 l2 r2 -> refines r (l1 ++ l2) r2.
Proof.
  intros [A1 A2] [B1 B2]. split.
  - rewrite fold_left_app, B1. apply fold_spec_proper. exact A1.
  - apply log_ok_app. split; [exact A2|]. eapply log_ok_sp_eq; [exact A1|exact B2].
Qed.
Lemma refines_one r a r' : sp_eq (abs r') (spec_apply (abs r) a) -> ack_ok (abs r) a -> refines r [a] r'.
Proof. intros H1 H2. split; [exact H1|]. cbn. auto. Qed.
Lemma refines_sp_eq_r r l r1 r2 : sp_eq (abs r2) (abs r1) -> refines r l r1 -> refines r l r2.
Proof. intros H [A1 A2]. split; [rewrite H; exact A1|exact A2]. Qed.

Lemma eff_add_kind o : op_kind (eff_add o) = REPLACE <-> op_kind o = REPLACE.
Proof. unfold eff_add. destruct (op_kind o) eqn:E; cbn; rewrite ?E; split; congruence. Qed.
Lemma eff_add_entry o : op_entry (eff_add o) = op_entry o.
Proof. unfold eff_add. destruct (op_kind o); reflexivity. Qed.
Lemma eff_add_id o : op_id (eff_add o) = op_id o.
Proof. unfold eff_add. destruct (op_kind o); reflexivity. Qed.
Lemma apply_op_eff_add o x : apply_op (eff_add o) x = put_entry (op_entry o) x.
Proof. unfold eff_add, apply_op. destruct (op_kind o) eqn:E; cbn; rewrite ?E; reflexivity. Qed.
Lemma eff_del_kind o : op_kind (eff_del o) = DELETE.
Proof. unfold eff_del. destruct (op_kind o) eqn:E; cbn; rewrite ?E; reflexivity. Qed.
Lemma eff_del_entry o : op_entry (eff_del o) = op_entry o.
Proof. unfold eff_del. destruct (op_kind o); reflexivity. Qed.
Lemma apply_op_eff_del o x : apply_op (eff_del o) x = del_entry (op_entry o) x.
Proof. unfold eff_del, apply_op. destruct (op_kind o) eqn:E; cbn; rewrite ?E; reflexivity. Qed.
(* operations of the kinds the server passes to AddEntry / DeleteEntry are logged as they are *)
Lemma eff_add_same o : op_kind o = ADD \/ op_kind o = REPLACE -> eff_add o = o.
Proof. unfold eff_add. intros [H|H]; rewrite H; reflexivity. Qed.
Lemma eff_del_same o : op_kind o = DELETE -> eff_del o = o.
Proof. unfold eff_del. intros H; rewrite H; reflexivity. Qed.

Lemma install_refines v r n o r' h rv :
  try_install v r n o = Installed r' h rv -> refines r [ack_add (n, o)] r'.
Proof.
  intros H. apply try_install_abs in H. destruct H as [H1 H2]. apply refines_one.
  - cbn [spec_apply ack_add fst snd]. rewrite H1. apply in_ni_ext. intros x _. symmetry. apply apply_op_eff_add.
  - cbn [ack_ok ack_add fst snd]. rewrite eff_add_kind, eff_add_entry. exact H2.
Qed.

(* ---- the AddEntry cascade: any variant, any iteration order of the held operations, any fuel ---- *)
Section CascadeRefines.
  Variable v : variant.
  Variable ord : amap (ni * rop) -> amap (ni * rop).

  Definition st_refines (st st' : rib * out * list N) : Prop :=
    exists new, acked (snd (fst st')) = acked (snd (fst st)) ++ new
                /\ refines (fst (fst st)) (map ack_add new) (fst (fst st')).
  Lemma st_refines_refl st : st_refines st st.
  Proof. exists []. rewrite app_nil_r. split; [reflexivity|]. apply refines_nil. reflexivity. Qed.
  Lemma st_refines_trans a b c : st_refines a b -> st_refines b c -> st_refines a c.
  Proof.
    intros [n1 [A1 A2]] [n2 [B1 B2]]. exists (n1 ++ n2). split.
    - rewrite B1, A1, app_assoc. reflexivity.
    - rewrite map_app. eapply refines_app; eauto.
  Qed.

  Lemma fold_aei_refines f l :
    (forall st n o, st_refines st (aei v ord f st n o)) ->
    forall st, st_refines st (fold_left (fun st' (e : N * (N * rop)) => aei v ord f st' (fst (snd e)) (snd (snd e))) l st).
  Proof.
    intros IH. induction l as [|e l IHl]; intros st; cbn [fold_left]; [apply st_refines_refl|].
    eapply st_refines_trans; [apply IH|apply IHl].
  Qed.

  Lemma aei_refines fuel : forall st n o, st_refines st (aei v ord fuel st n o).
  Proof.
    induction fuel as [|f IH]; intros [[r acc] stack] n o.
    - cbn [aei]. exists []. cbn. rewrite app_nil_r. split; [reflexivity|apply refines_nil; reflexivity].
    - cbn [aei]. destruct (existsb (N.eqb (op_id o)) stack); [apply st_refines_refl|].
      destruct (try_install v r n o) as [| |r1 h rv] eqn:Ei.
      + exists []. cbn. rewrite app_nil_r. split; [reflexivity|]. apply refines_nil.
        destruct (fixF5 v); reflexivity.
      + destruct (nofwd r); exists []; cbn; rewrite app_nil_r; (split; [reflexivity|]); apply refines_nil; reflexivity.
      + eapply st_refines_trans; [|apply fold_aei_refines; exact IH].
        exists [(n, o)]. cbn [fst snd acked add_rev add_hev add_ok map]. split; [reflexivity|].
        eapply refines_sp_eq_r; [|eapply install_refines; exact Ei]. reflexivity.
  Qed.

  Lemma aei_oks fuel : forall st n o,
    oks (snd (fst st)) = map (fun x => op_id (snd x)) (acked (snd (fst st))) ->
    let st' := aei v ord fuel st n o in oks (snd (fst st')) = map (fun x => op_id (snd x)) (acked (snd (fst st'))).
  Proof.
    induction fuel as [|f IH]; intros [[r acc] stack] n o H; cbn [aei fst snd] in *.
    - exact H.
    - destruct (existsb (N.eqb (op_id o)) stack); [exact H|].
      destruct (try_install v r n o) as [| |r1 h rv] eqn:Ei.
      + exact H.
      + destruct (nofwd r); exact H.
      + remember (ord _) as l eqn:El. clear El.
        match goal with |- context [fold_left _ l ?s] => remember s as st0 eqn:Es end.
        assert (H0 : oks (snd (fst st0)) = map (fun x => op_id (snd x)) (acked (snd (fst st0)))).
        { subst st0. cbn. rewrite map_app, H. reflexivity. }
        clear Es H. revert st0 H0. induction l as [|e l IHl]; intros st0 H0; cbn [fold_left]; [exact H0|].
        apply IHl. apply IH. exact H0.
  Qed.

  Lemma add_entry_refines r n o r' out :
    add_entry v ord r n o = (r', out) -> refines r (map ack_add (acked out)) r'.
  Proof.
    unfold add_entry. destruct ((n =? 0) || negb (has_ni r n)).
    { intros H; inversion H; subst. apply refines_nil. reflexivity. }
    pose proof (aei_refines (S (length (pend r))) (r, out0, []) n o) as [new [H1 H2]].
    destruct (aei v ord (S (length (pend r))) (r, out0, []) n o) as [[r1 acc1] stk] eqn:Ea.
    cbn [fst snd acked out0 app] in H1, H2.
    destruct (op_entry o); intros H; inversion H; subst;
      first [exact H2|rewrite H1; exact H2|apply refines_nil; reflexivity].
  Qed.
  Lemma add_entry_oks r n o r' out :
    add_entry v ord r n o = (r', out) -> oks out = map (fun x => op_id (snd x)) (acked out).
  Proof.
    unfold add_entry. destruct ((n =? 0) || negb (has_ni r n)).
    { intros H; inversion H; subst. reflexivity. }
    pose proof (aei_oks (S (length (pend r))) (r, out0, []) n o eq_refl) as H1. cbv zeta in H1.
    destruct (aei v ord (S (length (pend r))) (r, out0, []) n o) as [[r1 acc1] stk] eqn:Ea.
    cbn [fst snd] in H1.
    destruct (op_entry o); intros H; inversion H; subst; try exact H1; reflexivity.
  Qed.
End CascadeRefines.

(* ---- DeleteEntry (with the key validation / untruncated label of fix F6) ---- *)
Lemma del_refines r n o r' :
  sp_eq (abs r') (in_ni n (del_entry (op_entry o)) (abs r)) -> refines r [ack_del (n, o)] r'.
Proof.
  intros H. apply refines_one.
  - cbn [spec_apply ack_del fst snd]. rewrite H. apply in_ni_ext. intros x _. symmetry. apply apply_op_eff_del.
  - cbn [ack_ok ack_del fst snd]. rewrite eff_del_kind. discriminate.
Qed.
Lemma nget_abs_some r n s x : nget n (nis r) = Some s -> nget n (abs r) = Some x -> x = tabs_of s.
Proof. intros H. rewrite nget_abs, H. cbn. congruence. Qed.

Lemma delete_entry_refines v r n o r' out :
  fixF6 v = true -> delete_entry v r n o = (r', out) -> refines r (map ack_del (acked out)) r'.
Proof.
  intros F6. unfold delete_entry. rewrite F6. cbn [andb].
  destruct (nget n (nis r)) as [s|] eqn:En;
    [|intros H; inversion H; subst; apply refines_nil; reflexivity].
  destruct (op_entry o) as [t k kv p|id p|i p|] eqn:Eo.
  - destruct (negb (key_ok t k kv)); [intros H; inversion H; subst; apply refines_nil; reflexivity|].
    assert (Hk : match t with TL => k | _ => k end = k) by (destruct t; reflexivity).
    cbv zeta. rewrite Hk. intros H; inversion H; subst; clear H.
    cbn [acked add_rev add_hev add_ok out0 app map]. apply del_refines. rewrite Eo. cbn [del_entry].
    pose proof (abs_upd_top n t (ndel k) r) as H1. cbv beta in H1.
    destruct (nget k (get_top t s)) as [d|]; [destruct (target n d) as [tn tg]|]; rewrite ?abs_upd_rcg; exact H1.
  - destruct (id =? 0); [intros H; inversion H; subst; apply refines_nil; reflexivity|].
    destruct (nget id (tabg s)) as [g|] eqn:Eg.
    + destruct (0 <? cnt (rcg s) id); intros H; inversion H; subst; clear H; [apply refines_nil; reflexivity|].
      cbn [acked add_rev add_hev add_ok out0 app map]. apply del_refines. rewrite Eo. cbn [del_entry].
      rewrite abs_upd_rch. exact (abs_upd_tabg n (ndel id) r).
    + intros H; inversion H; subst; clear H.
      cbn [acked add_rev add_hev add_ok out0 app map]. apply del_refines. rewrite Eo. cbn [del_entry].
      symmetry. apply in_ni_id. intros x Hx. rewrite (nget_abs_some _ _ _ _ En Hx).
      cbn [del_entry sp_set_g sp_set_h tabs_of sg sh s4 s6 sl]. rewrite (ndel_absent _ _ Eg). reflexivity.
  - destruct (i =? 0); [intros H; inversion H; subst; apply refines_nil; reflexivity|].
    destruct (nget i (tabh s)) as [g|] eqn:Eg.
    + destruct (0 <? cnt (rch s) i); intros H; inversion H; subst; clear H; [apply refines_nil; reflexivity|].
      cbn [acked add_rev add_hev add_ok out0 app map]. apply del_refines. rewrite Eo. cbn [del_entry].
      exact (abs_upd_tabh n (ndel i) r).
    + intros H; inversion H; subst; clear H.
      cbn [acked add_rev add_hev add_ok out0 app map]. apply del_refines. rewrite Eo. cbn [del_entry].
      symmetry. apply in_ni_id. intros x Hx. rewrite (nget_abs_some _ _ _ _ En Hx).
      cbn [del_entry sp_set_g sp_set_h tabs_of sg sh s4 s6 sl]. rewrite (ndel_absent _ _ Eg). reflexivity.
  - intros H; inversion H; subst; apply refines_nil; reflexivity.
Qed.

Lemma delete_entry_oks v r n o r' out :
  delete_entry v r n o = (r', out) -> oks out = map (fun x => op_id (snd x)) (acked out).
Proof.
  unfold delete_entry. destruct (nget n (nis r)) as [s|]; [|intros H; inversion H; reflexivity].
  destruct (op_entry o) as [t k kv p|id p|i p|].
  - destruct (fixF6 v && negb (key_ok t k kv)); intros H; inversion H; reflexivity.
  - destruct (id =? 0); [intros H; inversion H; reflexivity|].
    destruct (nget id (tabg s)); [destruct (0 <? cnt (rcg s) id)|]; intros H; inversion H; reflexivity.
  - destruct (i =? 0); [intros H; inversion H; reflexivity|].
    destruct (nget i (tabh s)); [destruct (0 <? cnt (rch s) i)|]; intros H; inversion H; reflexivity.
  - intros H; inversion H; reflexivity.
Qed.

(* ---- Flush ---- *)
Lemma fold_rcg_abs n (l : amap top) : forall r,
  sp_eq (abs (fold_left (fun r' kv => let '(tn, tg) := target n (snd kv) in
                                      upd_ni tn (fun s' => set_rcg (dec tg (rcg s')) s') r') l r)) (abs r).
Proof.
  induction l as [|kv l IH]; intros r; cbn [fold_left]; [reflexivity|].
  rewrite IH. destruct (target n (snd kv)) as [tn tg]. apply abs_upd_rcg.
Qed.
Lemma in_ni_absent n f r : nget n (nis r) = None -> sp_eq (abs r) (in_ni n f (abs r)).
Proof.
  intros En. symmetry. apply in_ni_id. intros x Hx. rewrite nget_abs, En in Hx. discriminate.
Qed.
Lemma flush_top_abs t n r : sp_eq (abs (fst (flush_top t n r))) (in_ni n (sp_set_top t []) (abs r)).
Proof.
  unfold flush_top. destruct (nget n (nis r)) as [s|] eqn:En; cbn [fst]; [|apply in_ni_absent; exact En].
  etransitivity; [exact (abs_upd_top n t (fun _ => []) _)|].
  cbv beta. rewrite fold_rcg_abs. apply in_ni_ext. reflexivity.
Qed.
Lemma flush_ni_abs v n r : sp_eq (abs (fst (fst (flush_ni v n r)))) (in_ni n (fun _ => tabs0) (abs r)).
Proof.
  unfold flush_ni. destruct (nget n (nis r)) as [s0|] eqn:En; cbn [fst]; [|apply in_ni_absent; exact En].
  pose proof (flush_top_abs T4 n r) as A1. destruct (flush_top T4 n r) as [r1 h4].
  pose proof (flush_top_abs T6 n r1) as A2. destruct (flush_top T6 n r1) as [r2 h6].
  pose proof (flush_top_abs TL n r2) as A3. destruct (flush_top TL n r2) as [r3 hl].
  cbn [fst] in *.
  rewrite (abs_upd_ni_sim n _ (fun x => sp_set_h [] (sp_set_g [] x))) by reflexivity.
  rewrite abs_upd_rch, A3, A2, A1, !in_ni_comp. apply in_ni_ext. reflexivity.
Qed.
Lemma flush_abs v l : forall r h e,
  sp_eq (abs (fst (fst (fold_left (fun acc n => let '(r', h, e) := acc in
                                               let '(r'', h', e') := flush_ni v n r' in (r'', h ++ h', e || e'))
                                  l (r, h, e)))))
        (spec_apply (abs r) (AckFlush l)).
Proof.
  induction l as [|n l IH]; intros r h e; cbn [fold_left]; [reflexivity|].
  pose proof (flush_ni_abs v n r) as A. destruct (flush_ni v n r) as [[r2 h2] e2]. cbn [fst] in A.
  rewrite IH. cbn [spec_apply fold_left].
  change (sp_eq (spec_apply (abs r2) (AckFlush l)) (spec_apply (in_ni n (fun _ => tabs0) (abs r)) (AckFlush l))).
  rewrite A. reflexivity.
Qed.

(* ---- configuration ---- *)
Lemma add_ni_abs v n r : abs (add_network_instance v n r) = spec_apply (abs r) (AckNewNI n).
Proof.
  unfold add_network_instance, has_ni. cbn [spec_apply].
  assert (H : nmem n (abs r) = nmem n (nis r)) by (unfold nmem; rewrite nget_abs; destruct (nget n (nis r)); reflexivity).
  rewrite H. destruct (nmem n (nis r)); [reflexivity|].
  unfold abs. cbn [nis set_nis]. rewrite map_app. reflexivity.
Qed.
Lemma set_hook_abs r : abs (set_post_change_hook r) = abs r.
Proof.
  unfold abs. cbn [nis set_post_change_hook]. rewrite map_map. apply map_ext. intros [k s]; reflexivity.
Qed.

(* ---- one step of a history, for any choice of iteration orders ---- *)
Lemma rstep_ord_canon v r i : rstep_ord canon v r i = rstep v r i.
Proof. destruct i; reflexivity. Qed.

Lemma rstep_refines ordf v r i r' out b :
  fixF6 v = true -> rstep_ord ordf v r i = (r', out, b) -> refines r (acks_of_step i out) r'.
Proof.
  intros F6. destruct i as [n o hf ho|n o|l|n| |]; cbn [rstep_ord rstep acks_of_step].
  - destruct (add_entry _ _ r n o) as [r1 o1] eqn:E. intros H; inversion H; subst. eapply add_entry_refines; exact E.
  - destruct (delete_entry v r n o) as [r1 o1] eqn:E. intros H; inversion H; subst. eapply delete_entry_refines; eauto.
  - destruct (flush v l r) as [[r1 h1] e1] eqn:E. intros H; inversion H; subst.
    apply refines_one; [|exact I]. pose proof (flush_abs v l r [] false) as A. unfold flush in E. rewrite E in A. exact A.
  - intros H; inversion H; subst. apply refines_one; [|exact I]. apply eq_sp_eq, add_ni_abs.
  - intros H; inversion H; subst. apply refines_nil. apply eq_sp_eq, set_hook_abs.
  - intros H; inversion H; subst. apply refines_nil. reflexivity.
Qed.
Lemma rstep_oks ordf v r i r' out b :
  rstep_ord ordf v r i = (r', out, b) -> oks out = map (fun x => op_id (snd x)) (acked out).
Proof.
  destruct i as [n o hf ho|n o|l|n| |]; cbn [rstep_ord rstep].
  - destruct (add_entry _ _ r n o) as [r1 o1] eqn:E. intros H; inversion H; subst. eapply add_entry_oks; exact E.
  - destruct (delete_entry v r n o) as [r1 o1] eqn:E. intros H; inversion H; subst. eapply delete_entry_oks; exact E.
  - destruct (flush v l r) as [[r1 h1] e1]. intros H; inversion H; subst. reflexivity.
  - intros H; inversion H; reflexivity.
  - intros H; inversion H; reflexivity.
  - intros H; inversion H; reflexivity.
Qed.

(* ---- histories ---- *)
Lemma history_refines ordf v : fixF6 v = true -> forall h r, refines r (ack_log_ord ordf v r h) (rfinal_ord ordf v r h).
Proof.
  intros F6. induction h as [|i h IH]; intros r; cbn [ack_log_ord rfinal_ord]; [apply refines_nil; reflexivity|].
  destruct (rstep_ord ordf v r i) as [[r1 o1] b1] eqn:E. cbn [fst].
  eapply refines_app; [eapply rstep_refines; eauto|apply IH].
Qed.
Lemma rfinal_rtrace v h : forall r, rfinal v r h = snd (rtrace v r h).
Proof.
  unfold rfinal. induction h as [|i h IH]; intros r; cbn [rfinal_ord rtrace]; [reflexivity|].
  rewrite rstep_ord_canon. destruct (rstep v r i) as [[r1 o1] b1]. cbn [fst]. rewrite IH.
  destruct (rtrace v r1 h). reflexivity.
Qed.

(* ==== the clauses of C01 ==== *)
(* (1) installed state = fold of the acknowledged operations, in acknowledgement order; from any state,
   for every history, every iteration order of the held operations; needs only the DELETE repair F6 *)
Theorem state_is_fold_v ordf v : fixF6 v = true -> forall r h,
  sp_eq (abs (rfinal_ord ordf v r h)) (fold_left spec_apply (ack_log_ord ordf v r h) (abs r)).
Proof. intros F6 r h. exact (proj1 (history_refines ordf v F6 h r)). Qed.
Theorem state_is_fold ordf r h :
  sp_eq (abs (rfinal_ord ordf v_fixed r h)) (fold_left spec_apply (ack_log_ord ordf v_fixed r h) (abs r)).
Proof. apply state_is_fold_v. reflexivity. Qed.

(* (2) an acknowledged explicit REPLACE found its key bound when it was applied *)
Theorem replace_needs_existing ordf r h pre n o post :
  ack_log_ord ordf v_fixed r h = pre ++ AckOp n o :: post -> op_kind o = REPLACE ->
  spec_has (fold_left spec_apply pre (abs r)) n (op_entry o) = true.
Proof.
  intros E Hk. pose proof (proj2 (history_refines ordf v_fixed eq_refl h r)) as H. rewrite E in H.
  apply log_ok_split in H. exact (H Hk).
Qed.

(* (3) a DELETE changes no key other than the one its entry names *)
Lemma sp_top_set_top t t' m x :
  sp_top t' (sp_set_top t m x) = if match t, t' with T4, T4 | T6, T6 | TL, TL => true | _, _ => false end then m else sp_top t' x.
Proof. destruct t, t'; reflexivity. Qed.
Lemma tlook_del_other e x k' : ekey e <> Some k' -> tlook (del_entry e x) k' = tlook x k'.
Proof.
  destruct e as [t k kv p|id p|i p|]; destruct k' as [t' k'|id'|i']; cbn [ekey del_entry tlook]; intros H;
    try reflexivity; try (destruct t); try (destruct t'); try reflexivity;
    cbn [sp_top sp_set_top sp_set_g sp_set_h s4 s6 sl sg sh]; (rewrite nget_ndel_other; [reflexivity|intros ->; apply H; reflexivity]).
Qed.
Theorem delete_exact_spec sp n o n' k' :
  op_kind o = DELETE -> n' <> n \/ ekey (op_entry o) <> Some k' ->
  slook (spec_apply sp (AckOp n o)) n' k' = slook sp n' k'.
Proof.
  intros Hk Hne. unfold slook. cbn [spec_apply]. rewrite nget_in_ni.
  destruct (N.eqb_spec n n') as [<-|]; [|reflexivity].
  destruct Hne as [Hne|Hne]; [congruence|].
  destruct (nget n sp) as [x|]; cbn [option_map]; [|reflexivity].
  unfold apply_op. rewrite Hk. apply tlook_del_other. exact Hne.
Qed.
Lemma delete_entry_acked v r n o r' out :
  delete_entry v r n o = (r', out) -> acked out = [] \/ acked out = [(n, o)].
Proof.
  unfold delete_entry. destruct (nget n (nis r)) as [s|]; [|intros H; inversion H; auto].
  destruct (op_entry o) as [t k kv p|id p|i p|].
  - destruct (fixF6 v && negb (key_ok t k kv)); intros H; inversion H; auto.
  - destruct (id =? 0); [intros H; inversion H; auto|].
    destruct (nget id (tabg s)); [destruct (0 <? cnt (rcg s) id)|]; intros H; inversion H; auto.
  - destruct (i =? 0); [intros H; inversion H; auto|].
    destruct (nget i (tabh s)); [destruct (0 <? cnt (rch s) i)|]; intros H; inversion H; auto.
  - intros H; inversion H; auto.
Qed.
(* the same on the model: whatever DeleteEntry answers, every other key of every instance keeps its entry *)
Theorem delete_exact_v v r n o r' out :
  fixF6 v = true -> delete_entry v r n o = (r', out) ->
  forall n' k', n' <> n \/ ekey (op_entry o) <> Some k' -> slook (abs r') n' k' = slook (abs r) n' k'.
Proof.
  intros F6 E n' k' Hne. pose proof (delete_entry_refines v r n o r' out F6 E) as [H _].
  rewrite (slook_sp_eq _ _ n' k' H).
  destruct (delete_entry_acked v r n o r' out E) as [Ha|Ha]; rewrite Ha; cbn [map fold_left]; [reflexivity|].
  apply delete_exact_spec; [apply eff_del_kind|]. cbn [snd]. rewrite eff_del_entry. exact Hne.
Qed.
Theorem delete_exact r n o r' out :
  delete_entry v_fixed r n o = (r', out) ->
  forall n' k', n' <> n \/ ekey (op_entry o) <> Some k' -> slook (abs r') n' k' = slook (abs r) n' k'.
Proof. apply delete_exact_v. reflexivity. Qed.

(* (4) failed and still-held operations leave no trace: the tables are a function of the log *)
Theorem no_trace ordf1 ordf2 r h1 h2 :
  ack_log_ord ordf1 v_fixed r h1 = ack_log_ord ordf2 v_fixed r h2 ->
  sp_eq (abs (rfinal_ord ordf1 v_fixed r h1)) (abs (rfinal_ord ordf2 v_fixed r h2)).
Proof. intros E. rewrite !state_is_fold, E. reflexivity. Qed.

(* (5) the ids reported as programmed are the ids of the logged operations, in order; every variant *)
Theorem oks_are_acked_ids ordf v r i r' out b :
  rstep_ord ordf v r i = (r', out, b) -> oks out = map (fun x => op_id (snd x)) (acked out).
Proof. apply rstep_oks. Qed.

(* the executable runner of Run.v *)
Theorem state_is_fold_run r h :
  sp_eq (abs (snd (rtrace v_fixed r h))) (fold_left spec_apply (ack_log v_fixed r h) (abs r)).
Proof. rewrite <- rfinal_rtrace. apply state_is_fold. Qed.
(* equal tables in the sense of sp_eq: every key of every instance reads the same *)
Lemma sp_eq_slook a b : sp_eq a b -> forall n k, slook a n k = slook b n k.
Proof. intros H n k. apply slook_sp_eq. exact H. Qed.

(* ==== well-formedness (distinct keys everywhere) is preserved by every step: every variant, every
   walk order, any fuel ==== *)
Lemma wf_ni_rcg s : wf_ni s -> wf (rcg s). Proof. intros (_&_&_&_&_&H&_). exact H. Qed.
Lemma wf_ni_rch s : wf_ni s -> wf (rch s). Proof. intros (_&_&_&_&_&_&H&_). exact H. Qed.
Lemma wf_ni_tabh s : wf_ni s -> wf (tabh s). Proof. intros (_&_&_&_&H&_). exact H. Qed.
Definition wfg (m : amap grp) : Prop := wf m /\ forall id g, nget id m = Some g -> wf_grp g.
Lemma wf_ni_tabg s : wf_ni s -> wfg (tabg s). Proof. intros (_&_&_&H&_&_&_&H'). split; assumption. Qed.
Lemma wfg_nset id g m : wf_grp g -> wfg m -> wfg (nset id g m).
Proof.
  intros Hg [H1 H2]. split; [apply wf_nset; exact H1|]. intros id' g'. rewrite nget_nset.
  destruct (id =? id'); [intros H; inversion H; subst; exact Hg|apply H2].
Qed.
Lemma wfg_ndel id m : wfg m -> wfg (ndel id m).
Proof.
  intros [H1 H2]. split; [apply wf_ndel; exact H1|]. intros id' g'. rewrite nget_ndel.
  destruct (id =? id'); [discriminate|apply H2].
Qed.
Lemma wfg_nil : wfg [].
Proof. split; [apply wf_nil|]. intros id g H; discriminate. Qed.

Lemma WF_upd_top a t (f : amap top -> amap top) r :
  WF r -> (forall m, wf m -> wf (f m)) -> WF (upd_ni a (fun s' => set_top t (f (get_top t s')) s') r).
Proof. intros H Hf. apply WF_upd_ni; auto. intros s Hs. apply wf_ni_set_top; auto. apply Hf, wf_get_top, Hs. Qed.
Lemma WF_upd_rcg a (f : amap N -> amap N) r :
  WF r -> (forall m, wf m -> wf (f m)) -> WF (upd_ni a (fun s' => set_rcg (f (rcg s')) s') r).
Proof. intros H Hf. apply WF_upd_ni; auto. intros s Hs. apply wf_ni_set_rcg; auto. apply Hf, wf_ni_rcg, Hs. Qed.
Lemma WF_upd_rch a (f : amap N -> amap N) r :
  WF r -> (forall m, wf m -> wf (f m)) -> WF (upd_ni a (fun s' => set_rch (f (rch s')) s') r).
Proof. intros H Hf. apply WF_upd_ni; auto. intros s Hs. apply wf_ni_set_rch; auto. apply Hf, wf_ni_rch, Hs. Qed.
Lemma WF_upd_tabh a (f : amap nhp -> amap nhp) r :
  WF r -> (forall m, wf m -> wf (f m)) -> WF (upd_ni a (fun s' => set_tabh (f (tabh s')) s') r).
Proof. intros H Hf. apply WF_upd_ni; auto. intros s Hs. apply wf_ni_set_tabh; auto. apply Hf, wf_ni_tabh, Hs. Qed.
Lemma WF_upd_tabg a (f : amap grp -> amap grp) r :
  WF r -> (forall m, wfg m -> wfg (f m)) -> WF (upd_ni a (fun s' => set_tabg (f (tabg s')) s') r).
Proof.
  intros H Hf. apply WF_upd_ni; auto. intros s Hs. destruct (Hf _ (wf_ni_tabg s Hs)) as [H1 H2].
  apply wf_ni_set_tabg; auto.
Qed.

Lemma try_install_WF v r n o r' h rv : WF r -> try_install v r n o = Installed r' h rv -> WF r'.
Proof.
  intros W. unfold try_install. destruct (nget n (nis r)) as [s|] eqn:En; [|discriminate].
  destruct (op_entry o) as [t k kv p|id p|i p|]; [| | |discriminate].
  - unfold try_add_top. destruct p as [pl|]; [|discriminate].
    destruct (negb (key_ok t k kv) || t_bad pl); [discriminate|].
    destruct (_ && negb (nmem k (get_top t s))); [discriminate|].
    destruct (t_nhg pl =? 0); [discriminate|].
    destruct (target n pl) as [tn tg].
    destruct (negb (has_ni r tn)); [discriminate|].
    destruct (negb (has_grp r tn tg)); [discriminate|].
    intros H; inversion H; subst; clear H.
    assert (W1 : WF (upd_ni n (fun s' => set_top t (nset k pl (get_top t s')) s') r))
      by (apply (WF_upd_top n t (nset k pl)); [exact W|intros m; apply wf_nset]).
    destruct (nget k (get_top t s)) as [o0|]; [destruct (same_ref o0 pl); [exact W1|destruct (target n o0) as [on og]]|].
    + apply (WF_upd_rcg _ (inc _)); [|intros m; apply wf_inc].
      apply (WF_upd_rcg _ (dec _)); [exact W1|intros m; apply wf_dec].
    + apply (WF_upd_rcg _ (inc _)); [exact W1|intros m; apply wf_inc].
  - unfold try_add_grp. destruct p as [pl|]; [|discriminate].
    destruct (g_bad pl); [discriminate|].
    destruct (_ && negb (nmem id (tabg s))); [discriminate|].
    destruct (id =? 0); [discriminate|].
    destruct (g_nhs pl) as [|iw l] eqn:Enhs; [discriminate|].
    destruct (existsb _ (iw :: l)); [discriminate|].
    destruct (forallb _ (iw :: l)); cbn [negb]; [|discriminate].
    intros H; inversion H; subst; clear H.
    assert (W2 : WF (upd_ni n (fun s' => set_rch (fold_left (fun m i => inc i m) (members v pl) (rch s')) s')
                       (upd_ni n (fun s' => set_tabg (nset id (norm_grp pl) (tabg s')) s') r))).
    { apply (WF_upd_rch n (fold_left (fun m i => inc i m) (members v pl))); [|intros m; apply wf_fold_inc].
      apply (WF_upd_tabg n (nset id (norm_grp pl))); [exact W|intros m; apply wfg_nset, wf_grp_norm]. }
    destruct (nget id (tabg s)) as [o0|]; [|exact W2].
    apply (WF_upd_rch n (fold_left (fun m i => dec i m) (map fst (g_nhs o0)))); [exact W2|intros m; apply wf_fold_dec].
  - unfold try_add_nh. destruct p as [pl|]; [|discriminate].
    destruct (h_bad pl); [discriminate|].
    destruct (_ && negb (nmem i (tabh s))); [discriminate|].
    destruct (i =? 0); [discriminate|].
    intros H; inversion H; subst; clear H.
    apply (WF_upd_tabh n (nset i pl)); [exact W|intros m; apply wf_nset].
Qed.

Lemma WF_pend r : WF r -> wf (pend r). Proof. intros (_&H&_). exact H. Qed.

Section CascadeWF.
  Variable v : variant.
  Variable ord : amap (ni * rop) -> amap (ni * rop).
  Lemma aei_WF fuel : forall st n o, WF (fst (fst st)) -> WF (fst (fst (aei v ord fuel st n o))).
  Proof.
    induction fuel as [|f IH]; intros [[r acc] stack] n o W; cbn [aei fst] in *; [exact W|].
    destruct (existsb (N.eqb (op_id o)) stack); [exact W|].
    destruct (try_install v r n o) as [| |r1 h rv] eqn:Ei; cbn [fst].
    - destruct (fixF5 v); [|exact W]. apply WF_set_pend; [exact W|apply wf_ndel, WF_pend, W].
    - destruct (nofwd r); cbn [fst]; [exact W|]. apply WF_set_pend; [exact W|apply wf_nset, WF_pend, W].
    - pose proof (try_install_WF _ _ _ _ _ _ _ W Ei) as W1.
      remember (ord _) as l eqn:El. clear El.
      match goal with |- context [fold_left _ l ?s] => remember s as st0 eqn:Es end.
      assert (W0 : WF (fst (fst st0))).
      { subst st0. cbn [fst]. apply WF_set_pend; [exact W1|apply wf_ndel, WF_pend, W1]. }
      clear Es. revert st0 W0. induction l as [|e l IHl]; intros st0 W0; cbn [fold_left]; [exact W0|].
      apply IHl. apply IH. exact W0.
  Qed.
  Lemma add_entry_WF r n o : WF r -> WF (fst (add_entry v ord r n o)).
  Proof.
    intros W. unfold add_entry. destruct ((n =? 0) || negb (has_ni r n)); [exact W|].
    pose proof (aei_WF (S (length (pend r))) (r, out0, []) n o W) as H.
    destruct (aei v ord (S (length (pend r))) (r, out0, []) n o) as [[r1 acc1] stk].
    destruct (op_entry o); first [exact W|exact H].
  Qed.
End CascadeWF.

Lemma delete_entry_WF v r n o : WF r -> WF (fst (delete_entry v r n o)).
Proof.
  intros W. unfold delete_entry. destruct (nget n (nis r)) as [s|] eqn:En; [|exact W].
  destruct (op_entry o) as [t k kv p|id p|i p|]; [| | |exact W].
  - destruct (fixF6 v && negb (key_ok t k kv)); [exact W|]. cbv zeta. cbn [fst].
    remember (match t with TL => if fixF6 v then k else k mod W32 | _ => k end) as k1 eqn:Ek. clear Ek.
    assert (W1 : WF (upd_ni n (fun s' => set_top t (ndel k1 (get_top t s')) s') r))
      by (apply (WF_upd_top n t (ndel k1)); [exact W|intros m; apply wf_ndel]).
    destruct (nget k1 (get_top t s)) as [d|]; [|exact W1]. destruct (target n d) as [tn tg].
    apply (WF_upd_rcg _ (dec _)); [exact W1|intros m; apply wf_dec].
  - destruct (id =? 0); [exact W|]. destruct (nget id (tabg s)) as [g|]; [|exact W].
    destruct (0 <? cnt (rcg s) id); [exact W|]. cbn [fst].
    apply (WF_upd_rch n (fold_left (fun m i => dec i m) (map fst (g_nhs g)))); [|intros m; apply wf_fold_dec].
    apply (WF_upd_tabg n (ndel id)); [exact W|intros m; apply wfg_ndel].
  - destruct (i =? 0); [exact W|]. destruct (nget i (tabh s)) as [g|]; [|exact W].
    destruct (0 <? cnt (rch s) i); [exact W|]. cbn [fst].
    apply (WF_upd_tabh n (ndel i)); [exact W|intros m; apply wf_ndel].
Qed.

Lemma fold_rcg_WF n (l : amap top) : forall r, WF r ->
  WF (fold_left (fun r' kv => let '(tn, tg) := target n (snd kv) in
                              upd_ni tn (fun s' => set_rcg (dec tg (rcg s')) s') r') l r).
Proof.
  induction l as [|kv l IH]; intros r W; cbn [fold_left]; [exact W|].
  apply IH. destruct (target n (snd kv)) as [tn tg]. apply (WF_upd_rcg _ (dec _)); [exact W|intros m; apply wf_dec].
Qed.
Lemma flush_top_WF t n r : WF r -> WF (fst (flush_top t n r)).
Proof.
  intros W. unfold flush_top. destruct (nget n (nis r)) as [s|]; cbn [fst]; [|exact W].
  apply (WF_upd_top n t (fun _ => [])); [apply fold_rcg_WF; exact W|intros m _; apply wf_nil].
Qed.
Lemma wf_fold_groups_dec (l : amap grp) : forall m, wf m ->
  wf (fold_left (fun m kv => fold_left (fun m' i => dec i m') (map fst (g_nhs (snd kv))) m) l m).
Proof. induction l as [|kv l IH]; intros m H; cbn [fold_left]; [exact H|]. apply IH, wf_fold_dec, H. Qed.
Lemma flush_ni_WF v n r : WF r -> WF (fst (fst (flush_ni v n r))).
Proof.
  intros W. unfold flush_ni. destruct (nget n (nis r)) as [s0|]; cbn [fst]; [|exact W].
  pose proof (flush_top_WF T4 n r W) as W1. destruct (flush_top T4 n r) as [r1 h4]. cbn [fst] in W1.
  pose proof (flush_top_WF T6 n r1 W1) as W2. destruct (flush_top T6 n r1) as [r2 h6]. cbn [fst] in W2.
  pose proof (flush_top_WF TL n r2 W2) as W3. destruct (flush_top TL n r2) as [r3 hl]. cbn [fst] in W3.
  cbn [fst]. apply WF_upd_ni.
  - apply (WF_upd_rch n (fold_left (fun m kv => fold_left (fun m' i => dec i m') (map fst (g_nhs (snd kv))) m) (tabg s0)));
      [exact W3|intros m; apply wf_fold_groups_dec].
  - intros s Hs. apply wf_ni_set_tabh; [|apply wf_nil]. destruct wfg_nil as [G1 G2].
    apply wf_ni_set_tabg; assumption.
Qed.
Lemma flush_WF v l r : WF r -> WF (fst (fst (flush v l r))).
Proof.
  unfold flush. generalize (@nil hevent) false. revert r.
  induction l as [|n l IH]; intros r h e W; cbn [fold_left fst]; [exact W|].
  pose proof (flush_ni_WF v n r W) as W1. destruct (flush_ni v n r) as [[r2 h2] e2]. apply IH. exact W1.
Qed.

Lemma wf_app_new {V} (l : amap V) k x : wf l -> nmem k l = false -> wf (l ++ [(k, x)]).
Proof.
  unfold wf, keys. intros H Hk. rewrite map_app. cbn [map fst].
  assert (Hn : ~ In k (map fst l)) by (intros Hin; apply nmem_in_keys in Hin; congruence).
  clear Hk. induction l as [|[k' y] l IH]; cbn in *; [constructor; [intros []|constructor]|].
  inversion H as [|? ? H1 H2]; subst. constructor.
  - rewrite in_app_iff. cbn. intros [Hin|[Heq|[]]]; [apply H1; exact Hin|apply Hn; left; congruence].
  - apply IH; [exact H2|]. intros Hin. apply Hn. right. exact Hin.
Qed.
Lemma add_ni_WF v n r : WF r -> WF (add_network_instance v n r).
Proof.
  intros W. unfold add_network_instance, has_ni. destruct (nmem n (nis r)) eqn:E; [exact W|].
  destruct W as (W1 & W2 & W3). split; [|split]; cbn [nis pend set_nis].
  - apply wf_app_new; assumption.
  - exact W2.
  - intros m s. rewrite nget_app. destruct (nget m (nis r)) as [s'|] eqn:Em.
    + intros H; inversion H; subst. eapply W3; eauto.
    + unfold nget, aget; cbn. destruct (m =? n); cbn; [|discriminate]. intros H; inversion H. apply wf_ni_empty.
Qed.
Lemma wf_ni_set_hooked b s : wf_ni s -> wf_ni (set_hooked b s).
Proof. intros H. exact H. Qed.
Lemma set_hook_WF r : WF r -> WF (set_post_change_hook r).
Proof.
  intros (W1 & W2 & W3). split; [|split]; cbn [nis pend set_post_change_hook].
  - unfold wf, keys. rewrite map_map. cbn [fst]. exact W1.
  - exact W2.
  - intros m s. rewrite (nget_map (set_hooked true)). destruct (nget m (nis r)) as [s'|] eqn:Em; cbn; [|discriminate].
    intros H; inversion H; subst. apply wf_ni_set_hooked. eapply W3; eauto.
Qed.

Theorem rstep_WF ordf v r i : WF r -> WF (fst (fst (rstep_ord ordf v r i))).
Proof.
  intros W. destruct i as [n o hf ho|n o|l|n| |]; cbn [rstep_ord rstep].
  - pose proof (add_entry_WF v (ordf hf ho) r n o W) as H. destruct (add_entry _ _ r n o) as [r1 o1]. exact H.
  - pose proof (delete_entry_WF v r n o W) as H. destruct (delete_entry v r n o) as [r1 o1]. exact H.
  - pose proof (flush_WF v l r W) as H. destruct (flush v l r) as [[r1 h1] e1]. exact H.
  - cbn [fst]. apply add_ni_WF, W.
  - cbn [fst]. apply set_hook_WF, W.
  - cbn [fst]. exact W.
Qed.
Theorem rfinal_WF ordf v h : forall r, WF r -> WF (rfinal_ord ordf v r h).
Proof. induction h as [|i h IH]; intros r W; cbn [rfinal_ord]; [exact W|]. apply IH, rstep_WF, W. Qed.
