(* C02: programmed-acknowledgement tracks reference resolvability.
   Definitions first (pure), then the proofs. *)
From Coq Require Import List Bool NArith Lia Permutation.
From GV.Base Require Import Alist U128 Op.
From GV.Rib Require Import Model Lemmas RefDefs.
Import ListNotations.
Open Scope N_scope.

(* ================================================================== *)
(* Definitions                                                        *)
(* ================================================================== *)

(* everything the operation references is installed (backup groups are not checked) *)
Definition resolvable (r : rib) (n : ni) (o : rop) : bool :=
  match op_entry o with
  | ENh _ _ => true
  | EGrp _ (Some g) => forallb (fun iw => nmem (fst iw) (tabh (sget r n))) (g_nhs g)
  | ETop _ _ _ (Some p) => nmem (t_nhg p) (tabg (sget r (fst (target n p))))
  | _ => false
  end.

(* no installed entry dangles *)
Definition closed (r : rib) : Prop :=
  (forall n id g, has_ni r n = true -> nget id (tabg (sget r n)) = Some g ->
     forall iw, In iw (g_nhs g) -> nmem (fst iw) (tabh (sget r n)) = true)
  /\ (forall n t k p, has_ni r n = true -> nget k (get_top t (sget r n)) = Some p ->
     nmem (t_nhg p) (tabg (sget r (fst (target n p)))) = true).

Definition installable (v : variant) (r : rib) (n : ni) (o : rop) : Prop :=
  exists r' h rv, try_install v r n o = Installed r' h rv.

(* no held operation could be installed now *)
Definition quiescent (v : variant) (r : rib) : Prop :=
  forall id n o, nget id (pend r) = Some (n, o) -> ~ installable v r n o.

(* the outcome class of try_install, computed from membership tests only *)
Inductive cls := CErr | CNotYet | CInst.
Definition cls_of (x : tryres) : cls :=
  match x with Err => CErr | NotYet => CNotYet | Installed _ _ _ => CInst end.
Definition is_replace (o : rop) : bool := match op_kind o with REPLACE => true | _ => false end.
Definition classify (r : rib) (n : ni) (o : rop) : cls :=
  if negb (has_ni r n) then CErr else
  match op_entry o with
  | ETop t k kv (Some pl) =>
    if negb (key_ok t k kv) || t_bad pl then CErr else
    if is_replace o && negb (nmem k (get_top t (sget r n))) then CErr else
    if t_nhg pl =? 0 then CErr else
    if negb (has_ni r (fst (target n pl))) then CErr else
    if negb (nmem (t_nhg pl) (tabg (sget r (fst (target n pl))))) then CNotYet else CInst
  | EGrp id (Some pl) =>
    if g_bad pl then CErr else
    if is_replace o && negb (nmem id (tabg (sget r n))) then CErr else
    if id =? 0 then CErr else
    match g_nhs pl with
    | [] => CErr
    | _ => if existsb (fun iw => fst iw =? 0) (g_nhs pl) then CErr else
           if negb (forallb (fun iw => nmem (fst iw) (tabh (sget r n))) (g_nhs pl)) then CNotYet else CInst
    end
  | ENh idx (Some pl) =>
    if h_bad pl then CErr else
    if is_replace o && negb (nmem idx (tabh (sget r n))) then CErr else
    if idx =? 0 then CErr else CInst
  | _ => CErr
  end.

(* no held operation is resolvable: it has been answered as soon as it became so *)
Definition unres (r : rib) : Prop :=
  forall id n o, nget id (pend r) = Some (n, o) -> resolvable r n o = false.

(* the held-operation map is keyed by the operation id; with forward references disallowed
   nothing is ever held *)
Definition PK (r : rib) : Prop := forall id n o, In (id, (n, o)) (pend r) -> op_id o = id.
Definition NF (r : rib) : Prop := nofwd r = true -> pend r = [].
Definition PWF (r : rib) : Prop := PK r /\ NF r.

(* a held operation names existing instances only (unknown ones are answered FAILED at once) *)
Definition held_ok (r : rib) : Prop :=
  forall id n o, nget id (pend r) = Some (n, o) ->
    has_ni r n = true /\
    match op_entry o with
    | ETop _ _ _ (Some p) => has_ni r (fst (target n p)) = true
    | _ => True
    end.

(* r2 has every instance of r1 and every installed key of r1 *)
Definition cle (s1 s2 : nistate) : Prop :=
  (forall k, nmem k (tabg s1) = true -> nmem k (tabg s2) = true)
  /\ (forall k, nmem k (tabh s1) = true -> nmem k (tabh s2) = true)
  /\ (forall t k, nmem k (get_top t s1) = true -> nmem k (get_top t s2) = true).
Definition le (r1 r2 : rib) : Prop :=
  (forall m, has_ni r1 m = has_ni r2 m) /\ forall m, cle (sget r1 m) (sget r2 m).

(* same tables, possibly different counters / hooks *)
Definition ceq (s1 s2 : nistate) : Prop :=
  tabg s1 = tabg s2 /\ tabh s1 = tabh s2 /\ forall t, get_top t s1 = get_top t s2.
Definition teq (r1 r2 : rib) : Prop :=
  pend r1 = pend r2 /\ nofwd r1 = nofwd r2 /\ (forall m, has_ni r1 m = has_ni r2 m)
  /\ forall m, ceq (sget r1 m) (sget r2 m).

(* boolean checkers for concrete states *)
Definition closedb (r : rib) : bool :=
  forallb (fun ns : N * nistate =>
    let n := fst ns in let s := sget r n in
    forallb (fun ig : N * grp => forallb (fun iw : N * N => nmem (fst iw) (tabh s)) (g_nhs (snd ig))) (tabg s)
    && forallb (fun t => forallb (fun kp : N * top => nmem (t_nhg (snd kp)) (tabg (sget r (fst (target n (snd kp))))))
                                 (get_top t s)) [T4; T6; TL]) (nis r).
Definition quiescentb (r : rib) : bool :=
  forallb (fun e : N * (ni * rop) =>
             match classify r (fst (snd e)) (snd (snd e)) with CInst => false | _ => true end) (pend r).

Definition opid (e : N * (ni * rop)) : N := op_id (snd (snd e)).

(* ---- concrete histories used by the witnesses ---- *)
Definition idord (l : amap (ni * rop)) := l.
Definition revord (l : amap (ni * rop)) := List.rev l.
Definition addv (ord : amap (ni * rop) -> amap (ni * rop)) (r : rib) (n : ni) (o : rop) : rib :=
  fst (add_entry v_fixed ord r n o).

(* instance 1 holds next-hop 7 and group 5; instance 2 holds an IPv4 entry pointing at group 5 of instance 1 *)
Definition pf_state : rib :=
  let r0 := add_network_instance v_fixed 2 (rib0 1 false) in
  let r1 := addv idord r0 1 (mk_op 1 1 ADD None (ENh 7 (Some (mk_nh [])))) in
  let r2 := addv idord r1 1 (mk_op 2 1 ADD None (EGrp 5 (Some (mk_grp [(7, 1)] 0 [])))) in
  addv idord r2 2 (mk_op 3 2 ADD None (ETop T4 100 true (Some (mk_top 5 1 [])))).

(* a held explicit REPLACE of key 10 (its key has been deleted meanwhile) and a held ADD of the
   same key, both waiting for group 5 *)
Definition om_state : rib :=
  let r0 := rib0 1 false in
  let r1 := addv idord r0 1 (mk_op 1 1 ADD None (ENh 7 (Some (mk_nh [])))) in
  let r2 := addv idord r1 1 (mk_op 2 1 ADD None (EGrp 6 (Some (mk_grp [(7, 1)] 0 [])))) in
  let r3 := addv idord r2 1 (mk_op 3 1 ADD None (ETop T4 10 true (Some (mk_top 6 0 [])))) in
  let r4 := addv idord r3 1 (mk_op 4 1 REPLACE None (ETop T4 10 true (Some (mk_top 5 0 [])))) in
  let r5 := fst (delete_entry v_fixed r4 1 (mk_op 5 1 DELETE None (ETop T4 10 true None))) in
  addv idord r5 1 (mk_op 6 1 ADD None (ETop T4 10 true (Some (mk_top 5 0 [])))).
Definition om_op : rop := mk_op 7 1 ADD None (EGrp 5 (Some (mk_grp [(7, 1)] 0 []))).

(* held, newest first: ADD 11->g5 (id 8), explicit REPLACE 10->g5 whose key was deleted (id 4),
   ADD 10->g5 (id 6) *)
Definition fa_state : rib :=
  let r0 := rib0 1 false in
  let r1 := addv idord r0 1 (mk_op 1 1 ADD None (ENh 7 (Some (mk_nh [])))) in
  let r2 := addv idord r1 1 (mk_op 2 1 ADD None (EGrp 6 (Some (mk_grp [(7, 1)] 0 [])))) in
  let r3 := addv idord r2 1 (mk_op 3 1 ADD None (ETop T4 10 true (Some (mk_top 6 0 [])))) in
  let r4 := addv idord r3 1 (mk_op 6 1 ADD None (ETop T4 10 true (Some (mk_top 5 0 [])))) in
  let r5 := addv idord r4 1 (mk_op 4 1 REPLACE None (ETop T4 10 true (Some (mk_top 5 0 [])))) in
  let r6 := fst (delete_entry v_fixed r5 1 (mk_op 5 1 DELETE None (ETop T4 10 true None))) in
  addv idord r6 1 (mk_op 8 1 ADD None (ETop T4 11 true (Some (mk_top 5 0 [])))).

(* IPv4 entry, its group and its next-hop arrive in reverse order *)
Definition ex_r1 : rib := addv idord (rib0 1 false) 1 (mk_op 1 1 ADD None (ETop T4 100 true (Some (mk_top 5 0 [])))).
Definition ex_r2 : rib := addv idord ex_r1 1 (mk_op 2 1 ADD None (EGrp 5 (Some (mk_grp [(7, 1)] 0 [])))).
Definition ex_last := add_entry v_fixed idord ex_r2 1 (mk_op 3 1 ADD None (ENh 7 (Some (mk_nh [])))).

(* one RIB-changing call, the Go map order of each AddEntry being any permutation *)
Inductive rib_step (v : variant) : rib -> rib -> Prop :=
| SAdd ord r n o : (forall l, Permutation (ord l) l) -> rib_step v r (fst (add_entry v ord r n o))
| SDel r n o : rib_step v r (fst (delete_entry v r n o))
| SFlush l r : rib_step v r (fst (fst (flush v l r)))
| SAddNI n r : rib_step v r (add_network_instance v n r)
| SHook r : rib_step v r (set_post_change_hook r)
| SResHook r : rib_step v r (set_resolved_hook r).
Inductive rib_reach (v : variant) (r0 : rib) : rib -> Prop :=
| reach_refl : rib_reach v r0 r0
| reach_step r r' : rib_reach v r0 r -> rib_step v r r' -> rib_reach v r0 r'.

(* histories that keep closedness: flushes cover every existing instance; a DELETE is taken from a
   state whose counters are exact (RC is an invariant of every history, see Rib/RefCount.v) *)
Inductive safe_step (v : variant) : rib -> rib -> Prop :=
| FAdd ord r n o : safe_step v r (fst (add_entry v ord r n o))
| FDel r n o : RC r -> safe_step v r (fst (delete_entry v r n o))
| FFlush l r : (forall m, has_ni r m = true -> In m l) -> safe_step v r (fst (fst (flush v l r)))
| FAddNI n r : safe_step v r (add_network_instance v n r)
| FHook r : safe_step v r (set_post_change_hook r)
| FResHook r : safe_step v r (set_resolved_hook r).
Inductive safe_reach (v : variant) (r0 : rib) : rib -> Prop :=
| sreach_refl : safe_reach v r0 r0
| sreach_step r r' : safe_reach v r0 r -> safe_step v r r' -> safe_reach v r0 r'.

(* ================================================================== *)
(* Proofs                                                             *)
(* ================================================================== *)

(* ---- small list facts ---- *)
Lemma forallb_impl {A} (f g : A -> bool) l :
  (forall x, In x l -> f x = true -> g x = true) -> forallb f l = true -> forallb g l = true.
Proof.
  induction l as [|x l IH]; cbn; auto. intros H E. apply andb_true_iff in E. destruct E as [E1 E2].
  apply andb_true_iff. split; [apply H; auto|apply IH; auto].
Qed.
Lemma forallb_ext' {A} (f g : A -> bool) l : (forall x, f x = g x) -> forallb f l = forallb g l.
Proof. intros H. induction l as [|x l IH]; cbn; auto. rewrite H, IH. reflexivity. Qed.

Lemma in_nset {V} k (v : V) l x : In x (nset k v l) -> x = (k, v) \/ In x l.
Proof.
  unfold nset, aset. intros [H|H]; [left; auto|right]. unfold adel in H. apply filter_In in H. tauto.
Qed.
Lemma in_ndel {V} k (l : amap V) x : In x (ndel k l) -> In x l /\ fst x <> k.
Proof.
  unfold ndel, adel. intros H. apply filter_In in H. destruct H as [H1 H2]. split; auto.
  intros E. rewrite E, N.eqb_refl in H2. discriminate.
Qed.
Lemma nmem_true_iff {V} k (l : amap V) : nmem k l = true <-> exists v, nget k l = Some v.
Proof. unfold nmem. destruct (nget k l) as [v|]; split; intros H; eauto; try discriminate. destruct H; discriminate. Qed.
Lemma nget_nmem {V} k (l : amap V) v : nget k l = Some v -> nmem k l = true.
Proof. unfold nmem. intros ->. reflexivity. Qed.

(* ---- ceq / teq ---- *)
Lemma ceq_refl s : ceq s s.
Proof. repeat split. Qed.
Lemma ceq_sym a b : ceq a b -> ceq b a.
Proof. intros (H1 & H2 & H3). repeat split; auto. Qed.
Lemma ceq_trans a b c : ceq a b -> ceq b c -> ceq a c.
Proof. intros (H1 & H2 & H3) (G1 & G2 & G3). split; [congruence|]. split; [congruence|]. intros t. rewrite H3. apply G3. Qed.
Lemma teq_refl r : teq r r.
Proof. repeat split. Qed.
Lemma teq_sym a b : teq a b -> teq b a.
Proof. intros (H1 & H2 & H3 & H4). split; [auto|]. split; [auto|]. split; [auto|]. intros m. apply ceq_sym, H4. Qed.
Lemma teq_trans a b c : teq a b -> teq b c -> teq a c.
Proof.
  intros (H1 & H2 & H3 & H4) (G1 & G2 & G3 & G4). split; [congruence|]. split; [congruence|].
  split; [intros m; rewrite H3; apply G3|]. intros m. eapply ceq_trans; eauto.
Qed.

Lemma sget_upd_ni_ex a f r m : has_ni r a = true ->
  sget (upd_ni a f r) m = if a =? m then f (sget r a) else sget r m.
Proof. intros H. rewrite sget_upd_ni, H, andb_true_r. reflexivity. Qed.

Lemma teq_upd_keep a f r : (forall s, ceq (f s) s) -> teq (upd_ni a f r) r.
Proof.
  intros H. split; [apply pend_upd_ni|]. split; [apply nofwd_upd_ni|]. split; [intros m; apply has_ni_upd|].
  intros m. rewrite sget_upd_ni. destruct ((a =? m) && has_ni r a) eqn:E; [|apply ceq_refl].
  apply andb_true_iff in E. destruct E as [E _]. apply N.eqb_eq in E. subst. apply H.
Qed.
Lemma teq_upd_cong a f r1 r2 : (forall s1 s2, ceq s1 s2 -> ceq (f s1) (f s2)) -> teq r1 r2 ->
  teq (upd_ni a f r1) (upd_ni a f r2).
Proof.
  intros Hf (H1 & H2 & H3 & H4). split; [rewrite !pend_upd_ni; auto|]. split; [rewrite !nofwd_upd_ni; auto|].
  split; [intros m; rewrite !has_ni_upd; auto|].
  intros m. rewrite !sget_upd_ni, H3. destruct ((a =? m) && has_ni r2 a); auto.
Qed.
Lemma teq_fold_keep {X} (a : X -> ni) (f : X -> nistate -> nistate) l r :
  (forall x s, ceq (f x s) s) -> teq (fold_left (fun r' x => upd_ni (a x) (f x) r') l r) r.
Proof.
  intros H. revert r. induction l as [|x l IH]; intros r; cbn [fold_left]; [apply teq_refl|].
  eapply teq_trans; [apply IH|]. apply teq_upd_keep. apply H.
Qed.
Lemma teq_set_pend_same m r1 r2 : teq r1 r2 -> teq (set_pend m r1) (set_pend m r2).
Proof. intros (H1 & H2 & H3 & H4). repeat split; auto; apply H4. Qed.

Lemma ceq_set_rcg m s : ceq (set_rcg m s) s.
Proof. repeat split. Qed.
Lemma ceq_set_rch m s : ceq (set_rch m s) s.
Proof. repeat split. Qed.

(* ---- le ---- *)
Lemma cle_refl s : cle s s.
Proof. repeat split; auto. Qed.
Lemma cle_trans a b c : cle a b -> cle b c -> cle a c.
Proof. intros (H1 & H2 & H3) (G1 & G2 & G3). repeat split; auto. Qed.
Lemma le_refl r : le r r.
Proof. split; auto. intros; apply cle_refl. Qed.
Lemma le_trans a b c : le a b -> le b c -> le a c.
Proof. intros [H1 H2] [G1 G2]. split; [intros m; rewrite H1; auto|]. intros m. eapply cle_trans; eauto. Qed.
Lemma ceq_cle a b : ceq a b -> cle a b.
Proof. intros (H1 & H2 & H3). repeat split; intros; [rewrite <- H1|rewrite <- H2|rewrite <- H3]; auto. Qed.
Lemma teq_le a b : teq a b -> le a b.
Proof. intros (_ & _ & H3 & H4). split; auto. intros m. apply ceq_cle, H4. Qed.
Lemma le_nis_eq a b : nis a = nis b -> le a b.
Proof. intros H. unfold le, has_ni, sget. rewrite H. split; auto. intros; apply cle_refl. Qed.

(* ---- classify is the outcome class of try_install (for every variant) ---- *)
Lemma forallb_has_nh r n (l : list (N * N)) :
  forallb (fun iw => has_nh r n (fst iw)) l = forallb (fun iw => nmem (fst iw) (tabh (sget r n))) l.
Proof. apply forallb_ext'. intros x. apply has_nh_sget. Qed.

Lemma classify_spec v r n o : classify r n o = cls_of (try_install v r n o).
Proof.
  unfold classify, try_install.
  destruct (nget n (nis r)) as [s|] eqn:E.
  2:{ unfold has_ni, nmem. rewrite E. reflexivity. }
  rewrite (has_ni_some _ _ _ E), (sget_some _ _ _ E). cbn [negb].
  change (match op_kind o with REPLACE => true | _ => false end) with (is_replace o).
  destruct (op_entry o) as [t k kv [pl|]|id [pl|]|idx [pl|]|]; try reflexivity.
  - unfold try_add_top.
    destruct (negb (key_ok t k kv) || t_bad pl); [reflexivity|].
    destruct (is_replace o && negb (nmem k (get_top t s))); [reflexivity|].
    destruct (t_nhg pl =? 0); [reflexivity|].
    destruct (target n pl) as [tn tg] eqn:Et. cbn [fst].
    assert (tg = t_nhg pl) by (unfold target in Et; inversion Et; reflexivity). subst tg.
    destruct (negb (has_ni r tn)); [reflexivity|].
    rewrite has_grp_sget.
    destruct (negb (nmem _ _)); reflexivity.
  - unfold try_add_grp.
    destruct (g_bad pl); [reflexivity|].
    destruct (is_replace o && negb (nmem id (tabg s))); [reflexivity|].
    destruct (id =? 0); [reflexivity|].
    rewrite forallb_has_nh, (sget_some _ _ _ E).
    destruct (g_nhs pl) as [|a l]; [reflexivity|].
    destruct (existsb _ _); [reflexivity|].
    destruct (negb (forallb _ _)); reflexivity.
  - unfold try_add_nh.
    destruct (h_bad pl); [reflexivity|].
    destruct (is_replace o && negb (nmem idx (tabh s))); [reflexivity|].
    destruct (idx =? 0); reflexivity.
Qed.

Lemma installable_iff v r n o : installable v r n o <-> classify r n o = CInst.
Proof.
  rewrite (classify_spec v). unfold installable. destruct (try_install v r n o); cbn; split; intros H;
    try discriminate; try (destruct H as (a & b & c & H); discriminate); eauto.
Qed.
Lemma classify_nis_eq r1 r2 n o : nis r1 = nis r2 -> classify r1 n o = classify r2 n o.
Proof. intros H. unfold classify, has_ni, sget. rewrite H. reflexivity. Qed.

(* ---- what a successful install does to the tables ---- *)
Inductive inst_eff (r : rib) (n : ni) (o : rop) (r' : rib) : Prop :=
| IE_top t k kv pl : op_entry o = ETop t k kv (Some pl) ->
    has_ni r (fst (target n pl)) = true ->
    nmem (t_nhg pl) (tabg (sget r (fst (target n pl)))) = true ->
    teq r' (upd_ni n (fun s' => set_top t (nset k pl (get_top t s')) s') r) -> inst_eff r n o r'
| IE_grp id pl : op_entry o = EGrp id (Some pl) ->
    forallb (fun iw => nmem (fst iw) (tabh (sget r n))) (g_nhs pl) = true ->
    teq r' (upd_ni n (fun s' => set_tabg (nset id (norm_grp pl) (tabg s')) s') r) -> inst_eff r n o r'
| IE_nh idx pl : op_entry o = ENh idx (Some pl) ->
    teq r' (upd_ni n (fun s' => set_tabh (nset idx pl (tabh s')) s') r) -> inst_eff r n o r'.

Lemma try_install_effect v r n o r' h rv : try_install v r n o = Installed r' h rv ->
  has_ni r n = true /\ inst_eff r n o r'.
Proof.
  unfold try_install. destruct (nget n (nis r)) as [s|] eqn:E; [|discriminate].
  pose proof (has_ni_some _ _ _ E) as Hn.
  destruct (op_entry o) as [t k kv [pl|]|id [pl|]|idx [pl|]|] eqn:Eo; try discriminate; intros H; split; auto.
  - unfold try_add_top in H.
    destruct (negb (key_ok t k kv) || t_bad pl); [discriminate|].
    destruct (_ && negb (nmem k (get_top t s))); [discriminate|].
    destruct (t_nhg pl =? 0); [discriminate|].
    destruct (target n pl) as [tn tg] eqn:Et.
    assert (tg = t_nhg pl) by (unfold target in Et; inversion Et; reflexivity). subst tg.
    destruct (negb (has_ni r tn)) eqn:Eh; [discriminate|]. apply negb_false_iff in Eh.
    destruct (negb (has_grp r tn (t_nhg pl))) eqn:Eg; [discriminate|]. apply negb_false_iff in Eg.
    rewrite has_grp_sget in Eg.
    inversion H; subst r'. clear H.
    eapply IE_top; [exact Eo|rewrite Et; exact Eh|rewrite Et; exact Eg|].
    destruct (nget k (get_top t s)) as [o0|].
    + destruct (same_ref o0 pl); [apply teq_refl|].
      destruct (target n o0) as [on og].
      eapply teq_trans; apply teq_upd_keep; intros; apply ceq_set_rcg.
    + apply teq_upd_keep; intros; apply ceq_set_rcg.
  - unfold try_add_grp in H.
    destruct (g_bad pl); [discriminate|].
    destruct (_ && negb (nmem id (tabg s))); [discriminate|].
    destruct (id =? 0); [discriminate|].
    rewrite forallb_has_nh in H.
    destruct (g_nhs pl) as [|a l] eqn:El; [discriminate|].
    destruct (existsb _ _); [discriminate|].
    destruct (negb (forallb _ _)) eqn:Ef; [discriminate|]. apply negb_false_iff in Ef.
    inversion H; subst r'. clear H.
    eapply IE_grp; [exact Eo|rewrite El; exact Ef|].
    destruct (nget id (tabg s)) as [o0|].
    + eapply teq_trans; apply teq_upd_keep; intros; apply ceq_set_rch.
    + apply teq_upd_keep; intros; apply ceq_set_rch.
  - unfold try_add_nh in H.
    destruct (h_bad pl); [discriminate|].
    destruct (_ && negb (nmem idx (tabh s))); [discriminate|].
    destruct (idx =? 0); [discriminate|].
    inversion H; subst r'. eapply IE_nh; [exact Eo|apply teq_refl].
Qed.

(* (a) acknowledged only when resolvable *)
Lemma ack_only_resolvable v r n o r' h rv :
  try_install v r n o = Installed r' h rv -> resolvable r n o = true.
Proof.
  intros H. apply try_install_effect in H. destruct H as [_ H]. unfold resolvable.
  destruct H as [t k kv pl Eo H1 H2 _|id pl Eo H1 _|idx pl Eo _]; rewrite Eo; auto.
Qed.

(* ---- consequences of an install: tables only grow, closedness is kept ---- *)
Lemma le_upd n f r : has_ni r n = true -> cle (sget r n) (f (sget r n)) -> le r (upd_ni n f r).
Proof.
  intros Hn Hc. split; [intros m; symmetry; apply has_ni_upd|].
  intros m. rewrite sget_upd_ni_ex by auto. destruct (N.eqb_spec n m); subst; auto. apply cle_refl.
Qed.
Lemma get_set_top_other t0 t m s : t0 <> t -> get_top t0 (set_top t m s) = get_top t0 s.
Proof. intros H. destruct t0, t; try congruence; reflexivity. Qed.
Lemma tkind_dec (a b : tkind) : a = b \/ a <> b.
Proof. destruct a, b; auto; right; discriminate. Qed.

Lemma cle_set_top t k pl s : cle s (set_top t (nset k pl (get_top t s)) s).
Proof.
  split; [|split].
  - intros k0 H. rewrite tabg_set_top. exact H.
  - intros k0 H. rewrite tabh_set_top. exact H.
  - intros t0 k0 H. destruct (tkind_dec t0 t) as [->|Hne].
    + rewrite get_set_top_same, nmem_nset, H. apply orb_true_r.
    + rewrite get_set_top_other by auto. exact H.
Qed.
Lemma cle_set_tabg id g s : cle s (set_tabg (nset id g (tabg s)) s).
Proof.
  split; [|split].
  - intros k H. cbn [tabg set_tabg]. rewrite nmem_nset, H. apply orb_true_r.
  - intros k H. exact H.
  - intros t k H. destruct t; exact H.
Qed.
Lemma cle_set_tabh id g s : cle s (set_tabh (nset id g (tabh s)) s).
Proof.
  split; [|split].
  - intros k H. exact H.
  - intros k H. cbn [tabh set_tabh]. rewrite nmem_nset, H. apply orb_true_r.
  - intros t k H. destruct t; exact H.
Qed.

Lemma inst_eff_le r n o r' : has_ni r n = true -> inst_eff r n o r' ->
  le r r' /\ pend r' = pend r /\ nofwd r' = nofwd r.
Proof.
  intros Hn H. destruct H as [t k kv pl Eo H1 H2 T|id pl Eo H1 T|idx pl Eo T].
  all: pose proof (teq_le _ _ (teq_sym _ _ T)) as L; destruct T as (T1 & T2 & _).
  all: rewrite pend_upd_ni in T1; rewrite nofwd_upd_ni in T2; split; [|split; auto].
  all: eapply le_trans; [|exact L]; apply le_upd; auto.
  - apply cle_set_top.
  - apply cle_set_tabg.
  - apply cle_set_tabh.
Qed.

Lemma closed_teq r1 r2 : teq r1 r2 -> closed r2 -> closed r1.
Proof.
  intros (_ & _ & Hh & Hc) [C1 C2]. split.
  - intros n id g Hn Hg iw Hi. destruct (Hc n) as (Eg & Ehh & _). rewrite Eg in Hg. rewrite Ehh.
    rewrite Hh in Hn. eapply C1; eauto.
  - intros n t k p Hn Hp. destruct (Hc n) as (_ & _ & Et). rewrite Et in Hp.
    destruct (Hc (fst (target n p))) as (Eg & _). rewrite Eg. rewrite Hh in Hn. eapply C2; eauto.
Qed.
Lemma closed_nis_eq r1 r2 : nis r1 = nis r2 -> closed r1 -> closed r2.
Proof. intros H. unfold closed, has_ni, sget. rewrite H. auto. Qed.

Lemma closed_add_top r n t k pl : has_ni r n = true ->
  nmem (t_nhg pl) (tabg (sget r (fst (target n pl)))) = true -> closed r ->
  closed (upd_ni n (fun s' => set_top t (nset k pl (get_top t s')) s') r).
Proof.
  intros Hn Hg [C1 C2].
  remember (upd_ni n (fun s' => set_top t (nset k pl (get_top t s')) s') r) as r1 eqn:Er1.
  assert (TG : forall m, tabg (sget r1 m) = tabg (sget r m)).
  { intros m. subst r1. rewrite sget_upd_ni_ex by auto. destruct (N.eqb_spec n m); subst; auto. apply tabg_set_top. }
  assert (TH : forall m, tabh (sget r1 m) = tabh (sget r m)).
  { intros m. subst r1. rewrite sget_upd_ni_ex by auto. destruct (N.eqb_spec n m); subst; auto. apply tabh_set_top. }
  assert (HN : forall m, has_ni r1 m = has_ni r m) by (intros m; subst r1; apply has_ni_upd).
  split.
  - intros m id g Hm Hb iw Hi. rewrite TG in Hb. rewrite TH. rewrite HN in Hm. eapply C1; eauto.
  - intros m t0 k0 p Hm Hb. rewrite TG. rewrite HN in Hm.
    subst r1. rewrite sget_upd_ni_ex in Hb by auto.
    destruct (N.eqb_spec n m) as [<-|Hne]; [|eapply C2; eauto].
    destruct (tkind_dec t0 t) as [->|Hnt].
    + rewrite get_set_top_same, nget_nset in Hb.
      destruct (N.eqb_spec k k0); [inversion Hb; subst; exact Hg|eapply C2; eauto].
    + rewrite get_set_top_other in Hb by auto. eapply C2; eauto.
Qed.

Lemma closed_add_grp r n id pl : has_ni r n = true ->
  forallb (fun iw => nmem (fst iw) (tabh (sget r n))) (g_nhs pl) = true -> closed r ->
  closed (upd_ni n (fun s' => set_tabg (nset id (norm_grp pl) (tabg s')) s') r).
Proof.
  intros Hn Hg [C1 C2].
  remember (upd_ni n (fun s' => set_tabg (nset id (norm_grp pl) (tabg s')) s') r) as r1 eqn:Er1.
  assert (TG : forall m, tabg (sget r1 m) = if n =? m then nset id (norm_grp pl) (tabg (sget r n)) else tabg (sget r m)).
  { intros m. subst r1. rewrite sget_upd_ni_ex by auto. destruct (n =? m); reflexivity. }
  assert (TH : forall m, tabh (sget r1 m) = tabh (sget r m)).
  { intros m. subst r1. rewrite sget_upd_ni_ex by auto. destruct (N.eqb_spec n m); subst; reflexivity. }
  assert (TT : forall m t, get_top t (sget r1 m) = get_top t (sget r m)).
  { intros m t. subst r1. rewrite sget_upd_ni_ex by auto. destruct (N.eqb_spec n m); subst; auto; destruct t; reflexivity. }
  assert (HN : forall m, has_ni r1 m = has_ni r m) by (intros m; subst r1; apply has_ni_upd).
  split.
  - intros m id0 g Hm Hb iw Hi. rewrite TG in Hb. rewrite TH. rewrite HN in Hm.
    destruct (N.eqb_spec n m) as [<-|Hne]; [|eapply C1; eauto].
    rewrite nget_nset in Hb. destruct (N.eqb_spec id id0); [|eapply C1; eauto].
    inversion Hb; subst g. cbn [norm_grp g_nhs] in Hi.
    assert (Hk : In (fst iw) (map fst (g_nhs pl))) by (apply dedup_nhs_keys; apply in_map; exact Hi).
    apply in_map_iff in Hk. destruct Hk as (iw' & Hf & Hi').
    rewrite forallb_forall in Hg. rewrite <- Hf. apply Hg. exact Hi'.
  - intros m t0 k0 p Hm Hb. rewrite TT in Hb. rewrite HN in Hm. rewrite TG.
    pose proof (C2 _ _ _ _ Hm Hb) as H.
    destruct (n =? fst (target m p)) eqn:En; [|exact H].
    apply N.eqb_eq in En. rewrite <- En in H. rewrite nmem_nset, H. apply orb_true_r.
Qed.

Lemma closed_add_nh r n idx pl : has_ni r n = true -> closed r ->
  closed (upd_ni n (fun s' => set_tabh (nset idx pl (tabh s')) s') r).
Proof.
  intros Hn [C1 C2].
  remember (upd_ni n (fun s' => set_tabh (nset idx pl (tabh s')) s') r) as r1 eqn:Er1.
  assert (TG : forall m, tabg (sget r1 m) = tabg (sget r m)).
  { intros m. subst r1. rewrite sget_upd_ni_ex by auto. destruct (N.eqb_spec n m); subst; reflexivity. }
  assert (TH : forall m, tabh (sget r1 m) = if n =? m then nset idx pl (tabh (sget r n)) else tabh (sget r m)).
  { intros m. subst r1. rewrite sget_upd_ni_ex by auto. destruct (n =? m); reflexivity. }
  assert (TT : forall m t, get_top t (sget r1 m) = get_top t (sget r m)).
  { intros m t. subst r1. rewrite sget_upd_ni_ex by auto. destruct (N.eqb_spec n m); subst; auto; destruct t; reflexivity. }
  assert (HN : forall m, has_ni r1 m = has_ni r m) by (intros m; subst r1; apply has_ni_upd).
  split.
  - intros m id0 g Hm Hb iw Hi. rewrite TG in Hb. rewrite TH. rewrite HN in Hm.
    pose proof (C1 _ _ _ Hm Hb _ Hi) as H.
    destruct (N.eqb_spec n m) as [<-|Hne]; [|exact H]. rewrite nmem_nset, H. apply orb_true_r.
  - intros m t0 k0 p Hm Hb. rewrite TT in Hb. rewrite HN in Hm. rewrite TG. eapply C2; eauto.
Qed.

Lemma inst_eff_closed r n o r' : has_ni r n = true -> inst_eff r n o r' -> closed r -> closed r'.
Proof.
  intros Hn H C. destruct H as [t k kv pl Eo H1 H2 T|id pl Eo H1 T|idx pl Eo T];
    apply (closed_teq _ _ T).
  - apply closed_add_top; auto.
  - apply closed_add_grp; auto.
  - apply closed_add_nh; auto.
Qed.

Lemma resolvable_le r1 r2 n o : le r1 r2 -> resolvable r1 n o = true -> resolvable r2 n o = true.
Proof.
  intros [_ L]. unfold resolvable. destruct (op_entry o) as [t k kv [p|]|id [g|]|idx p|]; auto.
  - destruct (L (fst (target n p))) as (H & _). apply H.
  - destruct (L n) as (_ & H & _). apply forallb_impl. intros x _. apply H.
Qed.

Lemma existsb_eqb_in x l : existsb (N.eqb x) l = true <-> In x l.
Proof.
  rewrite existsb_exists. split.
  - intros (y & Hy & E). apply N.eqb_eq in E. subst. exact Hy.
  - intros H. exists x. split; auto. apply N.eqb_refl.
Qed.

(* ---- a generic induction principle for the cascade ---- *)
Section AeiRel.
  Variable v : variant.
  Variable ord : amap (ni * rop) -> amap (ni * rop).
  Variable R : rib * out * list N -> rib * out * list N -> Prop.
  Hypothesis R_refl : forall st, R st st.
  Hypothesis R_trans : forall a b c, R a b -> R b c -> R a c.
  Hypothesis R_nofuel : forall r acc stk, R (r, acc, stk) (r, set_nofuel acc, stk).
  Hypothesis R_err : forall r acc stk n o, ~ In (op_id o) stk -> try_install v r n o = Err ->
    R (r, acc, stk) ((if fixF5 v then set_pend (ndel (op_id o) (pend r)) r else r), add_fail (op_id o) acc,
                     if fixF5 v then op_id o :: stk else stk).
  Hypothesis R_fail : forall r acc stk n o, ~ In (op_id o) stk -> try_install v r n o = NotYet -> nofwd r = true ->
    R (r, acc, stk) (r, add_fail (op_id o) acc, stk).
  Hypothesis R_hold : forall r acc stk n o, ~ In (op_id o) stk -> try_install v r n o = NotYet -> nofwd r = false ->
    R (r, acc, stk) (set_pend (nset (op_id o) (n, o) (pend r)) r, acc, stk).
  Hypothesis R_inst : forall r acc stk n o r' h rv, ~ In (op_id o) stk -> try_install v r n o = Installed r' h rv ->
    R (r, acc, stk) (set_pend (ndel (op_id o) (pend r')) r', add_rev rv (add_hev h (add_ok n o acc)), op_id o :: stk).

  Lemma fold_rel (g : rib * out * list N -> N * (ni * rop) -> rib * out * list N) :
    (forall st e, R st (g st e)) -> forall l st, R st (fold_left g l st).
  Proof.
    intros Hg. induction l as [|e l IH]; intros st; cbn [fold_left]; [apply R_refl|].
    eapply R_trans; [apply Hg|apply IH].
  Qed.

  Lemma aei_rel : forall F st n o, R st (aei v ord F st n o).
  Proof.
    induction F as [|f IH]; intros [[r acc] stk] n o; cbn [aei].
    - apply R_nofuel.
    - destruct (existsb _ stk) eqn:Ex; [apply R_refl|].
      assert (Hns : ~ In (op_id o) stk) by (intros Hi; apply existsb_eqb_in in Hi; congruence).
      destruct (try_install v r n o) as [| |r' h rv] eqn:E.
      + apply (R_err r acc stk n o Hns E).
      + destruct (nofwd r) eqn:En; [apply (R_fail r acc stk n o Hns E En)|apply (R_hold r acc stk n o Hns E En)].
      + eapply R_trans; [eapply R_inst; eauto|].
        apply fold_rel. intros st e. apply IH.
  Qed.
End AeiRel.

Lemma add_entry_cases v ord r n o :
  add_entry v ord r n o = (r, set_fatal out0) \/
  (n <> 0 /\ has_ni r n = true /\ op_entry o <> ENone /\
   exists stk, aei v ord (S (length (pend r))) (r, out0, []) n o
               = (fst (add_entry v ord r n o), snd (add_entry v ord r n o), stk)).
Proof.
  unfold add_entry. destruct (N.eqb_spec n 0) as [->|Hn]; cbn [orb]; auto.
  destruct (has_ni r n) eqn:Hh; cbn [negb]; auto.
  destruct (aei v ord (S (length (pend r))) (r, out0, []) n o) as [[r' acc] stk] eqn:E.
  destruct (op_entry o) eqn:Eo; auto; right; repeat split; auto; try discriminate; exists stk; reflexivity.
Qed.

(* ---- invariants of the held-operation map ---- *)
Lemma PK_ndel k r : PK r -> PK (set_pend (ndel k (pend r)) r).
Proof. intros H id n o Hi. cbn [pend set_pend] in Hi. apply in_ndel in Hi. apply H with n. tauto. Qed.
Lemma PK_nset n o r : PK r -> PK (set_pend (nset (op_id o) (n, o) (pend r)) r).
Proof.
  intros H id n' o' Hi. cbn [pend set_pend] in Hi. apply in_nset in Hi. destruct Hi as [Hi|Hi].
  - inversion Hi; subst. reflexivity.
  - eapply H; eauto.
Qed.
Lemma ndel_nil_inv {V} k : @ndel V k [] = [].
Proof. reflexivity. Qed.

Lemma classify_notyet_ni r n o : classify r n o = CNotYet ->
  has_ni r n = true /\ match op_entry o with
                       | ETop _ _ _ (Some p) => has_ni r (fst (target n p)) = true
                       | _ => True
                       end.
Proof.
  unfold classify. destruct (has_ni r n); cbn [negb]; [|discriminate]. intros H. split; auto.
  destruct (op_entry o) as [t k kv [pl|]|id [pl|]|idx [pl|]|]; auto.
  destruct (negb (key_ok t k kv) || t_bad pl); [discriminate|].
  destruct (is_replace o && _); [discriminate|].
  destruct (t_nhg pl =? 0); [discriminate|].
  destruct (has_ni r (fst (target n pl))); [reflexivity|discriminate].
Qed.

Lemma held_ok_sub r r' : (forall m, has_ni r m = true -> has_ni r' m = true) ->
  (forall id n o, nget id (pend r') = Some (n, o) -> nget id (pend r) = Some (n, o) \/ classify r n o = CNotYet) ->
  held_ok r -> held_ok r'.
Proof.
  intros Hh Hp H id n o Hb.
  assert (G : has_ni r n = true /\ match op_entry o with
                       | ETop _ _ _ (Some p) => has_ni r (fst (target n p)) = true
                       | _ => True
                       end).
  { destruct (Hp _ _ _ Hb) as [Hb'|Hc]; [eapply H; eauto|apply classify_notyet_ni; auto]. }
  destruct G as [G1 G2]. split; auto.
  destruct (op_entry o) as [t k kv [pl|]|? ?|? ?|]; auto.
Qed.

Definition Rall (a b : rib * out * list N) : Prop :=
  le (fst (fst a)) (fst (fst b)) /\ nofwd (fst (fst b)) = nofwd (fst (fst a))
  /\ (closed (fst (fst a)) -> closed (fst (fst b)))
  /\ (PK (fst (fst a)) -> PK (fst (fst b)))
  /\ (NF (fst (fst a)) -> NF (fst (fst b)))
  /\ (held_ok (fst (fst a)) -> held_ok (fst (fst b)))
  /\ exists ext, acked (snd (fst b)) = acked (snd (fst a)) ++ ext
                 /\ oks (snd (fst b)) = oks (snd (fst a)) ++ map (fun x => op_id (snd x)) ext
                 /\ forall m p, In (m, p) ext -> resolvable (fst (fst b)) m p = true.

Lemma Rall_refl st : Rall st st.
Proof.
  unfold Rall. repeat (split; [first [apply le_refl|reflexivity|tauto]|]).
  exists []. rewrite !app_nil_r. repeat split. intros m p [].
Qed.
Lemma Rall_trans a b c : Rall a b -> Rall b c -> Rall a c.
Proof.
  intros (A1 & A2 & A3 & A4 & A5 & A6 & e1 & A7 & A8 & A9) (B1 & B2 & B3 & B4 & B5 & B6 & e2 & B7 & B8 & B9).
  split; [eapply le_trans; eauto|]. split; [congruence|].
  split; [tauto|]. split; [tauto|]. split; [tauto|]. split; [tauto|].
  exists (e1 ++ e2). split; [rewrite B7, A7, app_assoc; reflexivity|].
  split; [rewrite B8, A8, map_app, app_assoc; reflexivity|].
  intros m p Hi. apply in_app_or in Hi. destruct Hi as [Hi|Hi]; [|apply B9; auto].
  eapply resolvable_le; [exact B1|apply A9; auto].
Qed.

(* steps that leave the tables alone *)
Lemma Rall_quiet r acc stk r' acc' stk' :
  nis r' = nis r -> nofwd r' = nofwd r -> acked acc' = acked acc -> oks acc' = oks acc ->
  (PK r -> PK r') -> (NF r -> NF r') -> (held_ok r -> held_ok r') ->
  Rall (r, acc, stk) (r', acc', stk').
Proof.
  intros H1 H2 H3 H4 H5 H6 H7. unfold Rall; cbn [fst snd].
  split; [apply le_nis_eq; auto|]. split; [auto|]. split; [apply closed_nis_eq; auto|].
  split; [auto|]. split; [auto|]. split; [auto|].
  exists []. rewrite !app_nil_r. repeat split; auto; intros ? ? [].
Qed.

Lemma nget_ndel_some {V} k k' (l : amap V) x : nget k (ndel k' l) = Some x -> nget k l = Some x /\ k <> k'.
Proof. rewrite nget_ndel. destruct (N.eqb_spec k' k); [discriminate|]. auto. Qed.

Lemma aei_Rall v ord F st n o : Rall st (aei v ord F st n o).
Proof.
  apply aei_rel.
  - apply Rall_refl.
  - apply Rall_trans.
  - intros r acc stk. apply Rall_quiet; auto.
  - intros r acc stk n0 o0 _ E. destruct (fixF5 v); apply Rall_quiet; auto.
    + apply PK_ndel.
    + intros H Hn. cbn [pend set_pend]. rewrite (H Hn). reflexivity.
    + apply held_ok_sub; auto. intros id n1 o1 Hb. cbn [pend set_pend] in Hb.
      apply nget_ndel_some in Hb. tauto.
  - intros r acc stk n0 o0 _ E En. apply Rall_quiet; auto.
  - intros r acc stk n0 o0 _ E En. apply Rall_quiet; auto.
    + apply PK_nset.
    + intros _ Hn. cbn [nofwd set_pend] in Hn. congruence.
    + apply held_ok_sub; auto. intros id n1 o1 Hb. cbn [pend set_pend] in Hb.
      rewrite nget_nset in Hb. destruct (op_id o0 =? id); [|auto].
      inversion Hb; subst. right. rewrite (classify_spec v), E. reflexivity.
  - intros r acc stk n0 o0 r' h rv _ E.
    pose proof (ack_only_resolvable _ _ _ _ _ _ _ E) as Hres.
    apply try_install_effect in E. destruct E as [Hn He].
    destruct (inst_eff_le _ _ _ _ Hn He) as (L & Hp & Hf).
    unfold Rall; cbn [fst snd].
    split; [eapply le_trans; [exact L|apply le_nis_eq; reflexivity]|].
    split; [exact Hf|].
    split; [intros C; eapply closed_nis_eq; [|eapply inst_eff_closed; eauto]; reflexivity|].
    split; [intros H; rewrite Hp; apply (PK_ndel (op_id o0) r H)|].
    split; [intros H Hn'; cbn [nofwd set_pend pend] in *; rewrite Hp, (H (eq_trans (eq_sym Hf) Hn')); reflexivity|].
    split.
    + apply held_ok_sub.
      * intros m Hm. change (has_ni r' m = true). destruct L as [L _]. rewrite <- L. exact Hm.
      * intros id n1 o1 Hb. cbn [pend set_pend] in Hb. apply nget_ndel_some in Hb. rewrite Hp in Hb. tauto.
    + exists [(n0, o0)]. split; [reflexivity|]. split; [reflexivity|].
      intros m p [Hi|[]]. inversion Hi; subst.
      eapply resolvable_le; [|exact Hres]. eapply le_trans; [exact L|apply le_nis_eq; reflexivity].
Qed.

Lemma add_entry_Rall v ord r n o :
  exists stk, Rall (r, out0, []) (fst (add_entry v ord r n o), snd (add_entry v ord r n o), stk).
Proof.
  destruct (add_entry_cases v ord r n o) as [E|(_ & _ & _ & stk & E)].
  - exists []. rewrite E. cbn [fst snd]. apply Rall_quiet; auto.
  - exists stk. rewrite <- E. apply aei_Rall.
Qed.

(* nothing is removed from the tables by one addEntryInternal call *)
Lemma aei_tables_grow v ord F r acc stk n o : le r (fst (fst (aei v ord F (r, acc, stk) n o))).
Proof. apply (aei_Rall v ord F (r, acc, stk) n o). Qed.
Lemma add_entry_le v ord r n o : le r (fst (add_entry v ord r n o)).
Proof. destruct (add_entry_Rall v ord r n o) as (stk & H & _). exact H. Qed.
Lemma add_entry_nofwd v ord r n o : nofwd (fst (add_entry v ord r n o)) = nofwd r.
Proof. destruct (add_entry_Rall v ord r n o) as (stk & _ & H & _). exact H. Qed.
Lemma add_entry_closed v ord r n o : closed r -> closed (fst (add_entry v ord r n o)).
Proof. destruct (add_entry_Rall v ord r n o) as (stk & _ & _ & H & _). exact H. Qed.
Lemma add_entry_PK v ord r n o : PK r -> PK (fst (add_entry v ord r n o)).
Proof. destruct (add_entry_Rall v ord r n o) as (stk & _ & _ & _ & H & _). exact H. Qed.
Lemma add_entry_NF v ord r n o : NF r -> NF (fst (add_entry v ord r n o)).
Proof. destruct (add_entry_Rall v ord r n o) as (stk & _ & _ & _ & _ & H & _). exact H. Qed.
Lemma add_entry_PWF v ord r n o : PWF r -> PWF (fst (add_entry v ord r n o)).
Proof. intros [H1 H2]. split; [apply add_entry_PK|apply add_entry_NF]; auto. Qed.
Lemma add_entry_held_ok v ord r n o : held_ok r -> held_ok (fst (add_entry v ord r n o)).
Proof. destruct (add_entry_Rall v ord r n o) as (stk & _ & _ & _ & _ & _ & H & _). exact H. Qed.
Lemma add_entry_acked_resolvable v ord r n o m p :
  In (m, p) (acked (snd (add_entry v ord r n o))) -> resolvable (fst (add_entry v ord r n o)) m p = true.
Proof.
  destruct (add_entry_Rall v ord r n o) as (stk & _ & _ & _ & _ & _ & _ & ext & H1 & _ & H3).
  cbn [fst snd acked out0 app] in H1, H3. rewrite H1. apply H3.
Qed.
Lemma add_entry_oks_acked v ord r n o :
  oks (snd (add_entry v ord r n o)) = map (fun x => op_id (snd x)) (acked (snd (add_entry v ord r n o))).
Proof.
  destruct (add_entry_Rall v ord r n o) as (stk & _ & _ & _ & _ & _ & _ & ext & H1 & H2 & _).
  cbn [fst snd acked oks out0 app] in H1, H2. rewrite H1, H2. reflexivity.
Qed.

(* ---- (b) closedness ---- *)
Lemma closed_rib0 d nf : closed (rib0 d nf).
Proof.
  assert (E : forall n, sget (rib0 d nf) n = ni_empty false).
  { intros n. unfold sget, rib0, nget, aget. cbn. destruct (n =? d); reflexivity. }
  split.
  - intros n id g _ H. rewrite E in H. discriminate.
  - intros n t k p _ H. rewrite E in H. destruct t; discriminate.
Qed.

Lemma closed_del_top r n t k : has_ni r n = true -> closed r ->
  closed (upd_ni n (fun s' => set_top t (ndel k (get_top t s')) s') r).
Proof.
  intros Hn [C1 C2].
  remember (upd_ni n (fun s' => set_top t (ndel k (get_top t s')) s') r) as r1 eqn:Er1.
  assert (TG : forall m, tabg (sget r1 m) = tabg (sget r m)).
  { intros m. subst r1. rewrite sget_upd_ni_ex by auto. destruct (N.eqb_spec n m); subst; auto. apply tabg_set_top. }
  assert (TH : forall m, tabh (sget r1 m) = tabh (sget r m)).
  { intros m. subst r1. rewrite sget_upd_ni_ex by auto. destruct (N.eqb_spec n m); subst; auto. apply tabh_set_top. }
  assert (HN : forall m, has_ni r1 m = has_ni r m) by (intros m; subst r1; apply has_ni_upd).
  split.
  - intros m id g Hm Hb iw Hi. rewrite TG in Hb. rewrite TH. rewrite HN in Hm. eapply C1; eauto.
  - intros m t0 k0 p Hm Hb. rewrite TG. rewrite HN in Hm.
    subst r1. rewrite sget_upd_ni_ex in Hb by auto.
    destruct (N.eqb_spec n m) as [<-|Hne]; [|eapply C2; eauto].
    destruct (tkind_dec t0 t) as [->|Hnt].
    + rewrite get_set_top_same in Hb. apply nget_ndel_some in Hb. eapply C2; [eauto|apply Hb].
    + rewrite get_set_top_other in Hb by auto. eapply C2; eauto.
Qed.

Lemma closed_del_grp r n id : has_ni r n = true ->
  (forall m t k p, has_ni r m = true -> nget k (get_top t (sget r m)) = Some p -> target m p <> (n, id)) ->
  closed r -> closed (upd_ni n (fun s' => set_tabg (ndel id (tabg s')) s') r).
Proof.
  intros Hn Hu [C1 C2].
  remember (upd_ni n (fun s' => set_tabg (ndel id (tabg s')) s') r) as r1 eqn:Er1.
  assert (TG : forall m, tabg (sget r1 m) = if n =? m then ndel id (tabg (sget r n)) else tabg (sget r m)).
  { intros m. subst r1. rewrite sget_upd_ni_ex by auto. destruct (n =? m); reflexivity. }
  assert (TH : forall m, tabh (sget r1 m) = tabh (sget r m)).
  { intros m. subst r1. rewrite sget_upd_ni_ex by auto. destruct (N.eqb_spec n m); subst; reflexivity. }
  assert (TT : forall m t, get_top t (sget r1 m) = get_top t (sget r m)).
  { intros m t. subst r1. rewrite sget_upd_ni_ex by auto. destruct (N.eqb_spec n m); subst; auto; destruct t; reflexivity. }
  assert (HN : forall m, has_ni r1 m = has_ni r m) by (intros m; subst r1; apply has_ni_upd).
  split.
  - intros m id0 g Hm Hb iw Hi. rewrite TG in Hb. rewrite TH. rewrite HN in Hm.
    destruct (N.eqb_spec n m) as [<-|Hne]; [|eapply C1; eauto].
    apply nget_ndel_some in Hb. eapply C1; [eauto|apply Hb|eauto].
  - intros m t0 k0 p Hm Hb. rewrite TT in Hb. rewrite HN in Hm. rewrite TG.
    pose proof (C2 _ _ _ _ Hm Hb) as H. pose proof (Hu _ _ _ _ Hm Hb) as Hne.
    destruct (N.eqb_spec n (fst (target m p))) as [En|]; [|exact H].
    rewrite nmem_ndel. rewrite <- En in H. rewrite H, andb_true_r. apply negb_true_iff.
    apply N.eqb_neq. intros Eid. apply Hne. unfold target in *. cbn [fst] in En. rewrite <- En, Eid. reflexivity.
Qed.

Lemma closed_del_nh r n idx : has_ni r n = true ->
  (forall id g, nget id (tabg (sget r n)) = Some g -> has_member idx g = false) ->
  closed r -> closed (upd_ni n (fun s' => set_tabh (ndel idx (tabh s')) s') r).
Proof.
  intros Hn Hu [C1 C2].
  remember (upd_ni n (fun s' => set_tabh (ndel idx (tabh s')) s') r) as r1 eqn:Er1.
  assert (TG : forall m, tabg (sget r1 m) = tabg (sget r m)).
  { intros m. subst r1. rewrite sget_upd_ni_ex by auto. destruct (N.eqb_spec n m); subst; reflexivity. }
  assert (TH : forall m, tabh (sget r1 m) = if n =? m then ndel idx (tabh (sget r n)) else tabh (sget r m)).
  { intros m. subst r1. rewrite sget_upd_ni_ex by auto. destruct (n =? m); reflexivity. }
  assert (TT : forall m t, get_top t (sget r1 m) = get_top t (sget r m)).
  { intros m t. subst r1. rewrite sget_upd_ni_ex by auto. destruct (N.eqb_spec n m); subst; auto; destruct t; reflexivity. }
  assert (HN : forall m, has_ni r1 m = has_ni r m) by (intros m; subst r1; apply has_ni_upd).
  split.
  - intros m id0 g Hm Hb iw Hi. rewrite TG in Hb. rewrite TH. rewrite HN in Hm.
    pose proof (C1 _ _ _ Hm Hb _ Hi) as H.
    destruct (N.eqb_spec n m) as [<-|Hne]; [|exact H].
    rewrite nmem_ndel, H, andb_true_r. apply negb_true_iff.
    pose proof (Hu _ _ Hb) as Hm'. unfold has_member in Hm'.
    destruct (N.eqb_spec idx (fst iw)) as [Ei|]; [|reflexivity].
    assert (X : existsb (fun iw0 : N * N => fst iw0 =? idx) (g_nhs g) = true).
    { apply existsb_exists. exists iw. split; auto. apply N.eqb_eq. auto. }
    congruence.
  - intros m t0 k0 p Hm Hb. rewrite TT in Hb. rewrite HN in Hm. rewrite TG. eapply C2; eauto.
Qed.

Lemma delete_entry_closed v r n o : RC r -> closed r -> closed (fst (delete_entry v r n o)).
Proof.
  intros HRC C. unfold delete_entry.
  destruct (nget n (nis r)) as [s|] eqn:E; [|exact C].
  pose proof (has_ni_some _ _ _ E) as Hn. pose proof (sget_some _ _ _ E) as Hs.
  destruct (op_entry o) as [t k kv p|id p|idx p|]; try exact C.
  - destruct (fixF6 v && negb (key_ok t k kv)); [exact C|]. cbn [fst].
    remember (match t with TL => if fixF6 v then k else k mod W32 | _ => k end) as k' eqn:Ek.
    eapply closed_teq; [|apply (closed_del_top r n t k' Hn C)].
    destruct (nget k' (get_top t s)) as [d|]; [|apply teq_refl].
    destruct (target n d) as [tn tg]. apply teq_upd_keep. intros; apply ceq_set_rcg.
  - destruct (id =? 0); [exact C|].
    destruct (nget id (tabg s)) as [g|] eqn:Eg; [|exact C].
    destruct (0 <? cnt (rcg s) id) eqn:Ec; [exact C|]. cbn [fst].
    apply N.ltb_ge in Ec. assert (Ec0 : cnt (rcg (sget r n)) id = 0) by (rewrite Hs; lia).
    eapply closed_teq; [apply teq_upd_keep; intros; apply ceq_set_rch|].
    apply closed_del_grp; auto.
    intros m t k p0 Hm Hb. eapply (RC_unreferenced_grp r n id HRC Ec0); [apply has_ni_true; exact Hm|exact Hb].
  - destruct (idx =? 0); [exact C|].
    destruct (nget idx (tabh s)) as [h|] eqn:Eh; [|exact C].
    destruct (0 <? cnt (rch s) idx) eqn:Ec; [exact C|]. cbn [fst].
    apply N.ltb_ge in Ec. assert (Ec0 : cnt (rch (sget r n)) idx = 0) by (rewrite Hs; lia).
    apply closed_del_nh; auto.
    apply (RC_unreferenced_nh r n idx HRC Ec0).
Qed.

(* ---- flush ---- *)
Definition tempty (s : nistate) : Prop := tabg s = [] /\ tabh s = [] /\ forall t, get_top t s = [].
Lemma tempty_ceq a b : ceq a b -> tempty b -> tempty a.
Proof. intros (H1 & H2 & H3) (G1 & G2 & G3). split; [congruence|]. split; [congruence|]. intros t. rewrite H3. apply G3. Qed.
Lemma tempty_cle a b : tempty a -> cle a b.
Proof. intros (G1 & G2 & G3). split; [|split]; intros; [rewrite G1 in *|rewrite G2 in *|rewrite G3 in *]; discriminate. Qed.

Lemma ceq_set_top_cong t m0 s1 s2 : ceq s1 s2 -> ceq (set_top t m0 s1) (set_top t m0 s2).
Proof.
  intros (H1 & H2 & H3). split; [rewrite !tabg_set_top; auto|]. split; [rewrite !tabh_set_top; auto|].
  intros t0. destruct (tkind_dec t0 t) as [->|Hn].
  - rewrite !get_set_top_same. reflexivity.
  - rewrite !get_set_top_other by auto. apply H3.
Qed.

Lemma flush_top_teq t n r : teq (fst (flush_top t n r)) (upd_ni n (fun s' => set_top t [] s') r).
Proof.
  unfold flush_top. destruct (nget n (nis r)) as [s|] eqn:E; cbn [fst].
  - apply teq_upd_cong; [intros; apply ceq_set_top_cong; auto|].
    apply (teq_fold_keep (fun kv : N * top => fst (target n (snd kv)))
                         (fun kv s' => set_rcg (dec (snd (target n (snd kv))) (rcg s')) s')).
    intros; apply ceq_set_rcg.
  - unfold upd_ni. rewrite E. apply teq_refl.
Qed.

Lemma flush_ni_spec v n r :
  let r' := fst (fst (flush_ni v n r)) in
  pend r' = pend r /\ nofwd r' = nofwd r /\ (forall m, has_ni r' m = has_ni r m)
  /\ tempty (sget r' n) /\ forall m, m <> n -> ceq (sget r' m) (sget r m).
Proof.
  unfold flush_ni. destruct (nget n (nis r)) as [s0|] eqn:E.
  2:{ cbn [fst]. repeat split; try (intros; apply ceq_refl).
      all: unfold sget; rewrite E; try reflexivity. intros t; destruct t; reflexivity. }
  pose proof (has_ni_some _ _ _ E) as Hn.
  pose proof (flush_top_teq T4 n r) as T1.
  destruct (flush_top T4 n r) as [r1 h4]. cbn [fst] in T1.
  pose proof (flush_top_teq T6 n r1) as T2.
  destruct (flush_top T6 n r1) as [r2 h6]. cbn [fst] in T2.
  pose proof (flush_top_teq TL n r2) as T3.
  destruct (flush_top TL n r2) as [r3 hl]. cbn [fst] in T3.
  cbn [fst].
  remember (upd_ni n (fun s' => set_top T4 [] s') r) as u1 eqn:Eu1.
  remember (upd_ni n (fun s' => set_top T6 [] s') u1) as u2 eqn:Eu2.
  remember (upd_ni n (fun s' => set_top TL [] s') u2) as u3 eqn:Eu3.
  assert (T2' : teq r2 u2).
  { eapply teq_trans; [exact T2|]. subst u2. apply teq_upd_cong; [intros; apply ceq_set_top_cong; auto|exact T1]. }
  assert (T3' : teq r3 u3).
  { eapply teq_trans; [exact T3|]. subst u3. apply teq_upd_cong; [intros; apply ceq_set_top_cong; auto|exact T2']. }
  match goal with |- context [upd_ni n ?G (upd_ni n ?H r3)] =>
    remember G as GG eqn:EG; remember H as HH eqn:EH end.
  assert (T5 : teq (upd_ni n GG (upd_ni n HH r3)) (upd_ni n GG u3)).
  { apply teq_upd_cong.
    - subst GG. intros s1 s2 (A1 & A2 & A3). split; [reflexivity|]. split; [reflexivity|].
      intros t. specialize (A3 t). destruct t; exact A3.
    - eapply teq_trans; [|exact T3']. apply teq_upd_keep. subst HH. intros; apply ceq_set_rch. }
  assert (H1 : has_ni u1 n = true) by (subst u1; rewrite has_ni_upd; auto).
  assert (H2 : has_ni u2 n = true) by (subst u2; rewrite has_ni_upd; auto).
  assert (H3 : has_ni u3 n = true) by (subst u3; rewrite has_ni_upd; auto).
  assert (S5 : forall m, sget (upd_ni n GG u3) m =
                         if n =? m then GG (set_top TL [] (set_top T6 [] (set_top T4 [] (sget r n)))) else sget r m).
  { intros m. rewrite sget_upd_ni_ex by auto. subst u3. rewrite !sget_upd_ni_ex by auto.
    subst u2. rewrite !sget_upd_ni_ex by auto. subst u1. rewrite !sget_upd_ni_ex by auto.
    rewrite N.eqb_refl. destruct (n =? m); reflexivity. }
  destruct T5 as (P1 & P2 & P3 & P4).
  split; [rewrite P1, pend_upd_ni; destruct T3' as (Q & _); subst u3 u2 u1; rewrite !pend_upd_ni; reflexivity|].
  split; [rewrite P2, nofwd_upd_ni; subst u3 u2 u1; rewrite !nofwd_upd_ni; reflexivity|].
  split; [intros m; rewrite P3, has_ni_upd; subst u3 u2 u1; rewrite !has_ni_upd; reflexivity|].
  split.
  - eapply tempty_ceq; [apply P4|]. rewrite S5, N.eqb_refl. subst GG.
    split; [reflexivity|]. split; [reflexivity|]. intros t; destruct t; reflexivity.
  - intros m Hm. eapply ceq_trans; [apply P4|]. rewrite S5.
    destruct (N.eqb_spec n m); [congruence|apply ceq_refl].
Qed.

Lemma flush_spec v l : forall r h e,
  let r' := fst (fst (fold_left (fun acc n => let '(r', h, e) := acc in
                          let '(r'', h', e') := flush_ni v n r' in (r'', h ++ h', e || e'))
            l (r, h, e))) in
  pend r' = pend r /\ nofwd r' = nofwd r /\ (forall m, has_ni r' m = has_ni r m)
  /\ forall m, tempty (sget r' m) \/ (~ In m l /\ ceq (sget r' m) (sget r m)).
Proof.
  induction l as [|a l IH]; intros r h e; cbn [fold_left].
  - cbn [fst]. repeat split; auto. intros m. right. split; [intros []|apply ceq_refl].
  - pose proof (flush_ni_spec v a r) as S. destruct (flush_ni v a r) as [[r1 h1] e1]. cbn [fst] in S.
    destruct S as (S1 & S2 & S3 & S4 & S5).
    specialize (IH r1 (h ++ h1) (e || e1)). cbv zeta in IH. destruct IH as (I1 & I2 & I3 & I4).
    cbv zeta. split; [congruence|]. split; [congruence|]. split; [intros m; rewrite I3; apply S3|].
    intros m. destruct (I4 m) as [T|[Hni C]]; [left; exact T|].
    destruct (N.eq_dec m a) as [->|Hne].
    + left. eapply tempty_ceq; eauto.
    + right. split; [intros [Ha|Hi]; [congruence|tauto]|]. eapply ceq_trans; [exact C|apply S5; auto].
Qed.

Lemma flush_le v l r : le (fst (fst (flush v l r))) r.
Proof.
  destruct (flush_spec v l r [] false) as (_ & _ & H3 & H4). fold (flush v l r) in H3, H4.
  split; [exact H3|]. intros m. destruct (H4 m) as [T|[_ C]]; [apply tempty_cle; auto|apply ceq_cle; auto].
Qed.
Lemma flush_pend v l r : pend (fst (fst (flush v l r))) = pend r /\ nofwd (fst (fst (flush v l r))) = nofwd r.
Proof. destruct (flush_spec v l r [] false) as (H1 & H2 & _). fold (flush v l r) in H1, H2. auto. Qed.

Lemma closed_of_empty r : (forall m, has_ni r m = true -> tempty (sget r m)) -> closed r.
Proof.
  intros H. split.
  - intros n id g Hn Hb. destruct (H n Hn) as (E & _). rewrite E in Hb. discriminate.
  - intros n t k p Hn Hb. destruct (H n Hn) as (_ & _ & E). rewrite E in Hb. discriminate.
Qed.

(* a flush that covers every existing instance leaves nothing installed *)
Lemma full_flush_closed v l r : (forall m, has_ni r m = true -> In m l) -> closed (fst (fst (flush v l r))).
Proof.
  intros Hl. destruct (flush_spec v l r [] false) as (_ & _ & H3 & H4). fold (flush v l r) in H3, H4.
  apply closed_of_empty. intros m Hm. rewrite H3 in Hm. destruct (H4 m) as [T|[Hni _]]; [exact T|].
  exfalso. apply Hni, Hl, Hm.
Qed.

(* closedness of a concrete state by computation *)
Lemma closedb_sound r : closedb r = true -> closed r.
Proof.
  unfold closedb. rewrite forallb_forall. intros H. split.
  - intros n id g Hn Hb iw Hi.
    apply has_ni_true in Hn. apply nget_in in Hn. specialize (H _ Hn). cbn [fst] in H.
    apply andb_true_iff in H. destruct H as [H _]. rewrite forallb_forall in H.
    apply nget_in in Hb. specialize (H _ Hb). cbn [snd] in H. rewrite forallb_forall in H. apply H. exact Hi.
  - intros n t k p Hn Hb.
    apply has_ni_true in Hn. apply nget_in in Hn. specialize (H _ Hn). cbn [fst] in H.
    apply andb_true_iff in H. destruct H as [_ H]. rewrite forallb_forall in H.
    assert (Ht : In t [T4; T6; TL]) by (destruct t; cbn; auto).
    specialize (H _ Ht). rewrite forallb_forall in H. apply nget_in in Hb. apply (H _ Hb).
Qed.

Lemma partial_flush_breaks_closed :
  closed pf_state /\ ~ closed (fst (fst (flush v_fixed [1] pf_state))).
Proof.
  split; [apply closedb_sound; vm_compute; reflexivity|].
  intros [_ C]. specialize (C 2 T4 100 (mk_top 5 1 []) eq_refl eq_refl). vm_compute in C. discriminate.
Qed.

(* ---- (c) fuel and completeness of the cascade ---- *)
Definition qc (r : rib) : Prop := forall id n o, nget id (pend r) = Some (n, o) -> classify r n o <> CInst.
Lemma quiescent_qc v r : quiescent v r <-> qc r.
Proof.
  unfold quiescent, qc. split; intros H id n o Hb; specialize (H id n o Hb).
  - intros Hc. apply H. apply (installable_iff v). exact Hc.
  - intros Hi. apply H. apply (installable_iff v). exact Hi.
Qed.


Section Held.
  (* P: what is known of a held operation after it has been retried; it depends on the tables
     only and holds of every operation that was classified "not yet" *)
  Variable P : rib -> ni -> rop -> Prop.
  Hypothesis P_nis : forall r1 r2 n o, nis r1 = nis r2 -> P r1 n o -> P r2 n o.
  Hypothesis P_notyet : forall r n o, classify r n o = CNotYet -> P r n o.
  Definition hq (r : rib) : Prop := forall id n o, nget id (pend r) = Some (n, o) -> P r n o.

(* outcome of one call: nothing installed and only the binding of id0 may have changed, or quiescent *)
Definition quiet_or_q (r : rib) (id0 : N) (r' : rib) : Prop :=
  (nis r' = nis r /\ forall id n o, nget id (pend r') = Some (n, o) ->
      P r' n o \/ (nget id (pend r) = Some (n, o) /\ id <> id0))
  \/ hq r'.
(* progress of the loop over a snapshot of the held map of r2: the ids in T have been retried *)
Definition DD (r2 : rib) (rc : rib) (T : list N) : Prop :=
  (nis rc = nis r2 /\ forall id n o, nget id (pend rc) = Some (n, o) ->
      P rc n o \/ (nget id (pend r2) = Some (n, o) /\ ~ In id T))
  \/ hq rc.

Lemma quiet_or_q_qc r id0 r' : hq r -> quiet_or_q r id0 r' -> hq r'.
Proof.
  intros Q [[Hn Hb]|Q']; [|exact Q']. intros id n o B.
  destruct (Hb _ _ _ B) as [H|[H _]]; [exact H|].
  apply (P_nis r r'); [congruence|]. eapply Q; eauto.
Qed.
Lemma DD_step r2 rc T id0 r1 : DD r2 rc T -> quiet_or_q rc id0 r1 -> DD r2 r1 (T ++ [id0]).
Proof.
  intros D Hq. destruct D as [[Dn Db]|Q].
  - destruct Hq as [[Hn Hb]|Q']; [|right; exact Q']. left. split; [congruence|].
    intros id n o B. destruct (Hb _ _ _ B) as [H|[H Hne]]; [left; exact H|].
    destruct (Db _ _ _ H) as [H'|[H' Hni]].
    + left. apply (P_nis rc r1); [congruence|]. exact H'.
    + right. split; [exact H'|]. intros Hi. apply in_app_or in Hi. destruct Hi as [Hi|[Hi|[]]]; [tauto|congruence].
  - right. eapply quiet_or_q_qc; eauto.
Qed.

Section Complete.
  Variable v : variant.
  Variable ord : amap (ni * rop) -> amap (ni * rop).
  Hypothesis Hv : fixF5 v = true.
  Hypothesis Hord : forall l, Permutation (ord l) l.
  Variable U : list N.

  Definition SI (r : rib) (stk : list N) : Prop :=
    PK r /\ NF r /\ NoDup stk /\ incl stk U /\ (forall id x, In (id, x) (pend r) -> In id U /\ ~ In id stk).

  Definition aei_ok (F : nat) : Prop :=
    forall r acc stk n o r' acc' stk',
      SI r stk -> In (op_id o) U -> (1 <= F)%nat -> (length U <= F + length stk)%nat -> nofuel acc = false ->
      aei v ord F (r, acc, stk) n o = (r', acc', stk') ->
      SI r' stk' /\ (length stk <= length stk')%nat /\ nofuel acc' = false /\ quiet_or_q r (op_id o) r'.

  Lemma fold_complete f r2 : aei_ok f ->
    forall l T rc accc stkc rf accf stkf,
      SI rc stkc -> (forall e, In e l -> In (opid e) U) -> (l <> [] -> 1 <= f)%nat ->
      (length U <= f + length stkc)%nat -> nofuel accc = false -> DD r2 rc T ->
      fold_left (fun st' e => aei v ord f st' (fst (snd e)) (snd (snd e))) l (rc, accc, stkc) = (rf, accf, stkf) ->
      SI rf stkf /\ (length stkc <= length stkf)%nat /\ nofuel accf = false /\ DD r2 rf (T ++ map opid l).
  Proof.
    intros IH. induction l as [|e l IHl]; intros T rc accc stkc rf accf stkf HS HU Hf HL Hnf HD E; cbn [fold_left] in E.
    - inversion E; subst. cbn [map]. rewrite app_nil_r. auto.
    - destruct (aei v ord f (rc, accc, stkc) (fst (snd e)) (snd (snd e))) as [[r1 a1] s1] eqn:E1.
      assert (Hf1 : (1 <= f)%nat) by (apply Hf; discriminate).
      apply IH in E1; auto; [|apply (HU e); left; reflexivity].
      destruct E1 as (S1 & L1 & N1 & Q1).
      apply (IHl (T ++ [opid e])) in E; auto.
      + destruct E as (S2 & L2 & N2 & D2). split; [exact S2|]. split; [lia|]. split; [exact N2|].
        cbn [map]. rewrite <- app_assoc in D2. exact D2.
      + intros e' He'. apply HU. right. exact He'.
      + lia.
      + eapply DD_step; eauto.
  Qed.

  Lemma aei_complete : forall F, aei_ok F.
  Proof.
    induction F as [|f IH]; intros r acc stk n o r' acc' stk' HS HU HF HL Hnf E; [lia|].
    destruct HS as (HPK & HNF & HND & HI & HB).
    cbn [aei] in E.
    destruct (existsb (N.eqb (op_id o)) stk) eqn:Ex.
    { inversion E; subst. split; [repeat split; auto; apply HB with x; auto|]. split; [lia|]. split; [auto|].
      left. split; [reflexivity|]. intros id n1 o1 B. right. split; [exact B|].
      intros ->. apply existsb_eqb_in in Ex. apply nget_in in B. apply HB in B. tauto. }
    assert (Hns : ~ In (op_id o) stk).
    { intros Hi. apply existsb_eqb_in in Hi. congruence. }
    destruct (try_install v r n o) as [| |r1 h rv] eqn:Et.
    - rewrite Hv in E. inversion E; subst. split; [|split; [cbn [length]; lia|split; [auto|]]].
      + split; [apply PK_ndel; auto|]. split; [intros Hn; cbn [pend set_pend]; rewrite (HNF Hn); reflexivity|].
        split; [constructor; auto|]. split; [intros x [<-|Hx]; auto|].
        intros id x Hi. cbn [pend set_pend] in Hi. apply in_ndel in Hi. cbn [fst] in Hi. destruct Hi as [Hi Hne].
        destruct (HB _ _ Hi) as [B1 B2]. split; [exact B1|]. intros [Hx|Hx]; [congruence|tauto].
      + left. split; [reflexivity|]. intros id n1 o1 B. cbn [pend set_pend] in B. apply nget_ndel_some in B. right. exact B.
    - destruct (nofwd r) eqn:En.
      + inversion E; subst. split; [repeat split; auto; apply HB with x; auto|]. split; [lia|]. split; [auto|].
        left. split; [reflexivity|]. intros id n1 o1 B. rewrite (HNF En) in B. discriminate.
      + inversion E; subst. split; [|split; [lia|split; [auto|]]].
        * split; [apply PK_nset; auto|]. split; [intros Hn; cbn [nofwd set_pend] in Hn; congruence|].
          split; [auto|]. split; [auto|]. intros id x Hi. cbn [pend set_pend] in Hi. apply in_nset in Hi.
          destruct Hi as [Hi|Hi]; [inversion Hi; subst; auto|apply HB with x; auto].
        * left. split; [reflexivity|]. intros id n1 o1 B. cbn [pend set_pend] in B. rewrite nget_nset in B.
          destruct (N.eqb_spec (op_id o) id) as [Ei|Hne].
          -- inversion B; subst n1 o1. left.
             apply (P_nis r); [reflexivity|]. apply P_notyet. rewrite (classify_spec v), Et. reflexivity.
          -- right. split; [exact B|]. congruence.
    - pose proof Et as Et'. apply try_install_effect in Et'. destruct Et' as [Hn He].
      destruct (inst_eff_le _ _ _ _ Hn He) as (_ & Hp & Hfw).
      remember (set_pend (ndel (op_id o) (pend r1)) r1) as r2 eqn:Er2.
      assert (P2 : pend r2 = ndel (op_id o) (pend r)) by (subst r2; cbn [pend set_pend]; rewrite Hp; reflexivity).
      assert (S2 : SI r2 (op_id o :: stk)).
      { split; [intros id n1 o1 Hi; rewrite P2 in Hi; apply in_ndel in Hi; apply HPK with n1; tauto|].
        split; [intros Hn'; rewrite P2; subst r2; cbn [nofwd set_pend] in Hn'; rewrite Hfw in Hn'; rewrite (HNF Hn'); reflexivity|].
        split; [constructor; auto|]. split; [intros x [<-|Hx]; auto|].
        intros id x Hi. rewrite P2 in Hi. apply in_ndel in Hi. cbn [fst] in Hi. destruct Hi as [Hi Hne].
        destruct (HB _ _ Hi) as [B1 B2]. split; [exact B1|]. intros [Hx|Hx]; [congruence|tauto]. }
      assert (HinL : forall e, In e (ord (pend r2)) -> In e (pend r2)).
      { intros e He'. eapply Permutation_in; [apply Hord|exact He']. }
      assert (HU2 : forall e, In e (ord (pend r2)) -> In (opid e) U).
      { intros [id [n1 o1]] He'. apply HinL in He'. destruct S2 as (PK2 & _ & _ & _ & B2).
        unfold opid; cbn [snd]. rewrite (PK2 _ _ _ He'). apply (B2 _ _ He'). }
      assert (Hf : ord (pend r2) <> [] -> (1 <= f)%nat).
      { destruct (ord (pend r2)) as [|[id x] L] eqn:EL; [congruence|]. intros _.
        assert (Hi : In (id, x) (pend r2)) by (apply HinL; left; reflexivity).
        destruct S2 as (_ & _ & ND2 & I2 & B2). destruct (B2 _ _ Hi) as [B3 B4].
        assert (NDx : NoDup (id :: op_id o :: stk)) by (constructor; auto).
        assert (Ix : incl (id :: op_id o :: stk) U) by (intros y [<-|Hy]; auto).
        pose proof (NoDup_incl_length NDx Ix) as Hlen. cbn [length] in Hlen. lia. }
      assert (Hnf2 : nofuel (add_rev rv (add_hev h (add_ok n o acc))) = false) by exact Hnf.
      assert (D0 : DD r2 r2 []).
      { left. split; [reflexivity|]. intros id n1 o1 B. right. split; [exact B|]. intros []. }
      eapply (fold_complete f r2 IH _ [] r2 _ (op_id o :: stk)) in E; eauto; [|cbn [length]; lia].
      destruct E as (SF & LF & NF' & DF). split; [exact SF|]. split; [cbn [length] in LF; lia|]. split; [exact NF'|].
      right. destruct DF as [[Dn Db]|Q]; [|exact Q].
      intros id n1 o1 B. destruct (Db _ _ _ B) as [H|[H Hni]]; [exact H|].
      exfalso. apply Hni. cbn [app]. apply nget_in in H.
      assert (Hi : In (id, (n1, o1)) (ord (pend r2))).
      { eapply Permutation_in; [apply Permutation_sym, Hord|exact H]. }
      destruct S2 as (PK2 & _). rewrite <- (PK2 _ _ _ H).
      change (op_id o1) with (opid (id, (n1, o1))). apply in_map. exact Hi.
  Qed.
End Complete.

Lemma add_entry_complete_gen v ord r n o :
  fixF5 v = true -> (forall l, Permutation (ord l) l) -> PWF r ->
  nofuel (snd (add_entry v ord r n o)) = false /\ (hq r -> hq (fst (add_entry v ord r n o))).
Proof.
  intros Hv Hord [HPK HNF].
  destruct (add_entry_cases v ord r n o) as [E|(_ & _ & _ & stk & E)].
  - rewrite E. cbn [fst snd]. split; [reflexivity|auto].
  - pose (U := op_id o :: map fst (pend r)).
    assert (HS : SI U r []).
    { split; [exact HPK|]. split; [exact HNF|]. split; [constructor|]. split; [intros x []|].
      intros id x Hi. split; [|intros []]. right. change id with (fst (id, x)). apply in_map. exact Hi. }
    apply (aei_complete v ord Hv Hord U) in E; auto.
    + destruct E as (_ & _ & Hnf & Hq). split; [exact Hnf|]. intros Q. eapply quiet_or_q_qc; eauto.
    + left; reflexivity.
    + lia.
    + subst U. cbn [length]. rewrite map_length. lia.
Qed.
End Held.

Lemma resolvable_nis_eq r1 r2 n o : nis r1 = nis r2 -> resolvable r1 n o = resolvable r2 n o.
Proof. intros H. unfold resolvable, sget. rewrite H. reflexivity. Qed.
Lemma notyet_unresolvable r n o : classify r n o = CNotYet -> resolvable r n o = false.
Proof.
  unfold classify, resolvable. destruct (has_ni r n); cbn [negb]; [|discriminate].
  destruct (op_entry o) as [t k kv [pl|]|id [pl|]|idx [pl|]|]; try discriminate.
  - destruct (negb (key_ok t k kv) || t_bad pl); [discriminate|].
    destruct (is_replace o && _); [discriminate|].
    destruct (t_nhg pl =? 0); [discriminate|].
    destruct (negb (has_ni r (fst (target n pl)))); [discriminate|].
    destruct (nmem _ _); [discriminate|reflexivity].
  - destruct (g_bad pl); [discriminate|].
    destruct (is_replace o && _); [discriminate|].
    destruct (id =? 0); [discriminate|].
    destruct (g_nhs pl) as [|a l]; [discriminate|].
    destruct (existsb _ _); [discriminate|].
    destruct (forallb _ _); [discriminate|reflexivity].
  - destruct (h_bad pl); [discriminate|].
    destruct (is_replace o && _); [discriminate|].
    destruct (idx =? 0); discriminate.
Qed.

Lemma add_entry_complete v ord r n o :
  fixF5 v = true -> (forall l, Permutation (ord l) l) -> PWF r ->
  nofuel (snd (add_entry v ord r n o)) = false /\ (qc r -> qc (fst (add_entry v ord r n o)))
  /\ (unres r -> unres (fst (add_entry v ord r n o))).
Proof.
  intros Hv Hord HP.
  destruct (add_entry_complete_gen (fun r n o => classify r n o <> CInst)) with (v := v) (ord := ord) (r := r) (n := n) (o := o)
    as [A B]; auto.
  { intros r1 r2 n0 o0 H. rewrite (classify_nis_eq r1 r2 _ _ H). auto. }
  { intros r0 n0 o0 H. congruence. }
  destruct (add_entry_complete_gen (fun r n o => resolvable r n o = false)) with (v := v) (ord := ord) (r := r) (n := n) (o := o)
    as [_ C]; auto.
  { intros r1 r2 n0 o0 H. rewrite (resolvable_nis_eq r1 r2 _ _ H). auto. }
  { apply notyet_unresolvable. }
Qed.

Lemma unres_qc r : unres r -> qc r.
Proof.
  intros H id n o B Hc. specialize (H _ _ _ B).
  assert (X : installable v_fixed r n o) by (apply installable_iff; exact Hc).
  destruct X as (r' & h & rv & X). apply ack_only_resolvable in X. congruence.
Qed.

(* ---- installability is monotone in the installed sets ---- *)
Lemma andb_negb_mono b x y : (x = true -> y = true) -> b && negb x = false -> b && negb y = false.
Proof. destruct b, x, y; cbn; auto. intros H _. discriminate H; reflexivity. Qed.

Lemma classify_le r1 r2 n o : le r1 r2 -> classify r1 n o = CInst -> classify r2 n o = CInst.
Proof.
  intros [Hh L] H. unfold classify in *. rewrite <- Hh.
  destruct (has_ni r1 n); cbn [negb] in *; [|discriminate].
  destruct (L n) as (Lg & Lh & Lt).
  destruct (op_entry o) as [t k kv [pl|]|id [pl|]|idx [pl|]|]; try discriminate.
  - destruct (negb (key_ok t k kv) || t_bad pl); [discriminate|].
    destruct (is_replace o && negb (nmem k (get_top t (sget r1 n)))) eqn:E1; [discriminate|].
    rewrite (andb_negb_mono _ _ _ (Lt t k) E1).
    destruct (t_nhg pl =? 0); [discriminate|].
    rewrite <- Hh. destruct (has_ni r1 (fst (target n pl))); cbn [negb] in *; [|discriminate].
    destruct (nmem (t_nhg pl) (tabg (sget r1 (fst (target n pl))))) eqn:E2; cbn [negb] in H; [|discriminate].
    destruct (L (fst (target n pl))) as (Lg' & _). rewrite (Lg' _ E2). reflexivity.
  - destruct (g_bad pl); [discriminate|].
    destruct (is_replace o && negb (nmem id (tabg (sget r1 n)))) eqn:E1; [discriminate|].
    rewrite (andb_negb_mono _ _ _ (Lg id) E1).
    destruct (id =? 0); [discriminate|].
    destruct (g_nhs pl) as [|a l]; [discriminate|].
    destruct (existsb _ (a :: l)); [discriminate|].
    destruct (forallb (fun iw : N * N => nmem (fst iw) (tabh (sget r1 n))) (a :: l)) eqn:E3; cbn [negb] in H; [|discriminate].
    rewrite (forallb_impl _ (fun iw : N * N => nmem (fst iw) (tabh (sget r2 n))) _ (fun x _ => Lh (fst x)) E3). reflexivity.
  - destruct (h_bad pl); [discriminate|].
    destruct (is_replace o && negb (nmem idx (tabh (sget r1 n)))) eqn:E1; [discriminate|].
    rewrite (andb_negb_mono _ _ _ (Lh idx) E1). exact H.
Qed.

Lemma qc_le r r' : le r' r -> pend r' = pend r -> qc r -> qc r'.
Proof.
  intros L Hp Q id n o B. rewrite Hp in B. intros Hc. apply (Q _ _ _ B). eapply classify_le; eauto.
Qed.

Lemma pend_inv_transfer r r' : pend r' = pend r -> nofwd r' = nofwd r -> (forall m, has_ni r m = true -> has_ni r' m = true) ->
  (PWF r -> PWF r') /\ (held_ok r -> held_ok r').
Proof.
  intros Hp Hf Hh. split.
  - intros [H1 H2]. split; [unfold PK; rewrite Hp; exact H1|unfold NF; rewrite Hp, Hf; exact H2].
  - apply held_ok_sub; auto. intros id n o B. rewrite Hp in B. auto.
Qed.

(* ---- delete ---- *)
Lemma ge_upd n f r : cle (f (sget r n)) (sget r n) -> le (upd_ni n f r) r.
Proof.
  intros Hc. split; [intros m; apply has_ni_upd|].
  intros m. rewrite sget_upd_ni. destruct ((n =? m) && has_ni r n) eqn:E; [|apply cle_refl].
  apply andb_true_iff in E. destruct E as [E _]. apply N.eqb_eq in E. subst. exact Hc.
Qed.
Lemma nmem_ndel_true {V} k k' (l : amap V) : nmem k (ndel k' l) = true -> nmem k l = true.
Proof. rewrite nmem_ndel. intros H. apply andb_true_iff in H. tauto. Qed.

Lemma teq_upd_le r' n f r : teq r' (upd_ni n f r) -> cle (f (sget r n)) (sget r n) ->
  le r' r /\ pend r' = pend r /\ nofwd r' = nofwd r.
Proof.
  intros T Hc. split; [eapply le_trans; [apply teq_le; exact T|apply ge_upd; exact Hc]|].
  destruct T as (T1 & T2 & _). rewrite pend_upd_ni in T1. rewrite nofwd_upd_ni in T2. auto.
Qed.

Lemma delete_entry_le v r n o :
  le (fst (delete_entry v r n o)) r /\ pend (fst (delete_entry v r n o)) = pend r
  /\ nofwd (fst (delete_entry v r n o)) = nofwd r.
Proof.
  assert (Triv : le r r /\ pend r = pend r /\ nofwd r = nofwd r) by (split; [apply le_refl|auto]).
  unfold delete_entry.
  destruct (nget n (nis r)) as [s|] eqn:E; [|exact Triv].
  destruct (op_entry o) as [t k kv p|id p|idx p|]; try exact Triv.
  - destruct (fixF6 v && negb (key_ok t k kv)); [exact Triv|]. cbn [fst].
    remember (match t with TL => if fixF6 v then k else k mod W32 | _ => k end) as k' eqn:Ek.
    apply (teq_upd_le _ n (fun s' => set_top t (ndel k' (get_top t s')) s')).
    + destruct (nget k' (get_top t s)) as [d|]; [|apply teq_refl].
      destruct (target n d) as [tn tg]. apply teq_upd_keep. intros; apply ceq_set_rcg.
    + split; [|split].
      * intros k0 H. rewrite tabg_set_top in H. exact H.
      * intros k0 H. rewrite tabh_set_top in H. exact H.
      * intros t0 k0 H. destruct (tkind_dec t0 t) as [->|Hne].
        -- rewrite get_set_top_same in H. eapply nmem_ndel_true; eauto.
        -- rewrite get_set_top_other in H by auto. exact H.
  - destruct (id =? 0); [exact Triv|].
    destruct (nget id (tabg s)) as [g|] eqn:Eg; [|exact Triv].
    destruct (0 <? cnt (rcg s) id) eqn:Ec; [exact Triv|]. cbn [fst].
    apply (teq_upd_le _ n (fun s' => set_tabg (ndel id (tabg s')) s')).
    + apply teq_upd_keep; intros; apply ceq_set_rch.
    + split; [|split].
      * intros k0 H. cbn [tabg set_tabg] in H. eapply nmem_ndel_true; eauto.
      * intros k0 H. exact H.
      * intros t0 k0 H. destruct t0; exact H.
  - destruct (idx =? 0); [exact Triv|].
    destruct (nget idx (tabh s)) as [h|] eqn:Eh; [|exact Triv].
    destruct (0 <? cnt (rch s) idx) eqn:Ec; [exact Triv|]. cbn [fst].
    apply (teq_upd_le _ n (fun s' => set_tabh (ndel idx (tabh s')) s')); [apply teq_refl|].
    split; [|split].
    + intros k0 H. exact H.
    + intros k0 H. cbn [tabh set_tabh] in H. eapply nmem_ndel_true; eauto.
    + intros t0 k0 H. destruct t0; exact H.
Qed.

Lemma delete_entry_qc v r n o : qc r -> qc (fst (delete_entry v r n o)).
Proof. destruct (delete_entry_le v r n o) as (L & P & _). apply qc_le; auto. Qed.
Lemma delete_entry_PWF v r n o : PWF r -> PWF (fst (delete_entry v r n o)).
Proof.
  destruct (delete_entry_le v r n o) as ([Hh _] & P & F).
  apply (pend_inv_transfer r _ P F). intros m Hm. rewrite Hh. exact Hm.
Qed.
Lemma delete_entry_held_ok v r n o : held_ok r -> held_ok (fst (delete_entry v r n o)).
Proof.
  destruct (delete_entry_le v r n o) as ([Hh _] & P & F).
  apply (pend_inv_transfer r _ P F). intros m Hm. rewrite Hh. exact Hm.
Qed.

Lemma flush_qc v l r : qc r -> qc (fst (fst (flush v l r))).
Proof. apply qc_le; [apply flush_le|apply flush_pend]. Qed.
Lemma flush_PWF v l r : PWF r -> PWF (fst (fst (flush v l r))).
Proof.
  destruct (flush_pend v l r) as [P F]. destruct (flush_le v l r) as [Hh _].
  apply (pend_inv_transfer r _ P F). intros m Hm. rewrite Hh. exact Hm.
Qed.
Lemma flush_held_ok v l r : held_ok r -> held_ok (fst (fst (flush v l r))).
Proof.
  destruct (flush_pend v l r) as [P F]. destruct (flush_le v l r) as [Hh _].
  apply (pend_inv_transfer r _ P F). intros m Hm. rewrite Hh. exact Hm.
Qed.

(* ---- a new network instance ---- *)
Lemma nget_app {V} k (l1 l2 : amap V) :
  nget k (l1 ++ l2) = match nget k l1 with Some x => Some x | None => nget k l2 end.
Proof.
  unfold nget, aget. induction l1 as [|[k' x] l1 IH]; cbn; [reflexivity|].
  destruct (k =? k'); cbn; [reflexivity|exact IH].
Qed.
Lemma add_ni_keeps v n r m : has_ni r m = true ->
  has_ni (add_network_instance v n r) m = true /\ sget (add_network_instance v n r) m = sget r m.
Proof.
  intros Hm. unfold add_network_instance. destruct (has_ni r n); [auto|].
  unfold has_ni, nmem, sget in *. cbn [nis set_nis]. rewrite nget_app.
  destruct (nget m (nis r)); [auto|discriminate].
Qed.

Lemma classify_ext r r' n o :
  (forall m, has_ni r m = true -> has_ni r' m = true /\ sget r' m = sget r m) ->
  has_ni r n = true ->
  match op_entry o with ETop _ _ _ (Some p) => has_ni r (fst (target n p)) = true | _ => True end ->
  classify r' n o = classify r n o.
Proof.
  intros H Hn Ht. unfold classify. destruct (H n Hn) as [-> ->]. rewrite Hn.
  destruct (op_entry o) as [t k kv [pl|]|id [pl|]|idx [pl|]|]; try reflexivity.
  destruct (H _ Ht) as [-> ->]. rewrite Ht. reflexivity.
Qed.

(* held operations name existing instances only, so creating an instance makes nothing installable *)
Lemma add_ni_qc v n r : held_ok r -> qc r -> qc (add_network_instance v n r).
Proof.
  intros HO Q id m o B.
  assert (Hp : pend (add_network_instance v n r) = pend r).
  { unfold add_network_instance. destruct (has_ni r n); reflexivity. }
  rewrite Hp in B. destruct (HO _ _ _ B) as [H1 H2].
  rewrite (classify_ext r _ m o (add_ni_keeps v n r) H1 H2). eapply Q; eauto.
Qed.
Lemma add_ni_inv v n r :
  (PWF r -> PWF (add_network_instance v n r)) /\ (held_ok r -> held_ok (add_network_instance v n r)).
Proof.
  apply pend_inv_transfer.
  - unfold add_network_instance. destruct (has_ni r n); reflexivity.
  - unfold add_network_instance. destruct (has_ni r n); reflexivity.
  - intros m Hm. apply add_ni_keeps; auto.
Qed.

(* the hooks do not touch tables or held operations *)
Lemma rib0_inv d nf : PWF (rib0 d nf) /\ held_ok (rib0 d nf) /\ qc (rib0 d nf).
Proof.
  split; [split; [intros id n o []|intros _; reflexivity]|]. split; intros id n o B; discriminate.
Qed.

(* ---- (d) forward references disallowed ---- *)
Lemma nofwd_pend_stays_empty v ord r n o : nofwd r = true -> pend r = [] ->
  nofwd (fst (add_entry v ord r n o)) = true /\ pend (fst (add_entry v ord r n o)) = [].
Proof.
  intros Hf Hp. assert (H : NF r) by (intros _; exact Hp).
  apply (add_entry_NF v ord r n o) in H. pose proof (add_entry_nofwd v ord r n o) as Hn.
  rewrite Hf in Hn. split; [exact Hn|apply H; exact Hn].
Qed.

Lemma nofwd_fail_now v ord r n o : nofwd r = true -> n <> 0 -> try_install v r n o = NotYet ->
  add_entry v ord r n o = (r, add_fail (op_id o) out0).
Proof.
  intros Hf Hn E.
  assert (Hc : classify r n o = CNotYet) by (rewrite (classify_spec v), E; reflexivity).
  apply classify_notyet_ni in Hc. destruct Hc as [Hh _].
  unfold add_entry. rewrite Hh. apply N.eqb_neq in Hn. rewrite Hn. cbn [orb negb].
  destruct (op_entry o) eqn:Eo.
  4:{ unfold try_install in E. rewrite Eo in E. destruct (nget n (nis r)); discriminate. }
  all: cbn [aei existsb]; rewrite E, Hf; reflexivity.
Qed.

(* ---- boolean checker for quiescence ---- *)
Lemma quiescentb_sound v r : quiescentb r = true -> quiescent v r.
Proof.
  unfold quiescentb. rewrite forallb_forall. intros H. apply quiescent_qc. intros id n o B.
  apply nget_in in B. specialize (H _ B). cbn [fst snd] in H. intros Hc. rewrite Hc in H. discriminate.
Qed.

(* ---- the hooks ---- *)
Lemma nget_map_snd {V} (g : V -> V) k (l : amap V) :
  nget k (map (fun kv => (fst kv, g (snd kv))) l) = option_map g (nget k l).
Proof.
  unfold nget, aget. induction l as [|[k' x] l IH]; cbn; [reflexivity|].
  destruct (k =? k'); cbn; [reflexivity|exact IH].
Qed.
Lemma teq_post_hook r : teq (set_post_change_hook r) r.
Proof.
  split; [reflexivity|]. split; [reflexivity|].
  assert (E : forall m, nget m (nis (set_post_change_hook r)) = option_map (set_hooked true) (nget m (nis r))).
  { intros m. unfold set_post_change_hook. cbn [nis]. apply nget_map_snd. }
  split.
  - intros m. unfold has_ni, nmem. rewrite E. destruct (nget m (nis r)); reflexivity.
  - intros m. unfold sget. rewrite E. destruct (nget m (nis r)); cbn [option_map]; [|apply ceq_refl].
    split; [reflexivity|]. split; [reflexivity|]. intros t; destruct t; reflexivity.
Qed.
Lemma teq_res_hook r : teq (set_resolved_hook r) r.
Proof. repeat split. Qed.
Lemma teq_inv r' r : teq r' r -> (PWF r -> PWF r') /\ (held_ok r -> held_ok r') /\ (qc r -> qc r') /\ (closed r -> closed r').
Proof.
  intros T. pose proof (teq_le _ _ T) as L. destruct T as (P & F & Hh & Hc).
  destruct (pend_inv_transfer r r' P F) as [A B]; [intros m Hm; rewrite Hh; exact Hm|].
  split; [exact A|]. split; [exact B|]. split; [apply qc_le; auto|].
  apply closed_teq. repeat split; auto; apply Hc.
Qed.

(* ---- every history without partial flushes: nothing dangles ---- *)
Lemma sget_no_ni r m : has_ni r m = false -> sget r m = ni_empty false.
Proof. unfold has_ni, nmem, sget. destruct (nget m (nis r)); [discriminate|reflexivity]. Qed.
Lemma closed_ceq r' r : (forall m, ceq (sget r' m) (sget r m)) -> closed r -> closed r'.
Proof.
  intros Hc [C1 C2]. split.
  - intros m id g _ Hb iw Hi. destruct (Hc m) as (Eg & Eh & _). rewrite Eg in Hb. rewrite Eh.
    destruct (has_ni r m) eqn:Hm; [eapply C1; eauto|]. rewrite (sget_no_ni _ _ Hm) in Hb. discriminate.
  - intros m t k p _ Hb. destruct (Hc m) as (_ & _ & Et). rewrite Et in Hb.
    destruct (Hc (fst (target m p))) as (Eg & _). rewrite Eg.
    destruct (has_ni r m) eqn:Hm; [eapply C2; eauto|]. rewrite (sget_no_ni _ _ Hm) in Hb. destruct t; discriminate.
Qed.
Lemma add_ni_ceq v n r m : ceq (sget (add_network_instance v n r) m) (sget r m).
Proof.
  destruct (has_ni r m) eqn:Hm.
  - destruct (add_ni_keeps v n r m Hm) as [_ ->]. apply ceq_refl.
  - rewrite (sget_no_ni _ _ Hm). unfold add_network_instance. destruct (has_ni r n); [rewrite (sget_no_ni _ _ Hm); apply ceq_refl|].
    unfold sget, has_ni, nmem in *. cbn [nis set_nis]. rewrite nget_app.
    destruct (nget m (nis r)); [discriminate|]. unfold nget, aget; cbn.
    destruct (m =? n); cbn; split; try reflexivity; split; try reflexivity; intros t; destruct t; reflexivity.
Qed.
Lemma add_ni_closed v n r : closed r -> closed (add_network_instance v n r).
Proof. apply closed_ceq. apply add_ni_ceq. Qed.

Lemma safe_step_closed v r r' : safe_step v r r' -> closed r -> closed r'.
Proof.
  intros St C. destruct St as [ord r n o|r n o HRC|l r Hl|n r|r|r].
  - apply add_entry_closed; auto.
  - apply delete_entry_closed; auto.
  - apply full_flush_closed; auto.
  - apply add_ni_closed; auto.
  - apply (teq_inv _ _ (teq_post_hook r)); auto.
  - apply (teq_inv _ _ (teq_res_hook r)); auto.
Qed.
Lemma safe_reach_closed v d nf r : safe_reach v (rib0 d nf) r -> closed r.
Proof. intros H. induction H as [|r r' _ IH St]; [apply closed_rib0|]. eapply safe_step_closed; eauto. Qed.

(* ---- every history: held operations are retried to exhaustion ---- *)
Lemma unres_le r r' : le r' r -> pend r' = pend r -> unres r -> unres r'.
Proof.
  intros L Hp Q id n o B. rewrite Hp in B. specialize (Q _ _ _ B).
  destruct (resolvable r' n o) eqn:E; [|reflexivity]. apply (resolvable_le _ _ _ _ L) in E. congruence.
Qed.
Lemma resolvable_ceq r' r n o : (forall m, ceq (sget r' m) (sget r m)) -> resolvable r' n o = resolvable r n o.
Proof.
  intros Hc. unfold resolvable. destruct (op_entry o) as [t k kv [p|]|id [g|]|idx p|]; auto.
  - destruct (Hc (fst (target n p))) as (-> & _). reflexivity.
  - destruct (Hc n) as (_ & -> & _). reflexivity.
Qed.
Lemma delete_entry_unres v r n o : unres r -> unres (fst (delete_entry v r n o)).
Proof. destruct (delete_entry_le v r n o) as (L & P & _). apply unres_le; auto. Qed.
Lemma flush_unres v l r : unres r -> unres (fst (fst (flush v l r))).
Proof. apply unres_le; [apply flush_le|apply flush_pend]. Qed.
Lemma add_ni_unres v n r : unres r -> unres (add_network_instance v n r).
Proof.
  intros Q id m o B.
  assert (Hp : pend (add_network_instance v n r) = pend r).
  { unfold add_network_instance. destruct (has_ni r n); reflexivity. }
  rewrite Hp in B. rewrite (resolvable_ceq _ r) by (apply add_ni_ceq). eapply Q; eauto.
Qed.

Lemma rib_step_inv v r r' : fixF5 v = true -> rib_step v r r' ->
  PWF r /\ held_ok r /\ unres r -> PWF r' /\ held_ok r' /\ unres r'.
Proof.
  intros Hv St (H1 & H2 & H3). destruct St as [ord r n o Hord|r n o|l r|n r|r|r].
  - split; [apply add_entry_PWF; auto|]. split; [apply add_entry_held_ok; auto|].
    apply (add_entry_complete v ord r n o Hv Hord H1); auto.
  - split; [apply delete_entry_PWF; auto|]. split; [apply delete_entry_held_ok; auto|apply delete_entry_unres; auto].
  - split; [apply flush_PWF; auto|]. split; [apply flush_held_ok; auto|apply flush_unres; auto].
  - split; [apply add_ni_inv; auto|]. split; [apply add_ni_inv; auto|apply add_ni_unres; auto].
  - destruct (teq_inv _ _ (teq_post_hook r)) as (A & B & _). split; [auto|]. split; [auto|].
    apply (unres_le r); auto. apply teq_le, teq_post_hook.
  - destruct (teq_inv _ _ (teq_res_hook r)) as (A & B & _). split; [auto|]. split; [auto|].
    apply (unres_le r); auto. apply teq_le, teq_res_hook.
Qed.
Lemma rib_reach_inv v d nf r : fixF5 v = true -> rib_reach v (rib0 d nf) r -> PWF r /\ held_ok r /\ unres r.
Proof.
  intros Hv H. induction H as [|r r' _ IH St]; [|eapply rib_step_inv; eauto].
  destruct (rib0_inv d nf) as (A & B & _). split; [auto|]. split; [auto|]. intros id n o B'. discriminate.
Qed.

(* ---- witnesses ---- *)
Lemma idord_perm l : Permutation (idord l) l.
Proof. apply Permutation_refl. Qed.
Lemma revord_perm l : Permutation (revord l) l.
Proof. apply Permutation_sym, Permutation_rev. Qed.

Lemma order_matters :
  map fst (pend om_state) = [6; 4]
  /\ fails (snd (add_entry v_fixed idord om_state 1 om_op)) = []
  /\ fails (snd (add_entry v_fixed revord om_state 1 om_op)) = [4]
  /\ oks (snd (add_entry v_fixed idord om_state 1 om_op)) = [7; 6; 4]
  /\ oks (snd (add_entry v_fixed revord om_state 1 om_op)) = [7; 6].
Proof. vm_compute. repeat split. Qed.

Lemma reverse_order_example :
  map fst (pend ex_r2) = [2; 1]
  /\ oks (snd ex_last) = [3; 2; 1] /\ fails (snd ex_last) = [] /\ pend (fst ex_last) = []
  /\ closedb (fst ex_last) = true /\ quiescentb (fst ex_last) = true.
Proof. vm_compute. repeat split. Qed.


(* ================================================================== *)
(* Summary statements (used by Properties/C02.v)                      *)
(* ================================================================== *)
Theorem fuel_sufficient ord r n o : (forall l, Permutation (ord l) l) -> PWF r ->
  nofuel (snd (add_entry v_fixed ord r n o)) = false.
Proof. intros Hord HP. apply (add_entry_complete v_fixed ord r n o eq_refl Hord HP). Qed.

Theorem complete ord r n o : (forall l, Permutation (ord l) l) -> PWF r ->
  quiescent v_fixed r -> quiescent v_fixed (fst (add_entry v_fixed ord r n o)).
Proof.
  intros Hord HP Q. apply quiescent_qc. apply (add_entry_complete v_fixed ord r n o eq_refl Hord HP).
  apply (quiescent_qc v_fixed). exact Q.
Qed.

Theorem delete_keeps_quiescent v r n o : quiescent v r -> quiescent v (fst (delete_entry v r n o)).
Proof. intros Q. apply quiescent_qc, delete_entry_qc, (quiescent_qc v), Q. Qed.
Theorem flush_keeps_quiescent v l r : quiescent v r -> quiescent v (fst (fst (flush v l r))).
Proof. intros Q. apply quiescent_qc, flush_qc, (quiescent_qc v), Q. Qed.
Theorem add_ni_keeps_quiescent v n r : held_ok r -> quiescent v r -> quiescent v (add_network_instance v n r).
Proof. intros H Q. apply quiescent_qc, add_ni_qc; [exact H|]. apply (quiescent_qc v), Q. Qed.

Theorem held_invariants d nf r : rib_reach v_fixed (rib0 d nf) r ->
  PWF r /\ held_ok r /\ unres r /\ quiescent v_fixed r.
Proof.
  intros H. destruct (rib_reach_inv v_fixed d nf r eq_refl H) as (A & B & C).
  split; [exact A|]. split; [exact B|]. split; [exact C|]. apply quiescent_qc, unres_qc, C.
Qed.

Lemma rib_step_nofwd v r r' : rib_step v r r' -> nofwd r' = nofwd r.
Proof.
  intros St. destruct St as [ord r n o Hord|r n o|l r|n r|r|r].
  - apply add_entry_nofwd.
  - apply delete_entry_le.
  - apply flush_pend.
  - unfold add_network_instance. destruct (has_ni r n); reflexivity.
  - reflexivity.
  - reflexivity.
Qed.
Theorem nofwd_never_holds d r : rib_reach v_fixed (rib0 d true) r -> nofwd r = true /\ pend r = [].
Proof.
  intros H. assert (Hn : nofwd r = true).
  { induction H as [|r r' _ IH St]; [reflexivity|]. rewrite (rib_step_nofwd _ _ _ St). exact IH. }
  split; [exact Hn|]. destruct (held_invariants d true r H) as ([_ HNF] & _). apply HNF, Hn.
Qed.
Theorem nofwd_immediate v ord r n o : nofwd r = true -> n <> 0 -> try_install v r n o = NotYet ->
  fst (add_entry v ord r n o) = r /\ fails (snd (add_entry v ord r n o)) = [op_id o]
  /\ oks (snd (add_entry v ord r n o)) = [].
Proof. intros Hf Hn E. rewrite (nofwd_fail_now v ord r n o Hf Hn E). repeat split. Qed.

Theorem partial_flush_breaks_closed_refuted :
  exists r l, closed r /\ ~ closed (fst (fst (flush v_fixed l r))).
Proof. exists pf_state, [1]. exact partial_flush_breaks_closed. Qed.

Theorem order_matters_witness :
  exists ord1 ord2 r n o,
    (forall l, Permutation (ord1 l) l) /\ (forall l, Permutation (ord2 l) l)
    /\ rib_reach v_fixed (rib0 1 false) r
    /\ fails (snd (add_entry v_fixed ord1 r n o)) <> fails (snd (add_entry v_fixed ord2 r n o)).
Proof.
  exists idord, revord, om_state, 1, om_op.
  split; [exact idord_perm|]. split; [exact revord_perm|]. split.
  - unfold om_state, addv. repeat (eapply reach_step; [|first [apply SAdd; exact idord_perm|apply SDel]]). apply reach_refl.
  - destruct order_matters as (_ & -> & -> & _). discriminate.
Qed.

(* ---- each operation is answered at most once per AddEntry; answered operations are not held ---- *)
Lemma NoDup_snoc {A} (l : list A) x : NoDup l -> ~ In x l -> NoDup (l ++ [x]).
Proof.
  intros H Hx. apply (Permutation_NoDup (Permutation_cons_append l x)). constructor; auto.
Qed.
Lemma NoDup_mid {A} (a b : list A) x : NoDup (a ++ b) -> ~ In x (a ++ b) -> NoDup ((a ++ [x]) ++ b).
Proof.
  intros H Hx. rewrite <- app_assoc. cbn [app].
  apply (Permutation_NoDup (Permutation_middle a b x)). constructor; auto.
Qed.
Lemma NoDup_app_l {A} (a b : list A) : NoDup (a ++ b) -> NoDup a.
Proof. induction a as [|y a IH]; cbn; intros H; [constructor|]. inversion H; subst. constructor; [intros Hi; apply H2, in_or_app; auto|auto]. Qed.
Lemma NoDup_app_r {A} (a b : list A) : NoDup (a ++ b) -> NoDup b.
Proof. induction a as [|y a IH]; cbn; intros H; [exact H|]. inversion H; subst. auto. Qed.
Lemma NoDup_app_disjoint {A} (a b : list A) x : NoDup (a ++ b) -> In x a -> ~ In x b.
Proof.
  induction a as [|y a IH]; cbn; [tauto|]. intros H [->|Hi] Hb.
  - inversion H; subst. apply H2. apply in_or_app. right. exact Hb.
  - inversion H; subst. eapply IH; eauto.
Qed.

(* results so far are distinct and all on the install stack *)
Definition Kst (st : rib * out * list N) : Prop :=
  NoDup (oks (snd (fst st)) ++ fails (snd (fst st)))
  /\ forall id, In id (oks (snd (fst st)) ++ fails (snd (fst st))) -> In id (snd st).

Lemma aei_K v ord : fixF5 v = true -> forall F st n o,
  nofwd (fst (fst st)) = false -> Kst st ->
  Kst (aei v ord F st n o) /\ nofwd (fst (fst (aei v ord F st n o))) = false.
Proof.
  intros Hv F st n o.
  apply (aei_rel v ord (fun a b => nofwd (fst (fst a)) = false -> Kst a -> Kst b /\ nofwd (fst (fst b)) = false)).
  - auto.
  - intros a b c H1 H2 Hf K. destruct (H1 Hf K) as [K1 F1]. apply H2; auto.
  - intros r acc stk Hf K. split; [exact K|exact Hf].
  - intros r acc stk n0 o0 Hns E Hf [K1 K2]. rewrite Hv. cbn [fst snd] in *. split; [|exact Hf].
    split; cbn [fst snd oks fails add_fail].
    + rewrite app_assoc. apply NoDup_snoc; auto.
    + intros id Hi. rewrite app_assoc in Hi. apply in_app_or in Hi. destruct Hi as [Hi|[<-|[]]]; [right; auto|left; reflexivity].
  - intros r acc stk n0 o0 Hns E En Hf. cbn [fst] in Hf. congruence.
  - intros r acc stk n0 o0 Hns E En Hf K. split; [exact K|exact Hf].
  - intros r acc stk n0 o0 r' h rv Hns E Hf [K1 K2]. cbn [fst snd] in *.
    apply try_install_effect in E. destruct E as [Hn He]. destruct (inst_eff_le _ _ _ _ Hn He) as (_ & _ & Hfw).
    split; [|cbn [nofwd set_pend]; congruence].
    split; cbn [fst snd oks fails add_rev add_hev add_ok].
    + apply NoDup_mid; auto.
    + intros id Hi. apply in_app_or in Hi. destruct Hi as [Hi|Hi].
      * apply in_app_or in Hi. destruct Hi as [Hi|[<-|[]]]; [right; apply K2; apply in_or_app; auto|left; reflexivity].
      * right. apply K2. apply in_or_app. auto.
Qed.

Lemma add_entry_results_core v ord r n o :
  fixF5 v = true -> (forall l, Permutation (ord l) l) -> PWF r ->
  NoDup (oks (snd (add_entry v ord r n o)) ++ fails (snd (add_entry v ord r n o)))
  /\ forall id, In id (oks (snd (add_entry v ord r n o)) ++ fails (snd (add_entry v ord r n o))) ->
       (id = op_id o \/ In id (map fst (pend r))) /\ ~ In id (map fst (pend (fst (add_entry v ord r n o)))).
Proof.
  intros Hv Hord [HPK HNF].
  destruct (add_entry_cases v ord r n o) as [E|(_ & _ & _ & stk & E)].
  { rewrite E. cbn. split; [constructor|intros id []]. }
  destruct (nofwd r) eqn:Hf.
  - (* nothing is held: a single answer *)
    pose proof (HNF Hf) as Hp. rewrite Hp in E. cbn [length aei existsb] in E.
    destruct (try_install v r n o) as [| |r1 h rv] eqn:Et.
    + rewrite Hv, Hp in E. pose proof (f_equal (fun x => fst (fst x)) E) as E1; pose proof (f_equal (fun x => snd (fst x)) E) as E2;
      cbn [fst snd] in E1, E2; rewrite <- E1, <- E2; cbn.
      split; [constructor; [intros []|constructor]|]. intros id [<-|[]]. split; [auto|intros []].
    + rewrite Hf in E. pose proof (f_equal (fun x => fst (fst x)) E) as E1; pose proof (f_equal (fun x => snd (fst x)) E) as E2;
      cbn [fst snd] in E1, E2; rewrite <- E1, <- E2; cbn. rewrite Hp.
      split; [constructor; [intros []|constructor]|]. intros id [<-|[]]. split; [auto|intros []].
    + pose proof Et as Et'. apply try_install_effect in Et'. destruct Et' as [Hn He].
      destruct (inst_eff_le _ _ _ _ Hn He) as (_ & Hp1 & _). rewrite Hp1, Hp in E.
      cbn [pend set_pend] in E. change (@ndel (ni * rop) (op_id o) []) with (@nil (N * (ni * rop))) in E.
      rewrite (Permutation_nil (Permutation_sym (Hord []))) in E. cbn [fold_left] in E.
      pose proof (f_equal (fun x => fst (fst x)) E) as E1; pose proof (f_equal (fun x => snd (fst x)) E) as E2;
      cbn [fst snd] in E1, E2; rewrite <- E1, <- E2; cbn.
      split; [constructor; [intros []|constructor]|]. intros id [<-|[]]. split; [auto|intros []].
  - pose (U := op_id o :: map fst (pend r)).
    assert (HS : SI U r []).
    { split; [exact HPK|]. split; [exact HNF|]. split; [constructor|]. split; [intros x []|].
      intros id x Hi. split; [|intros []]. right. change id with (fst (id, x)). apply in_map. exact Hi. }
    assert (K0 : Kst (r, out0, [])) by (split; [constructor|intros id []]).
    destruct (aei_K v ord Hv (S (length (pend r))) (r, out0, []) n o Hf K0) as [[K1 K2] _].
    rewrite E in K1, K2. cbn [fst snd] in K1, K2.
    apply (aei_complete (fun _ _ _ => True) (fun _ _ _ _ _ _ => I) (fun _ _ _ _ => I) v ord Hv Hord U) in E; auto;
      [|left; reflexivity|lia|subst U; cbn [length]; rewrite map_length; lia].
    destruct E as ((_ & _ & _ & HI & HB) & _).
    split; [exact K1|]. intros id Hi. apply K2 in Hi. split.
    + apply HI in Hi. destruct Hi as [<-|Hi]; auto.
    + intros Hk. apply in_map_iff in Hk. destruct Hk as ([id' x] & Ei & Hk). cbn [fst] in Ei. subst id'.
      apply HB in Hk. tauto.
Qed.

Theorem add_entry_results_disjoint ord r n o : (forall l, Permutation (ord l) l) -> PWF r ->
  NoDup (oks (snd (add_entry v_fixed ord r n o))) /\ NoDup (fails (snd (add_entry v_fixed ord r n o)))
  /\ forall id, In id (oks (snd (add_entry v_fixed ord r n o))) -> ~ In id (fails (snd (add_entry v_fixed ord r n o))).
Proof.
  intros Hord HP. destruct (add_entry_results_core v_fixed ord r n o eq_refl Hord HP) as [H _].
  split; [eapply NoDup_app_l; eauto|]. split; [eapply NoDup_app_r; eauto|].
  intros id. apply NoDup_app_disjoint. exact H.
Qed.

Theorem add_entry_results_ids ord r n o : (forall l, Permutation (ord l) l) -> PWF r ->
  forall id, In id (oks (snd (add_entry v_fixed ord r n o)) ++ fails (snd (add_entry v_fixed ord r n o))) ->
    (id = op_id o \/ In id (map fst (pend r)))
    /\ ~ In id (map fst (pend (fst (add_entry v_fixed ord r n o)))).
Proof. intros Hord HP. apply (add_entry_results_core v_fixed ord r n o eq_refl Hord HP). Qed.

(* the pinned tree: an operation answered FAILED by an inner loop is still in the snapshot an outer
   loop iterates over, is retried there and answered OK as well, in the same AddEntry; repaired: the
   failed id is recorded on the per-call stack and the operation is answered once *)
Lemma failed_then_acked_tree_witness :
  map fst (pend fa_state) = [8; 4; 6]
  /\ oks (snd (add_entry v_tree idord fa_state 1 om_op)) = [7; 8; 6; 4]
  /\ fails (snd (add_entry v_tree idord fa_state 1 om_op)) = [4].
Proof. vm_compute. repeat split. Qed.
Lemma failed_once_fixed_example :
  oks (snd (add_entry v_fixed idord fa_state 1 om_op)) = [7; 8; 6]
  /\ fails (snd (add_entry v_fixed idord fa_state 1 om_op)) = [4]
  /\ pend (fst (add_entry v_fixed idord fa_state 1 om_op)) = [].
Proof. vm_compute. repeat split. Qed.
Theorem failed_then_acked_tree_refuted :
  exists ord r n o id, (forall l, Permutation (ord l) l)
    /\ In id (oks (snd (add_entry v_tree ord r n o))) /\ In id (fails (snd (add_entry v_tree ord r n o))).
Proof.
  exists idord, fa_state, 1, om_op, 4. split; [exact idord_perm|].
  destruct failed_then_acked_tree_witness as (_ & -> & ->). cbn. tauto.
Qed.
