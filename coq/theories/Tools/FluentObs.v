(* Decidable comparison of the fluent model's observables with what the harness captured
   from the real fluent API, used by the generated cases files.  No proofs. *)
From Coq Require Import String List NArith ZArith Bool.
From GV.Base Require Import Alist U128.
From GV.Tools Require Import Fluent.
Import ListNotations.
Open Scope N_scope.

Fixpoint list_eqb {A} (eqb : A -> A -> bool) (l1 l2 : list A) : bool :=
  match l1, l2 with
  | [], [] => true
  | a :: t1, b :: t2 => eqb a b && list_eqb eqb t1 t2
  | _, _ => false
  end.
Definition opt_eqb {A} (eqb : A -> A -> bool) (a b : option A) : bool :=
  match a, b with Some x, Some y => eqb x y | None, None => true | _, _ => false end.
Definition pair_eqb {A B} (ea : A -> A -> bool) (eb : B -> B -> bool) (a b : A * B) : bool :=
  ea (fst a) (fst b) && eb (snd a) (snd b).

Definition oN_eqb := opt_eqb N.eqb.
Definition oS_eqb := opt_eqb String.eqb.
Definition lN_eqb := list_eqb N.eqb.
Definition ou128_eqb := opt_eqb u128_eqb.

Definition ip_eqb (a b : ip_msg) : bool :=
  String.eqb (ip_prefix a) (ip_prefix b) && oN_eqb (ip_nhg a) (ip_nhg b) && oS_eqb (ip_nhg_ni a) (ip_nhg_ni b)
  && oS_eqb (ip_meta a) (ip_meta b).
Definition label_eqb (a b : label_msg) : bool :=
  oN_eqb (lb_label a) (lb_label b) && oN_eqb (lb_nhg a) (lb_nhg b) && oS_eqb (lb_nhg_ni a) (lb_nhg_ni b)
  && lN_eqb (lb_popped a) (lb_popped b).
Definition udp6_eqb (a b : udp6_msg) : bool :=
  oN_eqb (u_dscp a) (u_dscp b) && oS_eqb (u_dst_ip a) (u_dst_ip b) && oN_eqb (u_dst_port a) (u_dst_port b)
  && oN_eqb (u_ttl a) (u_ttl b) && oS_eqb (u_src_ip a) (u_src_ip b) && oN_eqb (u_src_port a) (u_src_port b).
Definition encap_eqb (a b : encap_msg) : bool :=
  (eh_type a =? eh_type b) && opt_eqb lN_eqb (eh_mpls a) (eh_mpls b) && opt_eqb udp6_eqb (eh_udp6 a) (eh_udp6 b).
Definition body_eqb (a b : nh_body encap_msg) : bool :=
  oS_eqb (nb_ip a) (nb_ip b) && opt_eqb (pair_eqb String.eqb oN_eqb) (nb_ifref a) (nb_ifref b)
  && oS_eqb (nb_mac a) (nb_mac b) && opt_eqb (pair_eqb String.eqb String.eqb) (nb_ipinip a) (nb_ipinip b)
  && oS_eqb (nb_ni a) (nb_ni b) && opt_eqb Bool.eqb (nb_pop a) (nb_pop b) && lN_eqb (nb_pushed a) (nb_pushed b)
  && list_eqb (pair_eqb N.eqb encap_eqb) (nb_encap a) (nb_encap b)
  && (nb_decap a =? nb_decap b) && (nb_encapsulate a =? nb_encapsulate b).
Definition nh_eqb (a b : nh_msg) : bool :=
  (nh_index a =? nh_index b) && opt_eqb body_eqb (nh_next_hop a) (nh_next_hop b).
Definition nhg_eqb (a b : nhg_msg) : bool :=
  (g_id a =? g_id b) && oN_eqb (g_backup a) (g_backup b) && list_eqb (pair_eqb N.eqb N.eqb) (g_nhs a) (g_nhs b).
Definition payload_eqb (a b : payload) : bool :=
  match a, b with
  | PIPv4 x, PIPv4 y | PIPv6 x, PIPv6 y => ip_eqb x y
  | PLabel x, PLabel y => label_eqb x y
  | PNH x, PNH y => nh_eqb x y
  | PNHG x, PNHG y => nhg_eqb x y
  | _, _ => false
  end.
Definition op_eqb (a b : op_msg) : bool :=
  (o_id a =? o_id b) && String.eqb (o_ni a) (o_ni b) && (o_op a =? o_op b) && ou128_eqb (o_elec a) (o_elec b)
  && payload_eqb (o_entry a) (o_entry b).
Definition entry_eqb (a b : entry_msg) : bool :=
  String.eqb (e_ni a) (e_ni b) && payload_eqb (e_entry a) (e_entry b).
Definition params_eqb (a b : N * N * N) : bool :=
  (fst (fst a) =? fst (fst b)) && (snd (fst a) =? snd (fst b)) && (snd a =? snd b).
Definition mreq_eqb (a b : mreq) : bool :=
  list_eqb op_eqb (m_ops a) (m_ops b) && opt_eqb params_eqb (m_params a) (m_params b) && ou128_eqb (m_elec a) (m_elec b).

(* element-wise comparison of a list of model values with a list of observations *)
Fixpoint all2b {A B} (f : A -> B -> bool) (l1 : list A) (l2 : list B) : bool :=
  match l1, l2 with
  | [], [] => true
  | a :: t1, b :: t2 => f a b && all2b f t1 t2
  | _, _ => false
  end.

(* what the harness records for one client.Client of a fluent client (one per successful Start): the
   ModifyRequests its Modify stream received (in order), and the operations it had queued that
   never reached a stream (queued after Stop, or before a Start that replaced it), by id *)
Record iobs := MkIObs { io_stream : list mreq; io_unsent : list op_msg }.

(* what the harness records for one fluent client: its name, its client.Clients oldest first, and
   the number of t.Fatalf calls *)
Record cobs := MkCObs { co_id : cid; co_incs : list iobs; co_fatals : N }.

(* a case: the program, the per-client observations, and the (OpProto, EntryProto) pairs of
   the SProto steps *)
Record fcase := MkCase { fc_prog : list step; fc_clients : list cobs; fc_protos : list (op_msg * entry_msg) }.

Definition iobs_ok (i : incarnation) (o : iobs) : bool :=
  list_eqb mreq_eqb (i_sent i) (io_stream o) && list_eqb op_eqb (flat_map m_ops (i_sendq i)) (io_unsent o).

Definition cobs_ok (s : state) (o : cobs) : bool :=
  all2b iobs_ok (incs_of s (co_id o)) (co_incs o)
  && (c_fatals (cget (st_clients s) (co_id o)) =? co_fatals o).

Definition fcase_ok (c : fcase) : bool :=
  let s := run (fc_prog c) in
  forallb (cobs_ok s) (fc_clients c)
  && (N.of_nat (List.length (st_clients s)) =? N.of_nat (List.length (fc_clients c)))
  && list_eqb (pair_eqb op_eqb entry_eqb) (st_protos s) (fc_protos c).

(* indices of the cases on which model and implementation differ *)
Fixpoint bad_indices {A} (f : A -> bool) (l : list A) (i : N) : list N :=
  match l with [] => [] | a :: tl => if f a then bad_indices f tl (i + 1) else i :: bad_indices f tl (i + 1) end.
Definition fmismatches (cs : list fcase) : list N := bad_indices fcase_ok cs 0.
