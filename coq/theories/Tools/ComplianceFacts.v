(* C19: facts about compliance scripts: every step keeps the RIB invariant and the configuration,
   a contract-respecting script leaves the server reset, and the verdict of a contract-respecting
   script is the same from every reset state and for every value of the suite's election counter. *)
From Coq Require Import List NArith Bool Lia Permutation.
From GV.Base Require Import Alist U128 Op.
From GV.Rib Require Import Model Lemmas RefDefs RefCount FlushFacts Run Closed.
From GV.Tools Require Import C19RibRel.
From GV.Server Require Import Model Obs Inst Facts ElectionInv FlushRpc.
From GV.Tools Require Import Compliance C19Sim.
Import ListNotations.
Open Scope N_scope.

(* ------------------------------------------------------------------ RIB operations keep the configuration *)
(* same instances, hook flags and options *)
Definition cfr (r r' : ribt) : Prop := (forall m, has_ni r' m = has_ni r m) /\ fr r r'.
Lemma cfr_refl r : cfr r r.
Proof. split; [reflexivity|apply fr_refl]. Qed.
Lemma cfr_trans a b c : cfr a b -> cfr b c -> cfr a c.
Proof. intros [A1 A2] [B1 B2]. split; [intros m; rewrite B1; apply A1|eapply fr_trans; eauto]. Qed.
Lemma cfr_upd x f r : (forall s, hooked (f s) = hooked s) -> cfr r (upd_ni x f r).
Proof. intros H. split; [intros m; apply has_ni_upd|apply fr_upd; exact H]. Qed.
Lemma cfr_set_pend m r : cfr r (set_pend m r).
Proof. split; [reflexivity|]. repeat split; reflexivity. Qed.

Lemma try_install_cfr v r n o r' h rv : try_install v r n o = Installed r' h rv -> cfr r r'.
Proof.
  unfold try_install. destruct (nget n (nis r)) as [s|]; [|discriminate].
  destruct (op_entry o) as [t k kv [pl|]|id [pl|]|idx [pl|]|]; try discriminate.
  - unfold try_add_top.
    destruct (negb (key_ok t k kv) || t_bad pl); [discriminate|].
    destruct (_ && negb (nmem k (get_top t s))); [discriminate|].
    destruct (t_nhg pl =? 0); [discriminate|].
    destruct (target n pl) as [tn tg].
    destruct (negb (has_ni r tn)); [discriminate|].
    destruct (negb (has_grp r tn tg)); [discriminate|].
    intros H; inversion H; subst r'; clear H.
    assert (K1 : cfr r (upd_ni n (fun s' => set_top t (nset k pl (get_top t s')) s') r))
      by (apply cfr_upd; intros s0; apply hooked_set_top).
    destruct (nget k (get_top t s)) as [o0|].
    + destruct (same_ref o0 pl); [exact K1|]. destruct (target n o0) as [on og].
      eapply cfr_trans; [exact K1|]. eapply cfr_trans; apply cfr_upd; reflexivity.
    + eapply cfr_trans; [exact K1|]. apply cfr_upd; reflexivity.
  - unfold try_add_grp.
    destruct (g_bad pl); [discriminate|].
    destruct (_ && negb (nmem id (tabg s))); [discriminate|].
    destruct (id =? 0); [discriminate|].
    destruct (g_nhs pl) as [|a l]; [discriminate|].
    destruct (existsb _ _); [discriminate|].
    destruct (negb (forallb _ _)); [discriminate|].
    intros H; inversion H; subst r'; clear H.
    destruct (nget id (tabg s)) as [o0|].
    + eapply cfr_trans; [eapply cfr_trans|]; apply cfr_upd; reflexivity.
    + eapply cfr_trans; apply cfr_upd; reflexivity.
  - unfold try_add_nh.
    destruct (h_bad pl); [discriminate|].
    destruct (_ && negb (nmem idx (tabh s))); [discriminate|].
    destruct (idx =? 0); [discriminate|].
    intros H; inversion H; subst r'. apply cfr_upd; reflexivity.
Qed.

Lemma aei_cfr v ord F st n o : cfr (fst (fst st)) (fst (fst (aei v ord F st n o))).
Proof.
  apply (aei_rel v ord (fun a b => cfr (fst (fst a)) (fst (fst b)))).
  - intros st0. apply cfr_refl.
  - intros a b c. apply cfr_trans.
  - intros r acc stk. apply cfr_refl.
  - intros r acc stk n0 o0 _ _. cbn [fst]. destruct (fixF5 v); [apply cfr_set_pend|apply cfr_refl].
  - intros r acc stk n0 o0 _ _ _. apply cfr_refl.
  - intros r acc stk n0 o0 _ _ _. cbn [fst]. apply cfr_set_pend.
  - intros r acc stk n0 o0 r' h rv _ E. cbn [fst]. eapply cfr_trans; [eapply try_install_cfr; exact E|apply cfr_set_pend].
Qed.
Lemma add_entry_cfr v ord r n o : cfr r (fst (add_entry v ord r n o)).
Proof.
  destruct (add_entry_cases v ord r n o) as [E|(_ & _ & _ & stk & E)].
  - rewrite E. apply cfr_refl.
  - pose proof (aei_cfr v ord (S (length (pend r))) (r, out0, []) n o) as H. rewrite E in H. exact H.
Qed.
Lemma delete_entry_cfr v r n o : cfr r (fst (delete_entry v r n o)).
Proof.
  unfold delete_entry. destruct (nget n (nis r)) as [s|]; [|apply cfr_refl].
  destruct (op_entry o) as [t k kv p|id p|idx p|].
  - destruct (fixF6 v && negb (key_ok t k kv)); [apply cfr_refl|]. cbn [fst].
    set (k' := match t with TL => if fixF6 v then k else k mod W32 | _ => k end).
    assert (K1 : cfr r (upd_ni n (fun s' => set_top t (ndel k' (get_top t s')) s') r))
      by (apply cfr_upd; intros s0; apply hooked_set_top).
    destruct (nget k' (get_top t s)) as [d0|]; [|exact K1].
    destruct (target n d0) as [tn tg]. eapply cfr_trans; [exact K1|apply cfr_upd; reflexivity].
  - destruct (id =? 0); [apply cfr_refl|]. destruct (nget id (tabg s)) as [g|]; [|apply cfr_refl].
    destruct (0 <? cnt (rcg s) id); [apply cfr_refl|]. cbn [fst]. eapply cfr_trans; apply cfr_upd; reflexivity.
  - destruct (idx =? 0); [apply cfr_refl|]. destruct (nget idx (tabh s)) as [h|]; [|apply cfr_refl].
    destruct (0 <? cnt (rch s) idx); [apply cfr_refl|]. cbn [fst]. apply cfr_upd; reflexivity.
  - apply cfr_refl.
Qed.
Lemma flush_cfr l r : cfr r (fst (fst (flush v_fixed l r))).
Proof.
  split; [|apply flush_fr]. intros m. destruct (flush_le v_fixed l r) as [H _]. apply H.
Qed.

(* ------------------------------------------------------------------ one step keeps INV and the configuration *)
Notation mstepf := (step hentry ribt r_has_ni (r_add v_fixed) (r_del v_fixed) sv_fixed).
Notation dops := (do_ops hentry ribt r_has_ni (r_add v_fixed) (r_del v_fixed) sv_fixed).
Notation mentry := (modify_entry hentry ribt (r_add v_fixed) (r_del v_fixed)).

Lemma ref_step_in s x : ref_step s (SIn x) = (fst (mstepf s x), OMod (snd (mstepf s x))).
Proof. unfold ref_step, sstep, mstep. destruct (mstepf s x); reflexivity. Qed.
Lemma ref_step_flush s q : ref_step s (SFlush q) = (fst (do_flush v_fixed s q), OFlush (snd (do_flush v_fixed s q))).
Proof. unfold ref_step, sstep. destruct (do_flush v_fixed s q); reflexivity. Qed.
Lemma ref_step_get s q : ref_step s (SGet q) = (s, OGet (do_get s q)).
Proof. reflexivity. Qed.

Definition good (r r' : ribt) : Prop := INV r' /\ cfr r r'.
Lemma good_refl r : INV r -> good r r. Proof. intros H; split; [exact H|apply cfr_refl]. Qed.
Lemma good_trans a b c : good a b -> good b c -> good a c.
Proof. intros [_ A] [B1 B2]. split; [exact B1|eapply cfr_trans; eauto]. Qed.

Lemma r_add_good r n o : INV r -> good r (fst (r_add v_fixed r n o)).
Proof.
  intros H. unfold r_add.
  pose proof (add_entry_INV (canon (hfails (op_entry o)) (hoks (op_entry o))) r n (strip o) H) as I.
  pose proof (add_entry_cfr v_fixed (canon (hfails (op_entry o)) (hoks (op_entry o))) r n (strip o)) as C.
  destruct (add_entry v_fixed _ r n (strip o)) as [r' out]. cbn [fst] in *. split; assumption.
Qed.
Lemma r_del_good r n o : INV r -> good r (fst (r_del v_fixed r n o)).
Proof.
  intros H. unfold r_del.
  pose proof (delete_entry_INV r n (strip o) H) as I. pose proof (delete_entry_cfr v_fixed r n (strip o)) as C.
  destruct (delete_entry v_fixed r n (strip o)) as [r' out]. cbn [fst] in *. split; assumption.
Qed.
Lemma mentry_good fib g o r : INV r -> good r (fst (fst (mentry fib g o r))).
Proof.
  intros H. unfold modify_entry. destruct g; try (cbn [fst]; apply good_refl; exact H).
  destruct (op_kind o).
  - pose proof (r_add_good r (op_ni o) o H) as G. destruct (r_add v_fixed r (op_ni o) o) as [r' [[a b] c]]. destruct c; exact G.
  - pose proof (r_add_good r (op_ni o) o H) as G. destruct (r_add v_fixed r (op_ni o) o) as [r' [[a b] c]]. destruct c; exact G.
  - pose proof (r_del_good r (op_ni o) o H) as G. destruct (r_del v_fixed r (op_ni o) o) as [r' [[a b] c]]. destruct c; exact G.
  - cbn [fst]. apply good_refl; exact H.
Qed.
Lemma dops_good fib mst cu me la ops : forall r acc, INV r -> good r (fst (fst (dops fib mst cu me la ops r acc))).
Proof.
  induction ops as [|o tl IH]; intros r acc H; cbn [Model.do_ops]; [apply good_refl; exact H|].
  destruct ((op_ni o =? 0) && fixF4 sv_fixed); [apply IH; exact H|].
  destruct (negb (r_has_ni r (op_ni o))); [apply IH; exact H|].
  pose proof (mentry_good fib (check_election (op_elec o) mst cu me la) o r H) as G.
  destruct (mentry fib (check_election (op_elec o) mst cu me la) o r) as [[r' rs] e]. cbn [fst] in G.
  destruct e; cbn [fixF9 sv_fixed fst]; [exact G|]. eapply good_trans; [exact G|apply IH; apply G].
Qed.

Lemma mstep_good s x : INV (srib s) -> good (srib s) (srib (fst (mstepf s x))).
Proof.
  intros H. destruct x as [c|c m|c|c]; cbn [Model.step].
  - destruct (sget ribt c s); apply good_refl; exact H.
  - destruct (sget ribt c s) as [y|]; [|apply good_refl; exact H].
    assert (G : forall (p : srv ribt * out), good (srib s) (srib (fst p)) ->
                good (srib s) (srib (fst (let '(s', o) := p in match o_end o with Some _ => (drop_sess ribt c s', o) | None => (s', o) end)))).
    { intros [s' o] G. cbn [fst] in *. destruct (o_end o); exact G. }
    apply G. destruct m as [p|id|ops| |]; try (apply good_refl; exact H).
    + unfold do_params. repeat match goal with |- context [if ?b then _ else _] => destruct b end; apply good_refl; exact H.
    + unfold do_elect. repeat match goal with |- context [if ?b then _ else _] => destruct b end; apply good_refl; exact H.
    + unfold do_modify. destruct (_ || _); [apply good_refl; exact H|].
      pose proof (dops_good (cp_fib (s_params y)) (master s) (cur s) c (s_last y) ops (srib s) [] H) as G'.
      destruct (dops _ _ _ _ _ _ _ _) as [[r' rs] e]. exact G'.
  - destruct (sget ribt c s); apply good_refl; exact H.
  - destruct (sget ribt c s); apply good_refl; exact H.
Qed.

Lemma flush_good s q : INV (srib s) -> good (srib s) (srib (fst (do_flush v_fixed s q))).
Proof.
  intros H. unfold do_flush. destruct (check_flush (cur s) q); try (apply good_refl; exact H).
  assert (K : forall l, good (srib s) (srib (fst (let '(r', _, err) := flush v_fixed l (srib s) in (set_rib ribt r' s, if err then F_INTERNAL else F_OK))))).
  { intros l. pose proof (flush_INV l (srib s) H) as I. pose proof (flush_cfr l (srib s)) as C.
    destruct (flush v_fixed l (srib s)) as [[r' h] e]. cbn [fst] in *. split; assumption. }
  destruct (f_ni q) as [| |n]; [apply good_refl; exact H|apply K|].
  destruct (has_ni (srib s) n); [apply K|apply good_refl; exact H].
Qed.

Lemma step_good s i : INV (srib s) -> good (srib s) (srib (fst (ref_step s i))).
Proof.
  intros H. destruct i as [x|q|q].
  - rewrite ref_step_in. apply mstep_good; exact H.
  - rewrite ref_step_flush. apply flush_good; exact H.
  - apply good_refl; exact H.
Qed.

(* ------------------------------------------------------------------ running a script *)
Definition exec1 (s : srv ribt) (c : cmd) : srv ribt := match c with CDo i => fst (ref_step s i) | CExpect _ => s end.
Definition exec (s : srv ribt) (sc : script) : srv ribt := fold_left exec1 sc s.
Lemma run_cmds_state sc : forall s lg, fst (fst (run_cmds ref_step s lg sc)) = exec s sc.
Proof.
  induction sc as [|c tl IH]; intros s lg; [reflexivity|]. destruct c as [i|f]; cbn [run_cmds exec fold_left exec1].
  - destruct (ref_step s i) as [s' o]. cbn [fst]. apply IH.
  - specialize (IH s lg). destruct (run_cmds ref_step s lg tl) as [[s' l'] ok]. exact IH.
Qed.
Lemma final_state_exec s sc : final_state s sc = exec s sc.
Proof.
  unfold final_state, run_script, run_script_with. pose proof (run_cmds_state sc s []) as H.
  destruct (run_cmds ref_step s [] sc) as [[s' l] ok]. exact H.
Qed.
Lemma exec_app s a b : exec s (a ++ b) = exec (exec s a) b.
Proof. unfold exec. apply fold_left_app. Qed.

Lemma exec_good sc : forall s, INV (srib s) -> good (srib s) (srib (exec s sc)).
Proof.
  induction sc as [|c tl IH]; intros s H; [apply good_refl; exact H|]. cbn [exec fold_left].
  assert (G : good (srib s) (srib (exec1 s c))) by (destruct c; [apply step_good; exact H|apply good_refl; exact H]).
  eapply good_trans; [exact G|apply IH; apply G].
Qed.

(* ------------------------------------------------------------------ sessions *)
Lemma do_flush_ss s q : ss (fst (do_flush v_fixed s q)) = ss s /\ cur (fst (do_flush v_fixed s q)) = cur s
                        /\ master (fst (do_flush v_fixed s q)) = master s.
Proof.
  unfold do_flush. destruct (check_flush (cur s) q); try (cbn [fst]; auto).
  assert (K : forall l, let p := (let '(r', _, err) := flush v_fixed l (srib s) in (set_rib ribt r' s, if err then F_INTERNAL else F_OK)) in
                        ss (fst p) = ss s /\ cur (fst p) = cur s /\ master (fst p) = master s).
  { intros l. cbn zeta. destruct (flush v_fixed l (srib s)) as [[r' h] e]. cbn [fst]. auto. }
  destruct (f_ni q) as [| |n]; [cbn [fst]; auto|apply K|]. destruct (has_ni (srib s) n); [apply K|cbn [fst]; auto].
Qed.

(* a stream that is not open stays closed unless it is opened *)
Lemma mstep_dead k s x : sget ribt k s = None -> x <> Connect hentry k -> sget ribt k (fst (mstepf s x)) = None.
Proof.
  intros Hk Hx.
  pose proof (step_frame hentry ribt r_has_ni (r_add v_fixed) (r_del v_fixed) s x) as (_ & _ & Ho). cbn zeta in Ho.
  destruct x as [c|c m|c|c]; (destruct (N.eq_dec k c) as [->|Hne]; [|rewrite (Ho k Hne); exact Hk]).
  - congruence.
  - cbn [Model.step]. rewrite Hk. exact Hk.
  - cbn [Model.step]. rewrite Hk. exact Hk.
  - cbn [Model.step]. rewrite Hk. exact Hk.
Qed.
Lemma step_dead k s i : sget ribt k s = None -> i <> SIn (Connect hentry k) -> sget ribt k (fst (ref_step s i)) = None.
Proof.
  intros Hk Hi. destruct i as [x|q|q].
  - rewrite ref_step_in. cbn [fst]. apply mstep_dead; [exact Hk|]. intros ->. apply Hi. reflexivity.
  - rewrite ref_step_flush. cbn [fst]. unfold sget. rewrite (proj1 (do_flush_ss s q)). exact Hk.
  - exact Hk.
Qed.
Lemma exec_dead k sc : forall s, sget ribt k s = None -> ~ In k (connected sc) -> sget ribt k (exec s sc) = None.
Proof.
  induction sc as [|c tl IH]; intros s Hk Hn; [exact Hk|]. cbn [exec fold_left]. apply IH.
  - destruct c as [i|f]; [|exact Hk]. cbn [exec1]. apply step_dead; [exact Hk|]. intros ->. apply Hn. cbn. left. reflexivity.
  - intros Hin. apply Hn. unfold connected in *. cbn [flat_map]. apply in_or_app. right. exact Hin.
Qed.
Lemma passive_connected tl : forallb passive tl = true -> connected tl = [].
Proof.
  induction tl as [|c tl IH]; intros H; [reflexivity|]. cbn [forallb] in H. apply andb_true_iff in H. destruct H as [H1 H2].
  unfold connected in *. cbn [flat_map]. rewrite (IH H2), app_nil_r.
  destruct c as [[[k|k m|k|k]|q|q]|f]; try reflexivity; discriminate.
Qed.
Lemma closes_dead k s c : closes k c = true -> sget ribt k (exec1 s c) = None.
Proof.
  destruct c as [[[c|c m|c|c]|q|q]|f]; try discriminate; cbn [closes exec1]; intros H; apply N.eqb_eq in H; subst c; rewrite ref_step_in; cbn [fst];
    pose proof (disconnect_preserves hentry ribt r_has_ni (r_add v_fixed) (r_del v_fixed) s k) as D; cbn zeta in D; tauto.
Qed.
Lemma opens_eq k c : opens k c = true -> c = CDo (SIn (Connect hentry k)).
Proof. destruct c as [[[c|c m|c|c]|q|q]|f]; try discriminate. cbn [opens]. intros H. apply N.eqb_eq in H. subst. reflexivity. Qed.
Lemma open_after_dead k sc : forall s o, (o = false -> sget ribt k s = None) ->
  fold_left (fun o c => if closes k c then false else if opens k c then true else o) sc o = false -> sget ribt k (exec s sc) = None.
Proof.
  induction sc as [|c tl IH]; intros s o Ho H; cbn [fold_left exec] in *; [apply Ho; exact H|].
  apply (IH (exec1 s c) (if closes k c then false else if opens k c then true else o)); [|exact H]. intros E.
  destruct (closes k c) eqn:Ec; [apply closes_dead; exact Ec|].
  destruct (opens k c) eqn:Eo; [discriminate|].
  destruct c as [i|f]; [|apply Ho; exact E]. cbn [exec1]. apply step_dead; [apply Ho; exact E|].
  intros ->. cbn [opens] in Eo. rewrite N.eqb_refl in Eo. discriminate.
Qed.
Lemma aget_all_none (l : alist N sess) : (forall k, aget N.eqb k l = None) -> l = [].
Proof.
  destruct l as [|[k v] l]; [reflexivity|]. intros H. specialize (H k). unfold aget in H. cbn [find fst] in H. rewrite N.eqb_refl in H. discriminate.
Qed.

(* ------------------------------------------------------------------ tables *)
Definition all_empty (r : ribt) : Prop := forall m, tabs_of (Lemmas.sget r m) = tabs_empty.

Lemma flush_all_empties s : INV (srib s) -> all_empty (srib (fst (do_flush v_fixed s flush_all))).
Proof.
  intros H m.
  pose proof (authorised_flush_effect s flush_all H eq_refl I) as (_ & _ & _ & _ & _ & _ & Hh & Ht). cbn zeta in Ht, Hh.
  rewrite Ht. cbn [flush_all f_ni]. destruct (has_ni (srib s) m) eqn:E; [reflexivity|].
  rewrite (sget_missing _ _ E). reflexivity.
Qed.
Lemma flush_keeps_empty s q : INV (srib s) -> all_empty (srib s) -> all_empty (srib (fst (do_flush v_fixed s q))).
Proof.
  intros H He.
  destruct (check_flush (cur s) q) eqn:Ec; try (unfold do_flush; rewrite Ec; exact He).
  destruct (f_ni q) as [| |n] eqn:En.
  - unfold check_flush in Ec. rewrite En in Ec. discriminate.
  - pose proof (authorised_flush_effect s q H Ec) as P. rewrite En in P. specialize (P I). cbn zeta in P.
    destruct P as (_ & _ & _ & _ & _ & _ & _ & Ht). intros m. rewrite Ht. destruct (has_ni (srib s) m); [reflexivity|apply He].
  - destruct (has_ni (srib s) n) eqn:Eh.
    + pose proof (authorised_flush_effect s q H Ec) as P. rewrite En in P. specialize (P Eh). cbn zeta in P.
      destruct P as (_ & _ & _ & _ & _ & _ & _ & Ht). intros m. rewrite Ht. destruct (m =? n); [reflexivity|apply He].
    + unfold do_flush. rewrite Ec, En, Eh. exact He.
Qed.
Lemma passive_keeps_empty s c : passive c = true -> INV (srib s) -> all_empty (srib s) -> all_empty (srib (exec1 s c)).
Proof.
  intros Hp H He. destruct c as [[[k|k m|k|k]|q|q]|f]; try discriminate; cbn [exec1]; try exact He.
  - rewrite ref_step_in. cbn [fst].
    pose proof (step_frame hentry ribt r_has_ni (r_add v_fixed) (r_del v_fixed) s (HalfClose hentry k)) as (Hr & _). cbn zeta in Hr.
    change (all_empty (srib (fst (mstepf s (HalfClose hentry k))))). unfold all_empty. rewrite Hr. exact He.
  - rewrite ref_step_in. cbn [fst].
    pose proof (step_frame hentry ribt r_has_ni (r_add v_fixed) (r_del v_fixed) s (Abort hentry k)) as (Hr & _). cbn zeta in Hr.
    change (all_empty (srib (fst (mstepf s (Abort hentry k))))). unfold all_empty. rewrite Hr. exact He.
  - rewrite ref_step_flush. cbn [fst]. apply flush_keeps_empty; assumption.
Qed.
Lemma passive_exec_empty tl : forall s, forallb passive tl = true -> INV (srib s) -> all_empty (srib s) -> all_empty (srib (exec s tl)).
Proof.
  induction tl as [|c tl IH]; intros s Hp H He; [exact He|]. cbn [forallb] in Hp. apply andb_true_iff in Hp. destruct Hp as [P1 P2].
  cbn [exec fold_left]. apply IH; [exact P2| |apply passive_keeps_empty; assumption].
  destruct c as [i|f]; [apply step_good; exact H|exact H].
Qed.

(* ------------------------------------------------------------------ the election id stays within the window *)
Definition id_le (m : N) (id : u128) : Prop := hi id = 0 /\ lo id <= m.
Lemma below_some m s c : cur s = Some c -> (below m s = true <-> id_le m c).
Proof.
  intros E. unfold below, id_le. rewrite E. rewrite andb_true_iff, N.eqb_eq, N.leb_le. tauto.
Qed.
Lemma step_below m s i : below m s = true -> (forall id, In id (ids_of_sinput i) -> id_le m id) -> below m (fst (ref_step s i)) = true.
Proof.
  intros Hb Hid. destruct i as [x|q|q]; [|rewrite ref_step_flush; cbn [fst]; unfold below; rewrite (proj1 (proj2 (do_flush_ss s q))); exact Hb|exact Hb].
  rewrite ref_step_in. cbn [fst].
  pose proof (step_frame hentry ribt r_has_ni (r_add v_fixed) (r_del v_fixed) s x) as (_ & Hc & _). cbn zeta in Hc.
  assert (Same : cur (fst (mstepf s x)) = cur s -> below m (fst (mstepf s x)) = true) by (intros E; unfold below; rewrite E; exact Hb).
  destruct x as [c|c mm|c|c]; try (apply Same; apply Hc).
  destruct mm as [p|id|ops| |]; try (apply Same; apply Hc).
  cbn [Model.step]. destruct (sget ribt c s) as [y|]; [|exact Hb].
  unfold do_elect. destruct (negb (cp_expect (s_params y))); [exact Hb|]. destruct (u128_is_zero id); [exact Hb|].
  cbn [o_end out_resp fst]. cbn [cur upd_sess set_ss].
  destruct (is_new_master sv_fixed id (cur s)); [|exact Hb].
  destruct (Hid id (or_introl eq_refl)) as [H1 H2]. unfold below. cbn [cur]. rewrite H1. cbn [N.eqb andb]. apply N.leb_le. exact H2.
Qed.
Lemma exec_below m sc : forall s, below m s = true -> (forall id, In id (ids_of sc) -> id_le m id) -> below m (exec s sc) = true.
Proof.
  induction sc as [|c tl IH]; intros s Hb Hid; [exact Hb|]. cbn [exec fold_left]. apply IH.
  - destruct c as [i|f]; [|exact Hb]. apply step_below; [exact Hb|]. intros id Hin. apply Hid. unfold ids_of. cbn [flat_map]. apply in_or_app. left. exact Hin.
  - intros id Hin. apply Hid. unfold ids_of in *. cbn [flat_map]. apply in_or_app. right. exact Hin.
Qed.

(* ------------------------------------------------------------------ reset *)
(* a freshly configured server *)
Definition Init (cfg : srv ribt) : Prop :=
  ss cfg = [] /\ cur cfg = None /\ master cfg = None /\ INV (srib cfg) /\ pend (srib cfg) = [] /\ all_empty (srib cfg).
(* s is the configured server cfg up to the election state (whose id is at most (0,c)), the reference
   counters' representation and the order of the instance list: no sessions, same instances and options,
   empty tables, no held operations *)
Definition Reset (cfg : srv ribt) (c : N) (s : srv ribt) : Prop :=
  ss s = [] /\ rrel (fun o => o) (srib cfg) (srib s) /\ below c s = true.

Lemma Init_Reset cfg c : Init cfg -> Reset cfg c cfg.
Proof.
  intros (H1 & H2 & _ & H4 & _). split; [exact H1|]. split; [apply rrel_refl; exact H4|]. unfold below. rewrite H2. reflexivity.
Qed.
Lemma below_mono c m s : c <= m -> below c s = true -> below m s = true.
Proof.
  unfold below. destruct (cur s) as [x|]; [|auto]. intros Hle H. apply andb_true_iff in H. destruct H as [H1 H2].
  rewrite H1. cbn [andb]. apply N.leb_le. apply N.leb_le in H2. lia.
Qed.
Lemma is_flush_all_eq c : is_flush_all c = true -> c = CDo (SFlush flush_all).
Proof. destruct c as [[x|[[| |id] [| |n]]|q]|f]; try discriminate. reflexivity. Qed.
Lemma forallb_app_inv {A} (f : A -> bool) a b : forallb f (a ++ b) = true -> forallb f a = true /\ forallb f b = true.
Proof. rewrite forallb_app. apply andb_true_iff. Qed.

Theorem reset_concrete cfg c m s sc : Init cfg -> Reset cfg c s -> c <= m ->
  (forall id, In id (ids_of sc) -> id_le m id) -> ends_clean sc -> no_held (exec s sc) = true ->
  Reset cfg m (exec s sc).
Proof.
  intros (I1 & I2 & I3 & I4 & I5 & I6) (R1 & R2 & R3) Hle Hids (body & tail & Hsc & Hpas & Hfl & Hcl) Hheld.
  pose proof R2 as (_ & Hinv & Hh & Ht & Hp & Hd & Hnf & Hrh & Hres).
  pose proof (exec_good sc s Hinv) as (Tinv & (Th & (Tk & Td & Tnf & Trh & Tres))).
  assert (Hsplit : forall c0, In c0 tail -> exists t1 t2, tail = t1 ++ c0 :: t2 /\ forallb passive t2 = true
                                                        /\ exec s sc = exec (exec1 (exec (exec s body) t1) c0) t2).
  { intros c0 Hin. apply in_split in Hin. destruct Hin as (t1 & t2 & E). exists t1, t2. split; [exact E|].
    rewrite E in Hpas. apply forallb_app_inv in Hpas. destruct Hpas as [_ P2]. cbn [forallb] in P2. apply andb_true_iff in P2.
    split; [apply P2|]. rewrite Hsc, E, exec_app, exec_app. reflexivity. }
  split; [|split].
  - (* every stream is closed *)
    apply aget_all_none. intros k. change (sget ribt k (exec s sc) = None).
    assert (Hk0 : sget ribt k s = None) by (unfold sget; rewrite R1; reflexivity).
    destruct (in_dec N.eq_dec k (connected sc)) as [Hin|Hnin]; [|apply exec_dead; assumption].
    apply (open_after_dead k sc s false); [intros _; exact Hk0|apply Hcl; exact Hin].
  - (* the RIB is the configured one again *)
    assert (Hempty : all_empty (srib (exec s sc))).
    { apply existsb_exists in Hfl. destruct Hfl as (c0 & Hc0 & Hisf). apply is_flush_all_eq in Hisf. subst c0.
      destruct (Hsplit _ Hc0) as (t1 & t2 & _ & P2 & ->).
      pose proof (exec_good body s Hinv) as (B1 & _). pose proof (exec_good t1 (exec s body) B1) as (B2 & _).
      apply passive_exec_empty; [exact P2| |].
      - cbn [exec1]. apply step_good; exact B2.
      - cbn [exec1]. rewrite ref_step_flush. cbn [fst]. apply flush_all_empties; exact B2. }
    split; [exact I4|]. split; [exact Tinv|]. split; [intros n; rewrite Th; apply Hh|].
    split; [intros n; split; [rewrite I6, Hempty; reflexivity|rewrite Tk; apply Ht]|].
    split; [rewrite I5; unfold no_held in Hheld; destruct (pend (srib (exec s sc))); [reflexivity|discriminate]|].
    repeat split; congruence.
  - apply exec_below; [eapply below_mono; eauto|exact Hids].
Qed.

(* ------------------------------------------------------------------ shifting a script *)
Lemma ids_of_sinput_shift d i : ids_of_sinput (shift_sinput d i) = map (shift_id d) (ids_of_sinput i).
Proof.
  destruct i as [[c|c m|c|c]|q|q]; try reflexivity.
  - destruct m as [p|id|ops| |]; try reflexivity. cbn [shift_sinput shift_in shift_msg ids_of_sinput ids_of_msg].
    induction ops as [|o tl IH]; [reflexivity|]. cbn [map flat_map]. rewrite IH, map_app. f_equal.
    cbn [shift_hop op_elec]. destruct (op_elec o); reflexivity.
  - cbn [shift_sinput ids_of_sinput shift_flush f_elec]. destruct (f_elec q); reflexivity.
Qed.
Lemma ids_of_shift d sc : ids_of (shift_script d sc) = map (shift_id d) (ids_of sc).
Proof.
  unfold ids_of, shift_script. induction sc as [|c tl IH]; [reflexivity|]. cbn [map flat_map]. rewrite IH, map_app. f_equal.
  destruct c as [i|f]; [apply ids_of_sinput_shift|reflexivity].
Qed.
Lemma window_shift c n id : id_in_window n id = true -> id_le (c + n) (shift_id c id).
Proof.
  unfold id_in_window, id_le, shift_id. intros H. apply andb_true_iff in H. destruct H as [H1 H2]. apply N.eqb_eq in H1. apply N.leb_le in H2.
  destruct (u128_is_zero id); unfold hi, lo in *; cbn [fst snd]; split; try assumption; lia.
Qed.
Lemma window_above n id : id_in_window n id = true -> id_above 0 id.
Proof.
  unfold id_in_window, id_above. intros H. apply andb_true_iff in H. destruct H as [H1 H2]. apply N.eqb_eq in H1.
  unfold u128_is_zero. rewrite H1. cbn [N.eqb andb]. destruct (N.eqb_spec (lo id) 0); [left; reflexivity|right; split; [first [exact H1|reflexivity]|lia]].
Qed.
Lemma shift_passive d c : passive (shift_cmd d c) = passive c.
Proof. destruct c as [[[k|k m|k|k]|q|q]|f]; reflexivity. Qed.
Lemma shift_is_flush_all d c : is_flush_all (shift_cmd d c) = is_flush_all c.
Proof. destruct c as [[x|[[| |id] [| |n]]|q]|f]; reflexivity. Qed.
Lemma shift_closes d k c : closes k (shift_cmd d c) = closes k c.
Proof. destruct c as [[[k'|k' m|k'|k']|q|q]|f]; reflexivity. Qed.
Lemma shift_opens d k c : opens k (shift_cmd d c) = opens k c.
Proof. destruct c as [[[k'|k' m|k'|k']|q|q]|f]; reflexivity. Qed.
Lemma shift_open_after d k sc : open_after k (shift_script d sc) = open_after k sc.
Proof.
  unfold open_after, shift_script.
  assert (G : forall o, fold_left (fun o c => if closes k c then false else if opens k c then true else o) (map (shift_cmd d) sc) o
                        = fold_left (fun o c => if closes k c then false else if opens k c then true else o) sc o).
  { induction sc as [|c tl IH]; intros o; [reflexivity|]. cbn [map fold_left]. rewrite shift_closes, shift_opens. apply IH. }
  apply G.
Qed.
Lemma shift_connected d sc : connected (shift_script d sc) = connected sc.
Proof.
  unfold connected, shift_script. induction sc as [|c tl IH]; [reflexivity|]. cbn [map flat_map]. rewrite IH. f_equal.
  destruct c as [[[k'|k' m|k'|k']|q|q]|f]; reflexivity.
Qed.
Lemma map_forallb {A B} (g : A -> B) (p : B -> bool) (q : A -> bool) l : (forall x, p (g x) = q x) -> forallb p (map g l) = forallb q l.
Proof. intros H. induction l as [|x l IH]; [reflexivity|]. cbn [map forallb]. rewrite H, IH. reflexivity. Qed.
Lemma map_existsb {A B} (g : A -> B) (p : B -> bool) (q : A -> bool) l : (forall x, p (g x) = q x) -> existsb p (map g l) = existsb q l.
Proof. intros H. induction l as [|x l IH]; [reflexivity|]. cbn [map existsb]. rewrite H, IH. reflexivity. Qed.
Lemma ends_clean_shift d sc : ends_clean sc -> ends_clean (shift_script d sc).
Proof.
  intros (body & tail & E & P & F & C). exists (shift_script d body), (shift_script d tail).
  split; [rewrite E; apply map_app|]. split; [unfold shift_script; rewrite (map_forallb _ _ passive); [exact P|apply shift_passive]|].
  split; [unfold shift_script; rewrite (map_existsb _ _ is_flush_all); [exact F|apply shift_is_flush_all]|].
  intros k Hk. rewrite shift_connected in Hk. rewrite shift_open_after. apply C; exact Hk.
Qed.

(* C19_reset: a script whose ids lie in the window 1..n of the suite counter c, that ends by closing its
   streams and flushing everything, and that leaves no held operation, takes a reset server (counter c)
   to a reset server (counter c + n) *)
Theorem reset_after_script cfg c n s sc : Init cfg -> Reset cfg c s ->
  ids_within n sc = true -> ends_clean sc -> no_held (final_state s (shift_script c sc)) = true ->
  Reset cfg (c + n) (final_state s (shift_script c sc)).
Proof.
  intros HI HR Hw Hc Hh. rewrite final_state_exec in *.
  apply (reset_concrete cfg c (c + n) s (shift_script c sc) HI HR); [lia| |apply ends_clean_shift; exact Hc|exact Hh].
  intros id Hin. rewrite ids_of_shift in Hin. apply in_map_iff in Hin. destruct Hin as (id0 & <- & Hin0).
  apply window_shift. unfold ids_within in Hw. rewrite forallb_forall in Hw. apply Hw. exact Hin0.
Qed.

(* ------------------------------------------------------------------ running a script from two related states *)
Definition log_rel (d : N) (l1 l2 : log) : Prop :=
  Forall2 (fun a b => fst b = shift_sinput d (fst a) /\ out_rel d (snd a) (snd b)) l1 l2.
(* an expectation that is invariant under the election-id shift (applied to what was sent and to what was
   received alike) and under the order in which Get lists entries *)
Definition expect_ok (f : log -> bool) : Prop := forall d l1 l2, log_rel d l1 l2 -> f l1 = f l2.
Definition expects_ok (sc : script) : Prop := forall f, In (CExpect f) sc -> expect_ok f.
Definition script_above (lb : N) (sc : script) : Prop := forall i, In (CDo i) sc -> input_above lb i.

Theorem run_sim d lb sc : forall s1 s2 l1 l2, SR d lb s1 s2 -> script_above lb sc -> expects_ok sc ->
  early_ok ref_step lb s1 sc = true -> log_rel d l1 l2 ->
  SR d lb (fst (fst (run_cmds ref_step s1 l1 sc))) (fst (fst (run_cmds ref_step s2 l2 (shift_script d sc))))
  /\ log_rel d (snd (fst (run_cmds ref_step s1 l1 sc))) (snd (fst (run_cmds ref_step s2 l2 (shift_script d sc))))
  /\ snd (run_cmds ref_step s1 l1 sc) = snd (run_cmds ref_step s2 l2 (shift_script d sc)).
Proof.
  induction sc as [|c tl IH]; intros s1 s2 l1 l2 HS Hab Hex Hearly Hl; [cbn; auto|].
  assert (Hab' : script_above lb tl) by (intros i Hi; apply Hab; right; exact Hi).
  assert (Hex' : expects_ok tl) by (intros f Hf; apply Hex; right; exact Hf).
  destruct c as [i|f]; cbn [shift_script map shift_cmd run_cmds early_ok] in *.
  - apply andb_true_iff in Hearly. destruct Hearly as [E1 E2]. apply negb_true_iff in E1.
    pose proof (step_sim d lb s1 s2 i HS (Hab i (or_introl eq_refl)) E1) as [S O].
    destruct (ref_step s1 i) as [t1 o1]. destruct (ref_step s2 (shift_sinput d i)) as [t2 o2]. cbn [fst snd] in *.
    apply IH; try assumption. apply Forall2_app; [exact Hl|]. constructor; [|constructor]. cbn [fst snd]. split; [reflexivity|exact O].
  - pose proof (IH s1 s2 l1 l2 HS Hab' Hex' Hearly Hl) as (S & L & V).
    fold (shift_script d tl). 
    destruct (run_cmds ref_step s1 l1 tl) as [[t1 m1] ok1]. destruct (run_cmds ref_step s2 l2 (shift_script d tl)) as [[t2 m2] ok2].
    cbn [fst snd] in *. split; [exact S|]. split; [exact L|]. rewrite (Hex f (or_introl eq_refl) d l1 l2 Hl), V. reflexivity.
Qed.

(* ------------------------------------------------------------------ the contract and the verdict *)
(* static: the ids lie in the window, the script closes its streams and ends with flush-all(override), its
   expectations are shift- and Get-order-invariant; dynamic (evaluated on the run from the freshly configured
   server): nothing that consults the election state is sent before the script's first accepted announcement,
   and no held operation is left *)
Definition Contract (cfg : srv ribt) (t : test) : Prop :=
  ids_within (t_span t) (t_script t) = true /\ ends_clean (t_script t) /\ expects_ok (t_script t)
  /\ early_ok ref_step 0 cfg (t_script t) = true /\ no_held (final_state cfg (t_script t)) = true.

Lemma rrel_any_g g a b : rrel (fun o => o) a b -> pend a = [] -> rrel g a b.
Proof.
  intros (H1 & H2 & H3 & H4 & H5 & H6) Hp. rewrite Hp in H5. cbn [map] in H5.
  split; [exact H1|]. split; [exact H2|]. split; [exact H3|]. split; [exact H4|]. split; [rewrite Hp; exact H5|exact H6].
Qed.

Lemma reset_SR cfg c s : Init cfg -> Reset cfg c s -> SR c 0 cfg s.
Proof.
  intros (I1 & I2 & I3 & I4 & I5 & I6) (R1 & R2 & R3). split.
  - split; [rewrite R1, I1; reflexivity|apply rrel_any_g; assumption].
  - right. split; [unfold below; rewrite I2; reflexivity|]. split; [exact R3|]. rewrite I1. intros k x [].
Qed.

Theorem script_from_reset cfg c s t : Init cfg -> Reset cfg c s -> Contract cfg t ->
  snd (run_script s (shift_script c (t_script t))) = snd (run_script cfg (t_script t))
  /\ Reset cfg (c + t_span t) (final_state s (shift_script c (t_script t))).
Proof.
  intros HI HR (Hw & Hc & Hex & Hearly & Hheld).
  assert (Hab : script_above 0 (t_script t)).
  { intros i Hi id Hin. apply (window_above (t_span t)). unfold ids_within in Hw. rewrite forallb_forall in Hw. apply Hw.
    unfold ids_of. apply in_flat_map. exists (CDo i). split; [exact Hi|exact Hin]. }
  pose proof (run_sim c 0 (t_script t) cfg s [] [] (reset_SR cfg c s HI HR) Hab Hex Hearly (Forall2_nil _)) as (S & _ & V).
  assert (Hheld2 : no_held (final_state s (shift_script c (t_script t))) = true).
  { unfold final_state, run_script, run_script_with in *.
    destruct (run_cmds ref_step cfg [] (t_script t)) as [[t1 m1] ok1]. destruct (run_cmds ref_step s [] (shift_script c (t_script t))) as [[t2 m2] ok2].
    cbn [fst snd] in *. destruct S as [[_ (_ & _ & _ & _ & Hp & _)] _]. unfold no_held in *. rewrite Hp.
    destruct (pend (srib t1)); [reflexivity|discriminate]. }
  split; [|apply reset_after_script; assumption].
  unfold run_script, run_script_with.
  destruct (run_cmds ref_step cfg [] (t_script t)) as [[t1 m1] ok1]. destruct (run_cmds ref_step s [] (shift_script c (t_script t))) as [[t2 m2] ok2].
  cbn [fst snd] in *. rewrite V. reflexivity.
Qed.

(* the verdict of a test run alone on the freshly configured server *)
Definition solo_on (cfg : srv ribt) (t : test) : verdict := snd (run_script cfg (t_script t)).

(* the suite: every test gets the verdict it gets alone, whatever ran before it and whatever the counter is *)
Theorem suite_verdicts cfg ts : Init cfg -> (forall t, In t ts -> Contract cfg t) ->
  forall s c, Reset cfg c s ->
  fst (fst (run_suite ref_step s c ts)) = map (solo_on cfg) ts
  /\ Reset cfg (snd (run_suite ref_step s c ts)) (snd (fst (run_suite ref_step s c ts)))
  /\ snd (run_suite ref_step s c ts) = fold_left (fun a t => a + t_span t) ts c.
Proof.
  intros HI. induction ts as [|t tl IH]; intros Hc s c HR; cbn [run_suite map fold_left fst snd]; [auto|].
  pose proof (script_from_reset cfg c s t HI HR (Hc t (or_introl eq_refl))) as (V & R).
  unfold final_state in R. fold (run_script s (shift_script c (t_script t))).
  destruct (run_script s (shift_script c (t_script t))) as [s' v]. cbn [fst snd] in *.
  specialize (IH (fun t' H => Hc t' (or_intror H)) s' (c + t_span t) R).
  destruct (run_suite ref_step s' (c + t_span t) tl) as [[vs sf] cf]. cbn [fst snd] in *.
  destruct IH as (I1 & I2 & I3). rewrite I1, V. auto.
Qed.

Theorem order_independent cfg ts ts' : Init cfg -> (forall t, In t ts -> Contract cfg t) -> Permutation ts ts' ->
  forall s c s' c', Reset cfg c s -> Reset cfg c' s' ->
  Permutation (combine ts (fst (fst (run_suite ref_step s c ts)))) (combine ts' (fst (fst (run_suite ref_step s' c' ts')))).
Proof.
  intros HI Hc Hp s c s' c' R R'.
  assert (Hc' : forall t, In t ts' -> Contract cfg t) by (intros t Hin; apply Hc; eapply Permutation_in; [apply Permutation_sym; exact Hp|exact Hin]).
  rewrite (proj1 (suite_verdicts cfg ts HI Hc s c R)), (proj1 (suite_verdicts cfg ts' HI Hc' s' c' R')).
  assert (E : forall l, combine l (map (solo_on cfg) l) = map (fun t => (t, solo_on cfg t)) l).
  { induction l as [|x l IHl]; [reflexivity|]. cbn [map combine]. rewrite IHl. reflexivity. }
  rewrite !E. apply Permutation_map. exact Hp.
Qed.

(* ------------------------------------------------------------------ the configured servers are Init *)
Lemma add_ni_props n r : all_empty r -> pend r = [] -> all_empty (add_network_instance v_fixed n r) /\ pend (add_network_instance v_fixed n r) = [].
Proof.
  intros He Hp. unfold add_network_instance. destruct (has_ni r n); [auto|]. split; [|exact Hp].
  intros m. specialize (He m). unfold Lemmas.sget in *. cbn [nis set_nis]. rewrite nget_app_last.
  destruct (nget m (nis r)); [exact He|]. destruct (m =? n); reflexivity.
Qed.
Lemma Init_srv_init nofwd vrfs : Init (srv_init nofwd vrfs).
Proof.
  unfold Init, srv_init, srv0. cbn [ss cur master srib].
  assert (G : forall l r, INV r -> all_empty r -> pend r = [] ->
              let r' := fold_left (fun r n => add_network_instance v_fixed n r) l r in INV r' /\ pend r' = [] /\ all_empty r').
  { induction l as [|n l IH]; intros r H1 H2 H3; cbn [fold_left]; [auto|].
    destruct (add_ni_props n r H2 H3) as [A B]. apply IH; [apply add_network_instance_INV; exact H1|exact A|exact B]. }
  destruct (G vrfs (rib0 1 nofwd) (INV_rib0 1 nofwd)) as (A & B & C).
  - intros m. unfold Lemmas.sget, rib0. cbn [nis]. unfold nget, aget. cbn [find fst]. destruct (m =? 1); reflexivity.
  - reflexivity.
  - split; [reflexivity|]. split; [reflexivity|]. split; [reflexivity|]. split; [exact A|]. split; [exact B|exact C].
Qed.

(* ------------------------------------------------------------------ the log readers are invariant *)
Lemma in_cid_shift d i : in_cid (shift_in d i) = in_cid i.
Proof. destruct i; reflexivity. Qed.

Definition oget_rel (x y : option (list gentry)) : Prop :=
  match x, y with None, None => True | Some a, Some b => Permutation a b | _, _ => False end.
Lemma out_rel_inv d o1 o2 : out_rel d o1 o2 ->
  (exists a, o1 = OMod a /\ o2 = OMod (shift_out d a)) \/ (exists a, o1 = OFlush a /\ o2 = OFlush a)
  \/ (exists x y, o1 = OGet x /\ o2 = OGet y /\ oget_rel x y).
Proof.
  destruct o1 as [a|a|a|], o2 as [b|b|b|]; cbn [out_rel]; try contradiction; try (destruct a; contradiction).
  - intros ->. left. eauto.
  - intros ->. right. left. eauto.
  - intros H. right. right. exists a, b. repeat split. destruct a, b; exact H.
Qed.

Lemma outs_of_rel d k l1 l2 : log_rel d l1 l2 -> outs_of k l2 = map (shift_out d) (outs_of k l1).
Proof.
  induction 1 as [|[i1 o1] [i2 o2] l1 l2 [Hi Ho] _ IH]; [reflexivity|]. cbn [fst snd] in *. subst i2.
  unfold outs_of in *. cbn [flat_map]. rewrite IH, map_app. f_equal.
  destruct (out_rel_inv d o1 o2 Ho) as [(a & -> & ->)|[(a & -> & ->)|(x & y & -> & -> & G)]];
    destruct i1 as [z|q|q]; cbn [shift_sinput]; try reflexivity.
  rewrite in_cid_shift. destruct (in_cid z =? k); reflexivity.
Qed.
Lemma results_rel d k l1 l2 : log_rel d l1 l2 -> results_of_client k l2 = results_of_client k l1.
Proof.
  intros H. unfold results_of_client. rewrite (outs_of_rel d k l1 l2 H).
  induction (outs_of k l1) as [|o l IH]; [reflexivity|]. cbn [map flat_map]. rewrite IH. f_equal.
  unfold shift_out. cbn [o_resps]. induction (o_resps o) as [|r rs IHr]; [reflexivity|]. cbn [map flat_map]. rewrite IHr. f_equal.
  destruct r; reflexivity.
Qed.
Lemma errors_rel d k l1 l2 : log_rel d l1 l2 -> errors_of k l2 = errors_of k l1.
Proof.
  intros H. unfold errors_of. rewrite (outs_of_rel d k l1 l2 H).
  induction (outs_of k l1) as [|o l IH]; [reflexivity|]. cbn [map flat_map]. rewrite IH. reflexivity.
Qed.
Lemma params_acks_rel d k l1 l2 : log_rel d l1 l2 -> params_acks k l2 = params_acks k l1.
Proof.
  intros H. unfold params_acks. rewrite (outs_of_rel d k l1 l2 H).
  induction (outs_of k l1) as [|o l IH]; [reflexivity|]. cbn [map flat_map]. rewrite IH. f_equal.
  unfold shift_out. cbn [o_resps]. induction (o_resps o) as [|r rs IHr]; [reflexivity|]. cbn [map flat_map]. rewrite IHr. f_equal.
  destruct r; reflexivity.
Qed.
Lemma reported_rel d k l1 l2 : log_rel d l1 l2 -> reported k l2 = map (option_map (shift_id d)) (reported k l1).
Proof.
  intros H. unfold reported. rewrite (outs_of_rel d k l1 l2 H).
  induction (outs_of k l1) as [|o l IH]; [reflexivity|]. cbn [map flat_map]. rewrite IH, map_app. f_equal.
  unfold shift_out. cbn [o_resps]. induction (o_resps o) as [|r rs IHr]; [reflexivity|]. cbn [map flat_map]. rewrite IHr, map_app. f_equal.
  destruct r; reflexivity.
Qed.
Lemma announced_rel d k l1 l2 : log_rel d l1 l2 -> announced k l2 = map (shift_id d) (announced k l1).
Proof.
  induction 1 as [|[i1 o1] [i2 o2] l1 l2 [Hi Ho] _ IH]; [reflexivity|]. cbn [fst snd] in *. subst i2.
  unfold announced in *. cbn [flat_map]. rewrite IH, map_app. f_equal.
  destruct i1 as [[c|c m|c|c]|q|q]; try reflexivity. destruct m; try reflexivity. cbn [shift_sinput shift_in shift_msg].
  destruct (c =? k); reflexivity.
Qed.

Lemma has_res_ok k id st : expect_ok (has_res k id st).
Proof. intros d l1 l2 H. unfold has_res. rewrite (results_rel d k l1 l2 H). reflexivity. Qed.
Lemma no_errors_ok k : expect_ok (no_errors k).
Proof. intros d l1 l2 H. unfold no_errors. rewrite (errors_rel d k l1 l2 H). reflexivity. Qed.
Lemma has_error_code_ok k c : expect_ok (has_error_code k c).
Proof. intros d l1 l2 H. unfold has_error_code. rewrite (errors_rel d k l1 l2 H). reflexivity. Qed.
Lemma params_acked_ok k : expect_ok (fun lg => match params_acks k lg with [] => false | _ => true end).
Proof. intros d l1 l2 H. rewrite (params_acks_rel d k l1 l2 H). reflexivity. Qed.
Lemma reported_announced_ok k a n : expect_ok (reported_announced k a n).
Proof.
  intros d l1 l2 H. unfold reported_announced. rewrite (announced_rel d a l1 l2 H), (reported_rel d k l1 l2 H), nth_error_map.
  destruct (nth_error (announced a l1) n) as [id|]; cbn [option_map]; [|reflexivity].
  induction (reported k l1) as [|r rs IH]; [reflexivity|]. cbn [map existsb]. rewrite IH. f_equal.
  destruct r as [x|]; cbn [option_map opt_eqb]; [symmetry; apply eqb_shift|reflexivity].
Qed.

Lemma last_flush_rel d l1 l2 : log_rel d l1 l2 -> last_flush l2 = last_flush l1.
Proof.
  unfold last_flush. intros H. generalize (@None fstatus). induction H as [|[i1 o1] [i2 o2] l1 l2 [Hi Ho] _ IH]; intros acc; [reflexivity|].
  cbn [fold_left fst snd] in *. subst i2.
  destruct (out_rel_inv d o1 o2 Ho) as [(a & -> & ->)|[(a & -> & ->)|(x & y & -> & -> & G)]];
    destruct i1 as [z|q|q]; cbn [shift_sinput]; apply IH.
Qed.
Definition get_rel (a b : option (option (list gentry))) : Prop :=
  match a, b with
  | None, None => True
  | Some x, Some y => oget_rel x y
  | _, _ => False
  end.
Lemma last_get_rel d l1 l2 : log_rel d l1 l2 -> get_rel (last_get l1) (last_get l2).
Proof.
  unfold last_get.
  assert (G : forall acc1 acc2, get_rel acc1 acc2 -> log_rel d l1 l2 ->
            get_rel (fold_left (fun acc io => match io with (SGet _, OGet r) => Some r | _ => acc end) l1 acc1)
                    (fold_left (fun acc io => match io with (SGet _, OGet r) => Some r | _ => acc end) l2 acc2)).
  { intros acc1 acc2 Ha H. revert acc1 acc2 Ha. induction H as [|[i1 o1] [i2 o2] l1 l2 [Hi Ho] _ IH]; intros acc1 acc2 Ha; [exact Ha|].
    cbn [fold_left fst snd] in *. subst i2. apply IH.
    destruct (out_rel_inv d o1 o2 Ho) as [(a & -> & ->)|[(a & -> & ->)|(x & y & -> & -> & G)]];
      destruct i1 as [z|q|q]; cbn [shift_sinput]; try exact Ha. exact G. }
  apply G. exact I.
Qed.
Lemma existsb_perm {A} (p : A -> bool) x y : Permutation x y -> existsb p x = existsb p y.
Proof.
  induction 1; cbn [existsb]; try congruence.
  - destruct (p x), (p y); reflexivity.
Qed.
Lemma last_flush_ok_ok : expect_ok last_flush_ok.
Proof. intros d l1 l2 H. unfold last_flush_ok. rewrite (last_flush_rel d l1 l2 H). reflexivity. Qed.
Lemma last_get_count_ok n : expect_ok (last_get_count n).
Proof.
  intros d l1 l2 H. unfold last_get_count. pose proof (last_get_rel d l1 l2 H) as G.
  destruct (last_get l1) as [[x|]|], (last_get l2) as [[y|]|]; cbn [get_rel oget_rel] in G; try contradiction; try reflexivity.
  rewrite (Permutation_length G). reflexivity.
Qed.
Lemma last_get_has_ok key : expect_ok (last_get_has key).
Proof.
  intros d l1 l2 H. unfold last_get_has. pose proof (last_get_rel d l1 l2 H) as G.
  destruct (last_get l1) as [[x|]|], (last_get l2) as [[y|]|]; cbn [get_rel oget_rel] in G; try contradiction; try reflexivity.
  apply existsb_perm. exact G.
Qed.

(* ------------------------------------------------------------------ the transcribed tests respect the contract *)
Lemma psplit_spec sc : sc = fst (psplit sc) ++ snd (psplit sc) /\ forallb passive (snd (psplit sc)) = true.
Proof.
  induction sc as [|c tl [IH1 IH2]]; [split; reflexivity|]. cbn [psplit].
  destruct (psplit tl) as [b t]. cbn [fst snd] in *. destruct b as [|b0 b].
  - destruct (passive c) eqn:P; cbn [fst snd app forallb]; [rewrite P, IH2; split; [rewrite IH1; reflexivity|reflexivity]|].
    split; [rewrite IH1; reflexivity|exact IH2].
  - cbn [fst snd]. split; [rewrite IH1; reflexivity|exact IH2].
Qed.
Lemma ends_clean_b_sound sc : ends_clean_b sc = true -> ends_clean sc.
Proof.
  unfold ends_clean_b. intros H. apply andb_true_iff in H. destruct H as [F C]. destruct (psplit_spec sc) as [E P].
  exists (fst (psplit sc)), (snd (psplit sc)). split; [exact E|]. split; [exact P|]. split; [exact F|].
  intros k Hk. rewrite forallb_forall in C. apply negb_true_iff. apply C. exact Hk.
Qed.
Lemma expects_of_ok sc : Forall expect_ok (expects_of sc) -> expects_ok sc.
Proof.
  intros H f Hin. rewrite Forall_forall in H. apply H. unfold expects_of. apply in_flat_map. exists (CExpect f). split; [exact Hin|left; reflexivity].
Qed.

Ltac expects_tac :=
  apply expects_of_ok;
  cbv [expects_of t_script T_connect_elect T_repeated_params T_add_ipv4_rib T_add_ipv4_fib add_ipv4 T_idempotent_delete T_idempotent_delete_fib idempotent_delete T_get_ipv4 T_flush_specific T_lower_id T_dec_id T_get_nhg T_get_chain
       T_same_id_two_clients T_unannounced_id T_get_nh T_flush_master session cleanup connect params elect sendops close doflush doget
       app map flat_map];
  repeat (constructor; [first [apply has_res_ok|apply no_errors_ok|apply has_error_code_ok|apply params_acked_ok
                              |apply reported_announced_ok|apply last_flush_ok_ok|apply last_get_count_ok|apply last_get_has_ok]|]);
  constructor.
Ltac contract_tac :=
  split; [vm_compute; reflexivity|]; split; [apply ends_clean_b_sound; vm_compute; reflexivity|];
  split; [expects_tac|]; split; vm_compute; reflexivity.

(* the nine transcribed compliance tests respect the contract on the reference configuration *)
Theorem transcribed_contract t : In t all_test_records -> Contract srv_ref t.
Proof.
  intros H. cbn [all_test_records In] in H.
  repeat (destruct H as [H|H]; [subst t; contract_tac|]). contradiction.
Qed.

Lemma Init_srv_ref : Init srv_ref.
Proof. apply Init_srv_init. Qed.

(* hence: in every order, from every reset state and for every value of the counter, each of them passes *)
Corollary transcribed_any_order ts s c : (forall t, In t ts -> In t all_test_records) -> Reset srv_ref c s ->
  fst (fst (run_suite ref_step s c ts)) = map (fun _ => Pass) ts.
Proof.
  intros Hin HR.
  rewrite (proj1 (suite_verdicts srv_ref ts Init_srv_ref (fun t H => transcribed_contract t (Hin t H)) s c HR)).
  apply map_ext_in. intros t Ht. specialize (Hin t Ht). cbn [all_test_records In] in Hin.
  repeat (destruct Hin as [Hin|Hin]; [subst t; vm_compute; reflexivity|]). contradiction.
Qed.

(* the fault catalogue: verdict table by computation *)
Theorem catalogue_verdicts : catalogue_ok = true.
Proof. vm_compute. reflexivity. Qed.
Theorem catalogue_reference_passes t : In t all_tests -> model_pass t 0 = Some true.
Proof.
  pose proof catalogue_verdicts as H. unfold catalogue_ok in H. apply andb_true_iff in H. destruct H as [H _].
  rewrite forallb_forall in H. intros Hin. specialize (H t Hin). destruct (model_pass t 0) as [[|]|]; congruence.
Qed.
Theorem catalogue_fault_flagged f t : In f faulty -> In t all_tests ->
  model_pass t f = Some (negb (memN t (designated_of f))).
Proof.
  pose proof catalogue_verdicts as H. unfold catalogue_ok in H. apply andb_true_iff in H. destruct H as [_ H].
  rewrite forallb_forall in H. intros Hf Ht. specialize (H f Hf). rewrite forallb_forall in H. specialize (H t Ht).
  destruct (model_pass t f) as [b|]; [|discriminate]. apply eqb_prop in H. rewrite H. reflexivity.
Qed.
