(* C19: compliance scripts over the server model of Server/Inst.v.
   A script is a list of interactions with the server (open a Modify stream, send parameters /
   an election id / operations, half-close, Flush, Get) interleaved with expectations on what has
   been received so far; its verdict is Pass when every expectation holds.  The suite keeps a
   counter of election ids (compliance.go: electionID): a script is written at base 0 and is run
   shifted by the counter.  A catalogue of single-requirement faulty servers is given as wrappers
   around the reference step, mirroring the Go wrappers of harness/cmd/vh-c19.
   No proofs in this file. *)
From Coq Require Import List NArith Bool.
From GV.Base Require Import Alist U128 Op.
From GV.Rib Require Import Model Run.
From GV.Server Require Import Model Obs Inst.
Import ListNotations.
Open Scope N_scope.

Notation ssrv := (srv ribt) (only parsing).
Notation sinp := (input hentry) (only parsing).
Definition stepfn := srv ribt -> sinput -> srv ribt * sout.
Definition ref_step : stepfn := sstep v_fixed sv_fixed.

(* ------------------------------------------------------------------ scripts *)
Definition log := list (sinput * sout).                  (* chronological *)
Inductive cmd :=
| CDo (i : sinput)              (* one interaction; what the server answers is appended to the log *)
| CExpect (f : log -> bool).    (* an expectation on everything received so far (await + check) *)
Definition script := list cmd.

Inductive verdict := Pass | Fail.
Definition verdict_eqb (a b : verdict) : bool := match a, b with Pass, Pass | Fail, Fail => true | _, _ => false end.

(* every command is executed (the clean-up of a real test is deferred, hence runs after a fatal
   expectation too); the verdict is the conjunction of the expectations *)
Fixpoint run_cmds (st : stepfn) (s : srv ribt) (lg : log) (sc : script) : srv ribt * log * bool :=
  match sc with
  | [] => (s, lg, true)
  | CDo i :: tl => let '(s', o) := st s i in run_cmds st s' (lg ++ [(i, o)]) tl
  | CExpect f :: tl => let '(s', lg', ok) := run_cmds st s lg tl in (s', lg', f lg && ok)
  end.
Definition run_script_with (st : stepfn) (s : srv ribt) (sc : script) : srv ribt * verdict :=
  let '(s', _, ok) := run_cmds st s [] sc in (s', if ok then Pass else Fail).
Definition run_script := run_script_with ref_step.
Definition final_state (s : srv ribt) (sc : script) : srv ribt := fst (run_script s sc).

(* ------------------------------------------------------------------ the election-id shift *)
(* zero is the invalid id and stays; every other id moves up by d in its low word *)
Definition shift_id (d : N) (id : u128) : u128 := if u128_is_zero id then id else (hi id, lo id + d).
Definition shift_hop (d : N) (o : hop) : hop :=
  {| op_id := op_id o; op_ni := op_ni o; op_kind := op_kind o; op_elec := option_map (shift_id d) (op_elec o); op_entry := op_entry o |}.
Definition shift_msg (d : N) (m : msg hentry) : msg hentry :=
  match m with
  | MElect _ id => MElect hentry (shift_id d id)
  | MOps _ ops => MOps hentry (map (shift_hop d) ops)
  | m' => m'
  end.
Definition shift_in (d : N) (i : sinp) : sinp :=
  match i with Msg _ c m => Msg hentry c (shift_msg d m) | i' => i' end.
Definition shift_flush (d : N) (q : flushreq) : flushreq :=
  {| f_elec := match f_elec q with FId id => FId (shift_id d id) | e => e end; f_ni := f_ni q |}.
Definition shift_sinput (d : N) (i : sinput) : sinput :=
  match i with SIn x => SIn (shift_in d x) | SFlush q => SFlush (shift_flush d q) | SGet q => SGet q end.
Definition shift_cmd (d : N) (c : cmd) : cmd := match c with CDo i => CDo (shift_sinput d i) | CExpect f => CExpect f end.
Definition shift_script (d : N) (sc : script) : script := map (shift_cmd d) sc.

Definition shift_resp (d : N) (r : resp) : resp :=
  match r with RElect id => RElect (option_map (shift_id d) id) | r' => r' end.
Definition shift_out (d : N) (o : out) : out := {| o_resps := map (shift_resp d) (o_resps o); o_end := o_end o |}.

(* ------------------------------------------------------------------ the ids a script uses *)
Definition ids_of_msg (m : msg hentry) : list u128 :=
  match m with
  | MElect _ id => [id]
  | MOps _ ops => flat_map (fun o => match op_elec o with Some e => [e] | None => [] end) ops
  | _ => []
  end.
Definition ids_of_sinput (i : sinput) : list u128 :=
  match i with
  | SIn (Msg _ _ m) => ids_of_msg m
  | SFlush q => match f_elec q with FId id => [id] | _ => [] end
  | _ => []
  end.
Definition ids_of (sc : script) : list u128 :=
  flat_map (fun c => match c with CDo i => ids_of_sinput i | CExpect _ => [] end) sc.
(* a script written at base 0 uses the ids (0,1) .. (0,n) (and possibly the invalid id zero) *)
Definition id_in_window (n : N) (id : u128) : bool := (hi id =? 0) && (lo id <=? n).
Definition ids_within (n : N) (sc : script) : bool := forallb (id_in_window n) (ids_of sc).

(* ------------------------------------------------------------------ the contract of a test *)
Definition in_cid (i : sinp) : N := match i with Connect _ c | Msg _ c _ | HalfClose _ c | Abort _ c => c end.
Definition connected (sc : script) : list N :=
  flat_map (fun c => match c with CDo (SIn (Connect _ k)) => [k] | _ => [] end) sc.
Definition flush_all : flushreq := {| f_elec := FOverride; f_ni := NAll |}.
Definition is_flush_all (c : cmd) : bool :=
  match c with CDo (SFlush {| f_elec := FOverride; f_ni := NAll |}) => true | _ => false end.
Definition closes (k : N) (c : cmd) : bool :=
  match c with CDo (SIn (HalfClose _ c')) | CDo (SIn (Abort _ c')) => c' =? k | _ => false end.
(* the clean-up part of a script only closes streams, flushes, reads and checks *)
Definition passive (c : cmd) : bool :=
  match c with
  | CDo (SIn (HalfClose _ _)) | CDo (SIn (Abort _ _)) | CDo (SFlush _) | CDo (SGet _) | CExpect _ => true
  | _ => false
  end.
Definition opens (k : N) (c : cmd) : bool := match c with CDo (SIn (Connect _ c')) => c' =? k | _ => false end.
(* is stream k open after the script (it was not open before)? *)
Definition open_after (k : N) (sc : script) : bool :=
  fold_left (fun o c => if closes k c then false else if opens k c then true else o) sc false.
(* static part: every stream that the script opens is closed again (after its last opening); sc = body ++ tail
   where tail only closes streams, flushes, reads and checks, and contains flush-all(override) *)
Definition ends_clean (sc : script) : Prop :=
  exists body tail, sc = body ++ tail /\ forallb passive tail = true /\ existsb is_flush_all tail = true
                    /\ forall k, In k (connected sc) -> open_after k sc = false.

(* a checker for ends_clean: the longest passive suffix of the script is taken as its clean-up part *)
Fixpoint psplit (sc : script) : script * script :=
  match sc with
  | [] => ([], [])
  | c :: tl => let '(b, t) := psplit tl in
               match b with
               | [] => if passive c then ([], c :: t) else ([c], t)
               | _ => (c :: b, t)
               end
  end.
Definition ends_clean_b (sc : script) : bool :=
  let t := snd (psplit sc) in
  existsb is_flush_all t && forallb (fun k => negb (open_after k sc)) (connected sc).
Definition expects_of (sc : script) : list (log -> bool) :=
  flat_map (fun c => match c with CExpect f => [f] | _ => [] end) sc.

(* dynamic part 1: until the first announcement of the script has been accepted (the server's id is
   below the window) the script sends no operations and no Flush that consults the election id *)
Definition risky (i : sinput) : bool :=
  match i with
  | SIn (Msg _ _ (MOps _ _)) => true
  | SFlush q => match f_elec q with FOverride => false | _ => true end
  | _ => false
  end.
Definition below (lb : N) (s : srv ribt) : bool :=
  match cur s with None => true | Some c => (hi c =? 0) && (lo c <=? lb) end.
Fixpoint early_ok (st : stepfn) (lb : N) (s : srv ribt) (sc : script) : bool :=
  match sc with
  | [] => true
  | CDo i :: tl => negb (below lb s && risky i) && early_ok st lb (fst (st s i)) tl
  | CExpect _ :: tl => early_ok st lb s tl
  end.
(* dynamic part 2: no held operations are left *)
Definition no_held (s : srv ribt) : bool := match pend (srib s) with [] => true | _ => false end.

(* ------------------------------------------------------------------ the suite *)
(* scripts are run one after the other on one server; script number i runs shifted by the counter,
   which then advances by the width of the script's window *)
Record test := { t_script : script; t_span : N }.
Fixpoint run_suite (st : stepfn) (s : srv ribt) (c : N) (ts : list test) : list verdict * srv ribt * N :=
  match ts with
  | [] => ([], s, c)
  | t :: tl => let '(s', v) := run_script_with st s (shift_script c (t_script t)) in
               let '(vs, sf, cf) := run_suite st s' (c + t_span t) tl in (v :: vs, sf, cf)
  end.

(* ------------------------------------------------------------------ reading the log *)
Definition outs_of (k : N) (lg : log) : list out :=
  flat_map (fun io => match io with (SIn i, OMod o) => if in_cid i =? k then [o] else [] | _ => [] end) lg.
Definition results_of_client (k : N) (lg : log) : list (N * astatus) :=
  flat_map (fun o => flat_map (fun r => match r with RResults rs => rs | _ => [] end) (o_resps o)) (outs_of k lg).
Definition reported (k : N) (lg : log) : list (option u128) :=
  flat_map (fun o => flat_map (fun r => match r with RElect id => [id] | _ => [] end) (o_resps o)) (outs_of k lg).
Definition announced (k : N) (lg : log) : list u128 :=
  flat_map (fun io => match io with (SIn (Msg _ c (MElect _ id)), _) => if c =? k then [id] else [] | _ => [] end) lg.
Definition params_acks (k : N) (lg : log) : list unit :=
  flat_map (fun o => flat_map (fun r => match r with RParamsOK => [tt] | _ => [] end) (o_resps o)) (outs_of k lg).
Definition errors_of (k : N) (lg : log) : list (code * reason) :=
  flat_map (fun o => match o_end o with Some (OK, _) => [] | Some e => [e] | None => [] end) (outs_of k lg).
Definition has_res (k id : N) (st : astatus) (lg : log) : bool :=
  existsb (fun r => (fst r =? id) && astatus_eqb (snd r) st) (results_of_client k lg).
Definition no_errors (k : N) (lg : log) : bool := match errors_of k lg with [] => true | _ => false end.
Definition has_error_code (k : N) (c : code) (lg : log) : bool := existsb (fun e => code_eqb (fst e) c) (errors_of k lg).
(* the n-th id announced by client a is among the ids reported to client k *)
Definition reported_announced (k a : N) (n : nat) (lg : log) : bool :=
  match nth_error (announced a lg) n with
  | Some id => existsb (opt_eqb u128_eqb (Some id)) (reported k lg)
  | None => false
  end.
Definition last_flush (lg : log) : option fstatus :=
  fold_left (fun acc io => match io with (SFlush _, OFlush st) => Some st | _ => acc end) lg None.
Definition last_get (lg : log) : option (option (list gentry)) :=
  fold_left (fun acc io => match io with (SGet _, OGet r) => Some r | _ => acc end) lg None.
Definition last_flush_ok (lg : log) : bool := match last_flush lg with Some F_OK => true | _ => false end.
Definition last_get_count (n : nat) (lg : log) : bool :=
  match last_get lg with Some (Some l) => Nat.eqb (length l) n | _ => false end.
Definition last_get_has (key : N * N * N) (lg : log) : bool :=
  match last_get lg with
  | Some (Some l) => existsb (fun e => let '(a, b, c) := gkey e in let '(a', b', c') := key in (a =? a') && (b =? b') && (c =? c')) l
  | _ => false
  end.

(* ------------------------------------------------------------------ the fault catalogue *)
Inductive fault :=
| F_none
| F_omit_fib                 (* FIB_PROGRAMMED results are never sent *)
| F_nonprimary               (* operations of any session are programmed: the sender is made primary under
                                the current id and its operations are re-stamped *)
| F_fail_idem_delete         (* DELETE of an entry that is not installed is answered FAILED *)
| F_stale_get                (* Get omits one entry *)
| F_ignore_flush             (* Flush answers OK and removes nothing *)
| F_misreport_elect          (* the election id in responses is off by one *)
| F_accept_repeated_params   (* a second SessionParameters message is acknowledged instead of ending the RPC *)
(* the same requirements broken in a second, per-recipient / per-kind way *)
| F_echo_own_elect           (* the election response carries the announcer's own id *)
| F_misreport_nonprimary     (* the election id is off by one only in responses to a session that is not the primary *)
| F_omit_fib_deletes         (* FIB_PROGRAMMED is never sent for DELETE operations *)
| F_stale_get_ipv4           (* Get omits one entry of the IPv4 table *)
| F_ignore_flush_named       (* Flush of a named instance answers OK and removes nothing *)
| F_tie_keeps_old_primary    (* a session whose announced id equals the current id is served as primary again *)
(* Get loses exactly one table; every other table is complete *)
| F_stale_get_nh             (* Get never returns next-hop entries *)
| F_stale_get_nhg.           (* Get never returns next-hop-group entries *)

Definition map_out (f : out -> out) (o : sout) : sout := match o with OMod x => OMod (f x) | o' => o' end.
Definition map_resps (f : resp -> resp) (o : out) : out := {| o_resps := map f (o_resps o); o_end := o_end o |}.
Definition not_fib (r : N * astatus) : bool := match snd r with FIB_PROGRAMMED => false | _ => true end.
Definition drop_fib (r : resp) : resp := match r with RResults rs => RResults (filter not_fib rs) | r' => r' end.
Definition off_by_one (r : resp) : resp :=
  match r with RElect (Some id) => RElect (Some (hi id, lo id + 1)) | r' => r' end.
Definition restamp (cu : u128) (o : hop) : hop :=
  {| op_id := op_id o; op_ni := op_ni o; op_kind := op_kind o; op_elec := Some cu; op_entry := op_entry o |}.
Definition entry_present (r : ribt) (n : N) (e : entry) : bool :=
  match nget n (nis r) with
  | None => true
  | Some s =>
    match e with
    | ETop t k _ _ => nmem k (get_top t s)
    | EGrp id _ => nmem id (tabg s)
    | ENh idx _ => nmem idx (tabh s)
    | ENone => true
    end
  end.
Definition missing_deletes (r : ribt) (ops : list hop) : list N :=
  flat_map (fun o => match op_kind o with
                     | DELETE => if entry_present r (op_ni o) (he (op_entry o)) then [] else [op_id o]
                     | _ => [] end) ops.
Definition fail_ids (ids : list N) (r : resp) : resp :=
  match r with
  | RResults rs =>
    RResults (flat_map (fun x => if memN (fst x) ids
                                 then match snd x with FIB_PROGRAMMED => [] | _ => [(fst x, FAILED)] end
                                 else [x]) rs)
  | r' => r'
  end.

Definition echo_id (id : u128) (r : resp) : resp := match r with RElect _ => RElect (Some id) | r' => r' end.
Definition delete_ids (ops : list hop) : list N :=
  flat_map (fun o => match op_kind o with DELETE => [op_id o] | _ => [] end) ops.
Definition drop_fib_of (ids : list N) (r : resp) : resp :=
  match r with
  | RResults rs => RResults (filter (fun x => negb (memN (fst x) ids && negb (not_fib x))) rs)
  | r' => r'
  end.
Fixpoint drop_first_ipv4 (l : list gentry) : list gentry :=
  match l with
  | [] => []
  | GTop _ T4 _ _ :: tl => tl
  | e :: tl => e :: drop_first_ipv4 tl
  end.

Definition is_gnh (e : gentry) : bool := match e with GNh _ _ _ => true | _ => false end.
Definition is_ggrp (e : gentry) : bool := match e with GGrp _ _ _ => true | _ => false end.

Definition fstep (f : fault) : stepfn := fun s i =>
  match f with
  | F_none => ref_step s i
  | F_omit_fib => let '(s', o) := ref_step s i in (s', map_out (map_resps drop_fib) o)
  | F_misreport_elect => let '(s', o) := ref_step s i in (s', map_out (map_resps off_by_one) o)
  | F_nonprimary =>
    match i with
    | SIn (Msg _ c (MOps _ ops)) =>
      match cur s, sget ribt c s with
      | Some cu, Some _ =>
        let '(s1, o1) := ref_step s (SIn (Msg hentry c (MElect hentry cu))) in
        match o1 with
        | OMod o => match o_end o with
                    | Some _ => (s1, o1)
                    | None => ref_step s1 (SIn (Msg hentry c (MOps hentry (map (restamp cu) ops))))
                    end
        | _ => (s1, o1)
        end
      | _, _ => ref_step s i
      end
    | _ => ref_step s i
    end
  | F_fail_idem_delete =>
    match i with
    | SIn (Msg _ c (MOps _ ops)) =>
      let ids := missing_deletes (srib s) ops in
      let '(s', o) := ref_step s i in (s', map_out (map_resps (fail_ids ids)) o)
    | _ => ref_step s i
    end
  | F_stale_get =>
    match i with
    | SGet q => (s, OGet (option_map (@tl gentry) (do_get s q)))
    | _ => ref_step s i
    end
  | F_ignore_flush =>
    match i with
    | SFlush _ => (s, OFlush F_OK)
    | _ => ref_step s i
    end
  | F_echo_own_elect =>
    match i with
    | SIn (Msg _ _ (MElect _ id)) => let '(s', o) := ref_step s i in (s', map_out (map_resps (echo_id id)) o)
    | _ => ref_step s i
    end
  | F_misreport_nonprimary =>
    match i with
    | SIn (Msg _ c (MElect _ _)) =>
      let '(s', o) := ref_step s i in
      match master s' with
      | Some m => if m =? c then (s', o) else (s', map_out (map_resps off_by_one) o)
      | None => (s', map_out (map_resps off_by_one) o)
      end
    | _ => ref_step s i
    end
  | F_omit_fib_deletes =>
    match i with
    | SIn (Msg _ _ (MOps _ ops)) => let '(s', o) := ref_step s i in (s', map_out (map_resps (drop_fib_of (delete_ids ops))) o)
    | _ => ref_step s i
    end
  | F_stale_get_ipv4 =>
    match i with
    | SGet q => (s, OGet (option_map drop_first_ipv4 (do_get s q)))
    | _ => ref_step s i
    end
  | F_stale_get_nh =>
    match i with
    | SGet q => (s, OGet (option_map (filter (fun e => negb (is_gnh e))) (do_get s q)))
    | _ => ref_step s i
    end
  | F_stale_get_nhg =>
    match i with
    | SGet q => (s, OGet (option_map (filter (fun e => negb (is_ggrp e))) (do_get s q)))
    | _ => ref_step s i
    end
  | F_ignore_flush_named =>
    match i with
    | SFlush q => match f_ni q with NName _ => (s, OFlush F_OK) | _ => ref_step s i end
    | _ => ref_step s i
    end
  | F_tie_keeps_old_primary =>
    match i with
    | SIn (Msg _ c (MOps _ _)) =>
      match cur s, sget ribt c s with
      | Some cu, Some x =>
        match s_last x with
        | Some la =>
          if u128_eqb la cu then
            let '(s1, o1) := ref_step s (SIn (Msg hentry c (MElect hentry cu))) in
            match o1 with
            | OMod o => match o_end o with Some _ => (s1, o1) | None => ref_step s1 i end
            | _ => (s1, o1)
            end
          else ref_step s i
        | None => ref_step s i
        end
      | _, _ => ref_step s i
      end
    | _ => ref_step s i
    end
  | F_accept_repeated_params =>
    match i with
    | SIn (Msg _ c (MParams _ _)) =>
      match sget ribt c s with
      | Some x => if s_set x then (s, OMod (out_resp RParamsOK)) else ref_step s i
      | None => ref_step s i
      end
    | _ => ref_step s i
    end
  end.

(* ------------------------------------------------------------------ transcribed compliance tests *)
(* written at base 0: the first id of the window is (0,1); default instance = 1, the VRF = 2 *)
Definition connect (k : N) : cmd := CDo (SIn (Connect hentry k)).
Definition params (k red pers ack : N) : cmd :=
  CDo (SIn (Msg hentry k (MParams hentry {| p_red := red; p_pers := pers; p_ack := ack |}))).
Definition elect (k : N) (id : u128) : cmd := CDo (SIn (Msg hentry k (MElect hentry id))).
Definition sendops (k : N) (l : list hop) : cmd := CDo (SIn (Msg hentry k (MOps hentry l))).
Definition close (k : N) : cmd := CDo (SIn (HalfClose hentry k)).
Definition doflush (e : felec) (n : fni) : cmd := CDo (SFlush (mk_flushreq e n)).
Definition doget (n : fni) (a : aft) : cmd := CDo (SGet (mk_getreq n a)).
Definition cleanup : script := [doflush FOverride NAll].                        (* flushServer *)

Definition e_nh (i : N) : entry := ENh i (Some (mk_nh [])).
Definition e_grp (id : N) (members : list N) : entry := EGrp id (Some (mk_grp (map (fun i => (i, 1)) members) 0 [])).
Definition e_v4 (k g : N) : entry := ETop T4 k true (Some (mk_top g 0 [])).
Definition hop1 (id : N) (k : okind) (el : u128) (e : entry) : hop := mk_hop id 1 k (Some el) e [] [].
Definition id1 : u128 := (0, 1).
Definition id2 : u128 := (0, 2).
(* fluent: session parameters + initial election id, then await *)
Definition session (k ack : N) (id : u128) : script := [connect k; params k 1 1 ack; elect k id].

(* ModifyConnectionWithElectionID *)
Definition T_connect_elect : test :=
  {| t_span := 1;
     t_script := session 1 0 id1
                 ++ [CExpect (no_errors 1); CExpect (reported_announced 1 1 0);
                     CExpect (fun lg => match params_acks 1 lg with [] => false | _ => true end); close 1]
                 ++ cleanup |}.
(* ModifyConnectionRepeatedSessionParameters *)
Definition T_repeated_params : test :=
  {| t_span := 1;
     t_script := session 1 0 id1 ++ [params 1 1 1 0; CExpect (has_error_code 1 FailedPrecondition); close 1] ++ cleanup |}.
(* AddIPv4Entry with wantACK: three requests, one operation each *)
Definition add_ipv4 (ack : N) (st : astatus) : test :=
  {| t_span := 1;
     t_script := session 1 ack id1
                 ++ [CExpect (no_errors 1);
                     sendops 1 [hop1 1 ADD id1 (e_nh 1)]; sendops 1 [hop1 2 ADD id1 (e_grp 42 [1])];
                     sendops 1 [hop1 3 ADD id1 (e_v4 1001 42)];
                     CExpect (no_errors 1); close 1;
                     CExpect (has_res 1 1 st); CExpect (has_res 1 2 st); CExpect (has_res 1 3 st)]
                 ++ cleanup |}.
Definition T_add_ipv4_rib := add_ipv4 0 RIB_PROGRAMMED.
Definition T_add_ipv4_fib := add_ipv4 1 FIB_PROGRAMMED.
(* IdempotentDelete - RIB ACK: base topology (4 operations in one request), then each entry deleted twice *)
Definition idempotent_delete (ack : N) (st : astatus) : test :=
  {| t_span := 1;
     t_script := session 1 ack id1
                 ++ [CExpect (no_errors 1);
                     sendops 1 [hop1 1 ADD id1 (e_nh 1)]; sendops 1 [hop1 2 ADD id1 (e_nh 2)];
                     sendops 1 [hop1 3 ADD id1 (e_grp 1 [1; 2])]; sendops 1 [hop1 4 ADD id1 (e_v4 1000 1)];
                     sendops 1 [hop1 5 DELETE id1 (e_v4 1000 0)]; sendops 1 [hop1 6 DELETE id1 (e_v4 1000 0)];
                     sendops 1 [hop1 7 DELETE id1 (e_grp 1 [])]; sendops 1 [hop1 8 DELETE id1 (e_grp 1 [])];
                     sendops 1 [hop1 9 DELETE id1 (e_nh 1)]; sendops 1 [hop1 10 DELETE id1 (e_nh 1)];
                     CExpect (no_errors 1); close 1]
                 ++ map (fun i => CExpect (has_res 1 i st)) [1; 2; 3; 4; 5; 6; 7; 8; 9; 10]
                 ++ cleanup |}.
Definition T_idempotent_delete := idempotent_delete 0 RIB_PROGRAMMED.
Definition T_idempotent_delete_fib := idempotent_delete 1 FIB_PROGRAMMED.
(* TestSameElectionIDFromTwoClients: the later announcer of the same id is primary; A's operation fails *)
Definition T_same_id_two_clients : test :=
  {| t_span := 1;
     t_script := session 1 0 id1 ++ [CExpect (no_errors 1)] ++ session 2 0 id1 ++ [CExpect (no_errors 2)]
                 ++ [sendops 1 [hop1 1 ADD id1 (e_nh 10)]; sendops 2 [hop1 1 ADD id1 (e_nh 10)];
                     CExpect (no_errors 1); CExpect (no_errors 2);
                     CExpect (reported_announced 1 1 0); CExpect (reported_announced 2 2 0);
                     CExpect (has_res 1 1 FAILED); CExpect (has_res 2 1 RIB_PROGRAMMED);
                     close 2; close 1]
                 ++ cleanup |}.
(* TestNewElectionIDNoUpdateRejected: operations stamped with an id that was never announced *)
Definition T_unannounced_id : test :=
  {| t_span := 2;
     t_script := session 1 0 id1
                 ++ [sendops 1 [hop1 1 ADD id2 (e_nh 1); hop1 2 ADD id2 (e_grp 1 [1]); hop1 3 ADD id2 (e_v4 1001 1)];
                     CExpect (no_errors 1);
                     CExpect (has_res 1 1 FAILED); CExpect (has_res 1 2 FAILED); CExpect (has_res 1 3 FAILED); close 1]
                 ++ cleanup |}.
(* GetNH - RIB ACK *)
Definition T_get_nh : test :=
  {| t_span := 1;
     t_script := session 1 0 id1
                 ++ [CExpect (no_errors 1); sendops 1 [hop1 1 ADD id1 (e_nh 1)]; CExpect (no_errors 1); close 1;
                     CExpect (has_res 1 1 RIB_PROGRAMMED);
                     doget (NName 1) A_NH; CExpect (last_get_has (1, 5, 1))]
                 ++ cleanup |}.
(* FlushFromMasterDefaultNI - RIB ACK *)
Definition T_flush_master : test :=
  {| t_span := 1;
     t_script := session 1 0 id1
                 ++ [CExpect (no_errors 1);
                     sendops 1 [hop1 1 ADD id1 (e_nh 1)]; sendops 1 [hop1 2 ADD id1 (e_grp 1 [1])];
                     sendops 1 [hop1 3 ADD id1 (e_v4 1042 1)];
                     CExpect (no_errors 1); close 1;
                     CExpect (has_res 1 1 RIB_PROGRAMMED); CExpect (has_res 1 2 RIB_PROGRAMMED); CExpect (has_res 1 3 RIB_PROGRAMMED);
                     doflush (FId id1) NAll; CExpect last_flush_ok;
                     doget (NName 1) A_ALL; CExpect (last_get_count 0)]
                 ++ cleanup |}.

(* GetIPv4 - RIB ACK *)
Definition T_get_ipv4 : test :=
  {| t_span := 1;
     t_script := session 1 0 id1
                 ++ [CExpect (no_errors 1);
                     sendops 1 [hop1 1 ADD id1 (e_nh 1)]; sendops 1 [hop1 2 ADD id1 (e_grp 1 [1])];
                     sendops 1 [hop1 3 ADD id1 (e_v4 1042 1)];
                     CExpect (no_errors 1); close 1;
                     CExpect (has_res 1 1 RIB_PROGRAMMED); CExpect (has_res 1 2 RIB_PROGRAMMED); CExpect (has_res 1 3 RIB_PROGRAMMED);
                     doget (NName 1) A_IPV4; CExpect (last_get_has (1, 1, 1042))]
                 ++ cleanup |}.
(* GetNHG - RIB ACK *)
Definition T_get_nhg : test :=
  {| t_span := 1;
     t_script := session 1 0 id1
                 ++ [CExpect (no_errors 1);
                     sendops 1 [hop1 1 ADD id1 (e_nh 1)]; sendops 1 [hop1 2 ADD id1 (e_grp 1 [1])];
                     CExpect (no_errors 1); close 1;
                     CExpect (has_res 1 1 RIB_PROGRAMMED); CExpect (has_res 1 2 RIB_PROGRAMMED);
                     doget (NName 1) A_NHG; CExpect (last_get_has (1, 4, 1))]
                 ++ cleanup |}.
(* GetIPv4Chain - RIB ACK: one Get of every table; the prefix, the group 1 and the next-hop 1 must each be there
   (group and next-hop carry the same number: the keys are compared per table) *)
Definition T_get_chain : test :=
  {| t_span := 1;
     t_script := session 1 0 id1
                 ++ [CExpect (no_errors 1);
                     sendops 1 [hop1 1 ADD id1 (e_nh 1)]; sendops 1 [hop1 2 ADD id1 (e_grp 1 [1])];
                     sendops 1 [hop1 3 ADD id1 (e_v4 1042 1)];
                     CExpect (no_errors 1); close 1;
                     CExpect (has_res 1 1 RIB_PROGRAMMED); CExpect (has_res 1 2 RIB_PROGRAMMED); CExpect (has_res 1 3 RIB_PROGRAMMED);
                     doget (NName 1) A_ALL;
                     CExpect (last_get_has (1, 1, 1042)); CExpect (last_get_has (1, 4, 1)); CExpect (last_get_has (1, 5, 1))]
                 ++ cleanup |}.
(* FlushOfSpecificNI - RIB ACK: a chain in the default instance (first stream, first id) and one in the VRF
   (second stream, second id); Flush of the default instance by name under the current id *)
Definition hopn (n id : N) (k : okind) (el : u128) (e : entry) : hop := mk_hop id n k (Some el) e [] [].
Definition T_flush_specific : test :=
  {| t_span := 2;
     t_script := session 1 0 id1
                 ++ [CExpect (no_errors 1);
                     sendops 1 [hop1 1 ADD id1 (e_nh 1)]; sendops 1 [hop1 2 ADD id1 (e_grp 1 [1])];
                     sendops 1 [hop1 3 ADD id1 (e_v4 1042 1)];
                     CExpect (no_errors 1); close 1;
                     CExpect (has_res 1 1 RIB_PROGRAMMED); CExpect (has_res 1 2 RIB_PROGRAMMED); CExpect (has_res 1 3 RIB_PROGRAMMED)]
                 ++ session 2 0 id2
                 ++ [CExpect (no_errors 2);
                     sendops 2 [hopn 2 4 ADD id2 (e_nh 1)]; sendops 2 [hopn 2 5 ADD id2 (e_grp 1 [1])];
                     sendops 2 [hopn 2 6 ADD id2 (e_v4 1042 1)];
                     CExpect (no_errors 2); close 2;
                     CExpect (has_res 2 4 RIB_PROGRAMMED); CExpect (has_res 2 5 RIB_PROGRAMMED); CExpect (has_res 2 6 RIB_PROGRAMMED);
                     doflush (FId id2) (NName 1); CExpect last_flush_ok;
                     doget (NName 1) A_ALL; CExpect (last_get_count 0);
                     doget (NName 2) A_ALL; CExpect (last_get_count 3)]
                 ++ cleanup |}.
(* TestLowerElectionID: A announces the higher id, then B a lower one; both are told A's id *)
Definition T_lower_id : test :=
  {| t_span := 2;
     t_script := session 1 1 id2 ++ [CExpect (no_errors 1)] ++ session 2 1 id1
                 ++ [CExpect (no_errors 2); CExpect (no_errors 1);
                     CExpect (reported_announced 1 1 0); CExpect (reported_announced 2 1 0);
                     close 2; close 1]
                 ++ cleanup |}.
(* TestDecElectionID: the second check looks at all results received so far, as chk.HasResult does *)
Definition T_dec_id : test :=
  {| t_span := 2;
     t_script := session 1 0 id2
                 ++ [CExpect (no_errors 1); CExpect (reported_announced 1 1 0);
                     elect 1 id1; CExpect (no_errors 1); CExpect (reported_announced 1 1 0); close 1]
                 ++ cleanup |}.

(* not a compliance test: a script that installs a next-hop and a group and never flushes (it breaks the contract) *)
Definition leaky : test :=
  {| t_span := 1;
     t_script := session 1 0 id1 ++ [sendops 1 [hop1 1 ADD id1 (e_nh 1)]; sendops 1 [hop1 2 ADD id1 (e_grp 7 [1])]; close 1] |}.

(* numbering shared with the harness (harness/cmd/vh-c19/catalogue.go) *)
Definition test_of (n : N) : option test :=
  match n with
  | 1 => Some T_connect_elect | 2 => Some T_repeated_params | 3 => Some T_add_ipv4_rib | 4 => Some T_add_ipv4_fib
  | 5 => Some T_idempotent_delete | 6 => Some T_same_id_two_clients | 7 => Some T_unannounced_id
  | 8 => Some T_get_nh | 9 => Some T_flush_master
  | 10 => Some T_idempotent_delete_fib | 11 => Some T_get_ipv4 | 12 => Some T_flush_specific
  | 13 => Some T_lower_id | 14 => Some T_dec_id | 15 => Some T_get_nhg | 16 => Some T_get_chain
  | _ => None
  end.
Definition fault_of (n : N) : option fault :=
  match n with
  | 0 => Some F_none | 1 => Some F_omit_fib | 2 => Some F_nonprimary | 3 => Some F_fail_idem_delete
  | 4 => Some F_stale_get | 5 => Some F_ignore_flush | 6 => Some F_misreport_elect | 7 => Some F_accept_repeated_params
  | 8 => Some F_echo_own_elect | 9 => Some F_misreport_nonprimary | 10 => Some F_omit_fib_deletes
  | 11 => Some F_stale_get_ipv4 | 12 => Some F_ignore_flush_named | 13 => Some F_tie_keeps_old_primary
  | 14 => Some F_stale_get_nh | 15 => Some F_stale_get_nhg
  | _ => None
  end.
Definition all_tests : list N := [1; 2; 3; 4; 5; 6; 7; 8; 9; 10; 11; 12; 13; 14; 15; 16].
Definition faulty : list N := [1; 2; 3; 4; 5; 6; 7; 8; 9; 10; 11; 12; 13; 14; 15].
Definition all_faults : list N := 0 :: faulty.

Definition all_test_records : list test :=
  [T_connect_elect; T_repeated_params; T_add_ipv4_rib; T_add_ipv4_fib; T_idempotent_delete; T_same_id_two_clients;
   T_unannounced_id; T_get_nh; T_flush_master; T_idempotent_delete_fib; T_get_ipv4; T_flush_specific; T_lower_id; T_dec_id; T_get_nhg; T_get_chain].
(* the transcribed tests written for the requirement that each fault breaks *)
Definition designated_of (f : N) : list N :=
  match f with
  | 1 => [4; 10] | 2 => [6; 7] | 3 => [5; 10] | 4 => [8; 11; 12; 15; 16] | 5 => [9; 12] | 6 => [1; 6; 13; 14] | 7 => [2]
  | 8 => [13] | 9 => [13] | 10 => [10] | 11 => [11; 12; 16] | 12 => [12] | 13 => [6]
  | 14 => [8; 12; 16] | 15 => [12; 15; 16]
  | _ => []
  end.

(* the reference configuration of the compliance runs: forward references allowed, one VRF *)
Definition srv_ref : srv ribt := srv_init false [2].
Definition solo (f : fault) (t : test) : verdict := snd (run_script_with (fstep f) srv_ref (t_script t)).
Definition model_pass (t f : N) : option bool :=
  match test_of t, fault_of f with
  | Some t', Some f' => Some (verdict_eqb (solo f' t') Pass)
  | _, _ => None
  end.

(* a case of the correspondence: transcribed test t was run by the harness as the real compliance test
   against the Go wrapper for fault f and passed / failed *)
Record ccase := { cc_test : N; cc_fault : N; cc_pass : bool }.
Definition mk_ccase t f p := {| cc_test := t; cc_fault := f; cc_pass := p |}.
Definition ccase_ok (c : ccase) : bool :=
  match model_pass (cc_test c) (cc_fault c) with Some b => Bool.eqb b (cc_pass c) | None => true end.
Definition cmismatches (cs : list ccase) : list N := Obs.bad_indices ccase_ok cs 0.
(* one harness case = one run = the list of the transcribed tests it executed; a run mismatches when one of them does *)
Definition cmismatches_runs (cs : list (list ccase)) : list N := Obs.bad_indices (forallb ccase_ok) cs 0.
Definition verdict_table : list (N * list (N * option bool)) :=
  map (fun f => (f, map (fun t => (t, model_pass t f)) all_tests)) all_faults.

(* the whole catalogue at once: the reference passes every transcribed test, and each faulty server fails
   exactly the tests written for the requirement it breaks *)
Definition catalogue_ok : bool :=
  forallb (fun t => match model_pass t 0 with Some true => true | _ => false end) all_tests
  && forallb (fun f => forallb (fun t => match model_pass t f with
                                         | Some b => Bool.eqb b (negb (memN t (designated_of f)))
                                         | None => false end) all_tests) faulty.
