(* Model of /repo/fluent/fluent.go: the entry builders (IPv4Entry, IPv6Entry, LabelEntry,
   NextHopEntry, NextHopGroupEntry), the encapsulation-header sub-builders (MPLSEncapHeader,
   UDPV6EncapHeader), OpProto / EntryProto, and the Modify side of GRIBIClient (AddEntry,
   ReplaceEntry, DeleteEntry, UpdateElectionID, connection parameters, Start, Stop,
   StartSending) together with the part of /repo/client that decides which ModifyRequests
   leave the client and in which order (Q, sendq, StartSending's handshake).

   Lifecycle.  A fluent.GRIBIClient lives longer than the client.Client it drives: every
   successful Start builds a NEW client.Client (client.New: empty send queue, empty pending
   queue, not sending; session parameters and initial election id taken from the connection
   settings as they are at that moment) and drops the old one, Stop only stops the current
   one (StopSending + Close; g.c stays, so later calls still queue on it, unsent).  What
   belongs to the GRIBIClient itself survives a restart: the connection settings, opCount
   and currentElectionID.  The model keeps the current client.Client in the c_started ..
   c_sent / c_stopped fields and the replaced ones in c_past (per-incarnation queues); ids
   come from the one counter c_count.

   Builders are Go pointers: a program is a list of steps over a store of builder objects
   named by numbers.  AddEncapHeader stores the *pointer* to the header builder's protobuf
   (fluent.go:917-925, EncapProto returns eh.pb), so the next-hop builder keeps references
   and the header content is read when OpProto clones the message (proto.Clone) — calls on a
   header builder made after AddEncapHeader and before OpProto are visible in the message.
   That is modelled as it is.

   Abstract messages are records with one component per protobuf field the API can reach:
   plain proto3 scalars (string / uint64 / enum number) carry their value, "" / 0 being the
   same as unset on the wire; wrapper-typed and message-typed fields are [option]s; repeated
   fields are lists.  No proofs in this file. *)
From Coq Require Import String List NArith ZArith Bool.
From GV.Base Require Import Alist U128.
Import ListNotations.
Open Scope N_scope.

Notation bid := N (only parsing).      (* name of a builder object *)
Notation cid := N (only parsing).      (* name of a fluent.GRIBIClient *)

(* ------------------------------------------------------------------ abstract messages *)

(* Afts_Ipv4EntryKey / Afts_Ipv6EntryKey (the entry sub-message is always present) *)
Record ip_msg := MkIp { ip_prefix : string; ip_nhg : option N; ip_nhg_ni : option string; ip_meta : option string }.
(* Afts_LabelEntryKey: the label is a oneof, so "set to 0" differs from "unset" *)
Record label_msg := MkLabel { lb_label : option N; lb_nhg : option N; lb_nhg_ni : option string; lb_popped : list N }.
(* Afts_NextHop_EncapHeader_UdpV6 *)
Record udp6_msg := MkUdp6 { u_dscp : option N; u_dst_ip : option string; u_dst_port : option N;
                            u_ttl : option N; u_src_ip : option string; u_src_port : option N }.
(* Afts_NextHop_EncapHeader: type is the enum number (MPLS = 4, UDPV6 = 8) *)
Record encap_msg := MkEncap { eh_type : N; eh_mpls : option (list N); eh_udp6 : option udp6_msg }.
(* Afts_NextHop; H is what an encap-header list element carries: a builder reference inside
   the builder, the header message inside an emitted message *)
Record nh_body (H : Type) := MkBody {
  nb_ip : option string; nb_ifref : option (string * option N); nb_mac : option string;
  nb_ipinip : option (string * string) (* src, dst *); nb_ni : option string; nb_pop : option bool;
  nb_pushed : list N; nb_encap : list (N * H) (* key index, header *);
  nb_decap : N; nb_encapsulate : N (* enum numbers, 0 = unset *) }.
Arguments MkBody {H}. Arguments nb_ip {H}. Arguments nb_ifref {H}. Arguments nb_mac {H}. Arguments nb_ipinip {H}.
Arguments nb_ni {H}. Arguments nb_pop {H}. Arguments nb_pushed {H}. Arguments nb_encap {H}.
Arguments nb_decap {H}. Arguments nb_encapsulate {H}.
(* Afts_NextHopKey *)
Record nh_msg := MkNh { nh_index : N; nh_next_hop : option (nh_body encap_msg) }.
(* Afts_NextHopGroupKey (the group sub-message is always present); next hops as (index, weight) *)
Record nhg_msg := MkNhg { g_id : N; g_backup : option N; g_nhs : list (N * N) }.

Inductive payload := PIPv4 (m : ip_msg) | PIPv6 (m : ip_msg) | PLabel (m : label_msg) | PNH (m : nh_msg) | PNHG (m : nhg_msg).

(* spb.AFTOperation; o_op is the enum number: 0 INVALID, 1 ADD, 2 REPLACE, 3 DELETE *)
Record op_msg := MkOp { o_id : N; o_ni : string; o_op : N; o_elec : option u128; o_entry : payload }.
(* spb.AFTEntry *)
Record entry_msg := MkEntry { e_ni : string; e_entry : payload }.
(* spb.ModifyRequest; params = (redundancy, persistence, ack type) enum numbers *)
Record mreq := MkReq { m_ops : list op_msg; m_params : option (N * N * N); m_elec : option u128 }.

(* ------------------------------------------------------------------ builder state *)

(* nextHopEntry.pb: Index plus a NextHop pointer that is nil until the first call that
   touches the next-hop body ([ns_present]) *)
Record nh_st := MkNhSt { ns_index : N; ns_present : bool; ns_body : nh_body bid }.

Inductive ebody := EIPv4 (m : ip_msg) | EIPv6 (m : ip_msg) | ELabel (m : label_msg) | ENH (m : nh_st) | ENHG (m : nhg_msg).
(* the three fields every entry builder has: ni, electionID, pb *)
Record entry_b := MkEB { b_ni : string; b_elec : option u128; b_pb : ebody }.
Inductive builder := BE (e : entry_b) | BMpls (labels : list N) | BUdp6 (m : udp6_msg).

Inductive kind := KIPv4 | KIPv6 | KLabel | KNH | KNHG | KMplsHdr | KUdp6Hdr.

Definition ip0 := MkIp "" None None None.
Definition label0 := MkLabel None None None [].
Definition udp60 := MkUdp6 None None None None None None.
Definition body0 {H} : nh_body H := MkBody None None None None None None [] [] 0 0.
Definition nhst0 := MkNhSt 0 false body0.
Definition nhg0 := MkNhg 0 None [].
Definition encap0 := MkEncap 0 None None.

(* IPv4Entry(), IPv6Entry(), LabelEntry(), NextHopEntry(), NextHopGroupEntry(),
   MPLSEncapHeader(), UDPV6EncapHeader() *)
Definition new_builder (k : kind) : builder :=
  match k with
  | KIPv4 => BE (MkEB "" None (EIPv4 ip0))
  | KIPv6 => BE (MkEB "" None (EIPv6 ip0))
  | KLabel => BE (MkEB "" None (ELabel label0))
  | KNH => BE (MkEB "" None (ENH nhst0))
  | KNHG => BE (MkEB "" None (ENHG nhg0))
  | KMplsHdr => BMpls []
  | KUdp6Hdr => BUdp6 udp60
  end.

(* ------------------------------------------------------------------ builder calls *)

(* One constructor per With*/Add* method name; the receiver decides which method it is (a
   method that the receiver's Go type does not have is a no-op in [apply_call]: such a call
   does not compile in Go).  uint32 / uint64 arguments are N, Header (int64) is Z, []byte and
   string are string; AddEncapHeader takes the names of the header builders. *)
Inductive call :=
| WithPrefix (p : string)                          (* ipv4 ipv6 *)
| WithNetworkInstance (n : string)                 (* ipv4 ipv6 label nh nhg *)
| WithNextHopGroup (u : N)                         (* ipv4 ipv6 label *)
| WithNextHopGroupNetworkInstance (n : string)     (* ipv4 ipv6 label *)
| WithMetadata (b : string)                        (* ipv4 ipv6 *)
| WithElectionID (low high : N)                    (* ipv4 ipv6 nh nhg  (labelEntry has none) *)
| WithLabel (v : N)                                (* label *)
| WithPoppedLabelStack (ls : list N)               (* label *)
| WithIndex (i : N)                                (* nh *)
| WithIPAddress (a : string)
| WithInterfaceRef (name : string)
| WithSubinterfaceRef (name : string) (sub : N)
| WithMacAddress (mac : string)
| WithIPinIP (src dst : string)
| WithNextHopNetworkInstance (n : string)
| WithPopTopLabel
| WithPushedLabelStack (ls : list N)
| AddEncapHeader (hs : list bid)
| WithDecapsulateHeader (h : Z)
| WithEncapsulateHeader (h : Z)
| WithID (i : N)                                   (* nhg *)
| WithBackupNHG (i : N)
| AddNextHop (index weight : N)
| WithLabels (ls : list N)                         (* mpls encap header *)
| WithDSCP (v : N)                                 (* udpv6 encap header *)
| WithDstIP (ip : string)
| WithDstUDPPort (p : N)
| WithIPTTL (v : N)
| WithSrcIP (ip : string)
| WithSrcUDPPort (p : N).

(* encapMap (fluent.go:960-964): IPinIP = 1 -> IPV4 (2), MPLS = 2 -> MPLS (4), UDPV6 = 3 -> UDPV6 (8);
   a Go map lookup of any other Header yields the zero value UNSET *)
Definition encap_map (h : Z) : N :=
  match h with 1%Z => 2 | 2%Z => 4 | 3%Z => 8 | _ => 0 end.

Definition apply_ip (m : ip_msg) (c : call) : ip_msg :=
  match c with
  | WithPrefix p => MkIp p (ip_nhg m) (ip_nhg_ni m) (ip_meta m)
  | WithNextHopGroup u => MkIp (ip_prefix m) (Some u) (ip_nhg_ni m) (ip_meta m)
  | WithNextHopGroupNetworkInstance n => MkIp (ip_prefix m) (ip_nhg m) (Some n) (ip_meta m)
  | WithMetadata b => MkIp (ip_prefix m) (ip_nhg m) (ip_nhg_ni m) (Some b)
  | _ => m
  end.

Definition apply_label (m : label_msg) (c : call) : label_msg :=
  match c with
  | WithLabel v => MkLabel (Some v) (lb_nhg m) (lb_nhg_ni m) (lb_popped m)
  | WithNextHopGroup u => MkLabel (lb_label m) (Some u) (lb_nhg_ni m) (lb_popped m)
  | WithNextHopGroupNetworkInstance n => MkLabel (lb_label m) (lb_nhg m) (Some n) (lb_popped m)
  | WithPoppedLabelStack ls => MkLabel (lb_label m) (lb_nhg m) (lb_nhg_ni m) ls   (* replaces *)
  | _ => m
  end.

(* AddEncapHeader: index = len(EncapHeader)+1 for each appended header, in order *)
Definition add_hdrs {H} (acc : list (N * H)) (hs : list H) : list (N * H) :=
  fold_left (fun a h => a ++ [(N.of_nat (List.length a) + 1, h)]) hs acc.

Definition apply_body (b : nh_body bid) (c : call) : nh_body bid :=
  match c with
  | WithIPAddress a => MkBody (Some a) (nb_ifref b) (nb_mac b) (nb_ipinip b) (nb_ni b) (nb_pop b) (nb_pushed b) (nb_encap b) (nb_decap b) (nb_encapsulate b)
  | WithInterfaceRef n => MkBody (nb_ip b) (Some (n, None)) (nb_mac b) (nb_ipinip b) (nb_ni b) (nb_pop b) (nb_pushed b) (nb_encap b) (nb_decap b) (nb_encapsulate b)
  | WithSubinterfaceRef n s => MkBody (nb_ip b) (Some (n, Some s)) (nb_mac b) (nb_ipinip b) (nb_ni b) (nb_pop b) (nb_pushed b) (nb_encap b) (nb_decap b) (nb_encapsulate b)
  | WithMacAddress m => MkBody (nb_ip b) (nb_ifref b) (Some m) (nb_ipinip b) (nb_ni b) (nb_pop b) (nb_pushed b) (nb_encap b) (nb_decap b) (nb_encapsulate b)
  | WithIPinIP s d => MkBody (nb_ip b) (nb_ifref b) (nb_mac b) (Some (s, d)) (nb_ni b) (nb_pop b) (nb_pushed b) (nb_encap b) (nb_decap b) (nb_encapsulate b)
  | WithNextHopNetworkInstance n => MkBody (nb_ip b) (nb_ifref b) (nb_mac b) (nb_ipinip b) (Some n) (nb_pop b) (nb_pushed b) (nb_encap b) (nb_decap b) (nb_encapsulate b)
  | WithPopTopLabel => MkBody (nb_ip b) (nb_ifref b) (nb_mac b) (nb_ipinip b) (nb_ni b) (Some true) (nb_pushed b) (nb_encap b) (nb_decap b) (nb_encapsulate b)
  | WithPushedLabelStack ls => MkBody (nb_ip b) (nb_ifref b) (nb_mac b) (nb_ipinip b) (nb_ni b) (nb_pop b) ls (nb_encap b) (nb_decap b) (nb_encapsulate b)
  | AddEncapHeader hs => MkBody (nb_ip b) (nb_ifref b) (nb_mac b) (nb_ipinip b) (nb_ni b) (nb_pop b) (nb_pushed b) (add_hdrs (nb_encap b) hs) (nb_decap b) (nb_encapsulate b)
  | WithDecapsulateHeader h => MkBody (nb_ip b) (nb_ifref b) (nb_mac b) (nb_ipinip b) (nb_ni b) (nb_pop b) (nb_pushed b) (nb_encap b) (encap_map h) (nb_encapsulate b)
  | WithEncapsulateHeader h => MkBody (nb_ip b) (nb_ifref b) (nb_mac b) (nb_ipinip b) (nb_ni b) (nb_pop b) (nb_pushed b) (nb_encap b) (nb_decap b) (encap_map h)
  | _ => b
  end.

(* does the call allocate n.pb.NextHop when it is nil?  Every next-hop method except
   WithIndex / WithNetworkInstance / WithElectionID does; AddEncapHeader does it through
   nextEncapHeaderKeyIndex, i.e. only when at least one header is given *)
Definition touches_body (c : call) : bool :=
  match c with
  | WithIPAddress _ | WithInterfaceRef _ | WithSubinterfaceRef _ _ | WithMacAddress _ | WithIPinIP _ _
  | WithNextHopNetworkInstance _ | WithPopTopLabel | WithPushedLabelStack _
  | WithDecapsulateHeader _ | WithEncapsulateHeader _ => true
  | AddEncapHeader hs => match hs with [] => false | _ => true end
  | _ => false
  end.

Definition apply_nh (s : nh_st) (c : call) : nh_st :=
  match c with
  | WithIndex i => MkNhSt i (ns_present s) (ns_body s)
  | _ => MkNhSt (ns_index s) (ns_present s || touches_body c) (apply_body (ns_body s) c)
  end.

Definition apply_nhg (m : nhg_msg) (c : call) : nhg_msg :=
  match c with
  | WithID i => MkNhg i (g_backup m) (g_nhs m)
  | WithBackupNHG i => MkNhg (g_id m) (Some i) (g_nhs m)
  | AddNextHop i w => MkNhg (g_id m) (g_backup m) (g_nhs m ++ [(i, w)])
  | _ => m
  end.

Definition apply_udp6 (m : udp6_msg) (c : call) : udp6_msg :=
  match c with
  | WithDSCP v => MkUdp6 (Some v) (u_dst_ip m) (u_dst_port m) (u_ttl m) (u_src_ip m) (u_src_port m)
  | WithDstIP s => MkUdp6 (u_dscp m) (Some s) (u_dst_port m) (u_ttl m) (u_src_ip m) (u_src_port m)
  | WithDstUDPPort p => MkUdp6 (u_dscp m) (u_dst_ip m) (Some p) (u_ttl m) (u_src_ip m) (u_src_port m)
  | WithIPTTL v => MkUdp6 (u_dscp m) (u_dst_ip m) (u_dst_port m) (Some v) (u_src_ip m) (u_src_port m)
  | WithSrcIP s => MkUdp6 (u_dscp m) (u_dst_ip m) (u_dst_port m) (u_ttl m) (Some s) (u_src_port m)
  | WithSrcUDPPort p => MkUdp6 (u_dscp m) (u_dst_ip m) (u_dst_port m) (u_ttl m) (u_src_ip m) (Some p)
  | _ => m
  end.

Definition apply_pb (pb : ebody) (c : call) : ebody :=
  match pb with
  | EIPv4 m => EIPv4 (apply_ip m c)
  | EIPv6 m => EIPv6 (apply_ip m c)
  | ELabel m => ELabel (apply_label m c)
  | ENH m => ENH (apply_nh m c)
  | ENHG m => ENHG (apply_nhg m c)
  end.

Definition has_election_method (pb : ebody) : bool := match pb with ELabel _ => false | _ => true end.

Definition apply_entry (e : entry_b) (c : call) : entry_b :=
  match c with
  | WithNetworkInstance n => MkEB n (b_elec e) (b_pb e)
  | WithElectionID lo hi => if has_election_method (b_pb e) then MkEB (b_ni e) (Some (hi, lo)) (b_pb e) else e
  | _ => MkEB (b_ni e) (b_elec e) (apply_pb (b_pb e) c)
  end.

Definition apply_call (b : builder) (c : call) : builder :=
  match b with
  | BE e => BE (apply_entry e c)
  | BMpls ls => match c with WithLabels l => BMpls (ls ++ l) | _ => b end    (* appends *)
  | BUdp6 m => BUdp6 (apply_udp6 m c)
  end.

(* ------------------------------------------------------------------ OpProto / EntryProto *)

Notation store := (alist bid builder) (only parsing).

Definition sget (st : store) (b : bid) : option builder := aget N.eqb b st.

(* EncapProto of a header builder (its pb, read when the next-hop message is cloned) *)
Definition encap_proto (b : builder) : encap_msg :=
  match b with
  | BMpls ls => MkEncap 4 (Some ls) None
  | BUdp6 m => MkEncap 8 None (Some m)
  | BE _ => encap0
  end.
Definition resolve (st : store) (r : bid) : encap_msg :=
  match sget st r with Some b => encap_proto b | None => encap0 end.

(* the message is built with whatever the header builders hold at that moment ([res]) *)
Definition body_with (res : bid -> encap_msg) (b : nh_body bid) : nh_body encap_msg :=
  MkBody (nb_ip b) (nb_ifref b) (nb_mac b) (nb_ipinip b) (nb_ni b) (nb_pop b) (nb_pushed b)
         (map (fun kh => (fst kh, res (snd kh))) (nb_encap b)) (nb_decap b) (nb_encapsulate b).

Definition payload_with (res : bid -> encap_msg) (pb : ebody) : payload :=
  match pb with
  | EIPv4 m => PIPv4 m
  | EIPv6 m => PIPv6 m
  | ELabel m => PLabel m
  | ENH s => PNH (MkNh (ns_index s) (if ns_present s then Some (body_with res (ns_body s)) else None))
  | ENHG m => PNHG m
  end.

Definition payload_of (st : store) (pb : ebody) : payload := payload_with (resolve st) pb.

(* OpProto: Id and Op are left at their zero values *)
Definition op_proto (st : store) (e : entry_b) : op_msg := MkOp 0 (b_ni e) 0 (b_elec e) (payload_of st (b_pb e)).
Definition entry_proto (st : store) (e : entry_b) : entry_msg := MkEntry (b_ni e) (payload_of st (b_pb e)).

(* ------------------------------------------------------------------ the client *)

(* a client.Client that a later Start replaced: what its Modify stream had received, and what
   was still in its sendq (never sent: nothing refers to the old client any more) *)
Record incarnation := MkInc { i_sent : list mreq; i_sendq : list mreq }.

(* fluent.GRIBIClient + its gRIBIConnection + the send side of the current client.Client
   (c_started .. c_sent, c_stopped) + the replaced ones (c_past) *)
Record client := MkClient {
  c_mode : N;                    (* connection.redundMode: 0 unset, 1 AllPrimaryClients, 2 ElectedPrimaryClient *)
  c_init : option u128;          (* connection.electionID *)
  c_cur : option u128;           (* currentElectionID *)
  c_persist : bool; c_fiback : bool;
  c_count : N;                   (* opCount: never reset, not by Start either *)
  c_started : bool;              (* a Start succeeded: g.c exists (it is never reset to nil) *)
  c_params : option (N * N * N); (* client.state.SessParams, fixed by Start *)
  c_elec0 : option u128;         (* client.state.ElectionID, fixed by Start *)
  c_sending : bool;              (* qs.sending *)
  c_sendq : list mreq;           (* qs.sendq: queued, not yet handed to the sender *)
  c_sent : list mreq;            (* handed to the Modify stream, in order *)
  c_fatals : N;                  (* t.Fatalf calls *)
  c_stopped : bool;              (* Stop was called on the current client.Client *)
  c_past : list incarnation }.   (* the client.Clients replaced by a later Start, oldest first *)
Definition client0 := MkClient 0 None None false false 0 false None None false [] [] 0 false [].

Inductive ccall :=
| CWithRedundancyMode (m : N)
| CWithInitialElectionID (low high : N)
| CWithPersistence
| CWithFIBACK
| CStart
| CStop
| CStartSending
| CAddEntry (bs : list bid)
| CReplaceEntry (bs : list bid)
| CDeleteEntry (bs : list bid)
| CUpdateElectionID (low high : N).

(* the entry builders among the named objects (anything else cannot be passed in Go) *)
Definition entries (st : store) (bs : list bid) : list entry_b :=
  flat_map (fun b => match sget st b with Some (BE e) => [e] | _ => [] end) bs.

(* the election id an operation leaves with (fluent.go:501-505) *)
Definition stamp (mode : N) (cur own : option u128) : option u128 :=
  match own with Some x => Some x | None => if mode =? 2 then cur else None end.

(* entriesToModifyRequest: ids count+1, count+2, ... *)
Fixpoint mk_ops (st : store) (opk mode : N) (cur : option u128) (count : N) (es : list entry_b) : list op_msg :=
  match es with
  | [] => []
  | e :: tl => MkOp (count + 1) (b_ni e) opk (stamp mode cur (b_elec e)) (payload_of st (b_pb e))
               :: mk_ops st opk mode cur (count + 1) tl
  end.

(* client.Q: to the stream when sending, else to sendq *)
Definition enqueue (cl : client) (m : mreq) (count : N) (cur : option u128) : client :=
  if c_sending cl
  then MkClient (c_mode cl) (c_init cl) cur (c_persist cl) (c_fiback cl) count (c_started cl) (c_params cl) (c_elec0 cl)
                (c_sending cl) (c_sendq cl) (c_sent cl ++ [m]) (c_fatals cl) (c_stopped cl) (c_past cl)
  else MkClient (c_mode cl) (c_init cl) cur (c_persist cl) (c_fiback cl) count (c_started cl) (c_params cl) (c_elec0 cl)
                (c_sending cl) (c_sendq cl ++ [m]) (c_sent cl) (c_fatals cl) (c_stopped cl) (c_past cl).

Definition modify (st : store) (cl : client) (opk : N) (bs : list bid) : client :=
  if c_started cl then
    let es := entries st bs in
    enqueue cl (MkReq (mk_ops st opk (c_mode cl) (c_cur cl) (c_count cl) es) None None)
            (c_count cl + N.of_nat (List.length es)) (c_cur cl)
  else cl.   (* g.c is nil: the call panics in Go; not part of any program *)

(* Start: the options handed to client.New (fluent.go:173-190) and handleParams *)
Definition start_params (cl : client) : option (N * N * N) :=
  if (c_mode cl =? 1) || (c_mode cl =? 2) || c_persist cl || c_fiback cl
  then Some (if c_mode cl =? 2 then 1 else 0, if c_persist cl then 1 else 0, if c_fiback cl then 1 else 0)
  else None.

Definition handshake (cl : client) : list mreq :=
  (match c_params cl with Some p => [MkReq [] (Some p) None] | None => [] end)
  ++ (match c_elec0 cl with Some e => [MkReq [] None (Some e)] | None => [] end).

Definition client_step (st : store) (cl : client) (cc : ccall) : client :=
  match cc with
  | CWithRedundancyMode m =>
    MkClient m (c_init cl) (c_cur cl) (c_persist cl) (c_fiback cl) (c_count cl) (c_started cl) (c_params cl) (c_elec0 cl)
             (c_sending cl) (c_sendq cl) (c_sent cl) (c_fatals cl) (c_stopped cl) (c_past cl)
  | CWithInitialElectionID lo hi =>     (* also becomes the current id *)
    MkClient (c_mode cl) (Some (hi, lo)) (Some (hi, lo)) (c_persist cl) (c_fiback cl) (c_count cl) (c_started cl) (c_params cl) (c_elec0 cl)
             (c_sending cl) (c_sendq cl) (c_sent cl) (c_fatals cl) (c_stopped cl) (c_past cl)
  | CWithPersistence =>
    MkClient (c_mode cl) (c_init cl) (c_cur cl) true (c_fiback cl) (c_count cl) (c_started cl) (c_params cl) (c_elec0 cl)
             (c_sending cl) (c_sendq cl) (c_sent cl) (c_fatals cl) (c_stopped cl) (c_past cl)
  | CWithFIBACK =>
    MkClient (c_mode cl) (c_init cl) (c_cur cl) (c_persist cl) true (c_count cl) (c_started cl) (c_params cl) (c_elec0 cl)
             (c_sending cl) (c_sendq cl) (c_sent cl) (c_fatals cl) (c_stopped cl) (c_past cl)
  | CStart =>
    (* fluent.go:167-210.  In elected-primary mode without an initial election id t.Fatalf ends the
       call before client.New: g.c keeps whatever it was.  Otherwise g.c becomes a NEW client.Client
       (fresh queues, not sending, parameters from the connection settings as they are now); the old
       one, if any, is dropped as it is — Start does not stop it.  opCount and currentElectionID are
       not touched. *)
    if (c_mode cl =? 2) && (match c_init cl with None => true | Some _ => false end)
    then MkClient (c_mode cl) (c_init cl) (c_cur cl) (c_persist cl) (c_fiback cl) (c_count cl) (c_started cl) (c_params cl) (c_elec0 cl)
                  (c_sending cl) (c_sendq cl) (c_sent cl) (c_fatals cl + 1) (c_stopped cl) (c_past cl)
    else MkClient (c_mode cl) (c_init cl) (c_cur cl) (c_persist cl) (c_fiback cl) (c_count cl) true (start_params cl)
                  (if c_mode cl =? 2 then c_init cl else None)
                  false [] [] (c_fatals cl) false
                  (c_past cl ++ (if c_started cl then [MkInc (c_sent cl) (c_sendq cl)] else []))
  | CStop =>
    (* fluent.go:214-221: StopSending + Close on the current client.Client (everything handed to the
       stream has been delivered when Close returns); g.c stays, so later Modify calls queue on the
       stopped client's sendq.  Before the first successful Start g.c is nil: nothing happens. *)
    if c_started cl
    then MkClient (c_mode cl) (c_init cl) (c_cur cl) (c_persist cl) (c_fiback cl) (c_count cl) (c_started cl) (c_params cl) (c_elec0 cl)
                  false (c_sendq cl) (c_sent cl) (c_fatals cl) true (c_past cl)
    else cl
  | CStartSending =>
    (* client.StartSending: session parameters, then the initial election id, then the send queue.
       On a stopped client.Client (modifyCh closed by Close) the call is not part of a program: the
       client has to be Started again first. *)
    if c_started cl && negb (c_sending cl) && negb (c_stopped cl)
    then MkClient (c_mode cl) (c_init cl) (c_cur cl) (c_persist cl) (c_fiback cl) (c_count cl) (c_started cl) (c_params cl) (c_elec0 cl)
                  true [] (c_sent cl ++ handshake cl ++ c_sendq cl) (c_fatals cl) (c_stopped cl) (c_past cl)
    else cl
  | CAddEntry bs => modify st cl 1 bs
  | CReplaceEntry bs => modify st cl 2 bs
  | CDeleteEntry bs => modify st cl 3 bs
  | CUpdateElectionID lo hi =>
    if c_started cl then enqueue cl (MkReq [] None (Some (hi, lo))) (c_count cl) (Some (hi, lo)) else cl
  end.

(* ------------------------------------------------------------------ programs *)

Inductive step :=
| SNew (b : bid) (k : kind)          (* b := IPv4Entry() ... ; a name is bound once *)
| SCall (b : bid) (c : call)         (* b.With...(...) *)
| SProto (b : bid)                   (* b.OpProto(), b.EntryProto() observed *)
| SClient (c : cid) (cc : ccall).

Record state := MkState { st_store : alist bid builder; st_clients : alist cid client;
                          st_protos : list (op_msg * entry_msg) }.
Definition state0 := MkState [] [] [].

Definition cget (cs : alist cid client) (c : cid) : client :=
  match aget N.eqb c cs with Some cl => cl | None => client0 end.

Definition is_hdr (st : store) (r : bid) : bool :=
  match sget st r with Some (BMpls _) | Some (BUdp6 _) => true | _ => false end.

(* only header builders can be passed to AddEncapHeader *)
Definition norm_call (st : store) (c : call) : call :=
  match c with AddEncapHeader hs => AddEncapHeader (filter (is_hdr st) hs) | _ => c end.

Definition step_state (s : state) (x : step) : state :=
  match x with
  | SNew b k =>
    match sget (st_store s) b with
    | Some _ => s
    | None => MkState (aset N.eqb b (new_builder k) (st_store s)) (st_clients s) (st_protos s)
    end
  | SCall b c =>
    match sget (st_store s) b with
    | Some bl => MkState (aset N.eqb b (apply_call bl (norm_call (st_store s) c)) (st_store s)) (st_clients s) (st_protos s)
    | None => s
    end
  | SProto b =>
    match sget (st_store s) b with
    | Some (BE e) => MkState (st_store s) (st_clients s) (st_protos s ++ [(op_proto (st_store s) e, entry_proto (st_store s) e)])
    | _ => s
    end
  | SClient c cc =>
    MkState (st_store s) (aset N.eqb c (client_step (st_store s) (cget (st_clients s) c) cc) (st_clients s)) (st_protos s)
  end.

Definition run_from (s : state) (p : list step) : state := fold_left step_state p s.
Definition run (p : list step) : state := run_from state0 p.

(* what the CURRENT client.Client of the fluent client has queued, in queue order (the handshake
   of StartSending is put in front of the queue it flushes); after Stop, sendq grows again behind
   what was sent *)
Definition queued (cl : client) : list mreq := c_sent cl ++ c_sendq cl.
Definition cur_ops (cl : client) : list op_msg := flat_map m_ops (queued cl).

(* the same for a replaced client.Client *)
Definition inc_ops (i : incarnation) : list op_msg := flat_map m_ops (i_sent i ++ i_sendq i).

(* every client.Client the fluent client has driven, oldest first, the current one last (an empty
   one stands for "not started yet") *)
Definition incarnations (cl : client) : list incarnation := c_past cl ++ [MkInc (c_sent cl) (c_sendq cl)].

(* every operation the fluent client has queued over its whole life, restarts included, in the order
   the operations were queued *)
Definition all_ops (cl : client) : list op_msg := flat_map inc_ops (incarnations cl).

(* what reaches the Modify stream once the client is told to send (the harness ends every
   program with StartSending on each started client that is neither sending nor stopped) *)
Definition finish (cl : client) : client := client_step [] cl CStartSending.
(* the stream of the current client.Client *)
Definition stream_of (s : state) (c : cid) : list mreq := c_sent (finish (cget (st_clients s) c)).
(* all client.Clients of fluent client c, oldest first: what each one's stream received and what it
   left unsent; none before the first successful Start *)
Definition incs_of (s : state) (c : cid) : list incarnation :=
  let cl := finish (cget (st_clients s) c) in
  c_past cl ++ (if c_started cl then [MkInc (c_sent cl) (c_sendq cl)] else []).
