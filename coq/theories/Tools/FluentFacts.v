(* Proofs about the fluent model (Tools/Fluent.v) against the tables of Tools/FluentSpec.v. *)
From Coq Require Import String List NArith ZArith Bool Lia.
From GV.Base Require Import Alist U128.
From GV.Tools Require Import Fluent FluentSpec.
Import ListNotations.
Open Scope N_scope.

(* ================================================================== last_or / numbering *)

Lemma last_or_cons {A B} (f : A -> option B) d a l :
  last_or f d (a :: l) = last_or f (match f a with Some v => v | None => d end) l.
Proof. reflexivity. Qed.

Lemma last_or_app {A B} (f : A -> option B) d l1 l2 : last_or f d (l1 ++ l2) = last_or f (last_or f d l1) l2.
Proof. unfold last_or. apply fold_left_app. Qed.

(* the characterisation in words: the value of the last call the table knows, else the default *)
Lemma last_or_spec {A B} (f : A -> option B) d l :
  (forall a, In a l -> f a = None) /\ last_or f d l = d
  \/ exists l1 a l2 v, l = l1 ++ a :: l2 /\ f a = Some v /\ (forall x, In x l2 -> f x = None) /\ last_or f d l = v.
Proof.
  induction l as [|a l IH] using rev_ind.
  - left. split; [intros ? []|reflexivity].
  - rewrite last_or_app. destruct (f a) as [v|] eqn:E.
    + right. exists l, a, [], v. repeat split; auto.
      * intros ? [].
      * simpl. unfold last_or; simpl. rewrite E. reflexivity.
    + destruct IH as [[Hn Hd]|(l1 & a' & l2 & v & Hl & Hf & Hn & Hv)].
      * left. split.
        -- intros x Hx. apply in_app_or in Hx. destruct Hx as [Hx|[<-|[]]]; auto.
        -- unfold last_or at 1; simpl. rewrite E. exact Hd.
      * right. exists l1, a', (l2 ++ [a]), v. repeat split; auto.
        -- rewrite Hl. rewrite <- app_assoc. reflexivity.
        -- intros x Hx. apply in_app_or in Hx. destruct Hx as [Hx|[<-|[]]]; auto.
        -- unfold last_or at 1; simpl. rewrite E. exact Hv.
Qed.

Lemma add_hdrs_app {H} (a : list (N * H)) l1 l2 : add_hdrs (add_hdrs a l1) l2 = add_hdrs a (l1 ++ l2).
Proof. unfold add_hdrs. rewrite fold_left_app. reflexivity. Qed.

Lemma add_hdrs_numbered {H} (l : list H) (acc : list (N * H)) :
  add_hdrs acc l = acc ++ combine (map N.of_nat (seq (List.length acc + 1) (List.length l))) l.
Proof.
  revert acc. induction l as [|h t IH]; intros acc; simpl.
  - rewrite app_nil_r. reflexivity.
  - unfold add_hdrs in *. simpl. rewrite IH. rewrite <- app_assoc. simpl.
    rewrite app_length. simpl.
    replace (N.of_nat (List.length acc) + 1) with (N.of_nat (List.length acc + 1)) by lia.
    replace (List.length acc + 1 + 1)%nat with (S (List.length acc + 1)) by lia.
    reflexivity.
Qed.

Lemma add_hdrs_nil {H} (l : list H) : add_hdrs [] l = numbered l.
Proof. rewrite add_hdrs_numbered. reflexivity. Qed.

(* ================================================================== folds of the per-kind updates *)

Lemma fold_apply_ip cs m :
  fold_left apply_ip cs m
  = MkIp (last_or sets_prefix (ip_prefix m) cs) (last_or sets_nhg (ip_nhg m) cs)
         (last_or sets_nhg_ni (ip_nhg_ni m) cs) (last_or sets_meta (ip_meta m) cs).
Proof.
  revert m. induction cs as [|c cs IH]; intros m.
  - destruct m; reflexivity.
  - simpl fold_left. rewrite IH. rewrite !last_or_cons. destruct c; reflexivity.
Qed.

Lemma fold_apply_label cs m :
  fold_left apply_label cs m
  = MkLabel (last_or sets_label (lb_label m) cs) (last_or sets_nhg (lb_nhg m) cs)
            (last_or sets_nhg_ni (lb_nhg_ni m) cs) (last_or sets_popped (lb_popped m) cs).
Proof.
  revert m. induction cs as [|c cs IH]; intros m.
  - destruct m; reflexivity.
  - simpl fold_left. rewrite IH. rewrite !last_or_cons. destruct c; reflexivity.
Qed.

Lemma fold_apply_udp6 cs m :
  fold_left apply_udp6 cs m
  = MkUdp6 (last_or sets_dscp (u_dscp m) cs) (last_or sets_dst_ip (u_dst_ip m) cs) (last_or sets_dst_port (u_dst_port m) cs)
           (last_or sets_ttl (u_ttl m) cs) (last_or sets_src_ip (u_src_ip m) cs) (last_or sets_src_port (u_src_port m) cs).
Proof.
  revert m. induction cs as [|c cs IH]; intros m.
  - destruct m; reflexivity.
  - simpl fold_left. rewrite IH. rewrite !last_or_cons. destruct c; reflexivity.
Qed.

Lemma fold_apply_nhg cs m :
  fold_left apply_nhg cs m
  = MkNhg (last_or sets_id (g_id m) cs) (last_or sets_backup (g_backup m) cs) (g_nhs m ++ flat_map nhs_of cs).
Proof.
  revert m. induction cs as [|c cs IH]; intros m.
  - destruct m; simpl. rewrite app_nil_r. reflexivity.
  - simpl fold_left. rewrite IH. rewrite !last_or_cons.
    destruct c; simpl; try reflexivity. rewrite <- app_assoc. reflexivity.
Qed.

Lemma fold_apply_body cs (b : nh_body bid) :
  fold_left apply_body cs b
  = MkBody (last_or sets_nb_ip (nb_ip b) cs) (last_or sets_ifref (nb_ifref b) cs) (last_or sets_mac (nb_mac b) cs)
           (last_or sets_ipinip (nb_ipinip b) cs) (last_or sets_nb_ni (nb_ni b) cs) (last_or sets_pop (nb_pop b) cs)
           (last_or sets_pushed (nb_pushed b) cs) (add_hdrs (nb_encap b) (flat_map hdrs_of cs))
           (last_or sets_decap (nb_decap b) cs) (last_or sets_encapsulate (nb_encapsulate b) cs).
Proof.
  revert b. induction cs as [|c cs IH]; intros b.
  - destruct b; reflexivity.
  - simpl fold_left. rewrite IH. rewrite !last_or_cons.
    destruct c; simpl; try reflexivity. rewrite add_hdrs_app. reflexivity.
Qed.

Lemma apply_nh_eq s c :
  apply_nh s c = MkNhSt (match sets_index c with Some i => i | None => ns_index s end)
                        (ns_present s || touches_body c) (apply_body (ns_body s) c).
Proof. destruct s; destruct c; simpl; rewrite ?orb_false_r; reflexivity. Qed.

Lemma fold_apply_nh cs s :
  fold_left apply_nh cs s
  = MkNhSt (last_or sets_index (ns_index s) cs) (ns_present s || existsb touches_body cs) (fold_left apply_body cs (ns_body s)).
Proof.
  revert s. induction cs as [|c cs IH]; intros s.
  - destruct s; simpl. rewrite orb_false_r. reflexivity.
  - simpl fold_left. rewrite IH, apply_nh_eq, last_or_cons. cbn [ns_index ns_present ns_body existsb]. rewrite orb_assoc. reflexivity.
Qed.

Lemma fold_mpls cs ls : fold_left apply_call cs (BMpls ls) = BMpls (ls ++ flat_map labels_of cs).
Proof.
  revert ls. induction cs as [|c cs IH]; intros ls; simpl.
  - rewrite app_nil_r. reflexivity.
  - destruct c; simpl; rewrite IH; try reflexivity. rewrite <- app_assoc. reflexivity.
Qed.

Lemma fold_udp6 cs m : fold_left apply_call cs (BUdp6 m) = BUdp6 (fold_left apply_udp6 cs m).
Proof. revert m. induction cs as [|c cs IH]; intros m; simpl; [reflexivity|]. rewrite IH. reflexivity. Qed.

Lemma fold_be cs e : fold_left apply_call cs (BE e) = BE (fold_left apply_entry cs e).
Proof. revert e. induction cs as [|c cs IH]; intros e; simpl; [reflexivity|]. rewrite IH. reflexivity. Qed.

(* ---- the three components of an entry builder ---- *)

Lemma apply_pb_noop_ni pb n : apply_pb pb (WithNetworkInstance n) = pb.
Proof. destruct pb as [m|m|m|m|m]; simpl; try reflexivity. destruct m; simpl. rewrite orb_false_r. reflexivity. Qed.
Lemma apply_pb_noop_elec pb lo hi : apply_pb pb (WithElectionID lo hi) = pb.
Proof. destruct pb as [m|m|m|m|m]; simpl; try reflexivity. destruct m; simpl. rewrite orb_false_r. reflexivity. Qed.

Lemma apply_entry_pb e c : b_pb (apply_entry e c) = apply_pb (b_pb e) c.
Proof.
  destruct c; simpl; try reflexivity.
  - rewrite apply_pb_noop_ni. reflexivity.
  - rewrite apply_pb_noop_elec. destruct (has_election_method (b_pb e)); reflexivity.
Qed.
Lemma apply_entry_ni e c : b_ni (apply_entry e c) = match sets_ni c with Some n => n | None => b_ni e end.
Proof. destruct c; simpl; try reflexivity. destruct (has_election_method (b_pb e)); reflexivity. Qed.
Lemma apply_entry_elec e c :
  b_elec (apply_entry e c)
  = if has_election_method (b_pb e) then match sets_elec c with Some v => v | None => b_elec e end else b_elec e.
Proof. destruct c; simpl; destruct (has_election_method (b_pb e)); reflexivity. Qed.
Lemma has_election_apply_pb pb c : has_election_method (apply_pb pb c) = has_election_method pb.
Proof. destruct pb; reflexivity. Qed.

Lemma fold_entry_pb cs e : b_pb (fold_left apply_entry cs e) = fold_left apply_pb cs (b_pb e).
Proof. revert e. induction cs as [|c cs IH]; intros e; simpl; [reflexivity|]. rewrite IH, apply_entry_pb. reflexivity. Qed.
Lemma fold_entry_ni cs e : b_ni (fold_left apply_entry cs e) = last_or sets_ni (b_ni e) cs.
Proof. revert e. induction cs as [|c cs IH]; intros e; [reflexivity|]. cbn [fold_left]. rewrite IH, apply_entry_ni, last_or_cons. reflexivity. Qed.
Lemma fold_entry_elec cs e :
  b_elec (fold_left apply_entry cs e)
  = if has_election_method (b_pb e) then last_or sets_elec (b_elec e) cs else b_elec e.
Proof.
  revert e. induction cs as [|c cs IH]; intros e.
  - simpl. destruct (has_election_method (b_pb e)); reflexivity.
  - cbn [fold_left]. rewrite IH, apply_entry_pb, has_election_apply_pb, apply_entry_elec, last_or_cons.
    destruct (has_election_method (b_pb e)); reflexivity.
Qed.

Lemma fold_pb_ipv4 cs m : fold_left apply_pb cs (EIPv4 m) = EIPv4 (fold_left apply_ip cs m).
Proof. revert m. induction cs as [|c cs IH]; intros m; simpl; [reflexivity|]. apply IH. Qed.
Lemma fold_pb_ipv6 cs m : fold_left apply_pb cs (EIPv6 m) = EIPv6 (fold_left apply_ip cs m).
Proof. revert m. induction cs as [|c cs IH]; intros m; simpl; [reflexivity|]. apply IH. Qed.
Lemma fold_pb_label cs m : fold_left apply_pb cs (ELabel m) = ELabel (fold_left apply_label cs m).
Proof. revert m. induction cs as [|c cs IH]; intros m; simpl; [reflexivity|]. apply IH. Qed.
Lemma fold_pb_nh cs m : fold_left apply_pb cs (ENH m) = ENH (fold_left apply_nh cs m).
Proof. revert m. induction cs as [|c cs IH]; intros m; simpl; [reflexivity|]. apply IH. Qed.
Lemma fold_pb_nhg cs m : fold_left apply_pb cs (ENHG m) = ENHG (fold_left apply_nhg cs m).
Proof. revert m. induction cs as [|c cs IH]; intros m; simpl; [reflexivity|]. apply IH. Qed.

Lemma entry_b_eta e : e = MkEB (b_ni e) (b_elec e) (b_pb e).
Proof. destruct e; reflexivity. Qed.

(* ---- C18_fields_exact, builder level: after ANY list of calls a fresh builder of ANY kind is in
   the state the tables prescribe ---- *)
Theorem builder_exact k cs : fold_left apply_call cs (new_builder k) = spec_builder k cs.
Proof.
  destruct k; simpl new_builder; simpl spec_builder;
    try (rewrite fold_be; f_equal;
         rewrite (entry_b_eta (fold_left apply_entry cs _));
         rewrite fold_entry_ni, fold_entry_elec, fold_entry_pb; simpl).
  - rewrite fold_pb_ipv4, fold_apply_ip. reflexivity.
  - rewrite fold_pb_ipv6, fold_apply_ip. reflexivity.
  - rewrite fold_pb_label, fold_apply_label. reflexivity.
  - rewrite fold_pb_nh, fold_apply_nh, fold_apply_body. simpl. rewrite add_hdrs_nil. reflexivity.
  - rewrite fold_pb_nhg, fold_apply_nhg. reflexivity.
  - rewrite fold_mpls. reflexivity.
  - rewrite fold_udp6, fold_apply_udp6. reflexivity.
Qed.

(* the same for a builder in any state: the calls override / extend what it holds *)
Lemma kind_of_apply_call b c : kind_of (apply_call b c) = kind_of b.
Proof.
  destruct b as [e|ls|m]; simpl.
  - rewrite apply_entry_pb. destruct (b_pb e); reflexivity.
  - destruct c; reflexivity.
  - reflexivity.
Qed.
Lemma kind_of_new k : kind_of (new_builder k) = k.
Proof. destruct k; reflexivity. Qed.
Lemma kind_of_fold cs b : kind_of (fold_left apply_call cs b) = kind_of b.
Proof. revert b. induction cs as [|c cs IH]; intros b; simpl; [reflexivity|]. rewrite IH. apply kind_of_apply_call. Qed.
