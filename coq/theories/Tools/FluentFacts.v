(* Proofs about the fluent model (Tools/Fluent.v) against the tables of Tools/FluentSpec.v. *)
From Coq Require Import String List NArith ZArith Bool Lia Sorted.
From GV.Base Require Import Alist U128.
From GV.Tools Require Import Fluent FluentSpec.
Import ListNotations.
Open Scope N_scope.

(* ================================================================== last_or / numbering *)

Lemma last_or_cons {A B} (f : A -> option B) d a l :
  last_or f d (a :: l) = last_or f (match f a with Some v => v | None => d end) l.
Proof. reflexivity. Qed.

Lemma last_or_app {A B} (f : A -> option B) d l1 l2 : last_or f d (l1 ++ l2) = last_or f (last_or f d l1) l2.
Proof. unfold last_or. apply fold_left_app. Qed.

(* the characterisation in words: the value of the last call the table knows, else the default *)
Lemma last_or_spec {A B} (f : A -> option B) d l :
  (forall a, In a l -> f a = None) /\ last_or f d l = d
  \/ exists l1 a l2 v, l = l1 ++ a :: l2 /\ f a = Some v /\ (forall x, In x l2 -> f x = None) /\ last_or f d l = v.
Proof.
  induction l as [|a l IH] using rev_ind.
  - left. split; [intros ? []|reflexivity].
  - rewrite last_or_app. destruct (f a) as [v|] eqn:E.
    + right. exists l, a, [], v. repeat split; auto.
      * intros ? [].
      * simpl. unfold last_or; simpl. rewrite E. reflexivity.
    + destruct IH as [[Hn Hd]|(l1 & a' & l2 & v & Hl & Hf & Hn & Hv)].
      * left. split.
        -- intros x Hx. apply in_app_or in Hx. destruct Hx as [Hx|[<-|[]]]; auto.
        -- unfold last_or at 1; simpl. rewrite E. exact Hd.
      * right. exists l1, a', (l2 ++ [a]), v. repeat split; auto.
        -- rewrite Hl. rewrite <- app_assoc. reflexivity.
        -- intros x Hx. apply in_app_or in Hx. destruct Hx as [Hx|[<-|[]]]; auto.
        -- unfold last_or at 1; simpl. rewrite E. exact Hv.
Qed.

Lemma add_hdrs_app {H} (a : list (N * H)) l1 l2 : add_hdrs (add_hdrs a l1) l2 = add_hdrs a (l1 ++ l2).
Proof. unfold add_hdrs. rewrite fold_left_app. reflexivity. Qed.

Lemma add_hdrs_numbered {H} (l : list H) (acc : list (N * H)) :
  add_hdrs acc l = acc ++ combine (map N.of_nat (seq (List.length acc + 1) (List.length l))) l.
Proof.
  revert acc. induction l as [|h t IH]; intros acc; simpl.
  - rewrite app_nil_r. reflexivity.
  - unfold add_hdrs in *. simpl. rewrite IH. rewrite <- app_assoc. simpl.
    rewrite app_length. simpl.
    replace (N.of_nat (List.length acc) + 1) with (N.of_nat (List.length acc + 1)) by lia.
    replace (List.length acc + 1 + 1)%nat with (S (List.length acc + 1)) by lia.
    reflexivity.
Qed.

Lemma add_hdrs_nil {H} (l : list H) : add_hdrs [] l = numbered l.
Proof. rewrite add_hdrs_numbered. reflexivity. Qed.

(* ================================================================== folds of the per-kind updates *)

Lemma fold_apply_ip cs m :
  fold_left apply_ip cs m
  = MkIp (last_or sets_prefix (ip_prefix m) cs) (last_or sets_nhg (ip_nhg m) cs)
         (last_or sets_nhg_ni (ip_nhg_ni m) cs) (last_or sets_meta (ip_meta m) cs).
Proof.
  revert m. induction cs as [|c cs IH]; intros m.
  - destruct m; reflexivity.
  - simpl fold_left. rewrite IH. rewrite !last_or_cons. destruct c; reflexivity.
Qed.

Lemma fold_apply_label cs m :
  fold_left apply_label cs m
  = MkLabel (last_or sets_label (lb_label m) cs) (last_or sets_nhg (lb_nhg m) cs)
            (last_or sets_nhg_ni (lb_nhg_ni m) cs) (last_or sets_popped (lb_popped m) cs).
Proof.
  revert m. induction cs as [|c cs IH]; intros m.
  - destruct m; reflexivity.
  - simpl fold_left. rewrite IH. rewrite !last_or_cons. destruct c; reflexivity.
Qed.

Lemma fold_apply_udp6 cs m :
  fold_left apply_udp6 cs m
  = MkUdp6 (last_or sets_dscp (u_dscp m) cs) (last_or sets_dst_ip (u_dst_ip m) cs) (last_or sets_dst_port (u_dst_port m) cs)
           (last_or sets_ttl (u_ttl m) cs) (last_or sets_src_ip (u_src_ip m) cs) (last_or sets_src_port (u_src_port m) cs).
Proof.
  revert m. induction cs as [|c cs IH]; intros m.
  - destruct m; reflexivity.
  - simpl fold_left. rewrite IH. rewrite !last_or_cons. destruct c; reflexivity.
Qed.

Lemma fold_apply_nhg cs m :
  fold_left apply_nhg cs m
  = MkNhg (last_or sets_id (g_id m) cs) (last_or sets_backup (g_backup m) cs) (g_nhs m ++ flat_map nhs_of cs).
Proof.
  revert m. induction cs as [|c cs IH]; intros m.
  - destruct m; simpl. rewrite app_nil_r. reflexivity.
  - simpl fold_left. rewrite IH. rewrite !last_or_cons.
    destruct c; simpl; try reflexivity. rewrite <- app_assoc. reflexivity.
Qed.

Lemma fold_apply_body cs (b : nh_body bid) :
  fold_left apply_body cs b
  = MkBody (last_or sets_nb_ip (nb_ip b) cs) (last_or sets_ifref (nb_ifref b) cs) (last_or sets_mac (nb_mac b) cs)
           (last_or sets_ipinip (nb_ipinip b) cs) (last_or sets_nb_ni (nb_ni b) cs) (last_or sets_pop (nb_pop b) cs)
           (last_or sets_pushed (nb_pushed b) cs) (add_hdrs (nb_encap b) (flat_map hdrs_of cs))
           (last_or sets_decap (nb_decap b) cs) (last_or sets_encapsulate (nb_encapsulate b) cs).
Proof.
  revert b. induction cs as [|c cs IH]; intros b.
  - destruct b; reflexivity.
  - simpl fold_left. rewrite IH. rewrite !last_or_cons.
    destruct c; simpl; try reflexivity. rewrite add_hdrs_app. reflexivity.
Qed.

Lemma apply_nh_eq s c :
  apply_nh s c = MkNhSt (match sets_index c with Some i => i | None => ns_index s end)
                        (ns_present s || touches_body c) (apply_body (ns_body s) c).
Proof. destruct s; destruct c; simpl; rewrite ?orb_false_r; reflexivity. Qed.

Lemma fold_apply_nh cs s :
  fold_left apply_nh cs s
  = MkNhSt (last_or sets_index (ns_index s) cs) (ns_present s || existsb touches_body cs) (fold_left apply_body cs (ns_body s)).
Proof.
  revert s. induction cs as [|c cs IH]; intros s.
  - destruct s; simpl. rewrite orb_false_r. reflexivity.
  - simpl fold_left. rewrite IH, apply_nh_eq, last_or_cons. cbn [ns_index ns_present ns_body existsb]. rewrite orb_assoc. reflexivity.
Qed.

Lemma fold_mpls cs ls : fold_left apply_call cs (BMpls ls) = BMpls (ls ++ flat_map labels_of cs).
Proof.
  revert ls. induction cs as [|c cs IH]; intros ls; simpl.
  - rewrite app_nil_r. reflexivity.
  - destruct c; simpl; rewrite IH; try reflexivity. rewrite <- app_assoc. reflexivity.
Qed.

Lemma fold_udp6 cs m : fold_left apply_call cs (BUdp6 m) = BUdp6 (fold_left apply_udp6 cs m).
Proof. revert m. induction cs as [|c cs IH]; intros m; simpl; [reflexivity|]. rewrite IH. reflexivity. Qed.

Lemma fold_be cs e : fold_left apply_call cs (BE e) = BE (fold_left apply_entry cs e).
Proof. revert e. induction cs as [|c cs IH]; intros e; simpl; [reflexivity|]. rewrite IH. reflexivity. Qed.

(* ---- the three components of an entry builder ---- *)

Lemma apply_pb_noop_ni pb n : apply_pb pb (WithNetworkInstance n) = pb.
Proof. destruct pb as [m|m|m|m|m]; simpl; try reflexivity. destruct m; simpl. rewrite orb_false_r. reflexivity. Qed.
Lemma apply_pb_noop_elec pb lo hi : apply_pb pb (WithElectionID lo hi) = pb.
Proof. destruct pb as [m|m|m|m|m]; simpl; try reflexivity. destruct m; simpl. rewrite orb_false_r. reflexivity. Qed.

Lemma apply_entry_pb e c : b_pb (apply_entry e c) = apply_pb (b_pb e) c.
Proof.
  destruct c; simpl; try reflexivity.
  - rewrite apply_pb_noop_ni. reflexivity.
  - rewrite apply_pb_noop_elec. destruct (has_election_method (b_pb e)); reflexivity.
Qed.
Lemma apply_entry_ni e c : b_ni (apply_entry e c) = match sets_ni c with Some n => n | None => b_ni e end.
Proof. destruct c; simpl; try reflexivity. destruct (has_election_method (b_pb e)); reflexivity. Qed.
Lemma apply_entry_elec e c :
  b_elec (apply_entry e c)
  = if has_election_method (b_pb e) then match sets_elec c with Some v => v | None => b_elec e end else b_elec e.
Proof. destruct c; simpl; destruct (has_election_method (b_pb e)); reflexivity. Qed.
Lemma has_election_apply_pb pb c : has_election_method (apply_pb pb c) = has_election_method pb.
Proof. destruct pb; reflexivity. Qed.

Lemma fold_entry_pb cs e : b_pb (fold_left apply_entry cs e) = fold_left apply_pb cs (b_pb e).
Proof. revert e. induction cs as [|c cs IH]; intros e; simpl; [reflexivity|]. rewrite IH, apply_entry_pb. reflexivity. Qed.
Lemma fold_entry_ni cs e : b_ni (fold_left apply_entry cs e) = last_or sets_ni (b_ni e) cs.
Proof. revert e. induction cs as [|c cs IH]; intros e; [reflexivity|]. cbn [fold_left]. rewrite IH, apply_entry_ni, last_or_cons. reflexivity. Qed.
Lemma fold_entry_elec cs e :
  b_elec (fold_left apply_entry cs e)
  = if has_election_method (b_pb e) then last_or sets_elec (b_elec e) cs else b_elec e.
Proof.
  revert e. induction cs as [|c cs IH]; intros e.
  - simpl. destruct (has_election_method (b_pb e)); reflexivity.
  - cbn [fold_left]. rewrite IH, apply_entry_pb, has_election_apply_pb, apply_entry_elec, last_or_cons.
    destruct (has_election_method (b_pb e)); reflexivity.
Qed.

Lemma fold_pb_ipv4 cs m : fold_left apply_pb cs (EIPv4 m) = EIPv4 (fold_left apply_ip cs m).
Proof. revert m. induction cs as [|c cs IH]; intros m; simpl; [reflexivity|]. apply IH. Qed.
Lemma fold_pb_ipv6 cs m : fold_left apply_pb cs (EIPv6 m) = EIPv6 (fold_left apply_ip cs m).
Proof. revert m. induction cs as [|c cs IH]; intros m; simpl; [reflexivity|]. apply IH. Qed.
Lemma fold_pb_label cs m : fold_left apply_pb cs (ELabel m) = ELabel (fold_left apply_label cs m).
Proof. revert m. induction cs as [|c cs IH]; intros m; simpl; [reflexivity|]. apply IH. Qed.
Lemma fold_pb_nh cs m : fold_left apply_pb cs (ENH m) = ENH (fold_left apply_nh cs m).
Proof. revert m. induction cs as [|c cs IH]; intros m; simpl; [reflexivity|]. apply IH. Qed.
Lemma fold_pb_nhg cs m : fold_left apply_pb cs (ENHG m) = ENHG (fold_left apply_nhg cs m).
Proof. revert m. induction cs as [|c cs IH]; intros m; simpl; [reflexivity|]. apply IH. Qed.

Lemma entry_b_eta e : e = MkEB (b_ni e) (b_elec e) (b_pb e).
Proof. destruct e; reflexivity. Qed.

(* ---- C18_fields_exact, builder level: after ANY list of calls a fresh builder of ANY kind is in
   the state the tables prescribe ---- *)
Theorem builder_exact k cs : fold_left apply_call cs (new_builder k) = spec_builder k cs.
Proof.
  destruct k; simpl new_builder; simpl spec_builder;
    try (rewrite fold_be; f_equal;
         rewrite (entry_b_eta (fold_left apply_entry cs _));
         rewrite fold_entry_ni, fold_entry_elec, fold_entry_pb; simpl).
  - rewrite fold_pb_ipv4, fold_apply_ip. reflexivity.
  - rewrite fold_pb_ipv6, fold_apply_ip. reflexivity.
  - rewrite fold_pb_label, fold_apply_label. reflexivity.
  - rewrite fold_pb_nh, fold_apply_nh, fold_apply_body. simpl. rewrite add_hdrs_nil. reflexivity.
  - rewrite fold_pb_nhg, fold_apply_nhg. reflexivity.
  - rewrite fold_mpls. reflexivity.
  - rewrite fold_udp6, fold_apply_udp6. reflexivity.
Qed.

(* the same for a builder in any state: the calls override / extend what it holds *)
Lemma kind_of_apply_call b c : kind_of (apply_call b c) = kind_of b.
Proof.
  destruct b as [e|ls|m]; simpl.
  - rewrite apply_entry_pb. destruct (b_pb e); reflexivity.
  - destruct c; reflexivity.
  - reflexivity.
Qed.
Lemma kind_of_new k : kind_of (new_builder k) = k.
Proof. destruct k; reflexivity. Qed.
Lemma kind_of_fold cs b : kind_of (fold_left apply_call cs b) = kind_of b.
Proof. revert b. induction cs as [|c cs IH]; intros b; simpl; [reflexivity|]. rewrite IH. apply kind_of_apply_call. Qed.

(* ================================================================== the builder store *)

(* env records the kinds of the builders of st *)
Definition agree (env : alist bid kind) (st : alist bid builder) : Prop :=
  forall x, aget N.eqb x env = option_map kind_of (sget st x).

Lemma sget_aset_same (st : alist bid builder) b v : sget (aset N.eqb b v st) b = Some v.
Proof. unfold sget. apply (aget_aset_same N.eqb N.eqb_spec). Qed.
Lemma sget_aset_other (st : alist bid builder) b b' v : b <> b' -> sget (aset N.eqb b' v st) b = sget st b.
Proof. unfold sget. apply (aget_aset_other N.eqb N.eqb_spec). Qed.

Lemma is_hdr_agree env st r : agree env st ->
  is_hdr st r = match aget N.eqb r env with Some k => is_hdr_kind k | None => false end.
Proof.
  intros H. unfold is_hdr. rewrite (H r). destruct (sget st r) as [[e|ls|m]|]; simpl; try reflexivity.
  destruct (b_pb e); reflexivity.
Qed.
Lemma norm_agree env st c : agree env st -> norm_call st c = norm_k env c.
Proof. intros H. destruct c; simpl; try reflexivity. f_equal. apply filter_ext. intros r. apply is_hdr_agree; auto. Qed.

Lemma agree_set_same_kind env st b bl bl' :
  agree env st -> sget st b = Some bl -> kind_of bl' = kind_of bl -> agree env (aset N.eqb b bl' st).
Proof.
  intros H Hb Hk x. destruct (N.eq_dec x b) as [->|Hne].
  - rewrite sget_aset_same. simpl. rewrite Hk. rewrite (H b), Hb. reflexivity.
  - rewrite sget_aset_other by auto. apply H.
Qed.
Lemma agree_new env st b k :
  agree env st -> agree (aset N.eqb b k env) (aset N.eqb b (new_builder k) st).
Proof.
  intros H x. destruct (N.eq_dec x b) as [->|Hne].
  - rewrite sget_aset_same, (aget_aset_same N.eqb N.eqb_spec). simpl. rewrite kind_of_new. reflexivity.
  - rewrite sget_aset_other by auto. rewrite (aget_aset_other N.eqb N.eqb_spec) by auto. apply H.
Qed.

Lemma kinds_from_keeps p : forall env b k, aget N.eqb b env = Some k -> aget N.eqb b (kinds_from env p) = Some k.
Proof.
  induction p as [|x p IH]; intros env b k H; simpl; auto.
  destruct x as [y ky|y cy|y|y cy]; auto. apply IH. unfold declare.
  destruct (aget N.eqb y env) eqn:E; auto.
  destruct (N.eq_dec b y) as [->|Hne]; [congruence|].
  rewrite (aget_aset_other N.eqb N.eqb_spec); auto.
Qed.

(* builders do not interfere: what the store holds for b is the fold of the calls made on b *)
Lemma store_run_from p : forall s env b, agree env (st_store s) ->
  sget (st_store (run_from s p)) b =
    match sget (st_store s) b with
    | Some bl => Some (fold_left apply_call (calls_from env b p) bl)
    | None => match aget N.eqb b (kinds_from env p) with
              | Some k => Some (fold_left apply_call (calls_from env b p) (new_builder k))
              | None => None
              end
    end.
Proof.
  induction p as [|x p IH]; intros s env b Hag.
  - simpl. destruct (sget (st_store s) b) eqn:E; [reflexivity|]. rewrite (Hag b), E. reflexivity.
  - unfold run_from in *. simpl fold_left.
    destruct x as [y k|y c|y|y cc]; simpl calls_from; simpl kinds_from.
    + (* SNew *)
      simpl step_state. destruct (sget (st_store s) y) as [bl|] eqn:Ey.
      * assert (Hd : declare env y k = env). { unfold declare. rewrite (Hag y), Ey. reflexivity. }
        rewrite Hd. apply IH; auto.
      * assert (Hd : declare env y k = aset N.eqb y k env). { unfold declare. rewrite (Hag y), Ey. reflexivity. }
        rewrite Hd. rewrite (IH _ (aset N.eqb y k env) b) by (simpl; apply agree_new; auto).
        simpl st_store. destruct (N.eq_dec b y) as [->|Hne].
        -- rewrite sget_aset_same, Ey.
           rewrite (kinds_from_keeps p _ y k) by apply (aget_aset_same N.eqb N.eqb_spec). reflexivity.
        -- rewrite sget_aset_other by auto. reflexivity.
    + (* SCall *)
      simpl step_state. destruct (sget (st_store s) y) as [bl|] eqn:Ey.
      * rewrite (IH _ env b) by (simpl; eapply agree_set_same_kind; eauto using kind_of_apply_call).
        simpl st_store.
        assert (Hm : amem N.eqb y env = true). { unfold amem. rewrite (Hag y), Ey. reflexivity. }
        rewrite Hm, andb_true_r. destruct (N.eqb_spec y b) as [->|Hne].
        -- rewrite sget_aset_same, Ey. simpl. rewrite (norm_agree env) by auto. reflexivity.
        -- rewrite sget_aset_other by auto. simpl. reflexivity.
      * assert (Hm : amem N.eqb y env = false). { unfold amem. rewrite (Hag y), Ey. reflexivity. }
        rewrite Hm, andb_false_r. simpl. apply IH; auto.
    + (* SProto *)
      simpl step_state. destruct (sget (st_store s) y) as [[e|ls|m]|];
        match goal with |- sget (st_store (fold_left step_state p ?s')) _ = _ => exact (IH s' env b Hag) end.
    + (* SClient *)
      match goal with |- sget (st_store (fold_left step_state p ?s')) _ = _ => exact (IH s' env b Hag) end.
Qed.

(* C18_fields_exact, program level: the state of every builder after ANY program is the one the
   tables prescribe for the calls the program made on it *)
Theorem store_exact p b : sget (st_store (run p)) b = spec_store p b.
Proof.
  unfold run, spec_store, kinds, calls_on.
  rewrite (store_run_from p state0 [] b) by (intros x; reflexivity).
  simpl. destruct (aget N.eqb b (kinds_from [] p)); [|reflexivity].
  rewrite builder_exact. reflexivity.
Qed.

Corollary resolve_exact p r :
  resolve (st_store (run p)) r = match spec_store p r with Some h => encap_proto h | None => encap0 end.
Proof. unfold resolve. rewrite store_exact. reflexivity. Qed.

Lemma payload_exact p pb : payload_of (st_store (run p)) pb = payload_with (spec_resolve p) pb.
Proof.
  unfold payload_of. destruct pb as [m|m|m|m|m]; simpl; try reflexivity.
  destruct (ns_present m); [|reflexivity]. unfold body_with. do 4 f_equal.
  apply map_ext. intros [i r]. simpl. rewrite resolve_exact. reflexivity.
Qed.

(* ================================================================== one client *)

(* the send queue is empty while sending, and there are no queues before the first Start *)
Definition inv1 (cl : client) : Prop :=
  (c_sending cl = true -> c_sendq cl = []) /\ (c_started cl = false -> c_sent cl = [] /\ c_sendq cl = []).

Lemma handshake_ops cl : flat_map m_ops (handshake cl) = [].
Proof. unfold handshake. destruct (c_params cl), (c_elec0 cl); reflexivity. Qed.

(* lifetime operations = those of the replaced client.Clients, then those of the current one *)
Lemma all_ops_eq cl : all_ops cl = flat_map inc_ops (c_past cl) ++ cur_ops cl.
Proof. unfold all_ops, incarnations. rewrite flat_map_app. simpl. rewrite app_nil_r. reflexivity. Qed.

Lemma cur_ops_enqueue cl m n cur : inv1 cl -> cur_ops (enqueue cl m n cur) = cur_ops cl ++ m_ops m.
Proof.
  intros [H _]. unfold cur_ops, queued, enqueue. destruct (c_sending cl) eqn:E; simpl.
  - rewrite (H eq_refl). rewrite !app_nil_r. rewrite flat_map_app. simpl. rewrite app_nil_r. reflexivity.
  - rewrite app_assoc. rewrite flat_map_app. simpl. rewrite app_nil_r. reflexivity.
Qed.

Lemma past_enqueue cl m n cur : c_past (enqueue cl m n cur) = c_past cl.
Proof. unfold enqueue. destruct (c_sending cl); reflexivity. Qed.

Lemma all_ops_enqueue cl m n cur : inv1 cl -> all_ops (enqueue cl m n cur) = all_ops cl ++ m_ops m.
Proof. intros H. rewrite !all_ops_eq, past_enqueue, cur_ops_enqueue by auto. rewrite app_assoc. reflexivity. Qed.

Lemma nseq_length a n : List.length (nseq a n) = n.
Proof. revert a. induction n; intros a; simpl; auto. Qed.
Lemma nseq_app a n m : nseq a (n + m) = nseq a n ++ nseq (a + N.of_nat n) m.
Proof.
  revert a. induction n; intros a; simpl.
  - f_equal. lia.
  - f_equal. rewrite IHn. f_equal. f_equal. lia.
Qed.
Lemma map_fst_combine_nseq {B} a (l : list B) : map fst (combine (nseq a (List.length l)) l) = nseq a (List.length l).
Proof. revert a. induction l; intros a0; simpl; auto. f_equal. apply IHl. Qed.

Lemma mk_ops_eq st k mode cur es : forall count,
  mk_ops st k mode cur count es
  = map (fun ie => MkOp (fst ie) (b_ni (snd ie)) k (stamp mode cur (b_elec (snd ie))) (payload_of st (b_pb (snd ie))))
        (combine (nseq (count + 1) (List.length es)) es).
Proof. induction es as [|e es IH]; intros count; simpl; auto. f_equal. apply IH. Qed.

Lemma ops_of_call_modify st cl k bs cc : opk_of cc = Some (k, bs) -> c_started cl = true ->
  ops_of_call st cl cc = mk_ops st k (c_mode cl) (c_cur cl) (c_count cl) (entries st bs).
Proof. intros H1 H2. unfold ops_of_call. rewrite H1, H2. rewrite mk_ops_eq. reflexivity. Qed.

Lemma ops_of_call_length st cl cc k bs : opk_of cc = Some (k, bs) -> c_started cl = true ->
  List.length (ops_of_call st cl cc) = List.length (entries st bs).
Proof.
  intros H1 H2. unfold ops_of_call. rewrite H1, H2. rewrite map_length, combine_length, nseq_length. apply Nat.min_id.
Qed.

(* a call that is not AddEntry / ReplaceEntry / DeleteEntry prescribes no operation *)
Lemma ops_of_call_none st cl cc : opk_of cc = None -> ops_of_call st cl cc = [].
Proof. intros H. unfold ops_of_call. rewrite H. reflexivity. Qed.

Lemma modify_ops st cl k bs cc : opk_of cc = Some (k, bs) -> inv1 cl ->
  all_ops (modify st cl k bs) = all_ops cl ++ ops_of_call st cl cc.
Proof.
  intros Hk Hi. unfold modify. destruct (c_started cl) eqn:Es.
  - rewrite all_ops_enqueue by auto. simpl. rewrite (ops_of_call_modify st cl k bs cc) by auto. reflexivity.
  - unfold ops_of_call. rewrite Hk, Es. rewrite app_nil_r. reflexivity.
Qed.

(* Start: the operations of the replaced client.Client move to the past, none is lost or added *)
Lemma start_ops st cl : inv1 cl -> all_ops (client_step st cl CStart) = all_ops cl.
Proof.
  intros [_ H0]. simpl client_step.
  destruct ((c_mode cl =? 2) && _); [reflexivity|].
  unfold all_ops, incarnations. simpl. destruct (c_started cl) eqn:Es.
  - rewrite !flat_map_app. simpl. rewrite !app_nil_r. reflexivity.
  - destruct (H0 eq_refl) as [-> ->]. rewrite !app_nil_r. rewrite !flat_map_app. reflexivity.
Qed.

(* what a client call adds to the operations queued over the client's life *)
Lemma client_step_ops st cl cc : inv1 cl -> all_ops (client_step st cl cc) = all_ops cl ++ ops_of_call st cl cc.
Proof.
  intros Hi. destruct cc;
    try (simpl client_step; unfold all_ops, incarnations, ops_of_call; simpl; rewrite app_nil_r; reflexivity);
    try (simpl client_step; apply modify_ops; auto; reflexivity).
  - (* Start *)
    rewrite start_ops by auto. unfold ops_of_call; simpl. rewrite app_nil_r. reflexivity.
  - (* Stop *)
    simpl client_step. unfold ops_of_call; simpl. rewrite app_nil_r. destruct (c_started cl); reflexivity.
  - (* StartSending *)
    simpl client_step. unfold ops_of_call; simpl. rewrite app_nil_r.
    destruct (c_started cl && negb (c_sending cl) && negb (c_stopped cl)); [|reflexivity].
    rewrite !all_ops_eq. simpl c_past. f_equal.
    unfold cur_ops, queued. simpl. rewrite !app_nil_r.
    rewrite !flat_map_app, handshake_ops. reflexivity.
  - (* UpdateElectionID *)
    simpl client_step. unfold ops_of_call; simpl. rewrite app_nil_r.
    destruct (c_started cl); [|reflexivity]. rewrite all_ops_enqueue by auto. simpl. rewrite app_nil_r. reflexivity.
Qed.

Lemma inv1_enqueue cl m n cur : c_started cl = true -> inv1 cl -> inv1 (enqueue cl m n cur).
Proof.
  unfold inv1, enqueue. intros Hs [H _]. destruct (c_sending cl) eqn:E; simpl; split; intros H'; try congruence; auto.
Qed.

Lemma client_step_inv1 st cl cc : inv1 cl -> inv1 (client_step st cl cc).
Proof.
  intros Hi. destruct cc; simpl client_step; try exact Hi;
    try (unfold modify; destruct (c_started cl) eqn:Es; [apply inv1_enqueue; auto|]; exact Hi).
  - (* Start *)
    destruct ((c_mode cl =? 2) && _); [exact Hi|]. split; simpl; [reflexivity|discriminate].
  - (* Stop *)
    destruct (c_started cl) eqn:Es; [|exact Hi]. split; simpl; [discriminate|congruence].
  - (* StartSending *)
    destruct (c_started cl) eqn:Es; simpl; [|exact Hi].
    destruct (negb (c_sending cl) && negb (c_stopped cl)); [|exact Hi]. split; simpl; [reflexivity|congruence].
Qed.

Lemma client_step_count st cl cc :
  c_count (client_step st cl cc) = c_count cl + N.of_nat (List.length (ops_of_call st cl cc)).
Proof.
  assert (Hm : forall k bs cc', opk_of cc' = Some (k, bs) ->
                c_count (modify st cl k bs) = c_count cl + N.of_nat (List.length (ops_of_call st cl cc'))).
  { intros k bs cc' Hk. unfold modify. destruct (c_started cl) eqn:Es.
    - rewrite (ops_of_call_length st cl cc' k bs) by auto. unfold enqueue. destruct (c_sending cl); reflexivity.
    - unfold ops_of_call. rewrite Hk, Es. simpl. lia. }
  destruct cc; simpl client_step; try (apply Hm; reflexivity);
    try (unfold ops_of_call; simpl; lia).
  - unfold ops_of_call; simpl. destruct ((c_mode cl =? 2) && _); simpl; lia.
  - unfold ops_of_call; simpl. destruct (c_started cl); simpl; lia.
  - unfold ops_of_call; simpl. destruct (c_started cl && negb (c_sending cl) && negb (c_stopped cl)); simpl; lia.
  - unfold ops_of_call; simpl. destruct (c_started cl); [|lia]. unfold enqueue. destruct (c_sending cl); simpl; lia.
Qed.

Lemma ops_of_call_ids st cl cc :
  map o_id (ops_of_call st cl cc) = nseq (c_count cl + 1) (List.length (ops_of_call st cl cc)).
Proof.
  unfold ops_of_call. destruct (opk_of cc) as [[k bs]|]; [|reflexivity].
  destruct (c_started cl); [|reflexivity].
  rewrite map_length, combine_length, nseq_length, Nat.min_id.
  rewrite map_map. simpl. rewrite <- (map_fst_combine_nseq (c_count cl + 1) (entries st bs)) at 2.
  reflexivity.
Qed.

(* the invariant behind C18_ids: over the whole life of the fluent client, restarts included *)
Definition cinv (cl : client) : Prop :=
  inv1 cl /\ c_count cl = N.of_nat (List.length (all_ops cl))
  /\ map o_id (all_ops cl) = nseq 1 (List.length (all_ops cl)).

Lemma cinv0 : cinv client0.
Proof. repeat split. Qed.

Lemma client_step_cinv st cl cc : cinv cl -> cinv (client_step st cl cc).
Proof.
  intros (Hi & Hc & Hids). split; [apply client_step_inv1; auto|].
  rewrite client_step_ops by auto. rewrite app_length. split.
  - rewrite client_step_count. lia.
  - rewrite map_app, Hids, ops_of_call_ids, nseq_app. f_equal. f_equal. lia.
Qed.

(* ---- the lifecycle calls ---- *)

(* the replaced client.Clients are never touched again: c_past only grows at its end *)
Lemma client_step_past st cl cc : exists l, c_past (client_step st cl cc) = c_past cl ++ l.
Proof.
  destruct cc; simpl client_step;
    try (exists []; rewrite app_nil_r; reflexivity);
    try (unfold modify; destruct (c_started cl); [rewrite past_enqueue|]; exists []; rewrite app_nil_r; reflexivity).
  - destruct ((c_mode cl =? 2) && _); [exists []; rewrite app_nil_r; reflexivity|]. eexists. reflexivity.
  - destruct (c_started cl); exists []; rewrite app_nil_r; reflexivity.
  - destruct (c_started cl && negb (c_sending cl) && negb (c_stopped cl)); exists []; rewrite app_nil_r; reflexivity.
Qed.

(* Start keeps what belongs to the fluent client: connection settings, opCount, currentElectionID *)
Lemma start_keeps st cl :
  let cl' := client_step st cl CStart in
  c_count cl' = c_count cl /\ c_cur cl' = c_cur cl /\ c_mode cl' = c_mode cl /\ c_init cl' = c_init cl
  /\ c_persist cl' = c_persist cl /\ c_fiback cl' = c_fiback cl.
Proof. simpl. destruct ((c_mode cl =? 2) && _); repeat split. Qed.

(* a Start that passes the election-id check yields a fresh client.Client *)
Lemma start_fresh st cl :
  (c_mode cl =? 2) && (match c_init cl with None => true | Some _ => false end) = false ->
  let cl' := client_step st cl CStart in
  c_started cl' = true /\ c_sending cl' = false /\ c_stopped cl' = false /\ queued cl' = [] /\ c_fatals cl' = c_fatals cl
  /\ c_params cl' = start_params cl /\ c_elec0 cl' = (if c_mode cl =? 2 then c_init cl else None)
  /\ c_past cl' = c_past cl ++ (if c_started cl then [MkInc (c_sent cl) (c_sendq cl)] else []).
Proof. intros H. simpl. rewrite H. repeat split. Qed.

(* a Start that fails it changes nothing but the count of fatal errors *)
Lemma start_fatal st cl :
  (c_mode cl =? 2) && (match c_init cl with None => true | Some _ => false end) = true ->
  let cl' := client_step st cl CStart in
  c_fatals cl' = c_fatals cl + 1 /\ c_started cl' = c_started cl /\ c_sending cl' = c_sending cl /\ c_stopped cl' = c_stopped cl
  /\ c_sent cl' = c_sent cl /\ c_sendq cl' = c_sendq cl /\ c_past cl' = c_past cl.
Proof. intros H. simpl. rewrite H. repeat split. Qed.

(* Stop keeps everything but the sending / stopped flags of the current client.Client *)
Lemma stop_keeps st cl :
  let cl' := client_step st cl CStop in
  c_count cl' = c_count cl /\ c_cur cl' = c_cur cl /\ c_mode cl' = c_mode cl /\ c_init cl' = c_init cl
  /\ c_started cl' = c_started cl /\ c_sent cl' = c_sent cl /\ c_sendq cl' = c_sendq cl /\ c_past cl' = c_past cl
  /\ (c_started cl = true -> c_sending cl' = false /\ c_stopped cl' = true).
Proof. simpl. destruct (c_started cl) eqn:E; simpl; repeat split; auto; discriminate. Qed.

(* ---- strictly increasing sequences ---- *)

Lemma nseq_lower a n x : In x (nseq a n) -> a <= x.
Proof. revert a. induction n; intros a; simpl; [intros []|]. intros [<-|H]; [lia|]. apply IHn in H. lia. Qed.

Lemma nseq_sorted a n : StronglySorted N.lt (nseq a n).
Proof.
  revert a. induction n; intros a; simpl; constructor; auto.
  apply Forall_forall. intros x Hx. apply nseq_lower in Hx. lia.
Qed.

Lemma sorted_lt_nodup l : StronglySorted N.lt l -> NoDup l.
Proof.
  induction 1 as [|a l Hs IH Hf]; constructor; auto.
  intros Hin. rewrite Forall_forall in Hf. specialize (Hf a Hin). lia.
Qed.

Lemma sorted_app_lt (l1 l2 : list N) : StronglySorted N.lt (l1 ++ l2) -> forall x y, In x l1 -> In y l2 -> x < y.
Proof.
  induction l1 as [|a l1 IH]; simpl; intros Hs x y Hx Hy; [contradiction|].
  inversion Hs as [|? ? Hs' Hf]; subst. destruct Hx as [<-|Hx].
  - rewrite Forall_forall in Hf. apply Hf. apply in_or_app. auto.
  - eapply IH; eauto.
Qed.

Lemma sorted_app_r (l1 l2 : list N) : StronglySorted N.lt (l1 ++ l2) -> StronglySorted N.lt l2.
Proof. induction l1 as [|a l1 IH]; simpl; auto. intros Hs. inversion Hs; subst. auto. Qed.

(* ================================================================== clients in a program *)

Lemma run_snoc p x : run (p ++ [x]) = step_state (run p) x.
Proof. unfold run, run_from. rewrite fold_left_app. reflexivity. Qed.

Lemma cget_step_same s c cc :
  cget (st_clients (step_state s (SClient c cc))) c = client_step (st_store s) (cget (st_clients s) c) cc.
Proof. simpl. unfold cget at 1. rewrite (aget_aset_same N.eqb N.eqb_spec). reflexivity. Qed.

Lemma cget_step_other s x c : (forall cc, x <> SClient c cc) -> cget (st_clients (step_state s x)) c = cget (st_clients s) c.
Proof.
  destruct x as [y k|y cl|y|y cc]; intros H; simpl;
    try (destruct (sget (st_store s) y) as [[?|?|?]|]; reflexivity).
  unfold cget. rewrite (aget_aset_other N.eqb N.eqb_spec); [reflexivity|].
  intros ->. apply (H cc). reflexivity.
Qed.

Lemma store_step_client s c cc : st_store (step_state s (SClient c cc)) = st_store s.
Proof. reflexivity. Qed.

Theorem all_cinv p c : cinv (cget (st_clients (run p)) c).
Proof.
  induction p as [|x p IH] using rev_ind.
  - apply cinv0.
  - rewrite run_snoc. destruct x as [y k|y cl|y|y cc];
      try (rewrite cget_step_other by (intros ? ?; discriminate); exact IH).
    destruct (N.eq_dec y c) as [->|Hne].
    + rewrite cget_step_same. apply client_step_cinv. exact IH.
    + rewrite cget_step_other; [exact IH|]. intros cc' E. inversion E. congruence.
Qed.

(* C18_ids *)
Theorem ids_exact p c :
  let ops := all_ops (cget (st_clients (run p)) c) in
  map o_id ops = ids_upto (List.length ops) /\ c_count (cget (st_clients (run p)) c) = N.of_nat (List.length ops).
Proof. destruct (all_cinv p c) as (_ & Hc & Hids). split; assumption. Qed.

Lemma client_calls_from_snoc p : forall pre c x,
  client_calls_from pre c (p ++ [x])
  = client_calls_from pre c p ++ match x with SClient y cc => if y =? c then [(pre ++ p, cc)] else [] | _ => [] end.
Proof.
  induction p as [|s p IH]; intros pre c x.
  - simpl. rewrite app_nil_r. destruct x; simpl; try reflexivity. rewrite app_nil_r. reflexivity.
  - destruct s; simpl; rewrite IH, <- ?app_assoc; simpl; reflexivity.
Qed.

Lemma client_calls_snoc p c x :
  client_calls c (p ++ [x]) = client_calls c p ++ match x with SClient y cc => if y =? c then [(p, cc)] else [] | _ => [] end.
Proof. unfold client_calls. rewrite client_calls_from_snoc. reflexivity. Qed.

(* every operation client c has queued comes from exactly one AddEntry / ReplaceEntry / DeleteEntry call
   on c, and is what that call had to queue in the state the program had reached *)
Theorem ops_provenance p c :
  all_ops (cget (st_clients (run p)) c)
  = flat_map (fun pc => ops_of_call (st_store (run (fst pc))) (cget (st_clients (run (fst pc))) c) (snd pc))
             (client_calls c p).
Proof.
  induction p as [|x p IH] using rev_ind.
  - reflexivity.
  - rewrite run_snoc, client_calls_snoc, flat_map_app, <- IH.
    destruct x as [y k|y cl|y|y cc];
      try (rewrite cget_step_other by (intros ? ?; discriminate); simpl; rewrite app_nil_r; reflexivity).
    destruct (N.eqb_spec y c) as [->|Hne].
    + rewrite cget_step_same. rewrite client_step_ops by (apply all_cinv). simpl. rewrite app_nil_r. reflexivity.
    + rewrite cget_step_other; [simpl; rewrite app_nil_r; reflexivity|]. intros cc' E. inversion E. congruence.
Qed.

(* messages already queued are never altered: the queue of operations only grows at its end *)
Theorem ops_stable p q c :
  exists l, all_ops (cget (st_clients (run (p ++ q))) c) = all_ops (cget (st_clients (run p)) c) ++ l.
Proof.
  induction q as [|x q IH] using rev_ind.
  - exists []. rewrite !app_nil_r. reflexivity.
  - destruct IH as [l Hl]. rewrite app_assoc, run_snoc.
    destruct x as [y k|y cl|y|y cc];
      try (rewrite cget_step_other by (intros ? ?; discriminate); exists l; exact Hl).
    destruct (N.eq_dec y c) as [->|Hne].
    + rewrite cget_step_same, client_step_ops by (apply all_cinv). rewrite Hl, <- app_assoc. eexists. reflexivity.
    + rewrite cget_step_other; [exists l; exact Hl|]. intros cc' E. inversion E. congruence.
Qed.

(* ---- the lifecycle of a client in a program ---- *)

(* C18_ids_increasing_across_restarts: over the whole life of the fluent client the ids are strictly
   increasing in queue order, hence distinct; and every operation of an earlier client.Client has a
   smaller id than every operation of a later one (the current one included) *)
Theorem ids_across_restarts p c :
  let cl := cget (st_clients (run p)) c in
  StronglySorted N.lt (map o_id (all_ops cl))
  /\ NoDup (map o_id (all_ops cl))
  /\ (forall l1 a l2 b l3 x y, incarnations cl = l1 ++ a :: l2 ++ b :: l3 ->
        In x (inc_ops a) -> In y (inc_ops b) -> o_id x < o_id y).
Proof.
  cbv zeta. destruct (all_cinv p c) as (_ & _ & Hids).
  assert (Hs : StronglySorted N.lt (map o_id (all_ops (cget (st_clients (run p)) c)))).
  { rewrite Hids. apply nseq_sorted. }
  split; [exact Hs|]. split; [apply sorted_lt_nodup; exact Hs|].
  intros l1 a l2 b l3 x y Hinc Hx Hy.
  unfold all_ops in Hs. rewrite Hinc in Hs.
  rewrite flat_map_app in Hs. simpl in Hs. rewrite flat_map_app in Hs. simpl in Hs.
  rewrite !map_app in Hs. apply sorted_app_r in Hs.
  apply (sorted_app_lt _ _ Hs (o_id x) (o_id y)).
  - apply in_map. exact Hx.
  - apply in_or_app. right. apply in_or_app. left. apply in_map. exact Hy.
Qed.

(* the replaced client.Clients are never touched again *)
Theorem past_stable p q c :
  exists l, c_past (cget (st_clients (run (p ++ q))) c) = c_past (cget (st_clients (run p)) c) ++ l.
Proof.
  induction q as [|x q IH] using rev_ind.
  - exists []. rewrite !app_nil_r. reflexivity.
  - destruct IH as [l Hl]. rewrite app_assoc, run_snoc.
    destruct x as [y k|y cl|y|y cc];
      try (rewrite cget_step_other by (intros ? ?; discriminate); exists l; exact Hl).
    destruct (N.eq_dec y c) as [->|Hne].
    + rewrite cget_step_same. destruct (client_step_past (st_store (run (p ++ q))) (cget (st_clients (run (p ++ q))) c) cc) as [l' Hl'].
      rewrite Hl', Hl, <- app_assoc. eexists. reflexivity.
    + rewrite cget_step_other; [exists l; exact Hl|]. intros cc' E. inversion E. congruence.
Qed.

(* a call that is not AddEntry / ReplaceEntry / DeleteEntry — Start, Stop, StartSending, UpdateElectionID,
   the connection calls — neither queues an operation nor consumes an id *)
Theorem other_calls_keep_counter p c cc : opk_of cc = None ->
  let cl := cget (st_clients (run p)) c in
  let cl' := cget (st_clients (run (p ++ [SClient c cc]))) c in
  c_count cl' = c_count cl /\ all_ops cl' = all_ops cl.
Proof.
  intros Hk. cbv zeta. rewrite run_snoc, cget_step_same. split.
  - rewrite client_step_count, ops_of_call_none by auto. simpl. lia.
  - rewrite client_step_ops by (apply all_cinv). rewrite ops_of_call_none by auto. apply app_nil_r.
Qed.

(* Start (first or again, after Stop or not) keeps what belongs to the fluent client *)
Theorem restart_keeps p c :
  let cl := cget (st_clients (run p)) c in
  let cl' := cget (st_clients (run (p ++ [SClient c CStart]))) c in
  c_count cl' = c_count cl /\ c_cur cl' = c_cur cl /\ c_mode cl' = c_mode cl /\ c_init cl' = c_init cl
  /\ c_persist cl' = c_persist cl /\ c_fiback cl' = c_fiback cl /\ all_ops cl' = all_ops cl.
Proof.
  cbv zeta. rewrite run_snoc, cget_step_same.
  destruct (start_keeps (st_store (run p)) (cget (st_clients (run p)) c)) as (H1 & H2 & H3 & H4 & H5 & H6).
  repeat (split; [assumption|]). apply start_ops. apply all_cinv.
Qed.

(* ... and, when it passes the election-id check, gives it a fresh client.Client: nothing queued, not
   sending, session parameters and handshake election id from the connection settings as they are now;
   the replaced one (if there was one) becomes the last of the past ones, as it was *)
Theorem restart_fresh p c :
  let cl := cget (st_clients (run p)) c in
  let cl' := cget (st_clients (run (p ++ [SClient c CStart]))) c in
  (c_mode cl =? 2) && (match c_init cl with None => true | Some _ => false end) = false ->
  c_started cl' = true /\ c_sending cl' = false /\ c_stopped cl' = false /\ queued cl' = [] /\ c_fatals cl' = c_fatals cl
  /\ c_params cl' = start_params cl /\ c_elec0 cl' = (if c_mode cl =? 2 then c_init cl else None)
  /\ c_past cl' = c_past cl ++ (if c_started cl then [MkInc (c_sent cl) (c_sendq cl)] else []).
Proof. cbv zeta. rewrite run_snoc, cget_step_same. apply start_fresh. Qed.

Theorem restart_fatal p c :
  let cl := cget (st_clients (run p)) c in
  let cl' := cget (st_clients (run (p ++ [SClient c CStart]))) c in
  (c_mode cl =? 2) && (match c_init cl with None => true | Some _ => false end) = true ->
  c_fatals cl' = c_fatals cl + 1 /\ c_started cl' = c_started cl /\ c_sending cl' = c_sending cl /\ c_stopped cl' = c_stopped cl
  /\ c_sent cl' = c_sent cl /\ c_sendq cl' = c_sendq cl /\ c_past cl' = c_past cl.
Proof. cbv zeta. rewrite run_snoc, cget_step_same. apply start_fatal. Qed.

(* Stop: the current client.Client stops sending and stays in place (later calls queue on it, unsent) *)
Theorem stop_exact p c :
  let cl := cget (st_clients (run p)) c in
  let cl' := cget (st_clients (run (p ++ [SClient c CStop]))) c in
  c_count cl' = c_count cl /\ c_cur cl' = c_cur cl /\ c_mode cl' = c_mode cl /\ c_init cl' = c_init cl
  /\ c_started cl' = c_started cl /\ c_sent cl' = c_sent cl /\ c_sendq cl' = c_sendq cl /\ c_past cl' = c_past cl
  /\ (c_started cl = true -> c_sending cl' = false /\ c_stopped cl' = true).
Proof. cbv zeta. rewrite run_snoc, cget_step_same. apply stop_keeps. Qed.

(* ---- current election id and redundancy mode: the argument of the last call that sets them ---- *)

Lemma enqueue_cur cl m n cur : c_cur (enqueue cl m n cur) = cur.
Proof. unfold enqueue. destruct (c_sending cl); reflexivity. Qed.
Lemma enqueue_mode cl m n cur : c_mode (enqueue cl m n cur) = c_mode cl.
Proof. unfold enqueue. destruct (c_sending cl); reflexivity. Qed.
Lemma enqueue_started cl m n cur : c_started (enqueue cl m n cur) = c_started cl.
Proof. unfold enqueue. destruct (c_sending cl); reflexivity. Qed.

Lemma client_step_cur st cl cc :
  c_cur (client_step st cl cc) = match sets_cur (c_started cl) cc with Some v => v | None => c_cur cl end.
Proof.
  destruct cc; simpl; try reflexivity;
    try (unfold modify; destruct (c_started cl); [apply enqueue_cur|reflexivity]).
  - destruct ((c_mode cl =? 2) && _); reflexivity.
  - destruct (c_started cl); reflexivity.
  - destruct (c_started cl && negb (c_sending cl) && negb (c_stopped cl)); reflexivity.
Qed.

Lemma client_step_mode st cl cc :
  c_mode (client_step st cl cc) = match sets_mode cc with Some v => v | None => c_mode cl end.
Proof.
  destruct cc; simpl; try reflexivity;
    try (unfold modify; destruct (c_started cl); [apply enqueue_mode|reflexivity]).
  - destruct ((c_mode cl =? 2) && _); reflexivity.
  - destruct (c_started cl); reflexivity.
  - destruct (c_started cl && negb (c_sending cl) && negb (c_stopped cl)); reflexivity.
Qed.

Theorem cur_exact p c :
  c_cur (cget (st_clients (run p)) c)
  = last_or (fun pc => sets_cur (c_started (cget (st_clients (run (fst pc))) c)) (snd pc)) None (client_calls c p).
Proof.
  induction p as [|x p IH] using rev_ind.
  - reflexivity.
  - rewrite run_snoc, client_calls_snoc, last_or_app, <- IH.
    destruct x as [y k|y cl|y|y cc];
      try (rewrite cget_step_other by (intros ? ?; discriminate); reflexivity).
    destruct (N.eqb_spec y c) as [->|Hne].
    + rewrite cget_step_same, client_step_cur. reflexivity.
    + rewrite cget_step_other; [reflexivity|]. intros cc' E. inversion E. congruence.
Qed.

Theorem mode_exact p c :
  c_mode (cget (st_clients (run p)) c) = last_or (fun pc => sets_mode (snd pc)) 0 (client_calls c p).
Proof.
  induction p as [|x p IH] using rev_ind.
  - reflexivity.
  - rewrite run_snoc, client_calls_snoc, last_or_app, <- IH.
    destruct x as [y k|y cl|y|y cc];
      try (rewrite cget_step_other by (intros ? ?; discriminate); reflexivity).
    destruct (N.eqb_spec y c) as [->|Hne].
    + rewrite cget_step_same, client_step_mode. reflexivity.
    + rewrite cget_step_other; [reflexivity|]. intros cc' E. inversion E. congruence.
Qed.

(* ---- OpProto / EntryProto observations ---- *)

Lemma proto_calls_from_snoc p : forall pre x,
  proto_calls_from pre (p ++ [x]) = proto_calls_from pre p ++ match x with SProto b => [(pre ++ p, b)] | _ => [] end.
Proof.
  induction p as [|s p IH]; intros pre x.
  - simpl. rewrite app_nil_r. destruct x; reflexivity.
  - destruct s; simpl; rewrite IH, <- ?app_assoc; simpl; reflexivity.
Qed.

Lemma proto_calls_snoc p x :
  proto_calls (p ++ [x]) = proto_calls p ++ match x with SProto b => [(p, b)] | _ => [] end.
Proof. unfold proto_calls. rewrite proto_calls_from_snoc. reflexivity. Qed.

Theorem protos_exact p :
  st_protos (run p)
  = flat_map (fun pb => let st := st_store (run (fst pb)) in
                        match sget st (snd pb) with
                        | Some (BE e) => [(op_proto st e, entry_proto st e)]
                        | _ => []
                        end) (proto_calls p).
Proof.
  induction p as [|x p IH] using rev_ind.
  - reflexivity.
  - rewrite run_snoc, proto_calls_snoc, flat_map_app, <- IH.
    destruct x as [y k|y cl|y|y cc]; simpl.
    + rewrite app_nil_r. destruct (sget (st_store (run p)) y); reflexivity.
    + rewrite app_nil_r. destruct (sget (st_store (run p)) y); reflexivity.
    + destruct (sget (st_store (run p)) y) as [[e|ls|m]|]; simpl; rewrite ?app_nil_r; reflexivity.
    + rewrite app_nil_r. reflexivity.
Qed.

(* the shape of one queued operation *)
Lemma in_ops_of_call st cl cc o : In o (ops_of_call st cl cc) ->
  exists k bs e, opk_of cc = Some (k, bs) /\ c_started cl = true /\ In e (entries st bs)
    /\ o_op o = k /\ o_ni o = b_ni e /\ o_entry o = payload_of st (b_pb e)
    /\ o_elec o = match b_elec e with Some own => Some own | None => if c_mode cl =? 2 then c_cur cl else None end.
Proof.
  unfold ops_of_call. destruct (opk_of cc) as [[k bs]|]; [|intros []].
  destruct (c_started cl); [|intros []].
  intros H. apply in_map_iff in H. destruct H as ([i e] & <- & Hin).
  exists k, bs, e. apply in_combine_r in Hin. repeat split; auto.
Qed.

Lemma in_entries st bs e : In e (entries st bs) -> exists b, In b bs /\ sget st b = Some (BE e).
Proof.
  unfold entries. intros H. apply in_flat_map in H. destruct H as (b & Hb & He).
  exists b. split; auto. destruct (sget st b) as [[e'|?|?]|]; simpl in He; try contradiction.
  destruct He as [->|[]]. reflexivity.
Qed.

(* where a queued operation comes from, and what it therefore carries *)
Theorem op_origin p c o : In o (all_ops (cget (st_clients (run p)) c)) ->
  exists pre cc k bs b e,
    In (pre, cc) (client_calls c p) /\ opk_of cc = Some (k, bs) /\ In b bs /\ spec_store pre b = Some (BE e)
    /\ o_op o = k /\ o_ni o = b_ni e /\ o_entry o = payload_of (st_store (run pre)) (b_pb e)
    /\ o_elec o = match b_elec e with
                  | Some own => Some own
                  | None => if c_mode (cget (st_clients (run pre)) c) =? 2 then c_cur (cget (st_clients (run pre)) c) else None
                  end.
Proof.
  rewrite ops_provenance. intros H. apply in_flat_map in H. destruct H as ([pre cc] & Hin & Ho). simpl in Ho.
  apply in_ops_of_call in Ho. destruct Ho as (k & bs & e & Hk & _ & He & H1 & H2 & H3 & H4).
  apply in_entries in He. destruct He as (b & Hb & Hs). rewrite store_exact in Hs.
  exists pre, cc, k, bs, b, e. repeat split; auto.
Qed.

(* the same with the payload read off the tables alone *)
Corollary op_fields_exact p c o : In o (all_ops (cget (st_clients (run p)) c)) ->
  exists pre cc k bs b e,
    In (pre, cc) (client_calls c p) /\ opk_of cc = Some (k, bs) /\ In b bs /\ spec_store pre b = Some (BE e)
    /\ o_ni o = b_ni e /\ o_entry o = payload_with (spec_resolve pre) (b_pb e).
Proof.
  intros H. destruct (op_origin p c o H) as (pre & cc & k & bs & b & e & H1 & H2 & H3 & H4 & _ & H6 & H7 & _).
  exists pre, cc, k, bs, b, e. rewrite payload_exact in H7. repeat split; auto.
Qed.

Corollary op_type_exact p c o : In o (all_ops (cget (st_clients (run p)) c)) ->
  exists pre cc k bs, In (pre, cc) (client_calls c p) /\ opk_of cc = Some (k, bs) /\ o_op o = k.
Proof.
  intros H. destruct (op_origin p c o H) as (pre & cc & k & bs & b & e & H1 & H2 & _ & _ & H5 & _).
  exists pre, cc, k, bs. auto.
Qed.

Corollary op_type_range p c o : In o (all_ops (cget (st_clients (run p)) c)) -> o_op o = 1 \/ o_op o = 2 \/ o_op o = 3.
Proof.
  intros H. destruct (op_type_exact p c o H) as (pre & cc & k & bs & _ & Hk & <-).
  destruct cc; simpl in Hk; inversion Hk; auto.
Qed.

Corollary stamp_exact p c o : In o (all_ops (cget (st_clients (run p)) c)) ->
  exists pre cc k bs b e,
    In (pre, cc) (client_calls c p) /\ opk_of cc = Some (k, bs) /\ In b bs /\ spec_store pre b = Some (BE e)
    /\ let cl := cget (st_clients (run pre)) c in
       o_elec o = match b_elec e with
                  | Some own => Some own
                  | None => if c_mode cl =? 2 then c_cur cl else None
                  end.
Proof.
  intros H. destruct (op_origin p c o H) as (pre & cc & k & bs & b & e & H1 & H2 & H3 & H4 & _ & _ & _ & H8).
  exists pre, cc, k, bs, b, e. auto.
Qed.
